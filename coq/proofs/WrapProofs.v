(* Proofs about coq/model/Wrap.v (C20).

   Part 1: facts about wrap_line_base that hold for ANY tokenizer meeting a
           four-lemma interface (whitespace skipping, token followed by
           whitespace, token at end of input, empty input).
   Part 2: shlex.split(posix=False) meets the interface.
   Part 3: the repaired tokenizer meets the interface.
   Part 4: target-language reading (tscan) factors through the repaired
           tokenizer; layout theorem and its refutation for shlex.          *)
From Coq Require Import List String Ascii ZArith Bool Lia ZifyBool.
Import ListNotations.
From Dagrt Require Import Wrap.
Open Scope Z_scope.

Definition all_ws (s : str) : Prop := Forall (fun c => is_ws c = true) s.

Definition prepend (g : list str) (r : lexres) : lexres :=
  match r with LexOk ts => LexOk (g ++ ts) | LexValueError => LexValueError end.

Lemma cons_tok_ok t r ts : cons_tok t r = LexOk ts -> exists ts', r = LexOk ts' /\ ts = t :: ts'.
Proof. destruct r; simpl; intros H; inversion H; eauto. Qed.

Lemma slen_app (a b : str) : slen (a ++ b) = slen a + slen b.
Proof. unfold slen. rewrite app_length. lia. Qed.

Lemma slen_cons c (a : str) : slen (c :: a) = 1 + slen a.
Proof. unfold slen. simpl List.length. lia. Qed.

Lemma slen_nonneg (a : str) : 0 <= slen a.
Proof. unfold slen. lia. Qed.

Lemma slen_spaces n : slen (spaces n) = Z.max 0 n.
Proof. unfold slen, spaces. rewrite repeat_length. lia. Qed.

Lemma all_ws_spaces n : all_ws (spaces n).
Proof. unfold all_ws, spaces. induction (Z.to_nat n); simpl; constructor; auto. Qed.

Lemma all_ws_app a b : all_ws a -> all_ws b -> all_ws (a ++ b).
Proof. unfold all_ws. intros. apply Forall_app; auto. Qed.

Lemma join_sp_cons2 t t2 r : join_sp (t :: t2 :: r) = t ++ sp :: join_sp (t2 :: r).
Proof. reflexivity. Qed.

Lemma join_sp_snoc g w : g <> [] -> join_sp (g ++ [w]) = join_sp g ++ sp :: w.
Proof.
  destruct g as [|t r]; [congruence|]. intros _. simpl.
  rewrite map_app, concat_app. simpl. rewrite app_nil_r, <- app_assoc. reflexivity.
Qed.

(* ================================================================== *)
(* Part 1: wrap_line_base over an abstract tokenizer                    *)

(* ---- the loop, without the at_line_start flag ---- *)
Section Pack.
  Variables (m : ascii) (ind : str) (ilen width : Z).
  Let pad := pad_with m.
  Let pw := width - ilen.

  Definition fits (cur w : str) (has_next : bool) : bool :=
    let next_len := ilen + slen cur + 1 + slen w in
    (next_len <? width) || (negb has_next && (next_len =? width)).

  Fixpoint pack (cur : str) (toks : list str) : list str :=
    match toks with
    | [] => [cur]
    | w :: r =>
        if fits cur w (negb (is_nil r)) then pack (cur ++ sp :: w) r
        else pad cur pw :: pack (ind ++ w) r
    end.

  Lemma wrap_loop_pack : forall toks lines cur,
    let st := wrap_loop pad ind ilen width (mkW lines false cur) toks in
    rev (w_lines st) ++ [w_cur st] = rev lines ++ pack cur toks.
  Proof.
    induction toks as [|w r IH]; intros lines cur; simpl; [reflexivity|].
    unfold wrap_step; simpl. fold (fits cur w (negb (is_nil r))).
    destruct (fits cur w (negb (is_nil r))); simpl.
    - apply IH.
    - rewrite IH. simpl. rewrite <- app_assoc. reflexivity.
  Qed.

  (* ---- which tokens go on which line: (prefix, group) per line ---- *)
  Definition text (pg : str * list str) : str := fst pg ++ join_sp (snd pg).

  Fixpoint layout (pre : str) (g : list str) (toks : list str) : list (str * list str) :=
    match toks with
    | [] => [(pre, g)]
    | w :: r =>
        if fits (pre ++ join_sp g) w (negb (is_nil r)) then layout pre (g ++ [w]) r
        else (pre, g) :: layout ind [w] r
    end.

  Fixpoint render (l : list (str * list str)) : list str :=
    match l with
    | [] => []
    | pg :: r => match r with [] => [text pg] | _ => pad (text pg) pw :: render r end
    end.

  (* continuation markers removed *)
  Fixpoint render0 (l : list (str * list str)) : list str :=
    match l with
    | [] => []
    | pg :: r => match r with
                 | [] => [text pg]
                 | _ => (text pg ++ spaces (pw - 1 - slen (text pg))) :: render0 r
                 end
    end.

  Lemma layout_nonnil pre g toks : layout pre g toks <> [].
  Proof.
    revert pre g; induction toks as [|w r IH]; intros; simpl; [congruence|].
    destruct (fits _ _ _); [apply IH|congruence].
  Qed.

  Lemma render_cons pg r : r <> [] -> render (pg :: r) = pad (text pg) pw :: render r.
  Proof. destruct r; [congruence|reflexivity]. Qed.

  Lemma render_nonnil l : l <> [] -> render l <> [].
  Proof. destruct l as [|pg [|]]; simpl; congruence. Qed.

  Lemma pack_layout : forall toks pre g, g <> [] ->
    pack (pre ++ join_sp g) toks = render (layout pre g toks).
  Proof.
    induction toks as [|w r IH]; intros pre g Hg; simpl; [reflexivity|].
    destruct (fits (pre ++ join_sp g) w (negb (is_nil r))).
    - rewrite <- IH by (destruct g; simpl; congruence).
      rewrite join_sp_snoc by assumption. rewrite <- app_assoc. reflexivity.
    - rewrite render_cons by apply layout_nonnil.
      rewrite <- IH by congruence. simpl. rewrite app_nil_r. reflexivity.
  Qed.

  Lemma unmark_render l : unmark (render l) = render0 l.
  Proof.
    induction l as [|pg r IH]; [reflexivity|].
    destruct r as [|pg2 r']; [reflexivity|].
    change (render (pg :: pg2 :: r')) with (pad (text pg) pw :: render (pg2 :: r')).
    change (render0 (pg :: pg2 :: r'))
      with ((text pg ++ spaces (pw - 1 - slen (text pg))) :: render0 (pg2 :: r')).
    rewrite <- IH.
    assert (Hne : render (pg2 :: r') <> []) by (apply render_nonnil; congruence).
    destruct (render (pg2 :: r')) as [|x xs] eqn:E; [congruence|].
    cbn [unmark]. f_equal.
    unfold pad, pad_with. rewrite app_assoc. apply removelast_last.
  Qed.

  (* ---- partition facts ---- *)
  Lemma layout_concat : forall toks pre g,
    List.concat (map snd (layout pre g toks)) = g ++ toks.
  Proof.
    induction toks as [|w r IH]; intros; simpl.
    - rewrite !app_nil_r. reflexivity.
    - destruct (fits _ _ _).
      + rewrite IH, <- app_assoc. reflexivity.
      + simpl. rewrite IH. reflexivity.
  Qed.

  Lemma layout_groups_nonempty : forall toks pre g, g <> [] ->
    Forall (fun pg => snd pg <> []) (layout pre g toks).
  Proof.
    induction toks as [|w r IH]; intros pre g Hg; simpl.
    - constructor; auto.
    - destruct (fits _ _ _).
      + apply IH. destruct g; simpl; congruence.
      + constructor; auto. apply IH. congruence.
  Qed.

  Lemma layout_prefixes : forall toks pre g,
    exists g' rest, layout pre g toks = (pre, g') :: rest /\ Forall (fun pg => fst pg = ind) rest.
  Proof.
    induction toks as [|w r IH]; intros pre g; simpl.
    - eauto.
    - destruct (fits _ _ _).
      + apply IH.
      + destruct (IH ind [w]) as (g' & rest & E & F). rewrite E. eauto.
  Qed.

  (* ---- width ---- *)
  Definition line_ok (is_last : bool) (pg : str * list str) : Prop :=
    (2 <= List.length (snd pg))%nat ->
    ilen + slen (text pg) <= width /\ (is_last = false -> ilen + slen (text pg) < width).

  Fixpoint all_lines (P : bool -> str * list str -> Prop) (l : list (str * list str)) : Prop :=
    match l with
    | [] => True
    | pg :: r => match r with [] => P true pg | _ => P false pg /\ all_lines P r end
    end.

  Lemma all_lines_cons P pg r : r <> [] -> all_lines P (pg :: r) <-> P false pg /\ all_lines P r.
  Proof. destruct r; [congruence|]. intros _. simpl. tauto. Qed.

  Lemma layout_width : forall toks pre g,
    ((2 <= List.length g)%nat ->
       ilen + slen (pre ++ join_sp g) <= width /\
       (toks <> [] -> ilen + slen (pre ++ join_sp g) < width)) ->
    all_lines line_ok (layout pre g toks).
  Proof.
    induction toks as [|w r IH]; intros pre g H; simpl.
    - unfold line_ok, text; simpl. intros H2. destruct (H H2). split; auto. discriminate.
    - destruct (fits (pre ++ join_sp g) w (negb (is_nil r))) eqn:F.
      + apply IH. intros _.
        assert (L : slen (pre ++ join_sp (g ++ [w])) <= slen (pre ++ join_sp g) + 1 + slen w).
        { destruct g as [|t g'].
          - simpl. rewrite !app_nil_r, slen_app. lia.
          - rewrite join_sp_snoc by congruence.
            rewrite !slen_app, slen_cons. lia. }
        unfold fits in F.
        destruct r as [|w2 r']; cbn [is_nil negb andb] in F.
        * split; [lia|congruence].
        * split; [lia|intros _; lia].
      + apply all_lines_cons; [apply layout_nonnil|]. split.
        * unfold line_ok, text; simpl. intros H2. destruct (H H2) as [A B].
          split; [exact A|]. intros _. apply B. congruence.
        * apply IH. simpl. intros; lia.
  Qed.

  Lemma pad_fits_len t : slen t <= pw - 1 -> slen (pad t pw) = pw.
  Proof.
    intros. unfold pad, pad_with. rewrite !slen_app, slen_spaces, slen_cons. change (slen []) with 0. lia.
  Qed.

  Lemma render_width : forall l, all_lines line_ok l ->
    Forall2 (fun pg line => (2 <= List.length (snd pg))%nat -> ilen + slen line <= width) l (render l).
  Proof.
    induction l as [|pg r IH]; intros H; [constructor|].
    destruct r as [|pg2 r'].
    - simpl. constructor; [|constructor]. intros H2. apply (H H2).
    - change (render (pg :: pg2 :: r')) with (pad (text pg) pw :: render (pg2 :: r')).
      apply all_lines_cons in H; [|congruence]. destruct H as [Hp Hr].
      constructor; [|apply IH; exact Hr].
      intros H2. destruct (Hp H2) as [_ B]. specialize (B eq_refl).
      rewrite pad_fits_len; unfold pw; lia.
  Qed.

  (* ---- shape of the lines: markers and indentation ---- *)
  Lemma render_marked : forall l,
    Forall (fun line => exists t, line = t ++ spaces (pw - 1 - slen t) ++ [m] /\
                                  (slen t <= pw - 1 -> slen line = pw))
           (removelast (render l)).
  Proof.
    induction l as [|pg r IH]; [constructor|].
    destruct r as [|pg2 r'].
    - simpl. constructor.
    - change (render (pg :: pg2 :: r')) with (pad (text pg) pw :: render (pg2 :: r')).
      assert (Hne : render (pg2 :: r') <> []) by (apply render_nonnil; congruence).
      destruct (render (pg2 :: r')) as [|x xs] eqn:E; [congruence|].
      cbn [removelast]. constructor; [|exact IH].
      exists (text pg). split; [reflexivity|]. apply pad_fits_len.
  Qed.

  Lemma render_last_unmarked : forall l d, l <> [] -> last (render l) d = text (last l ([], [])).
  Proof.
    induction l as [|pg r IH]; intros d H; [congruence|].
    destruct r as [|pg2 r']; [reflexivity|].
    change (render (pg :: pg2 :: r')) with (pad (text pg) pw :: render (pg2 :: r')).
    assert (Hne : render (pg2 :: r') <> []) by (apply render_nonnil; congruence).
    assert (L : forall (A : Type) (a : A) l d, l <> [] -> last (a :: l) d = last l d).
    { intros A a l0 d0 Hl. destruct l0; [congruence|reflexivity]. }
    rewrite L by assumption. rewrite (IH d) by congruence.
    rewrite (L _ pg (pg2 :: r')) by congruence. reflexivity.
  Qed.

  Lemma render_indented : forall l, Forall (fun pg => fst pg = ind) l ->
    Forall (fun line => exists rest, line = ind ++ rest) (render l).
  Proof.
    induction l as [|pg r IH]; intros H; [constructor|].
    inversion_clear H as [|? ? Hpg Hr].
    destruct r as [|pg2 r'].
    - simpl. constructor; [|constructor]. unfold text. rewrite Hpg. eauto.
    - change (render (pg :: pg2 :: r')) with (pad (text pg) pw :: render (pg2 :: r')).
      constructor; [|apply IH; exact Hr].
      unfold pad, pad_with, text. rewrite Hpg, <- app_assoc. eauto.
  Qed.
End Pack.

Lemma wrap_tokens_pack m ind level width toks :
  wrap_tokens (pad_with m) ind level width toks =
  match toks with
  | [] => [[]]
  | w :: r => pack m ind (slen (times level ind)) width w r
  end.
Proof.
  unfold wrap_tokens. destruct toks as [|w r]; [reflexivity|].
  cbn [wrap_loop]. unfold wrap_step at 1. cbn [w_start w_lines w_cur app].
  apply (wrap_loop_pack m ind (slen (times level ind)) width r [] w).
Qed.

(* the layout of a wrapped line: one (prefix, tokens) pair per output line *)
Definition layout_of (ind : str) (level : nat) (width : Z) (toks : list str) : list (str * list str) :=
  match toks with
  | [] => [([], [])]
  | w :: r => layout ind (slen (times level ind)) width [] [w] r
  end.

Lemma wrap_tokens_render m ind level width toks :
  wrap_tokens (pad_with m) ind level width toks =
  render m (slen (times level ind)) width (layout_of ind level width toks).
Proof.
  rewrite wrap_tokens_pack. destruct toks as [|w r]; [reflexivity|].
  unfold layout_of. rewrite <- pack_layout by congruence. simpl. rewrite app_nil_r. reflexivity.
Qed.

(* ---- reading the output back with an abstract tokenizer ---- *)
Section Generic.
  Variable lexf : str -> lexres.
  Variable tokok : str -> Prop.
  Hypothesis lex_ws : forall w s, all_ws w -> lexf (w ++ s) = lexf s.
  Hypothesis lex_nil : lexf [] = LexOk [].
  Hypothesis tok_sep : forall t c s, tokok t -> is_ws c = true ->
                                     lexf (t ++ c :: s) = cons_tok t (lexf s).
  Hypothesis tok_end : forall t, tokok t -> lexf t = LexOk [t].

  Lemma lex_tok_ws t w : tokok t -> all_ws w -> lexf (t ++ w) = LexOk [t].
  Proof.
    intros Ht Hw. destruct w as [|c w'].
    - rewrite app_nil_r. auto.
    - inversion Hw; subst. rewrite tok_sep by assumption.
      rewrite <- (app_nil_r w'), lex_ws, lex_nil by assumption. reflexivity.
  Qed.

  (* tokens separated by single spaces, then whitespace, then anything *)
  Lemma lex_join_then : forall g w s, Forall tokok g -> g <> [] -> all_ws w -> w <> [] ->
    lexf (join_sp g ++ w ++ s) = prepend g (lexf s).
  Proof.
    induction g as [|t g IH]; intros w s Hg Hne Hw Hwne; [congruence|].
    inversion Hg as [|? ? Ht Hg']; subst.
    destruct g as [|t2 r].
    - simpl. rewrite app_nil_r. destruct w as [|c w']; [congruence|].
      inversion Hw; subst. simpl. rewrite tok_sep, lex_ws by assumption.
      destruct (lexf s); reflexivity.
    - rewrite join_sp_cons2. rewrite <- app_assoc. simpl.
      rewrite tok_sep by (auto; reflexivity).
      rewrite IH by (auto; congruence).
      destruct (lexf s); reflexivity.
  Qed.

  Lemma lex_join_end : forall g w, Forall tokok g -> all_ws w -> lexf (join_sp g ++ w) = LexOk g.
  Proof.
    induction g as [|t g IH]; intros w Hg Hw.
    - simpl. rewrite <- (app_nil_r w), lex_ws, lex_nil by assumption. reflexivity.
    - inversion Hg as [|? ? Ht Hg']; subst. destruct g as [|t2 r].
      + simpl. rewrite app_nil_r. apply lex_tok_ws; assumption.
      + rewrite join_sp_cons2. rewrite <- app_assoc. simpl.
        rewrite tok_sep by (auto; reflexivity). rewrite IH by assumption. reflexivity.
  Qed.

  (* C20_relex *)
  Lemma relex g : Forall tokok g -> lexf (join_sp g) = LexOk g.
  Proof. intros. rewrite <- (app_nil_r (join_sp g)). apply lex_join_end; [assumption|constructor]. Qed.

  Section Lines.
    Variables (m : ascii) (ilen width : Z).

    Definition good_line (pg : str * list str) : Prop :=
      all_ws (fst pg) /\ snd pg <> [] /\ Forall tokok (snd pg).

    Lemma joined_render0_head pg r : exists Y, List.concat (render0 ilen width (pg :: r)) = fst pg ++ Y.
    Proof.
      destruct r as [|pg2 r']; simpl; unfold text; rewrite <- !app_assoc; eauto.
    Qed.

    (* per line *)
    Fixpoint lex_all (lines : list str) : lexres :=
      match lines with
      | [] => LexOk []
      | l :: r => match lexf l with LexOk g => prepend g (lex_all r) | LexValueError => LexValueError end
      end.

    Lemma lex_all_render0 : forall l, Forall good_line l ->
      lex_all (render0 ilen width l) = LexOk (List.concat (map snd l)).
    Proof.
      induction l as [|pg r IH]; intros H; [reflexivity|].
      inversion H as [|? ? (Hw & Hne & Hg) Hr]; subst.
      destruct r as [|pg2 r'].
      - simpl. unfold text. rewrite lex_ws by assumption.
        rewrite <- (app_nil_r (join_sp (snd pg))), lex_join_end by (auto; constructor).
        simpl. rewrite !app_nil_r. reflexivity.
      - change (render0 ilen width (pg :: pg2 :: r')) with
          ((text pg ++ spaces (width - ilen - 1 - slen (text pg))) :: render0 ilen width (pg2 :: r')).
        cbn [lex_all]. unfold text at 1. rewrite <- app_assoc, lex_ws by assumption.
        rewrite lex_join_end by (auto using all_ws_spaces).
        rewrite (IH Hr). reflexivity.
    Qed.

    (* physical lines joined *)
    Lemma lex_joined_render0 : forall l, l <> [] -> Forall good_line l ->
      Forall (fun pg => fst pg <> []) (tl l) ->
      lexf (List.concat (render0 ilen width l)) = LexOk (List.concat (map snd l)).
    Proof.
      induction l as [|pg r IH]; intros Hne H Hpre; [congruence|].
      inversion H as [|? ? (Hw & Hgne & Hg) Hr]; subst.
      destruct r as [|pg2 r'].
      - simpl. rewrite !app_nil_r. unfold text. rewrite lex_ws by assumption.
        apply relex. assumption.
      - change (render0 ilen width (pg :: pg2 :: r')) with
          ((text pg ++ spaces (width - ilen - 1 - slen (text pg))) :: render0 ilen width (pg2 :: r')).
        cbn [List.concat].
        destruct (joined_render0_head pg2 r') as [Y EY].
        assert (IH' := IH ltac:(congruence) Hr ltac:(inversion Hpre; assumption)).
        rewrite EY in *.
        inversion Hr as [|? ? (Hw2 & _) _]; subst.
        rewrite lex_ws in IH' by assumption.
        unfold text at 1. rewrite <- !app_assoc. rewrite lex_ws by assumption.
        rewrite (app_assoc (spaces _) (fst pg2) Y).
        rewrite lex_join_then; auto.
        + rewrite IH'. reflexivity.
        + apply all_ws_app; [apply all_ws_spaces|assumption].
        + inversion Hpre; subst. destruct (spaces _); simpl; [assumption|congruence].
    Qed.
  End Lines.

  (* ---- the theorems about wrap_tokens, for token lists of this tokenizer ---- *)
  Section Wrapped.
    Variables (m : ascii) (ind : str) (level : nat) (width : Z).
    Hypothesis ind_ws : all_ws ind.

    Lemma layout_good toks : toks <> [] -> Forall tokok toks ->
      Forall good_line (layout_of ind level width toks).
    Proof.
      intros Hne Hok. destruct toks as [|w r]; [congruence|]. unfold layout_of.
      set (ilen := slen (times level ind)).
      pose proof (layout_groups_nonempty ind ilen width r [] [w] ltac:(congruence)) as Hn.
      pose proof (layout_concat ind ilen width r [] [w]) as Hc.
      destruct (layout_prefixes ind ilen width r [] [w]) as (g' & rest & E & Hp).
      assert (Hall : Forall tokok (List.concat (map snd (layout ind ilen width [] [w] r)))).
      { rewrite Hc. exact Hok. }
      clear Hc.
      assert (Hws : Forall (fun pg : str * list str => all_ws (fst pg))
                           (layout ind ilen width [] [w] r)).
      { rewrite E. constructor; [constructor|]. eapply Forall_impl; [|exact Hp].
        intros a Ha. simpl in Ha. simpl. rewrite Ha. exact ind_ws. }
      clear E Hp.
      revert Hn Hall Hws. generalize (layout ind ilen width [] [w] r). clear.
      induction l as [|pg l IH]; intros Hn Hall Hws; [constructor|].
      inversion Hn; inversion Hws; subst. simpl in Hall. apply Forall_app in Hall. destruct Hall.
      constructor; [repeat split; assumption|]. apply IH; assumption.
    Qed.

    Lemma layout_tl_prefix toks : ind <> [] ->
      Forall (fun pg : str * list str => fst pg <> []) (tl (layout_of ind level width toks)).
    Proof.
      intros Hind. destruct toks as [|w r]; [constructor|]. unfold layout_of.
      destruct (layout_prefixes ind (slen (times level ind)) width r [] [w]) as (g' & rest & E & Hp).
      rewrite E. simpl. eapply Forall_impl; [|exact Hp]. intros a Ha. simpl in Ha. congruence.
    Qed.

    (* C20_tokens, physical lines joined as a continuation joins them *)
    Theorem wrap_tokens_relex toks : Forall tokok toks -> ind <> [] ->
      lexf (joined (wrap_tokens (pad_with m) ind level width toks)) = LexOk toks.
    Proof.
      intros Hok Hind. unfold joined. rewrite wrap_tokens_render, unmark_render.
      destruct toks as [|w r] eqn:Et.
      - simpl. exact lex_nil.
      - rewrite <- Et in *.
        rewrite lex_joined_render0.
        + unfold layout_of. rewrite Et. rewrite layout_concat. reflexivity.
        + unfold layout_of. rewrite Et. apply layout_nonnil.
        + apply layout_good; [congruence|assumption].
        + apply layout_tl_prefix; assumption.
    Qed.

    (* C20_tokens, line by line (also for an empty indentation string) *)
    Theorem wrap_tokens_relex_lines toks : Forall tokok toks ->
      lex_all (unmark (wrap_tokens (pad_with m) ind level width toks)) = LexOk toks.
    Proof.
      intros Hok. rewrite wrap_tokens_render, unmark_render.
      destruct toks as [|w r] eqn:Et.
      - unfold layout_of, render0, lex_all, text; simpl. rewrite lex_nil. reflexivity.
      - rewrite <- Et in *.
        rewrite lex_all_render0.
        + unfold layout_of. rewrite Et. rewrite layout_concat. reflexivity.
        + apply layout_good; [congruence|assumption].
    Qed.
  End Wrapped.
End Generic.

(* ---- tokenizer-independent facts about the lines ---- *)
Section Shape.
  Variables (m : ascii) (ind : str) (level : nat) (width : Z).
  Let ilen := slen (times level ind).
  Let lay toks := layout_of ind level width toks.

  (* C20_atomic: the output lines are exactly: prefix ++ SPACE.join(group) (+ padding and marker on
     all but the last), the groups partition the token list in order, no group is empty, the first
     prefix is empty and all others are the indentation string. *)
  Theorem wrap_atomic toks : toks <> [] ->
    wrap_tokens (pad_with m) ind level width toks = render m ilen width (lay toks) /\
    List.concat (map snd (lay toks)) = toks /\
    Forall (fun pg => snd pg <> []) (lay toks) /\
    exists g rest, lay toks = ([], g) :: rest /\ Forall (fun pg => fst pg = ind) rest.
  Proof.
    intros Hne. split; [apply wrap_tokens_render|].
    destruct toks as [|w r]; [congruence|]. unfold lay, layout_of. fold ilen.
    split; [apply layout_concat|]. split; [apply layout_groups_nonempty; congruence|].
    apply layout_prefixes.
  Qed.

  Lemma wrap_empty : wrap_tokens (pad_with m) ind level width [] = [[]].
  Proof. reflexivity. Qed.

  (* C20_width *)
  Theorem wrap_width toks :
    Forall2 (fun pg line => (2 <= List.length (snd pg))%nat -> ilen + slen line <= width)
            (lay toks) (wrap_tokens (pad_with m) ind level width toks).
  Proof.
    rewrite wrap_tokens_render. apply (render_width m ind).
    destruct toks as [|w r]; unfold lay, layout_of; fold ilen.
    - simpl. unfold line_ok. simpl. intros; lia.
    - apply (layout_width m). simpl. intros; lia.
  Qed.

  (* C20_continuation *)
  Theorem wrap_continuation toks :
    let lines := wrap_tokens (pad_with m) ind level width toks in
    Forall (fun line => exists t, line = t ++ spaces (width - ilen - 1 - slen t) ++ [m] /\
                                  (slen t <= width - ilen - 1 -> slen line = width - ilen))
           (removelast lines) /\
    Forall (fun line => exists rest, line = ind ++ rest) (tl lines) /\
    (toks <> [] -> last lines [] = text (last (lay toks) ([], []))).
  Proof.
    intros lines. unfold lines. rewrite wrap_tokens_render. fold ilen. split; [apply render_marked|].
    split.
    - destruct toks as [|w r]; [constructor|]. unfold layout_of. fold ilen.
      destruct (layout_prefixes ind ilen width r [] [w]) as (g' & rest & E & Hp).
      rewrite E. destruct rest as [|pg2 rest']; [constructor|].
      change (render m ilen width (([], g') :: pg2 :: rest'))
        with (pad_with m (text ([], g')) (width - ilen) :: render m ilen width (pg2 :: rest')).
      cbn [tl]. apply render_indented. exact Hp.
    - intros Hne. apply render_last_unmarked.
      destruct toks; [congruence|]. unfold layout_of. apply layout_nonnil.
  Qed.
End Shape.

(* ================================================================== *)
(* Part 2: shlex.split(posix=False)                                     *)

Definition nonws (s : str) : Prop := Forall (fun c => is_ws c = false) s.

(* the tokens shlex can produce *)
Inductive shtok : str -> Prop :=
| shtok_word c body : is_ws c = false -> is_quote c = false -> nonws body -> shtok (c :: body)
| shtok_quoted q body : is_quote q = true -> ~ In q body -> shtok (q :: body ++ [q]).

Lemma quote_not_ws q : is_quote q = true -> is_ws q = false.
Proof.
  unfold is_quote. intros H. apply orb_true_iff in H.
  destruct H as [H|H]; apply Ascii.eqb_eq in H; subst; reflexivity.
Qed.

Lemma shlex_skip_ws : forall w s, all_ws w -> shlex_split (w ++ s) = shlex_split s.
Proof.
  unfold shlex_split. induction w as [|c w IH]; intros s H; [reflexivity|].
  inversion H; subst. simpl. rewrite H2. apply IH. assumption.
Qed.

Lemma lex_word_run : forall body tok s, nonws body ->
  lex_go SWord tok (body ++ s) = lex_go SWord (rev body ++ tok) s.
Proof.
  induction body as [|c b IH]; intros tok s H; [reflexivity|].
  inversion H; subst. simpl. rewrite H2, IH by assumption.
  rewrite <- app_assoc. reflexivity.
Qed.

Lemma lex_quote_run : forall body q tok s, ~ In q body ->
  lex_go (SQuote q) tok (body ++ q :: s) =
  cons_tok (rev tok ++ body ++ [q]) (lex_go SSpace [] s).
Proof.
  induction body as [|c b IH]; intros q tok s H.
  - simpl. rewrite Ascii.eqb_refl. reflexivity.
  - simpl. destruct (Ascii.eqb c q) eqn:E.
    + apply Ascii.eqb_eq in E. subst. exfalso. apply H. left. reflexivity.
    + rewrite IH by (intros HI; apply H; right; exact HI).
      simpl. rewrite <- app_assoc. reflexivity.
Qed.

Lemma shlex_tok_sep t c s : shtok t -> is_ws c = true ->
  shlex_split (t ++ c :: s) = cons_tok t (shlex_split s).
Proof.
  intros Ht Hc. unfold shlex_split. destruct Ht as [c0 body Hw Hq Hb | q body Hq Hn].
  - simpl. rewrite Hw, Hq. rewrite lex_word_run by assumption. simpl. rewrite Hc.
    rewrite rev_app_distr, rev_involutive. reflexivity.
  - simpl. rewrite (quote_not_ws q Hq), Hq. rewrite <- app_assoc. simpl.
    rewrite lex_quote_run by assumption. simpl. rewrite Hc. reflexivity.
Qed.

Lemma shlex_tok_end t : shtok t -> shlex_split t = LexOk [t].
Proof.
  intros Ht. unfold shlex_split. destruct Ht as [c0 body Hw Hq Hb | q body Hq Hn].
  - simpl. rewrite Hw, Hq. rewrite <- (app_nil_r body), lex_word_run by assumption. simpl.
    rewrite rev_app_distr, rev_involutive, app_nil_r. reflexivity.
  - simpl. rewrite (quote_not_ws q Hq), Hq.
    rewrite lex_quote_run by assumption. reflexivity.
Qed.

(* every token shlex returns has one of the two shapes *)
Definition lex_inv (st : lstate) (tok : str) : Prop :=
  match st with
  | SSpace => True
  | SWord => exists c body, rev tok = c :: body /\ is_ws c = false /\ is_quote c = false /\ nonws body
  | SQuote q => is_quote q = true /\ exists body, rev tok = q :: body /\ ~ In q body
  end.

Lemma lex_go_sound : forall s st tok ts, lex_go st tok s = LexOk ts -> lex_inv st tok ->
  Forall shtok ts.
Proof.
  induction s as [|c r IH]; intros st tok ts H Inv.
  - destruct st; simpl in H; inversion H; subst; [constructor|].
    destruct Inv as (c0 & body & E & A & B & C). rewrite E.
    constructor; [|constructor]. constructor; assumption.
  - destruct st as [| |q]; simpl in H.
    + destruct (is_ws c) eqn:W; [eapply IH; eauto; exact I|].
      destruct (is_quote c) eqn:Q.
      * eapply IH; eauto. simpl. split; [assumption|]. exists []. split; [reflexivity|]. intros [].
      * eapply IH; eauto. simpl. exists c, []. repeat split; auto. constructor.
    + destruct Inv as (c0 & body & E & A & B & C).
      destruct (is_ws c) eqn:W.
      * apply cons_tok_ok in H. destruct H as (ts' & H & ->).
        constructor; [rewrite E; constructor; assumption|].
        eapply IH; eauto. exact I.
      * eapply IH; eauto. simpl. exists c0, (body ++ [c]). rewrite E. repeat split; auto.
        apply Forall_app. split; [assumption|]. constructor; [assumption|constructor].
    + destruct Inv as (Q & body & E & N).
      destruct (Ascii.eqb c q) eqn:Eq.
      * apply Ascii.eqb_eq in Eq. subst c.
        apply cons_tok_ok in H. destruct H as (ts' & H & ->).
        constructor; [|eapply IH; eauto; exact I].
        simpl. rewrite E. simpl. constructor; assumption.
      * eapply IH; eauto. simpl. split; [assumption|]. exists (body ++ [c]). rewrite E.
        split; [reflexivity|]. intros HI. apply in_app_or in HI. destruct HI as [HI|[HI|[]]]; [auto|].
        subst. rewrite Ascii.eqb_refl in Eq. discriminate.
Qed.

Lemma shlex_sound line ts : shlex_split line = LexOk ts -> Forall shtok ts.
Proof. intros H. eapply lex_go_sound; [exact H|exact I]. Qed.

(* ================================================================== *)
(* Part 3: the repaired tokenizer                                       *)

(* the state after reading [u] inside a token; None = whitespace outside a literal *)
Definition qstep (esc : bool) (st : qstate) (c : ascii) : option qstate :=
  match st with
  | QOut => if is_ws c then None else if is_quote c then Some (QIn c) else Some QOut
  | QIn q => if esc && is_bs c then Some (QEsc q) else if Ascii.eqb c q then Some QOut else Some (QIn q)
  | QEsc q => Some (QIn q)
  end.

Fixpoint qrun (esc : bool) (st : qstate) (u : str) : option qstate :=
  match u with
  | [] => Some st
  | c :: r => match qstep esc st c with Some st' => qrun esc st' r | None => None end
  end.

Definition qtok (esc : bool) (t : str) : Prop := t <> [] /\ qrun esc QOut t = Some QOut.

Lemma qrun_app esc : forall u st v,
  qrun esc st (u ++ v) = match qrun esc st u with Some st' => qrun esc st' v | None => None end.
Proof.
  induction u as [|c u IH]; intros st v; [reflexivity|].
  simpl. destruct (qstep esc st c); [apply IH|reflexivity].
Qed.

Lemma qlex_step esc st c st' tok r : qstep esc st c = Some st' ->
  qlex_go esc st tok (c :: r) = qlex_go esc st' (c :: tok) r.
Proof.
  destruct st as [|q|q]; simpl.
  - destruct (is_ws c); [discriminate|]. destruct (is_quote c); intros H; inversion H; reflexivity.
  - destruct (esc && is_bs c); [intros H; inversion H; reflexivity|].
    destruct (Ascii.eqb c q); intros H; inversion H; reflexivity.
  - intros H; inversion H; reflexivity.
Qed.

Lemma qlex_run esc : forall u st st' tok s, qrun esc st u = Some st' ->
  qlex_go esc st tok (u ++ s) = qlex_go esc st' (rev u ++ tok) s.
Proof.
  induction u as [|c u IH]; intros st st' tok s H.
  - simpl in H. inversion H. reflexivity.
  - simpl in H. destruct (qstep esc st c) as [st1|] eqn:E; [|discriminate].
    simpl app. rewrite (qlex_step esc st c st1) by assumption.
    rewrite (IH st1 st') by assumption. simpl. rewrite <- app_assoc. reflexivity.
Qed.

Lemma qlex_skip_ws esc : forall w s, all_ws w -> quoted_split esc (w ++ s) = quoted_split esc s.
Proof.
  unfold quoted_split. induction w as [|c w IH]; intros s H; [reflexivity|].
  inversion H; subst. simpl. rewrite H2. apply IH. assumption.
Qed.

Lemma qlex_tok_sep esc t c s : qtok esc t -> is_ws c = true ->
  quoted_split esc (t ++ c :: s) = cons_tok t (quoted_split esc s).
Proof.
  intros [Hne Hr] Hc. unfold quoted_split.
  rewrite (qlex_run esc t QOut QOut) by assumption. rewrite app_nil_r. simpl. rewrite Hc.
  destruct (rev t) eqn:E.
  - apply (f_equal (@rev ascii)) in E. rewrite rev_involutive in E. simpl in E. congruence.
  - rewrite <- E, rev_involutive. reflexivity.
Qed.

Lemma qlex_tok_end esc t : qtok esc t -> quoted_split esc t = LexOk [t].
Proof.
  intros [Hne Hr]. unfold quoted_split.
  rewrite <- (app_nil_r t) at 1. rewrite (qlex_run esc t QOut QOut) by assumption.
  rewrite app_nil_r. simpl.
  destruct (rev t) eqn:E.
  - apply (f_equal (@rev ascii)) in E. rewrite rev_involutive in E. simpl in E. congruence.
  - rewrite <- E, rev_involutive. reflexivity.
Qed.

Lemma qlex_go_sound esc : forall s st tok ts, qlex_go esc st tok s = LexOk ts ->
  qrun esc QOut (rev tok) = Some st -> Forall (qtok esc) ts.
Proof.
  induction s as [|c r IH]; intros st tok ts H Inv.
  - destruct st; simpl in H; try discriminate.
    destruct tok as [|a tok']; inversion H; subst; [constructor|].
    constructor; [|constructor]. split; [|assumption].
    simpl. destruct (rev tok'); discriminate.
  - destruct (qstep esc st c) as [st1|] eqn:E.
    + rewrite (qlex_step esc st c st1) in H by assumption.
      eapply IH; [exact H|]. simpl. rewrite qrun_app, Inv. simpl. rewrite E. reflexivity.
    + destruct st as [|q|q]; simpl in E.
      * destruct (is_ws c) eqn:W; [|destruct (is_quote c); discriminate].
        simpl in H. rewrite W in H. destruct tok as [|a tok'].
        -- eapply IH; [exact H|reflexivity].
        -- apply cons_tok_ok in H. destruct H as (ts' & H & ->).
           constructor; [|eapply IH; [exact H|reflexivity]].
           split; [|assumption].
           simpl. destruct (rev tok'); discriminate.
      * destruct (esc && is_bs c); [discriminate|]. destruct (Ascii.eqb c q); discriminate.
      * discriminate.
Qed.

Lemma qlex_sound esc line ts : quoted_split esc line = LexOk ts -> Forall (qtok esc) ts.
Proof. intros H. eapply qlex_go_sound; [exact H|reflexivity]. Qed.

(* the first token returned starts with what has been read of it *)
Lemma qlex_head esc : forall s st tok ts, qlex_go esc st tok s = LexOk ts -> tok <> [] ->
  exists rest ts', ts = (rev tok ++ rest) :: ts'.
Proof.
  induction s as [|c r IH]; intros st tok ts H Hne.
  - destruct st; simpl in H; try discriminate.
    destruct tok; [congruence|]. inversion H. exists [], []. rewrite app_nil_r. reflexivity.
  - destruct (qstep esc st c) as [st1|] eqn:E.
    + rewrite (qlex_step esc st c st1) in H by assumption.
      destruct (IH _ _ _ H ltac:(congruence)) as (rest & ts' & ->).
      exists (c :: rest), ts'. simpl. rewrite <- app_assoc. reflexivity.
    + destruct st as [|q|q]; simpl in E.
      * destruct (is_ws c) eqn:W; [|destruct (is_quote c); discriminate].
        simpl in H. rewrite W in H. destruct tok as [|a tok']; [congruence|].
        apply cons_tok_ok in H. destruct H as (ts' & H & ->).
        exists [], ts'. rewrite app_nil_r. reflexivity.
      * destruct (esc && is_bs c); [discriminate|]. destruct (Ascii.eqb c q); discriminate.
      * discriminate.
Qed.

(* ================================================================== *)
(* Part 4: the target-language reading factors through the repaired
   tokenizer: it only depends on the token list.                         *)

Definition sim (stq : qstate) (stt : tstate) : Prop :=
  match stq, stt with
  | QOut, TOut => True
  | QOut, TClosed q _ => is_quote q = true
  | QIn q, TIn q' _ => q = q' /\ is_quote q = true
  | QEsc q, TEsc q' _ => q = q' /\ is_quote q = true
  | _, _ => False
  end.

(* one character that the tokenizer keeps inside the current token *)
Lemma sim_step esc dbl stq c stq' stt : qstep esc stq c = Some stq' -> sim stq stt ->
  exists stt' (k : scanres -> scanres), sim stq' stt' /\
    forall X, tscan_go esc dbl stt (c :: X) = k (tscan_go esc dbl stt' X).
Proof.
  intros Hs Hsim.
  destruct stq as [|q|q]; destruct stt as [|q' b|q' b|q' b]; simpl in Hsim; try contradiction.
  - simpl in Hs. destruct (is_ws c) eqn:W; [discriminate|].
    destruct (is_quote c) eqn:Q; inversion Hs; subst.
    + exists (TIn c []), (fun x => x). split; [simpl; auto|]. intros X. simpl. rewrite W, Q. reflexivity.
    + exists TOut, (cons_item (Sym c)). split; [exact I|]. intros X. simpl. rewrite W, Q. reflexivity.
  - simpl in Hs. destruct (is_ws c) eqn:W; [discriminate|].
    destruct (dbl && Ascii.eqb c q') eqn:D.
    + apply andb_true_iff in D. destruct D as [D1 D2]. apply Ascii.eqb_eq in D2. subst c.
      rewrite Hsim in Hs. inversion Hs; subst.
      exists (TIn q' (q' :: b)), (fun x => x). split; [simpl; auto|].
      intros X. simpl. rewrite Ascii.eqb_refl. reflexivity.
    + destruct (is_quote c) eqn:Q; inversion Hs; subst.
      * exists (TIn c []), (cons_item (Lit q' (rev b))). split; [simpl; auto|].
        intros X. simpl. rewrite D, W, Q. reflexivity.
      * exists TOut, (fun x => cons_item (Lit q' (rev b)) (cons_item (Sym c) x)). split; [exact I|].
        intros X. simpl. rewrite D, W, Q. reflexivity.
  - destruct Hsim as [-> Q]. simpl in Hs.
    destruct (esc && is_bs c) eqn:B; inversion Hs; subst.
    + exists (TEsc q' (c :: b)), (fun x => x). split; [simpl; auto|]. intros X. simpl. rewrite B. reflexivity.
    + destruct (Ascii.eqb c q') eqn:E; inversion Hs; subst.
      * exists (TClosed q' b), (fun x => x). split; [simpl; auto|]. intros X. simpl. rewrite B, E. reflexivity.
      * exists (TIn q' (c :: b)), (fun x => x). split; [simpl; auto|]. intros X. simpl. rewrite B, E. reflexivity.
  - destruct Hsim as [-> Q]. simpl in Hs. inversion Hs; subst.
    exists (TIn q' (c :: b)), (fun x => x). split; [simpl; auto|]. intros X. reflexivity.
Qed.

Lemma skipn_rev_app (tok rest : str) : skipn (List.length tok) (rev tok ++ rest) = rest.
Proof.
  rewrite <- (rev_length tok). rewrite skipn_app, skipn_all, Nat.sub_diag. reflexivity.
Qed.

Lemma join_head_skip (tok rest : str) ts' :
  skipn (List.length tok) (join_sp ((rev tok ++ rest) :: ts')) =
  rest ++ List.concat (map (cons sp) ts').
Proof. simpl. rewrite <- app_assoc. apply skipn_rev_app. Qed.

Lemma join_skip_whole (t : str) ts' n : n = List.length t ->
  skipn n (join_sp (t :: ts')) = List.concat (map (cons sp) ts').
Proof. intros ->. simpl. rewrite skipn_app, skipn_all, Nat.sub_diag. reflexivity. Qed.

Ltac len_rev := simpl; try rewrite app_length; rewrite ?rev_length; simpl; lia.

Lemma qlex_tscan esc dbl : forall s stq tok stt ts,
  qlex_go esc stq tok s = LexOk ts -> sim stq stt -> (tok = [] -> stq = QOut /\ stt = TOut) ->
  tscan_go esc dbl stt s = tscan_go esc dbl stt (skipn (List.length tok) (join_sp ts)).
Proof.
  induction s as [|c r IH]; intros stq tok stt ts H Hsim Hnil.
  - destruct stq; simpl in H; try discriminate.
    destruct tok as [|a tok']; inversion H; subst; [reflexivity|].
    rewrite join_skip_whole by len_rev. reflexivity.
  - destruct (qstep esc stq c) as [stq1|] eqn:E.
    + pose proof H as H'. rewrite (qlex_step esc stq c stq1) in H' by assumption.
      destruct (qlex_head esc _ _ _ _ H' ltac:(congruence)) as (rest & ts' & ->).
      destruct (sim_step esc dbl stq c stq1 stt E Hsim) as (stt1 & k & Hsim1 & Hk).
      rewrite Hk. rewrite (IH stq1 (c :: tok) stt1 _ H' Hsim1) by congruence.
      rewrite join_head_skip.
      replace (skipn (List.length tok) (join_sp ((rev (c :: tok) ++ rest) :: ts')))
        with (c :: rest ++ List.concat (map (cons sp) ts')).
      * rewrite Hk. reflexivity.
      * simpl rev. rewrite <- !app_assoc. rewrite join_head_skip. reflexivity.
    + destruct stq as [|q|q]; simpl in E.
      * destruct (is_ws c) eqn:W; [|destruct (is_quote c); discriminate].
        simpl in H. rewrite W in H. destruct tok as [|a tok'].
        -- destruct (Hnil eq_refl) as [_ ->]. simpl. rewrite W.
           apply (IH QOut [] TOut ts H I). auto.
        -- apply cons_tok_ok in H. destruct H as (ts' & H & ->).
           rewrite join_skip_whole by len_rev.
           pose proof (IH QOut [] TOut ts' H I ltac:(auto)) as IH'. simpl skipn in IH'.
           destruct stt as [|q' b|q' b|q' b]; simpl in Hsim; try contradiction.
           ++ simpl. rewrite W. rewrite IH'. destruct ts' as [|t2 r2]; reflexivity.
           ++ assert (D : dbl && Ascii.eqb c q' = false).
              { destruct (Ascii.eqb c q') eqn:Eq; [|apply andb_false_r].
                apply Ascii.eqb_eq in Eq. subst. rewrite (quote_not_ws _ Hsim) in W. discriminate. }
              simpl. rewrite D, W. rewrite IH'. destruct ts' as [|t2 r2]; [reflexivity|].
              assert (Dsp : Ascii.eqb sp q' = false).
              { destruct (Ascii.eqb sp q') eqn:Eq; [|reflexivity].
                apply Ascii.eqb_eq in Eq. subst q'. discriminate. }
              change (List.concat (map (cons sp) (t2 :: r2)))
                with (sp :: t2 ++ List.concat (map (cons sp) r2)).
              cbn [tscan_go]. rewrite Dsp, andb_false_r. reflexivity.
      * destruct (esc && is_bs c); [discriminate|]. destruct (Ascii.eqb c q); discriminate.
      * discriminate.
Qed.

(* what the target language reads on a line is a function of the repaired tokenizer's tokens *)
Theorem tscan_factors esc dbl line ts : quoted_split esc line = LexOk ts ->
  tscan esc dbl line = tscan esc dbl (join_sp ts).
Proof.
  intros H. unfold tscan.
  apply (qlex_tscan esc dbl line QOut [] TOut ts H I). auto.
Qed.

(* Layout only: for every line on which the tokenizer in use returns the repaired tokenizer's
   tokens, the wrapped text reads the same as the line in the target language. *)
Theorem wrap_layout_only (lexf : str -> lexres) m esc dbl line ts ind level width lines :
  all_ws ind -> ind <> [] ->
  quoted_split esc line = lexf line ->
  wrap_line_base lexf (pad_with m) line level width ind = WrapOk lines ->
  lexf line = LexOk ts ->
  tscan esc dbl (joined lines) = tscan esc dbl line.
Proof.
  intros Hws Hne Hagree Hwrap Hlex. unfold wrap_line_base in Hwrap. rewrite Hlex in Hwrap.
  inversion Hwrap; subst lines. rewrite <- Hagree in Hlex.
  rewrite (tscan_factors esc dbl line ts Hlex).
  apply tscan_factors.
  apply (wrap_tokens_relex (quoted_split esc) (qtok esc)); auto.
  - apply qlex_skip_ws.
  - intros; apply qlex_tok_sep; assumption.
  - apply qlex_tok_end.
  - eapply qlex_sound; eassumption.
Qed.

(* ================================================================== *)
(* Part 5: the statements used by props/C20.v, for every tokenizer kind,
   marker, indentation string, level and width.                         *)

Definition tok_of (k : lexkind) : str -> Prop :=
  match k with LexShlex => shtok | LexQuoted e => qtok e end.

Lemma lex_of_skip_ws k w s : all_ws w -> lex_of k (w ++ s) = lex_of k s.
Proof. destruct k; [apply shlex_skip_ws|apply qlex_skip_ws]. Qed.

Lemma lex_of_nil k : lex_of k [] = LexOk [].
Proof. destruct k; reflexivity. Qed.

Lemma lex_of_tok_sep k t c s : tok_of k t -> is_ws c = true ->
  lex_of k (t ++ c :: s) = cons_tok t (lex_of k s).
Proof. destruct k; [apply shlex_tok_sep|apply qlex_tok_sep]. Qed.

Lemma lex_of_tok_end k t : tok_of k t -> lex_of k t = LexOk [t].
Proof. destruct k; [apply shlex_tok_end|apply qlex_tok_end]. Qed.

Lemma lex_of_sound k line ts : lex_of k line = LexOk ts -> Forall (tok_of k) ts.
Proof. destruct k; [apply shlex_sound|apply qlex_sound]. Qed.

(* boolean side conditions, so that props/ can discharge them by computation *)
Definition ws_indent (ind : str) : bool := forallb is_ws ind && negb (is_nil ind).

Lemma ws_indent_spec ind : ws_indent ind = true -> all_ws ind /\ ind <> [].
Proof.
  unfold ws_indent. intros H. apply andb_true_iff in H. destruct H as [A B]. split.
  - apply Forall_forall. rewrite forallb_forall in A. exact A.
  - destruct ind; [discriminate|congruence].
Qed.

Lemma forallb_all_ws ind : forallb is_ws ind = true -> all_ws ind.
Proof. intros A. apply Forall_forall. rewrite forallb_forall in A. exact A. Qed.

(* C20_tokens *)
Theorem wrap_line_tokens k m line level width ind lines :
  ws_indent ind = true ->
  wrap_line_base (lex_of k) (pad_with m) line level width ind = WrapOk lines ->
  lex_of k (joined lines) = lex_of k line.
Proof.
  intros Hind H. apply ws_indent_spec in Hind. destruct Hind as [Hws Hne].
  unfold wrap_line_base in H. destruct (lex_of k line) as [ts|] eqn:E; [|discriminate].
  inversion H; subst lines.
  apply (wrap_tokens_relex (lex_of k) (tok_of k)); auto.
  - apply lex_of_skip_ws.
  - apply lex_of_nil.
  - apply lex_of_tok_sep.
  - apply lex_of_tok_end.
  - eapply lex_of_sound; eassumption.
Qed.

(* line by line; the indentation string may be empty *)
Theorem wrap_line_tokens_lines k m line level width ind lines :
  forallb is_ws ind = true ->
  wrap_line_base (lex_of k) (pad_with m) line level width ind = WrapOk lines ->
  lex_all (lex_of k) (unmark lines) = lex_of k line.
Proof.
  intros Hind H. apply forallb_all_ws in Hind.
  unfold wrap_line_base in H. destruct (lex_of k line) as [ts|] eqn:E; [|discriminate].
  inversion H; subst lines.
  apply (wrap_tokens_relex_lines (lex_of k) (tok_of k)); auto.
  - apply lex_of_skip_ws.
  - apply lex_of_nil.
  - apply lex_of_tok_sep.
  - apply lex_of_tok_end.
  - eapply lex_of_sound; eassumption.
Qed.

(* the only failure is the tokenizer's ValueError, and it is passed on *)
Theorem wrap_line_error lexf pad line level width ind :
  wrap_line_base lexf pad line level width ind = WrapValueError <-> lexf line = LexValueError.
Proof. unfold wrap_line_base. destruct (lexf line); split; congruence. Qed.

(* C20_relex *)
Theorem lex_relex k line ts : lex_of k line = LexOk ts -> lex_of k (join_sp ts) = LexOk ts.
Proof.
  intros H. apply (relex (lex_of k) (tok_of k)).
  - apply lex_of_skip_ws.
  - apply lex_of_nil.
  - apply lex_of_tok_sep.
  - apply lex_of_tok_end.
  - eapply lex_of_sound; eassumption.
Qed.

(* C20_atomic *)
Theorem wrap_line_atomic lexf m line level width ind ts lines :
  lexf line = LexOk ts ->
  wrap_line_base lexf (pad_with m) line level width ind = WrapOk lines ->
  let lay := layout_of ind level width ts in
  lines = render m (slen (times level ind)) width lay /\
  List.concat (map snd lay) = ts /\
  (ts <> [] -> Forall (fun pg => snd pg <> []) lay) /\
  exists g rest, lay = ([], g) :: rest /\ Forall (fun pg => fst pg = ind) rest.
Proof.
  intros Hlex H lay. unfold wrap_line_base in H. rewrite Hlex in H. inversion H; subst lines.
  destruct ts as [|w r].
  - unfold lay. simpl. repeat split; try congruence. exists [], []. split; [reflexivity|constructor].
  - destruct (wrap_atomic m ind level width (w :: r) ltac:(congruence)) as (A & B & C & D).
    repeat split; auto.
Qed.

(* a shlex token that begins with a quote is one complete quoted string *)
Lemma shtok_quoted_whole t q r : shtok t -> t = q :: r -> is_quote q = true ->
  exists body, t = q :: body ++ [q] /\ ~ In q body.
Proof.
  intros Ht E Q. destruct Ht as [c0 body Hw Hq Hb | q0 body Hq Hn].
  - inversion E; subst. congruence.
  - inversion E; subst. eauto.
Qed.

Theorem shlex_quoted_whole line ts t q r : shlex_split line = LexOk ts -> In t ts ->
  t = q :: r -> is_quote q = true -> exists body, t = q :: body ++ [q] /\ ~ In q body.
Proof.
  intros H Hin E Q. apply shlex_sound in H. rewrite Forall_forall in H.
  eapply shtok_quoted_whole; eauto.
Qed.

(* C20_width *)
Theorem wrap_line_width lexf m line level width ind ts lines :
  lexf line = LexOk ts ->
  wrap_line_base lexf (pad_with m) line level width ind = WrapOk lines ->
  Forall2 (fun pg l => (2 <= List.length (snd pg))%nat -> slen (times level ind) + slen l <= width)
          (layout_of ind level width ts) lines.
Proof.
  intros Hlex H. unfold wrap_line_base in H. rewrite Hlex in H. inversion H; subst lines.
  apply wrap_width.
Qed.

(* C20_continuation *)
Theorem wrap_line_continuation lexf m line level width ind lines :
  wrap_line_base lexf (pad_with m) line level width ind = WrapOk lines ->
  let pw := width - slen (times level ind) in
  Forall (fun l => exists t, l = t ++ spaces (pw - 1 - slen t) ++ [m] /\
                             (slen t <= pw - 1 -> slen l = pw))
         (removelast lines) /\
  Forall (fun l => exists rest, l = ind ++ rest) (tl lines).
Proof.
  intros H pw. unfold wrap_line_base in H. destruct (lexf line) as [ts|]; [|discriminate].
  inversion H; subst lines.
  destruct (wrap_continuation m ind level width ts) as (A & B & _). split; assumption.
Qed.

(* ---- layout only ---- *)
Definition target_ok (k : lexkind) (m : ascii) (ind : str) (esc dbl : bool) : Prop :=
  forall line level width lines,
    wrap_line_base (lex_of k) (pad_with m) line level width ind = WrapOk lines ->
    tscan esc dbl (joined lines) = tscan esc dbl line.

Theorem layout_partial k m esc dbl line level width ind lines :
  ws_indent ind = true ->
  quoted_split esc line = lex_of k line ->
  wrap_line_base (lex_of k) (pad_with m) line level width ind = WrapOk lines ->
  tscan esc dbl (joined lines) = tscan esc dbl line.
Proof.
  intros Hind Hag H. apply ws_indent_spec in Hind. destruct Hind as [Hws Hne].
  destruct (lex_of k line) as [ts|] eqn:E.
  - eapply wrap_layout_only with (lexf := lex_of k); eauto. congruence.
  - unfold wrap_line_base in H. rewrite E in H. discriminate.
Qed.

Theorem layout_repaired m esc dbl ind : ws_indent ind = true -> target_ok (LexQuoted esc) m ind esc dbl.
Proof.
  intros Hind line level width lines H.
  exact (layout_partial (LexQuoted esc) m esc dbl line level width ind lines Hind eq_refl H).
Qed.

(* shlex: a literal that does not start a shlex token loses a blank *)
Definition wit_midtoken : str := Str "g('a  b')".

Theorem layout_refuted_shlex m ind esc dbl : ~ target_ok LexShlex m ind esc dbl.
Proof.
  intros H. specialize (H wit_midtoken 0%nat 80 _ eq_refl).
  destruct esc, dbl; vm_compute in H; discriminate.
Qed.

(* shlex: a doubled quote inside a Fortran literal becomes two literals *)
Definition wit_doubled : str := Str "x = 'it''s'".

Lemma layout_refuted_doubled m ind :
  exists lines, wrap_line_base shlex_split (pad_with m) wit_doubled 0 80 ind = WrapOk lines /\
                joined lines = Str "x = 'it' 's'" /\
                tscan false true (joined lines) <> tscan false true wit_doubled.
Proof. eexists. split; [reflexivity|]. split; [reflexivity|]. vm_compute. discriminate. Qed.

(* the claim for the tokenizer a generator uses now: refuted for shlex, the full
   statement for the repaired tokenizer (with the target language's escape rule) *)
Definition layout_claim (k : lexkind) (m : ascii) (ind : str) (esc dbl : bool) : Prop :=
  match k with
  | LexShlex => ~ target_ok k m ind esc dbl
  | LexQuoted e => if Bool.eqb e esc then target_ok k m ind esc dbl else True
  end.

Theorem layout_claim_holds k m ind esc dbl : ws_indent ind = true -> layout_claim k m ind esc dbl.
Proof.
  intros Hind. destruct k as [|e]; simpl.
  - apply layout_refuted_shlex.
  - destruct (Bool.eqb e esc) eqn:E; [|exact I].
    apply Bool.eqb_prop in E. subst. apply layout_repaired. assumption.
Qed.

(* ================================================================== *)
(* Examples: the hypotheses are satisfiable on non-trivial inputs        *)

Local Open Scope string_scope.

Definition ex_line : str := Str "x = f(a) + 'b c' // ""d  e""".

Example ex_lex : shlex_split ex_line = LexOk (map Str ["x"; "="; "f(a)"; "+"; "'b c'"; "//"; """d  e"""]).
Proof. reflexivity. Qed.

Example ex_wrap :
  wrap_line_base shlex_split (pad_with "\") ex_line 1 20 (Str "    ") =
  WrapOk (map Str ["x = f(a) +     \"; "    'b c' //   \"; "    ""d  e"""]).
Proof. reflexivity. Qed.

Example ex_tokens : lex_of LexShlex (joined (map Str ["x = f(a) +     \"; "    'b c' //   \"; "    ""d  e"""]))
                    = lex_of LexShlex ex_line.
Proof. exact (wrap_line_tokens LexShlex "\" ex_line 1 20 (Str "    ") _ eq_refl ex_wrap). Qed.

Example ex_relex : shlex_split (join_sp (map Str ["x"; "="; "f(a)"; "+"; "'b c'"; "//"; """d  e"""]))
                   = LexOk (map Str ["x"; "="; "f(a)"; "+"; "'b c'"; "//"; """d  e"""]).
Proof. exact (lex_relex LexShlex ex_line _ ex_lex). Qed.

Example ex_width_line2 : (* tokens per output line *)
  map (fun pg => List.length (snd pg)) (layout_of (Str "    ") 1 20 (map Str ["x"; "="; "f(a)"; "+"; "'b c'"; "//"; """d  e"""]))
  = [4; 2; 1]%nat.
Proof. reflexivity. Qed.

(* the agreement hypothesis of layout_partial holds on ex_line (all literals start a token) *)
Example ex_agree : quoted_split true ex_line = lex_of LexShlex ex_line.
Proof. reflexivity. Qed.

Example ex_layout : tscan true false (joined (map Str ["x = f(a) +     \"; "    'b c' //   \"; "    ""d  e"""]))
                    = tscan true false ex_line.
Proof. exact (layout_partial LexShlex "\" true false ex_line 1 20 (Str "    ") _ eq_refl ex_agree ex_wrap). Qed.

(* ... and fails on the witness *)
Example ex_disagree : quoted_split true wit_midtoken <> lex_of LexShlex wit_midtoken.
Proof. vm_compute. discriminate. Qed.

(* the repaired tokenizer keeps the literal whole *)
Example ex_repaired :
  wrap_line_base (quoted_split true) (pad_with "\") wit_midtoken 0 80 (Str "    ") = WrapOk [wit_midtoken].
Proof. reflexivity. Qed.

Example ex_unterminated : wrap_line_base shlex_split (pad_with "&") (Str "print *, 'a") 0 80 (Str " ") = WrapValueError.
Proof. reflexivity. Qed.
