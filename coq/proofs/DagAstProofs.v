(* Proofs about model/DagAst.v (C05). *)
From Coq Require Import List Arith Bool Lia Relations Permutation Sorted.
Import ListNotations.
From Dagrt Require Import GenC05 Simplify SimplifyProofs DagAst.
Local Open Scope list_scope.

(* ====================================================================== *)
(* Part A.  simplify_ast preserves the loop-nest-carrying trace `ltrace`.  *)
(* This generalises SimplifyProofs.simplify_trace (C06), whose observable  *)
(* `trace` is the first projection of `ltrace` (lemma ltrace_fst below);   *)
(* the proof follows the same steps with the enclosing nest as a parameter.*)
(* ====================================================================== *)
Section LTr.
  Variable v : nat -> bool.
  Variable trips : nat -> nat.
  Notation ltr := (ltrace v trips).
  Notation ltrl nest := (flat_map (ltrace v trips nest)).

  Lemma map_repeat_app {A B} (f : A -> B) n (l : list A) :
    map f (repeat_app n l) = repeat_app n (map f l).
  Proof. induction n as [|n IH]; cbn; [reflexivity|]. now rewrite map_app, IH. Qed.

  Lemma ltrace_fst : forall t nest, map fst (ltr nest t) = trace v trips t.
  Proof.
    induction t as [n| |l IH|c t IHt|c t e IHt IHe|x b IHb] using ast_ind'; intros nest;
      cbn [ltrace trace]; try reflexivity.
    - induction IH as [|a l Ha _ IHl]; [reflexivity|]. cbn [flat_map]. now rewrite map_app, Ha, IHl.
    - destruct (evalc v c); [apply IHt|reflexivity].
    - destruct (evalc v c); [apply IHt|apply IHe].
    - now rewrite map_repeat_app, IHb.
  Qed.

  Lemma ltrl_app nest l1 l2 : ltrl nest (l1 ++ l2) = ltrl nest l1 ++ ltrl nest l2.
  Proof. apply flat_map_app. Qed.

  Lemma ltrace_flat_block nest nodes : ltr nest (flat_block nodes) = ltrl nest nodes.
  Proof.
    unfold flat_block. cbn [ltrace].
    induction nodes as [|n ns IH]; [reflexivity|].
    cbn [flat_map]. rewrite ltrl_app, IH. f_equal.
    destruct n; cbn [ltrace flat_map]; rewrite ?app_nil_r; reflexivity.
  Qed.

  Lemma strip_not_lsem nest c : forall t e c' t2 e2,
    strip_not c t e = (c', t2, e2) ->
    (if evalc v c' then ltr nest t2 else ltr nest e2) = (if evalc v c then ltr nest t else ltr nest e).
  Proof.
    induction c as [| |c IH|n]; intros t e c' t2 e2 H; cbn [strip_not] in H;
      try (injection H as <- <- <-; reflexivity).
    rewrite (IH _ _ _ _ _ H). cbn [evalc]. destruct (evalc v c); reflexivity.
  Qed.

  Lemma simp_ite_ltrace nest c t e :
    ltr nest (simp_ite c t e) = if evalc v c then ltr nest t else ltr nest e.
  Proof.
    unfold simp_ite. destruct (strip_not c t e) as [[c' t2] e2] eqn:E.
    rewrite <- (strip_not_lsem nest _ _ _ _ _ _ E). cbn [ltrace].
    destruct (evalc v c') eqn:Ec.
    - destruct t2; try reflexivity.
      destruct (cond_eqb c' c0) eqn:Eq; [|reflexivity].
      apply cond_eqb_eq in Eq. subst c0. cbn [ltrace]. now rewrite Ec.
    - destruct e2; try reflexivity.
      destruct (cond_eqb c' c0) eqn:Eq; [|reflexivity].
      apply cond_eqb_eq in Eq. subst c0. cbn [ltrace]. now rewrite Ec.
  Qed.

  Lemma qloop_ltrace nest : forall fuel cur q acc l,
    qloop false fuel cur q acc = Some l ->
    ltrl nest l = ltrl nest acc ++ ltr nest cur ++ ltrl nest q.
  Proof.
    induction fuel as [|f IH]; intros cur q acc l H; [discriminate|].
    cbn [qloop] in H. destruct q as [|nx q'].
    - injection H as <-. rewrite ltrl_app. cbn. now rewrite !app_nil_r.
    - assert (Hdef : forall l, qloop false f nx q' (acc ++ [cur]) = Some l ->
                     ltrl nest l = ltrl nest acc ++ ltr nest cur ++ ltrl nest (nx :: q')).
      { intros l0 H0. rewrite (IH _ _ _ _ H0), ltrl_app. cbn [flat_map].
        rewrite app_nil_r, <- !app_assoc. reflexivity. }
      destruct nx as [n| |ch|c2 t2|c2 t2 e2|x b]; try (now apply Hdef).
      + rewrite (IH _ _ _ _ H). reflexivity.
      + rewrite (IH _ _ _ _ H). rewrite ltrl_app. cbn [flat_map ltrace]. reflexivity.
      + destruct cur as [n1| |ch1|c1 t1|c1 t1 e1|x1 b1]; try (now apply Hdef).
        destruct (cond_eqb c1 c2) eqn:Eq; [|now apply Hdef].
        apply cond_eqb_eq in Eq. subst c2.
        rewrite (IH _ _ _ _ H). cbn [ltrace flat_map].
        rewrite !ltrace_flat_block. cbn [flat_map]. rewrite !app_nil_r.
        destruct (evalc v c1); rewrite <- !app_assoc; reflexivity.
  Qed.

  Lemma pop_nonnull_ltrace nest q : forall cur q', pop_nonnull q = Some (cur, q') ->
    ltrl nest q = ltr nest cur ++ ltrl nest q'.
  Proof.
    induction q as [|x q IH]; intros cur q' H; [discriminate|].
    cbn [pop_nonnull] in H. destruct x; try (injection H as <- <-; reflexivity).
    cbn [flat_map ltrace]. cbn. auto.
  Qed.

  Lemma pop_nonnull_lnone nest q : pop_nonnull q = None -> ltrl nest q = [].
  Proof.
    induction q as [|x q IH]; intros H; [reflexivity|].
    cbn [pop_nonnull] in H. destruct x; try discriminate. cbn. auto.
  Qed.

  Lemma simp_block_ltrace nest g orig q t' :
    ltrl nest q = ltrl nest orig ->
    simp_block false g orig q = Ok t' -> ltr nest t' = ltrl nest orig.
  Proof.
    intros Hq H. unfold simp_block in H. destruct q as [|x q0].
    - injection H as <-. reflexivity.
    - set (q := x :: q0) in *. clearbody q.
      destruct (pop_nonnull q) as [[cur q']|] eqn:Ep.
      + destruct (qloop false (S (size_list q')) cur q' []) as [l|] eqn:El; [|discriminate].
        pose proof (qloop_ltrace nest _ _ _ _ _ El) as Ht. cbn [flat_map app] in Ht.
        rewrite <- Hq, (pop_nonnull_ltrace nest _ _ _ Ep), <- Ht.
        destruct l as [|a [|b l]]; injection H as <-; try reflexivity.
        cbn. now rewrite app_nil_r.
      + rewrite <- Hq, (pop_nonnull_lnone nest _ Ep).
        destruct g; [injection H as <-; reflexivity|discriminate].
  Qed.

  Theorem simp_ltrace g : forall t nest t', simp false g t = Ok t' -> ltr nest t' = ltr nest t.
  Proof.
    induction t as [n| |l IH|c t IHt|c t e IHt IHe|x b IHb] using ast_ind'; intros nest t' H.
    - injection H as <-. reflexivity.
    - injection H as <-. reflexivity.
    - cbn [simp] in H. apply rbind_ok in H. destruct H as (q & Hq & Hb).
      cbn [ltrace]. eapply simp_block_ltrace; [|exact Hb].
      clear Hb t'. revert q Hq. induction IH as [|x l Hx _ IHl]; intros q Hq.
      + injection Hq as <-. reflexivity.
      + apply rbind_ok in Hq. destruct Hq as (x' & Ex & Hq).
        apply rbind_ok in Hq. destruct Hq as (r & Er & Hq). injection Hq as <-.
        cbn [flat_map]. rewrite (Hx _ _ Ex), (IHl _ Er). reflexivity.
    - cbn [simp] in H. apply rbind_ok in H. destruct H as (t1 & E1 & H). injection H as <-.
      cbn [ltrace]. now rewrite (IHt _ _ E1).
    - cbn [simp] in H.
      assert (Hgen : rbind (simp false g t) (fun t1 => rbind (simp false g e)
                 (fun e1 => Ok (simp_ite c t1 e1))) = Ok t' -> ltr nest t' = ltr nest (IfTE c t e)).
      { intros H0. apply rbind_ok in H0. destruct H0 as (t1 & E1 & H0).
        apply rbind_ok in H0. destruct H0 as (e1 & E2 & H0). injection H0 as <-.
        rewrite simp_ite_ltrace. cbn [ltrace]. now rewrite (IHt _ _ E1), (IHe _ _ E2). }
      destruct c; try (now apply Hgen); cbn [ltrace evalc]; auto.
    - cbn [simp] in H. apply rbind_ok in H. destruct H as (b1 & E1 & H). injection H as <-.
      cbn [ltrace]. now rewrite (IHb _ _ E1).
  Qed.

  Lemma pre_ltrace : forall t nest, ltr nest (pre t) = ltr nest t.
  Proof.
    induction t as [n| |l IH|c t IHt|c t e IHt IHe|x b IHb] using ast_ind'; intros nest;
      cbn [pre ltrace]; try congruence.
    - induction IH as [|x l Hx _ IHl]; [reflexivity|]. cbn [map flat_map]. congruence.
    - rewrite IHt. destruct (evalc v c); reflexivity.
    - rewrite IHt, IHe. reflexivity.
  Qed.

  Lemma post_ltrace : forall t nest, ltr nest (post t) = ltr nest t.
  Proof.
    induction t as [n| |l IH|c t IHt|c t e IHt IHe|x b IHb] using ast_ind'; intros nest;
      cbn [post ltrace]; try congruence.
    - assert (H : ltrl nest (filter (fun x => negb (is_null x)) (map post l)) = ltrl nest l).
      { induction IH as [|x l Hx _ IHl]; [reflexivity|]. cbn [map filter flat_map].
        rewrite <- (Hx nest).
        destruct (post x) eqn:Ex; cbn [is_null negb flat_map]; rewrite IHl; reflexivity. }
      rewrite <- H.
      destruct (filter _ (map post l)) as [|a [|b r]]; try reflexivity.
      cbn. now rewrite app_nil_r.
    - now rewrite IHt.
    - rewrite <- IHt, <- IHe.
      destruct (post t) eqn:Et, (post e) eqn:Ee; cbn [is_null ltrace evalc];
        destruct (evalc v c); reflexivity.
  Qed.

  Lemma post_top_ltrace t nest : ltr nest (post_top t) = ltr nest t.
  Proof.
    unfold post_top. rewrite <- (post_ltrace t). destruct (post t); reflexivity.
  Qed.

  Theorem simplify_ltrace g t t' nest : simplify false g t = Ok t' -> ltr nest t' = ltr nest t.
  Proof.
    unfold simplify. intros H. apply rbind_ok in H. destruct H as (t1 & E & H).
    injection H as <-. rewrite post_top_ltrace, (simp_ltrace _ _ _ _ E). apply pre_ltrace.
  Qed.
End LTr.

(* ====================================================================== *)
(* Part B.  sorted(<set>)                                                  *)
(* ====================================================================== *)
Lemma mem_In x l : mem x l = true <-> In x l.
Proof.
  unfold mem. rewrite existsb_exists. split.
  - intros (y & Hy & E). apply Nat.eqb_eq in E. now subst.
  - intros H. exists x. split; [assumption|apply Nat.eqb_refl].
Qed.
Lemma mem_nIn x l : mem x l = false <-> ~ In x l.
Proof. rewrite <- mem_In. destruct (mem x l); split; intros H; try congruence; try discriminate. Qed.

Lemma insert_In x y l : In x (insert y l) <-> x = y \/ In x l.
Proof.
  induction l as [|z r IH]; cbn [insert].
  - cbn. intuition.
  - destruct (y <? z) eqn:E1.
    + cbn. intuition.
    + destruct (y =? z) eqn:E2.
      * apply Nat.eqb_eq in E2. subst. cbn. intuition.
      * cbn. rewrite IH. intuition.
Qed.

Lemma sorted_set_In x l : In x (sorted_set l) <-> In x l.
Proof.
  induction l as [|y l IH]; cbn [sorted_set fold_right]; [tauto|].
  fold (sorted_set l). rewrite insert_In, IH. cbn. intuition.
Qed.

Lemma insert_sorted y l : StronglySorted lt l -> StronglySorted lt (insert y l).
Proof.
  induction l as [|z r IH]; intros S; cbn [insert].
  - constructor; constructor.
  - apply StronglySorted_inv in S. destruct S as [Sr Fz].
    destruct (y <? z) eqn:E1.
    + apply Nat.ltb_lt in E1. constructor; [constructor; assumption|].
      constructor; [assumption|]. rewrite Forall_forall in *. intros w Hw. specialize (Fz w Hw). lia.
    + destruct (y =? z) eqn:E2; [constructor; assumption|].
      apply Nat.ltb_ge in E1. apply Nat.eqb_neq in E2.
      constructor; [apply IH; assumption|].
      rewrite Forall_forall in *. intros w Hw. apply insert_In in Hw.
      destruct Hw as [->|Hw]; [lia|apply Fz; assumption].
Qed.

Lemma sorted_set_sorted l : StronglySorted lt (sorted_set l).
Proof.
  induction l as [|y l IH]; cbn [sorted_set fold_right]; [constructor|].
  apply insert_sorted. exact IH.
Qed.

Lemma ssorted_unique : forall l1 l2, StronglySorted lt l1 -> StronglySorted lt l2 ->
  (forall x, In x l1 <-> In x l2) -> l1 = l2.
Proof.
  induction l1 as [|a r1 IH]; intros l2 S1 S2 H.
  - destruct l2 as [|b r2]; [reflexivity|]. exfalso. apply (H b). now left.
  - destruct l2 as [|b r2]; [exfalso; apply (H a); now left|].
    apply StronglySorted_inv in S1. destruct S1 as [S1 F1].
    apply StronglySorted_inv in S2. destruct S2 as [S2 F2].
    rewrite Forall_forall in F1, F2.
    assert (E : a = b).
    { destruct (proj1 (H a) (or_introl eq_refl)) as [Eb|Hb]; [now symmetry|].
      destruct (proj2 (H b) (or_introl eq_refl)) as [Ea|Ha]; [assumption|].
      specialize (F1 _ Ha). specialize (F2 _ Hb). lia. }
    subst b. f_equal. apply IH; try assumption.
    intros x. split; intros Hx.
    + destruct (proj1 (H x) (or_intror Hx)) as [E|Hx2]; [|assumption].
      specialize (F1 _ Hx). lia.
    + destruct (proj2 (H x) (or_intror Hx)) as [E|Hx2]; [|assumption].
      specialize (F2 _ Hx). lia.
Qed.

Lemma sorted_set_ext l1 l2 : (forall x, In x l1 <-> In x l2) -> sorted_set l1 = sorted_set l2.
Proof.
  intros H. apply ssorted_unique; try apply sorted_set_sorted.
  intros x. rewrite !sorted_set_In. apply H.
Qed.

Lemma insert_length y l : length (insert y l) <= S (length l).
Proof.
  induction l as [|z r IH]; cbn [insert]; [cbn; lia|].
  destruct (y <? z); [cbn; lia|]. destruct (y =? z); cbn in *; lia.
Qed.
Lemma sorted_set_length l : length (sorted_set l) <= length l.
Proof.
  induction l as [|y l IH]; cbn [sorted_set fold_right]; [cbn; lia|].
  fold (sorted_set l). pose proof (insert_length y (sorted_set l)). cbn. lia.
Qed.

(* ====================================================================== *)
(* Part C.  statement_map                                                  *)
(* ====================================================================== *)
Lemma lookup_some stmts : forall i st, lookup stmts i = Some st -> In st stmts /\ sid st = i.
Proof.
  induction stmts as [|s r IH]; intros i st H; [discriminate|].
  cbn [lookup] in H. destruct (lookup r i) as [s'|] eqn:E.
  - injection H as <-. destruct (IH _ _ E). split; [now right|assumption].
  - destruct (sid s =? i) eqn:Ei; [|discriminate]. injection H as <-.
    apply Nat.eqb_eq in Ei. split; [now left|assumption].
Qed.

Lemma lookup_in_ids stmts i : In i (map sid stmts) -> exists st, lookup stmts i = Some st.
Proof.
  induction stmts as [|s r IH]; intros H; [destruct H|].
  cbn [lookup]. destruct (lookup r i) as [s'|] eqn:E; [eauto|].
  destruct H as [H|H].
  - rewrite H, Nat.eqb_refl. eauto.
  - destruct (IH H) as [st Hst]. congruence.
Qed.

Lemma lookup_none stmts i : lookup stmts i = None -> ~ In i (map sid stmts).
Proof. intros H Hin. destruct (lookup_in_ids _ _ Hin) as [st Hst]. congruence. Qed.

Lemma lookup_nodup stmts : NoDup (map sid stmts) -> forall st, In st stmts -> lookup stmts (sid st) = Some st.
Proof.
  induction stmts as [|s r IH]; intros ND st H; [destruct H|].
  cbn [map] in ND. apply NoDup_cons_iff in ND. destruct ND as [Hn ND].
  cbn [lookup]. destruct H as [<-|H].
  - destruct (lookup r (sid s)) as [s'|] eqn:E.
    + exfalso. apply Hn. apply lookup_some in E. destruct E as [E1 E2].
      rewrite <- E2. apply in_map. assumption.
    + now rewrite Nat.eqb_refl.
  - now rewrite (IH ND _ H).
Qed.

Lemma lookup_perm s1 s2 : Permutation s1 s2 -> NoDup (map sid s1) -> forall i, lookup s1 i = lookup s2 i.
Proof.
  intros P ND i.
  assert (ND2 : NoDup (map sid s2)).
  { eapply Permutation_NoDup; [apply Permutation_map; exact P|exact ND]. }
  destruct (lookup s1 i) as [st|] eqn:E1.
  - apply lookup_some in E1. destruct E1 as [Hin <-].
    symmetry. apply lookup_nodup; [assumption|]. eapply Permutation_in; eassumption.
  - destruct (lookup s2 i) as [st|] eqn:E2; [|reflexivity].
    apply lookup_some in E2. destruct E2 as [Hin <-].
    rewrite (lookup_nodup s1 ND st) in E1; [discriminate|].
    eapply Permutation_in; [apply Permutation_sym; exact P|exact Hin].
Qed.

(* ====================================================================== *)
(* Part D.  fuel adequacy of the `while stack:` loop (every phase)         *)
(* ====================================================================== *)
Definition weight (visited : list nat) (stmts : list stmt) : nat :=
  fold_right (fun st n => (if mem (sid st) visited then 0 else S (length (sdeps st))) + n) 0 stmts.

Lemma weight_nil stmts :
  weight [] stmts = fold_right (fun st n => S (length (sdeps st)) + n) 0 stmts.
Proof.
  unfold weight. induction stmts as [|s r IH]; cbn [fold_right]; [reflexivity|].
  rewrite IH. reflexivity.
Qed.

Lemma weight_mono s visited stmts : weight (s :: visited) stmts <= weight visited stmts.
Proof.
  induction stmts as [|a r IH]; cbn [weight fold_right]; [lia|].
  fold (weight (s :: visited) r). fold (weight visited r).
  cbn [mem existsb]. fold (mem (sid a) visited).
  destruct (sid a =? s); cbn [orb]; destruct (mem (sid a) visited); lia.
Qed.

Lemma weight_visit s visited stmts st :
  In st stmts -> sid st = s -> mem s visited = false ->
  weight (s :: visited) stmts + S (length (sdeps st)) <= weight visited stmts.
Proof.
  intros Hin Hs Hm. induction stmts as [|a r IH]; [destruct Hin|].
  cbn [weight fold_right]. fold (weight (s :: visited) r). fold (weight visited r).
  destruct Hin as [->|Hin].
  - pose proof (weight_mono s visited r) as Hmono.
    cbn [mem existsb]. rewrite Hs, Nat.eqb_refl. cbn [orb].
    fold (mem s visited). rewrite Hm. lia.
  - specialize (IH Hin).
    cbn [mem existsb]. fold (mem (sid a) visited).
    destruct (sid a =? s); cbn [orb]; destruct (mem (sid a) visited); lia.
Qed.

Lemma topo_fuel_enough stmts : forall fuel stack visiting visited order,
  length stack + weight visited stmts < fuel ->
  topo stmts fuel stack visiting visited order <> LOutOfFuel.
Proof.
  induction fuel as [|f IH]; intros stack visiting visited order H; [lia|].
  cbn [topo]. destruct stack as [|s rest]; [discriminate|].
  cbn [length] in H.
  destruct (mem s visited) eqn:Ev.
  - destruct (mem s visiting); apply IH; lia.
  - destruct (lookup stmts s) as [st|] eqn:El; [|discriminate].
    apply lookup_some in El. destruct El as [Hin Hs].
    pose proof (weight_visit s visited stmts st Hin Hs Ev) as Hw.
    pose proof (sorted_set_length (sdeps st)) as Hl.
    apply IH. rewrite app_length, rev_length. cbn [length]. lia.
Qed.

Theorem topo_order_fuel stmts : topo_order stmts <> LOutOfFuel.
Proof.
  unfold topo_order. apply topo_fuel_enough.
  unfold topo_fuel. rewrite rev_length, weight_nil. lia.
Qed.

(* ====================================================================== *)
(* Part E.  the iterative depth-first search computes a post-order         *)
(* ====================================================================== *)
Lemma head_split {A} (s x : A) rest above below :
  s :: rest = above ++ x :: below ->
  (above = [] /\ s = x /\ rest = below) \/ (exists a', above = s :: a' /\ rest = a' ++ x :: below).
Proof.
  destruct above as [|a a']; cbn; intros H; injection H as -> ->; [left|right]; eauto.
Qed.

Section Topo.
  Variable stmts : list stmt.
  Local Notation edge := (DagAst.edge stmts).
  Hypothesis Hacyc : acyclic stmts.
  Variable roots0 : list nat.

  (* every element is appended after everything it depends on, and only once *)
  Inductive porder : list nat -> Prop :=
  | porder_nil : porder []
  | porder_snoc l x : porder l -> (forall d, edge x d -> In d l) -> ~ In x l -> porder (l ++ [x]).

  Record Inv (stack visiting visited order : list nat) : Prop := {
    I_post : porder order;
    I_vis : forall x, In x visited <-> In x visiting \/ In x order;
    I_disj : forall x, In x visiting -> ~ In x order;
    I_split : forall x, In x visiting -> exists above below,
        stack = above ++ x :: below /\
        (forall d, edge x d -> In d order \/ In d above) /\
        (forall y, In y above -> clos_trans nat edge x y);
    I_roots : forall r, In r roots0 -> In r stack \/ In r order;
    I_dom : forall x, In x visited -> lookup stmts x <> None }.

  Lemma inv_finish s rest visiting visited order :
    Inv (s :: rest) visiting visited order -> In s visited -> In s visiting ->
    Inv rest (remove Nat.eq_dec s visiting) visited (order ++ [s]).
  Proof.
    intros [Ipost Ivis Idisj Isplit Iroots Idom] Ev Eg. constructor.
    - constructor; [assumption| |apply Idisj; assumption].
      destruct (Isplit s Eg) as (above & below & Hs & Hd & Hr).
      apply head_split in Hs. destruct Hs as [(-> & _ & _)|(a' & -> & _)].
      + intros d Hd'. destruct (Hd d Hd') as [?|[]]. assumption.
      + exfalso. apply (Hacyc s). apply Hr. now left.
    - intros x. rewrite in_app_iff. split.
      + intros Hx. apply Ivis in Hx. destruct Hx as [Hx|Hx]; [|now right; left].
        destruct (Nat.eq_dec x s) as [->|Hne]; [right; right; now left|].
        left. apply in_in_remove; assumption.
      + intros [Hx|[Hx|[<-|[]]]]; [|apply Ivis; now right|assumption].
        apply in_remove in Hx. apply Ivis. left. apply Hx.
    - intros x Hx. apply in_remove in Hx. destruct Hx as [Hx Hne].
      rewrite in_app_iff. intros [Ho|[E|[]]]; [revert Ho; apply Idisj; assumption|congruence].
    - intros x Hx. apply in_remove in Hx. destruct Hx as [Hx Hne].
      destruct (Isplit x Hx) as (above & below & Hs & Hd & Hr).
      apply head_split in Hs. destruct Hs as [(_ & E & _)|(a' & -> & ->)]; [congruence|].
      exists a', below. split; [reflexivity|]. split.
      + intros d Hd'. rewrite in_app_iff. destruct (Hd d Hd') as [?|[<-|?]]; auto.
        left. right. now left.
      + intros y Hy. apply Hr. now right.
    - intros r Hr. rewrite in_app_iff. destruct (Iroots r Hr) as [[<-|?]|?]; auto.
      right. right. now left.
    - assumption.
  Qed.

  Lemma inv_stale s rest visiting visited order :
    Inv (s :: rest) visiting visited order -> In s visited -> ~ In s visiting ->
    Inv rest visiting visited order.
  Proof.
    intros [Ipost Ivis Idisj Isplit Iroots Idom] Ev Eg.
    assert (Ho : In s order) by (apply Ivis in Ev; tauto).
    constructor; try assumption.
    - intros x Hx.
      destruct (Isplit x Hx) as (above & below & Hs & Hd & Hr).
      apply head_split in Hs. destruct Hs as [(_ & E & _)|(a' & -> & ->)]; [congruence|].
      exists a', below. split; [reflexivity|]. split.
      + intros d Hd'. destruct (Hd d Hd') as [?|[<-|?]]; auto.
      + intros y Hy. apply Hr. now right.
    - intros r Hr. destruct (Iroots r Hr) as [[<-|?]|?]; auto.
  Qed.

  Lemma inv_enter s rest visiting visited order st :
    Inv (s :: rest) visiting visited order -> ~ In s visited -> lookup stmts s = Some st ->
    Inv (rev (sorted_set (sdeps st)) ++ s :: rest) (s :: visiting) (s :: visited) order.
  Proof.
    intros [Ipost Ivis Idisj Isplit Iroots Idom] Ev El.
    assert (Hng : ~ In s visiting) by (intros H; apply Ev, Ivis; now left).
    assert (Hno : ~ In s order) by (intros H; apply Ev, Ivis; now right).
    constructor; try assumption.
    - intros x. cbn [In]. rewrite Ivis. tauto.
    - intros x [<-|Hx]; [assumption|apply Idisj; assumption].
    - intros x [<-|Hx].
      + exists (rev (sorted_set (sdeps st))), rest. split; [reflexivity|]. split.
        * intros d (st' & El' & Hd). right. rewrite <- in_rev, sorted_set_In. congruence.
        * intros y Hy. rewrite <- in_rev, sorted_set_In in Hy. apply t_step. exists st. auto.
      + destruct (Isplit x Hx) as (above & below & Hs & Hd & Hr).
        assert (Hne : s <> x) by congruence.
        pose proof Hs as Hs'.
        apply head_split in Hs'. destruct Hs' as [(_ & E & _)|(a' & Ea & _)]; [congruence|].
        exists (rev (sorted_set (sdeps st)) ++ above), below. split; [|split].
        * rewrite Hs, app_assoc. reflexivity.
        * intros d Hd'. rewrite in_app_iff. destruct (Hd d Hd'); auto.
        * intros y Hy. rewrite in_app_iff in Hy. destruct Hy as [Hy|Hy]; [|apply Hr; assumption].
          rewrite <- in_rev, sorted_set_In in Hy.
          eapply t_trans; [apply Hr; rewrite Ea; now left|]. apply t_step. exists st. auto.
    - intros r Hr. rewrite in_app_iff. destruct (Iroots r Hr); auto.
    - intros x [<-|Hx]; [congruence|apply Idom; assumption].
  Qed.

  Lemma topo_inv : forall fuel stack visiting visited order res,
    Inv stack visiting visited order ->
    topo stmts fuel stack visiting visited order = LOk res ->
    porder res /\ (forall r, In r roots0 -> In r res) /\ (forall x, In x res -> lookup stmts x <> None).
  Proof.
    induction fuel as [|f IH]; intros stack visiting visited order res I H; [discriminate|].
    cbn [topo] in H. destruct stack as [|s rest].
    - injection H as <-. destruct I as [Ipost Ivis Idisj Isplit Iroots Idom].
      split; [assumption|]. split.
      + intros r Hr. destruct (Iroots r Hr) as [[]|?]. assumption.
      + intros x Hx. apply Idom, Ivis. now right.
    - destruct (mem s visited) eqn:Ev.
      + apply mem_In in Ev. destruct (mem s visiting) eqn:Eg.
        * apply mem_In in Eg. eapply IH; [|exact H]. apply inv_finish; assumption.
        * apply mem_nIn in Eg. eapply IH; [|exact H]. eapply inv_stale; eassumption.
      + apply mem_nIn in Ev. destruct (lookup stmts s) as [st|] eqn:El; [|discriminate].
        eapply IH; [|exact H]. apply inv_enter; assumption.
  Qed.

  Lemma inv_init : Inv (rev roots0) [] [] [].
  Proof.
    constructor.
    - constructor.
    - intros x. cbn. tauto.
    - intros x [].
    - intros x [].
    - intros r Hr. left. rewrite <- in_rev. assumption.
    - intros x [].
  Qed.

  (* consequences of being a post-order *)
  Lemma post_NoDup l : porder l -> NoDup l.
  Proof.
    induction 1 as [|l x _ IH _ Hn]; [constructor|].
    rewrite <- (rev_involutive (l ++ [x])). apply NoDup_rev. rewrite rev_app_distr. cbn.
    constructor; [rewrite <- in_rev; assumption | apply NoDup_rev; assumption].
  Qed.

  Lemma post_closed l : porder l -> forall x d, In x l -> edge x d -> In d l.
  Proof.
    induction 1 as [|l x _ IH Hd _]; intros y d Hy He; [destruct Hy|].
    rewrite in_app_iff in *. destruct Hy as [Hy|[<-|[]]]; left; eauto.
  Qed.

  Lemma snoc_split {A} (l : list A) a l1 x l2 :
    l ++ [a] = l1 ++ x :: l2 ->
    (l2 = [] /\ l = l1 /\ a = x) \/ (exists l2', l2 = l2' ++ [a] /\ l = l1 ++ x :: l2').
  Proof.
    intros H. destruct (@exists_last _ (x :: l2)) as (l' & b & E); [discriminate|].
    rewrite E, app_assoc in H. apply app_inj_tail in H. destruct H as [-> ->].
    destruct l2 as [|y l2].
    - left. destruct l' as [|? [|? ?]]; cbn in E; try discriminate.
      injection E as ->. rewrite app_nil_r. auto.
    - right. destruct l' as [|z l']; [destruct l2; discriminate|].
      cbn in E. injection E as -> E. exists l'. split; [assumption|reflexivity].
  Qed.

  Lemma post_before l : porder l -> forall l1 x l2, l = l1 ++ x :: l2 ->
    forall d, edge x d -> In d l1.
  Proof.
    induction 1 as [|l a _ IH Hd _]; intros l1 x l2 E d He.
    - destruct l1; discriminate.
    - apply snoc_split in E. destruct E as [(-> & -> & ->)|(l2' & -> & ->)].
      + apply Hd. assumption.
      + eapply IH; [reflexivity|eassumption].
  Qed.
End Topo.

(* ====================================================================== *)
(* Part F.  on a well-formed phase the order is a permutation of the ids   *)
(* ====================================================================== *)
Lemma roots_In stmts x :
  In x (roots stmts) <-> In x (map sid stmts) /\ ~ In x (all_deps stmts).
Proof. unfold roots. rewrite sorted_set_In, filter_In, negb_true_iff, mem_nIn. tauto. Qed.

Lemma all_deps_In stmts d : In d (all_deps stmts) <-> exists st, In st stmts /\ In d (sdeps st).
Proof. unfold all_deps. rewrite in_flat_map. tauto. Qed.

Lemma topo_no_index stmts : forall fuel stack visiting visited order,
  topo stmts fuel stack visiting visited order <> LIndexError.
Proof.
  induction fuel as [|f IH]; intros stack visiting visited order; [discriminate|].
  cbn [topo]. destruct stack as [|s rest]; [discriminate|].
  destruct (mem s visited); [destruct (mem s visiting); apply IH|].
  destruct (lookup stmts s); [apply IH|discriminate].
Qed.


Lemma topo_no_key stmts : closed stmts -> forall fuel stack visiting visited order k,
  incl stack (map sid stmts) ->
  topo stmts fuel stack visiting visited order <> LKeyError k.
Proof.
  intros Hc. induction fuel as [|f IH]; intros stack visiting visited order k Hs; [discriminate|].
  cbn [topo]. destruct stack as [|s rest]; [discriminate|].
  assert (Hrest : incl rest (map sid stmts)) by (intros x Hx; apply Hs; now right).
  destruct (mem s visited); [destruct (mem s visiting); apply IH; assumption|].
  destruct (lookup stmts s) as [st|] eqn:El.
  - apply IH. intros x Hx. rewrite in_app_iff in Hx. destruct Hx as [Hx|Hx]; [|apply Hs; assumption].
    rewrite <- in_rev, sorted_set_In in Hx. apply lookup_some in El. eapply Hc; [apply El|exact Hx].
  - exfalso. apply (lookup_none _ _ El). apply Hs. now left.
Qed.

Lemma topo_order_total stmts : closed stmts -> exists order, topo_order stmts = LOk order.
Proof.
  intros Hc. destruct (topo_order stmts) as [order|k| |] eqn:E; [eauto| | |].
  - exfalso. revert E. apply topo_no_key; [assumption|].
    intros x Hx. rewrite <- in_rev in Hx. apply roots_In in Hx. apply Hx.
  - exfalso. revert E. apply topo_no_index.
  - exfalso. revert E. apply topo_order_fuel.
Qed.

Lemma reach_from_root stmts : NoDup (map sid stmts) -> acyclic stmts ->
  forall k x seen, In x (map sid stmts) -> NoDup seen -> incl seen (map sid stmts) ->
   (forall y, In y seen -> clos_trans nat (edge stmts) x y) ->
   length (map sid stmts) <= k + length seen ->
   exists r, In r (roots stmts) /\ clos_refl_trans nat (edge stmts) r x.
Proof.
  intros ND Hacyc. induction k as [|k IH]; intros x seen Hx NDs Hincl Hreach Hlen.
  - exfalso.
    assert (Hn : ~ In x seen) by (intros H; apply (Hacyc x), Hreach, H).
    assert (ND2 : NoDup (x :: seen)) by (constructor; assumption).
    assert (Hi2 : incl (x :: seen) (map sid stmts)) by (intros y [<-|Hy]; auto).
    pose proof (NoDup_incl_length ND2 Hi2) as Hl. cbn [length] in Hl. lia.
  - assert (Hn : ~ In x seen) by (intros H; apply (Hacyc x), Hreach, H).
    destruct (in_dec Nat.eq_dec x (all_deps stmts)) as [Hd|Hd].
    + apply all_deps_In in Hd. destruct Hd as (st & Hst & Hd).
      assert (He : edge stmts (sid st) x).
      { exists st. split; [apply lookup_nodup; assumption|assumption]. }
      destruct (IH (sid st) (x :: seen)) as (r & Hr & Hrx).
      * apply in_map. assumption.
      * constructor; assumption.
      * intros y [<-|Hy]; auto.
      * intros y [<-|Hy]; [apply t_step; assumption|].
        eapply t_trans; [apply t_step; exact He|apply Hreach; assumption].
      * cbn [length]. lia.
      * exists r. split; [assumption|]. eapply rt_trans; [exact Hrx|apply rt_step; exact He].
    + exists x. split; [apply roots_In; split; assumption|apply rt_refl].
Qed.

Theorem topo_order_spec stmts : phase_wf stmts ->
  exists order, topo_order stmts = LOk order /\ porder stmts order /\
                Permutation order (map sid stmts).
Proof.
  intros [ND Hc Hacyc].
  destruct (topo_order_total stmts Hc) as [order E]. exists order. split; [assumption|].
  unfold topo_order in E.
  destruct (topo_inv stmts Hacyc (roots stmts) _ _ _ _ _ _ (inv_init stmts (roots stmts)) E)
    as (Hpost & Hroots & Hdom).
  split; [assumption|].
  apply NoDup_Permutation; [eapply post_NoDup; eassumption|assumption|].
  intros x. split; intros Hx.
  - destruct (lookup stmts x) as [st|] eqn:El; [|exfalso; apply (Hdom x Hx El)].
    apply lookup_some in El. destruct El as [Hin <-]. apply in_map. assumption.
  - assert (H1 : incl [] (map sid stmts)) by (intros y []).
    assert (H2 : forall y, In y (@nil nat) -> clos_trans nat (edge stmts) x y) by (intros y []).
    assert (H3 : length (map sid stmts) <= length (map sid stmts) + length (@nil nat)) by lia.
    destruct (reach_from_root stmts ND Hacyc (length (map sid stmts)) x [] Hx (NoDup_nil _) H1 H2 H3)
      as (r & Hr & Hrx).
    apply Hroots in Hr. clear - Hpost Hr Hrx.
    induction Hrx as [a b He|a|a b c _ IH1 _ IH2]; auto.
    eapply post_closed; eassumption.
Qed.

(* ====================================================================== *)
(* Part G.  the lowered tree runs exactly the statements whose guard holds *)
(* ====================================================================== *)
Lemma repeat_app_nil {A} n : @repeat_app A n [] = [].
Proof. induction n; cbn; auto. Qed.
Lemma nest_rep_nil {A} trips loops : @nest_rep A trips loops [] = [].
Proof.
  unfold nest_rep. induction loops as [|x l IH]; cbn [fold_right]; [reflexivity|].
  rewrite IH. apply repeat_app_nil.
Qed.

Lemma ltrace_loops v trips core : forall loops nest,
  ltrace v trips nest (fold_right For core loops) =
  nest_rep trips loops (ltrace v trips (nest ++ loops) core).
Proof.
  induction loops as [|x l IH]; intros nest; cbn [fold_right nest_rep].
  - now rewrite app_nil_r.
  - cbn [ltrace]. rewrite IH, <- app_assoc. reflexivity.
Qed.

Lemma ltrace_guard_node v trips nest st :
  ltrace v trips nest (guard_node st) = if evalc v (sguard st) then [(sid st, nest)] else [].
Proof. unfold guard_node. destruct (sguard st); reflexivity. Qed.

(* both shapes of the wrapping: guard inside the loop nest (go = false) or around it (go = true) *)
Lemma ltrace_wrap_g v trips go st :
  ltrace v trips [] (wrap_g go st) = if evalc v (sguard st) then stmt_trace trips st else [].
Proof.
  unfold wrap_g, stmt_trace. destruct go.
  - assert (H : ltrace v trips [] (fold_right For (Leaf (sid st)) (sloops st)) =
                nest_rep trips (sloops st) [(sid st, sloops st)]).
    { rewrite ltrace_loops. reflexivity. }
    destruct (sguard st); cbn [ltrace evalc]; rewrite ?H;
      try reflexivity; match goal with |- context [if ?b then _ else _] => destruct b end; reflexivity.
  - rewrite ltrace_loops, ltrace_guard_node. cbn [app].
    destruct (evalc v (sguard st)); [reflexivity|apply nest_rep_nil].
Qed.

Lemma ltrace_wrap v trips st :
  ltrace v trips [] (wrap st) = if evalc v (sguard st) then stmt_trace trips st else [].
Proof. apply ltrace_wrap_g. Qed.

(* what the main loop appends for one statement *)
Definition emit1 (skip_false : bool) (st : stmt) : list ast :=
  if snop st then [] else if skip_false && is_cfalse (sguard st) then [] else [wrap st].

Lemma emit1_ltrace v trips skip st :
  flat_map (ltrace v trips []) (emit1 skip st) = if runs v st then stmt_trace trips st else [].
Proof.
  unfold emit1, runs. destruct (snop st); [reflexivity|]. cbn [negb andb].
  destruct (skip && is_cfalse (sguard st)) eqn:E.
  - apply andb_prop in E. destruct E as [_ E]. destruct (sguard st); try discriminate. reflexivity.
  - cbn [flat_map]. rewrite app_nil_r. apply ltrace_wrap.
Qed.

Lemma main_block_ok skip stmts : forall order,
  (forall x, In x order -> lookup stmts x <> None) ->
  exists sts, Forall2 (fun i st => lookup stmts i = Some st) order sts /\
              main_block skip stmts order = LOk (flat_map (emit1 skip) sts).
Proof.
  induction order as [|i r IH]; intros H.
  - exists []. split; [constructor|reflexivity].
  - destruct IH as (sts & HF & HM); [intros x Hx; apply H; now right|].
    destruct (lookup stmts i) as [st|] eqn:El; [|exfalso; apply (H i); [now left|assumption]].
    exists (st :: sts). split; [constructor; assumption|].
    cbn [main_block]. rewrite El, HM. cbn [lbind flat_map]. unfold emit1.
    destruct (snop st); [reflexivity|]. destruct (skip && is_cfalse (sguard st)); reflexivity.
Qed.

Lemma block_ltrace v trips skip sts :
  ltrace v trips [] (Block (flat_map (emit1 skip) sts)) =
  flat_map (stmt_trace trips) (filter (runs v) sts).
Proof.
  cbn [ltrace]. induction sts as [|st r IH]; [reflexivity|].
  cbn [flat_map filter]. rewrite flat_map_app, IH, emit1_ltrace.
  destruct (runs v st); reflexivity.
Qed.

Lemma Forall2_lookup_ids stmts order sts :
  Forall2 (fun i st => lookup stmts i = Some st) order sts ->
  map sid sts = order /\ incl sts stmts.
Proof.
  induction 1 as [|i st order sts Hl _ [IH1 IH2]]; [split; [reflexivity|intros x []]|].
  apply lookup_some in Hl. destruct Hl as [Hin Hs]. split.
  - cbn. now rewrite Hs, IH1.
  - intros x [<-|Hx]; auto.
Qed.

Theorem lower_spec skip stmts : phase_wf stmts ->
  exists order sts t,
    topo_order stmts = LOk order /\ map sid sts = order /\
    Permutation sts stmts /\ respects_deps sts /\
    lower false true skip stmts = LOk t /\
    forall v trips, ltrace v trips [] t = flat_map (stmt_trace trips) (filter (runs v) sts).
Proof.
  intros WF. destruct (topo_order_spec stmts WF) as (order & Eo & Hpost & Hperm).
  destruct WF as [ND Hc Hacyc].
  destruct (main_block_ok skip stmts order) as (sts & HF & HM).
  { intros x Hx. destruct (lookup_in_ids stmts x) as [st Hst]; [|congruence].
    eapply Permutation_in; eassumption. }
  destruct (Forall2_lookup_ids _ _ _ HF) as [Hids Hincl].
  destruct (simplify_total false (Block (flat_map (emit1 skip) sts))) as [t Ht].
  exists order, sts, t. split; [assumption|]. split; [assumption|].
  assert (NDs : NoDup stmts) by (eapply NoDup_map_inv; eassumption).
  split; [|split; [|split]].
  - apply NoDup_Permutation_bis.
    + apply (NoDup_map_inv sid). rewrite Hids. eapply post_NoDup; eassumption.
    + rewrite <- (map_length sid stmts), <- (Permutation_length Hperm), <- Hids, map_length. lia.
    + assumption.
  - intros l1 st l2 E d Hd.
    assert (Eo' : order = map sid l1 ++ sid st :: map sid l2).
    { rewrite <- Hids, E, map_app. reflexivity. }
    eapply (post_before stmts order Hpost); [exact Eo'|].
    exists st. split; [|assumption].
    apply lookup_nodup; [assumption|]. apply Hincl. rewrite E, in_app_iff. right. now left.
  - unfold lower. rewrite Eo. cbn [lbind]. rewrite HM. cbn [lbind]. rewrite Ht. reflexivity.
  - intros v trips. rewrite (simplify_ltrace v trips true _ _ [] Ht). apply block_ltrace.
Qed.

(* ====================================================================== *)
(* Part H.  the result does not depend on the stored order                 *)
(* ====================================================================== *)
Lemma topo_ext s1 s2 : (forall i, lookup s1 i = lookup s2 i) ->
  forall fuel stack visiting visited order,
  topo s1 fuel stack visiting visited order = topo s2 fuel stack visiting visited order.
Proof.
  intros H. induction fuel as [|f IH]; intros stack visiting visited order; cbn [topo]; [reflexivity|].
  destruct stack as [|s rest]; [reflexivity|].
  destruct (mem s visited); [destruct (mem s visiting); apply IH|].
  rewrite H. destruct (lookup s2 s); [apply IH|reflexivity].
Qed.

Lemma main_block_ext skip s1 s2 : (forall i, lookup s1 i = lookup s2 i) ->
  forall order, main_block skip s1 order = main_block skip s2 order.
Proof.
  intros H. induction order as [|i r IH]; cbn [main_block]; [reflexivity|].
  rewrite H, IH. reflexivity.
Qed.

Lemma all_deps_perm s1 s2 : Permutation s1 s2 -> forall d, In d (all_deps s1) <-> In d (all_deps s2).
Proof.
  intros P d. rewrite !all_deps_In. split; intros (st & Hst & Hd); exists st; split; try assumption.
  - eapply Permutation_in; eassumption.
  - eapply Permutation_in; [apply Permutation_sym; eassumption|assumption].
Qed.

Lemma roots_perm s1 s2 : Permutation s1 s2 -> roots s1 = roots s2.
Proof.
  intros P. unfold roots. apply sorted_set_ext. intros x.
  rewrite !filter_In, !negb_true_iff, !mem_nIn, (all_deps_perm s1 s2 P x).
  assert (Hm : In x (map sid s1) <-> In x (map sid s2)).
  { split; apply Permutation_in; [|apply Permutation_sym]; apply Permutation_map; assumption. }
  tauto.
Qed.

Lemma deps_sum_perm s1 s2 : Permutation s1 s2 ->
  fold_right (fun st n => S (length (sdeps st)) + n) 0 s1 =
  fold_right (fun st n => S (length (sdeps st)) + n) 0 s2.
Proof. induction 1; cbn [fold_right] in *; lia. Qed.

Theorem lower_perm r g skip s1 s2 : Permutation s1 s2 -> NoDup (map sid s1) ->
  topo_order s1 = topo_order s2 /\ lower r g skip s1 = lower r g skip s2.
Proof.
  intros P ND. pose proof (lookup_perm s1 s2 P ND) as HL.
  assert (E : topo_order s1 = topo_order s2).
  { unfold topo_order, topo_fuel. rewrite (roots_perm s1 s2 P), (deps_sum_perm s1 s2 P).
    apply topo_ext. assumption. }
  split; [assumption|]. unfold lower. rewrite E.
  destruct (topo_order s2) as [order| | |]; cbn [lbind]; try reflexivity.
  rewrite (main_block_ext skip s1 s2 HL). reflexivity.
Qed.

(* ====================================================================== *)
(* Part I.  totality of the lowering and of the generic walker             *)
(* ====================================================================== *)
Fixpoint nullfree (t : ast) : bool :=
  match t with
  | Leaf _ => true
  | Null => false
  | Block l => forallb nullfree l
  | IfT _ t => nullfree t
  | IfTE _ t e => nullfree t && nullfree e
  | For _ b => nullfree b
  end.

Lemma wapp_ok a b x y : a = WOk x -> b = WOk y -> wapp a b = WOk (x ++ y).
Proof. intros -> ->. reflexivity. Qed.

Lemma walk_nullfree : forall t, nullfree t = true -> exists evs, walk t = WOk evs.
Proof.
  induction t as [n| |l IH|c t IHt|c t e IHt IHe|x b IHb] using ast_ind'; cbn [nullfree walk]; intros H.
  - eauto.
  - discriminate.
  - induction IH as [|a l Ha _ IHl]; [cbn; eauto|].
    cbn [forallb] in H. apply andb_prop in H. destruct H as [H1 H2].
    destruct (Ha H1) as [e1 E1]. destruct (IHl H2) as [e2 E2].
    cbn [fold_right]. rewrite E1, E2. cbn. eauto.
  - destruct (IHt H) as [e1 ->]. cbn. eauto.
  - apply andb_prop in H. destruct H as [H1 H2].
    destruct (IHt H1) as [e1 ->]. destruct (IHe H2) as [e2 ->]. cbn. eauto.
  - destruct (IHb H) as [e1 ->]. cbn. eauto.
Qed.

(* every loop body (and IfThen body) survives the post pass *)
Fixpoint good (t : ast) : bool :=
  match t with
  | Leaf _ | Null => true
  | Block l => forallb good l
  | IfT _ t => good t && negb (is_null (post t))
  | IfTE _ t e => good t && good e
  | For _ b => good b && negb (is_null (post b))
  end.

Lemma post_nullfree : forall t, good t = true -> is_null (post t) = true \/ nullfree (post t) = true.
Proof.
  induction t as [n| |l IH|c t IHt|c t e IHt IHe|x b IHb] using ast_ind'; cbn [good post]; intros H.
  - now right.
  - now left.
  - assert (HF : forallb nullfree (filter (fun x => negb (is_null x)) (map post l)) = true).
    { induction IH as [|a l Ha _ IHl]; [reflexivity|].
      cbn [forallb] in H. apply andb_prop in H. destruct H as [H1 H2].
      cbn [map filter]. destruct (Ha H1) as [Hn|Hn].
      - rewrite Hn. cbn [negb]. apply IHl. assumption.
      - destruct (is_null (post a)); cbn [negb]; [apply IHl; assumption|].
        cbn [forallb]. rewrite Hn. apply IHl. assumption. }
    destruct (filter _ (map post l)) as [|a [|b r]].
    + now left.
    + right. cbn [forallb] in HF. now rewrite andb_true_r in HF.
    + right. exact HF.
  - apply andb_prop in H. destruct H as [H1 H2]. right. cbn [nullfree].
    destruct (IHt H1) as [Hn|Hn]; [rewrite Hn in H2; discriminate|assumption].
  - apply andb_prop in H. destruct H as [H1 H2].
    destruct (IHt H1) as [Ht|Ht], (IHe H2) as [He|He].
    + rewrite Ht, He. now left.
    + rewrite Ht. right. destruct (is_null (post e)) eqn:E; [destruct (post e); discriminate|].
      cbn [nullfree]. assumption.
    + rewrite He. right. destruct (is_null (post t)) eqn:E; [destruct (post t); discriminate|].
      cbn [nullfree]. assumption.
    + right. destruct (is_null (post t)) eqn:E1; [destruct (post t); discriminate|].
      destruct (is_null (post e)) eqn:E2; [destruct (post e); discriminate|].
      cbn [nullfree]. now rewrite Ht, He.
  - apply andb_prop in H. destruct H as [H1 H2]. right. cbn [nullfree].
    destruct (IHb H1) as [Hn|Hn]; [rewrite Hn in H2; discriminate|assumption].
Qed.

Lemma post_top_nullfree t : good t = true -> nullfree (post_top t) = true.
Proof.
  intros H. unfold post_top. destruct (post_nullfree t H) as [Hn|Hn].
  - destruct (post t); try discriminate. reflexivity.
  - destruct (post t); try discriminate; assumption.
Qed.

Lemma good_flat_block nodes : forallb good nodes = true -> good (flat_block nodes) = true.
Proof.
  unfold flat_block. cbn [good]. induction nodes as [|n ns IH]; intros H; [reflexivity|].
  cbn [forallb] in H. apply andb_prop in H. destruct H as [H1 H2].
  cbn [flat_map]. rewrite forallb_app, (IH H2), andb_true_r.
  destruct n; cbn [forallb]; rewrite ?andb_true_r; try reflexivity; assumption.
Qed.

Lemma forallb_rev {A} (f : A -> bool) l : forallb f (rev l) = forallb f l.
Proof.
  induction l as [|a l IH]; [reflexivity|]. cbn [rev forallb].
  rewrite forallb_app, IH. cbn. rewrite andb_true_r. apply andb_comm.
Qed.

Lemma qloop_good r : forall fuel cur q acc l,
  forallb good q = true -> good cur = true -> forallb good acc = true ->
  qloop r fuel cur q acc = Some l -> forallb good l = true.
Proof.
  induction fuel as [|f IH]; intros cur q acc l Hq Hc Ha H; [discriminate|].
  cbn [qloop] in H. destruct q as [|nx q'].
  - injection H as <-. rewrite forallb_app, Ha. cbn. now rewrite Hc.
  - cbn [forallb] in Hq. apply andb_prop in Hq. destruct Hq as [Hn Hq].
    assert (Hacc : forallb good (acc ++ [cur]) = true).
    { rewrite forallb_app, Ha. cbn. now rewrite Hc. }
    assert (Hdef : qloop r f nx q' (acc ++ [cur]) = Some l -> forallb good l = true).
    { intros H0. eapply IH; [| | |exact H0]; assumption. }
    destruct nx as [n| |ch|c2 t2|c2 t2 e2|x b]; try (now apply Hdef).
    + eapply IH; [| | |exact H]; assumption.
    + eapply IH; [| | |exact H]; try assumption.
      rewrite forallb_app, Hq, andb_true_r. cbn [good] in Hn.
      destruct r; [rewrite forallb_rev|]; assumption.
    + destruct cur as [n1| |ch1|c1 t1|c1 t1 e1|x1 b1]; try (now apply Hdef).
      destruct (cond_eqb c1 c2); [|now apply Hdef].
      eapply IH; [| | |exact H]; try assumption.
      cbn [good] in Hn, Hc |- *. apply andb_prop in Hn. apply andb_prop in Hc.
      destruct Hn as [Hn1 Hn2]. destruct Hc as [Hc1 Hc2].
      rewrite !good_flat_block; [reflexivity| |]; cbn [forallb];
        rewrite ?Hn1, ?Hn2, ?Hc1, ?Hc2; reflexivity.
Qed.

Lemma pop_nonnull_good q cur q' : forallb good q = true -> pop_nonnull q = Some (cur, q') ->
  good cur = true /\ forallb good q' = true.
Proof.
  induction q as [|x q IH]; intros H E; [discriminate|].
  cbn [forallb] in H. apply andb_prop in H. destruct H as [H1 H2].
  cbn [pop_nonnull] in E. destruct x; try (injection E as <- <-; split; assumption).
  apply IH; assumption.
Qed.

Lemma simp_block_good r g orig q t :
  forallb good orig = true -> forallb good q = true ->
  simp_block r g orig q = Ok t -> good t = true.
Proof.
  intros Ho Hq H. unfold simp_block in H. destruct q as [|x q0].
  - injection H as <-. exact Ho.
  - destruct (pop_nonnull (x :: q0)) as [[cur q']|] eqn:Ep.
    + destruct (pop_nonnull_good _ _ _ Hq Ep) as [Hc Hq'].
      destruct (qloop r (S (size_list q')) cur q' []) as [l|] eqn:El; [|discriminate].
      pose proof (qloop_good r _ cur q' [] l Hq' Hc eq_refl El) as Hl.
      destruct l as [|a [|b l]]; injection H as <-; try exact Hl.
      cbn [forallb] in Hl. now rewrite andb_true_r in Hl.
    + destruct g; [injection H as <-; reflexivity|discriminate].
Qed.

(* the main pass on one wrapped statement *)
Definition core' (st : stmt) : ast :=
  match sguard st with
  | CTrue => Leaf (sid st)
  | CFalse => Null
  | c => simp_ite c (Leaf (sid st)) Null
  end.

(* shape "guard inside the loops" *)
Lemma pre_wrap_in st : pre (wrap_g false st) = wrap_g false st.
Proof.
  unfold wrap_g. induction (sloops st) as [|x l IH]; cbn [fold_right pre].
  - unfold guard_node. destruct (sguard st); reflexivity.
  - now rewrite IH.
Qed.

Lemma simp_wrap_in r g st :
  simp r g (wrap_g false st) = Ok (fold_right For (core' st) (sloops st)).
Proof.
  unfold wrap_g. induction (sloops st) as [|x l IH]; cbn [fold_right simp].
  - unfold guard_node, core'. destruct (sguard st); reflexivity.
  - rewrite IH. reflexivity.
Qed.

(* shape "guard around the loops": the loop nest around the bare statement *)
Lemma pre_nest n loops : pre (fold_right For (Leaf n) loops) = fold_right For (Leaf n) loops.
Proof. induction loops as [|x l IH]; cbn [fold_right pre]; [reflexivity|now rewrite IH]. Qed.

Lemma simp_nest r g n loops :
  simp r g (fold_right For (Leaf n) loops) = Ok (fold_right For (Leaf n) loops).
Proof. induction loops as [|x l IH]; cbn [fold_right simp]; [reflexivity|now rewrite IH]. Qed.

Definition not_ite (t : ast) : bool := match t with IfTE _ _ _ => false | _ => true end.

Lemma nest_not_ite n loops : not_ite (fold_right For (Leaf n) loops) = true.
Proof. destruct loops; reflexivity. Qed.

Lemma strip_not_swap c : forall t e c' t2 e2, strip_not c t e = (c', t2, e2) ->
  (t2 = t /\ e2 = e) \/ (t2 = e /\ e2 = t).
Proof.
  induction c as [| |c IH|n]; intros t e c' t2 e2 H; cbn [strip_not] in H;
    try (injection H as <- <- <-; now left).
  destruct (IH _ _ _ _ _ H) as [[-> ->]|[-> ->]]; auto.
Qed.

Lemma good_chain core loops :
  good core = true -> is_null (post core) = false -> good (fold_right For core loops) = true.
Proof.
  intros Hg Hn. destruct loops as [|x l]; [exact Hg|].
  assert (H : forall l, good (fold_right For core l) = true /\
                        is_null (post (fold_right For core l)) = false).
  { induction l0 as [|y l0 [IH1 IH2]]; [split; assumption|].
    cbn [fold_right good post is_null]. rewrite IH1, IH2. split; reflexivity. }
  apply H.
Qed.

Lemma core'_good st : good (core' st) = true /\ (sguard st <> CFalse -> is_null (post (core' st)) = false).
Proof.
  unfold core'. destruct (sguard st) as [| |c|n] eqn:Eg.
  - split; reflexivity.
  - split; [reflexivity|congruence].
  - unfold simp_ite. destruct (strip_not (CNot c) (Leaf (sid st)) Null) as [[c' t2] e2] eqn:E.
    destruct (strip_not_swap _ _ _ _ _ _ E) as [[-> ->]|[-> ->]]; split; reflexivity.
  - split; reflexivity.
Qed.


Lemma simp_ite_null_good c t : not_ite t = true -> good t = true -> good (simp_ite c t Null) = true.
Proof.
  intros Hn Hg. unfold simp_ite. destruct (strip_not c t Null) as [[c' t2] e2] eqn:E.
  destruct (strip_not_swap _ _ _ _ _ _ E) as [[-> ->]|[-> ->]];
    destruct t; try discriminate; cbn [good andb] in Hg |- *; rewrite ?Hg, ?andb_true_r; reflexivity.
Qed.

(* one wrapped statement through the pre and main passes, both shapes.  With the guard around the
   loops a looped statement guarded by the constant False vanishes as a whole, so nothing is needed. *)
Lemma wrap_g_good r g go st : (go = true \/ sguard st <> CFalse \/ no_false_loop st) ->
  pre (wrap_g go st) = wrap_g go st /\
  exists w', simp r g (wrap_g go st) = Ok w' /\ good w' = true.
Proof.
  intros Hs. destruct go.
  - clear Hs. unfold wrap_g.
    pose proof (pre_nest (sid st) (sloops st)) as Hp.
    pose proof (simp_nest r g (sid st) (sloops st)) as Hsn.
    assert (Hg : good (fold_right For (Leaf (sid st)) (sloops st)) = true)
      by (apply good_chain; reflexivity).
    pose proof (nest_not_ite (sid st) (sloops st)) as Hn.
    destruct (sguard st) as [| |c|n]; cbn [pre simp]; rewrite ?Hp, ?Hsn; cbn [rbind];
      (split; [reflexivity|]); eexists; (split; [reflexivity|]);
      try assumption; try reflexivity; apply simp_ite_null_good; assumption.
  - split; [apply pre_wrap_in|].
    exists (fold_right For (core' st) (sloops st)). split; [apply simp_wrap_in|].
    destruct (core'_good st) as [Hg Hn].
    destruct (sloops st) as [|x l] eqn:El; [exact Hg|]. rewrite <- El.
    apply good_chain; [assumption|]. apply Hn.
    destruct Hs as [Hs|[Hs|Hs]]; [discriminate|assumption|].
    apply Hs. rewrite El. discriminate.
Qed.

Lemma simp_emit1_good r g skip st :
  (skip = true \/ lower_guard_outside = true \/ no_false_loop st) ->
  forall w, In w (emit1 skip st) ->
  pre w = w /\ exists w', simp r g w = Ok w' /\ good w' = true.
Proof.
  intros Hs w Hw. unfold emit1 in Hw. destruct (snop st); [destruct Hw|].
  destruct (skip && is_cfalse (sguard st)) eqn:E; [destruct Hw|].
  destruct Hw as [<-|[]]. unfold wrap. apply wrap_g_good.
  destruct Hs as [->|[Hs|Hs]]; [|now left|now right; right].
  right. left. cbn [andb] in E. intros Ec. rewrite Ec in E. discriminate.
Qed.

Lemma simp_block_children r g ws :
  (forall w, In w ws -> pre w = w /\ exists w', simp r g w = Ok w' /\ good w' = true) ->
  map pre ws = ws /\
  exists q, (fix go (l : list ast) : res (list ast) :=
               match l with
               | [] => Ok []
               | x :: l' => rbind (simp r g x) (fun x' => rbind (go l') (fun r => Ok (x' :: r)))
               end) ws = Ok q /\ forallb good q = true.
Proof.
  induction ws as [|w ws IH]; intros H.
  - split; [reflexivity|]. exists []. split; reflexivity.
  - destruct IH as (Hp & q & Hq & Hg); [intros x Hx; apply H; now right|].
    destruct (H w (or_introl eq_refl)) as (Hpw & w' & Hw' & Hgw).
    split; [cbn [map]; now rewrite Hpw, Hp|].
    exists (w' :: q). split; [rewrite Hw', Hq; reflexivity|].
    cbn [forallb]. now rewrite Hgw, Hg.
Qed.

(* every id of the computed order was looked up successfully (any phase, cyclic or not) *)
Lemma topo_dom stmts : forall fuel stack visiting visited ord res,
  (forall x, In x visited -> lookup stmts x <> None) ->
  (forall x, In x visiting -> In x visited) ->
  (forall x, In x ord -> In x visited) ->
  topo stmts fuel stack visiting visited ord = LOk res ->
  forall x, In x res -> lookup stmts x <> None.
Proof.
  induction fuel as [|f IH]; intros stack visiting visited ord res H1 H2 H3 H; [discriminate|].
  cbn [topo] in H. destruct stack as [|s rest].
  - injection H as <-. intros x Hx. apply H1, H3, Hx.
  - destruct (mem s visited) eqn:Ev.
    + apply mem_In in Ev. destruct (mem s visiting).
      * eapply IH; [exact H1| | |exact H].
        -- intros x Hx. apply in_remove in Hx. apply H2, Hx.
        -- intros x Hx. rewrite in_app_iff in Hx. destruct Hx as [Hx|[<-|[]]]; auto.
      * eapply IH; [exact H1|exact H2|exact H3|exact H].
    + destruct (lookup stmts s) as [st|] eqn:El; [|discriminate].
      eapply IH; [| | |exact H].
      * intros x [<-|Hx]; [congruence|auto].
      * intros x [<-|Hx]; [now left|right; auto].
      * intros x Hx. right. auto.
Qed.

Lemma topo_order_dom stmts order : topo_order stmts = LOk order ->
  forall x, In x order -> lookup stmts x <> None.
Proof. unfold topo_order. intros E. eapply topo_dom; [| | |exact E]; intros x []. Qed.

(* no KeyError, no IndexError, no OutOfFuel: only the dependencies have to stay inside the phase *)
Theorem lower_total r skip stmts : closed stmts -> exists t, lower r true skip stmts = LOk t.
Proof.
  intros Hc. destruct (topo_order_total stmts Hc) as [order Eo].
  destruct (main_block_ok skip stmts order (topo_order_dom _ _ Eo)) as (sts & _ & HM).
  destruct (simplify_total r (Block (flat_map (emit1 skip) sts))) as [t Ht].
  exists t. unfold lower. rewrite Eo. cbn [lbind]. rewrite HM. cbn [lbind]. rewrite Ht. reflexivity.
Qed.

Theorem lower_walk_total r skip stmts : closed stmts ->
  (skip = true \/ lower_guard_outside = true \/ forall st, In st stmts -> no_false_loop st) ->
  exists t evs, lower r true skip stmts = LOk t /\ walk t = WOk evs.
Proof.
  intros Hc Hs.
  destruct (topo_order_total stmts Hc) as [order Eo].
  pose proof (topo_order_dom _ _ Eo) as Hdom.
  destruct (main_block_ok skip stmts order Hdom) as (sts & HF & HM).
  destruct (Forall2_lookup_ids _ _ _ HF) as [_ Hincl].
  set (ws := flat_map (emit1 skip) sts) in *.
  assert (Hws : forall w, In w ws ->
             pre w = w /\ exists w', simp r true w = Ok w' /\ good w' = true).
  { intros w Hw. unfold ws in Hw. apply in_flat_map in Hw. destruct Hw as (st & Hst & Hw).
    eapply simp_emit1_good; [|exact Hw].
    destruct Hs as [->|[Hs|Hs]]; [now left|now right; left|right; right; apply Hs, Hincl, Hst]. }
  destruct (simp_block_children r true ws Hws) as (Hpre & q & Hq & Hgq).
  (* the children before the main pass are trivially `good` only when the block is empty;
     simp_block returns `Block orig` only for an empty queue, i.e. an empty block *)
  assert (Hsimp : exists t1, simp r true (Block ws) = Ok t1 /\ good t1 = true).
  { cbn [simp]. rewrite Hq. cbn [rbind].
    destruct (simp_block_total r ws q) as [t1 Ht1]. exists t1. split; [assumption|].
    destruct q as [|x q0].
    - unfold simp_block in Ht1. injection Ht1 as <-.
      destruct ws as [|w ws']; [reflexivity|].
      exfalso. cbn in Hq. destruct (simp r true w); cbn in Hq; try discriminate.
      match type of Hq with rbind ?X _ = _ => destruct X end; cbn in Hq; discriminate.
    - unfold simp_block in Ht1.
      destruct (pop_nonnull (x :: q0)) as [[cur q']|] eqn:Ep.
      + destruct (pop_nonnull_good _ _ _ Hgq Ep) as [Hcg Hq'].
        destruct (qloop r (S (size_list q')) cur q' []) as [l|] eqn:El; [|discriminate].
        pose proof (qloop_good r _ cur q' [] l Hq' Hcg eq_refl El) as Hl.
        destruct l as [|a [|b l]]; injection Ht1 as <-; try exact Hl.
        cbn [forallb] in Hl. now rewrite andb_true_r in Hl.
      + injection Ht1 as <-. reflexivity. }
  destruct Hsimp as (t1 & Ht1 & Hg1).
  assert (Hsimplify : simplify r true (Block ws) = Ok (post_top t1)).
  { unfold simplify. cbn [pre]. rewrite Hpre, Ht1. reflexivity. }
  destruct (walk_nullfree (post_top t1) (post_top_nullfree t1 Hg1)) as [evs Hevs].
  exists (post_top t1), evs. split; [|assumption].
  unfold lower. rewrite Eo. cbn [lbind]. rewrite HM. cbn [lbind]. fold ws. rewrite Hsimplify. reflexivity.
Qed.

(* ====================================================================== *)
(* Part J.  the defective shape, non-vacuity examples, an observation      *)
(* ====================================================================== *)

(* ---- refutation for the unrepaired main loop (skip_false = false) ---- *)
(* Assign(id="a", loops=[(i,0,3)], condition=False): well-formed, lowered to
   ForLoop(i, 0, 3, NullASTNode()), on which lower_node raises ValueError. *)
Definition wit_false_loop : list stmt := [mkStmt 0 [] CFalse [0] false].

Lemma acyclic_of_rank stmts (rank : nat -> nat) :
  (forall a b, edge stmts a b -> rank b < rank a) -> acyclic stmts.
Proof.
  intros H x Hx.
  assert (G : forall a b, clos_trans nat (edge stmts) a b -> rank b < rank a).
  { induction 1 as [a b He|a b c _ IH1 _ IH2]; [auto|lia]. }
  specialize (G x x Hx). lia.
Qed.

Lemma wit_false_loop_wf : phase_wf wit_false_loop.
Proof.
  constructor.
  - repeat constructor. intros [].
  - intros st d [<-|[]] [].
  - apply (acyclic_of_rank _ (fun _ => 0)). intros a b (st & Hl & Hb).
    apply lookup_some in Hl. destruct Hl as [[<-|[]] _]. destruct Hb.
Qed.

(* (only with the guard inside the loops; with the guard around them the statement vanishes) *)
Lemma lower_walk_refuted r g : lower_guard_outside = false ->
  phase_wf wit_false_loop /\
  lower r g false wit_false_loop = LOk (For 0 Null) /\ walk (For 0 Null) = WValueError.
Proof.
  intros H. split; [exact wit_false_loop_wf|].
  first [ vm_compute in H; discriminate H | destruct r, g; split; reflexivity ].
Qed.

Example wit_false_loop_guard_outside r :
  lower_guard_outside = true -> lower r true false wit_false_loop = LOk (Block []).
Proof. intros H. first [ vm_compute in H; discriminate H | destruct r; reflexivity ]. Qed.

(* the two shapes of the wrapping on one statement *)
Example wrap_g_shapes :
  let st := mkStmt 3 [1; 0] (CAtom 0) [0; 1] false in
  wrap_g false st = For 0 (For 1 (IfTE (CAtom 0) (Leaf 3) Null)) /\
  wrap_g true st = IfTE (CAtom 0) (For 0 (For 1 (Leaf 3))) Null /\
  wrap_g true (mkStmt 0 [4] CTrue [2] false) = For 2 (Leaf 0).
Proof. repeat split. Qed.

Example wit_false_loop_repaired r g : lower r g true wit_false_loop = LOk (Block []).
Proof. destruct r, g; reflexivity. Qed.

(* ---- non-vacuity: a phase with a diamond, a Nop in the middle of a chain, loop nests,
        guards (flag, negated flag, False) and ids that are not in dependency order ---- *)
Definition ex_phase : list stmt :=
  [ mkStmt 3 [1; 0] (CAtom 0) [0; 1] false;
    mkStmt 1 [4] (CAtom 1) [] true;
    mkStmt 4 [] (CNot (CAtom 0)) [] false;
    mkStmt 0 [4] CTrue [2] false;
    mkStmt 2 [3] CFalse [] false ].

Example ex_phase_wf : phase_wf ex_phase.
Proof.
  constructor.
  - cbn. repeat (constructor; [cbn; intuition congruence|]). constructor.
  - intros st d Hst Hd. cbn in Hst.
    repeat (destruct Hst as [<-|Hst]; [cbn in Hd |- *; intuition auto|]). destruct Hst.
  - apply (acyclic_of_rank _ (fun i => match i with 4 => 0 | 1 => 1 | 0 => 1 | 3 => 2 | _ => 3 end)).
    intros a b (st & Hl & Hb).
    do 5 (destruct a as [|a];
          [cbn in Hl; injection Hl as <-; cbn in Hb;
           repeat (destruct Hb as [<-|Hb]; [cbn; lia|]); destruct Hb|]).
    cbn in Hl. discriminate.
Qed.

Example ex_phase_no_false_loop : forall st, In st ex_phase -> no_false_loop st.
Proof.
  intros st Hst. cbn in Hst.
  repeat (destruct Hst as [<-|Hst]; [intros Hl; cbn in *; congruence|]). destruct Hst.
Qed.

Example ex_phase_lowers :
  topo_order ex_phase = LOk [4; 1; 0; 3; 2] /\
  lower false true false ex_phase =
    LOk (Block [IfT (CNot (CAtom 0)) (Leaf 4); For 2 (Leaf 0);
                if lower_guard_outside
                then IfT (CAtom 0) (For 0 (For 1 (Leaf 3)))
                else For 0 (For 1 (IfT (CAtom 0) (Leaf 3)))]) /\
  (forall t, lower false true false ex_phase = LOk t ->
     ltrace (fun n => Nat.eqb n 0) (fun x => S x) [] t =
       [(0, [2]); (0, [2]); (0, [2]); (3, [0; 1]); (3, [0; 1])] /\
     walk t = WOk ([EIfBegin (CNot (CAtom 0)); EInst 4; EIfEnd; EForBegin 2; EInst 0; EForEnd 2] ++
                   if lower_guard_outside
                   then [EIfBegin (CAtom 0); EForBegin 0; EForBegin 1; EInst 3;
                         EForEnd 1; EForEnd 0; EIfEnd]
                   else [EForBegin 0; EForBegin 1; EIfBegin (CAtom 0); EInst 3; EIfEnd;
                         EForEnd 1; EForEnd 0])).
Proof.
  split; [vm_compute; reflexivity|]. split; [vm_compute; reflexivity|].
  intros t H. vm_compute in H. injection H as <-. split; vm_compute; reflexivity.
Qed.

(* storage independence on the example: the reversed list gives the same tree *)
Example ex_phase_rev : lower false true false (rev ex_phase) = lower false true false ex_phase.
Proof. vm_compute. reflexivity. Qed.

(* ---- observation (outside the property: C10 rejects cyclic phases): a dependency cycle is
        neither detected nor an error here; the computed order silently violates an edge ---- *)
Definition ex_cyclic : list stmt :=
  [mkStmt 0 [1] CTrue [] false; mkStmt 1 [0] CTrue [] false; mkStmt 2 [0] CTrue [] false].
Example ex_cyclic_silent :
  topo_order ex_cyclic = LOk [0; 1; 2] /\ edge ex_cyclic 0 1 /\
  lower false true false ex_cyclic = LOk (Block [Leaf 0; Leaf 1; Leaf 2]).
Proof.
  split; [vm_compute; reflexivity|]. split; [|vm_compute; reflexivity].
  eexists. split; [vm_compute; reflexivity|]. now left.
Qed.

(* END *)
