(* Proofs about model/DagAst.v (C05). *)
From Coq Require Import List Arith Bool Lia Relations Permutation Sorted.
Import ListNotations.
From Dagrt Require Import Simplify SimplifyProofs DagAst.

(* ====================================================================== *)
(* Part A.  simplify_ast preserves the loop-nest-carrying trace `ltrace`.  *)
(* This generalises SimplifyProofs.simplify_trace (C06), whose observable  *)
(* `trace` is the first projection of `ltrace` (lemma ltrace_fst below);   *)
(* the proof follows the same steps with the enclosing nest as a parameter.*)
(* ====================================================================== *)
Section LTr.
  Variable v : nat -> bool.
  Variable trips : nat -> nat.
  Notation ltr := (ltrace v trips).
  Notation ltrl nest := (flat_map (ltrace v trips nest)).

  Lemma map_repeat_app {A B} (f : A -> B) n (l : list A) :
    map f (repeat_app n l) = repeat_app n (map f l).
  Proof. induction n as [|n IH]; cbn; [reflexivity|]. now rewrite map_app, IH. Qed.

  Lemma ltrace_fst : forall t nest, map fst (ltr nest t) = trace v trips t.
  Proof.
    induction t as [n| |l IH|c t IHt|c t e IHt IHe|x b IHb] using ast_ind'; intros nest;
      cbn [ltrace trace]; try reflexivity.
    - induction IH as [|a l Ha _ IHl]; [reflexivity|]. cbn [flat_map]. now rewrite map_app, Ha, IHl.
    - destruct (evalc v c); [apply IHt|reflexivity].
    - destruct (evalc v c); [apply IHt|apply IHe].
    - now rewrite map_repeat_app, IHb.
  Qed.

  Lemma ltrl_app nest l1 l2 : ltrl nest (l1 ++ l2) = ltrl nest l1 ++ ltrl nest l2.
  Proof. apply flat_map_app. Qed.

  Lemma ltrace_flat_block nest nodes : ltr nest (flat_block nodes) = ltrl nest nodes.
  Proof.
    unfold flat_block. cbn [ltrace].
    induction nodes as [|n ns IH]; [reflexivity|].
    cbn [flat_map]. rewrite ltrl_app, IH. f_equal.
    destruct n; cbn [ltrace flat_map]; rewrite ?app_nil_r; reflexivity.
  Qed.

  Lemma strip_not_lsem nest c : forall t e c' t2 e2,
    strip_not c t e = (c', t2, e2) ->
    (if evalc v c' then ltr nest t2 else ltr nest e2) = (if evalc v c then ltr nest t else ltr nest e).
  Proof.
    induction c as [| |c IH|n]; intros t e c' t2 e2 H; cbn [strip_not] in H;
      try (injection H as <- <- <-; reflexivity).
    rewrite (IH _ _ _ _ _ H). cbn [evalc]. destruct (evalc v c); reflexivity.
  Qed.

  Lemma simp_ite_ltrace nest c t e :
    ltr nest (simp_ite c t e) = if evalc v c then ltr nest t else ltr nest e.
  Proof.
    unfold simp_ite. destruct (strip_not c t e) as [[c' t2] e2] eqn:E.
    rewrite <- (strip_not_lsem nest _ _ _ _ _ _ E). cbn [ltrace].
    destruct (evalc v c') eqn:Ec.
    - destruct t2; try reflexivity.
      destruct (cond_eqb c' c0) eqn:Eq; [|reflexivity].
      apply cond_eqb_eq in Eq. subst c0. cbn [ltrace]. now rewrite Ec.
    - destruct e2; try reflexivity.
      destruct (cond_eqb c' c0) eqn:Eq; [|reflexivity].
      apply cond_eqb_eq in Eq. subst c0. cbn [ltrace]. now rewrite Ec.
  Qed.

  Lemma qloop_ltrace nest : forall fuel cur q acc l,
    qloop false fuel cur q acc = Some l ->
    ltrl nest l = ltrl nest acc ++ ltr nest cur ++ ltrl nest q.
  Proof.
    induction fuel as [|f IH]; intros cur q acc l H; [discriminate|].
    cbn [qloop] in H. destruct q as [|nx q'].
    - injection H as <-. rewrite ltrl_app. cbn. now rewrite !app_nil_r.
    - assert (Hdef : forall l, qloop false f nx q' (acc ++ [cur]) = Some l ->
                     ltrl nest l = ltrl nest acc ++ ltr nest cur ++ ltrl nest (nx :: q')).
      { intros l0 H0. rewrite (IH _ _ _ _ H0), ltrl_app. cbn [flat_map].
        rewrite app_nil_r, <- !app_assoc. reflexivity. }
      destruct nx as [n| |ch|c2 t2|c2 t2 e2|x b]; try (now apply Hdef).
      + rewrite (IH _ _ _ _ H). reflexivity.
      + rewrite (IH _ _ _ _ H). rewrite ltrl_app. cbn [flat_map ltrace]. reflexivity.
      + destruct cur as [n1| |ch1|c1 t1|c1 t1 e1|x1 b1]; try (now apply Hdef).
        destruct (cond_eqb c1 c2) eqn:Eq; [|now apply Hdef].
        apply cond_eqb_eq in Eq. subst c2.
        rewrite (IH _ _ _ _ H). cbn [ltrace flat_map].
        rewrite !ltrace_flat_block. cbn [flat_map]. rewrite !app_nil_r.
        destruct (evalc v c1); rewrite <- !app_assoc; reflexivity.
  Qed.

  Lemma pop_nonnull_ltrace nest q : forall cur q', pop_nonnull q = Some (cur, q') ->
    ltrl nest q = ltr nest cur ++ ltrl nest q'.
  Proof.
    induction q as [|x q IH]; intros cur q' H; [discriminate|].
    cbn [pop_nonnull] in H. destruct x; try (injection H as <- <-; reflexivity).
    cbn [flat_map ltrace]. cbn. auto.
  Qed.

  Lemma pop_nonnull_lnone nest q : pop_nonnull q = None -> ltrl nest q = [].
  Proof.
    induction q as [|x q IH]; intros H; [reflexivity|].
    cbn [pop_nonnull] in H. destruct x; try discriminate. cbn. auto.
  Qed.

  Lemma simp_block_ltrace nest g orig q t' :
    ltrl nest q = ltrl nest orig ->
    simp_block false g orig q = Ok t' -> ltr nest t' = ltrl nest orig.
  Proof.
    intros Hq H. unfold simp_block in H. destruct q as [|x q0].
    - injection H as <-. reflexivity.
    - set (q := x :: q0) in *. clearbody q.
      destruct (pop_nonnull q) as [[cur q']|] eqn:Ep.
      + destruct (qloop false (S (size_list q')) cur q' []) as [l|] eqn:El; [|discriminate].
        pose proof (qloop_ltrace nest _ _ _ _ _ El) as Ht. cbn [flat_map app] in Ht.
        rewrite <- Hq, (pop_nonnull_ltrace nest _ _ _ Ep), <- Ht.
        destruct l as [|a [|b l]]; injection H as <-; try reflexivity.
        cbn. now rewrite app_nil_r.
      + rewrite <- Hq, (pop_nonnull_lnone nest _ Ep).
        destruct g; [injection H as <-; reflexivity|discriminate].
  Qed.

  Theorem simp_ltrace g : forall t nest t', simp false g t = Ok t' -> ltr nest t' = ltr nest t.
  Proof.
    induction t as [n| |l IH|c t IHt|c t e IHt IHe|x b IHb] using ast_ind'; intros nest t' H.
    - injection H as <-. reflexivity.
    - injection H as <-. reflexivity.
    - cbn [simp] in H. apply rbind_ok in H. destruct H as (q & Hq & Hb).
      cbn [ltrace]. eapply simp_block_ltrace; [|exact Hb].
      clear Hb t'. revert q Hq. induction IH as [|x l Hx _ IHl]; intros q Hq.
      + injection Hq as <-. reflexivity.
      + apply rbind_ok in Hq. destruct Hq as (x' & Ex & Hq).
        apply rbind_ok in Hq. destruct Hq as (r & Er & Hq). injection Hq as <-.
        cbn [flat_map]. rewrite (Hx _ _ Ex), (IHl _ Er). reflexivity.
    - cbn [simp] in H. apply rbind_ok in H. destruct H as (t1 & E1 & H). injection H as <-.
      cbn [ltrace]. now rewrite (IHt _ _ E1).
    - cbn [simp] in H.
      assert (Hgen : rbind (simp false g t) (fun t1 => rbind (simp false g e)
                 (fun e1 => Ok (simp_ite c t1 e1))) = Ok t' -> ltr nest t' = ltr nest (IfTE c t e)).
      { intros H0. apply rbind_ok in H0. destruct H0 as (t1 & E1 & H0).
        apply rbind_ok in H0. destruct H0 as (e1 & E2 & H0). injection H0 as <-.
        rewrite simp_ite_ltrace. cbn [ltrace]. now rewrite (IHt _ _ E1), (IHe _ _ E2). }
      destruct c; try (now apply Hgen); cbn [ltrace evalc]; auto.
    - cbn [simp] in H. apply rbind_ok in H. destruct H as (b1 & E1 & H). injection H as <-.
      cbn [ltrace]. now rewrite (IHb _ _ E1).
  Qed.

  Lemma pre_ltrace : forall t nest, ltr nest (pre t) = ltr nest t.
  Proof.
    induction t as [n| |l IH|c t IHt|c t e IHt IHe|x b IHb] using ast_ind'; intros nest;
      cbn [pre ltrace]; try congruence.
    - induction IH as [|x l Hx _ IHl]; [reflexivity|]. cbn [map flat_map]. congruence.
    - rewrite IHt. destruct (evalc v c); reflexivity.
    - rewrite IHt, IHe. reflexivity.
  Qed.

  Lemma post_ltrace : forall t nest, ltr nest (post t) = ltr nest t.
  Proof.
    induction t as [n| |l IH|c t IHt|c t e IHt IHe|x b IHb] using ast_ind'; intros nest;
      cbn [post ltrace]; try congruence.
    - assert (H : ltrl nest (filter (fun x => negb (is_null x)) (map post l)) = ltrl nest l).
      { induction IH as [|x l Hx _ IHl]; [reflexivity|]. cbn [map filter flat_map].
        rewrite <- (Hx nest).
        destruct (post x) eqn:Ex; cbn [is_null negb flat_map]; rewrite IHl; reflexivity. }
      rewrite <- H.
      destruct (filter _ (map post l)) as [|a [|b r]]; try reflexivity.
      cbn. now rewrite app_nil_r.
    - now rewrite IHt.
    - rewrite <- IHt, <- IHe.
      destruct (post t) eqn:Et, (post e) eqn:Ee; cbn [is_null ltrace evalc];
        destruct (evalc v c); reflexivity.
  Qed.

  Lemma post_top_ltrace t nest : ltr nest (post_top t) = ltr nest t.
  Proof.
    unfold post_top. rewrite <- (post_ltrace t). destruct (post t); reflexivity.
  Qed.

  Theorem simplify_ltrace g t t' nest : simplify false g t = Ok t' -> ltr nest t' = ltr nest t.
  Proof.
    unfold simplify. intros H. apply rbind_ok in H. destruct H as (t1 & E & H).
    injection H as <-. rewrite post_top_ltrace, (simp_ltrace _ _ _ _ E). apply pre_ltrace.
  Qed.
End LTr.

(* ====================================================================== *)
(* Part B.  sorted(<set>)                                                  *)
(* ====================================================================== *)
Lemma mem_In x l : mem x l = true <-> In x l.
Proof.
  unfold mem. rewrite existsb_exists. split.
  - intros (y & Hy & E). apply Nat.eqb_eq in E. now subst.
  - intros H. exists x. split; [assumption|apply Nat.eqb_refl].
Qed.
Lemma mem_nIn x l : mem x l = false <-> ~ In x l.
Proof. rewrite <- mem_In. destruct (mem x l); split; intros H; try congruence; try discriminate. Qed.

Lemma insert_In x y l : In x (insert y l) <-> x = y \/ In x l.
Proof.
  induction l as [|z r IH]; cbn [insert].
  - cbn. intuition.
  - destruct (y <? z) eqn:E1.
    + cbn. intuition.
    + destruct (y =? z) eqn:E2.
      * apply Nat.eqb_eq in E2. subst. cbn. intuition.
      * cbn. rewrite IH. intuition.
Qed.

Lemma sorted_set_In x l : In x (sorted_set l) <-> In x l.
Proof.
  induction l as [|y l IH]; cbn [sorted_set fold_right]; [tauto|].
  fold (sorted_set l). rewrite insert_In, IH. cbn. intuition.
Qed.

Lemma insert_sorted y l : StronglySorted lt l -> StronglySorted lt (insert y l).
Proof.
  induction l as [|z r IH]; intros S; cbn [insert].
  - constructor; constructor.
  - apply StronglySorted_inv in S. destruct S as [Sr Fz].
    destruct (y <? z) eqn:E1.
    + apply Nat.ltb_lt in E1. constructor; [constructor; assumption|].
      constructor; [assumption|]. rewrite Forall_forall in *. intros w Hw. specialize (Fz w Hw). lia.
    + destruct (y =? z) eqn:E2; [constructor; assumption|].
      apply Nat.ltb_ge in E1. apply Nat.eqb_neq in E2.
      constructor; [apply IH; assumption|].
      rewrite Forall_forall in *. intros w Hw. apply insert_In in Hw.
      destruct Hw as [->|Hw]; [lia|apply Fz; assumption].
Qed.

Lemma sorted_set_sorted l : StronglySorted lt (sorted_set l).
Proof.
  induction l as [|y l IH]; cbn [sorted_set fold_right]; [constructor|].
  apply insert_sorted. exact IH.
Qed.

Lemma ssorted_unique : forall l1 l2, StronglySorted lt l1 -> StronglySorted lt l2 ->
  (forall x, In x l1 <-> In x l2) -> l1 = l2.
Proof.
  induction l1 as [|a r1 IH]; intros l2 S1 S2 H.
  - destruct l2 as [|b r2]; [reflexivity|]. exfalso. apply (H b). now left.
  - destruct l2 as [|b r2]; [exfalso; apply (H a); now left|].
    apply StronglySorted_inv in S1. destruct S1 as [S1 F1].
    apply StronglySorted_inv in S2. destruct S2 as [S2 F2].
    rewrite Forall_forall in F1, F2.
    assert (E : a = b).
    { destruct (proj1 (H a) (or_introl eq_refl)) as [Eb|Hb]; [now symmetry|].
      destruct (proj2 (H b) (or_introl eq_refl)) as [Ea|Ha]; [assumption|].
      specialize (F1 _ Ha). specialize (F2 _ Hb). lia. }
    subst b. f_equal. apply IH; try assumption.
    intros x. split; intros Hx.
    + destruct (proj1 (H x) (or_intror Hx)) as [E|Hx2]; [|assumption].
      specialize (F1 _ Hx). lia.
    + destruct (proj2 (H x) (or_intror Hx)) as [E|Hx2]; [|assumption].
      specialize (F2 _ Hx). lia.
Qed.

Lemma sorted_set_ext l1 l2 : (forall x, In x l1 <-> In x l2) -> sorted_set l1 = sorted_set l2.
Proof.
  intros H. apply ssorted_unique; try apply sorted_set_sorted.
  intros x. rewrite !sorted_set_In. apply H.
Qed.

Lemma insert_length y l : length (insert y l) <= S (length l).
Proof.
  induction l as [|z r IH]; cbn [insert]; [cbn; lia|].
  destruct (y <? z); [cbn; lia|]. destruct (y =? z); cbn in *; lia.
Qed.
Lemma sorted_set_length l : length (sorted_set l) <= length l.
Proof.
  induction l as [|y l IH]; cbn [sorted_set fold_right]; [cbn; lia|].
  fold (sorted_set l). pose proof (insert_length y (sorted_set l)). cbn. lia.
Qed.

(* ====================================================================== *)
(* Part C.  statement_map                                                  *)
(* ====================================================================== *)
Lemma lookup_some stmts : forall i st, lookup stmts i = Some st -> In st stmts /\ sid st = i.
Proof.
  induction stmts as [|s r IH]; intros i st H; [discriminate|].
  cbn [lookup] in H. destruct (lookup r i) as [s'|] eqn:E.
  - injection H as <-. destruct (IH _ _ E). split; [now right|assumption].
  - destruct (sid s =? i) eqn:Ei; [|discriminate]. injection H as <-.
    apply Nat.eqb_eq in Ei. split; [now left|assumption].
Qed.

Lemma lookup_in_ids stmts i : In i (map sid stmts) -> exists st, lookup stmts i = Some st.
Proof.
  induction stmts as [|s r IH]; intros H; [destruct H|].
  cbn [lookup]. destruct (lookup r i) as [s'|] eqn:E; [eauto|].
  destruct H as [H|H].
  - rewrite H, Nat.eqb_refl. eauto.
  - destruct (IH H) as [st Hst]. congruence.
Qed.

Lemma lookup_none stmts i : lookup stmts i = None -> ~ In i (map sid stmts).
Proof. intros H Hin. destruct (lookup_in_ids _ _ Hin) as [st Hst]. congruence. Qed.

Lemma lookup_nodup stmts : NoDup (map sid stmts) -> forall st, In st stmts -> lookup stmts (sid st) = Some st.
Proof.
  induction stmts as [|s r IH]; intros ND st H; [destruct H|].
  cbn [map] in ND. apply NoDup_cons_iff in ND. destruct ND as [Hn ND].
  cbn [lookup]. destruct H as [<-|H].
  - destruct (lookup r (sid s)) as [s'|] eqn:E.
    + exfalso. apply Hn. apply lookup_some in E. destruct E as [E1 E2].
      rewrite <- E2. apply in_map. assumption.
    + now rewrite Nat.eqb_refl.
  - now rewrite (IH ND _ H).
Qed.

Lemma lookup_perm s1 s2 : Permutation s1 s2 -> NoDup (map sid s1) -> forall i, lookup s1 i = lookup s2 i.
Proof.
  intros P ND i.
  assert (ND2 : NoDup (map sid s2)).
  { eapply Permutation_NoDup; [apply Permutation_map; exact P|exact ND]. }
  destruct (lookup s1 i) as [st|] eqn:E1.
  - apply lookup_some in E1. destruct E1 as [Hin <-].
    symmetry. apply lookup_nodup; [assumption|]. eapply Permutation_in; eassumption.
  - destruct (lookup s2 i) as [st|] eqn:E2; [|reflexivity].
    apply lookup_some in E2. destruct E2 as [Hin <-].
    rewrite (lookup_nodup s1 ND st) in E1; [discriminate|].
    eapply Permutation_in; [apply Permutation_sym; exact P|exact Hin].
Qed.

(* ====================================================================== *)
(* Part D.  fuel adequacy of the `while stack:` loop (every phase)         *)
(* ====================================================================== *)
Definition weight (visited : list nat) (stmts : list stmt) : nat :=
  fold_right (fun st n => (if mem (sid st) visited then 0 else S (length (sdeps st))) + n) 0 stmts.

Lemma weight_nil stmts :
  weight [] stmts = fold_right (fun st n => S (length (sdeps st)) + n) 0 stmts.
Proof.
  unfold weight. induction stmts as [|s r IH]; cbn [fold_right]; [reflexivity|].
  rewrite IH. reflexivity.
Qed.

Lemma weight_mono s visited stmts : weight (s :: visited) stmts <= weight visited stmts.
Proof.
  induction stmts as [|a r IH]; cbn [weight fold_right]; [lia|].
  fold (weight (s :: visited) r). fold (weight visited r).
  cbn [mem existsb]. fold (mem (sid a) visited).
  destruct (sid a =? s); cbn [orb]; destruct (mem (sid a) visited); lia.
Qed.

Lemma weight_visit s visited stmts st :
  In st stmts -> sid st = s -> mem s visited = false ->
  weight (s :: visited) stmts + S (length (sdeps st)) <= weight visited stmts.
Proof.
  intros Hin Hs Hm. induction stmts as [|a r IH]; [destruct Hin|].
  cbn [weight fold_right]. fold (weight (s :: visited) r). fold (weight visited r).
  destruct Hin as [->|Hin].
  - pose proof (weight_mono s visited r) as Hmono.
    cbn [mem existsb]. rewrite Hs, Nat.eqb_refl. cbn [orb].
    fold (mem s visited). rewrite Hm. lia.
  - specialize (IH Hin).
    cbn [mem existsb]. fold (mem (sid a) visited).
    destruct (sid a =? s); cbn [orb]; destruct (mem (sid a) visited); lia.
Qed.

Lemma topo_fuel_enough stmts : forall fuel stack visiting visited order,
  length stack + weight visited stmts < fuel ->
  topo stmts fuel stack visiting visited order <> LOutOfFuel.
Proof.
  induction fuel as [|f IH]; intros stack visiting visited order H; [lia|].
  cbn [topo]. destruct stack as [|s rest]; [discriminate|].
  cbn [length] in H.
  destruct (mem s visited) eqn:Ev.
  - destruct (mem s visiting); apply IH; lia.
  - destruct (lookup stmts s) as [st|] eqn:El; [|discriminate].
    apply lookup_some in El. destruct El as [Hin Hs].
    pose proof (weight_visit s visited stmts st Hin Hs Ev) as Hw.
    pose proof (sorted_set_length (sdeps st)) as Hl.
    apply IH. rewrite app_length, rev_length. cbn [length]. lia.
Qed.

Theorem topo_order_fuel stmts : topo_order stmts <> LOutOfFuel.
Proof.
  unfold topo_order. apply topo_fuel_enough.
  unfold topo_fuel. rewrite rev_length, weight_nil. lia.
Qed.

(* END *)
