(* The theorems about kind inference instantiated at the configuration read off the working
   tree (gen_cfg, from coq/gen/GenC14.v).  The premises on the shape switches are discharged in
   props/C14.v by reflexivity; the refutations carry the defective value of the switch as premise. *)
From Coq Require Import List String Bool Arith Permutation.
Import ListNotations.
From Dagrt Require Import GenC14 Unify UnifyProofs KindOrder KindInfer KindInferCfg KindInferProofs
  KindTableProofs KindFinderProofs KindFinderFull KindFinderExamples.
Open Scope string_scope.

(* every name preset in SymbolKindTable.__init__ is a state variable for is_state_variable *)
Lemma gen_cfg_init_ok : forall x, In x (c_init_global gen_cfg) -> c_is_state gen_cfg x = true.
Proof.
  cbn [c_init_global c_is_state gen_cfg]. unfold init_global_names.
  intros x H. repeat (destruct H as [<-|H]; [reflexivity|]). destruct H.
Qed.

Theorem gen_order_independent_partial :
  unify_usertype_accepts_int = true -> unify_array_accepts_int = true ->
  set_insert_marks_changed = true ->
  forall fuel fuel' forced all all' T T',
    Permutation all all' ->
    (forall it, In it all -> wf_item it) ->
    (forall p x k, In (p, x, k) forced -> k <> None) ->
    run_queue gen_cfg fuel forced all = OTable T false ->
    run_queue gen_cfg fuel' forced all' = OTable T' false ->
    table_equiv T T'.
Proof.
  intros H1 H2 H3. apply order_independent_partial; try assumption. apply gen_cfg_init_ok.
Qed.

Theorem gen_order_independent :
  unify_usertype_accepts_int = true -> unify_array_accepts_int = true ->
  set_insert_marks_changed = true -> set_reraises = true -> loop_variables_prepass = true ->
  full_statement gen_cfg.
Proof.
  intros H1 H2 H3 H4 H5. unfold full_statement.
  apply order_independent; try assumption. apply gen_cfg_init_ok.
Qed.

(* without the up-front registration of loop variables the full statement is false, whatever
   the other switches are *)
Theorem gen_full_statement_refuted : loop_variables_prepass = false -> ~ full_statement gen_cfg.
Proof.
  intros Hp H.
  specialize (H 10 10 [] [wX; wY] [wY; wX] (perm_swap _ _ _)).
  assert (Hwf : forall it, In it [wX; wY] -> wf_item it) by (intros it [<-|[<-|[]]]; reflexivity).
  assert (Hf : forall (p x : string) (k : okind), In (p, x, k) [] -> k <> None) by (intros p x k []).
  specialize (H Hwf Hf).
  unfold run_queue in H. cbn [c_loops_prepass gen_cfg] in H. rewrite Hp in H.
  vm_compute in H. apply H; discriminate.
Qed.

Theorem gen_unify_comm :
  unify_usertype_accepts_int = true -> unify_array_accepts_int = true ->
  forall a b, res_sim (gen_unify a b) (gen_unify b a).
Proof. unfold gen_unify. intros -> ->. exact unify_comm. Qed.

Theorem gen_unify_assoc :
  unify_usertype_accepts_int = true -> unify_array_accepts_int = true ->
  forall a b c, res_sim (bind (gen_unify a b) (fun x => gen_unify x c))
                        (bind (gen_unify b c) (fun y => gen_unify a y)).
Proof. unfold gen_unify. intros -> ->. exact unify_assoc. Qed.

Theorem gen_unify_comm_refuted :
  unify_usertype_accepts_int = false \/ unify_array_accepts_int = false ->
  ~ (forall a b, res_sim (gen_unify a b) (gen_unify b a)).
Proof.
  unfold gen_unify. intros [->| ->].
  - apply unify_comm_refuted_user.
  - apply unify_comm_refuted_array.
Qed.
