(* The theorems about kind inference instantiated at the configuration read off the working
   tree (gen_cfg_with extra: the base function registry of /repo extended by any user functions
   registered through register_ode_rhs / register_function; switches from coq/gen/GenC14.v).
   The premises on the shape switches are discharged in props/C14.v by reflexivity, except the
   two whose repair is pending, which stay premises there; the refutations carry the defective
   value of the switch as premise. *)
From Coq Require Import List String Bool Arith Permutation.
Import ListNotations.
From Dagrt Require Import GenC14 Unify UnifyProofs KindOrder KindInfer KindInferCfg KindRegistryProofs
  KindInferProofs KindTableProofs KindFinderProofs KindFinderFull KindFinderExamples.
Open Scope string_scope.

(* every class named by the translator has a mirror in the model: no built-in is dropped *)
Lemma builtin_classes_known :
  forallb (fun f => match rk_of_class (snd f) with Some _ => true | None => false end) builtin_facts = true.
Proof. vm_compute. reflexivity. Qed.

Lemma base_registry_complete : List.length base_registry = List.length builtin_facts.
Proof. vm_compute. reflexivity. Qed.

(* every name preset in SymbolKindTable.__init__ is a state variable for is_state_variable *)
Lemma cfg_of_init_ok : forall ui ai ic sr pp rs ao extra x,
  In x (c_init_global (cfg_of ui ai ic sr pp rs ao extra)) ->
  c_is_state (cfg_of ui ai ic sr pp rs ao extra) x = true.
Proof.
  intros ui ai ic sr pp rs ao extra x. cbn [c_init_global c_is_state cfg_of]. unfold init_global_names.
  intros H. repeat (destruct H as [<-|H]; [reflexivity|]). destruct H.
Qed.

Theorem gen_order_independent_partial :
  unify_usertype_accepts_int = true -> unify_array_accepts_int = true ->
  set_insert_marks_changed = true -> builtins_require_arrays = true ->
  forall extra fuel fuel' forced all all' T T',
    Permutation all all' ->
    (forall it, In it all -> wf_item it) ->
    (forall p x k, In (p, x, k) forced -> k <> None) ->
    run_queue (gen_cfg_with extra) fuel forced all = OTable T false ->
    run_queue (gen_cfg_with extra) fuel' forced all' = OTable T' false ->
    table_equiv T T'.
Proof.
  intros H1 H2 H3 H4 extra. apply order_independent_partial; try assumption. apply cfg_of_init_ok.
Qed.

Theorem gen_order_independent :
  unify_usertype_accepts_int = true -> unify_array_accepts_int = true ->
  set_insert_marks_changed = true -> set_reraises = true -> loop_variables_prepass = true ->
  finder_restarts_after_change = true -> builtins_require_arrays = true ->
  forall extra, full_statement (gen_cfg_with extra).
Proof.
  intros H1 H2 H3 H4 H5 H6 H7 extra. unfold full_statement.
  apply order_independent; try assumption. apply cfg_of_init_ok.
Qed.

Theorem gen_infer_kinds_phase_order :
  unify_usertype_accepts_int = true -> unify_array_accepts_int = true ->
  set_insert_marks_changed = true -> set_reraises = true -> loop_variables_prepass = true ->
  finder_restarts_after_change = true -> builtins_require_arrays = true ->
  infer_kinds_zips_dict_order = true ->
  forall extra, glue_statement (gen_cfg_with extra).
Proof.
  intros H1 H2 H3 H4 H5 H6 H7 _ extra. unfold glue_statement.
  apply infer_kinds_phase_order; try assumption. apply cfg_of_init_ok.
Qed.

Theorem gen_registry_monotone :
  builtins_require_arrays = true ->
  forall sg vals vals' kwn, Forall2 wle vals vals' ->
    krel (call_kinds builtins_require_arrays sg vals kwn) (call_kinds builtins_require_arrays sg vals' kwn).
Proof. intros ->. exact call_kinds_mono. Qed.

(* ------------------------------------------------------------------ refutations per defect shape *)

Local Ltac refute H all all' perm :=
  specialize (H 10 10 [] all all' perm);
  let Hwf := fresh "Hwf" in
  assert (Hwf : forall it, In it all -> wf_item it)
    by (intros it Hin; repeat (destruct Hin as [<-|Hin]; [reflexivity|]); destruct Hin);
  let Hf := fresh "Hf" in
  assert (Hf : forall (p x : string) (k : okind), In (p, x, k) [] -> k <> None) by (intros p x k []);
  specialize (H Hwf Hf).

(* without the up-front registration of loop variables (and without the restart) the full
   statement is false, whatever the other switches are *)
Lemma cfg_loop_variable_refuted : forall ui ai ic sr ao, ~ full_statement (cfg_of ui ai ic sr false false ao []).
Proof.
  intros ui ai ic sr ao H. refute H [wX; wY] [wY; wX] (perm_swap wY wX []).
  destruct ui, ai, ic, sr, ao; vm_compute in H; apply H; discriminate.
Qed.

Theorem gen_full_statement_refuted :
  loop_variables_prepass = false -> finder_restarts_after_change = false ->
  ~ (forall extra, full_statement (gen_cfg_with extra)).
Proof.
  intros Hp Hr H. specialize (H []). unfold gen_cfg_with in H. rewrite Hp, Hr in H.
  exact (cfg_loop_variable_refuted _ _ _ _ _ H).
Qed.

(* the work-list loop gives up although the table changed during the pass *)
Lemma cfg_gives_up_early_refuted : forall ao, ~ full_statement (cfg_of true true true true true false ao []).
Proof.
  intros ao H. refute H [wW; wXi; wAbs] [wXi; wW; wAbs] (perm_swap wXi wW [wAbs]).
  destruct ao; vm_compute in H; apply H; discriminate.
Qed.

Theorem gen_gives_up_early_refuted :
  unify_usertype_accepts_int = true -> unify_array_accepts_int = true ->
  set_insert_marks_changed = true -> set_reraises = true -> loop_variables_prepass = true ->
  finder_restarts_after_change = false ->
  ~ (forall extra, full_statement (gen_cfg_with extra)).
Proof.
  intros H1 H2 H3 H4 H5 H6 H. specialize (H []). unfold gen_cfg_with in H.
  rewrite H1, H2, H3, H4, H5, H6 in H. exact (cfg_gives_up_early_refuted _ H).
Qed.

(* matmul accepts the Scalar below a UserType it refuses *)
Definition rhs_f : registry := [("<func>f", rhs_sig "u" ["u"])].

Lemma cfg_scalar_matrix_refuted : forall pp rs,
  ~ full_statement (cfg_of true true true true pp rs false rhs_f).
Proof.
  intros pp rs H.
  assert (Hperm : Permutation [wA1; wA2; wMM] [wA2; wMM; wA1]).
  { change [wA2; wMM; wA1] with (List.app [wA2; wMM] [wA1]). apply Permutation_cons_append. }
  refute H [wA1; wA2; wMM] [wA2; wMM; wA1] Hperm.
  destruct pp, rs; vm_compute in H;
    specialize (H ltac:(discriminate) ltac:(discriminate) (Some "p", "s")); vm_compute in H; discriminate.
Qed.

Theorem gen_scalar_matrix_refuted :
  unify_usertype_accepts_int = true -> unify_array_accepts_int = true ->
  set_insert_marks_changed = true -> set_reraises = true ->
  builtins_require_arrays = false ->
  ~ (forall extra, full_statement (gen_cfg_with extra)).
Proof.
  intros H1 H2 H3 H4 H7 H. specialize (H rhs_f). unfold gen_cfg_with in H.
  rewrite H1, H2, H3, H4, H7 in H. exact (cfg_scalar_matrix_refuted _ _ H).
Qed.

Theorem gen_registry_monotone_refuted :
  builtins_require_arrays = false ->
  ~ (forall sg vals vals' kwn, Forall2 wle vals vals' ->
       krel (call_kinds builtins_require_arrays sg vals kwn) (call_kinds builtins_require_arrays sg vals' kwn)).
Proof.
  intros -> H. destruct matmul_not_mono_refuted as [Hle Hn]. apply Hn. apply H. exact Hle.
Qed.

Theorem gen_unify_comm :
  unify_usertype_accepts_int = true -> unify_array_accepts_int = true ->
  forall a b, res_sim (gen_unify a b) (gen_unify b a).
Proof. unfold gen_unify. intros -> ->. exact unify_comm. Qed.

Theorem gen_unify_assoc :
  unify_usertype_accepts_int = true -> unify_array_accepts_int = true ->
  forall a b c, res_sim (bind (gen_unify a b) (fun x => gen_unify x c))
                        (bind (gen_unify b c) (fun y => gen_unify a y)).
Proof. unfold gen_unify. intros -> ->. exact unify_assoc. Qed.

Theorem gen_unify_comm_refuted :
  unify_usertype_accepts_int = false \/ unify_array_accepts_int = false ->
  ~ (forall a b, res_sim (gen_unify a b) (gen_unify b a)).
Proof.
  unfold gen_unify. intros [->| ->].
  - apply unify_comm_refuted_user.
  - apply unify_comm_refuted_array.
Qed.
