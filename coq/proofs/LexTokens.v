(* C19 -- one step of the lexer on the text of a token followed by anything that does not merge
   with it: lex_step (tok_str t ++ s) = SNext t s. *)
From Coq Require Import List ZArith NArith String Ascii Bool Arith Lia DecimalString DecimalN DecimalFacts.
Import ListNotations.
From Dagrt Require Import GenC19 Print Parse.
Open Scope string_scope.
Open Scope nat_scope.

Definition first_char (s : string) : option ascii :=
  match s with String c _ => Some c | EmptyString => None end.
(* "there is a next character and it satisfies f" *)
Definition ocheck (f : ascii -> bool) (o : option ascii) : bool :=
  match o with Some c => f c | None => false end.

(* t, followed by a text starting with c (None = end of input), is lexed as t *)
Definition tok_ok (t : token) (c : option ascii) : bool :=
  match t with
  | TSp => negb (ocheck is_ws c)
  | TInt _ => negb (ocheck (fun d => Ascii.eqb d "." || is_alpha d || is_digit d) c)
  | TId s => is_ident s && negb (ocheck is_id_char c)
  | TCmp CLt => negb (ocheck (fun d => Ascii.eqb d "<" || Ascii.eqb d "=") c)
  | TCmp CGt => negb (ocheck (fun d => Ascii.eqb d ">" || Ascii.eqb d "=") c)
  | TAssign => negb (ocheck (fun d => Ascii.eqb d "=") c)
  | TAnd | TOr | TNot | TIf | TElse => negb (ocheck is_word c)
  | TTimes => negb (ocheck (fun d => Ascii.eqb d "*") c)
  | TOver => negb (ocheck (fun d => Ascii.eqb d "/") c)
  | _ => true
  end.

(* ------------------------------------------------------------------ tokens with a fixed text *)

Ltac all_chars c := destruct c as [[] [] [] [] [] [] [] []].

Lemma lex_step_fixed t s :
  match t with TInt _ | TId _ => False | _ => True end ->
  tok_ok t (first_char s) = true -> lex_step (tok_str t ++ s) = SNext t s.
Proof.
  intros Hk H.
  destruct t; try contradiction; try (destruct c);
    (destruct s as [|d s]; [vm_compute; reflexivity|]);
    cbn [tok_ok first_char ocheck] in H;
    all_chars d; try (vm_compute in H; discriminate H); vm_compute; reflexivity.
Qed.

(* ------------------------------------------------------------------ strings *)

Lemma span_app f a s :
  string_forallb f a = true -> ocheck f (first_char s) = false -> span f (a ++ s) = (a, s).
Proof.
  induction a as [|c a IH]; intros Ha Hs.
  - cbn [append]. destruct s as [|d s]; [reflexivity|]. cbn in Hs. cbn [span]. rewrite Hs. reflexivity.
  - cbn [string_forallb] in Ha. apply andb_true_iff in Ha as [Hc Ha].
    cbn [append span]. rewrite Hc, (IH Ha Hs). reflexivity.
Qed.

Lemma append_assoc (a b c : string) : (a ++ b) ++ c = a ++ b ++ c.
Proof. induction a; cbn; congruence. Qed.

(* ------------------------------------------------------------------ integers *)

Lemma digits_of_uint d : string_forallb is_digit (NilEmpty.string_of_uint d) = true.
Proof. induction d; cbn [NilEmpty.string_of_uint string_forallb]; try reflexivity; rewrite IHd; reflexivity. Qed.

Lemma uint_text u :
  u <> Decimal.Nil ->
  exists d ds, NilEmpty.string_of_uint u = String d ds /\ is_digit d = true
               /\ string_forallb is_digit ds = true.
Proof.
  intros Hu. destruct u; [congruence|..];
    (eexists _, _; split; [reflexivity|]; split; [reflexivity | apply digits_of_uint]).
Qed.

Lemma int_text n :
  exists d ds, tok_str (TInt n) = String d ds /\ is_digit d = true /\ string_forallb is_digit ds = true
               /\ digits_value (String d ds) = n.
Proof.
  cbn [tok_str]. pose proof (Unsigned.of_to n) as Hn.
  destruct (N.to_uint n) eqn:E;
    [ exists "0"%char, ""; cbn; repeat split; try reflexivity; cbn in Hn; subst n; reflexivity
    | match goal with |- exists _ _, NilZero.string_of_uint ?u = _ /\ _ =>
           assert (Hnn : u <> Decimal.Nil) by discriminate;
           destruct (uint_text u Hnn) as (d & ds & Ht & Hd & Hds);
           exists d, ds;
           change (NilZero.string_of_uint u) with (NilEmpty.string_of_uint u);
           split; [exact Ht|]; split; [exact Hd|]; split; [exact Hds|];
           unfold digits_value; rewrite <- Ht, NilEmpty.usu; exact Hn end .. ].
Qed.

Lemma lex_step_digit d r :
  is_digit d = true ->
  lex_step (String d r)
  = let (ds, r1) := span is_digit (String d r) in
    match r1 with
    | String c _ => if Ascii.eqb c "." || is_alpha c then SUnsupported else SNext (TInt (digits_value ds)) r1
    | EmptyString => SNext (TInt (digits_value ds)) r1
    end.
Proof.
  intros H. all_chars d; try (vm_compute in H; discriminate H); reflexivity.
Qed.

Lemma lex_step_int n s :
  tok_ok (TInt n) (first_char s) = true -> lex_step (tok_str (TInt n) ++ s) = SNext (TInt n) s.
Proof.
  intros H. destruct (int_text n) as (d & ds & -> & Hd & Hds & Hv).
  cbn [append]. rewrite (lex_step_digit d (ds ++ s) Hd).
  cbn [tok_ok] in H. apply negb_true_iff in H.
  assert (Hsp : span is_digit (String d (ds ++ s)) = (String d ds, s)).
  { change (String d (ds ++ s)) with (String d ds ++ s). apply span_app.
    - cbn [string_forallb]. rewrite Hd, Hds. reflexivity.
    - destruct s as [|c s]; [reflexivity|]. cbn in *. apply orb_false_iff in H. tauto. }
  rewrite Hsp, Hv. destruct s as [|c s]; [reflexivity|].
  cbn in H. apply orb_false_iff in H as [H _]. rewrite H. reflexivity.
Qed.

(* ------------------------------------------------------------------ identifiers *)

Lemma prefix_rest_app_none p : forall s r,
  prefix_rest p s = None -> string_forallb is_id_char p = true ->
  ocheck is_id_char (first_char r) = false ->
  prefix_rest p (s ++ r) = None.
Proof.
  induction p as [|c p IH]; intros s r Hs Hp Hr; [discriminate|].
  cbn [string_forallb] in Hp. apply andb_true_iff in Hp as [Hc Hp].
  destruct s as [|d s].
  - cbn [append]. destruct r as [|e r]; [reflexivity|]. cbn [prefix_rest].
    destruct (Ascii.eqb c e) eqn:E; [|reflexivity].
    apply Ascii.eqb_eq in E. subst e. cbn in Hr. congruence.
  - cbn [append prefix_rest] in *. destruct (Ascii.eqb c d); [apply IH; auto | reflexivity].
Qed.

Lemma prefix_rest_app_some p : forall s r r1,
  prefix_rest p s = Some r1 -> prefix_rest p (s ++ r) = Some (r1 ++ r).
Proof.
  induction p as [|c p IH]; intros s r r1 H.
  - cbn in *. injection H as <-. reflexivity.
  - destruct s as [|d s]; [discriminate|]. cbn [append prefix_rest] in *.
    destruct (Ascii.eqb c d); [apply IH; exact H | discriminate].
Qed.

Lemma kw_rest_app_none k s r :
  kw_rest k s = None -> string_forallb is_id_char k = true ->
  ocheck is_id_char (first_char r) = false ->
  kw_rest k (s ++ r) = None.
Proof.
  intros H Hk Hr. unfold kw_rest in *.
  destruct (prefix_rest k s) as [r1|] eqn:E.
  - rewrite (prefix_rest_app_some k s r r1 E).
    destruct r1 as [|w r1]; [cbn in H; discriminate|].
    cbn [append boundary] in *. destruct (negb (is_word w)); [discriminate|reflexivity].
  - rewrite (prefix_rest_app_none k s r E Hk Hr). reflexivity.
Qed.

Lemma lex_step_idstart c x :
  is_id_start c = true ->
  lex_step (String c x)
  = match kw_rest "and" (String c x) with Some r1 => SNext TAnd r1 | None =>
    match kw_rest "or" (String c x) with Some r1 => SNext TOr r1 | None =>
    match kw_rest "not" (String c x) with Some r1 => SNext TNot r1 | None =>
    match kw_rest "if" (String c x) with Some r1 => SNext TIf r1 | None =>
    match kw_rest "else" (String c x) with Some r1 => SNext TElse r1 | None =>
    match prefix_rest "True" (String c x) with Some r1 => SNext TTrue r1 | None =>
    match prefix_rest "False" (String c x) with Some r1 => SNext TFalse r1 | None =>
    let (a, b) := span is_id_char (String c x) in SNext (TId a) b
    end end end end end end end.
Proof.
  intros H. all_chars c; try (vm_compute in H; discriminate H); reflexivity.
Qed.

Lemma kw_hit_none s k :
  kw_hit s = false -> In k ["and"; "or"; "not"; "if"; "else"] -> kw_rest k s = None.
Proof.
  unfold kw_hit. intros H Hin.
  destruct (kw_rest k s) eqn:E; [|reflexivity].
  assert (Hx : existsb (fun k => match kw_rest k s with Some _ => true | None => false end)
                       ["and"; "or"; "not"; "if"; "else"] = true).
  { apply existsb_exists. exists k. rewrite E. auto. }
  congruence.
Qed.

Lemma lex_step_ident x s :
  tok_ok (TId x) (first_char s) = true -> lex_step (tok_str (TId x) ++ s) = SNext (TId x) s.
Proof.
  intros H. cbn [tok_ok] in H. apply andb_true_iff in H as [Hid Hs]. apply negb_true_iff in Hs.
  unfold is_ident in Hid. apply andb_true_iff in Hid as [Hid HF]. apply andb_true_iff in Hid as [Hid HT].
  apply andb_true_iff in Hid as [Hid Hkw]. apply negb_true_iff in HF, HT, Hkw.
  cbn [tok_str]. destruct x as [|c x]; [discriminate|].
  apply andb_true_iff in Hid as [Hc Hx].
  assert (Hall : string_forallb is_id_char (String c x) = true).
  { cbn [string_forallb]. rewrite Hx. unfold is_id_char. rewrite Hc. reflexivity. }
  change (String c x ++ s) with (String c (x ++ s)).
  rewrite (lex_step_idstart c (x ++ s) Hc).
  change (String c (x ++ s)) with (String c x ++ s).
  rewrite !(kw_rest_app_none _ (String c x) s) by
      (first [apply kw_hit_none; [exact Hkw | cbn; tauto] | reflexivity | exact Hs]).
  unfold starts_with in HT, HF.
  destruct (prefix_rest "True" (String c x)) eqn:ET; [discriminate|].
  destruct (prefix_rest "False" (String c x)) eqn:EF; [discriminate|].
  rewrite (prefix_rest_app_none "True" _ s ET) by (reflexivity || exact Hs).
  rewrite (prefix_rest_app_none "False" _ s EF) by (reflexivity || exact Hs).
  rewrite (span_app is_id_char (String c x) s Hall Hs). reflexivity.
Qed.

(* ------------------------------------------------------------------ every token *)

Theorem lex_step_tok t s :
  tok_ok t (first_char s) = true -> lex_step (tok_str t ++ s) = SNext t s.
Proof.
  intros H. destruct t; try (apply lex_step_fixed; [exact I | exact H]).
  - apply lex_step_int. exact H.
  - apply lex_step_ident. exact H.
Qed.

Lemma tok_str_nonempty t : tok_ok t None = true \/ True -> (match t with TId s => is_ident s = true | _ => True end) ->
  exists c r, tok_str t = String c r.
Proof.
  intros _ Hid. destruct t; try (cbn; eauto; fail).
  - destruct (int_text n) as (d & ds & -> & _). eauto.
  - cbn [tok_str]. destruct s; [discriminate|eauto].
  - destruct c; cbn; eauto.
Qed.
