(* Proofs about model/Lang.v: evaluation only touches the variables the
   dependency mapper reports; statement execution only touches the declared
   read/write sets (C08); frame property used by C02. *)
From Coq Require Import List ZArith String Bool Arith Lia.
Import ListNotations.
From Dagrt Require Import Lang.

Section expr_ind'.
  Variable P : expr -> Prop.
  Hypothesis HInt : forall z, P (EInt z).
  Hypothesis HBool : forall b, P (EBool b).
  Hypothesis HNone : P ENone.
  Hypothesis HVar : forall x, P (EVar x).
  Hypothesis HNot : forall a, P a -> P (ENot a).
  Hypothesis HIf : forall c t e, P c -> P t -> P e -> P (EIf c t e).
  Hypothesis HBin : forall o a b, P a -> P b -> P (EBin o a b).
  Hypothesis HNary : forall o l, Forall P l -> P (ENary o l).
  Fixpoint expr_ind' (e : expr) : P e :=
    match e with
    | EInt z => HInt z | EBool b => HBool b | ENone => HNone | EVar x => HVar x
    | ENot a => HNot a (expr_ind' a)
    | EIf c t e => HIf c t e (expr_ind' c) (expr_ind' t) (expr_ind' e)
    | EBin o a b => HBin o a b (expr_ind' a) (expr_ind' b)
    | ENary o l => HNary o l ((fix go (l : list expr) : Forall P l :=
                                 match l with
                                 | [] => Forall_nil P
                                 | x :: l' => Forall_cons x (expr_ind' x) (go l')
                                 end) l)
    end.
End expr_ind'.

Definition agree (P : var -> Prop) (s s' : store) : Prop := forall x, P x -> s x = s' x.

Lemma agree_weaken (P Q : var -> Prop) s s' : (forall x, Q x -> P x) -> agree P s s' -> agree Q s s'.
Proof. unfold agree; auto. Qed.

Lemma agree_upd P s s' x v : agree P s s' -> agree P (upd s x v) (upd s' x v).
Proof. unfold agree, upd. intros H y Hy. destruct (String.eqb y x); auto. Qed.

Lemma agree_upd_add (P : var -> Prop) s s' x v :
  agree P s s' -> agree (fun y => P y \/ y = x) (upd s x v) (upd s' x v).
Proof.
  unfold agree, upd. intros H y [Hy | ->].
  - destruct (String.eqb y x); auto.
  - now rewrite String.eqb_refl.
Qed.

Lemma agree_del P s s' x : agree P s s' -> agree P (del s x) (del s' x).
Proof. unfold agree, del. intros H y Hy. destruct (String.eqb y x); auto. Qed.

Section Sem.
  Variable F : string -> list val -> list (string * val) -> option (list val).
  Notation eval := (eval F).
  Notation eval_list := (eval_list F).

  (* ---------- expressions ---------- *)
  Definition EvalP (e : expr) : Prop :=
    (forall s x, In x (fst (eval s e)) -> In x (vars e)) /\
    (forall s s', agree (fun x => In x (vars e)) s s' -> eval s e = eval s' e).

  Local Ltac agree_sub H := eapply agree_weaken; [|exact H]; cbn [vars]; intros ? ?;
                            rewrite ?in_app_iff; auto.

  Lemma eval_ok : forall e, EvalP e.
  Proof.
    induction e as [z|b| |x|a [IH1 IH2]|c t e [C1 C2] [T1 T2] [E1 E2]
                    |o a b [A1 A2] [B1 B2]|o l IH] using expr_ind'; unfold EvalP.
    - split; [intros s x []|reflexivity].
    - split; [intros s x []|reflexivity].
    - split; [intros s x []|reflexivity].
    - split; [intros s y H; exact H|].
      intros s s' H. cbn [Lang.eval]. rewrite (H x); [reflexivity|now left].
    - split.
      + intros s x. cbn [Lang.eval vars]. specialize (IH1 s x). destruct (eval s a). exact IH1.
      + intros s s' H. cbn [Lang.eval]. rewrite (IH2 s s'); [reflexivity|exact H].
    - split.
      + intros s x. cbn [Lang.eval vars]. specialize (C1 s x). specialize (T1 s x). specialize (E1 s x).
        destruct (eval s c) as [r v]. cbn [fst] in *.
        destruct (rbind v (fun v0 => lift (truth v0))) as [[|]|u].
        * destruct (eval s t). cbn [fst] in *. rewrite !in_app_iff. intuition.
        * destruct (eval s e). cbn [fst] in *. rewrite !in_app_iff. intuition.
        * cbn. rewrite !in_app_iff. intuition.
      + intros s s' H. cbn [Lang.eval].
        rewrite (C2 s s') by agree_sub H.
        rewrite (T2 s s') by agree_sub H.
        rewrite (E2 s s') by agree_sub H. reflexivity.
    - split.
      + intros s x. cbn [Lang.eval vars]. specialize (A1 s x). specialize (B1 s x).
        destruct (eval s a) as [r1 [v1|u]]; cbn [fst] in *.
        * destruct (eval s b). cbn [fst] in *. rewrite !in_app_iff. intuition.
        * rewrite in_app_iff. intuition.
      + intros s s' H. cbn [Lang.eval].
        rewrite (A2 s s') by agree_sub H.
        rewrite (B2 s s') by agree_sub H. reflexivity.
    - (* n-ary: the three inner loops *)
      assert (Hgo : forall acc,
        (forall s x, In x (fst ((fix go (acc : nacc) (l : list expr) : list var * rs nacc :=
             match l with
             | [] => ([], Ok acc)
             | e :: l' =>
                 let (r, v) := eval s e in
                 match v with
                 | Err u => (r, Err u)
                 | Ok x =>
                     match nstep o acc x with
                     | None => (r, Err false)
                     | Some acc' => let (r2, res) := go acc' l' in (r ++ r2, res)
                     end
                 end
             end) acc l)) -> In x (flat_map vars l)) /\
        (forall s s', agree (fun x => In x (flat_map vars l)) s s' ->
           (fix go (acc : nacc) (l : list expr) : list var * rs nacc :=
             match l with
             | [] => ([], Ok acc)
             | e :: l' =>
                 let (r, v) := eval s e in
                 match v with
                 | Err u => (r, Err u)
                 | Ok x =>
                     match nstep o acc x with
                     | None => (r, Err false)
                     | Some acc' => let (r2, res) := go acc' l' in (r ++ r2, res)
                     end
                 end
             end) acc l =
           (fix go (acc : nacc) (l : list expr) : list var * rs nacc :=
             match l with
             | [] => ([], Ok acc)
             | e :: l' =>
                 let (r, v) := eval s' e in
                 match v with
                 | Err u => (r, Err u)
                 | Ok x =>
                     match nstep o acc x with
                     | None => (r, Err false)
                     | Some acc' => let (r2, res) := go acc' l' in (r ++ r2, res)
                     end
                 end
             end) acc l)).
      { induction IH as [|a l [A1 A2] _ G]; intros acc; [split; [intros s x []|reflexivity]|].
        split.
        - intros s x. cbn [flat_map]. specialize (A1 s x).
          destruct (eval s a) as [r [v|u]]; cbn [fst] in *.
          + destruct (nstep o acc v) as [acc'|]; cbn [fst].
            * destruct (G acc') as [G1 _]. specialize (G1 s x).
              match goal with |- context [let (_, _) := ?g in _] => destruct g end.
              cbn [fst] in *. rewrite !in_app_iff. intuition.
            * rewrite in_app_iff. intuition.
          + rewrite in_app_iff. intuition.
        - intros s s' H. cbn [flat_map] in H.
          rewrite (A2 s s') by (eapply agree_weaken; [|exact H]; intros ? ?; rewrite in_app_iff; auto).
          destruct (eval s' a) as [r [v|u]]; [|reflexivity].
          destruct (nstep o acc v) as [acc'|]; [|reflexivity].
          destruct (G acc') as [_ G2].
          rewrite (G2 s s') by (eapply agree_weaken; [|exact H]; intros ? ?; rewrite in_app_iff; auto).
          reflexivity. }
      assert (Hand : forall (stop : bool),
        (forall s x, In x (fst ((fix go (l : list expr) : list var * rs val :=
           match l with
           | [] => ([], Ok (VBool (negb stop)))
           | a :: l' =>
               let (r, v) := eval s a in
               match rbind v (fun v => lift (truth v)) with
               | Err u => (r, Err u)
               | Ok b => if Bool.eqb b stop then (r, Ok (VBool stop))
                         else let (r2, v2) := go l' in (r ++ r2, v2)
               end
           end) l)) -> In x (flat_map vars l)) /\
        (forall s s', agree (fun x => In x (flat_map vars l)) s s' ->
           (fix go (l : list expr) : list var * rs val :=
           match l with
           | [] => ([], Ok (VBool (negb stop)))
           | a :: l' =>
               let (r, v) := eval s a in
               match rbind v (fun v => lift (truth v)) with
               | Err u => (r, Err u)
               | Ok b => if Bool.eqb b stop then (r, Ok (VBool stop))
                         else let (r2, v2) := go l' in (r ++ r2, v2)
               end
           end) l =
           (fix go (l : list expr) : list var * rs val :=
           match l with
           | [] => ([], Ok (VBool (negb stop)))
           | a :: l' =>
               let (r, v) := eval s' a in
               match rbind v (fun v => lift (truth v)) with
               | Err u => (r, Err u)
               | Ok b => if Bool.eqb b stop then (r, Ok (VBool stop))
                         else let (r2, v2) := go l' in (r ++ r2, v2)
               end
           end) l)).
      { clear Hgo. intros stop.
        induction IH as [|a l [A1 A2] _ [G1 G2]]; [split; [intros s x []|reflexivity]|].
        split.
        - intros s x. cbn [flat_map]. specialize (A1 s x). specialize (G1 s x).
          destruct (eval s a) as [r v]; cbn [fst] in *.
          destruct (rbind v (fun v0 => lift (truth v0))) as [b|u]; cbn [fst].
          + destruct (Bool.eqb b stop); cbn [fst].
            * rewrite in_app_iff. intuition.
            * match goal with |- context [let (_, _) := ?g in _] => destruct g end.
              cbn [fst] in *. rewrite !in_app_iff. intuition.
          + rewrite in_app_iff. intuition.
        - intros s s' H. cbn [flat_map] in H.
          rewrite (A2 s s') by (eapply agree_weaken; [|exact H]; intros ? ?; rewrite in_app_iff; auto).
          rewrite (G2 s s') by (eapply agree_weaken; [|exact H]; intros ? ?; rewrite in_app_iff; auto).
          reflexivity. }
      (* the And/Or loops of eval are the instances stop = false / true *)
      assert (EAnd : forall s,
        (fix go (l : list expr) : list var * rs val :=
           match l with
           | [] => ([], Ok (VBool true))
           | a :: l' =>
               let (r, v) := eval s a in
               match rbind v (fun v => lift (truth v)) with
               | Err u => (r, Err u)
               | Ok false => (r, Ok (VBool false))
               | Ok true => let (r2, v2) := go l' in (r ++ r2, v2)
               end
           end) l =
        (fix go (l : list expr) : list var * rs val :=
           match l with
           | [] => ([], Ok (VBool (negb false)))
           | a :: l' =>
               let (r, v) := eval s a in
               match rbind v (fun v => lift (truth v)) with
               | Err u => (r, Err u)
               | Ok b => if Bool.eqb b false then (r, Ok (VBool false))
                         else let (r2, v2) := go l' in (r ++ r2, v2)
               end
           end) l).
      { intros s. clear. induction l as [|a l IHl]; [reflexivity|].
        destruct (eval s a) as [r v]. destruct (rbind v _) as [[|]|u]; cbn [Bool.eqb]; try reflexivity.
        rewrite IHl. reflexivity. }
      assert (EOr : forall s,
        (fix go (l : list expr) : list var * rs val :=
           match l with
           | [] => ([], Ok (VBool false))
           | a :: l' =>
               let (r, v) := eval s a in
               match rbind v (fun v => lift (truth v)) with
               | Err u => (r, Err u)
               | Ok true => (r, Ok (VBool true))
               | Ok false => let (r2, v2) := go l' in (r ++ r2, v2)
               end
           end) l =
        (fix go (l : list expr) : list var * rs val :=
           match l with
           | [] => ([], Ok (VBool (negb true)))
           | a :: l' =>
               let (r, v) := eval s a in
               match rbind v (fun v => lift (truth v)) with
               | Err u => (r, Err u)
               | Ok b => if Bool.eqb b true then (r, Ok (VBool true))
                         else let (r2, v2) := go l' in (r ++ r2, v2)
               end
           end) l).
      { intros s. clear. induction l as [|a l IHl]; [reflexivity|].
        destruct (eval s a) as [r v]. destruct (rbind v _) as [[|]|u]; cbn [Bool.eqb]; try reflexivity.
        rewrite IHl. reflexivity. }
      cbn [vars].
      destruct o; cbn [Lang.eval];
        try (match goal with |- context [ninit ?o0] => destruct (Hgo (ninit o0)) as [G1 G2] end;
             split; [intros s x; specialize (G1 s x);
                     match goal with |- context [let (_, _) := ?g in _] => destruct g end; exact G1
                    |intros s s' H; rewrite (G2 s s' H); reflexivity]).
      + destruct (Hand false) as [H1 H2]. split.
        * intros s x. rewrite EAnd. apply H1.
        * intros s s' H. rewrite !EAnd. apply H2. exact H.
      + destruct (Hand true) as [H1 H2]. split.
        * intros s x. rewrite EOr. apply H1.
        * intros s s' H. rewrite !EOr. apply H2. exact H.
  Qed.

  Lemma eval_reads s e x : In x (fst (eval s e)) -> In x (vars e).
  Proof. apply (eval_ok e). Qed.

  Lemma eval_frame s s' e : agree (fun x => In x (vars e)) s s' -> eval s e = eval s' e.
  Proof. apply (eval_ok e). Qed.

  Lemma eval_list_reads s l x : In x (fst (eval_list s l)) -> In x (flat_map vars l).
  Proof.
    induction l as [|a l IH]; cbn [Lang.eval_list flat_map]; [intros []|].
    pose proof (eval_reads s a x) as Ha.
    destruct (eval s a) as [r [v|u]]; cbn [fst] in *.
    - destruct (eval_list s l). cbn [fst] in *. rewrite !in_app_iff. intuition.
    - rewrite in_app_iff. intuition.
  Qed.

  Lemma eval_list_frame s s' l :
    agree (fun x => In x (flat_map vars l)) s s' -> eval_list s l = eval_list s' l.
  Proof.
    induction l as [|a l IH]; cbn [Lang.eval_list flat_map]; [reflexivity|]. intros H.
    rewrite (eval_frame s s' a) by (eapply agree_weaken; [|exact H]; intros ? ?; rewrite in_app_iff; auto).
    rewrite IH by (eapply agree_weaken; [|exact H]; intros ? ?; rewrite in_app_iff; auto).
    reflexivity.
  Qed.
End Sem.

(* ---------- statements ---------- *)
Definition acc_ok (R W : var -> Prop) (a : access) : Prop :=
  match a with Rd x => R x | Wr x => W x | Dl x => W x end.

Definition rs_agree (P : var -> Prop) (r r' : rs store) : Prop :=
  match r, r' with
  | Ok a, Ok b => agree P a b
  | Err u, Err u' => u = u'
  | _, _ => False
  end.

Definition out_agree (P : var -> Prop) (o o' : outcome) : Prop :=
  match o, o' with
  | ONext a ev, ONext b ev' => agree P a b /\ ev = ev'
  | OFail, OFail | OUserExn, OUserExn | OCrash, OCrash => True
  | OSwitch p, OSwitch q => p = q
  | ORaise k, ORaise j => k = j
  | _, _ => False
  end.

Lemma rds_ok (R W : var -> Prop) l : (forall x, In x l -> R x) -> Forall (acc_ok R W) (rds l).
Proof.
  intros H. unfold rds. apply Forall_forall. intros a Ha. apply in_map_iff in Ha.
  destruct Ha as (x & <- & Hx). cbn. auto.
Qed.

Section Stmt.
  Variable F : string -> list val -> list (string * val) -> option (list val).
  Notation eval := (eval F).

  Section Assign.
    Variables (x : var) (sub : option expr) (rhs : expr).
    Variables R W P : var -> Prop.
    Hypothesis Rrhs : forall y, In y (vars rhs) -> R y.
    Hypothesis Rsub : forall ie, sub = Some ie -> forall y, In y (vars ie) -> R y.
    Hypothesis Rx : sub <> None -> R x.
    Hypothesis Wx : W x.

    Lemma assign_once_acc s : Forall (acc_ok R W) (fst (assign_once F s x sub rhs)).
    Proof.
      unfold assign_once. pose proof (eval_reads F s rhs) as Hr.
      destruct (eval s rhs) as [r [v|u]]; cbn [fst] in *; [|apply rds_ok; auto].
      destruct sub as [ie|] eqn:Es.
      - assert (Hx : R x) by (apply Rx; discriminate).
        destruct (s x) as [agg|]; cbn [fst].
        + pose proof (eval_reads F s ie) as Hi.
          destruct (eval s ie) as [r2 [iv|u]]; cbn [fst] in *.
          * assert (Hacc : Forall (acc_ok R W) (rds r ++ [Rd x] ++ rds r2)).
            { rewrite !Forall_app. repeat split; try (apply rds_ok; eauto).
              constructor; [exact Hx|constructor]. }
            destruct agg, iv, (as_int v); try exact Hacc.
            destruct (norm_index _ _); exact Hacc.
          * rewrite !Forall_app. repeat split; try (apply rds_ok; eauto).
            constructor; [exact Hx|constructor].
        + rewrite Forall_app. split; [apply rds_ok; auto|]. constructor; [exact Hx|constructor].
      - cbn [fst]. rewrite Forall_app. split; [apply rds_ok; auto|]. constructor; [exact Wx|constructor].
    Qed.

    Lemma assign_once_unch s a s' :
      assign_once F s x sub rhs = (a, Ok s') -> forall y, y <> x -> s' y = s y.
    Proof.
      clear Rrhs Rsub Rx Wx. unfold assign_once. destruct (eval s rhs) as [r [v|u]]; [|discriminate].
      assert (Hupd : forall w y, y <> x -> upd s x w y = s y).
      { intros w y Hy. unfold upd. destruct (String.eqb_spec y x); [contradiction|reflexivity]. }
      destruct sub as [ie|].
      - destruct (s x) as [agg|]; [|discriminate].
        destruct (eval s ie) as [r2 [iv|u]]; [|discriminate].
        destruct agg, iv, (as_int v); try discriminate.
        destruct (norm_index _ _); [|discriminate].
        intros H y Hy. injection H as _ <-. auto.
      - intros H y Hy. injection H as _ <-. auto.
    Qed.

    Hypothesis PR : forall y, R y -> P y.
    Hypothesis Px : P x.

    Lemma assign_once_frame s s' :
      agree P s s' ->
      fst (assign_once F s x sub rhs) = fst (assign_once F s' x sub rhs) /\
      rs_agree P (snd (assign_once F s x sub rhs)) (snd (assign_once F s' x sub rhs)).
    Proof.
      intros H. unfold assign_once.
      rewrite (eval_frame F s s' rhs) by (eapply agree_weaken; [|exact H]; cbn; auto).
      destruct (eval s' rhs) as [r [v|u]]; [|split; reflexivity].
      destruct sub as [ie|] eqn:Es.
      - rewrite (H x Px). destruct (s' x) as [agg|]; [|split; reflexivity].
        rewrite (eval_frame F s s' ie) by (eapply agree_weaken; [|exact H]; cbn; eauto).
        destruct (eval s' ie) as [r2 [iv|u]]; [|split; reflexivity].
        destruct agg, iv, (as_int v); try (split; reflexivity).
        destruct (norm_index _ _); [|split; reflexivity].
        split; [reflexivity|]. cbn. apply agree_upd. exact H.
      - split; [reflexivity|]. cbn. apply agree_upd. exact H.
    Qed.
  End Assign.

  (* ---- iter_range, generic in the inner computation ---- *)
  Section Iter.
    Variable ident : var.
    Variable inner : store -> list access * rs store.

    Lemma iter_range_acc (R W : var -> Prop) :
      (forall s, Forall (acc_ok R W) (fst (inner s))) -> W ident ->
      forall n i s, Forall (acc_ok R W) (fst (iter_range n i ident inner s)).
    Proof.
      intros Hin Hw. induction n as [|n IH]; intros i s; cbn [iter_range fst]; [constructor|].
      specialize (Hin (upd s ident (VInt i))).
      destruct (inner (upd s ident (VInt i))) as [a1 [s1|u]]; cbn [fst] in *.
      - specialize (IH (i + 1)%Z s1). destruct (iter_range n (i + 1) ident inner s1). cbn [fst] in *.
        constructor; [exact Hw|]. rewrite Forall_app. auto.
      - constructor; [exact Hw|exact Hin].
    Qed.

    Lemma iter_range_unch (Q : var -> Prop) :
      (forall s a s1, inner s = (a, Ok s1) -> forall y, ~ Q y -> s1 y = s y) ->
      forall n i s a s', iter_range n i ident inner s = (a, Ok s') ->
      forall y, ~ Q y -> y <> ident -> s' y = s y.
    Proof.
      intros Hin. induction n as [|n IH]; intros i s a s' H y Hq Hy; cbn [iter_range] in H.
      - injection H as _ <-. reflexivity.
      - destruct (inner (upd s ident (VInt i))) as [a1 [s1|u]] eqn:E1; [|discriminate].
        destruct (iter_range n (i + 1) ident inner s1) as [a2 r2] eqn:E2.
        injection H as _ ->. rewrite (IH _ _ _ _ E2 y Hq Hy), (Hin _ _ _ E1 y Hq).
        unfold upd. destruct (String.eqb_spec y ident); [contradiction|reflexivity].
    Qed.

    Lemma iter_range_frame (P : var -> Prop) :
      P ident ->
      (forall s s', agree P s s' -> fst (inner s) = fst (inner s') /\ rs_agree P (snd (inner s)) (snd (inner s'))) ->
      forall n i s s', agree P s s' ->
        fst (iter_range n i ident inner s) = fst (iter_range n i ident inner s') /\
        rs_agree P (snd (iter_range n i ident inner s)) (snd (iter_range n i ident inner s')).
    Proof.
      intros Hp Hin. induction n as [|n IH]; intros i s s' H; cbn [iter_range].
      - split; [reflexivity|exact H].
      - destruct (Hin (upd s ident (VInt i)) (upd s' ident (VInt i)) (agree_upd _ _ _ _ _ H)) as [E1 E2].
        destruct (inner (upd s ident (VInt i))) as [a1 r1], (inner (upd s' ident (VInt i))) as [a1' r1'].
        cbn [fst snd] in *. subst a1'.
        destruct r1 as [s1|u], r1' as [s1'|u']; cbn in E2; try contradiction.
        + destruct (IH (i + 1)%Z s1 s1' E2) as [E3 E4].
          destruct (iter_range n (i + 1) ident inner s1), (iter_range n (i + 1) ident inner s1').
          cbn [fst snd] in *. subst. split; [reflexivity|exact E4].
        + subst. split; reflexivity.
    Qed.
  End Iter.

  Definition loop_idents (loops : list (var * expr * expr)) : list var := map (fun l => fst (fst l)) loops.
  Definition loop_bound_vars (loops : list (var * expr * expr)) : list var :=
    flat_map (fun l => vars (snd (fst l)) ++ vars (snd l)) loops.

  Section Loops.
    Variable body : store -> list access * rs store.

    Lemma run_loops_acc (R W : var -> Prop) loops :
      (forall s, Forall (acc_ok R W) (fst (body s))) ->
      (forall y, In y (loop_bound_vars loops) -> R y) ->
      (forall y, In y (loop_idents loops) -> W y) ->
      forall s, Forall (acc_ok R W) (fst (run_loops F loops body s)).
    Proof.
      intros Hb. induction loops as [|[[ident lo] hi] ls IH]; intros HR HW s; cbn [run_loops]; [apply Hb|].
      cbn [loop_bound_vars loop_idents flat_map map fst snd] in HR, HW.
      pose proof (eval_reads F s lo) as Hlo. pose proof (eval_reads F s hi) as Hhi.
      destruct (eval s lo) as [r1 [vl|u]]; cbn [fst] in *.
      - destruct (eval s hi) as [r2 [vh|u]]; cbn [fst] in *.
        + assert (Hbad : Forall (acc_ok R W) (rds r1 ++ rds r2)).
          { rewrite Forall_app. split; apply rds_ok; intros y Hy; apply HR; rewrite !in_app_iff; auto. }
          destruct (bound_int vl) as [a|u1]; [|exact Hbad].
          destruct (bound_int vh) as [b|u2]; [|exact Hbad].
          assert (Hit := iter_range_acc ident (run_loops F ls body) R W
                   (IH (fun y Hy => HR y ltac:(rewrite !in_app_iff; auto))
                       (fun y Hy => HW y (or_intror Hy)))
                   (HW ident (or_introl eq_refl)) (Z.to_nat (b - a)) a s).
          destruct (iter_range _ _ _ _ _). cbn [fst] in *.
          rewrite !Forall_app. repeat split; auto; apply rds_ok; intros y Hy; apply HR;
            rewrite !in_app_iff; auto.
        + rewrite Forall_app. split; apply rds_ok; intros y Hy; apply HR; rewrite !in_app_iff; auto.
      - apply rds_ok. intros y Hy. apply HR. rewrite !in_app_iff; auto.
    Qed.

    Lemma run_loops_unch (Q : var -> Prop) loops :
      (forall s a s1, body s = (a, Ok s1) -> forall y, ~ Q y -> s1 y = s y) ->
      forall s a s', run_loops F loops body s = (a, Ok s') ->
      forall y, ~ Q y -> ~ In y (loop_idents loops) -> s' y = s y.
    Proof.
      intros Hb. induction loops as [|[[ident lo] hi] ls IH]; intros s a s' H y Hq Hy; cbn [run_loops] in H.
      - eapply Hb; eassumption.
      - cbn [loop_idents map fst] in Hy.
        destruct (eval s lo) as [r1 [vl|u]]; [|discriminate].
        destruct (eval s hi) as [r2 [vh|u]]; [|discriminate].
        destruct (bound_int vl) as [lo'|u1]; [|discriminate].
        destruct (bound_int vh) as [hi'|u2]; [|discriminate].
        destruct (iter_range _ _ _ _ _) as [acc res] eqn:E. injection H as _ ->.
        eapply (iter_range_unch ident (run_loops F ls body) (fun z => Q z \/ In z (loop_idents ls))).
        + intros s0 a0 s1 H0 z Hz. eapply IH; [exact H0| |]; intuition.
        + exact E.
        + intuition.
        + intros ->. apply Hy. now left.
    Qed.

    Lemma run_loops_frame (P : var -> Prop) loops :
      (forall s s', agree P s s' -> fst (body s) = fst (body s') /\ rs_agree P (snd (body s)) (snd (body s'))) ->
      (forall y, In y (loop_bound_vars loops) -> P y) ->
      (forall y, In y (loop_idents loops) -> P y) ->
      forall s s', agree P s s' ->
        fst (run_loops F loops body s) = fst (run_loops F loops body s') /\
        rs_agree P (snd (run_loops F loops body s)) (snd (run_loops F loops body s')).
    Proof.
      intros Hb. induction loops as [|[[ident lo] hi] ls IH]; intros HR HW s s' H; cbn [run_loops]; [auto|].
      cbn [loop_bound_vars loop_idents flat_map map fst snd] in HR, HW.
      rewrite (eval_frame F s s' lo) by (eapply agree_weaken; [|exact H]; cbn; intros; apply HR;
                                              rewrite !in_app_iff; auto).
      rewrite (eval_frame F s s' hi) by (eapply agree_weaken; [|exact H]; cbn; intros; apply HR;
                                              rewrite !in_app_iff; auto).
      destruct (eval s' lo) as [r1 [vl|u]]; [|split; reflexivity].
      destruct (eval s' hi) as [r2 [vh|u]]; [|split; reflexivity].
      destruct (bound_int vl) as [a|u1]; [|split; reflexivity].
      destruct (bound_int vh) as [b|u2]; [|split; reflexivity].
      destruct (iter_range_frame ident (run_loops F ls body) P (HW ident (or_introl eq_refl))
                 (IH (fun y Hy => HR y ltac:(rewrite !in_app_iff; auto)) (fun y Hy => HW y (or_intror Hy)))
                 (Z.to_nat (b - a)) a s s' H) as [E1 E2].
      destruct (iter_range _ _ _ _ s), (iter_range _ _ _ _ s'). cbn [fst snd] in *. subst.
      split; [reflexivity|exact E2].
    Qed.
  End Loops.

  (* ---- del_loopvars ---- *)
  Lemma del_loopvars_acc g (R W : var -> Prop) loops :
    (forall y, In y (loop_idents loops) -> W y) ->
    forall s, Forall (acc_ok R W) (fst (del_loopvars g loops s)).
  Proof.
    induction loops as [|[[ident lo] hi] ls IH]; intros HW s; cbn [del_loopvars]; [constructor|].
    cbn [loop_idents map fst] in HW.
    assert (Hi : W ident) by (apply HW; now left).
    assert (IH' := IH (fun y Hy => HW y (or_intror Hy))).
    destruct (s ident).
    - specialize (IH' (del s ident)). destruct (del_loopvars g ls (del s ident)). cbn [fst] in *.
      constructor; assumption.
    - destruct g.
      + specialize (IH' s). destruct (del_loopvars true ls s). cbn [fst] in *. constructor; assumption.
      + cbn. constructor; [exact Hi|constructor].
  Qed.

  Lemma del_loopvars_spec g loops : forall s a s',
    del_loopvars g loops s = (a, Ok s') ->
    (forall y, ~ In y (loop_idents loops) -> s' y = s y) /\
    (forall y, In y (loop_idents loops) -> s' y = None).
  Proof.
    induction loops as [|[[ident lo] hi] ls IH]; intros s a s' H; cbn [del_loopvars] in H.
    - injection H as _ <-. split; [reflexivity|intros y []].
    - cbn [loop_idents map fst].
      assert (Hgen : forall s0, (s0 = s \/ s0 = del s ident) -> s0 ident = None ->
                forall a0, del_loopvars g ls s0 = (a0, Ok s') ->
                (forall y, ~ (ident = y \/ In y (loop_idents ls)) -> s' y = s y) /\
                (forall y, ident = y \/ In y (loop_idents ls) -> s' y = None)).
      { intros s0 Hs0 Hnone a0 H0. destruct (IH _ _ _ H0) as [U N]. split.
        - intros y Hy. rewrite U by intuition.
          destruct Hs0 as [->| ->]; [reflexivity|]. unfold del.
          destruct (String.eqb_spec y ident); [subst; intuition|reflexivity].
        - intros y [<-|Hy]; [|auto].
          destruct (in_dec string_dec ident (loop_idents ls)) as [Hi|Hi]; [auto|].
          rewrite U by exact Hi. exact Hnone. }
      destruct (s ident) eqn:Es.
      + destruct (del_loopvars g ls (del s ident)) as [a0 r0] eqn:E0. injection H as _ ->.
        eapply Hgen; [right; reflexivity| |exact E0]. unfold del. now rewrite String.eqb_refl.
      + destruct g; [|discriminate].
        destruct (del_loopvars true ls s) as [a0 r0] eqn:E0. injection H as _ ->.
        eapply Hgen; [left; reflexivity|exact Es|exact E0].
  Qed.

  Lemma del_loopvars_frame g (P : var -> Prop) loops :
    (forall y, In y (loop_idents loops) -> P y) ->
    forall s s', agree P s s' ->
      fst (del_loopvars g loops s) = fst (del_loopvars g loops s') /\
      rs_agree P (snd (del_loopvars g loops s)) (snd (del_loopvars g loops s')).
  Proof.
    induction loops as [|[[ident lo] hi] ls IH]; intros HP s s' H; cbn [del_loopvars].
    - split; [reflexivity|exact H].
    - cbn [loop_idents map fst] in HP. rewrite (H ident) by (apply HP; now left).
      assert (IH' := IH (fun y Hy => HP y (or_intror Hy))).
      destruct (s' ident).
      + destruct (IH' _ _ (agree_del P s s' ident H)) as [E1 E2].
        destruct (del_loopvars g ls (del s ident)), (del_loopvars g ls (del s' ident)).
        cbn [fst snd] in *. subst. split; [reflexivity|exact E2].
      + destruct g; [|split; reflexivity].
        destruct (IH' _ _ H) as [E1 E2].
        destruct (del_loopvars true ls s), (del_loopvars true ls s').
        cbn [fst snd] in *. subst. split; [reflexivity|exact E2].
  Qed.
End Stmt.

(* ---------- whole statements ---------- *)
Section Exec.
  Variable F : string -> list val -> list (string * val) -> option (list val).
  Variable g : bool.     (* del_guarded *)

  Definition RW (st : stmt) (x : var) : Prop := In x (reads true true st ++ writes st).
  Definition WL (st : stmt) (x : var) : Prop := In x (writes st ++ loopvars (skd st)).
  Definition FP (st : stmt) (x : var) : Prop :=
    In x (reads true true st ++ writes st ++ loopvars (skd st)).

  Lemma assign_all_acc (R W : var -> Prop) : forall xs vs s,
    (forall y, In y xs -> W y) -> Forall (acc_ok R W) (fst (assign_all s xs vs)).
  Proof.
    induction xs as [|x xs IH]; intros vs s HW; cbn [assign_all]; [constructor|].
    destruct vs as [|v vs]; [constructor|].
    specialize (IH vs (upd s x v) (fun y Hy => HW y (or_intror Hy))).
    destruct (assign_all (upd s x v) xs vs). cbn [fst] in *.
    constructor; [apply HW; now left|exact IH].
  Qed.

  Lemma assign_all_unch : forall xs vs s y, ~ In y xs -> snd (assign_all s xs vs) y = s y.
  Proof.
    induction xs as [|x xs IH]; intros vs s y Hy; cbn [assign_all]; [reflexivity|].
    destruct vs as [|v vs]; [reflexivity|].
    specialize (IH vs (upd s x v) y). destruct (assign_all (upd s x v) xs vs). cbn [snd] in *.
    rewrite IH by (intros H; apply Hy; now right).
    unfold upd. destruct (String.eqb_spec y x); [subst; exfalso; apply Hy; now left|reflexivity].
  Qed.

  Lemma assign_all_frame (P : var -> Prop) : forall xs vs s s', agree P s s' ->
    fst (assign_all s xs vs) = fst (assign_all s' xs vs) /\
    agree P (snd (assign_all s xs vs)) (snd (assign_all s' xs vs)).
  Proof.
    induction xs as [|x xs IH]; intros vs s s' H; cbn [assign_all]; [auto|].
    destruct vs as [|v vs]; [auto|].
    destruct (IH vs _ _ (agree_upd P s s' x v H)) as [E1 E2].
    destruct (assign_all (upd s x v) xs vs), (assign_all (upd s' x v) xs vs). cbn [fst snd] in *.
    subst. auto.
  Qed.

  Lemma of_rs_agree P r r' : rs_agree P r r' -> out_agree P (of_rs r) (of_rs r').
  Proof. destruct r as [a|[|]], r' as [b|[|]]; cbn; intuition; discriminate. Qed.

  Local Ltac inapp := rewrite ?in_app_iff; auto 8.

  (* --- accesses --- *)
  Lemma exec_kind_acc s k c :
    let st := {| sid := 0; sdeps := []; scond := c; skd := k |} in
    Forall (acc_ok (RW st) (WL st)) (fst (exec_kind F g s k)).
  Proof.
    intros st. subst st. unfold RW, WL, reads, writes. cbn [skd scond].
    destruct k as [x sub rhs loops|xs f args kw|comp tid time e| | | | ]; cbn [exec_kind];
      try (cbn; constructor).
    - (* assign *)
      assert (Hbody : forall s0, Forall
                (acc_ok (fun y => In y ((kind_reads true true (KAssign x sub rhs loops) ++ vars c)
                                        ++ kind_writes (KAssign x sub rhs loops)))
                        (fun y => In y (kind_writes (KAssign x sub rhs loops) ++ loopvars (KAssign x sub rhs loops))))
                (fst (assign_once F s0 x sub rhs))).
      { intros s0. apply assign_once_acc; cbn [kind_reads kind_writes loopvars].
        - intros y Hy. inapp.
        - intros ie -> y Hy. inapp.
        - intros _. rewrite !in_app_iff. right. now left.
        - rewrite in_app_iff. left. now left. }
      destruct loops as [|l0 ls].
      + specialize (Hbody s). destruct (assign_once F s x sub rhs). exact Hbody.
      + set (loops := l0 :: ls) in *.
        assert (Hrl := run_loops_acc F (fun s0 => assign_once F s0 x sub rhs) _ _ loops Hbody).
        assert (Hb : forall y, In y (loop_bound_vars loops) ->
                     In y ((kind_reads true true (KAssign x sub rhs loops) ++ vars c)
                           ++ kind_writes (KAssign x sub rhs loops))).
        { intros y Hy. cbn [kind_reads]. unfold loop_bound_vars in Hy. inapp. }
        assert (Hi : forall y, In y (loop_idents loops) ->
                     In y (kind_writes (KAssign x sub rhs loops) ++ loopvars (KAssign x sub rhs loops))).
        { intros y Hy. cbn [loopvars]. unfold loop_idents in Hy. inapp. }
        specialize (Hrl Hb Hi s).
        destruct (run_loops F loops _ s) as [a [s1|u]]; cbn [fst] in *; [|exact Hrl].
        match type of Hrl with Forall (acc_ok ?R0 ?W0) _ =>
          assert (Hd := del_loopvars_acc g R0 W0 loops Hi s1) end.
        destruct (del_loopvars g loops s1). cbn [fst] in *. rewrite Forall_app. auto.
    - (* call *)
      pose proof (eval_list_reads F s args) as Ha.
      destruct (eval_list F s args) as [r1 [pos|u]]; cbn [fst] in *.
      + pose proof (eval_list_reads F s (map snd kw)) as Hk.
        assert (Hk' : forall y, In y (flat_map vars (map snd kw)) -> In y (flat_map (fun p => vars (snd p)) kw)).
        { intros y. rewrite flat_map_concat_map, map_map, <- flat_map_concat_map. auto. }
        destruct (eval_list F s (map snd kw)) as [r2 [kws|u]]; cbn [fst] in *.
        * assert (H12 : Forall (acc_ok (fun y => In y ((kind_reads true true (KCall xs f args kw) ++ vars c)
                                                        ++ kind_writes (KCall xs f args kw)))
                                      (fun y => In y (kind_writes (KCall xs f args kw) ++ loopvars (KCall xs f args kw))))
                              (rds r1 ++ rds r2)).
          { rewrite Forall_app. split; apply rds_ok; intros y Hy; cbn [kind_reads]; inapp. }
          destruct (F f pos _) as [res|]; [|exact H12].
          destruct xs as [|x0 xs0]; [exact H12|].
          destruct (Nat.eqb _ _); [|exact H12].
          assert (Haa := assign_all_acc
                    (fun y => In y ((kind_reads true true (KCall (x0 :: xs0) f args kw) ++ vars c)
                                    ++ kind_writes (KCall (x0 :: xs0) f args kw)))
                    (fun y => In y (kind_writes (KCall (x0 :: xs0) f args kw) ++ loopvars (KCall (x0 :: xs0) f args kw)))
                    (x0 :: xs0) res s (fun y Hy => ltac:(cbn [kind_writes]; inapp))).
          destruct (assign_all s (x0 :: xs0) res). cbn [fst] in *.
          rewrite app_assoc, Forall_app. auto.
        * destruct u; cbn [fst]; rewrite Forall_app; split; apply rds_ok; intros y Hy; cbn [kind_reads]; inapp.
      + destruct u; cbn [fst]; apply rds_ok; intros y Hy; cbn [kind_reads]; inapp.
    - (* yield *)
      pose proof (eval_reads F s time) as Ht.
      destruct (eval F s time) as [r1 [t|u]]; cbn [fst] in *.
      + pose proof (eval_reads F s e) as He.
        destruct (eval F s e) as [r2 [v|u]]; cbn [fst] in *;
          try (destruct u); cbn [fst]; rewrite Forall_app; split; apply rds_ok; intros y Hy;
            cbn [kind_reads]; inapp.
      + destruct u; cbn [fst]; apply rds_ok; intros y Hy; cbn [kind_reads]; inapp.
  Qed.

  Theorem exec_stmt_acc s st : Forall (acc_ok (RW st) (WL st)) (fst (exec_stmt F g s st)).
  Proof.
    destruct st as [i d c k]. unfold exec_stmt. cbn [scond skd].
    pose proof (eval_reads F s c) as Hc.
    assert (Hr : forall l, (forall x, In x l -> In x (vars c)) ->
                 Forall (acc_ok (RW (Build_stmt i d c k)) (WL (Build_stmt i d c k))) (rds l)).
    { intros l Hl. apply rds_ok. intros x Hx. unfold RW, reads. cbn [scond skd]. rewrite !in_app_iff. auto. }
    destruct (eval F s c) as [r v]. cbn [fst] in *.
    destruct (rbind v _) as [[|]|u]; cbn [fst]; auto.
    - pose proof (exec_kind_acc s k c) as Hk. cbn zeta in Hk.
      destruct (exec_kind F g s k). cbn [fst] in *. rewrite Forall_app. split; [auto|exact Hk].
  Qed.

  (* --- what is left unchanged; loop counters are gone afterwards --- *)
  Lemma exec_kind_unch s k a s' ev :
    exec_kind F g s k = (a, ONext s' ev) ->
    (forall y, ~ In y (kind_writes k ++ loopvars k) -> s' y = s y) /\
    (forall y, In y (loopvars k) -> s' y = None).
  Proof.
    destruct k as [x sub rhs loops|xs f args kw|comp tid time e| | | | ]; cbn [exec_kind]; intros H;
      try discriminate.
    - assert (Hbody : forall s0 a0 s1, assign_once F s0 x sub rhs = (a0, Ok s1) ->
                        forall y, ~ (y = x) -> s1 y = s0 y).
      { intros s0 a0 s1 H0 y Hy. exact (assign_once_unch F x sub rhs s0 a0 s1 H0 y Hy). }
      destruct loops as [|l0 ls].
      + destruct (assign_once F s x sub rhs) as [a0 [s1|[|]]] eqn:E; cbn in H; try discriminate.
        injection H as _ <- _. split; [|intros y []].
        intros y Hy. eapply Hbody; [exact E|]. intros ->. apply Hy. cbn. now left.
      + cbv beta iota in H. remember (l0 :: ls) as loops eqn:El.
        destruct (run_loops F loops _ s) as [a0 [s1|[|]]] eqn:E; cbn [of_rs] in H; try discriminate.
        destruct (del_loopvars g loops s1) as [a2 [s2|[|]]] eqn:E2; cbn [of_rs] in H; try discriminate.
        injection H as _ <- _. destruct (del_loopvars_spec F g loops _ _ _ E2) as [U N].
        cbn [kind_writes loopvars]. fold (loop_idents loops). split; [|exact N].
        intros y Hy. rewrite in_app_iff in Hy. rewrite U by intuition.
        apply (run_loops_unch F (fun s0 => assign_once F s0 x sub rhs) (fun z => z = x) loops Hbody s a0 s1 E y);
          cbn in *; intuition.
    - destruct (eval_list F s args) as [r1 [pos|[|]]]; cbn in H; try discriminate.
      destruct (eval_list F s (map snd kw)) as [r2 [kws|[|]]]; cbn in H; try discriminate.
      destruct (F f pos _) as [res|]; [|discriminate].
      destruct xs as [|x0 xs0].
      + injection H as _ <- _. split; [reflexivity|intros y []].
      + destruct (Nat.eqb _ _); [|discriminate].
        pose proof (assign_all_unch (x0 :: xs0) res s) as Hu.
        destruct (assign_all s (x0 :: xs0) res) as [a0 s0]. cbn [snd] in Hu.
        injection H as _ <- _. split; [|intros y []].
        intros y Hy. apply Hu. cbn [kind_writes loopvars] in Hy. rewrite app_nil_r in Hy. exact Hy.
    - destruct (eval F s time) as [r1 [t|[|]]]; cbn in H; try discriminate.
      destruct (eval F s e) as [r2 [v|[|]]]; cbn in H; try discriminate.
      injection H as _ <- _. split; [reflexivity|intros y []].
    - injection H as _ <- _. split; [reflexivity|intros y []].
  Qed.

  Theorem exec_stmt_unch s st a s' ev :
    exec_stmt F g s st = (a, ONext s' ev) -> forall y, ~ WL st y -> s' y = s y.
  Proof.
    unfold exec_stmt, WL, writes. destruct (eval F s (scond st)) as [r v].
    destruct (rbind v _) as [[|]|[|]]; cbn; intros H y Hy; try discriminate.
    - destruct (exec_kind F g s (skd st)) as [a0 o] eqn:E. injection H as _ ->.
      destruct (exec_kind_unch _ _ _ _ _ E) as [U _]. auto.
    - injection H as _ <- _. reflexivity.
  Qed.

  (* loop counters never survive a statement (given they were absent before, or the statement ran) *)
  Theorem exec_stmt_clean s st a s' ev (L : var -> Prop) :
    exec_stmt F g s st = (a, ONext s' ev) ->
    (forall y, L y -> s y = None) ->
    (forall y, L y -> ~ In y (writes st)) ->
    forall y, L y -> s' y = None.
  Proof.
    unfold exec_stmt, writes. destruct (eval F s (scond st)) as [r v].
    destruct (rbind v _) as [[|]|[|]]; cbn; intros H Hc Hw y Hy; try discriminate.
    - destruct (exec_kind F g s (skd st)) as [a0 o] eqn:E. injection H as _ ->.
      destruct (exec_kind_unch _ _ _ _ _ E) as [U N].
      destruct (in_dec string_dec y (loopvars (skd st))) as [Hi|Hi]; [auto|].
      rewrite U; [auto|]. rewrite in_app_iff. intros [Hq|Hq]; [exact (Hw y Hy Hq)|exact (Hi Hq)].
    - injection H as _ <- _. auto.
  Qed.

  (* --- frame: the behaviour depends only on the footprint --- *)
  Lemma exec_kind_frame (P : var -> Prop) s s' k :
    (forall y, In y (kind_reads true true k ++ kind_writes k ++ loopvars k) -> P y) ->
    agree P s s' ->
    fst (exec_kind F g s k) = fst (exec_kind F g s' k) /\
    out_agree P (snd (exec_kind F g s k)) (snd (exec_kind F g s' k)).
  Proof.
    intros HP H.
    destruct k as [x sub rhs loops|xs f args kw|comp tid time e| | | | ]; cbn [exec_kind];
      try (split; [reflexivity|cbn; auto]).
    - assert (Hbody : forall s0 s0', agree P s0 s0' ->
                fst (assign_once F s0 x sub rhs) = fst (assign_once F s0' x sub rhs) /\
                rs_agree P (snd (assign_once F s0 x sub rhs)) (snd (assign_once F s0' x sub rhs))).
      { assert (Px : P x) by (apply HP; cbn [kind_writes]; rewrite !in_app_iff; right; left; now left).
        intros s0 s0' H0. apply (assign_once_frame F x sub rhs P P); auto.
        - intros y Hy. apply HP. cbn [kind_reads]. inapp.
        - intros ie -> y Hy. apply HP. cbn [kind_reads]. inapp. }
      destruct loops as [|l0 ls].
      + destruct (Hbody s s' H) as [E1 E2].
        destruct (assign_once F s x sub rhs), (assign_once F s' x sub rhs). cbn [fst snd] in *.
        split; [exact E1|apply of_rs_agree; exact E2].
      + set (loops := l0 :: ls) in *.
        assert (Hb : forall y, In y (loop_bound_vars loops) -> P y).
        { intros y Hy. apply HP. cbn [kind_reads]. unfold loop_bound_vars in Hy. inapp. }
        assert (Hi : forall y, In y (loop_idents loops) -> P y).
        { intros y Hy. apply HP. cbn [loopvars]. unfold loop_idents in Hy. inapp. }
        destruct (run_loops_frame F (fun s0 => assign_once F s0 x sub rhs) P loops Hbody Hb Hi s s' H) as [E1 E2].
        destruct (run_loops F loops _ s) as [a r], (run_loops F loops _ s') as [a' r']. cbn [fst snd] in *.
        subst a'. destruct r as [s1|u], r' as [s1'|u']; cbn in E2; try contradiction.
        * destruct (del_loopvars_frame g P loops Hi s1 s1' E2) as [E3 E4].
          destruct (del_loopvars g loops s1), (del_loopvars g loops s1'). cbn [fst snd] in *. subst.
          split; [reflexivity|apply of_rs_agree; exact E4].
        * subst. split; [reflexivity|]. destruct u'; cbn; auto.
    - rewrite (eval_list_frame F s s' args)
        by (eapply agree_weaken; [|exact H]; cbn; intros; apply HP; cbn [kind_reads]; inapp).
      destruct (eval_list F s' args) as [r1 [pos|u]]; [|split; [reflexivity|destruct u; cbn; auto]].
      assert (Hk' : forall y, In y (flat_map vars (map snd kw)) -> In y (flat_map (fun p => vars (snd p)) kw)).
      { intros y. rewrite flat_map_concat_map, map_map, <- flat_map_concat_map. auto. }
      rewrite (eval_list_frame F s s' (map snd kw))
        by (eapply agree_weaken; [|exact H]; cbn; intros; apply HP; cbn [kind_reads]; inapp).
      destruct (eval_list F s' (map snd kw)) as [r2 [kws|u]]; [|split; [reflexivity|destruct u; cbn; auto]].
      destruct (F f pos _) as [res|]; [|split; [reflexivity|cbn; auto]].
      destruct xs as [|x0 xs0]; [split; [reflexivity|cbn; auto]|].
      destruct (Nat.eqb _ _); [|split; [reflexivity|cbn; auto]].
      destruct (assign_all_frame P (x0 :: xs0) res s s' H) as [E1 E2].
      destruct (assign_all s (x0 :: xs0) res), (assign_all s' (x0 :: xs0) res). cbn [fst snd] in *.
      subst. split; [reflexivity|cbn; auto].
    - rewrite (eval_frame F s s' time)
        by (eapply agree_weaken; [|exact H]; cbn; intros; apply HP; cbn [kind_reads]; inapp).
      destruct (eval F s' time) as [r1 [t|u]]; [|split; [reflexivity|destruct u; cbn; auto]].
      rewrite (eval_frame F s s' e)
        by (eapply agree_weaken; [|exact H]; cbn; intros; apply HP; cbn [kind_reads]; inapp).
      destruct (eval F s' e) as [r2 [v|u]]; [|split; [reflexivity|destruct u; cbn; auto]].
      split; [reflexivity|cbn; auto].
  Qed.

  Theorem exec_stmt_frame (P : var -> Prop) s s' st :
    (forall y, FP st y -> P y) -> agree P s s' ->
    fst (exec_stmt F g s st) = fst (exec_stmt F g s' st) /\
    out_agree P (snd (exec_stmt F g s st)) (snd (exec_stmt F g s' st)).
  Proof.
    intros HP H. unfold exec_stmt.
    rewrite (eval_frame F s s' (scond st)).
    2:{ eapply agree_weaken; [|exact H]. cbn. intros y Hy. apply HP. unfold FP, reads. inapp. }
    destruct (eval F s' (scond st)) as [r v].
    destruct (rbind v _) as [[|]|u]; cbn [fst snd].
    - destruct (exec_kind_frame P s s' (skd st)) as [E1 E2]; [|exact H|].
      + intros y Hy. apply HP. unfold FP, reads, writes. rewrite !in_app_iff in *. intuition.
      + destruct (exec_kind F g s (skd st)), (exec_kind F g s' (skd st)). cbn [fst snd] in *.
        subst. auto.
    - split; [reflexivity|cbn; auto].
    - split; [reflexivity|destruct u; cbn; auto].
  Qed.
End Exec.

(* ---------- corollaries in the form used by props/C08.v ---------- *)
Section C08.
  Variable F : string -> list val -> list (string * val) -> option (list val).
  Variable g : bool.

  Lemma reads_covered s st x :
    In (Rd x) (fst (exec_stmt F g s st)) -> In x (reads true true st ++ writes st).
  Proof.
    intros H. pose proof (exec_stmt_acc F g s st) as Hall. rewrite Forall_forall in Hall.
    exact (Hall _ H).
  Qed.

  Lemma writes_covered s st x :
    In (Wr x) (fst (exec_stmt F g s st)) \/ In (Dl x) (fst (exec_stmt F g s st)) ->
    In x (writes st ++ loopvars (skd st)).
  Proof.
    pose proof (exec_stmt_acc F g s st) as Hall. rewrite Forall_forall in Hall.
    intros [H|H]; exact (Hall _ H).
  Qed.

  Lemma untouched s st a s' ev x :
    exec_stmt F g s st = (a, ONext s' ev) -> ~ In x (writes st ++ loopvars (skd st)) -> s' x = s x.
  Proof. intros H Hx. eapply exec_stmt_unch; eauto. Qed.

  Lemma frame s s' st :
    (forall x, In x (reads true true st ++ writes st ++ loopvars (skd st)) -> s x = s' x) ->
    fst (exec_stmt F g s st) = fst (exec_stmt F g s' st) /\
    out_agree (fun x => In x (reads true true st ++ writes st ++ loopvars (skd st)))
              (snd (exec_stmt F g s st)) (snd (exec_stmt F g s' st)).
  Proof. intros H. apply exec_stmt_frame; [auto|exact H]. Qed.

  Lemma map_id {A} (l : list A) : map (fun x => x) l = l.
  Proof. induction l; cbn; congruence. Qed.

  Lemma identity_map st lf bf :
    reads lf bf (map_stmt (fun e => e) st) = reads lf bf st /\
    writes (map_stmt (fun e => e) st) = writes st.
  Proof.
    assert (E : map_stmt (fun e => e) st = st).
    { destruct st as [i d c k]. unfold map_stmt. cbn [sid sdeps scond skd]. f_equal.
      destruct k as [x sub rhs loops|xs f args kw|comp tid time e| | | | ]; cbn [map_kind]; try reflexivity.
      - f_equal; [destruct sub; reflexivity|].
        induction loops as [|[[i0 lo] hi] ls IH]; [reflexivity|]. cbn [map fst snd]. now rewrite IH.
      - f_equal; [apply map_id|].
        induction kw as [|[n e] kw IH]; [reflexivity|]. cbn [map fst snd]. now rewrite IH. }
    now rewrite E.
  Qed.
End C08.

(* ---------- the defective shapes are refuted by concrete witnesses ---------- *)
Open Scope string_scope.
Definition F0 (f : string) (a : list val) (k : list (string * val)) : option (list val) := Some [VInt 0].
Definition st_lhs : stmt := {| sid := 0; sdeps := []; scond := EBool true;
                               skd := KAssign "a" (Some (EVar "x")) (EInt 1) [] |}.
Definition s_lhs : store := upd (upd empty "a" (VArr [0%Z; 0%Z])) "x" (VInt 1).
Lemma lhs_sub_refuted bf :
  In (Rd "x") (fst (exec_stmt F0 true s_lhs st_lhs)) /\ ~ In "x" (reads false bf st_lhs ++ writes st_lhs).
Proof. split; [vm_compute; auto|]. destruct bf; vm_compute; intuition discriminate. Qed.

Definition st_loop : stmt := {| sid := 0; sdeps := []; scond := EBool true;
                                skd := KAssign "z" None (EInt 1) [("i", EVar "<p>n", EInt 2)] |}.
Lemma loop_bound_refuted lf :
  In (Rd "<p>n") (fst (exec_stmt F0 true empty st_loop)) /\ ~ In "<p>n" (reads lf false st_loop ++ writes st_loop).
Proof. split; [vm_compute; auto|]. destruct lf; vm_compute; intuition discriminate. Qed.

(* non-vacuity: a guarded, looped, subscripted assignment with a call really reads and writes *)
Definition st_ex : stmt :=
  {| sid := 0; sdeps := []; scond := EVar "<cond>c";
     skd := KAssign "a" (Some (EVar "i")) (ENary NSum [EVar "x"; EVar "i"; ENary (NCall "<func>f" []) [EVar "y"]])
                    [("i", EInt 0, EVar "n")] |}.
Definition s_ex : store :=
  upd (upd (upd (upd (upd empty "a" (VArr [0; 0]%Z)) "x" (VInt 5)) "y" (VInt 1)) "n" (VInt 2)) "<cond>c" (VBool true).
Example ex_runs :
  exists a s', exec_stmt F0 true s_ex st_ex = (a, ONext s' None) /\
               s' "a" = Some (VArr [5; 6]%Z) /\ s' "i" = None /\ In (Rd "n") a /\ In (Wr "i") a.
Proof. eexists. eexists. split; [vm_compute; reflexivity|]. vm_compute. auto 10. Qed.
