(* C19 -- the lexer on a back-tick quoted name; the property's second sentence on the text. *)
From Coq Require Import List ZArith NArith String Ascii Bool Arith Lia ZifyBool.
Import ListNotations.
From Dagrt Require Import GenC19 Print Parse ParseRules RoundTrip PrintParseProofs.
Open Scope string_scope.
Open Scope nat_scope.

Lemma bt_not_bt_char : is_bt_char "`" = false.
Proof. vm_compute. reflexivity. Qed.

Lemma span_bt n :
  string_forallb is_bt_char n = true -> span is_bt_char (n ++ "`") = (n, "`").
Proof.
  induction n as [|c n IH]; intros H.
  - cbn [append span]. rewrite bt_not_bt_char. reflexivity.
  - cbn [string_forallb] in H. apply andb_true_iff in H as [Hc Hn].
    cbn [append span]. rewrite Hc, (IH Hn). reflexivity.
Qed.

Lemma lex_step_bt n :
  string_forallb is_bt_char n = true ->
  lex_step (String "`" (n ++ "`")) = SNext (TId (String "`" (n ++ "`"))) "".
Proof.
  intros H. unfold lex_step.
  cbn [prefix_rest kw_rest Ascii.eqb Bool.eqb is_digit is_id_start is_alpha in_range nat_of_ascii orb andb].
  change (is_digit "`") with false. change (is_id_start "`") with false.
  cbn [Ascii.eqb Bool.eqb orb andb]. rewrite (span_bt n H). reflexivity.
Qed.

Lemma lex_go_nil k : lex_go k "" = Ok [].
Proof. destruct k; reflexivity. Qed.

Lemma lex_bt n :
  string_forallb is_bt_char n = true ->
  lex (String "`" (n ++ "`")) = Ok [TId (String "`" (n ++ "`"))].
Proof.
  intros H. unfold lex. cbn [String.length lex_go]. rewrite (lex_step_bt n H), lex_go_nil. reflexivity.
Qed.

Theorem backticks n :
  string_forallb is_bt_char n = true ->
  parse_string (String "`" (n ++ "`")) = Ok (EVar n).
Proof.
  intros H. unfold parse_string. rewrite (lex_bt n H). cbn [bind].
  unfold parse_tokens. cbn [strip filter is_sp negb].
  rewrite (parse_toks_intro [TId (String "`" (n ++ "`"))] (EVar (String "`" (n ++ "`")))).
  - cbn [bind unbt]. rewrite strip_bt_quote. reflexivity.
  - eapply PE_intro; [intros; apply prefix_id | cbn; lia | apply LP_stop; reflexivity].
Qed.

Example backticks_example :
  parse_string "`<p>y_1`" = Ok (EVar "<p>y_1").
Proof. apply (backticks "<p>y_1"). vm_compute. reflexivity. Qed.
