(* BuilderInv.v -- the invariant behind CodeBuilder._add_statement's sparse dependency
   graph: every pair of conflicting statements is ordered by the transitive closure of
   the recorded edges (DESIGN.md appendix B), over model/BuilderCore.v. *)
From Coq Require Import List Arith Lia Relations.
Import ListNotations.
From Dagrt Require Import BuilderCore.

Definition edge (o : list (list nat)) (i j : nat) : Prop := In i (nth j o []).
Definition prec (o : list (list nat)) : nat -> nat -> Prop := clos_trans nat (edge o).

Lemma edge_lt_len o i j : edge o i j -> j < length o.
Proof. unfold edge. intros H. destruct (lt_dec j (length o)); [assumption|].
  rewrite nth_overflow in H by lia. destruct H. Qed.
Lemma edge_mono o d i j : edge o i j -> edge (o ++ [d]) i j.
Proof. intros H. pose proof (edge_lt_len _ _ _ H). unfold edge in *. rewrite app_nth1; assumption. Qed.
Lemma prec_mono o d i j : prec o i j -> prec (o ++ [d]) i j.
Proof. induction 1; [apply t_step, edge_mono; assumption | eapply t_trans; eassumption]. Qed.
Lemma edge_new o d i : In i d -> edge (o ++ [d]) i (length o).
Proof. intros H. unfold edge. rewrite app_nth2 by lia. rewrite Nat.sub_diag. exact H. Qed.


Section Inv.
  Variable V : Type.
  Variable V_eq_dec : forall a b : V, {a = b} + {a <> b}.
  Notation memb := (memb V V_eq_dec).

  Lemma memb_true v l : memb v l = true <-> In v l.
  Proof. unfold BuilderCore.memb. destruct (in_dec _ _ _); split; intros; auto; discriminate. Qed.
  Lemma memb_false v l : memb v l = false <-> ~ In v l.
  Proof. unfold BuilderCore.memb. destruct (in_dec _ _ _); split; intros; auto; try discriminate; contradiction. Qed.

Definition conflict (a b : rw V) : Prop :=
  (exists v, In v (W a) /\ (In v (R b) \/ In v (W b))) \/ (exists v, In v (R a) /\ In v (W b)).

Definition Inv (p : list (rw V)) (b : bs V) : Prop :=
  length (out b) = length p /\
  forall i s v, nth_error p i = Some s ->
    (In v (W s) -> exists w, writer b v = Some w /\ (i = w \/ prec (out b) i w)) /\
    (In v (R s) -> ~ In v (W s) -> In i (readers b v) \/ exists w, writer b v = Some w /\ prec (out b) i w).

Definition Covered (p : list (rw V)) (b : bs V) : Prop :=
  forall i j si sj, i < j -> nth_error p i = Some si -> nth_error p j = Some sj ->
    conflict si sj -> prec (out b) i j.

Lemma in_wdeps (b : bs V) vs v w : In v vs -> writer b v = Some w -> In w (wdeps V b vs).
Proof. intros Hv Hw. unfold wdeps. apply in_flat_map. exists v. split; [assumption|]. rewrite Hw. now left. Qed.

Lemma step_ok p b s : Inv p b -> Covered p b -> Inv (p ++ [s]) (add V V_eq_dec b s) /\ Covered (p ++ [s]) (add V V_eq_dec b s).
Proof.
  intros [Hlen HI] HC.
  set (n := length (out b)).
  set (d := wdeps V b (R s ++ W s) ++ flat_map (readers b) (W s)).
  assert (Hout : out (add V V_eq_dec b s) = out b ++ [d]) by reflexivity.
  (* key: any earlier statement conflicting with s precedes n *)
  assert (Key : forall i si, nth_error p i = Some si -> conflict si s -> prec (out b ++ [d]) i n).
  { intros i si Hi [[v [Hw Hrw]] | [v [Hr Hw]]].
    - destruct (HI i si v Hi) as [HW _]. destruct (HW Hw) as (w & Ew & Hiw).
      assert (Hwd : In w d).
      { unfold d. apply in_or_app. left. eapply in_wdeps; [|exact Ew].
        apply in_or_app. destruct Hrw; [now left|now right]. }
      destruct Hiw as [->|Hp].
      + apply t_step. apply edge_new. exact Hwd.
      + eapply t_trans; [apply prec_mono; exact Hp|]. apply t_step, edge_new, Hwd.
    - destruct (in_dec V_eq_dec v (W si)) as [Hwi|Hnw].
      + destruct (HI i si v Hi) as [HW _]. destruct (HW Hwi) as (w & Ew & Hiw).
        assert (Hwd : In w d).
        { unfold d. apply in_or_app. left. eapply in_wdeps; [|exact Ew]. apply in_or_app. now right. }
        destruct Hiw as [->|Hp].
        * apply t_step, edge_new, Hwd.
        * eapply t_trans; [apply prec_mono; exact Hp|]. apply t_step, edge_new, Hwd.
      + destruct (HI i si v Hi) as [_ HR]. destruct (HR Hr Hnw) as [Hin | (w & Ew & Hp)].
        * apply t_step, edge_new. unfold d. apply in_or_app. right.
          apply in_flat_map. exists v. split; assumption.
        * assert (Hwd : In w d).
          { unfold d. apply in_or_app. left. eapply in_wdeps; [|exact Ew]. apply in_or_app. now right. }
          eapply t_trans; [apply prec_mono; exact Hp|]. apply t_step, edge_new, Hwd. }
  split.
  - (* Inv *)
    split; [rewrite Hout, !app_length; cbn; lia|].
    intros i s' v Hi. rewrite Hout.
    destruct (lt_dec i (length p)) as [Hlt|Hge].
    + rewrite nth_error_app1 in Hi by assumption.
      destruct (HI i s' v Hi) as [HW HR]. cbn [writer readers add].
      split.
      * intros Hw. destruct (memb v (W s)) eqn:Em.
        -- apply memb_true in Em. exists n. split; [reflexivity|]. right.
           apply (Key i s' Hi). left. exists v. split; [assumption|now right].
        -- destruct (HW Hw) as (w & Ew & Hiw). exists w. split; [assumption|].
           destruct Hiw; [now left|right; apply prec_mono; assumption].
      * intros Hr Hnw. destruct (memb v (W s)) eqn:Em.
        -- apply memb_true in Em. right. exists n. split; [reflexivity|].
           apply (Key i s' Hi). right. exists v. split; assumption.
        -- destruct (HR Hr Hnw) as [Hin | (w & Ew & Hp)].
           ++ left. destruct (memb v (R s)); [now right|assumption].
           ++ right. exists w. split; [assumption|apply prec_mono; assumption].
    + assert (i = length p).
      { apply nth_error_Some_lt in Hi || idtac.
        assert (i < length (p ++ [s])) by (apply nth_error_Some; congruence).
        rewrite app_length in *; cbn in *; lia. }
      subst i. rewrite nth_error_app2 in Hi by lia. rewrite Nat.sub_diag in Hi. cbn in Hi.
      injection Hi as <-. cbn [writer readers add]. fold n. rewrite <- Hlen. fold n.
      split.
      * intros Hw. apply memb_true in Hw. rewrite Hw. exists n. split; [reflexivity|now left].
      * intros Hr Hnw. apply memb_false in Hnw. rewrite Hnw.
        apply memb_true in Hr. rewrite Hr. left. now left.
  - (* Covered *)
    intros i j si sj Hij Hi Hj Hc. rewrite Hout.
    assert (Hjl : j < length (p ++ [s])) by (apply nth_error_Some; congruence).
    rewrite app_length in Hjl; cbn in Hjl.
    destruct (lt_dec j (length p)) as [Hlt|Hge].
    + rewrite nth_error_app1 in Hi, Hj by lia. apply prec_mono. eapply HC; eassumption.
    + assert (j = length p) by lia. subst j.
      rewrite nth_error_app2 in Hj by lia. rewrite Nat.sub_diag in Hj. cbn in Hj. injection Hj as <-.
      rewrite nth_error_app1 in Hi by lia. rewrite <- Hlen. apply (Key i si Hi Hc).
Qed.

Theorem builder_covers : forall p, Inv p (build V V_eq_dec p) /\ Covered p (build V V_eq_dec p).
Proof.
  induction p as [|s p IH] using rev_ind.
  - split; [split; [reflexivity|]|].
    + intros i s v Hi. destruct i; discriminate.
    + intros i j si sj _ Hi. destruct i; discriminate.
  - unfold build. rewrite fold_left_app. cbn [fold_left]. fold (build V V_eq_dec p).
    destruct IH. apply step_ok; assumption.
Qed.

  (* (IB) every recorded writer / reader / dependency is an earlier statement *)
  Definition Back (n : nat) (b : bs V) : Prop :=
    length (out b) = n /\
    (forall v w, writer b v = Some w -> w < n) /\
    (forall v r, In r (readers b v) -> r < n) /\
    (forall j e, In e (nth j (out b) []) -> e < j).

  Lemma back_step n b s : Back n b -> Back (S n) (add V V_eq_dec b s).
  Proof.
    intros (Hl & Hw & Hr & Ho). unfold Back. cbn [add writer readers out]. rewrite Hl.
    split; [rewrite app_length; cbn; lia|]. split; [|split].
    - intros v w. destruct (memb v (W s)); [intros H; injection H as <-; lia|].
      intros H. apply Hw in H. lia.
    - intros v r. destruct (memb v (W s)); [intros []|].
      destruct (memb v (R s)); [intros [<-|H]; [lia|apply Hr in H; lia]|intros H; apply Hr in H; lia].
    - intros j e He. destruct (lt_dec j n) as [Hlt|Hge].
      + rewrite app_nth1 in He by lia. apply Ho, He.
      + destruct (Nat.eq_dec j n) as [->|Hne].
        * rewrite app_nth2, Hl, Nat.sub_diag in He by lia. cbn [nth] in He.
          rewrite in_app_iff in He. destruct He as [He|He].
          -- unfold wdeps in He. apply in_flat_map in He. destruct He as (v & _ & Hv).
             destruct (writer b v) as [w|] eqn:Ew; [|destruct Hv].
             destruct Hv as [<-|[]]. eapply Hw, Ew.
          -- apply in_flat_map in He. destruct He as (v & _ & Hv). eapply Hr, Hv.
        * rewrite nth_overflow in He; [destruct He|]. rewrite app_length, Hl. cbn. lia.
  Qed.

  Theorem back_build : forall p, Back (length p) (build V V_eq_dec p).
  Proof.
    induction p as [|s p IH] using rev_ind.
    - repeat split; try discriminate; cbn; intros; try contradiction. destruct j; destruct H.
    - unfold build. rewrite fold_left_app. cbn [fold_left]. fold (build V V_eq_dec p).
      rewrite app_length. cbn. rewrite Nat.add_1_r. apply back_step, IH.
  Qed.
End Inv.
