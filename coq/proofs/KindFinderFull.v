(* Order independence at full strength (error outcomes included) for the shape in which
   - unify accepts Integer in both asserts,
   - SymbolKindTable.set flags insertions and re-raises failing unifications,
   - loop variables are registered before the work-list loop.
   If one order returns a table T, every other order stays below T (KindFinderProofs), so no
   unification can fail; it cannot get stuck either ("no progress"), because every statement the
   first run managed to infer is inferable from the names the second run already has
   (definedness of the mapper only depends on which names are known); and its closing
   consistency loop sees an equal table. *)
From Coq Require Import List String Bool Arith Lia Permutation.
Import ListNotations.
From Dagrt Require Import Unify UnifyProofs KindOrder KindInfer KindInferProofs KindTableProofs
  KindFinderProofs.
Close Scope string_scope.
Open Scope list_scope.

(* ------------------------------------------------------------------ definedness of the mapper *)

Fixpoint defd (lk : string -> option okind) (e : expr) : bool :=
  match e with
  | EConst _ => true
  | EVar x => match lk x with Some _ => true | None => false end
  | ESum l => existsb (defd lk) l
  | EProd l => forallb (defd lk) l
  | EQuot n d => defd lk n && defd lk d
  | ECmp _ _ => true
  end.

Lemma defd_mono : forall lk1 lk2 e,
  (forall x, lk1 x <> None -> lk2 x <> None) -> defd lk1 e = true -> defd lk2 e = true.
Proof.
  intros lk1 lk2 e H. induction e using expr_ind'; cbn; try reflexivity.
  - destruct (lk1 x) eqn:E1; [|discriminate]. intros _.
    destruct (lk2 x) eqn:E2; [reflexivity|]. exfalso. apply (H x); [congruence|assumption].
  - rewrite !existsb_exists. intros [x [Hin Hx]]. exists x. split; [assumption|].
    rewrite Forall_forall in H0. apply H0; assumption.
  - rewrite !forallb_forall. intros Hall x Hin. rewrite Forall_forall in H0. apply H0; auto.
  - rewrite !andb_true_iff. intros [A B]. auto.
Qed.

Section Defd.
  Variable c : cfg.
  Hypothesis Hut : c_ut_int c = true.
  Hypothesis Harr : c_arr_int c = true.

  Lemma UU_none : forall a b, UU a b = Ok None -> a = None /\ b = None.
  Proof.
    intros a b H. split.
    - destruct a; [|reflexivity]. exfalso. eapply UU_some_l; [exact H|discriminate|reflexivity].
    - destruct b; [|reflexivity]. exfalso. eapply UU_some_r; [exact H|discriminate|reflexivity].
  Qed.

  Lemma sum_fold_ok_child : forall rs acc exc k, sum_fold c rs acc exc = IOk k ->
    acc <> None \/ exists k1, In (IOk k1) rs.
  Proof.
    induction rs as [|r rs IH]; intros acc exc k; cbn.
    - destruct acc; [intros _; left; discriminate|destruct exc; discriminate].
    - destruct r as [k1| |e]; [|intro H|discriminate].
      + intros _. right. exists k1. left; reflexivity.
      + destruct (IH _ _ _ H) as [A|[k1 A]]; [left; assumption|right; exists k1; right; assumption].
  Qed.

  Lemma prod_fold_ok_all : forall rs acc k, prod_fold c rs acc = IOk k ->
    forall r, In r rs -> exists k1, r = IOk k1.
  Proof.
    induction rs as [|r rs IH]; intros acc k; cbn; [intros _ r []|].
    destruct r as [k1| |e]; try discriminate.
    destruct (U c acc k1); [|discriminate]. intros H r [<-|Hin]; [eexists; reflexivity|].
    eapply IH; eassumption.
  Qed.

  Lemma infer_defd : forall lk e k, infer c lk e = IOk k -> defd lk e = true.
  Proof.
    intros lk e. induction e using expr_ind'; intros k; cbn [infer defd]; try reflexivity.
    - destruct (lk x); [reflexivity|discriminate].
    - intro Hs. destruct (sum_fold_ok_child _ _ _ _ Hs) as [A|[k1 A]]; [contradiction|].
      apply in_map_iff in A. destruct A as [x [Hx Hin]].
      apply existsb_exists. exists x. split; [assumption|].
      rewrite Forall_forall in H. eapply H; eassumption.
    - intro Hp. apply forallb_forall. intros x Hin.
      destruct (prod_fold_ok_all _ _ _ Hp (infer c lk x)) as [k1 Hk1]; [apply in_map; assumption|].
      rewrite Forall_forall in H. eapply H; eassumption.
    - intro Hp. apply andb_true_iff. split.
      + destruct (prod_fold_ok_all _ _ _ Hp (infer c lk e1)) as [k1 Hk1]; [left; reflexivity|].
        eapply IHe1; eassumption.
      + destruct (prod_fold_ok_all _ _ _ Hp (infer c lk e2)) as [k1 Hk1]; [right; left; reflexivity|].
        eapply IHe2; eassumption.
  Qed.

  Lemma sum_fold_unable : forall rs acc exc, sum_fold c rs acc exc = IUnable ->
    acc = None /\ forall r, In r rs -> r = IUnable \/ r = IOk None.
  Proof.
    induction rs as [|r rs IH]; intros acc exc; cbn.
    - destruct acc; [discriminate|]. intros _. split; [reflexivity|intros r []].
    - destruct r as [k1| |e]; [| |discriminate].
      + rewrite (Uc c Hut Harr). destruct (UU acc k1) as [k'|] eqn:E; [|discriminate].
        intro H. destruct (IH _ _ H) as [-> Hall]. apply UU_none in E. destruct E as [-> ->].
        split; [reflexivity|]. intros r [<-|Hin]; [right; reflexivity|apply Hall; assumption].
      + intro H. destruct (IH _ _ H) as [-> Hall].
        split; [reflexivity|]. intros r [<-|Hin]; [left; reflexivity|apply Hall; assumption].
  Qed.

  Lemma prod_fold_unable : forall rs acc, prod_fold c rs acc = IUnable -> In IUnable rs.
  Proof.
    induction rs as [|r rs IH]; intros acc; cbn; [discriminate|].
    destruct r as [k1| |e]; [|intros _; left; reflexivity|discriminate].
    destruct (U c acc k1); [|discriminate]. intro H. right. eapply IH; eassumption.
  Qed.

  Lemma defd_infer : forall lk e, lk_nonone lk -> expr_ok e = true -> defd lk e = true ->
    infer c lk e <> IUnable.
  Proof.
    intros lk e Hlk. induction e using expr_ind'; cbn [infer defd expr_ok]; intros Hok Hd.
    - discriminate.
    - destruct (lk x); [discriminate|discriminate].
    - intro Hs. apply sum_fold_unable in Hs. destruct Hs as [_ Hall].
      apply existsb_exists in Hd. destruct Hd as [x [Hin Hx]].
      rewrite forallb_forall in Hok. rewrite Forall_forall in H.
      destruct (Hall (infer c lk x)) as [A|A]; [apply in_map; assumption| |].
      + eapply H; try eassumption. apply Hok; assumption.
      + eapply (infer_some c Hut Harr); [exact Hlk|apply Hok; eassumption|exact A|reflexivity].
    - apply andb_true_iff in Hok. destruct Hok as [_ Hok].
      intro Hp. apply prod_fold_unable in Hp. apply in_map_iff in Hp. destruct Hp as [x [Hx Hin]].
      rewrite forallb_forall in Hok, Hd. rewrite Forall_forall in H.
      eapply H; try eassumption; auto.
    - apply andb_true_iff in Hok. destruct Hok as [Hok1 Hok2].
      apply andb_true_iff in Hd. destruct Hd as [Hd1 Hd2].
      intro Hp. apply prod_fold_unable in Hp. destruct Hp as [Hp|[Hp|[]]].
      + eapply IHe1; eauto.
      + eapply IHe2; eauto.
    - discriminate.
  Qed.

End Defd.

(* ------------------------------------------------------------------ keys *)

Definition has_key (T : table) (ky : key) : Prop := tfind T ky <> None.

Lemma has_key_mono : forall T L ky, tle T L -> has_key T ky -> has_key L ky.
Proof.
  intros T L ky Hle H. unfold has_key in *. destruct (tfind T ky) as [k|] eqn:E; [|contradiction].
  destruct (Hle _ _ E) as [k' [E' _]]. congruence.
Qed.

Section Full.
  Variable c : cfg.
  Hypothesis Hut : c_ut_int c = true.
  Hypothesis Harr : c_arr_int c = true.
  Hypothesis Hins : c_ins_changed c = true.
  Hypothesis Hraise : c_set_raises c = true.

  Definition loops_present (T : table) (items : list qitem) : Prop :=
    forall it, In it items -> loops_closed c T (fst it) (b_loops (snd it)).

  Lemma loops_closed_mono : forall T L p l, tle T L -> loops_closed c T p l -> loops_closed c L p l.
  Proof.
    intros T L p l Hle H i Hi. destruct (H i Hi) as [v [Ev Hv]].
    destruct (Hle _ _ Ev) as [v' [Ev' Hv']]. exists v'. split; [assumption|eapply kle_trans; eassumption].
  Qed.

  Lemma loops_present_mono : forall T L items, tle T L -> loops_present T items -> loops_present L items.
  Proof. intros T L items Hle H it Hin. eapply loops_closed_mono; [exact Hle|apply H; assumption]. Qed.

  Lemma tset_same : forall st p x k old,
    tfind (tbl st) (key_of c p x) = Some old -> kle k old -> tset c st p x k = Ok st.
  Proof.
    intros st p x k old E Hk. unfold tset. rewrite E.
    destruct (okind_eqb old k) eqn:Eq; [reflexivity|]. apply okind_eqb_neq in Eq.
    destruct Hk as [->|[_ Hk]]; [contradiction|].
    rewrite (Uc c Hut Harr), Hk. rewrite okind_eqb_refl. reflexivity.
  Qed.

  Lemma set_loops_same : forall l st p, loops_closed c (tbl st) p l -> set_loops c st p l = Ok st.
  Proof.
    induction l as [|i r IH]; intros st p H; cbn; [reflexivity|].
    destruct (H i (or_introl eq_refl)) as [v [Ev Hv]].
    rewrite (tset_same _ _ _ _ _ Ev Hv). apply IH. intros j Hj. apply H. right; assumption.
  Qed.

  Lemma tset_sw : forall st p x k st', tset c st p x k = Ok st' -> swallowed st' = swallowed st.
  Proof.
    intros st p x k st' H. apply (tset_inv c Hut Harr) in H. cbn in H.
    destruct H as [[_ [_ [_ Es]]]|[old [_ H]]]; [assumption|].
    destruct H as [[_ ->]|[H|[[_ [_ ->]]|[_ [k' [_ [_ [_ [_ Es]]]]]]]]]; try reflexivity; try assumption.
    destruct H as [_ [_ [Er _]]]. congruence.
  Qed.

  Lemma set_loops_sw : forall l st p st', set_loops c st p l = Ok st' -> swallowed st' = swallowed st.
  Proof.
    induction l as [|i r IH]; intros st p st'; cbn.
    - intros [= <-]; reflexivity.
    - destruct (tset c st p i (Some KInt)) as [st1|e] eqn:E; [|discriminate].
      intro H. rewrite (IH _ _ _ H). eapply tset_sw; eassumption.
  Qed.

  Lemma pstep_sw : forall st it st', pstep c st it st' -> swallowed st' = swallowed st.
  Proof.
    intros st it st' H. destruct (process_cases c _ _ _ H) as [st1 [E1 Hc]].
    pose proof (set_loops_sw _ _ _ _ E1) as S1.
    destruct Hc as [[_ [-> _]]|[[_ [_ [-> _]]]|[_ [k [_ [E2 _]]]]]]; try assumption.
    rewrite (tset_sw _ _ _ _ _ E2). assumption.
  Qed.

  Lemma tset_has : forall st p x k st', tset c st p x k = Ok st' -> has_key (tbl st') (key_of c p x).
  Proof.
    intros st p x k st' H. apply (tset_inv c Hut Harr) in H. cbn in H. unfold has_key.
    destruct H as [[E [Et _]]|[old [E H]]].
    - rewrite Et, tfind_app, E, key_eqb_refl. discriminate.
    - destruct H as [[_ ->]|[H|[[_ [_ ->]]|[_ [k' [_ [_ [Et _]]]]]]]]; try congruence.
      + destruct H as [_ [_ [_ [Et _]]]]. rewrite Et. congruence.
      + rewrite Et, (tfind_tupd_same _ _ _ _ E). discriminate.
  Qed.

  Lemma tset_keys_sub : forall st p x k st' ky, tset c st p x k = Ok st' ->
    has_key (tbl st') ky -> has_key (tbl st) ky \/ ky = key_of c p x.
  Proof.
    intros st p x k st' ky H. apply (tset_inv c Hut Harr) in H. cbn in H. unfold has_key.
    destruct H as [[E [Et _]]|[old [E H]]].
    - rewrite Et, tfind_app. destruct (tfind (tbl st) ky); [left; assumption|].
      destruct (key_eqb ky (key_of c p x)) eqn:E3; [|contradiction].
      apply key_eqb_eq in E3. right; assumption.
    - destruct H as [[_ ->]|[H|[[_ [_ ->]]|[_ [k' [_ [_ [Et _]]]]]]]]; try (left; assumption).
      + destruct H as [_ [_ [_ [Et _]]]]. rewrite Et. left; assumption.
      + rewrite Et. destruct (key_eqb ky (key_of c p x)) eqn:E3.
        * apply key_eqb_eq in E3. right; assumption.
        * rewrite tfind_tupd_other; [left; assumption|].
          intro; subst ky. rewrite key_eqb_refl in E3. discriminate.
  Qed.

  (* after set_loops every listed identifier has an entry >= Integer *)
  Lemma tset_closed_after : forall st p x k st', good c st -> k <> None ->
    tset c st p x k = Ok st' -> exists v, tfind (tbl st') (key_of c p x) = Some v /\ kle k v.
  Proof.
    intros st p x k st' [_ Hn] Hk H. apply (tset_inv c Hut Harr) in H. cbn in H.
    destruct H as [[E [Et _]]|[old [E H]]].
    - exists k. rewrite Et, tfind_app, E, key_eqb_refl. split; [reflexivity|apply kle_refl].
    - destruct H as [[Eo ->]|[H|[[_ [EU ->]]|[_ [k' [EU [_ [Et _]]]]]]]].
      + exists old. split; [assumption|left; congruence].
      + destruct H as [_ [_ [Er _]]]. congruence.
      + exists old. split; [assumption|right; split; assumption].
      + exists k'. rewrite Et, (tfind_tupd_same _ _ _ _ E). split; [reflexivity|].
        eapply UU_upper_l; eassumption.
  Qed.

  Lemma set_loops_closed_after : forall l st p st', good c st -> set_loops c st p l = Ok st' ->
    loops_closed c (tbl st') p l.
  Proof.
    induction l as [|i r IH]; intros st p st' Hg; cbn.
    - intros _ j [].
    - destruct (tset c st p i (Some KInt)) as [st1|e] eqn:E; [|discriminate].
      intro H.
      assert (Hg1 : good c st1) by (eapply (tset_good c Hut Harr); try eassumption; discriminate).
      intros j [<-|Hj].
      + assert (Hne : Some KInt <> None) by discriminate.
        destruct (tset_closed_after _ _ _ _ _ Hg Hne E) as [v [Ev Hv]].
        destruct (set_loops_grows c Hut Harr _ _ _ _ Hg1 H _ _ Ev) as [v' [Ev' Hv']].
        exists v'. split; [assumption|eapply kle_trans; eassumption].
      + eapply IH; eassumption.
  Qed.

  Lemma prepass_present : forall l st st', good c st -> prepass c st l = Ok st' ->
    loops_present (tbl st') l.
  Proof.
    induction l as [|it r IH]; intros st st' Hg; cbn.
    - intros _ x [].
    - destruct (set_loops c st (fst it) (b_loops (snd it))) as [st1|e] eqn:E; [|discriminate].
      intro H.
      assert (Hg1 : good c st1) by (eapply (set_loops_good c Hut Harr); eassumption).
      intros x [<-|Hx].
      + eapply loops_closed_mono; [exact (prepass_grows c Hut Harr _ _ _ Hg1 H)|].
        exact (set_loops_closed_after _ _ _ _ Hg E).
      + exact (IH _ _ Hg1 H x Hx).
  Qed.

  Lemma set_loops_keys_sub : forall l st p st' ky, set_loops c st p l = Ok st' ->
    has_key (tbl st') ky -> has_key (tbl st) ky \/ exists i, In i l /\ ky = key_of c p i.
  Proof.
    induction l as [|i r IH]; intros st p st' ky; cbn.
    - intros [= <-] H; left; assumption.
    - destruct (tset c st p i (Some KInt)) as [st1|e] eqn:E; [|discriminate].
      intros H Hk. destruct (IH _ _ _ _ H Hk) as [A|[j [Hj A]]].
      + destruct (tset_keys_sub _ _ _ _ _ _ E A) as [B|B]; [left; assumption|].
        right. exists i. split; [left; reflexivity|assumption].
      + right. exists j. split; [right; assumption|assumption].
  Qed.

  Lemma prepass_keys_sub : forall l st st' ky, prepass c st l = Ok st' ->
    has_key (tbl st') ky ->
    has_key (tbl st) ky \/ exists it i, In it l /\ In i (b_loops (snd it)) /\ ky = key_of c (fst it) i.
  Proof.
    induction l as [|it r IH]; intros st st' ky; cbn.
    - intros [= <-] H; left; assumption.
    - destruct (set_loops c st (fst it) (b_loops (snd it))) as [st1|e] eqn:E; [|discriminate].
      intros H Hk. destruct (IH _ _ _ H Hk) as [A|[x [i [Hx [Hi A]]]]].
      + destruct (set_loops_keys_sub _ _ _ _ _ E A) as [B|[i [Hi B]]]; [left; assumption|].
        right. exists it, i. split; [left; reflexivity|split; assumption].
      + right. exists x, i. split; [right; assumption|split; assumption].
  Qed.

  Lemma final_check_none : forall T l, final_check c T l = None <->
    forall it, In it l -> exists k, infer c (lookup T (fst it)) (b_raw (snd it)) = IOk k.
  Proof.
    intros T. induction l as [|it r IH]; cbn.
    - split; [intros _ x []|reflexivity].
    - destruct (infer c (lookup T (fst it)) (b_raw (snd it))) as [k| |e] eqn:E.
      + rewrite IH. split.
        * intros H x [<-|Hx]; [exists k; assumption|apply H; assumption].
        * intros H x Hx. apply H. right; assumption.
      + split; [discriminate|]. intro H. destruct (H it (or_introl eq_refl)) as [k Hk]. congruence.
      + split; [discriminate|]. intro H. destruct (H it (or_introl eq_refl)) as [k Hk]. congruence.
  Qed.

  Lemma lookup_equiv : forall T T' p x, table_equiv T T' -> lookup T p x = lookup T' p x.
  Proof. intros T T' p x H. unfold lookup. rewrite !H. reflexivity. Qed.

  Lemma lookup_keys : forall T L p x, canon c T -> canon c L ->
    (forall ky, has_key T ky -> has_key L ky) -> lookup T p x <> None -> lookup L p x <> None.
  Proof.
    intros T L p x HT HL H. rewrite (lookup_canon c T p x HT), (lookup_canon c L p x HL). apply H.
  Qed.

  (* ---------------------------------------------------------------- the two runs *)

  Section TwoRuns.
    (* run 1: from st1 over `all`, returned the table T *)
    Variables (stf st1 : tstate) (all all' : list qitem) (T : table) (sw1 : bool) (fuel1 : nat).
    Hypothesis Hperm : Permutation all all'.
    Hypothesis Hwf : forall it, In it all -> wf_item it.
    Hypothesis Hgf : good c stf.
    Hypothesis Hg1 : good c st1.
    Hypothesis Hstart1 : start c stf all = Ok st1.
    Hypothesis Hpres1 : loops_present (tbl st1) all.
    Hypothesis Hrun1 : outer c fuel1 st1 all = OTable T sw1.
    Hypothesis Hsw1 : swallowed st1 = false.

    Lemma Hwf' : forall it, In it all' -> wf_item it.
    Proof. intros it Hin. apply Hwf. eapply Permutation_in; [apply Permutation_sym; exact Hperm|exact Hin]. Qed.

    Lemma in_all' : forall it, In it all -> In it all'.
    Proof. intros it Hin. eapply Permutation_in; eassumption. Qed.

    Lemma in_all : forall it, In it all' -> In it all.
    Proof. intros it Hin. eapply Permutation_in; [apply Permutation_sym; exact Hperm|exact Hin]. Qed.

    (* facts about run 1 *)
    Lemma run1_sw : sw1 = false.
    Proof.
      pose (P := fun s : tstate => swallowed s = false).
      destruct (outer_last c P all) with (fuel := fuel1) (st := st1) (T := T) (sw := sw1)
        as [st0 [st' [_ [_ [_ [_ [_ [Hs [Hp _]]]]]]]]]; try assumption.
      - intros s H; exact H.
      - intros s it s' _ Hs Hps. unfold P. rewrite (pstep_sw _ _ _ Hps). exact Hs.
      - unfold P in Hp. congruence.
    Qed.

    Lemma run1_closed : canon c T /\ tle (tbl st1) T /\ forall it, In it all -> stmt_closed c T it.
    Proof.
      apply (run_closed c Hut Harr Hins fuel1 st1 all T Hg1 Hwf). rewrite <- run1_sw. exact Hrun1.
    Qed.

    Lemma run1_final : final_check c T all = None.
    Proof.
      destruct (outer_last c (fun _ => True) all) with (fuel := fuel1) (st := st1) (T := T) (sw := sw1)
        as [st0 [st' [_ [_ [_ [_ [_ [_ [_ Hf]]]]]]]]]; auto.
    Qed.

    Lemma closed_all' : forall it, In it all' -> stmt_closed c T it.
    Proof. intros it Hin. apply run1_closed. apply in_all; assumption. Qed.

    (* the invariant of run 2 *)
    Definition inv2 (s : tstate) : Prop :=
      good c s /\ tle (tbl s) T /\ tle (tbl stf) (tbl s) /\ loops_present (tbl s) all' /\
      (forall ky, has_key (tbl st1) ky -> has_key (tbl s) ky) /\ swallowed s = false.

    Lemma inv2_reset : forall s, inv2 s -> inv2 (reset s).
    Proof. intros s H; exact H. Qed.

    Lemma inv2_step : forall s it s', In it all' -> inv2 s -> pstep c s it s' -> inv2 s'.
    Proof.
      intros s it s' Hin [Hg [HleT [Hlef [Hpres [Hkeys Hsw]]]]] Hps.
      assert (Hgrow : tle (tbl s) (tbl s')) by (eapply (process_grows c Hut Harr); try eassumption; apply Hwf'; assumption).
      split; [eapply (process_good c Hut Harr); try eassumption; apply Hwf'; assumption|].
      split.
      { destruct (process_below c Hut Harr s it T Hg (proj1 run1_closed) HleT (closed_all' it Hin))
          as [s2 [Hps2 [Hle2 _]]].
        rewrite (pstep_det c _ _ _ _ Hps Hps2). assumption. }
      split; [eapply tle_trans; eassumption|].
      split; [eapply loops_present_mono; eassumption|].
      split; [intros ky Hk; eapply has_key_mono; [exact Hgrow|apply Hkeys; assumption]|].
      rewrite (pstep_sw _ _ _ Hps). assumption.
    Qed.

    (* a state of run 2 in which nothing more can be inferred cannot exist *)
    Lemma stuck_false : forall s b,
      inv2 s -> b <> [] -> incl b all' ->
      (forall x, In x b -> b_sub (snd x) = false /\
                           infer c (lookup (tbl s) (fst x)) (b_flat (snd x)) = IUnable) ->
      (forall it, In it all' -> b_sub (snd it) = false ->
                  In it b \/ has_key (tbl s) (key_of c (fst it) (b_lhs (snd it)))) ->
      False.
    Proof.
      intros s b [Hg [HleT [Hlef [Hpres [Hkeys Hsw]]]]] Hne Hinc Hun Hmem.
      destruct run1_closed as [HcT [Hle1 Hcl1]].
      (* an item inferable from a table whose names s has cannot be Unable in s *)
      assert (Hnot : forall tau it k, In it all -> good c tau ->
                (forall ky, has_key (tbl tau) ky -> has_key (tbl s) ky) ->
                infer c (lookup (tbl tau) (fst it)) (b_flat (snd it)) = IOk k ->
                infer c (lookup (tbl s) (fst it)) (b_flat (snd it)) <> IUnable).
      { intros tau it k Hin Hgt Hk Hi.
        apply (defd_infer c Hut Harr).
        - apply lookup_nonone. apply Hg.
        - apply Hwf; assumption.
        - eapply defd_mono; [|eapply infer_defd; exact Hi].
          intro x. apply lookup_keys; [apply Hgt|apply Hg|assumption]. }
      (* names of every table of run 1 are names of s *)
      pose (P := fun tau : tstate => good c tau /\ loops_present (tbl tau) all /\
                                     forall ky, has_key (tbl tau) ky -> has_key (tbl s) ky).
      destruct (outer_last c P all) with (fuel := fuel1) (st := st1) (T := T) (sw := sw1)
        as [st0 [st' [_ [_ [_ [_ [HT [_ [[Hg' [_ Hk']] _]]]]]]]]]; try assumption.
      - intros tau H; exact H.
      - intros tau it tau' Hin [Hgt [Hpt Hkt]] Hps.
        assert (Hgrow : tle (tbl tau) (tbl tau')) by (eapply (process_grows c Hut Harr); try eassumption; apply Hwf; assumption).
        split; [eapply (process_good c Hut Harr); try eassumption; apply Hwf; assumption|].
        split; [eapply loops_present_mono; eassumption|].
        destruct (process_cases c _ _ _ Hps) as [tau1 [E1 Hc]].
        rewrite (set_loops_same _ _ _ (Hpt it Hin)) in E1. injection E1 as <-.
        destruct Hc as [[_ [-> _]]|[[_ [_ [-> _]]]|[Esub [k [Ei [E2 _]]]]]]; try assumption.
        intros ky Hky. destruct (tset_keys_sub _ _ _ _ _ _ E2 Hky) as [A|A]; [apply Hkt; assumption|]. subst ky.
        destruct (Hmem it (in_all' it Hin) Esub) as [Hb|Hb]; [|assumption].
        exfalso. eapply (Hnot tau it k); try eassumption.
        + rewrite <- Ei. apply (infer_ext c). intro x. symmetry. apply lookup_kim_same.
        + apply Hun; assumption.
      - split; [assumption|]. split; assumption.
      - (* contradiction on the first element of b *)
        destruct b as [|x b']; [contradiction|].
        assert (Hx : In x all') by (apply Hinc; left; reflexivity).
        destruct (Hun x (or_introl eq_refl)) as [Esub Eun].
        destruct (Hcl1 x (in_all x Hx)) as [_ Hlhs]. destruct (Hlhs Esub) as [k [v [Ei _]]].
        subst T. eapply (Hnot st' x k); try eassumption. apply in_all; assumption.
    Qed.

    Lemma inner_no_err : forall fuel s q b pr e,
      inv2 s -> incl q all' -> incl b all' ->
      (forall x, In x b -> b_sub (snd x) = false) ->
      (pr = false -> forall x, In x b -> infer c (lookup (tbl s) (fst x)) (b_flat (snd x)) = IUnable) ->
      (forall it, In it all' -> b_sub (snd it) = false ->
                  In it (q ++ b) \/ has_key (tbl s) (key_of c (fst it) (b_lhs (snd it)))) ->
      inner c fuel s q b pr = FErr e -> False.
    Proof.
      induction fuel as [|f IH]; intros s q b pr e Hinv Hq Hb Hbsub Hbun Hmem; cbn; [discriminate|].
      destruct q as [|it q'].
      - destruct b as [|x b']; [discriminate|].
        destruct pr.
        + apply IH; try assumption.
          * intros y [].
          * intros _ y [].
          * intros y Hy Hs. rewrite app_nil_r. apply (Hmem y Hy Hs).
        + intros _. eapply (stuck_false s (x :: b')); try eassumption.
          * discriminate.
          * intros y Hy. split; [apply Hbsub; assumption|apply Hbun; [reflexivity|assumption]].
      - assert (Hit : In it all') by (apply Hq; left; reflexivity).
        assert (Hq' : incl q' all') by (intros y Hy; apply Hq; right; assumption).
        destruct Hinv as [Hg [HleT [Hlef [Hpres [Hkeys Hsw]]]]].
        destruct (process_below c Hut Harr s it T Hg (proj1 run1_closed) HleT (closed_all' it Hit))
          as [s' [Hps _]].
        assert (Hinv' : inv2 s').
        { eapply inv2_step; [exact Hit| |exact Hps]. exact (conj Hg (conj HleT (conj Hlef (conj Hpres (conj Hkeys Hsw))))). }
        destruct (process_cases c _ _ _ Hps) as [s1 [E1 Hc]].
        rewrite (set_loops_same _ _ _ (Hpres it Hit)) in E1. injection E1 as <-.
        destruct Hc as [[Esub [-> Hp]]|[[Esub [Ei [-> Hp]]]|[Esub [k [Ei [E2 Hp]]]]]]; rewrite Hp.
        + (* subscripted: dropped *)
          apply IH; try assumption.
          intros y Hy Hs. destruct (Hmem y Hy Hs) as [[<-|A]|A]; [congruence|left; assumption|right; assumption].
        + (* deferred *)
          apply IH; try assumption.
          * intros y [<-|Hy]; [assumption|apply Hb; assumption].
          * intros y [<-|Hy]; [assumption|apply Hbsub; assumption].
          * intros Hpr y [<-|Hy]; [|apply Hbun; assumption].
            rewrite <- Ei. apply (infer_ext c). intro x. symmetry. apply lookup_kim_same.
          * intros y Hy Hs. destruct (Hmem y Hy Hs) as [[<-|A]|A].
            -- left. apply in_or_app. right. left; reflexivity.
            -- left. apply in_app_or in A. apply in_or_app.
               destruct A as [A|A]; [left; assumption|right; right; assumption].
            -- right; assumption.
        + (* progress *)
          apply IH; try assumption.
          * discriminate.
          * assert (Hgrow : tle (tbl s) (tbl s')) by (eapply (tset_grows c Hut Harr); eassumption).
            intros y Hy Hs. destruct (Hmem y Hy Hs) as [[<-|A]|A].
            -- right. eapply tset_has; eassumption.
            -- left; assumption.
            -- right. eapply has_key_mono; eassumption.
    Qed.

    Lemma outer_no_err : forall fuel s e, inv2 s -> outer c fuel s all' = OErr e -> False.
    Proof.
      induction fuel as [|f IH]; intros s e Hinv; cbn [outer]; [discriminate|].
      fold (reset s).
      destruct (inner c (S (List.length all') * S (S (List.length all'))) (reset s) (rev all') [] false)
        as [s'|e'|] eqn:Ei; [| |discriminate].
      - assert (Hinv' : inv2 s').
        { eapply (inner_inv c inv2 all' inv2_step); [| |apply inv2_reset; exact Hinv|exact Ei].
          - intros x Hx. apply in_rev; assumption.
          - intros x []. }
        destruct (changed s') eqn:Ec; [apply IH; assumption|].
        destruct (final_check c (tbl s') all') as [e2|] eqn:Ef; [|discriminate].
        intros _.
        (* the table of s' is closed, hence equal to T, and T passed the consistency loop *)
        destruct Hinv' as [Hg' [HleT' [Hlef' [_ [_ Hsw']]]]].
        assert (Hg0 : good c (reset s)) by apply Hinv.
        assert (Hwf0 : forall it, In it (rev all' ++ []) -> wf_item it).
        { intros it Hin. rewrite app_nil_r in Hin. apply Hwf'. apply in_rev. assumption. }
        destruct (inner_closed c Hut Harr Hins _ _ _ _ _ _ Hg0 Hwf0 Ei Ec Hsw') as [Es Hcl].
        assert (Hcl' : forall it, In it all -> stmt_closed c (tbl s') it).
        { intros it Hin. rewrite Es. apply Hcl. rewrite app_nil_r. apply -> in_rev. apply in_all'; assumption. }
        assert (HTle : tle T (tbl s')).
        { destruct (start_below c Hut Harr all stf (tbl s') Hlef' Hcl') as [s1' [Es1 [Hles1 _]]].
          rewrite Hstart1 in Es1. injection Es1 as <-.
          eapply (run_below c Hut Harr) with (st := st1) (all := all); try eassumption. apply Hg'. }
        assert (Heq : table_equiv (tbl s') T) by (apply tle_antisym; assumption).
        assert (Hnone : final_check c (tbl s') all' = None).
        { apply final_check_none. intros it Hin.
          pose proof run1_final as Hf1. rewrite final_check_none in Hf1.
          destruct (Hf1 it (in_all it Hin)) as [k Hk]. exists k. rewrite <- Hk.
          apply (infer_ext c). intro x. apply lookup_equiv; assumption. }
        congruence.
      - intros _. eapply (inner_no_err _ (reset s) (rev all') [] false e'); try eassumption.
        + intros x Hx. apply in_rev; assumption.
        + intros x [].
        + intros x [].
        + intros _ x [].
        + intros it Hin _. left. rewrite app_nil_r. apply -> in_rev. assumption.
    Qed.

  End TwoRuns.

End Full.

(* ------------------------------------------------------------------ the theorem *)

Section FullTheorem.
  Variable c : cfg.
  Hypothesis Hut : c_ut_int c = true.
  Hypothesis Harr : c_arr_int c = true.
  Hypothesis Hins : c_ins_changed c = true.
  Hypothesis Hraise : c_set_raises c = true.
  Hypothesis Hpre : c_loops_prepass c = true.
  Hypothesis Hinit : forall x, In x (c_init_global c) -> c_is_state c x = true.

  Lemma set_forced_sw : forall l st st', set_forced c st l = Ok st' -> swallowed st' = swallowed st.
  Proof.
    induction l as [|[[p x] k] r IH]; intros st st'; cbn.
    - intros [= <-]; reflexivity.
    - destruct (tset c st p x k) as [s1|e] eqn:E; [|discriminate].
      intro H. rewrite (IH _ _ H). eapply (tset_sw c Hut Harr Hraise); eassumption.
  Qed.

  Lemma prepass_sw : forall l st st', prepass c st l = Ok st' -> swallowed st' = swallowed st.
  Proof.
    induction l as [|it r IH]; intros st st'; cbn.
    - intros [= <-]; reflexivity.
    - destruct (set_loops c st (fst it) (b_loops (snd it))) as [s1|e] eqn:E; [|discriminate].
      intro H. rewrite (IH _ _ H). eapply (set_loops_sw c Hut Harr Hraise); eassumption.
  Qed.

  Lemma start_prepass : forall st l, start c st l = prepass c st l.
  Proof. intros; unfold start; rewrite Hpre; reflexivity. Qed.

  (* if one order returns a table, no other order fails *)
  Lemma no_err : forall fuel fuel' forced all all' T sw e,
    Permutation all all' ->
    (forall it, In it all -> wf_item it) ->
    (forall p x k, In (p, x, k) forced -> k <> None) ->
    run_queue c fuel forced all = OTable T sw ->
    run_queue c fuel' forced all' = OErr e -> False.
  Proof.
    intros fuel fuel' forced all all' T sw e Hperm Hwf Hforced H1 H2.
    rewrite run_queue_unfold in H1, H2.
    destruct (set_forced c (init_state c) forced) as [stf|e0] eqn:Ef; [|discriminate].
    assert (Hgf : good c stf).
    { eapply (set_forced_good c Hut Harr); [apply (init_good c Hinit)|exact Hforced|exact Ef]. }
    assert (Hsf : swallowed stf = false) by (rewrite (set_forced_sw _ _ _ Ef); reflexivity).
    destruct (start c stf all) as [st1|e1] eqn:E1; [|discriminate].
    assert (Hg1 : good c st1) by exact (start_good c Hut Harr _ _ _ Hgf E1).
    assert (Hs1 : swallowed st1 = false).
    { rewrite start_prepass in E1. rewrite (prepass_sw _ _ _ E1). assumption. }
    assert (Hp1 : loops_present c (tbl st1) all).
    { rewrite start_prepass in E1. exact (prepass_present c Hut Harr Hraise _ _ _ Hgf E1). }
    destruct (run1_closed c Hut Harr Hins Hraise st1 all T sw fuel Hwf Hg1 H1 Hs1) as [HcT [Hle1 Hcl1]].
    assert (Hcl1' : forall it, In it all' -> stmt_closed c T it).
    { intros it Hin. apply Hcl1. eapply Permutation_in; [apply Permutation_sym; exact Hperm|exact Hin]. }
    assert (HfT : tle (tbl stf) T) by exact (tle_trans _ _ _ (start_grows c Hut Harr _ _ _ Hgf E1) Hle1).
    destruct (start_below c Hut Harr all' stf T HfT Hcl1') as [st2 [E2 [Hle2 Hs2]]].
    rewrite E2 in H2.
    assert (Hg2 : good c st2) by exact (start_good c Hut Harr _ _ _ Hgf E2).
    assert (Hp2 : loops_present c (tbl st2) all').
    { rewrite start_prepass in E2. exact (prepass_present c Hut Harr Hraise _ _ _ Hgf E2). }
    assert (Hf2 : tle (tbl stf) (tbl st2)) by exact (start_grows c Hut Harr _ _ _ Hgf E2).
    eapply (outer_no_err c Hut Harr Hins Hraise stf st1 all all' T sw fuel Hperm Hwf Hg1 E1 Hp1 H1 Hs1
              fuel' st2 e); [|exact H2].
    split; [assumption|]. split; [assumption|]. split; [assumption|]. split; [assumption|].
    split; [|congruence].
    intros ky Hky. rewrite start_prepass in E1.
    destruct (prepass_keys_sub c Hut Harr _ _ _ _ E1 Hky) as [A|[it [i [Hit [Hi ->]]]]].
    - eapply has_key_mono; eassumption.
    - assert (Hit' : In it all') by (eapply Permutation_in; eassumption).
      destruct (Hp2 it Hit' i Hi) as [v [Ev _]]. unfold has_key. congruence.
  Qed.

  Theorem order_independent : forall fuel fuel' forced all all',
    Permutation all all' ->
    (forall it, In it all -> wf_item it) ->
    (forall p x k, In (p, x, k) forced -> k <> None) ->
    run_queue c fuel forced all <> OOutOfFuel ->
    run_queue c fuel' forced all' <> OOutOfFuel ->
    outcome_sim (run_queue c fuel forced all) (run_queue c fuel' forced all').
  Proof.
    intros fuel fuel' forced all all' Hperm Hwf Hforced Hf1 Hf2.
    assert (Hwf' : forall it, In it all' -> wf_item it).
    { intros it Hin. apply Hwf. eapply Permutation_in; [apply Permutation_sym; exact Hperm|exact Hin]. }
    destruct (run_queue c fuel forced all) as [T sw|e|] eqn:R1;
      destruct (run_queue c fuel' forced all') as [T' sw'|e'|] eqn:R2; cbn; try contradiction; try exact I.
    - (* both return a table: no failure was swallowed (set re-raises), tables are equal *)
      assert (Hsw : sw = false /\ sw' = false).
      { rewrite run_queue_unfold in R1, R2.
        destruct (set_forced c (init_state c) forced) as [stf|e0] eqn:Ef; [|discriminate].
        assert (Hsf : swallowed stf = false) by (rewrite (set_forced_sw _ _ _ Ef); reflexivity).
        destruct (start c stf all) as [st1|e1] eqn:E1; [|discriminate].
        destruct (start c stf all') as [st2|e2] eqn:E2; [|discriminate].
        rewrite start_prepass in E1, E2.
        split.
        - eapply (run1_sw c Hut Harr Hraise); [exact R1|]. rewrite (prepass_sw _ _ _ E1). assumption.
        - eapply (run1_sw c Hut Harr Hraise); [exact R2|]. rewrite (prepass_sw _ _ _ E2). assumption. }
      destruct Hsw as [-> ->].
      eapply (order_independent_partial c Hut Harr Hins Hinit); eassumption.
    - exfalso. eapply no_err; eassumption.
    - exfalso. eapply no_err with (all := all') (all' := all); try eassumption.
      apply Permutation_sym; assumption.
  Qed.

End FullTheorem.
