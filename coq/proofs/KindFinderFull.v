(* Order independence at full strength (error outcomes included) for the shape in which
   - unify accepts Integer in both asserts,
   - SymbolKindTable.set flags insertions and re-raises failing unifications,
   - loop variables are registered before the work-list loop,
   - the work-list loop starts its next pass instead of giving up when a retry sweep made no
     progress although the table changed during the pass (c_restart),
   - the registry is monotone (c_arr_only, KindRegistryProofs.call_kinds_mono).
   If one order returns a table T, every other order stays below T (KindFinderProofs), so no
   unification can fail.  It cannot end in "no progress" either: that exit is only taken when the
   table did not change during the whole pass, so every statement outside the push buffer is at
   its post-fixed point under the current table S and the buffered ones cannot be inferred under
   S; the first run, replayed below this weakly closed table, ends below S, hence T = S -- but
   under T every statement can be inferred.  The closing consistency loop sees an equal table.
   Also: dagrt.data.infer_kinds does not depend on the order of the phases dict. *)
From Coq Require Import List String Bool Arith Lia Permutation.
Import ListNotations.
From Dagrt Require Import Unify UnifyProofs KindOrder KindInfer KindRegistryProofs KindInferProofs
  KindTableProofs KindFinderProofs.
Close Scope string_scope.
Open Scope list_scope.

Section Full.
  Variable c : cfg.
  Hypothesis Hut : c_ut_int c = true.
  Hypothesis Harr : c_arr_int c = true.
  Hypothesis Hins : c_ins_changed c = true.
  Hypothesis Hraise : c_set_raises c = true.
  Hypothesis Hrestart : c_restart c = true.
  Hypothesis Hao : c_arr_only c = true.

  Definition loops_present (T : table) (items : list qitem) : Prop :=
    forall it, In it items -> loops_closed c T (fst it) (b_loops (snd it)).

  Lemma loops_closed_mono : forall T L p l, tle T L -> loops_closed c T p l -> loops_closed c L p l.
  Proof.
    intros T L p l Hle H i Hi. destruct (H i Hi) as [v [Ev Hv]].
    destruct (Hle _ _ Ev) as [v' [Ev' Hv']]. exists v'. split; [assumption|eapply kle_trans; eassumption].
  Qed.

  Lemma loops_present_mono : forall T L items, tle T L -> loops_present T items -> loops_present L items.
  Proof. intros T L items Hle H it Hin. eapply loops_closed_mono; [exact Hle|apply H; assumption]. Qed.

  Lemma tset_same : forall st p x k old,
    tfind (tbl st) (key_of c p x) = Some old -> kle k old -> tset c st p x k = Ok st.
  Proof.
    intros st p x k old E Hk. unfold tset. rewrite E.
    destruct (okind_eqb old k) eqn:Eq; [reflexivity|]. apply okind_eqb_neq in Eq.
    destruct Hk as [->|[_ Hk]]; [contradiction|].
    rewrite (Uc c Hut Harr), Hk. rewrite okind_eqb_refl. reflexivity.
  Qed.

  Lemma set_loops_same : forall l st p, loops_closed c (tbl st) p l -> set_loops c st p l = Ok st.
  Proof.
    induction l as [|i r IH]; intros st p H; cbn; [reflexivity|].
    destruct (H i (or_introl eq_refl)) as [v [Ev Hv]].
    rewrite (tset_same _ _ _ _ _ Ev Hv). apply IH. intros j Hj. apply H. right; assumption.
  Qed.

  Lemma tset_sw : forall st p x k st', tset c st p x k = Ok st' -> swallowed st' = swallowed st.
  Proof.
    intros st p x k st' H. apply (tset_inv c Hut Harr) in H. cbn in H.
    destruct H as [[_ [_ [_ Es]]]|[old [_ H]]]; [assumption|].
    destruct H as [[_ ->]|[H|[[_ [_ ->]]|[_ [k' [_ [_ [_ [_ Es]]]]]]]]]; try reflexivity; try assumption.
    destruct H as [_ [_ [Er _]]]. congruence.
  Qed.

  Lemma set_loops_sw : forall l st p st', set_loops c st p l = Ok st' -> swallowed st' = swallowed st.
  Proof.
    induction l as [|i r IH]; intros st p st'; cbn.
    - intros [= <-]; reflexivity.
    - destruct (tset c st p i (Some KInt)) as [st1|e] eqn:E; [|discriminate].
      intro H. rewrite (IH _ _ _ H). eapply tset_sw; eassumption.
  Qed.

  Lemma set_many_sw : forall xs ks st p st', set_many c st p xs ks = Ok st' -> swallowed st' = swallowed st.
  Proof.
    induction xs as [|x xs IH]; intros ks st p st'; cbn.
    - intros [= <-]; reflexivity.
    - destruct ks as [|k ks]; [intros [= <-]; reflexivity|].
      destruct (tset c st p x k) as [st1|e] eqn:E; [|discriminate].
      intro H. rewrite (IH _ _ _ _ H). eapply tset_sw; eassumption.
  Qed.

  Lemma pstep_sw : forall st it st', pstep c st it st' -> swallowed st' = swallowed st.
  Proof.
    intros st it st' H. destruct (process_cases c _ _ _ H) as [st1 [E1 Hc]].
    pose proof (set_loops_sw _ _ _ _ E1) as S1.
    destruct Hc as [[_ [-> _]]|[[_ [_ [-> _]]]|[_ [ks [_ [E2 _]]]]]]; try assumption.
    rewrite (set_many_sw _ _ _ _ _ E2). assumption.
  Qed.

  (* after set_loops every listed identifier has an entry >= Integer *)
  Lemma tset_closed_after : forall st p x k st', good c st -> k <> None ->
    tset c st p x k = Ok st' -> exists v, tfind (tbl st') (key_of c p x) = Some v /\ kle k v.
  Proof.
    intros st p x k st' [_ Hn] Hk H. apply (tset_inv c Hut Harr) in H. cbn in H.
    destruct H as [[E [Et _]]|[old [E H]]].
    - exists k. rewrite Et, tfind_app, E, key_eqb_refl. split; [reflexivity|apply kle_refl].
    - destruct H as [[Eo ->]|[H|[[_ [EU ->]]|[_ [k' [EU [_ [Et _]]]]]]]].
      + exists old. split; [assumption|left; congruence].
      + destruct H as [_ [_ [Er _]]]. congruence.
      + exists old. split; [assumption|right; split; assumption].
      + exists k'. rewrite Et, (tfind_tupd_same _ _ _ _ E). split; [reflexivity|].
        eapply UU_upper_l; eassumption.
  Qed.

  Lemma set_loops_closed_after : forall l st p st', good c st -> set_loops c st p l = Ok st' ->
    loops_closed c (tbl st') p l.
  Proof.
    induction l as [|i r IH]; intros st p st' Hg; cbn.
    - intros _ j [].
    - destruct (tset c st p i (Some KInt)) as [st1|e] eqn:E; [|discriminate].
      intro H.
      assert (Hg1 : good c st1) by (eapply (tset_good c Hut Harr); try eassumption; discriminate).
      intros j [<-|Hj].
      + assert (Hne : Some KInt <> None) by discriminate.
        destruct (tset_closed_after _ _ _ _ _ Hg Hne E) as [v [Ev Hv]].
        destruct (set_loops_grows c Hut Harr _ _ _ _ Hg1 H _ _ Ev) as [v' [Ev' Hv']].
        exists v'. split; [assumption|eapply kle_trans; eassumption].
      + eapply IH; eassumption.
  Qed.

  Lemma prepass_present : forall l st st', good c st -> prepass c st l = Ok st' ->
    loops_present (tbl st') l.
  Proof.
    induction l as [|it r IH]; intros st st' Hg; cbn.
    - intros _ x [].
    - destruct (set_loops c st (fst it) (b_loops (snd it))) as [st1|e] eqn:E; [|discriminate].
      intro H.
      assert (Hg1 : good c st1) by (eapply (set_loops_good c Hut Harr); eassumption).
      intros x [<-|Hx].
      + eapply loops_closed_mono; [exact (prepass_grows c Hut Harr _ _ _ Hg1 H)|].
        exact (set_loops_closed_after _ _ _ _ Hg E).
      + exact (IH _ _ Hg1 H x Hx).
  Qed.

  Lemma final_check_none : forall T l, final_check c T l = None <->
    forall it, In it l -> check_item c T it = None.
  Proof.
    intros T. induction l as [|it r IH]; cbn.
    - split; [intros _ x []|reflexivity].
    - destruct (check_item c T it) as [e|] eqn:E.
      + split; [discriminate|]. intro H. rewrite (H it (or_introl eq_refl)) in E. discriminate.
      + rewrite IH. split.
        * intros H x [<-|Hx]; [assumption|apply H; assumption].
        * intros H x Hx. apply H. right; assumption.
  Qed.

  Lemma lookup_equiv : forall T T' p x, table_equiv T T' -> lookup T p x = lookup T' p x.
  Proof. intros T T' p x H. unfold lookup. rewrite !H. reflexivity. Qed.

  Lemma check_item_equiv : forall T T' it, table_equiv T T' -> check_item c T it = check_item c T' it.
  Proof.
    intros T T' it H. unfold check_item.
    rewrite (eval_check_ext c (lookup T (fst it)) (lookup T' (fst it)) (snd it)); [reflexivity|].
    intro x. apply lookup_equiv; assumption.
  Qed.

  (* ---------------------------------------------------------------- the two runs *)

  Section TwoRuns.
    (* run 1: from st1 over `all`, returned the table T *)
    Variables (stf st1 : tstate) (all all' : list qitem) (T : table) (sw1 : bool) (fuel1 : nat).
    Hypothesis Hperm : Permutation all all'.
    Hypothesis Hwf : forall it, In it all -> wf_item it.
    Hypothesis Hgf : good c stf.
    Hypothesis Hg1 : good c st1.
    Hypothesis Hstart1 : start c stf all = Ok st1.
    Hypothesis Hrun1 : outer c fuel1 st1 all = OTable T sw1.
    Hypothesis Hsw1 : swallowed st1 = false.

    Lemma Hwf' : forall it, In it all' -> wf_item it.
    Proof. intros it Hin. apply Hwf. eapply Permutation_in; [apply Permutation_sym; exact Hperm|exact Hin]. Qed.

    Lemma in_all' : forall it, In it all -> In it all'.
    Proof. intros it Hin. eapply Permutation_in; eassumption. Qed.

    Lemma in_all : forall it, In it all' -> In it all.
    Proof. intros it Hin. eapply Permutation_in; [apply Permutation_sym; exact Hperm|exact Hin]. Qed.

    (* facts about run 1 *)
    Lemma run1_sw : sw1 = false.
    Proof.
      pose (P := fun s : tstate => swallowed s = false).
      destruct (outer_last c P all) with (fuel := fuel1) (st := st1) (T := T) (sw := sw1)
        as [st0 [st' [_ [_ [_ [_ [_ [Hs [Hp _]]]]]]]]]; try assumption.
      - intros s H; exact H.
      - intros s it s' _ Hs Hps. unfold P. rewrite (pstep_sw _ _ _ Hps). exact Hs.
      - unfold P in Hp. congruence.
    Qed.

    Lemma run1_closed : canon c T /\ tle (tbl st1) T /\ forall it, In it all -> stmt_closed c T it.
    Proof.
      apply (run_closed c Hut Harr Hins fuel1 st1 all T Hg1 Hwf). rewrite <- run1_sw. exact Hrun1.
    Qed.

    Lemma run1_final : final_check c T all = None.
    Proof.
      destruct (outer_last c (fun _ => True) all) with (fuel := fuel1) (st := st1) (T := T) (sw := sw1)
        as [st0 [st' [_ [_ [_ [_ [_ [_ [_ Hf]]]]]]]]]; auto.
    Qed.

    Lemma closed_all' : forall it, In it all' -> stmt_closed c T it.
    Proof. intros it Hin. apply run1_closed. apply in_all; assumption. Qed.

    (* the invariant of run 2 *)
    Definition inv2 (s : tstate) : Prop :=
      good c s /\ tle (tbl s) T /\ tle (tbl stf) (tbl s) /\ loops_present (tbl s) all' /\
      swallowed s = false.

    Lemma inv2_reset : forall s, inv2 s -> inv2 (reset s).
    Proof. intros s H; exact H. Qed.

    Lemma inv2_step : forall s it s', In it all' -> inv2 s -> pstep c s it s' -> inv2 s'.
    Proof.
      intros s it s' Hin [Hg [HleT [Hlef [Hpres Hsw]]]] Hps.
      assert (Hgrow : tle (tbl s) (tbl s')) by (eapply (process_grows c Hut Harr); try eassumption; apply Hwf'; assumption).
      split; [eapply (process_good c Hut Harr); try eassumption; apply Hwf'; assumption|].
      split.
      { destruct (process_below c Hut Harr Hao s it T Hg (proj1 run1_closed) HleT
                    (closed_wclosed c T it (closed_all' it Hin)))
          as [s2 [Hps2 [Hle2 _]]].
        rewrite (pstep_det c _ _ _ _ Hps Hps2). assumption. }
      split; [eapply tle_trans; eassumption|].
      split; [eapply loops_present_mono; eassumption|].
      rewrite (pstep_sw _ _ _ Hps). assumption.
    Qed.

    (* a state of run 2 in which every statement is either closed or cannot be inferred does not
       exist unless nothing is left over *)
    Lemma stuck_false : forall s b,
      inv2 s -> b <> [] -> incl b all' ->
      (forall x, In x b -> b_sub (snd x) = false /\
                           eval_work c (lookup (tbl s) (fst x)) (snd x) = MUnable) ->
      (forall it, In it all' -> In it b \/ stmt_closed c (tbl s) it) ->
      False.
    Proof.
      intros s b [Hg [HleT [Hlef [Hpres Hsw]]]] Hne Hinc Hun Hdone.
      destruct run1_closed as [HcT [Hle1 Hcl1]].
      (* S = tbl s is weakly closed for every statement *)
      assert (Hw : forall it, In it all -> stmt_wclosed c (tbl s) it).
      { intros it Hin. destruct (Hdone it (in_all' it Hin)) as [Hb|Hc]; [|apply closed_wclosed; assumption].
        split; [apply Hpres; apply in_all'; assumption|].
        intros _. left. apply Hun; assumption. }
      (* so run 1 stays below it *)
      assert (HTle : tle T (tbl s)).
      { destruct (start_below c Hut Harr all stf (tbl s) Hlef Hw) as [s1' [Es1 [Hles1 _]]].
        rewrite Hstart1 in Es1. injection Es1 as <-.
        eapply (run_below c Hut Harr Hao) with (st := st1) (all := all); try eassumption. apply Hg. }
      assert (Heq : table_equiv (tbl s) T) by (apply tle_antisym; assumption).
      (* but under T the first left-over statement can be inferred *)
      destruct b as [|x b']; [contradiction|].
      assert (Hx : In x all') by (apply Hinc; left; reflexivity).
      destruct (Hun x (or_introl eq_refl)) as [Esub Eun].
      destruct (Hcl1 x (in_all x Hx)) as [_ Hlhs]. destruct (Hlhs Esub) as [ks [Ei _]].
      rewrite (eval_work_ext c (lookup (tbl s) (fst x)) (lookup T (fst x)) (snd x)) in Eun; [congruence|].
      intro y. apply lookup_equiv; assumption.
    Qed.

    Lemma inner_no_err : forall fuel s q b pr e,
      inv2 s -> incl q all' -> incl b all' ->
      (forall x, In x b -> b_sub (snd x) = false) ->
      (pr = false -> forall x, In x b -> eval_work c (lookup (tbl s) (fst x)) (snd x) = MUnable) ->
      (changed s = false -> forall it, In it all' -> In it (q ++ b) \/ stmt_closed c (tbl s) it) ->
      inner c fuel s q b pr = FErr e -> False.
    Proof.
      induction fuel as [|f IH]; intros s q b pr e Hinv Hq Hb Hbsub Hbun Hdone; cbn; [discriminate|].
      destruct q as [|it q'].
      - destruct b as [|x b']; [discriminate|].
        destruct pr.
        + apply IH; try assumption.
          * intros y [].
          * intros _ y [].
          * intros Hc y Hy. rewrite app_nil_r. apply (Hdone Hc y Hy).
        + rewrite Hrestart. cbn. destruct (changed s) eqn:Ec; [discriminate|].
          intros _. eapply (stuck_false s (x :: b')); try eassumption.
          * discriminate.
          * intros y Hy. split; [apply Hbsub; assumption|apply Hbun; [reflexivity|assumption]].
          * exact (Hdone eq_refl).
      - assert (Hit : In it all') by (apply Hq; left; reflexivity).
        assert (Hq' : incl q' all') by (intros y Hy; apply Hq; right; assumption).
        destruct Hinv as [Hg [HleT [Hlef [Hpres Hsw]]]].
        destruct (process_below c Hut Harr Hao s it T Hg (proj1 run1_closed) HleT
                    (closed_wclosed c T it (closed_all' it Hit)))
          as [s' [Hps _]].
        assert (Hinv' : inv2 s').
        { eapply inv2_step; [exact Hit| |exact Hps]. exact (conj Hg (conj HleT (conj Hlef (conj Hpres Hsw)))). }
        assert (Hwfit : wf_item it) by (apply Hwf'; assumption).
        destruct (process_flags_mono c Hut Harr _ _ _ Hps) as [Hcm _].
        destruct (process_cases c _ _ _ Hps) as [s1 [E1 Hc]].
        rewrite (set_loops_same _ _ _ (Hpres it Hit)) in E1. injection E1 as <-.
        destruct Hc as [[Esub [-> Hp]]|[[Esub [Ei [-> Hp]]]|[Esub [ks [Ei [E2 Hp]]]]]]; rewrite Hp.
        + (* subscripted: dropped *)
          apply IH; try assumption.
          intros Hc y Hy. destruct (Hdone Hc y Hy) as [[<-|A]|A]; [|left; assumption|right; assumption].
          right. split; [apply Hpres; assumption|]. congruence.
        + (* deferred *)
          apply IH; try assumption.
          * intros y [<-|Hy]; [assumption|apply Hb; assumption].
          * intros y [<-|Hy]; [assumption|apply Hbsub; assumption].
          * intros Hpr y [<-|Hy]; [|apply Hbun; assumption].
            rewrite <- Ei. apply (eval_work_ext c). intro x. symmetry. apply lookup_kim_same.
          * intros Hc y Hy. destruct (Hdone Hc y Hy) as [[<-|A]|A].
            -- left. apply in_or_app. right. left; reflexivity.
            -- left. apply in_app_or in A. apply in_or_app.
               destruct A as [A|A]; [left; assumption|right; right; assumption].
            -- right; assumption.
        + (* progress *)
          apply IH; try assumption.
          * discriminate.
          * intros Hc'.
            assert (Hsw' : swallowed s' = false) by apply Hinv'.
            destruct (process_nochange c Hut Harr Hins _ _ _ Hps Hg Hwfit Hc' Hsw') as [Es Hcl].
            subst s'. intros y Hy.
            destruct (Hdone (Hcm Hc') y Hy) as [[<-|A]|A]; [|left; assumption|right; assumption].
            right. apply Hcl. right; assumption.
    Qed.

    Lemma outer_no_err : forall fuel s e, inv2 s -> outer c fuel s all' = OErr e -> False.
    Proof.
      induction fuel as [|f IH]; intros s e Hinv; cbn [outer]; [discriminate|].
      fold (reset s).
      destruct (inner c (S (List.length all') * S (S (List.length all'))) (reset s) (rev all') [] false)
        as [s'|e'|] eqn:Ei; [| |discriminate].
      - assert (Hinv' : inv2 s').
        { eapply (inner_inv c inv2 all' inv2_step); [| |apply inv2_reset; exact Hinv|exact Ei].
          - intros x Hx. apply in_rev; assumption.
          - intros x []. }
        destruct (changed s') eqn:Ec; [apply IH; assumption|].
        destruct (final_check c (tbl s') all') as [e2|] eqn:Ef; [|discriminate].
        intros _.
        (* the table of s' is closed, hence equal to T, and T passed the consistency loop *)
        destruct Hinv' as [Hg' [HleT' [Hlef' [_ Hsw']]]].
        assert (Hg0 : good c (reset s)) by apply Hinv.
        assert (Hwf0 : forall it, In it (rev all' ++ []) -> wf_item it).
        { intros it Hin. rewrite app_nil_r in Hin. apply Hwf'. apply in_rev. assumption. }
        destruct (inner_closed c Hut Harr Hins _ _ _ _ _ _ Hg0 Hwf0 Ei Ec Hsw') as [Es Hcl].
        assert (Hcl' : forall it, In it all -> stmt_wclosed c (tbl s') it).
        { intros it Hin. apply closed_wclosed. rewrite Es. apply Hcl. rewrite app_nil_r.
          apply -> in_rev. apply in_all'; assumption. }
        assert (HTle : tle T (tbl s')).
        { destruct (start_below c Hut Harr all stf (tbl s') Hlef' Hcl') as [s1' [Es1 [Hles1 _]]].
          rewrite Hstart1 in Es1. injection Es1 as <-.
          eapply (run_below c Hut Harr Hao) with (st := st1) (all := all); try eassumption. apply Hg'. }
        assert (Heq : table_equiv (tbl s') T) by (apply tle_antisym; assumption).
        assert (Hnone : final_check c (tbl s') all' = None).
        { apply final_check_none. intros it Hin.
          pose proof run1_final as Hf1. rewrite final_check_none in Hf1.
          rewrite (check_item_equiv _ _ it Heq). apply Hf1. apply in_all; assumption. }
        congruence.
      - intros _. eapply (inner_no_err _ (reset s) (rev all') [] false e'); try eassumption.
        + intros x Hx. apply in_rev; assumption.
        + intros x [].
        + intros x [].
        + intros _ x [].
        + intros _ it Hin. left. rewrite app_nil_r. apply -> in_rev. assumption.
    Qed.

  End TwoRuns.

End Full.


(* ------------------------------------------------------------------ the theorem *)

Section FullTheorem.
  Variable c : cfg.
  Hypothesis Hut : c_ut_int c = true.
  Hypothesis Harr : c_arr_int c = true.
  Hypothesis Hins : c_ins_changed c = true.
  Hypothesis Hraise : c_set_raises c = true.
  Hypothesis Hpre : c_loops_prepass c = true.
  Hypothesis Hrestart : c_restart c = true.
  Hypothesis Hao : c_arr_only c = true.
  Hypothesis Hinit : forall x, In x (c_init_global c) -> c_is_state c x = true.

  Lemma set_forced_sw : forall l st st', set_forced c st l = Ok st' -> swallowed st' = swallowed st.
  Proof.
    induction l as [|[[p x] k] r IH]; intros st st'; cbn.
    - intros [= <-]; reflexivity.
    - destruct (tset c st p x k) as [s1|e] eqn:E; [|discriminate].
      intro H. rewrite (IH _ _ H). eapply (tset_sw c); eassumption.
  Qed.

  Lemma prepass_sw : forall l st st', prepass c st l = Ok st' -> swallowed st' = swallowed st.
  Proof.
    induction l as [|it r IH]; intros st st'; cbn.
    - intros [= <-]; reflexivity.
    - destruct (set_loops c st (fst it) (b_loops (snd it))) as [s1|e] eqn:E; [|discriminate].
      intro H. rewrite (IH _ _ H). eapply (set_loops_sw c); eassumption.
  Qed.

  Lemma start_prepass : forall st l, start c st l = prepass c st l.
  Proof. intros; unfold start; rewrite Hpre; reflexivity. Qed.

  (* if one order returns a table, no other order fails *)
  Lemma no_err : forall fuel fuel' forced all all' T sw e,
    Permutation all all' ->
    (forall it, In it all -> wf_item it) ->
    (forall p x k, In (p, x, k) forced -> k <> None) ->
    run_queue c fuel forced all = OTable T sw ->
    run_queue c fuel' forced all' = OErr e -> False.
  Proof.
    intros fuel fuel' forced all all' T sw e Hperm Hwf Hforced H1 H2.
    rewrite run_queue_unfold in H1, H2.
    destruct (set_forced c (init_state c) forced) as [stf|e0] eqn:Ef; [|discriminate].
    assert (Hgf : good c stf).
    { eapply (set_forced_good c Hut Harr); [apply (init_good c Hinit)|exact Hforced|exact Ef]. }
    assert (Hsf : swallowed stf = false) by (rewrite (set_forced_sw _ _ _ Ef); reflexivity).
    destruct (start c stf all) as [st1|e1] eqn:E1; [|discriminate].
    assert (Hg1 : good c st1) by exact (start_good c Hut Harr _ _ _ Hgf E1).
    assert (Hs1 : swallowed st1 = false).
    { rewrite start_prepass in E1. rewrite (prepass_sw _ _ _ E1). assumption. }
    destruct (run1_closed c) with (st1 := st1) (all := all) (T := T) (sw1 := sw) (fuel1 := fuel)
      as [HcT [Hle1 Hcl1]]; try assumption.
    assert (Hcl1' : forall it, In it all' -> stmt_wclosed c T it).
    { intros it Hin. apply closed_wclosed. apply Hcl1.
      eapply Permutation_in; [apply Permutation_sym; exact Hperm|exact Hin]. }
    assert (HfT : tle (tbl stf) T) by exact (tle_trans _ _ _ (start_grows c Hut Harr _ _ _ Hgf E1) Hle1).
    destruct (start_below c Hut Harr all' stf T HfT Hcl1') as [st2 [E2 [Hle2 Hs2]]].
    rewrite E2 in H2.
    assert (Hg2 : good c st2) by exact (start_good c Hut Harr _ _ _ Hgf E2).
    assert (Hp2 : loops_present c (tbl st2) all').
    { rewrite start_prepass in E2. eapply (prepass_present c) with (st := stf); eassumption. }
    assert (Hf2 : tle (tbl stf) (tbl st2)) by exact (start_grows c Hut Harr _ _ _ Hgf E2).
    eapply (outer_no_err c) with (stf := stf) (st1 := st1) (all := all) (all' := all') (T := T) (sw1 := sw)
      (fuel1 := fuel) (fuel := fuel') (s := st2) (e := e); try assumption.
    split; [assumption|]. split; [assumption|]. split; [assumption|]. split; [assumption|congruence].
  Qed.

  Theorem order_independent : forall fuel fuel' forced all all',
    Permutation all all' ->
    (forall it, In it all -> wf_item it) ->
    (forall p x k, In (p, x, k) forced -> k <> None) ->
    run_queue c fuel forced all <> OOutOfFuel ->
    run_queue c fuel' forced all' <> OOutOfFuel ->
    outcome_sim (run_queue c fuel forced all) (run_queue c fuel' forced all').
  Proof.
    intros fuel fuel' forced all all' Hperm Hwf Hforced Hf1 Hf2.
    assert (Hwf' : forall it, In it all' -> wf_item it).
    { intros it Hin. apply Hwf. eapply Permutation_in; [apply Permutation_sym; exact Hperm|exact Hin]. }
    destruct (run_queue c fuel forced all) as [T sw|e|] eqn:R1;
      destruct (run_queue c fuel' forced all') as [T' sw'|e'|] eqn:R2; cbn; try contradiction; try exact I.
    - (* both return a table: no failure was swallowed (set re-raises), tables are equal *)
      assert (Hsw : sw = false /\ sw' = false).
      { rewrite run_queue_unfold in R1, R2.
        destruct (set_forced c (init_state c) forced) as [stf|e0] eqn:Ef; [|discriminate].
        assert (Hsf : swallowed stf = false) by (rewrite (set_forced_sw _ _ _ Ef); reflexivity).
        destruct (start c stf all) as [st1|e1] eqn:E1; [|discriminate].
        destruct (start c stf all') as [st2|e2] eqn:E2; [|discriminate].
        rewrite start_prepass in E1, E2.
        split.
        - eapply (run1_sw c) with (st1 := st1); try eassumption.
          rewrite (prepass_sw _ _ _ E1). assumption.
        - eapply (run1_sw c) with (st1 := st2); try eassumption.
          rewrite (prepass_sw _ _ _ E2). assumption. }
      destruct Hsw as [-> ->].
      eapply (order_independent_partial c Hut Harr Hins Hinit Hao); eassumption.
    - exfalso. eapply no_err; eassumption.
    - exfalso. eapply no_err with (all := all') (all' := all); try eassumption.
      apply Permutation_sym; assumption.
  Qed.

  (* ---------------------------------------------------------------- infer_kinds(DAGCode) *)

  Lemma combine_fst_snd : forall {A B} (l : list (A * B)), combine (map fst l) (map snd l) = l.
  Proof. induction l as [|[a b] l IH]; cbn; [reflexivity|]. rewrite IH. reflexivity. Qed.

  Lemma queue_of_perm : forall d d', Permutation d d' -> Permutation (queue_of d) (queue_of d').
  Proof.
    intros d d' H. unfold queue_of. induction H; cbn.
    - constructor.
    - apply Permutation_app_head. assumption.
    - rewrite !app_assoc. apply Permutation_app_tail. apply Permutation_app_comm.
    - eapply Permutation_trans; eassumption.
  Qed.

  Lemma in_queue_of : forall d it, In it (queue_of d) ->
    exists ph, In ph d /\ fst it = fst ph /\ In (snd it) (snd ph).
  Proof.
    intros d it H. unfold queue_of in H. apply in_flat_map in H. destruct H as [ph [Hph Hin]].
    apply in_map_iff in Hin. destruct Hin as [s [<- Hs]]. exists ph. cbn. auto.
  Qed.

  (* the table does not depend on the order in which the phases dict lists the phases (nor on
     the order of the statements inside a phase: order_independent) *)
  Theorem infer_kinds_phase_order : forall fuel fuel' dag dag',
    Permutation dag dag' ->
    (forall ph s, In ph dag -> In s (snd ph) -> stmt_ok s = true) ->
    infer_kinds c fuel dag <> OOutOfFuel ->
    infer_kinds c fuel' dag' <> OOutOfFuel ->
    outcome_sim (infer_kinds c fuel dag) (infer_kinds c fuel' dag').
  Proof.
    intros fuel fuel' dag dag' Hperm Hok. unfold infer_kinds, find_kinds. rewrite !combine_fst_snd.
    apply order_independent.
    - apply queue_of_perm; assumption.
    - intros it Hin. destruct (in_queue_of _ _ Hin) as [ph [Hph [_ Hs]]]. exact (Hok ph (snd it) Hph Hs).
    - intros p x k [].
  Qed.

End FullTheorem.
