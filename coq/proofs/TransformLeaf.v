(* C07 proofs, part 5: one leaf.  Frame property of the traced execution of loop-free
   statements, what map_expressions guarantees per statement kind, and the simulation of a leaf
   by the block of statements a pass derives from it. *)
From Coq Require Import List ZArith NArith String Ascii Bool Arith Lia Permutation.
Import ListNotations.
From Dagrt Require Import Lang LangProofs Sched Transform TransformSem TransformSide TransformBasics TransformHoist
     TransformSpec TransformMappers.

Definition nocrash (o : outcome) : Prop :=
  match o with OUserExn | OCrash => False | _ => True end.

(* outcomes that agree except on the variables N *)
Definition orel (N : list var) (o o' : outcome) : Prop :=
  match o, o' with
  | ONext a ev, ONext b ev' => same_off N a b /\ ev = ev'
  | OFail, OFail => True
  | OSwitch p, OSwitch q => p = q
  | ORaise k, ORaise j => k = j
  | OUserExn, OUserExn => True
  | OCrash, OCrash => True
  | _, _ => False
  end.

Lemma same_off_upd N a b x v : same_off N a b -> same_off N (upd a x v) (upd b x v).
Proof. intros H y Hy. unfold upd. destruct (String.eqb y x); [reflexivity|now apply H]. Qed.

Lemma same_off_sym_eq N a b x : same_off N a b -> ~ In x N -> a x = b x.
Proof. intros H Hx. symmetry. now apply H. Qed.

Section Leaf.
  Variable F : string -> list val -> list (string * val) -> option (list val).
  Variable dg : bool.

  Notation exec_kind_t := (exec_kind_t F dg).
  Notation exec_t := (exec_t F dg).
  Notation evalt := (evalt F).
  Notation evalt_list := (evalt_list F).

  Lemma same_off_assign_all N : forall xs vs a b,
    same_off N a b -> same_off N (snd (assign_all a xs vs)) (snd (assign_all b xs vs)).
  Proof.
    induction xs as [|x xs IH]; intros vs a b H; [exact H|].
    destruct vs as [|v vs]; [exact H|]. cbn [assign_all].
    specialize (IH vs _ _ (same_off_upd N a b x v H)).
    destruct (assign_all (upd a x v) xs vs), (assign_all (upd b x v) xs vs). exact IH.
  Qed.

  Lemma orel_of_rs N (r r' : rs store) :
    match r, r' with Ok a, Ok b => same_off N a b | Err u, Err u' => u = u' | _, _ => False end ->
    orel N (of_rs r) (of_rs r').
  Proof.
    destruct r as [a|[|]], r' as [b|[|]]; cbn; intros H; try contradiction; try discriminate; auto.
  Qed.

  (* ---- frame ---- *)
  Lemma exec_kind_frame N a b k :
    same_off N a b -> loopfree k = true -> (forall x, In x (kvars k) -> ~ In x N) ->
    fst (exec_kind_t a k) = fst (exec_kind_t b k) /\
    orel N (snd (exec_kind_t a k)) (snd (exec_kind_t b k)).
  Proof.
    intros H Hl Hv.
    assert (Hx : forall x, In x (kvars k) -> a x = b x).
    { intros x Hx. apply (same_off_sym_eq N); auto. }
    destruct k as [x sub rhs loops|xs f args kw|comp tid time e| | | |]; cbn [exec_kind_t];
      try (split; [reflexivity|cbn; auto]).
    - destruct loops; [|discriminate]. cbn [kvars] in Hx. unfold assign_once_t.
      assert (Er : evalt a rhs = evalt b rhs).
      { apply evalt_frame. intros y Hy. apply Hx. right. rewrite !in_app_iff. tauto. }
      rewrite Er. destruct (evalt b rhs) as [l [v|u]]; [|split; [reflexivity|destruct u; cbn; auto]].
      destruct sub as [ie|].
      + rewrite (Hx x (or_introl eq_refl)). destruct (b x) as [agg|]; [|split; [reflexivity|cbn; auto]].
        assert (Ei : evalt a ie = evalt b ie).
        { apply evalt_frame. intros y Hy. apply Hx. right. rewrite !in_app_iff. tauto. }
        rewrite Ei. destruct (evalt b ie) as [l2 [iv|u]]; [|split; [reflexivity|destruct u; cbn; auto]].
        destruct agg as [| | |arr]; try (split; [reflexivity|cbn; auto]).
        destruct iv as [i| | |]; try (split; [reflexivity|cbn; auto]).
        destruct (as_int v) as [z|]; [|split; [reflexivity|cbn; auto]].
        destruct (norm_index _ i) as [n|]; [|split; [reflexivity|cbn; auto]].
        split; [reflexivity|]. cbn. split; [|reflexivity]. now apply same_off_upd.
      + split; [reflexivity|]. cbn. split; [|reflexivity]. now apply same_off_upd.
    - cbn [kvars] in Hx.
      assert (Ea : evalt_list a args = evalt_list b args).
      { apply evalt_list_frame. intros y Hy. apply Hx. rewrite !in_app_iff. tauto. }
      assert (Ek : evalt_list a (map snd kw) = evalt_list b (map snd kw)).
      { apply evalt_list_frame. intros y Hy. apply Hx. rewrite !in_app_iff. tauto. }
      rewrite Ea. destruct (evalt_list b args) as [r1 [pos|u]]; [|split; [reflexivity|destruct u; cbn; auto]].
      rewrite Ek. destruct (evalt_list b (map snd kw)) as [r2 [kws|u]]; [|split; [reflexivity|destruct u; cbn; auto]].
      destruct (F f pos (combine (map fst kw) kws)) as [res|]; [|split; [reflexivity|cbn; auto]].
      destruct xs as [|x0 xs]; [split; [reflexivity|cbn; auto]|].
      destruct (Nat.eqb _ _); [|split; [reflexivity|cbn; auto]].
      split; [reflexivity|]. cbn [snd orel]. split; [|reflexivity]. now apply same_off_assign_all.
    - cbn [kvars] in Hx.
      assert (Et : evalt a time = evalt b time).
      { apply evalt_frame. intros y Hy. apply Hx. rewrite !in_app_iff. tauto. }
      assert (Ee : evalt a e = evalt b e).
      { apply evalt_frame. intros y Hy. apply Hx. rewrite !in_app_iff. tauto. }
      rewrite Et. destruct (evalt b time) as [r1 [t|u]]; [|split; [reflexivity|destruct u; cbn; auto]].
      rewrite Ee. destruct (evalt b e) as [r2 [v|u]]; [|split; [reflexivity|destruct u; cbn; auto]].
      split; [reflexivity|]. cbn. auto.
  Qed.

  Lemma exec_frame N a b s :
    same_off N a b -> loopfree (tkd s) = true -> (forall x, In x (svars s) -> ~ In x N) ->
    fst (exec_t a s) = fst (exec_t b s) /\ orel N (snd (exec_t a s)) (snd (exec_t b s)).
  Proof.
    intros H Hl Hv. unfold exec_t.
    assert (Ec : cond_t F a (tcond s) = cond_t F b (tcond s)).
    { apply cond_t_frame. intros x Hx. apply (same_off_sym_eq N); auto. apply Hv. unfold svars.
      apply in_app_iff. now left. }
    rewrite Ec. destruct (cond_t F b (tcond s)) as [r [[|]|u]].
    - destruct (exec_kind_frame N a b (tkd s) H Hl) as [E1 E2].
      { intros x Hx. apply Hv. unfold svars. apply in_app_iff. now right. }
      destruct (exec_kind_t a (tkd s)) as [la oa], (exec_kind_t b (tkd s)) as [lb ob]. cbn in *. now subst.
    - split; [reflexivity|]. cbn. auto.
    - split; [reflexivity|]. destruct u; cbn; auto.
  Qed.

  (* ---- hoisting out of a statement kind ---- *)
  Definition khoisted (cond : expr) (k k' : skind) (ns : list tstmt) (N : list var) : Prop :=
    forall s L o,
      cond_t F s cond = ([], Ok true) -> exec_kind_t s k = (L, o) -> nocrash o ->
      exists L1 s1 L2 o',
        exec_list F dg ns s = Some (L1, s1) /\ same_off N s s1 /\
        exec_kind_t s1 k' = (L2, o') /\ orel N o o' /\ Permutation (L1 ++ L2) L.

  Lemma orel_refl N o : orel N o o.
  Proof. destruct o; cbn; auto. split; [apply same_off_refl|reflexivity]. Qed.

  Lemma khoisted_id cond k : khoisted cond k k [] [].
  Proof.
    intros s L o _ He _. exists [], s, L, o.
    split; [reflexivity|split; [apply same_off_refl|split; [exact He|split; [apply orel_refl|apply Permutation_refl]]]].
  Qed.

  Lemma khoisted_assign0 cond x rhs rhs' ns N :
    hoisted F dg cond rhs rhs' ns N ->
    khoisted cond (KAssign x None rhs []) (KAssign x None rhs' []) ns N.
  Proof.
    intros H s L o Hc He Hn. cbn [exec_kind_t] in He. unfold assign_once_t in He.
    destruct (evalt s rhs) as [Lr [v|u]] eqn:Er; [|inversion He; subst; destruct u; contradiction].
    inversion He; subst L o. clear He.
    destruct (H s Lr v Hc Er) as (L1 & s1 & L2 & X1 & X2 & X3 & X4).
    exists L1, s1, L2, (ONext (upd s1 x v) None). split; [exact X1|split; [exact X2|split; [|split; [|exact X4]]]].
    - cbn [exec_kind_t]. unfold assign_once_t. rewrite X3. reflexivity.
    - cbn. split; [now apply same_off_upd|reflexivity].
  Qed.

  Lemma evalt_list_two s a b La va Lb vb :
    evalt s a = (La, Ok va) -> evalt s b = (Lb, Ok vb) ->
    evalt_list s [a; b] = (La ++ Lb ++ [], Ok [va; vb]).
  Proof. intros Ea Eb. cbn [TransformSem.evalt_list]. rewrite Ea, Eb. reflexivity. Qed.

  Lemma evalt_list_two_inv s a b L va vb :
    evalt_list s [a; b] = (L, Ok [va; vb]) ->
    exists La Lb, evalt s a = (La, Ok va) /\ evalt s b = (Lb, Ok vb) /\ L = La ++ Lb ++ [].
  Proof.
    cbn [TransformSem.evalt_list]. destruct (evalt s a) as [La [va'|u]]; [|discriminate].
    destruct (evalt s b) as [Lb [vb'|u]]; cbn; [|discriminate].
    intros H. inversion H; subst. exists La, Lb. repeat split; reflexivity.
  Qed.

  Lemma khoisted_assign1 cond x ie ie' rhs rhs' ns N :
    hoisted_list F dg cond [ie; rhs] [ie'; rhs'] ns N -> ~ In x N ->
    khoisted cond (KAssign x (Some ie) rhs []) (KAssign x (Some ie') rhs' []) ns N.
  Proof.
    intros H Hx s L o Hc He Hn. cbn [exec_kind_t] in He. unfold assign_once_t in He.
    destruct (evalt s rhs) as [Lr [v|u]] eqn:Er; [|inversion He; subst; destruct u; contradiction].
    destruct (s x) as [agg|] eqn:Ex; [|inversion He; subst; contradiction].
    destruct (evalt s ie) as [Li [iv|u]] eqn:Ei; [|inversion He; subst; destruct u; contradiction].
    destruct (H s _ _ Hc (evalt_list_two s ie rhs Li iv Lr v Ei Er)) as (L1 & s1 & L2 & X1 & X2 & X3 & X4).
    apply evalt_list_two_inv in X3. destruct X3 as (Li2 & Lr2 & Ei2 & Er2 & ->).
    assert (Ex1 : s1 x = Some agg) by (rewrite <- Ex; now apply X2).
    assert (P : Permutation (L1 ++ Lr2 ++ Li2) (Lr ++ Li)).
    { rewrite !app_nil_r in X4. rewrite (Permutation_app_comm Lr Li). rewrite <- X4.
      apply Permutation_app_head. apply Permutation_app_comm. }
    destruct agg as [| | |arr];
      try (inversion He; subst; contradiction).
    destruct iv as [i| | |]; try (inversion He; subst; contradiction).
    destruct (as_int v) as [z|] eqn:Ez; [|inversion He; subst; contradiction].
    destruct (norm_index (Z.of_nat (List.length arr)) i) as [n|] eqn:En; [|inversion He; subst; contradiction].
    inversion He; subst L o. clear He.
    exists L1, s1, (Lr2 ++ Li2), (ONext (upd s1 x (VArr (set_nth arr n z))) None).
    split; [exact X1|split; [exact X2|split; [|split; [|exact P]]]].
    - cbn [exec_kind_t]. unfold assign_once_t. rewrite Er2, Ex1, Ei2, Ez, En. reflexivity.
    - cbn. split; [now apply same_off_upd|reflexivity].
  Qed.

  Lemma app_inv_length {A} (a a' b b' : list A) :
    a ++ b = a' ++ b' -> List.length a = List.length a' -> a = a' /\ b = b'.
  Proof.
    revert a'. induction a as [|x a IH]; intros [|y a'] H Hl; try discriminate; [auto|].
    cbn in H. inversion H; subst. destruct (IH a' H2) as [-> ->]; [cbn in Hl; lia|auto].
  Qed.

  Lemma khoisted_call cond xs fn args kw l' ns N p kv :
    hoisted_list F dg cond (args ++ map snd kw) l' ns N ->
    split_at (List.length l' - List.length kw) l' = (p, kv) ->
    List.length l' = (List.length args + List.length kw)%nat ->
    khoisted cond (KCall xs fn args kw) (KCall xs fn p (combine (map fst kw) kv)) ns N.
  Proof.
    intros H Hsp Hlen s L o Hc He Hn. cbn [exec_kind_t] in He.
    destruct (evalt_list s args) as [r1 [pos|u]] eqn:Ea; [|inversion He; subst; destruct u; contradiction].
    destruct (evalt_list s (map snd kw)) as [r2 [kws|u]] eqn:Ek; [|inversion He; subst; destruct u; contradiction].
    assert (El : evalt_list s (args ++ map snd kw) = (r1 ++ r2, Ok (pos ++ kws))).
    { rewrite evalt_list_app, Ea, Ek. reflexivity. }
    destruct (H s _ _ Hc El) as (L1 & s1 & L2 & X1 & X2 & X3 & X4).
    apply split_at_spec in Hsp. destruct Hsp as [Hl' Hp].
    assert (Hkv : List.length kv = List.length kw).
    { assert (List.length l' = List.length p + List.length kv)%nat by (rewrite Hl'; apply app_length). lia. }
    rewrite Hl' in X3. apply evalt_list_app_inv in X3.
    destruct X3 as (q1 & a & q2 & b & Ep & Ekv & -> & Hab).
    pose proof (evalt_list_length F _ _ _ _ Ep) as La. pose proof (evalt_list_length F _ _ _ _ Ekv) as Lb.
    pose proof (evalt_list_length F _ _ _ _ Ea) as Lpos.
    assert (Hsplit : pos = a /\ kws = b).
    { apply app_inv_length; [exact Hab|].
      assert (List.length l' = List.length p + List.length kv)%nat by (rewrite Hl'; apply app_length). lia. }
    destruct Hsplit as [-> ->].
    assert (Hk1 : map snd (combine (map fst kw) kv) = kv) by (apply combine_snd; rewrite map_length; lia).
    assert (Hk2 : map fst (combine (map fst kw) kv) = map fst kw) by (apply combine_fst; rewrite map_length; lia).
    set (c := (fn, a, combine (map fst kw) b)) in *.
    assert (P : Permutation (L1 ++ q1 ++ q2 ++ [c]) (r1 ++ r2 ++ [c])).
    { rewrite !app_assoc. apply Permutation_app_tail. rewrite <- app_assoc. exact X4. }
    destruct (F fn a (combine (map fst kw) b)) as [res|] eqn:EF; [|inversion He; subst; contradiction].
    destruct xs as [|x0 xs].
    - inversion He; subst L o. clear He.
      exists L1, s1, (q1 ++ q2 ++ [c]), (ONext s1 None).
      split; [exact X1|split; [exact X2|split; [|split; [|exact P]]]].
      + cbn [exec_kind_t]. rewrite Ep, Hk1, Ekv, Hk2. fold c. rewrite EF. reflexivity.
      + cbn. split; [exact X2|reflexivity].
    - destruct (Nat.eqb (List.length (x0 :: xs)) (List.length res)) eqn:En; [|inversion He; subst; contradiction].
      injection He as HL Ho. subst L o.
      exists L1, s1, (q1 ++ q2 ++ [c]), (ONext (snd (assign_all s1 (x0 :: xs) res)) None).
      split; [exact X1|split; [exact X2|split; [|split; [|exact P]]]].
      + cbn [exec_kind_t]. rewrite Ep, Hk1, Ekv, Hk2. fold c. rewrite EF, En. reflexivity.
      + pose proof (same_off_assign_all N (x0 :: xs) res s s1 X2) as A.
        cbn [orel]. split; [exact A|reflexivity].
  Qed.

  Lemma khoisted_yield cond comp tid time time' e e' ns N :
    hoisted_list F dg cond [e; time] [e'; time'] ns N ->
    khoisted cond (KYield comp tid time e) (KYield comp tid time' e') ns N.
  Proof.
    intros H s L o Hc He Hn. cbn [exec_kind_t] in He.
    destruct (evalt s time) as [Lt [t|u]] eqn:Et; [|inversion He; subst; destruct u; contradiction].
    destruct (evalt s e) as [Le [v|u]] eqn:Ee; [|inversion He; subst; destruct u; contradiction].
    inversion He; subst L o. clear He.
    destruct (H s _ _ Hc (evalt_list_two s e time Le v Lt t Ee Et)) as (L1 & s1 & L2 & X1 & X2 & X3 & X4).
    apply evalt_list_two_inv in X3. destruct X3 as (Le2 & Lt2 & Ee2 & Et2 & ->).
    exists L1, s1, (Lt2 ++ Le2), (ONext s1 (Some (EvYield comp tid t v))).
    split; [exact X1|split; [exact X2|split; [|split]]].
    - cbn [exec_kind_t]. rewrite Et2, Ee2. reflexivity.
    - cbn. split; [exact X2|reflexivity].
    - rewrite !app_nil_r in X4. rewrite (Permutation_app_comm Lt Le). rewrite <- X4.
      apply Permutation_app_head. apply Permutation_app_comm.
  Qed.

  (* ---- the simulation relation on runs, and one leaf against its block ---- *)
  Definition srel (N : list var) (S S' : trun) : Prop :=
    match S, S' with
    | TRun a e l, TRun b e' l' => same_off N a b /\ e = e' /\ Permutation l l'
    | TStop a e l w, TStop b e' l' w' => same_off N a b /\ e = e' /\ Permutation l l' /\ w = w'
    | TCrash _, _ => True
    | _, _ => False
    end.

  Lemma srel_refl N S : srel N S S.
  Proof.
    destruct S; cbn; auto.
    - split; [apply same_off_refl|split; [reflexivity|apply Permutation_refl]].
    - split; [apply same_off_refl|split; [reflexivity|split; [apply Permutation_refl|reflexivity]]].
  Qed.

  Lemma same_off_trans' N a b c : same_off N a b -> same_off N b c -> same_off N a c.
  Proof. intros H1 H2 x Hx. rewrite H2 by exact Hx. now apply H1. Qed.

  Lemma srel_trans N S1 S2 S3 : srel N S1 S2 -> srel N S2 S3 -> srel N S1 S3.
  Proof.
    destruct S1 as [a e l|a e l w|u]; cbn; [| |auto].
    - destruct S2 as [b e2 l2|?|?]; cbn; try contradiction. destruct S3 as [c e3 l3|?|?]; cbn; try tauto.
      intros (A & -> & C) (A' & -> & C'). split; [eapply same_off_trans'; eauto|split; [reflexivity|]].
      eapply Permutation_trans; eauto.
    - destruct S2 as [?|b e2 l2 w2|?]; cbn; try contradiction. destruct S3 as [?|c e3 l3 w3|?]; cbn; try tauto.
      intros (A & -> & C & ->) (A' & -> & C' & ->).
      split; [eapply same_off_trans'; eauto|split; [reflexivity|split; [eapply Permutation_trans; eauto|reflexivity]]].
  Qed.

  Lemma srel_incl N N' S S' : incl N N' -> srel N S S' -> srel N' S S'.
  Proof.
    intros Hi. destruct S as [a e l|a e l w|u], S' as [b e' l'|b e' l' w'|u']; cbn; try tauto.
    - intros (A & B & C). split; [eapply same_off_incl; eauto|auto].
    - intros (A & B & C). split; [eapply same_off_incl; eauto|auto].
  Qed.

  Notation run_block := (fold_left (fun S x => run_tree F dg x S)).

  Lemma leaf_block cond k k' ns N id deps deps' s evs log :
    has_call cond = false ->
    khoisted cond k k' ns N ->
    Forall (fun n => gext cond (tcond n)) ns ->
    (forall x, In x N -> ~ In x (vars cond)) ->
    srel N (step_t F dg (mkT id deps cond k) (TRun s evs log))
           (run_block (map TLeaf (ns ++ [mkT id deps' cond k'])) (TRun s evs log)).
  Proof.
    intros Hnc Hk Hg Hd. cbn [step_t]. unfold TransformSem.exec_t at 1. cbn [tcond tkd].
    pose proof (nocall_cond F cond s Hnc) as Hlog.
    destruct (cond_t F s cond) as [r [[|]|u]] eqn:Ec; cbn in Hlog; subst r.
    - (* the guard holds *)
      destruct (exec_kind_t s k) as [L o] eqn:Ek.
      assert (Hcr : nocrash o \/ ~ nocrash o) by (destruct o; cbn; auto).
      destruct Hcr as [Hn|Hn]; [|destruct o; cbn in *; try tauto].
      destruct (Hk s L o Ec Ek Hn) as (L1 & s1 & L2 & o' & X1 & X2 & X3 & X4 & X5).
      rewrite map_app. rewrite (run_leaves F dg ns s L1 s1 evs log _ X1). cbn [map fold_left run_tree step_t].
      unfold TransformSem.exec_t. cbn [tcond tkd].
      assert (Ec1 : cond_t F s1 cond = ([], Ok true)).
      { rewrite <- Ec. apply cond_t_frame. intros x Hx. apply X2. intros Hin. now apply (Hd x Hin). }
      rewrite Ec1, X3. cbn [app].
      assert (P : Permutation (log ++ L) ((log ++ L1) ++ L2)).
      { rewrite <- app_assoc. apply Permutation_app_head. now apply Permutation_sym. }
      destruct o, o'; cbn in X4; try contradiction; cbn.
      + destruct X4 as [A ->]. repeat split; auto.
      + repeat split; auto.
      + subst. repeat split; auto.
      + subst. repeat split; auto.
    - (* the guard fails: nothing runs *)
      assert (Hall : Forall (fun n => gext cond (tcond n)) (ns ++ [mkT id deps' cond k'])).
      { apply Forall_app. split; [exact Hg|]. constructor; [apply gext_refl|constructor]. }
      pose proof (exec_list_skip F dg cond _ s Hall Ec) as Hs.
      pose proof (run_leaves F dg _ s [] s evs log [] Hs) as Hr. rewrite app_nil_r in Hr. rewrite Hr.
      cbn [fold_left ev_list]. cbn. rewrite !app_nil_r. repeat split; auto using same_off_refl.
    - cbn. destruct u; exact I.
  Qed.
End Leaf.
