(* Proofs about model/FortranPrinter.v: what FortranExpressionMapper prints for a tree of logical
   operators is read by Fortran's grammar as an expression with the same value, for every valuation
   of the atoms -- provided the six precedence numbers of the printer satisfy prec_ok. *)
From Coq Require Import List Arith Bool Lia.
Import ListNotations.
From Dagrt Require Import FortranPrinter.

Section bexp_ind'.
  Variable P : bexp -> Prop.
  Hypothesis HAtom : forall n, P (BAtom n).
  Hypothesis HNot : forall a, P a -> P (BNot a).
  Hypothesis HAnd : forall l, Forall P l -> P (BAnd l).
  Hypothesis HOr : forall l, Forall P l -> P (BOr l).
  Fixpoint bexp_ind' (e : bexp) : P e :=
    match e with
    | BAtom n => HAtom n
    | BNot a => HNot a (bexp_ind' a)
    | BAnd l => HAnd l ((fix go (l : list bexp) : Forall P l :=
                           match l with [] => Forall_nil P | x :: r => Forall_cons x (bexp_ind' x) (go r) end) l)
    | BOr l => HOr l ((fix go (l : list bexp) : Forall P l :=
                         match l with [] => Forall_nil P | x :: r => Forall_cons x (bexp_ind' x) (go r) end) l)
    end.
End bexp_ind'.

Definition stop (r : list tok) : Prop := match r with TAnd :: _ | TOr :: _ => False | _ => True end.
Definition not_and (r : list tok) : Prop := match r with TAnd :: _ => False | _ => True end.

Lemma height_child l c : In c l -> height c <= fold_right (fun c m => Nat.max (height c) m) 0 l.
Proof. induction l as [|x l IH]; cbn; [intros []|]. intros [->|H]; [lia|]. specialize (IH H). lia. Qed.

Section Round.
  Variable v : nat -> bool.
  Variables or_child or_own and_child and_own not_child not_own : nat.
  Hypothesis Hok : prec_ok or_child or_own and_child and_own not_child not_own = true.

  Notation P := (bprint or_child or_own and_child and_own not_child not_own).
  Notation bv := (beval v).

  Lemma ok_or_and : or_own <? and_child = true.
  Proof. unfold prec_ok in Hok. rewrite !andb_true_iff in Hok. tauto. Qed.
  Lemma ok_or_not : or_own <? not_child = true.
  Proof. unfold prec_ok in Hok. rewrite !andb_true_iff in Hok. tauto. Qed.
  Lemma ok_and_not : and_own <? not_child = true.
  Proof. unfold prec_ok in Hok. rewrite !andb_true_iff in Hok. tauto. Qed.

  Lemma paren0 mine ts : paren 0 mine ts = ts.
  Proof. unfold paren. destruct (mine <? 0) eqn:E; [apply Nat.ltb_lt in E; lia|reflexivity]. Qed.

  (* is the print of c at precedence q wrapped in parentheses *)
  Definition parenth (q : nat) (c : bexp) : bool :=
    match c with
    | BAtom _ => false
    | BNot _ => not_own <? q
    | BAnd _ => and_own <? q
    | BOr _ => or_own <? q
    end.

  Lemma print_paren q c : parenth q c = true -> P q c = TLP :: P 0 c ++ [TRP].
  Proof.
    destruct c; cbn [parenth bprint]; try discriminate; intros H; rewrite paren0; unfold paren; rewrite H;
      reflexivity.
  Qed.

  (* number of .and.-operands / .or.-operands the print of c contributes to an enclosing chain *)
  Fixpoint acount (q : nat) (c : bexp) : nat :=
    match c with
    | BAnd l => if and_own <? q then 1 else fold_right (fun x n => acount and_child x + n) 0 l
    | _ => 1
    end.
  Fixpoint ocount (q : nat) (c : bexp) : nat :=
    match c with
    | BOr l => if or_own <? q then 1 else fold_right (fun x n => ocount or_child x + n) 0 l
    | _ => 1
    end.

  Lemma join_cons sep x (l : list (list tok)) : l <> [] -> join sep (x :: l) = x ++ sep :: join sep l.
  Proof. destruct l; [congruence|reflexivity]. Qed.

  Lemma paren_length q mine ts : length ts <= length (paren q mine ts).
  Proof. unfold paren. destruct (mine <? q); cbn; [rewrite app_length; cbn; lia|lia]. Qed.

  Lemma sum_le (f g : bexp -> nat) (l : list bexp) :
    Forall (fun x => f x <= g x) l ->
    fold_right (fun x n => f x + n) 0 l <= fold_right (fun x n => g x + n) 0 l.
  Proof. induction 1; cbn; lia. Qed.

  Lemma join_map_length sep q (l : list bexp) :
    fold_right (fun x n => length (P q x) + n) 0 l <= length (join sep (map (P q) l)).
  Proof.
    induction l as [|x [|y l] IH]; cbn [map join fold_right length] in *; [lia|lia|].
    rewrite app_length. cbn [length]. lia.
  Qed.

  Lemma counts c : wf c = true ->
    forall q, 1 <= length (P q c) /\ acount q c <= length (P q c) /\ ocount q c <= length (P q c).
  Proof.
    induction c as [n|a IH|l IH|l IH] using bexp_ind'; intros Hwf q.
    - cbn. lia.
    - cbn [bprint acount ocount].
      assert (1 <= length (paren q not_own (TNot :: P not_child a)))
        by (eapply Nat.le_trans; [|apply paren_length]; cbn; lia). lia.
    - cbn [wf] in Hwf. apply andb_true_iff in Hwf. destruct Hwf as [Hne Hall].
      rewrite forallb_forall in Hall.
      assert (IH' : Forall (fun x => forall q, 1 <= length (P q x) /\ acount q x <= length (P q x)
                                               /\ ocount q x <= length (P q x)) l).
      { rewrite Forall_forall in *. intros x Hx. apply IH; auto. }
      assert (Hj : 1 <= length (join TAnd (map (P and_child) l))
                   /\ fold_right (fun x n => acount and_child x + n) 0 l <= length (join TAnd (map (P and_child) l))).
      { split.
        - destruct l as [|x l]; [discriminate|]. inversion IH' as [|? ? Hx _]; subst.
          eapply Nat.le_trans; [|apply (join_map_length TAnd and_child (x :: l))]. cbn [fold_right].
          specialize (Hx and_child). lia.
        - eapply Nat.le_trans; [|apply join_map_length]. apply sum_le.
          eapply Forall_impl; [|exact IH']. intros x Hx. apply Hx. }
      cbn [bprint acount ocount]. pose proof (paren_length q and_own (join TAnd (map (P and_child) l))).
      destruct (and_own <? q); lia.
    - cbn [wf] in Hwf. apply andb_true_iff in Hwf. destruct Hwf as [Hne Hall].
      rewrite forallb_forall in Hall.
      assert (IH' : Forall (fun x => forall q, 1 <= length (P q x) /\ acount q x <= length (P q x)
                                               /\ ocount q x <= length (P q x)) l).
      { rewrite Forall_forall in *. intros x Hx. apply IH; auto. }
      assert (Hj : 1 <= length (join TOr (map (P or_child) l))
                   /\ fold_right (fun x n => ocount or_child x + n) 0 l <= length (join TOr (map (P or_child) l))).
      { split.
        - destruct l as [|x l]; [discriminate|]. inversion IH' as [|? ? Hx _]; subst.
          eapply Nat.le_trans; [|apply (join_map_length TOr or_child (x :: l))]. cbn [fold_right].
          specialize (Hx or_child). lia.
        - eapply Nat.le_trans; [|apply join_map_length]. apply sum_le.
          eapply Forall_impl; [|exact IH']. intros x Hx. apply Hx. }
      cbn [bprint acount ocount]. pose proof (paren_length q or_own (join TOr (map (P or_child) l))).
      destruct (or_own <? q); lia.
  Qed.

  Definition lift2 (f : bool -> bool) (o : option (bool * list tok)) : option (bool * list tok) :=
    match o with Some (b, r) => Some (f b, r) | None => None end.

  (* ---- one level of parentheses: `top` already reads everything of height < H ---- *)
  Section Level.
    Variable T : list tok -> option (bool * list tok).
    Variable H : nat.
    Hypothesis HT : forall e0 r, wf e0 = true -> height e0 < H -> stop r -> T (P 0 e0 ++ r) = Some (bv e0, r).

    Lemma prim_paren c r : wf c = true -> height c < H ->
      e_prim v T (TLP :: P 0 c ++ TRP :: r) = Some (bv c, r).
    Proof. intros Hw Hh. cbn [e_prim]. rewrite HT; auto. exact I. Qed.

    Lemma paren_app q c r : parenth q c = true -> P q c ++ r = TLP :: P 0 c ++ TRP :: r.
    Proof. intros Hp. rewrite (print_paren q c Hp). cbn [app]. now rewrite <- app_assoc. Qed.

    (* printed forms that are a single .and.-operand: atoms, negations, anything in parentheses *)
    Definition tight (q : nat) (c : bexp) : bool :=
      match c with BAtom _ | BNot _ => true | BAnd _ => and_own <? q | BOr _ => or_own <? q end.

    Lemma tight_ok q c r :
      wf c = true -> height c <= H -> (parenth q c = true -> height c < H) -> tight q c = true ->
      e_not v T (P q c ++ r) = Some (bv c, r).
    Proof.
      intros Hw Hh Hp Ht. destruct c as [n|a|l|l].
      - reflexivity.
      - destruct (parenth q (BNot a)) eqn:Ep.
        + rewrite (paren_app q _ r Ep). cbn [e_not]. apply prim_paren; auto.
        + cbn [parenth] in Ep. cbn [bprint]. unfold paren. rewrite Ep. cbn [app e_not].
          cbn [wf] in Hw. apply andb_true_iff in Hw. destruct Hw as [Hwa Hnn]. cbn [height] in Hh.
          destruct a as [n|a'|l|l].
          * reflexivity.
          * discriminate.
          * rewrite (paren_app not_child (BAnd l) r ok_and_not), prim_paren; auto; lia.
          * rewrite (paren_app not_child (BOr l) r ok_or_not), prim_paren; auto; lia.
      - cbn [tight] in Ht. rewrite (paren_app q (BAnd l) r Ht). cbn [e_not]. apply prim_paren; auto.
      - cbn [tight] in Ht. rewrite (paren_app q (BOr l) r Ht). cbn [e_not]. apply prim_paren; auto.
    Qed.

    Lemma and_tight ts b k r :
      e_not v T (ts ++ r) = Some (b, r) -> 1 <= k ->
      e_and v T k (ts ++ r) =
      match r with TAnd :: r2 => lift2 (andb b) (e_and v T (k - 1) r2) | _ => Some (b, r) end.
    Proof.
      intros E Hk. destruct k as [|k]; [lia|]. cbn [e_and]. rewrite E. replace (S k - 1) with k by lia.
      destruct r as [|[] r2]; reflexivity.
    Qed.

    Definition andable (q : nat) (c : bexp) : bool := match c with BOr _ => or_own <? q | _ => true end.

    Definition and_stmt (c : bexp) : Prop :=
      forall q k r, wf c = true -> height c <= H -> (parenth q c = true -> height c < H) ->
        andable q c = true -> acount q c <= k ->
        e_and v T k (P q c ++ r) =
        match r with TAnd :: r2 => lift2 (andb (bv c)) (e_and v T (k - acount q c) r2) | _ => Some (bv c, r) end.

    Lemma and_chain : forall l, l <> [] -> Forall and_stmt l ->
      (forall c, In c l -> wf c = true /\ height c < H) ->
      forall k r, fold_right (fun x n => acount and_child x + n) 0 l <= k ->
        e_and v T k (join TAnd (map (P and_child) l) ++ r) =
        match r with
        | TAnd :: r2 => lift2 (andb (forallb bv l))
                              (e_and v T (k - fold_right (fun x n => acount and_child x + n) 0 l) r2)
        | _ => Some (forallb bv l, r)
        end.
    Proof.
      induction l as [|x l IH]; intros Hne Hall Hch k r Hk; [congruence|].
      inversion Hall as [|? ? Hx Hl]; subst.
      destruct (Hch x (or_introl eq_refl)) as [Hwx Hhx].
      assert (Hax : andable and_child x = true) by (destruct x; try reflexivity; apply ok_or_and).
      destruct l as [|y l].
      - cbn [map join fold_right forallb] in *. rewrite Nat.add_0_r in *. rewrite andb_true_r.
        apply Hx; auto; lia.
      - change (map (P and_child) (x :: y :: l)) with (P and_child x :: map (P and_child) (y :: l)).
        rewrite join_cons by discriminate. rewrite <- app_assoc. cbn [app].
        change (fold_right (fun x n => acount and_child x + n) 0 (x :: y :: l))
          with (acount and_child x + fold_right (fun x n => acount and_child x + n) 0 (y :: l)) in *.
        set (s' := fold_right (fun x n => acount and_child x + n) 0 (y :: l)) in *.
        rewrite (Hx and_child k (TAnd :: join TAnd (map (P and_child) (y :: l)) ++ r)); auto; try lia.
        rewrite (IH ltac:(discriminate) Hl (fun c Hc => Hch c (or_intror Hc)) (k - acount and_child x) r) by lia.
        fold s'. change (forallb bv (x :: y :: l)) with (bv x && forallb bv (y :: l)).
        destruct r as [|[] r2]; try reflexivity.
        rewrite Nat.sub_add_distr. unfold lift2.
        destruct (e_and v T (k - acount and_child x - s') r2) as [[b2 r3]|]; [|reflexivity].
        now rewrite andb_assoc.
    Qed.

    Lemma and_operand c : and_stmt c.
    Proof.
      induction c as [n|a IH|l IH|l IH] using bexp_ind'; intros q k r Hw Hh Hp Ha Hk.
      - apply (and_tight (P q (BAtom n))); [apply tight_ok; auto|exact Hk].
      - apply (and_tight (P q (BNot a))); [apply tight_ok; auto|exact Hk].
      - cbn [acount] in *. destruct (and_own <? q) eqn:Ep.
        + apply (and_tight (P q (BAnd l))); [apply tight_ok; auto|exact Hk].
        + cbn [bprint beval]. unfold paren. rewrite Ep.
          cbn [wf] in Hw. apply andb_true_iff in Hw. destruct Hw as [Hne Hall].
          rewrite forallb_forall in Hall.
          apply and_chain; auto.
          * destruct l; [discriminate|congruence].
          * intros c Hc. split; [apply Hall, Hc|]. cbn [height] in Hh. pose proof (height_child l c Hc). lia.
      - cbn [andable] in Ha. apply (and_tight (P q (BOr l))); [apply tight_ok; auto|exact Hk].
    Qed.

    (* ---- the .or. level ---- *)
    Lemma or_single ts b k r :
      e_and v T k (ts ++ r) = Some (b, r) -> not_and r -> 1 <= k ->
      e_or v T k (ts ++ r) =
      match r with TOr :: r2 => lift2 (orb b) (e_or v T (k - 1) r2) | _ => Some (b, r) end.
    Proof.
      intros E Hr Hk. destruct k as [|k]; [lia|]. cbn [e_or]. rewrite E. replace (S k - 1) with k by lia.
      destruct r as [|[] r2]; reflexivity.
    Qed.

    Definition or_stmt (c : bexp) : Prop :=
      forall q k r, wf c = true -> height c <= H -> (parenth q c = true -> height c < H) ->
        not_and r -> length (P q c) <= k ->
        e_or v T k (P q c ++ r) =
        match r with TOr :: r2 => lift2 (orb (bv c)) (e_or v T (k - ocount q c) r2) | _ => Some (bv c, r) end.

    Lemma or_andable q c k r :
      wf c = true -> height c <= H -> (parenth q c = true -> height c < H) -> andable q c = true ->
      not_and r -> length (P q c) <= k ->
      e_or v T k (P q c ++ r) =
      match r with TOr :: r2 => lift2 (orb (bv c)) (e_or v T (k - 1) r2) | _ => Some (bv c, r) end.
    Proof.
      intros Hw Hh Hp Ha Hr Hk. destruct (counts c Hw q) as (H1 & H2 & _).
      apply or_single; auto; [|lia].
      rewrite (and_operand c q k r); auto; [|lia]. destruct r as [|[] r2]; try reflexivity. destruct Hr.
    Qed.

    Lemma or_chain : forall l, l <> [] -> Forall or_stmt l ->
      (forall c, In c l -> wf c = true /\ height c < H) ->
      forall k r, not_and r -> length (join TOr (map (P or_child) l)) <= k ->
        e_or v T k (join TOr (map (P or_child) l) ++ r) =
        match r with
        | TOr :: r2 => lift2 (orb (existsb bv l))
                             (e_or v T (k - fold_right (fun x n => ocount or_child x + n) 0 l) r2)
        | _ => Some (existsb bv l, r)
        end.
    Proof.
      induction l as [|x l IH]; intros Hne Hall Hch k r Hr Hk; [congruence|].
      inversion Hall as [|? ? Hx Hl]; subst.
      destruct (Hch x (or_introl eq_refl)) as [Hwx Hhx].
      destruct l as [|y l].
      - cbn [map join fold_right existsb] in *. rewrite Nat.add_0_r in *. rewrite orb_false_r.
        apply Hx; auto; lia.
      - change (map (P or_child) (x :: y :: l)) with (P or_child x :: map (P or_child) (y :: l)) in *.
        rewrite join_cons in * by discriminate. rewrite <- app_assoc. cbn [app].
        rewrite app_length in Hk. cbn [length] in Hk.
        destruct (counts x Hwx or_child) as (_ & _ & Hox).
        change (fold_right (fun x n => ocount or_child x + n) 0 (x :: y :: l))
          with (ocount or_child x + fold_right (fun x n => ocount or_child x + n) 0 (y :: l)).
        set (s' := fold_right (fun x n => ocount or_child x + n) 0 (y :: l)).
        rewrite (Hx or_child k (TOr :: join TOr (map (P or_child) (y :: l)) ++ r)); auto; try lia; [|exact I].
        rewrite (IH ltac:(discriminate) Hl (fun c Hc => Hch c (or_intror Hc)) (k - ocount or_child x) r Hr) by lia.
        fold s'. change (existsb bv (x :: y :: l)) with (bv x || existsb bv (y :: l)).
        destruct r as [|[] r2]; try reflexivity.
        rewrite Nat.sub_add_distr. unfold lift2.
        destruct (e_or v T (k - ocount or_child x - s') r2) as [[b2 r3]|]; [|reflexivity].
        now rewrite orb_assoc.
    Qed.

    Lemma or_operand c : or_stmt c.
    Proof.
      induction c as [n|a IH|l IH|l IH] using bexp_ind'; intros q k r Hw Hh Hp Hr Hk.
      - apply or_andable; auto.
      - apply or_andable; auto.
      - apply or_andable; auto.
      - cbn [ocount]. destruct (or_own <? q) eqn:Ep.
        + apply or_andable; auto.
        + cbn [bprint beval] in *. unfold paren in *. rewrite Ep in *.
          cbn [wf] in Hw. apply andb_true_iff in Hw. destruct Hw as [Hne Hall].
          rewrite forallb_forall in Hall.
          apply or_chain; auto.
          * destruct l; [discriminate|congruence].
          * intros c Hc. split; [apply Hall, Hc|]. cbn [height] in Hh. pose proof (height_child l c Hc). lia.
    Qed.

    (* what is not in parentheses at this level is read correctly *)
    Lemma level_ok e r : wf e = true -> height e <= H -> stop r ->
      e_or v T (length (P 0 e ++ r)) (P 0 e ++ r) = Some (bv e, r).
    Proof.
      intros Hw Hh Hs.
      assert (Hp : parenth 0 e = true -> height e < H).
      { destruct e; cbn; intros E; try discriminate; apply Nat.ltb_lt in E; lia. }
      rewrite (or_operand e 0 (length (P 0 e ++ r)) r Hw Hh Hp).
      - destruct r as [|[] r2]; try reflexivity; destruct Hs.
      - destruct r as [|[] r2]; try exact I; destruct Hs.
      - rewrite app_length. lia.
    Qed.
  End Level.

  (* ---- any nesting depth ---- *)
  Theorem top_ok : forall f e r, wf e = true -> height e <= f -> stop r ->
    e_top v (S f) (P 0 e ++ r) = Some (bv e, r).
  Proof.
    induction f as [|f IH]; intros e r Hw Hh Hs; cbn [e_top].
    - apply (level_ok (fun _ => None) 0); auto. intros e0 r0 _ Hlt. lia.
    - apply (level_ok (e_top v (S f)) (S f)); auto.
      intros e0 r0 Hw0 Hh0 Hs0. apply IH; auto. lia.
  Qed.

  Lemma join_length_exact sep (l : list (list tok)) : l <> [] ->
    length (join sep l) + 1 = fold_right (fun x n => length x + 1 + n) 0 l.
  Proof.
    induction l as [|x [|y l] IH]; intros Hn; [congruence|cbn; lia|].
    specialize (IH ltac:(discriminate)). cbn [join fold_right] in *. rewrite app_length. cbn [length]. lia.
  Qed.

  Lemma height_le_length e : wf e = true -> forall q, height e <= length (P q e).
  Proof.
    assert (G : forall q0 (l : list bexp), Forall (fun x => height x <= length (P q0 x)) l ->
              fold_right (fun c m => Nat.max (height c) m) 0 l + length l
              <= fold_right (fun x n => length x + 1 + n) 0 (map (P q0) l)).
    { intros q0 l Hf. induction Hf; cbn [fold_right map length]; lia. }
    induction e as [n|a IH|l IH|l IH] using bexp_ind'; intros Hw q.
    - cbn. lia.
    - cbn [wf] in Hw. apply andb_true_iff in Hw. destruct Hw as [Hwa _].
      cbn [bprint height]. eapply Nat.le_trans; [|apply paren_length]. cbn [length]. specialize (IH Hwa not_child). lia.
    - cbn [wf] in Hw. apply andb_true_iff in Hw. destruct Hw as [Hne Hall]. rewrite forallb_forall in Hall.
      cbn [bprint height]. eapply Nat.le_trans; [|apply paren_length].
      assert (Hf : Forall (fun x => height x <= length (P and_child x)) l).
      { rewrite Forall_forall in *. intros y Hy. apply IH; auto. }
      specialize (G and_child l Hf).
      destruct l as [|x [|y l]]; try discriminate.
      pose proof (join_length_exact TAnd (map (P and_child) (x :: y :: l)) ltac:(discriminate)).
      cbn [length] in G. lia.
    - cbn [wf] in Hw. apply andb_true_iff in Hw. destruct Hw as [Hne Hall]. rewrite forallb_forall in Hall.
      cbn [bprint height]. eapply Nat.le_trans; [|apply paren_length].
      assert (Hf : Forall (fun x => height x <= length (P or_child x)) l).
      { rewrite Forall_forall in *. intros y Hy. apply IH; auto. }
      specialize (G or_child l Hf).
      destruct l as [|x [|y l]]; try discriminate.
      pose proof (join_length_exact TOr (map (P or_child) (x :: y :: l)) ltac:(discriminate)).
      cbn [length] in G. lia.
  Qed.

  (* what was printed means what the tree means *)
  Theorem print_read e : wf e = true -> fortran_value v (P 0 e) = Some (bv e).
  Proof.
    intros Hw. unfold fortran_value.
    pose proof (top_ok (length (P 0 e)) e [] Hw (height_le_length e Hw 0) I) as E.
    rewrite app_nil_r in E. now rewrite E.
  Qed.
End Round.

(* ---------- the statement as a function of the printer's numbers; refutation for a printer that
   hands the operands of .and. the precedence of .or. ---------- *)
Definition printer_statement (oc oo ac ao nc no : nat) : Prop :=
  forall v e, wf e = true -> fortran_value v (bprint oc oo ac ao nc no 0 e) = Some (beval v e).

Theorem printer_holds oc oo ac ao nc no : prec_ok oc oo ac ao nc no = true -> printer_statement oc oo ac ao nc no.
Proof. intros H v e Hw. apply print_read; auto. Qed.

(* a and (b or c) with a false, c true *)
Definition wit_or_under_and : bexp := BAnd [BAtom 0; BOr [BAtom 1; BAtom 2]].
Definition wit_valuation (n : nat) : bool := Nat.eqb n 2.

Lemma printer_refuted oc oo ao nc no : ~ printer_statement oc oo oo ao nc no.
Proof.
  intros H. specialize (H wit_valuation wit_or_under_and eq_refl).
  unfold wit_or_under_and in H. cbn [bprint map join] in H. unfold paren in H.
  rewrite Nat.ltb_irrefl in H.
  replace (ao <? 0) with false in H by (symmetry; apply Nat.ltb_ge; lia).
  cbn in H. discriminate.
Qed.

(* non-vacuity: pymbolic's numbers (or 4/4, and 5/5, not 13/13) satisfy prec_ok, and a nested tree
   prints as expected and reads back *)
Example ex_pymbolic_numbers : prec_ok 4 4 5 5 13 13 = true.
Proof. reflexivity. Qed.
Example ex_print :
  bprint 4 4 5 5 13 13 0 (BAnd [BAtom 0; BOr [BAtom 1; BNot (BAnd [BAtom 2; BAtom 3])]; BNot (BAtom 4)])
  = [TAtom 0; TAnd; TLP; TAtom 1; TOr; TNot; TLP; TAtom 2; TAnd; TAtom 3; TRP; TRP; TAnd; TNot; TAtom 4].
Proof. reflexivity. Qed.

(* ---------------------------------------------------------------------------------------------
   Powers *)
Definition nostar (r : list ptok) : Prop := match r with PStar :: _ => False | _ => True end.

(* reading what was printed gives the tree back (so the text means what the tree means) *)
Definition power_statement (bp xp own : nat) : Prop :=
  forall e r, nostar r -> pread (S (psize e)) (pprint bp xp own 0 e ++ r) = Some (e, r).

Definition punparen (bp xp own : nat) (e : pexp) : list ptok :=
  match e with
  | PAtom n => [PA n]
  | PPow b x => pprint bp xp own bp b ++ PStar :: pprint bp xp own xp x
  end.

Lemma pprint_cases bp xp own enc e :
  pprint bp xp own enc e = punparen bp xp own e \/
  (exists b x, e = PPow b x /\ (own <? enc) = true /\ pprint bp xp own enc e = PL :: punparen bp xp own e ++ [PR]).
Proof.
  destruct e as [n | b x]; cbn [pprint punparen].
  - now left.
  - destruct (own <? enc) eqn:E.
    + right. exists b, x. repeat split.
    + now left.
Qed.

Lemma pread_nostar f b r ts : nostar r ->
  pprim (pread f) ts = Some (b, r) -> pread (S f) ts = Some (b, r).
Proof.
  intros Hr H. cbn [pread]. rewrite H. destruct r as [| [] r']; try reflexivity. destruct Hr.
Qed.

Section PowerRound.
  Variables bp xp own : nat.
  Hypothesis Hb : (own <? bp) = true.

  Lemma punparen_read : forall e F r, psize e <= F -> nostar r ->
    pread F (punparen bp xp own e ++ r) = Some (e, r).
  Proof.
    induction e as [n | b IHb x IHx]; intros F r HF Hr.
    - destruct F as [| f]; [cbn in HF; lia |].
      apply pread_nostar; [exact Hr | reflexivity].
    - cbn [psize] in HF. destruct F as [| f]; [lia |].
      cbn [punparen]. rewrite <- app_assoc. cbn [app].
      (* the base: a primary *)
      assert (Hbase : forall rest, pprim (pread f) (pprint bp xp own bp b ++ rest) = Some (b, rest)).
      { intro rest. destruct (pprint_cases bp xp own bp b) as [E | [b1 [b2 [Eb [_ E]]]]]; rewrite E.
        - destruct b as [n | b1 b2]; [reflexivity |].
          cbn [pprint] in E. rewrite Hb in E. cbn [punparen] in E.
          exfalso. apply (f_equal (@length ptok)) in E. cbn [length] in E.
          repeat rewrite app_length in E. cbn [length] in E. repeat rewrite app_length in E. cbn [length] in E. lia.
        - cbn [app]. rewrite <- app_assoc. cbn [app pprim].
          rewrite (IHb f (PR :: rest)); [reflexivity | lia | exact I]. }
      cbn [pread]. rewrite Hbase.
      (* the exponent *)
      assert (Hexp : pread f (pprint bp xp own xp x ++ r) = Some (x, r)).
      { destruct (pprint_cases bp xp own xp x) as [E | [x1 [x2 [Ex [_ E]]]]]; rewrite E.
        - apply IHx; [lia | exact Hr].
        - destruct f as [| f']; [lia |].
          cbn [app]. rewrite <- app_assoc. cbn [app].
          apply pread_nostar; [exact Hr |]. cbn [pprim].
          rewrite (IHx f' (PR :: r)); [reflexivity | lia | exact I]. }
      rewrite Hexp. reflexivity.
  Qed.

  Lemma pprint_read enc e r : nostar r -> pread (S (psize e)) (pprint bp xp own enc e ++ r) = Some (e, r).
  Proof.
    intro Hr. destruct (pprint_cases bp xp own enc e) as [E | [b [x [Ee [_ E]]]]]; rewrite E.
    - apply punparen_read; [lia | exact Hr].
    - cbn [app]. rewrite <- app_assoc. cbn [app].
      apply pread_nostar; [exact Hr |]. cbn [pprim].
      rewrite (punparen_read e (psize e) (PR :: r)); [reflexivity | lia | exact I].
  Qed.
End PowerRound.

Theorem power_holds bp xp own : (own <? bp) = true -> power_statement bp xp own.
Proof. intros H e r Hr. now apply pprint_read. Qed.

(* (a0 ** a1) ** a2 with a0 = 2, a1 = 2, a2 = 3: 64; printed without parentheses and read by Fortran: 2 ** (2 ** 3) = 256
   (corpus/C03/power_nested_base.json) *)
Definition wit_pow_base : pexp := PPow (PPow (PAtom 0) (PAtom 1)) (PAtom 2).
Definition wit_pow_values (n : nat) : nat := match n with 2 => 3 | _ => 2 end.

Lemma wit_pow_base_print bp xp own : (own <? bp) = false ->
  pprint bp xp own 0 wit_pow_base = [PA 0; PStar; PA 1; PStar; PA 2].
Proof.
  intro H. unfold wit_pow_base. cbn [pprint]. rewrite H.
  assert (E : (own <? 0) = false) by (destruct own; reflexivity).
  rewrite E. reflexivity.
Qed.

Lemma wit_pow_base_values bp xp own : (own <? bp) = false ->
  pval wit_pow_values wit_pow_base = 64 /\
  option_map (fun p => pval wit_pow_values (fst p)) (pread (S (psize wit_pow_base)) (pprint bp xp own 0 wit_pow_base)) = Some 256.
Proof.
  intro H. rewrite (wit_pow_base_print bp xp own H). split; vm_compute; reflexivity.
Qed.

Theorem power_refuted bp xp own : (own <? bp) = false -> ~ power_statement bp xp own.
Proof.
  intros H S. specialize (S wit_pow_base [] I). rewrite app_nil_r in S.
  rewrite (wit_pow_base_print bp xp own H) in S. vm_compute in S. discriminate S.
Qed.

Lemma power_either bp xp own :
  if own <? bp then power_statement bp xp own else ~ power_statement bp xp own.
Proof.
  destruct (own <? bp) eqn:E; [now apply power_holds | now apply power_refuted].
Qed.
