(* C02: every schedule that respects the dependency edges recorded by the
   builder model gives the same result as program order. *)
From Coq Require Import List ZArith String Bool Arith Lia Relations Permutation.
Import ListNotations.
Local Open Scope nat_scope.
Local Open Scope list_scope.
From Dagrt Require Import Lang LangProofs BuilderCore BuilderInv Builder Sched SchedProofs LinExt.
Close Scope string_scope.
Close Scope Z_scope.

Section B.
  Variable is_state : var -> bool.
  Variable tok : var.
  Notation build := (build true true is_state tok).
  Notation bstep := (bstep true true is_state tok).
  Notation add_statement := (add_statement true true is_state tok).

  (* ---- structural invariant of the builder model ---- *)
  Definition binv (b : bstate) : Prop :=
    b_core b = BuilderCore.build var string_dec (b_xs b) /\
    List.length (b_stmts b) = List.length (b_xs b) /\
    forall i st, nth_error (b_stmts b) i = Some st ->
      sid st = i /\ sdeps st = nth i (out (b_core b)) [] /\
      exists x, nth_error (b_xs b) i = Some x /\ incl (xr tok st) (R x) /\ W x = xw tok st.

  Lemma out_length xs : List.length (out (BuilderCore.build var string_dec xs)) = List.length xs.
  Proof. destruct (builder_covers var string_dec xs) as [[H _] _]. exact H. Qed.

  Lemma binv_add b k : binv b -> binv (add_statement b k).
  Proof.
    intros (Hc & Hl & Hs). unfold Builder.add_statement.
    set (cond := condition_of (b_stack b)).
    set (r := ext_reads true true is_state tok (b_seen b) cond k).
    set (w := ext_writes tok k).
    assert (Hcore : add var string_dec (b_core b) (Build_rw r w)
                    = BuilderCore.build var string_dec (b_xs b ++ [Build_rw r w])).
    { unfold BuilderCore.build. rewrite fold_left_app. cbn [fold_left]. now rewrite Hc. }
    assert (Hout : out (add var string_dec (b_core b) (Build_rw r w)) =
                   (out (b_core b) ++ [(wdeps var (b_core b) (r ++ w) ++ flat_map (readers (b_core b)) w)%list])%list)
      by reflexivity.
    assert (Hlo : List.length (out (b_core b)) = List.length (b_stmts b)).
    { rewrite Hc, out_length. auto. }
    split; [exact Hcore|]. cbn [b_stmts b_xs b_core]. split; [rewrite !app_length; cbn; lia|].
    intros i st Hi.
    destruct (lt_dec i (List.length (b_stmts b))) as [Hlt|Hge].
    - rewrite nth_error_app1 in Hi by exact Hlt.
      destruct (Hs i st Hi) as (H1 & H2 & x & H3 & H4 & H5).
      split; [exact H1|]. split.
      + rewrite Hout, app_nth1 by lia. exact H2.
      + exists x. split; [|auto]. rewrite nth_error_app1; [exact H3|]. rewrite <- Hl. exact Hlt.
    - assert (i = List.length (b_stmts b)).
      { assert (H : nth_error (b_stmts b ++ [{| sid := List.length (b_stmts b);
                   sdeps := last (out (add var string_dec (b_core b) (Build_rw r w))) [];
                   scond := cond; skd := k |}])%list i <> None) by congruence.
        apply nth_error_Some in H. rewrite app_length in H. cbn in H. lia. }
      subst i. rewrite nth_error_app2 in Hi by lia. rewrite Nat.sub_diag in Hi. cbn in Hi.
      injection Hi as <-. cbn [sid sdeps]. split; [reflexivity|]. split.
      + rewrite Hout, last_last, app_nth2 by lia. rewrite Hlo, Nat.sub_diag. reflexivity.
      + exists (Build_rw r w). split; [rewrite nth_error_app2 by lia; rewrite Hl, Nat.sub_diag; reflexivity|].
        cbn [R W]. split.
        * unfold xr, reads, r, ext_reads. cbn [skd scond]. intros y. rewrite !in_app_iff. cbn [In]. tauto.
        * unfold xw, w, ext_writes, writes, barrier. cbn [skd]. reflexivity.
  Qed.

  Lemma binv_same b b' :
    b_stmts b' = b_stmts b -> b_core b' = b_core b -> b_xs b' = b_xs b -> binv b -> binv b'.
  Proof. unfold binv. intros -> -> ->. auto. Qed.

  Lemma fresh_fields b p nm b' :
    fresh b p = Some (nm, b') -> b_stmts b' = b_stmts b /\ b_core b' = b_core b /\ b_xs b' = b_xs b.
  Proof.
    unfold fresh. destruct (fresh_loop _ _ _ _) as [[n nx]|]; [|discriminate].
    intros H. injection H as _ <-. auto.
  Qed.

  Lemma binv_step b c b' : binv b -> bstep b c = BOk b' -> binv b'.
  Proof.
    intros Hb. destruct c as [k|c| | | |p]; cbn [Builder.bstep].
    - intros H. injection H as <-. apply binv_add, Hb.
    - destruct (fresh b cond_prefix) as [[nm b1]|] eqn:Ef; [|discriminate].
      intros H. injection H as <-. destruct (fresh_fields _ _ _ _ Ef) as (E1 & E2 & E3).
      eapply binv_same; [| | |apply (binv_add b1); eapply binv_same; eauto]; reflexivity.
    - destruct (rev (b_stack b)); [discriminate|]. intros H. injection H as <-.
      eapply binv_same; [| | |exact Hb]; reflexivity.
    - destruct (b_last_if b); [|discriminate]. intros H. injection H as <-.
      eapply binv_same; [| | |exact Hb]; reflexivity.
    - destruct (rev (b_stack b)); [discriminate|]. intros H. injection H as <-.
      eapply binv_same; [| | |exact Hb]; reflexivity.
    - destruct (fresh b p) as [[nm b1]|] eqn:Ef; [|discriminate].
      intros H. injection H as <-. destruct (fresh_fields _ _ _ _ Ef) as (E1 & E2 & E3).
      eapply binv_same; eauto.
  Qed.

  Lemma binv_fold p : forall b b', binv b -> bfold true true is_state tok b p = BOk b' -> binv b'.
  Proof.
    induction p as [|c p IH]; intros b b' Hb H; cbn [bfold] in H.
    - injection H as <-. exact Hb.
    - destruct (bstep b c) as [b1| | |] eqn:E; try discriminate. eapply IH; [|exact H].
      eapply binv_step; eassumption.
  Qed.

  Lemma binv_init : binv (binit tok).
  Proof.
    split; [reflexivity|]. split; [reflexivity|]. intros i st H. destruct i; discriminate.
  Qed.

  Theorem build_inv p b : build p = BOk b -> binv b.
  Proof. apply binv_fold, binv_init. Qed.

  (* ---- fresh names ---- *)
  Lemma mem_In x l : mem x l = true <-> In x l.
  Proof.
    unfold mem. rewrite existsb_exists. split.
    - intros (y & Hy & E). apply String.eqb_eq in E. now subst.
    - intros H. exists x. split; [exact H|apply String.eqb_refl].
  Qed.

  Lemma fresh_loop_spec fuel p : forall idx seen nm nx,
    fresh_loop fuel p idx seen = Some (nm, nx) -> ~ In nm seen.
  Proof.
    induction fuel as [|f IH]; intros idx seen nm nx H; [discriminate|]. cbn [fresh_loop] in H.
    destruct (mem (candidate p idx) seen) eqn:E; [eapply IH; exact H|].
    injection H as <- _. intros Hin. apply mem_In in Hin. congruence.
  Qed.

  Theorem fresh_not_seen b p nm b' :
    fresh b p = Some (nm, b') -> ~ In nm (b_seen b) /\ In nm (b_seen b') /\ incl (b_seen b) (b_seen b').
  Proof.
    unfold fresh. destruct (fresh_loop _ _ _ _) as [[n nx]|] eqn:E; [|discriminate].
    intros H. injection H as <- <-. cbn [b_seen]. split; [eapply fresh_loop_spec; exact E|].
    split; [rewrite in_app_iff; right; now left|]. intros y Hy. rewrite in_app_iff. now left.
  Qed.

  Lemma add_statement_seen b k :
    incl (b_seen b) (b_seen (add_statement b k)) /\
    forall st, last (b_stmts (add_statement b k)) st = st \/
               incl (reads true true (last (b_stmts (add_statement b k)) st) ++
                     writes (last (b_stmts (add_statement b k)) st)) (b_seen (add_statement b k)).
  Proof.
    unfold Builder.add_statement. cbn [b_seen b_stmts]. split.
    - intros y Hy. rewrite in_app_iff. now left.
    - intros st. right. rewrite last_last. unfold reads, writes, ext_reads, ext_writes. cbn [skd scond].
      intros y. rewrite !in_app_iff. cbn [In]. tauto.
  Qed.

  Theorem seen_monotone b c b' : bstep b c = BOk b' -> incl (b_seen b) (b_seen b').
  Proof.
    destruct c as [k|c| | | |p]; cbn [Builder.bstep].
    - intros H. injection H as <-. apply add_statement_seen.
    - destruct (fresh b cond_prefix) as [[nm b1]|] eqn:Ef; [|discriminate].
      intros H. injection H as <-. cbn [set_stack b_seen].
      destruct (fresh_not_seen _ _ _ _ Ef) as (_ & _ & Hi).
      intros y Hy. apply add_statement_seen, Hi, Hy.
    - destruct (rev (b_stack b)); [discriminate|]. intros H. injection H as <-. apply incl_refl.
    - destruct (b_last_if b); [|discriminate]. intros H. injection H as <-. apply incl_refl.
    - destruct (rev (b_stack b)); [discriminate|]. intros H. injection H as <-. apply incl_refl.
    - destruct (fresh b p) as [[nm b1]|] eqn:Ef; [|discriminate].
      intros H. injection H as <-. eapply fresh_not_seen; exact Ef.
  Qed.

  (* ---- from the graph invariant to the hypotheses of LinExt ---- *)
  Lemma FOP_seq (Rel : nat -> nat -> Prop) : forall n a : nat,
    (forall i j : nat, (a <= i)%nat -> (i < j)%nat -> (j < a + n)%nat -> Rel i j) -> ForallOrdPairs Rel (seq a n).
  Proof.
    induction n as [|n IH]; intros a H; cbn [seq]; constructor.
    - apply Forall_forall. intros j Hj. apply in_seq in Hj. apply H; lia.
    - apply IH. intros i j H1 H2 H3. apply H; lia.
  Qed.

  Lemma prec_before (o : list (list nat)) (sched : list nat) :
    (forall l1 i l2, sched = l1 ++ i :: l2 -> forall d, edge o d i -> In d l1) ->
    forall b a, prec o b a -> forall l1 l2, sched = l1 ++ a :: l2 -> In b l1.
  Proof.
    intros Hr b a Hp. induction Hp as [b a He|b c a _ IH1 _ IH2]; intros l1 l2 E.
    - eapply Hr; eassumption.
    - pose proof (IH2 l1 l2 E) as Hc. apply in_split in Hc. destruct Hc as (l1' & l1'' & ->).
      rewrite <- app_assoc in E. cbn in E.
      pose proof (IH1 l1' (l1'' ++ a :: l2) E) as Hb. rewrite in_app_iff. now left.
  Qed.

  Lemma NoDup_app_disj {A} (l1 l2 : list A) x : NoDup (l1 ++ l2) -> In x l1 -> In x l2 -> False.
  Proof.
    induction l1 as [|y l1 IH]; cbn; intros ND H1 H2; [exact H1|].
    inversion ND as [|? ? Hn ND']; subst. destruct H1 as [->|H1]; [|eauto].
    apply Hn. rewrite in_app_iff. now right.
  Qed.

  Lemma respects_linext (o : list (list nat)) (sched : list nat) :
    NoDup sched ->
    (forall l1 i l2, sched = l1 ++ i :: l2 -> forall d, edge o d i -> In d l1) ->
    linext nat (prec o) sched.
  Proof.
    intros ND Hr.
    assert (G : forall suf pre, sched = pre ++ suf -> linext nat (prec o) suf).
    { induction suf as [|a l' IH]; intros pre E; constructor.
      - intros b Hb Hp. pose proof (prec_before o sched Hr b a Hp pre l' E) as Hin.
        subst sched. eapply (NoDup_app_disj pre (a :: l') b ND Hin). now right.
      - apply (IH (pre ++ [a])). rewrite <- app_assoc. exact E. }
    apply (G sched []). reflexivity.
  Qed.
End B.

(* ---- the main theorem ---- *)
Section Main.
  Variable F : string -> list val -> list (string * val) -> option (list val).
  Variable g : bool.
  Variable is_state : var -> bool.
  Variable tok : var.

  (* A3: names used as loop counters are written by no statement and absent initially *)
  Definition loopvars_ok (stmts : list stmt) (s0 : store) : Prop :=
    forall a y, In a stmts -> In y (loopvars (skd a)) ->
      s0 y = None /\ forall b, In b stmts -> ~ In y (writes b).

  (* a schedule: every statement comes after all statements it depends on *)
  Definition respects (stmts : list stmt) (sched : list nat) : Prop :=
    forall l1 i l2 st, sched = l1 ++ i :: l2 -> nth_error stmts i = Some st ->
      forall d, In d (sdeps st) -> In d l1.

  Theorem all_schedules p b s0 sched :
    build true true is_state tok p = BOk b ->
    loopvars_ok (b_stmts b) s0 ->
    Permutation (seq 0 (List.length (b_stmts b))) sched ->
    respects (b_stmts b) sched ->
    req (run_ids F g (b_stmts b) sched (RRun s0 []))
        (run_ids F g (b_stmts b) (seq 0 (List.length (b_stmts b))) (RRun s0 [])).
  Proof.
    intros Hb Hlv Hperm Hresp.
    destruct (build_inv is_state tok p b Hb) as (Hcore & Hlen & Hst).
    set (stmts := b_stmts b) in *. set (n := List.length stmts) in *.
    set (o := out (b_core b)).
    set (LV := fun y => exists a, In a stmts /\ In y (loopvars (skd a))).
    set (U := fun st => In st stmts).
    set (indep_idx := fun i j => match nth_error stmts i, nth_error stmts j with
                                 | Some a, Some c => indep tok a c | _, _ => False end).
    assert (HL : forall st, U st -> forall y, In y (loopvars (skd st)) -> LV y).
    { intros st Hu y Hy. exists st. auto. }
    assert (HW : forall st, U st -> forall y, LV y -> ~ In y (writes st)).
    { intros st Hu y (a & Ha & Hy). destruct (Hlv a y Ha Hy) as [_ H]. apply H, Hu. }
    change (run_ids F g stmts) with (LinExt.run nat rstate (step_id F g stmts)).
    apply (linext_run_eq nat rstate (step_id F g stmts) req (clean LV) indep_idx) with (dep := prec o).
    - apply req_refl.
    - apply req_trans.
    - intros i S S' H. unfold step_id. destruct (nth_error stmts i); [apply (step_proper F g tok), H|].
      reflexivity.
    - intros i S H. unfold step_id. destruct (nth_error stmts i) as [st|] eqn:E; [|exact I].
      apply (step_clean F g LV U HW); [eapply nth_error_In; exact E|exact H].
    - intros i j. unfold indep_idx. destruct (nth_error stmts i), (nth_error stmts j); auto.
      apply indep_sym.
    - intros i j S Hi Hc. unfold indep_idx in Hi. unfold step_id.
      destruct (nth_error stmts i) as [a|] eqn:Ei; [|contradiction].
      destruct (nth_error stmts j) as [c|] eqn:Ej; [|contradiction].
      apply (indep_comm F g tok LV U HL HW); auto; eapply nth_error_In; eassumption.
    - intros i j. unfold indep_idx. destruct (nth_error stmts i), (nth_error stmts j); auto.
      apply indep_dec.
    - cbn [clean]. intros y (a & Ha & Hy). apply (Hlv a y Ha Hy).
    - apply seq_NoDup.
    - exact Hperm.
    - (* the recorded edges cover every pair of non-independent statements *)
      apply FOP_seq. intros i j _ Hij Hj. unfold cov, indep_idx. intros Hni.
      destruct (nth_error stmts i) as [a|] eqn:Ei.
      2:{ apply nth_error_None in Ei. fold n in Ei. lia. }
      destruct (nth_error stmts j) as [c|] eqn:Ej.
      2:{ apply nth_error_None in Ej. fold n in Ej. lia. }
      destruct (Hst i a Ei) as (_ & _ & xa & Hxa & Ra & Wa).
      destruct (Hst j c Ej) as (_ & _ & xc & Hxc & Rc & Wc).
      destruct (builder_covers var string_dec (b_xs b)) as [_ Hcov].
      unfold o. rewrite Hcore. apply (Hcov i j xa xc Hij Hxa Hxc).
      destruct (not_indep tok a c Hni) as [(x & H1 & H2)|(x & H1 & H2)].
      + left. exists x. rewrite Wa. split; [exact H1|].
        rewrite in_app_iff in H2. destruct H2 as [H2|H2]; [left; apply Rc, H2|right; rewrite Wc; exact H2].
      + rewrite in_app_iff in H2. destruct H2 as [H2|H2].
        * right. exists x. split; [apply Ra, H2|rewrite Wc; exact H1].
        * left. exists x. rewrite Wa. split; [exact H2|right; rewrite Wc; exact H1].
    - (* the schedule is a linear extension of the transitive closure *)
      apply respects_linext.
      + eapply Permutation_NoDup; [exact Hperm|apply seq_NoDup].
      + intros l1 i l2 E d He. unfold edge, o in He.
        destruct (nth_error stmts i) as [st|] eqn:Ei.
        * destruct (Hst i st Ei) as (_ & Hd & _). eapply Hresp; [exact E|exact Ei|]. rewrite Hd. exact He.
        * apply nth_error_None in Ei.
          rewrite nth_overflow in He; [destruct He|]. rewrite Hcore, out_length, <- Hlen. exact Ei.
  Qed.

  (* program order is itself an admissible schedule: every edge points backwards *)
  Theorem edges_backward p b i st d :
    build true true is_state tok p = BOk b ->
    nth_error (b_stmts b) i = Some st -> In d (sdeps st) -> (d < i)%nat.
  Proof.
    intros Hb Hi Hd.
    destruct (build_inv is_state tok p b Hb) as (Hcore & Hlen & Hst).
    destruct (Hst i st Hi) as (_ & Hdeps & _). rewrite Hdeps in Hd.
    rewrite Hcore in Hd. destruct (back_build var string_dec (b_xs b)) as (_ & _ & _ & G).
    apply G in Hd. exact Hd.
  Qed.
End Main.

(* ---- every pair of conflicting statements is ordered; barriers are ordered w.r.t. everything ---- *)
Section Ordered.
  Variable is_state : var -> bool.
  Variable tok : var.

  Theorem conflicts_ordered p b i j a c :
    build true true is_state tok p = BOk b -> i < j ->
    nth_error (b_stmts b) i = Some a -> nth_error (b_stmts b) j = Some c ->
    ~ indep tok a c -> prec (out (b_core b)) i j.
  Proof.
    intros Hb Hij Ei Ej Hni.
    destruct (build_inv is_state tok p b Hb) as (Hcore & Hlen & Hst).
    destruct (Hst i a Ei) as (_ & _ & xa & Hxa & Ra & Wa).
    destruct (Hst j c Ej) as (_ & _ & xc & Hxc & Rc & Wc).
    destruct (builder_covers var string_dec (b_xs b)) as [_ Hcov].
    rewrite Hcore. apply (Hcov i j xa xc Hij Hxa Hxc).
    destruct (not_indep tok a c Hni) as [(x & H1 & H2)|(x & H1 & H2)].
    - left. exists x. rewrite Wa. split; [exact H1|].
      rewrite in_app_iff in H2. destruct H2 as [H2|H2]; [left; apply Rc, H2|right; rewrite Wc; exact H2].
    - rewrite in_app_iff in H2. destruct H2 as [H2|H2].
      + right. exists x. split; [apply Ra, H2|rewrite Wc; exact H1].
      + left. exists x. rewrite Wa. split; [exact H2|right; rewrite Wc; exact H1].
  Qed.

  Theorem barrier_ordered p b i j a c :
    build true true is_state tok p = BOk b -> i < j ->
    nth_error (b_stmts b) i = Some a -> nth_error (b_stmts b) j = Some c ->
    barrier a = true \/ barrier c = true -> prec (out (b_core b)) i j.
  Proof.
    intros Hb Hij Ei Ej Hbar. eapply conflicts_ordered; eauto.
    intros Hi. destruct (indep_not_barrier tok a c Hi) as [Ha Hc].
    destruct Hbar as [H|H]; congruence.
  Qed.
End Ordered.

(* an executable check of `respects` (used by the examples) *)
Fixpoint respects_from (stmts : list stmt) (done : list nat) (rest : list nat) : bool :=
  match rest with
  | [] => true
  | i :: r =>
      match nth_error stmts i with
      | Some st => forallb (fun d => existsb (Nat.eqb d) done) (sdeps st)
      | None => true
      end && respects_from stmts (done ++ [i]) r
  end.
Definition respects_b (stmts : list stmt) (sched : list nat) : bool := respects_from stmts [] sched.

Lemma respects_b_ok stmts sched : respects_b stmts sched = true -> respects stmts sched.
Proof.
  unfold respects_b.
  assert (G : forall rest done, respects_from stmts done rest = true ->
            forall l1 i l2 st, rest = l1 ++ i :: l2 -> nth_error stmts i = Some st ->
            forall d, In d (sdeps st) -> In d (done ++ l1)).
  { induction rest as [|j r IH]; intros done H l1 i l2 st E Hi d Hd.
    - destruct l1; discriminate.
    - cbn [respects_from] in H. apply andb_true_iff in H. destruct H as [H1 H2].
      destruct l1 as [|j' l1]; cbn in E; injection E as -> E.
      + rewrite Hi in H1. rewrite forallb_forall in H1. specialize (H1 d Hd).
        apply existsb_exists in H1. destruct H1 as (x & Hx & Ex). apply Nat.eqb_eq in Ex. subst x.
        rewrite app_nil_r. exact Hx.
      + specialize (IH (done ++ [j']) H2 l1 i l2 st E Hi d Hd).
        rewrite <- app_assoc in IH. exact IH. }
  intros H l1 i l2 st E Hi d Hd. exact (G sched [] H l1 i l2 st E Hi d Hd).
Qed.

Lemma run_ids_seq F g stmts S :
  run_ids F g stmts (seq 0 (List.length stmts)) S = run_list F g stmts S.
Proof.
  unfold run_ids, run_list.
  assert (G : forall pre suf S0, stmts = pre ++ suf ->
            fold_left (fun S1 i => step_id F g stmts i S1) (seq (List.length pre) (List.length suf)) S0
            = fold_left (fun S1 st => step F g st S1) suf S0).
  { intros pre suf. revert pre. induction suf as [|st suf IH]; intros pre S0 E; [reflexivity|].
    cbn [List.length seq fold_left]. unfold step_id at 2. rewrite E at 1.
    rewrite nth_error_app2, Nat.sub_diag by lia. cbn [nth_error].
    specialize (IH (pre ++ [st]) (step F g st S0)). rewrite app_length in IH. cbn in IH.
    rewrite Nat.add_1_r in IH. apply IH. rewrite <- app_assoc. exact E. }
  apply (G [] stmts S). reflexivity.
Qed.
