(* Proofs about coq/model/Kinds.v (C09). *)
From Coq Require Import List String Bool Arith Lia.
Import ListNotations.
Open Scope string_scope.
Open Scope list_scope.
From Dagrt Require Import Kinds.

(* ------------------------------------------------------------------ induction principle for expr *)

Section ExprInd.
  Variable P : expr -> Prop.
  Hypothesis HConst : forall c, P (EConst c).
  Hypothesis HVar : forall x, P (EVar x).
  Hypothesis HSum : forall l, Forall P l -> P (ESum l).
  Hypothesis HProd : forall l, Forall P l -> P (EProd l).
  Hypothesis HQuot : forall a b, P a -> P b -> P (EQuot a b).
  Hypothesis HPow : forall a b, P a -> P b -> P (EPow a b).
  Hypothesis HCmp : forall o a b, P a -> P b -> P (ECmp o a b).
  Hypothesis HAnd : forall l, Forall P l -> P (EAnd l).
  Hypothesis HOr : forall l, Forall P l -> P (EOr l).
  Hypothesis HNot : forall a, P a -> P (ENot a).
  Hypothesis HMin : forall l, Forall P l -> P (EMin l).
  Hypothesis HMax : forall l, Forall P l -> P (EMax l).
  Hypothesis HSub : forall a i, P a -> P i -> P (ESub a i).
  Hypothesis HCall : forall f args kwn, Forall P args -> P (ECall f args kwn).

  Fixpoint expr_ind' (e : expr) : P e :=
    let fix go (l : list expr) : Forall P l :=
      match l with
      | [] => Forall_nil P
      | x :: r => Forall_cons x (expr_ind' x) (go r)
      end in
    match e with
    | EConst c => HConst c
    | EVar x => HVar x
    | ESum l => HSum l (go l)
    | EProd l => HProd l (go l)
    | EQuot a b => HQuot a b (expr_ind' a) (expr_ind' b)
    | EPow a b => HPow a b (expr_ind' a) (expr_ind' b)
    | ECmp o a b => HCmp o a b (expr_ind' a) (expr_ind' b)
    | EAnd l => HAnd l (go l)
    | EOr l => HOr l (go l)
    | ENot a => HNot a (expr_ind' a)
    | EMin l => HMin l (go l)
    | EMax l => HMax l (go l)
    | ESub a i => HSub a i (expr_ind' a) (expr_ind' i)
    | ECall f args kwn => HCall f args kwn (go args)
    end.
End ExprInd.

(* ------------------------------------------------------------------ kinds and classes *)

Lemma kind_le_sound : forall a b c, kind_le a b = true -> has_kind c a = true -> has_kind c b = true.
Proof.
  intros a b c Hle Hc.
  destruct a as [| |r|r|i], b as [| |s|s|j]; simpl in Hle; try discriminate;
    destruct c as [| | | | |r'|j']; simpl in *; try discriminate; try reflexivity; try assumption.
  - destruct r, s; simpl in *; try discriminate; reflexivity.
  - destruct r, s, r'; simpl in *; try discriminate; reflexivity.
  - apply String.eqb_eq in Hle. subst. assumption.
Qed.

Lemma kind_le_refl : forall k, kind_le k k = true.
Proof.
  destruct k as [| |r|r|i]; simpl; try reflexivity; try (destruct r; reflexivity).
  apply String.eqb_refl.
Qed.

Definition hk (c : vclass) (k : kind) : Prop := has_kind c k = true.

Ltac str_eq :=
  repeat match goal with
         | H : (String.eqb ?a ?b) = true |- _ => apply String.eqb_eq in H; subst
         | H : context [String.eqb ?a ?a] |- _ => rewrite String.eqb_refl in H
         | |- context [String.eqb ?a ?a] => rewrite String.eqb_refl
         end.

(* unify is an upper bound for + and * on classes (m = 1) and, except int/int, for / (m = 2) *)
Lemma unify_join_sound : forall m k1 k2 ko c1 c2 c,
  (m = 1 \/ (m = 2 /\ ~ (k1 = KInt /\ k2 = KInt))) ->
  unify (Some k1) (Some k2) = Ok ko ->
  has_kind c1 k1 = true -> has_kind c2 k2 = true ->
  In c (cjoin m c1 c2) ->
  exists k, ko = Some k /\ has_kind c k = true.
Proof.
  intros m k1 k2 ko c1 c2 c Hm Hu H1 H2 Hin.
  destruct k1 as [| |r1|r1|i1], k2 as [| |r2|r2|i2]; simpl in Hu; try discriminate;
    destruct c1 as [| | | | |a1|j1]; simpl in H1; try discriminate;
    destruct c2 as [| | | | |a2|j2]; simpl in H2; try discriminate;
    try (destruct (String.eqb i1 i2) eqn:E; try discriminate);
    inversion Hu; subst; clear Hu;
    simpl in Hin; str_eq; simpl in Hin;
    try (destruct Hm as [Hm | [Hm Hne]]; subst m; simpl in Hin);
    try (exfalso; apply Hne; split; reflexivity);
    repeat match goal with
           | H : _ \/ _ |- _ => destruct H
           | H : False |- _ => contradiction
           end; subst;
    try (eexists; split; [reflexivity|]; simpl;
         repeat match goal with
                | b : bool |- _ => destruct b
                end; simpl in *; try discriminate; try reflexivity; str_eq; try reflexivity).
Qed.

Lemma unify_nonbool : forall k1 k2 ko,
  unify (Some k1) (Some k2) = Ok ko -> exists k, ko = Some k /\ k <> KBool.
Proof.
  intros k1 k2 ko H.
  destruct k1 as [| |r1|r1|i1], k2 as [| |r2|r2|i2]; simpl in H; try discriminate;
    try (destruct (String.eqb i1 i2); try discriminate);
    inversion H; subst; eexists; split; try reflexivity; discriminate.
Qed.

Ltac dins := repeat match goal with
                    | H : _ \/ _ |- _ => destruct H
                    | H : False |- _ => contradiction
                    end.
Ltac dbools := repeat match goal with b : bool |- _ => destruct b end; simpl in *; try discriminate.

(* 0 + c  /  1 * c *)
Lemma join_int_sound : forall k c2 c,
  k <> KBool -> has_kind c2 k = true -> In c (cjoin 1 CInt c2) -> has_kind c k = true.
Proof.
  intros k c2 c Hk H2 Hin.
  destruct k as [| |r|r|i]; try congruence;
    destruct c2 as [| | | | |a|j]; simpl in H2; try discriminate; simpl in Hin;
    dins; subst; simpl; try reflexivity; try assumption.
Qed.

(* base ** integer literal *)
Lemma unify_pow_sound : forall k1 ko c1 c,
  unify (Some k1) (Some (KScalar true)) = Ok ko ->
  has_kind c1 k1 = true -> In c (cpow c1 CInt) ->
  exists k, ko = Some k /\ has_kind c k = true.
Proof.
  intros k1 ko c1 c Hu H1 Hin.
  destruct k1 as [| |r1|r1|i1]; simpl in Hu; try discriminate; inversion Hu; subst; clear Hu;
    destruct c1 as [| | | | |a|j]; simpl in H1; try discriminate; simpl in Hin;
    dins; subst;
    eexists; (split; [reflexivity|]); simpl;
    dbools; try reflexivity; try assumption.
Qed.

Lemma ccmp_scalar : forall o k1 k2 c1 c2 c,
  scalar_kind (Some k1) = true -> scalar_kind (Some k2) = true ->
  has_kind c1 k1 = true -> has_kind c2 k2 = true -> In c (ccmp o c1 c2) -> c = CBool.
Proof.
  intros o k1 k2 c1 c2 c S1 S2 H1 H2 Hin.
  destruct k1 as [| |r1|r1|i1]; simpl in S1; try discriminate;
    destruct k2 as [| |r2|r2|i2]; simpl in S2; try discriminate;
    destruct c1 as [| | | | |a1|j1]; simpl in H1; try discriminate;
    destruct c2 as [| | | | |a2|j2]; simpl in H2; try discriminate;
    destruct o; simpl in Hin; dins; subst; reflexivity.
Qed.

Lemma csub_sound : forall k r ki ca ci c,
  realness (Some k) = Some r -> scalar_kind (Some ki) = true ->
  has_kind ca k = true -> has_kind ci ki = true -> In c (csub ca ci) ->
  has_kind c (KScalar r) = true.
Proof.
  intros k r ki ca ci c Hr Hs Ha Hi Hin.
  destruct k as [| |r1|r1|i1]; simpl in Hr; try discriminate; inversion Hr; subst; clear Hr;
    destruct ki as [| |r2|r2|i2]; simpl in Hs; try discriminate;
    destruct ca as [| | | | |a1|j1]; simpl in Ha; try discriminate;
    destruct ci as [| | | | |a2|j2]; simpl in Hi; try discriminate;
    simpl in Hin; try contradiction;
    dbools; dins; subst; try reflexivity.
Qed.

Lemma classes_of_kind_sound : forall k c, In c (classes_of_kind k) -> has_kind c k = true.
Proof.
  intros k c H.
  destruct k as [| |r|r|i]; try destruct r; simpl in H; dins; subst; simpl; try reflexivity.
  apply String.eqb_refl.
Qed.

Lemma cartesian_classes_sound : forall ks r,
  In r (cartesian (map classes_of_kind ks)) -> Forall2 (fun c k => has_kind c k = true) r ks.
Proof.
  induction ks as [|k ks IH]; intros r H; simpl in H.
  - destruct H as [H|[]]. subst. constructor.
  - apply in_flat_map in H. destruct H as [c [Hc H]].
    apply in_map_iff in H. destruct H as [r' [Hr H]]. subst.
    constructor; [apply classes_of_kind_sound; assumption | apply IH; assumption].
Qed.

(* ------------------------------------------------------------------ built-ins: declared kinds vs returned classes *)

Definition arg_rel (c : vclass) (k : okind) : Prop := exists k', k = Some k' /\ has_kind c k' = true.

Ltac inv_f2 :=
  repeat match goal with
         | H : Forall2 _ (_ :: _) _ |- _ => inversion H; subst; clear H
         | H : Forall2 _ _ (_ :: _) |- _ => inversion H; subst; clear H
         | H : Forall2 _ [] _ |- _ => inversion H; subst; clear H
         | H : Forall2 _ _ [] |- _ => inversion H; subst; clear H
         end.

Ltac dc x := destruct x as [| | | | |?|?]; simpl in *; try discriminate.
Ltac unrel := repeat match goal with
                     | H : arg_rel _ _ |- _ => destruct H as [? [? ?]]; subst
                     end.
Ltac kcases Hr :=
  repeat match goal with
         | H : has_kind ?c ?k = true |- _ =>
             is_var k; destruct k as [| |?|?|?]; simpl in Hr; try discriminate; dc c
         end.

Lemma cresult_sound : forall C s a cs ks r,
  sig_ok C s a = true ->
  Forall2 arg_rel cs a ->
  result_kinds true s a = Some ks ->
  In r (cresult C s cs) ->
  Forall2 (fun c k => has_kind c k = true) r ks.
Proof.
  intros C s a cs ks r Hsig HF Hr Hin.
  destruct s.
  - (* FNorm *)
    destruct a as [|x [|y a]]; simpl in Hr; try discriminate. inv_f2. unrel.
    kcases Hr; inversion Hr; subst; dins; subst; repeat constructor.
  - (* FAbs *)
    destruct a as [|x [|y a]]; simpl in Hr; try discriminate. inv_f2. unrel.
    kcases Hr; inversion Hr; subst; dins; subst; repeat constructor; simpl; try reflexivity; try assumption.
  - (* FDot *)
    destruct a as [|x [|y [|z a]]]; simpl in Hr; try discriminate. inv_f2. unrel.
    kcases Hr; inversion Hr; subst; dbools; dins; subst; repeat constructor.
  - (* FLen *)
    destruct a as [|x [|y a]]; simpl in Hr; try discriminate. inv_f2. unrel.
    kcases Hr; inversion Hr; subst; simpl in Hin; dins; subst; repeat constructor.
  - (* FIsNan *)
    destruct a as [|x [|y a]]; simpl in Hr; try discriminate. inv_f2. unrel.
    simpl in Hsig.
    kcases Hr; inversion Hr; subst;
      destruct (isnan_any C); simpl in *; try discriminate; dins; subst; repeat constructor.
  - (* FArray *)
    destruct a as [|x [|y a]]; simpl in Hr; try discriminate. inv_f2. unrel.
    kcases Hr; inversion Hr; subst; dins; subst; repeat constructor.
  - (* FMatMul *)
    destruct a as [|x [|y [|xc [|yc [|z a]]]]]; simpl in Hr; try discriminate. inv_f2. unrel.
    kcases Hr; dbools; inversion Hr; subst; dins; subst; repeat constructor.
  - (* FTranspose *)
    destruct a as [|x [|xc [|z a]]]; simpl in Hr; try discriminate. inv_f2. unrel.
    kcases Hr; dbools; inversion Hr; subst; dins; subst; repeat constructor.
  - (* FLinSolve *)
    destruct a as [|x [|y [|xc [|yc [|z a]]]]]; simpl in Hr; try discriminate. inv_f2. unrel.
    kcases Hr; dbools; inversion Hr; subst; dins; subst; repeat constructor.
  - (* FSvd *)
    destruct a as [|x [|xc [|z a]]]; simpl in Hr; try discriminate. inv_f2. unrel.
    kcases Hr; dbools; inversion Hr; subst; dins; subst; repeat constructor.
  - (* FPrint *)
    destruct a as [|x [|y a]]; simpl in Hr; try discriminate. inv_f2. unrel.
    kcases Hr; inversion Hr; subst; simpl in Hin; dins; subst; repeat constructor.
  - (* FRhs *)
    destruct a as [|t rest]; simpl in Hr; try discriminate.
    assert (ks = [KUser out]) as ->.
    { repeat match type of Hr with (if ?b then _ else _) = _ => destruct b; try discriminate end.
      inversion Hr. reflexivity. }
    simpl in Hin. dins. subst. repeat constructor. simpl. apply String.eqb_refl.
  - (* FFixed *)
    destruct a; simpl in Hr; discriminate.
Qed.
