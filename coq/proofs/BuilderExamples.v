(* Non-vacuity examples and the refutation witness for C02. *)
From Coq Require Import List ZArith String Bool Arith Permutation.
Import ListNotations.
From Dagrt Require Import Lang BuilderCore Builder Sched SchedCheck LangCheck BuilderProofs.
Open Scope string_scope.
Open Scope Z_scope.

Definition isst (x : var) : bool := is_state_of ["<t>"; "<dt>"] ["<state>"; "<p>"] x.
Definition F0 (f : string) (a : list val) (k : list (string * val)) : option (list val) := Some [VInt 0].

(* RAW, WAR, WAW, a yield (barrier) and nested guards *)
Definition ex_prog : list bcall :=
  [ BStmt (KAssign "x" None (EInt 1) []);
    BStmt (KAssign "y" None (ENary NSum [EVar "x"; EInt 1]) []);
    BStmt (KAssign "z" None (EInt 5) []);
    BIf (EBin (BCmp CLt) (EVar "x") (EInt 3));
      BStmt (KAssign "x" None (ENary NSum [EVar "y"; EInt 10]) []);
      BIf (EBin (BCmp CGt) (EVar "z") (EInt 0));
        BStmt (KAssign "w" None (EVar "z") []);
      BEndIf;
    BEndIf;
    BElse; BStmt (KAssign "w" None (EInt 0) []); BEndElse;
    BStmt (KYield "y" "t" (EInt 0) (ENary NSum [EVar "x"; EVar "w"]));
    BStmt (KAssign "<state>u" None (EVar "w") []) ].

Definition ex_built := build true true isst "<exec>" ex_prog.
Definition ex_stmts : list stmt := match ex_built with BOk b => b_stmts b | _ => [] end.

(* (stated through a match: the builder state contains closures that must not be normalised) *)
Example ex_builds : match ex_built with BOk b => List.length (b_stmts b) = 10%nat | _ => False end.
Proof. vm_compute. reflexivity. Qed.

Example ex_loopvars_ok : loopvars_ok ex_stmts empty.
Proof.
  assert (H : forallb (fun st => match loopvars (skd st) with [] => true | _ => false end) ex_stmts = true)
    by (vm_compute; reflexivity).
  intros a y Ha Hy. rewrite forallb_forall in H. specialize (H a Ha).
  destruct (loopvars (skd a)); [destruct Hy|discriminate].
Qed.

(* three different admissible schedules give the same final state *)
Definition ex_sched1 : list nat := [2; 0; 1; 3; 5; 4; 6; 7; 8; 9]%nat.
Definition ex_sched2 : list nat := [0; 2; 3; 1; 5; 4; 6; 7; 8; 9]%nat.
Definition final_of (S : rstate) : list (option val) * list event :=
  match S with
  | RRun s e | RStop s e _ => (map s ["x"; "y"; "z"; "w"; "<state>u"], e)
  | RCrash _ _ => ([], [])
  end.
Example ex_schedules_agree :
  final_of (run_ids F0 true ex_stmts ex_sched1 (RRun empty [])) =
  final_of (run_ids F0 true ex_stmts (seq 0 10) (RRun empty [])) /\
  final_of (run_ids F0 true ex_stmts ex_sched2 (RRun empty [])) =
  final_of (run_ids F0 true ex_stmts (seq 0 10) (RRun empty [])) /\
  final_of (run_ids F0 true ex_stmts (seq 0 10) (RRun empty [])) =
  ([Some (VInt 12); Some (VInt 2); Some (VInt 5); Some (VInt 5); Some (VInt 5)],
   [EvYield "y" "t" (VInt 0) (VInt 17)]).
Proof. vm_compute. auto. Qed.

Example ex_sched1_respects : respects_b ex_stmts ex_sched1 = true /\ respects_b ex_stmts ex_sched2 = true.
Proof. vm_compute. auto. Qed.

(* the defective read-set shape (lhs subscript variables not declared) is refuted:
   `j <- 1; a[j] <- 7` has no edge, and the reversed schedule differs *)
Definition wit_prog : list bcall :=
  [ BStmt (KAssign "j" None (EInt 1) []); BStmt (KAssign "a" (Some (EVar "j")) (EInt 7) []) ].
Definition wit_store : store := upd (upd empty "a" (VArr [0; 0])) "j" (VInt 0).
Definition wit_final (S : rstate) : list (option val) :=
  match S with RRun s _ | RStop s _ _ => map s ["a"; "j"] | RCrash _ _ => [] end.
Lemma lhs_shape_refuted :
  match build false true isst "<exec>" wit_prog with
  | BOk b =>
      forallb (fun st => match sdeps st with [] => true | _ => false end) (b_stmts b) = true /\
      wit_final (run_ids F0 true (b_stmts b) [1; 0]%nat (RRun wit_store [])) <>
      wit_final (run_ids F0 true (b_stmts b) [0; 1]%nat (RRun wit_store []))
  | _ => False
  end.
Proof. vm_compute. split; [reflexivity|discriminate]. Qed.

(* Hypothesis A3 (loopvars_ok) of all_schedules cannot be dropped: a loop counter named like a
   variable another statement assigns is set and then deleted by the looped statement, yet it is
   in neither declared set, so `i <- 8; z <- 1 [i=0..2]` has no edge and the reversed schedule
   keeps i = 8 while program order ends with i deleted.  (Open finding of C02:
   loop_counter_shadows_variable; replayed on the real builder by corpus/C02/known_loop_counter_shadow.json.) *)
Definition a3_prog : list bcall :=
  [ BStmt (KAssign "i" None (EInt 8) []);
    BStmt (KAssign "z" None (EInt 1) [("i", EInt 0, EInt 2)]) ].
Definition a3_final (S : rstate) : list (option val) :=
  match S with RRun s _ | RStop s _ _ => map s ["i"; "z"] | RCrash _ _ => [] end.
Lemma all_schedules_without_A3_refuted :
  match build true true isst "<exec>" a3_prog with
  | BOk b =>
      respects_b (b_stmts b) [1; 0]%nat = true /\
      a3_final (run_ids F0 true (b_stmts b) [1; 0]%nat (RRun empty [])) = [Some (VInt 8); Some (VInt 1)] /\
      a3_final (run_ids F0 true (b_stmts b) [0; 1]%nat (RRun empty [])) = [None; Some (VInt 1)]
  | _ => False
  end.
Proof. vm_compute. auto. Qed.
