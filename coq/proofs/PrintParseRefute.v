(* C19 -- the full round-trip statement is false of the faithful model of the unchanged code:
   four witnesses (all live in pymbolic's printer/parser pair, outside /repo), each checked by
   computation.  The same four expressions are corpus/C19/refuted_*.json and are replayed on
   the real code by the check. *)
From Coq Require Import List ZArith String Bool.
Import ListNotations.
From Dagrt Require Import GenC19 Print Parse.
Open Scope string_scope.

(* The property at full strength, on the text: every structurally sane expression with
   lexable names. *)
Definition full_statement : Prop :=
  forall e, wf_expr e = true -> wf_names e = true ->
  exists e', parse_string (print_string e) = Ok e'
             /\ print_string e' = print_string e
             /\ vars e' = vars e
             /\ forall rho Ffun Fsub Fquot Fnegpow,
                  eval rho Ffun Fsub Fquot Fnegpow e' = eval rho Ffun Fsub Fquot Fnegpow e.

Definition nof3 : string -> list Z -> list (string * Z) -> option Z := fun _ _ _ => None.
Definition nof2 : Z -> Z -> option Z := fun _ _ => None.
Definition nofs : Z -> list Z -> option Z := fun _ _ => None.

(* (a**2)**3 prints a**2**3, which is a**(2**3): 64 vs 256 at a = 2 *)
Definition wit_pow : expr := EBin BPow (EBin BPow (EVar "a") (EInt 2)) (EInt 3).

Lemma wit_pow_reparsed :
  parse_string (print_string wit_pow) = Ok (EBin BPow (EVar "a") (EBin BPow (EInt 2) (EInt 3))).
Proof. vm_compute. reflexivity. Qed.

Lemma refuted_pow : ~ full_statement.
Proof.
  intro H. destruct (H wit_pow eq_refl eq_refl) as (e' & Hp & _ & _ & Hev).
  rewrite wit_pow_reparsed in Hp. injection Hp as <-.
  specialize (Hev (fun _ => 2%Z) nof3 nofs nof2 nof2).
  vm_compute in Hev. discriminate.
Qed.

(* a < (b == c) prints a < b == c, which is (a < b) == c: at a=0, b=2, c=2  1 vs 0 *)
Definition wit_cmp : expr :=
  EBin (BCmp CLt) (EVar "a") (EBin (BCmp CEq) (EVar "bb") (EVar "bb")).

Lemma refuted_cmp : ~ full_statement.
Proof.
  intro H. destruct (H wit_cmp eq_refl eq_refl) as (e' & Hp & _ & _ & Hev).
  vm_compute in Hp. injection Hp as <-.
  specialize (Hev (fun x => if String.eqb x "a" then 0%Z else 2%Z) nof3 nofs nof2 nof2).
  vm_compute in Hev. discriminate.
Qed.

(* f(x if c else y, z): the else-branch is parsed with min_precedence 0 and swallows ", z" *)
Definition wit_if : expr :=
  ECall (EVar "<func>f") [EIf (EVar "c") (EVar "x") (EVar "y"); EVar "z"] [].

Lemma wit_if_reparsed :
  parse_string (print_string wit_if)
  = Ok (ECall (EVar "<func>f") [EIf (EVar "c") (EVar "x") (ETuple [EVar "y"; EVar "z"])] []).
Proof. vm_compute. reflexivity. Qed.

Lemma refuted_if : ~ full_statement.
Proof.
  intro H. destruct (H wit_if eq_refl eq_refl) as (e' & Hp & Hs & _ & _).
  rewrite wit_if_reparsed in Hp. injection Hp as <-.
  vm_compute in Hs. discriminate.
Qed.

(* a + True: the parser asserts is_arithmetic_expression on the operands *)
Definition wit_bool : expr := ENary NSum [EVar "a"; EBool true].

Lemma refuted_bool : ~ full_statement.
Proof.
  intro H. destruct (H wit_bool eq_refl eq_refl) as (e' & Hp & _).
  vm_compute in Hp. discriminate.
Qed.

(* each witness falls outside `printable` for exactly the reason named *)
Example wit_shapes :
  (wf_expr wit_pow, no_defect wit_pow, wf_expr wit_cmp, no_defect wit_cmp,
   wf_expr wit_if, no_defect wit_if, wf_expr wit_bool, no_defect wit_bool)
  = (true, false, true, false, true, false, true, false).
Proof. vm_compute. reflexivity. Qed.
