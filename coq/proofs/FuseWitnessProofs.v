(* C16: concrete witnesses.  Refutations of the property statements for the shapes of
   dagrt/transform.py in the unchanged tree (each switch off), and non-vacuity examples for the
   theorems of the repaired shape.  Everything here is closed computation (vm_compute) plus a few
   reflection lemmas that turn the hypotheses of the theorems into boolean checks. *)
From Coq Require Import List ZArith String Bool Arith Lia.
Import ListNotations.
From Dagrt Require Import Lang Sched LangProofs Builder Fuse FuseProofs FuseSemProofs.
Local Open Scope list_scope.
Local Open Scope string_scope.

(* ------------------------------------------------------------------ reflection *)
Fixpoint nodupb (l : list string) : bool :=
  match l with [] => true | x :: r => negb (mem x r) && nodupb r end.
Lemma nodupb_ok l : nodupb l = true -> NoDup l.
Proof.
  induction l as [|x l IH]; cbn [nodupb]; intros H; [constructor|].
  apply andb_prop in H. destruct H as [H1 H2]. constructor; [|auto].
  apply mem_false. now destruct (mem x l).
Qed.

Definition clash_enumb (ida idb order : list var) : bool :=
  nodupb order && forallb (fun x => mem x ida && mem x idb) order
  && forallb (fun x => negb (mem x idb) || mem x order) ida.
Lemma clash_enumb_ok ida idb order : clash_enumb ida idb order = true -> clash_enum ida idb order.
Proof.
  unfold clash_enumb. intros H. apply andb_prop in H. destruct H as [H H3]. apply andb_prop in H. destruct H as [H1 H2].
  split; [now apply nodupb_ok|]. intros x. split.
  - intros Hx. rewrite forallb_forall in H2. specialize (H2 x Hx). apply andb_prop in H2.
    destruct H2 as [A B]. split; now apply mem_In.
  - intros [A B]. rewrite forallb_forall in H3. specialize (H3 x A).
    apply mem_In in B. rewrite B in H3. cbn in H3. now apply mem_In.
Qed.

Definition loops_usedb (l : list fstmt) : bool :=
  forallb (fun st => forallb (fun x => mem x (freads true true st ++ fwrites st)) (loopvars (fkd st))) l.
Lemma loops_usedb_ok l : loops_usedb l = true -> loops_used l.
Proof.
  unfold loops_usedb, loops_used. rewrite forallb_forall. intros H st Hs x Hx.
  specialize (H st Hs). rewrite forallb_forall in H. apply mem_In. now apply H.
Qed.

Definition wlb (l : list fstmt) (x : var) : bool :=
  existsb (fun st => mem x (fwrites st ++ loopvars (fkd st))) l.
Lemma wlb_ok l x : wl l x -> wlb l x = true.
Proof.
  intros (st & Hs & H). unfold wlb. apply existsb_exists. exists st. split; [exact Hs|].
  apply mem_In. exact H.
Qed.

Definition nswb (w : var -> bool) (a b : list fstmt) : bool :=
  forallb (fun x => negb (mem x (idents true true b)) || w x || (negb (wlb a x) && negb (wlb b x)))
          (idents true true a).
Lemma nswb_ok w a b : nswb w a b = true ->
  forall x, In x (idents true true a) -> In x (idents true true b) -> w x = false -> ~ wl a x /\ ~ wl b x.
Proof.
  unfold nswb. rewrite forallb_forall. intros H x Ha Hb Hw. specialize (H x Ha).
  apply mem_In in Hb. rewrite Hb, Hw in H. cbn in H. apply andb_prop in H. destruct H as [H1 H2].
  split; intros Hwl; apply wlb_ok in Hwl; rewrite Hwl in *; discriminate.
Qed.

Definition nofunsb (b : list fstmt) : bool :=
  forallb (fun st => match stmt_funsyms st with [] => true | _ => false end) b.
Lemma nofunsb_ok b (P : fstmt -> string -> Prop) : nofunsb b = true ->
  forall st f, In st b -> In f (stmt_funsyms st) -> P st f.
Proof.
  unfold nofunsb. rewrite forallb_forall. intros H st f Hs Hf. specialize (H st Hs).
  destruct (stmt_funsyms st); [destruct Hf|discriminate].
Qed.

(* ------------------------------------------------------------------ the witnesses *)
(* dagrt.utils.is_state_variable as it stands (coq/gen/GenLang.v has the same two lists) *)
Definition std_is_state : var -> bool :=
  is_state_of ["<t>"; "<dt>"] ["<state>"; "<p>"; "<ret_time_id>"; "<ret_time>"; "<ret_state>"].

Definition mk (id : string) (deps : list string) (c : expr) (k : skind) : fstmt :=
  {| fid := id; fdeps := deps; fcond := c; fkd := k |}.

(* DESIGN Appendix C: two single-phase methods sharing tmp, <state>y, <t> and a guard flag *)
Definition w1a : list fstmt :=
  [ mk "p_0" [] (EBool true) (KAssign "tmp" None (ENary NSum [EVar "<state>y"; EVar "<t>"]) []);
    mk "p_1" ["p_0"] (EBool true) (KAssign "<cond>" None (EBin (BCmp CLt) (EVar "tmp") (EInt 3)) []);
    mk "p_2" ["p_0"; "p_1"] (EVar "<cond>") (KAssign "<state>x" None (ENary NProd [EVar "tmp"; EInt 2]) []) ].
Definition w1b : list fstmt :=
  [ mk "p_0" [] (EBool true) (KAssign "tmp" None (ENary NProd [EVar "<state>y"; EVar "<t>"]) []);
    mk "p_1" ["p_0"] (EBool true) (KAssign "<cond>" None (EBin (BCmp CGt) (EVar "tmp") (EInt 3)) []);
    mk "p_2" ["p_0"; "p_1"] (EVar "<cond>") (KAssign "<state>z" None (ENary NProd [EVar "tmp"; EInt 5]) []) ].
Definition w1clash : list var := ["tmp"; "<cond>"; "<state>y"; "<t>"].
Definition w1store : store := upd (upd empty "<state>y" (VInt 1)) "<t>" (VInt 1).

(* loops: both methods use the loop variable i *)
Definition w3a : list fstmt :=
  [ mk "p_0" [] (EBool true) (KAssign "<state>x" None (EVar "i") [("i", EInt 0, EInt 2)]) ].
Definition w3b : list fstmt :=
  [ mk "p_0" [] (EBool true) (KAssign "<state>z" None (ENary NSum [EVar "i"; EInt 1]) [("i", EInt 0, EInt 2)]) ].
Definition w3clash : list var := ["i"].
Definition w3store : store := empty.

Definition F0 (f : string) (a : list val) (k : list (string * val)) : option (list val) := None.

Lemma w1_clash : clash_enum (idents true true w1a) (idents true true w1b) w1clash.
Proof. apply clash_enumb_ok. vm_compute. reflexivity. Qed.
Lemma w3_clash : clash_enum (idents true true w3a) (idents true true w3b) w3clash.
Proof. apply clash_enumb_ok. vm_compute. reflexivity. Qed.

Lemma w1_store_kept x : want std_is_state None x = true -> w1store x = None.
Proof.
  intros H. unfold w1store, upd, empty.
  destruct (String.eqb_spec x "<t>") as [->|_]; [vm_compute in H; discriminate|].
  destruct (String.eqb_spec x "<state>y") as [->|_]; [vm_compute in H; discriminate|reflexivity].
Qed.

(* ------------------------------------------------------------------ refutations, unchanged tree *)
(* sw_pred = false: the persistent variable <state>y (and the time <t>) are renamed *)
Lemma policy_refuted : ~ stmt_policy std_is_state false.
Proof.
  intros H.
  assert (Hm : exists m, subst_of true true (eff_pred std_is_state false None) w1clash w1a w1b = Some m /\
                         sub m "<state>y" = "<state>y_0") by (eexists; split; vm_compute; reflexivity).
  destruct Hm as (m & Hm & E).
  destruct (H None w1clash w1a w1b m w1_clash Hm "<state>y") as [H1 _].
  assert (N : sub m "<state>y" <> "<state>y") by (rewrite E; discriminate).
  destruct (H1 N) as [_ W]. vm_compute in W. discriminate.
Qed.

(* the caller's predicate is ignored *)
Lemma predicate_refuted : ~ stmt_policy std_is_state false.
Proof. exact policy_refuted. Qed.
Lemma predicate_ignored_refuted :
  exists m, subst_of true true (eff_pred std_is_state false (Some (fun _ => false))) w1clash w1a w1b = Some m /\
            sub m "tmp" = "tmp_0".
Proof. eexists. split; vm_compute; reflexivity. Qed.

(* sw_guard = false: the guard flag of the first method stays in the second method's statements *)
Lemma disjoint_refuted pr : ~ stmt_disjoint std_is_state pr false.
Proof.
  intros H.
  assert (Hl : exists l, fuse_stmts true true false false (eff_pred std_is_state pr None) w1clash w1a w1b = FOk l /\
                         In "<cond>" (idents true true (skipn 3 l)) /\ firstn 3 l = w1a).
  { destruct pr; eexists; (split; [vm_compute; reflexivity|split; [vm_compute; tauto|reflexivity]]). }
  destruct Hl as (l & Hl & Hin & Hf).
  destruct (H None false w1clash w1a w1b l w1_clash Hl) as (b' & El & Hd).
  assert (Eb : b' = skipn 3 l).
  { rewrite El. change 3%nat with (List.length w1a). now rewrite skipn_app, skipn_all, Nat.sub_diag. }
  rewrite <- Eb in Hin.
  destruct (Hd "<cond>") as [_ W]; [vm_compute; tauto|exact Hin|]. vm_compute in W. discriminate.
Qed.

Lemma w1_hyps m :
  subst_of true true (want std_is_state None) w1clash w1a w1b = Some m ->
  run_hyps std_is_state None w1a w1b m w1store.
Proof.
  intros Hm. vm_compute in Hm. injection Hm as <-. constructor.
  - apply loops_usedb_ok. reflexivity.
  - apply loops_usedb_ok. reflexivity.
  - apply nofunsb_ok. reflexivity.
  - apply nswb_ok. vm_compute. reflexivity.
  - exact w1_store_kept.
  - intros c n [E|[E|[]]]; injection E as <- <-; reflexivity.
Qed.

(* sw_pred = false: the second method reads <state>y_0 / <t>_0, which do not exist: the fused step crashes *)
Lemma run_equiv_refuted_pred gd lv : ~ stmt_run_equiv std_is_state false gd lv.
Proof.
  intros H.
  assert (Hl : exists l m, fuse_stmts true true gd lv (eff_pred std_is_state false None) w1clash w1a w1b = FOk l /\
                           subst_of true true (eff_pred std_is_state false None) w1clash w1a w1b = Some m /\
                           run_list F0 false (map lower l) (RRun w1store []) = RCrash false [] /\
                           m = [("tmp", "tmp_0"); ("<cond>", "<cond>_0"); ("<state>y", "<state>y_0"); ("<t>", "<t>_0")]).
  { destruct gd, lv; eexists; eexists; (split; [vm_compute; reflexivity|split; [vm_compute; reflexivity|
      split; [vm_compute; reflexivity|reflexivity]]]). }
  destruct Hl as (l & m & Hl & Hm & Hr & Em).
  assert (RA : exists sA eA, run_list F0 false (map lower w1a) (RRun w1store []) = RRun sA eA)
    by (eexists; eexists; vm_compute; reflexivity).
  assert (RB : exists sB eB, run_list F0 false (map lower w1b) (RRun w1store []) = RRun sB eB)
    by (eexists; eexists; vm_compute; reflexivity).
  destruct RA as (sA & eA & RA). destruct RB as (sB & eB & RB).
  assert (Hy : run_hyps std_is_state None w1a w1b m w1store).
  { subst m. constructor.
    - apply loops_usedb_ok. reflexivity.
    - apply loops_usedb_ok. reflexivity.
    - apply nofunsb_ok. reflexivity.
    - apply nswb_ok. vm_compute. reflexivity.
    - exact w1_store_kept.
    - intros c n [E|[E|[E|[E|[]]]]]; injection E as <- <-; reflexivity. }
  destruct (H F0 false None w1clash w1a w1b l m w1store sA eA sB eB w1_clash Hl Hm Hy RA RB) as (sF & eF & RF & _).
  rewrite Hr in RF. discriminate.
Qed.

(* sw_guard = false: <state>z is assigned under the first method's flag *)
Lemma run_equiv_refuted_guard lv : ~ stmt_run_equiv std_is_state true false lv.
Proof.
  intros H.
  assert (Hl : exists l m sF0 eF0,
             fuse_stmts true true false lv (eff_pred std_is_state true None) w1clash w1a w1b = FOk l /\
             subst_of true true (eff_pred std_is_state true None) w1clash w1a w1b = Some m /\
             run_list F0 false (map lower l) (RRun w1store []) = RRun sF0 eF0 /\
             sF0 "<state>z" = Some (VInt 5)).
  { destruct lv; eexists; eexists; eexists; eexists;
      (split; [vm_compute; reflexivity|split; [vm_compute; reflexivity|split; [vm_compute; reflexivity|reflexivity]]]). }
  destruct Hl as (l & m & sF0 & eF0 & Hl & Hm & Hr & Hz).
  assert (RA : exists sA eA, run_list F0 false (map lower w1a) (RRun w1store []) = RRun sA eA)
    by (eexists; eexists; vm_compute; reflexivity).
  assert (RB : exists sB eB, run_list F0 false (map lower w1b) (RRun w1store []) = RRun sB eB /\ sB "<state>z" = None)
    by (eexists; eexists; split; [vm_compute; reflexivity|reflexivity]).
  destruct RA as (sA & eA & RA). destruct RB as (sB & eB & RB & Bz).
  assert (Hy : run_hyps std_is_state None w1a w1b m w1store).
  { apply w1_hyps. rewrite <- Hm. now rewrite eff_pred_true. }
  destruct (H F0 false None w1clash w1a w1b l m w1store sA eA sB eB w1_clash Hl Hm Hy RA RB)
    as (sF & eF & RF & _ & K & _).
  rewrite Hr in RF. injection RF as <- <-.
  specialize (K "<state>z"). rewrite Hz, Bz in K.
  assert (E : Some (VInt 5) = None) by (apply K; [vm_compute; tauto|reflexivity]). discriminate.
Qed.

(* sw_loopv = false: the body reads i_0 while the loop sets i *)
Lemma run_equiv_refuted_loop : ~ stmt_run_equiv std_is_state true true false.
Proof.
  intros H.
  assert (Hl : exists l m, fuse_stmts true true true false (eff_pred std_is_state true None) w3clash w3a w3b = FOk l /\
                           subst_of true true (eff_pred std_is_state true None) w3clash w3a w3b = Some m /\
                           run_list F0 true (map lower l) (RRun w3store []) = RCrash false [] /\
                           m = [("i", "i_0")]).
  { eexists; eexists; (split; [vm_compute; reflexivity|split; [vm_compute; reflexivity|
      split; [vm_compute; reflexivity|reflexivity]]]). }
  destruct Hl as (l & m & Hl & Hm & Hr & Em).
  assert (RA : exists sA eA, run_list F0 true (map lower w3a) (RRun w3store []) = RRun sA eA)
    by (eexists; eexists; vm_compute; reflexivity).
  assert (RB : exists sB eB, run_list F0 true (map lower w3b) (RRun w3store []) = RRun sB eB)
    by (eexists; eexists; vm_compute; reflexivity).
  destruct RA as (sA & eA & RA). destruct RB as (sB & eB & RB).
  assert (Hy : run_hyps std_is_state None w3a w3b m w3store).
  { subst m. constructor.
    - apply loops_usedb_ok. reflexivity.
    - apply loops_usedb_ok. reflexivity.
    - apply nofunsb_ok. reflexivity.
    - apply nswb_ok. vm_compute. reflexivity.
    - reflexivity.
    - reflexivity. }
  destruct (H F0 true None w3clash w3a w3b l m w3store sA eA sB eB w3_clash Hl Hm Hy RA RB) as (sF & eF & RF & _).
  rewrite Hr in RF. discriminate.
Qed.

(* any switch off refutes run equivalence *)
Theorem run_equiv_refuted pr gd lv : pr && gd && lv = false -> ~ stmt_run_equiv std_is_state pr gd lv.
Proof.
  destruct pr; [|intros _; apply run_equiv_refuted_pred].
  destruct gd; [|intros _; apply run_equiv_refuted_guard].
  destruct lv; [discriminate|intros _; apply run_equiv_refuted_loop].
Qed.

(* "the two write disjoint persistent variables" alone is not enough: the second method reads what the first writes *)
Definition w4a : list fstmt := [ mk "p_0" [] (EBool true) (KAssign "<state>x" None (EInt 7) []) ].
Definition w4b : list fstmt := [ mk "p_0" [] (EBool true) (KAssign "<state>z" None (EVar "<state>x") []) ].
Lemma write_disjoint_not_enough :
  exists l sA eA sB eB sF eF,
    fuse_stmts true true true true (want std_is_state None) ["<state>x"] w4a w4b = FOk l /\
    (forall x, wl w4a x -> ~ wl w4b x) /\
    run_list F0 false (map lower w4a) (RRun (upd empty "<state>x" (VInt 1)) []) = RRun sA eA /\
    run_list F0 false (map lower w4b) (RRun (upd empty "<state>x" (VInt 1)) []) = RRun sB eB /\
    run_list F0 false (map lower l) (RRun (upd empty "<state>x" (VInt 1)) []) = RRun sF eF /\
    sB "<state>z" = Some (VInt 1) /\ sF "<state>z" = Some (VInt 7).
Proof.
  do 7 eexists. split; [vm_compute; reflexivity|]. split.
  - intros x (sa & [<-|[]] & Ha) (sb & [<-|[]] & Hb). cbv in Ha, Hb.
    destruct Ha as [<-|[]]. destruct Hb as [E|[]]. discriminate.
  - repeat split; vm_compute; reflexivity.
Qed.

(* ------------------------------------------------------------------ examples, repaired shape (non-vacuity) *)
Definition w1fused : list fstmt :=
  w1a ++
  [ mk "p_3" [] (EBool true) (KAssign "tmp_0" None (ENary NProd [EVar "<state>y"; EVar "<t>"]) []);
    mk "p_4" ["p_3"] (EBool true) (KAssign "<cond>_0" None (EBin (BCmp CGt) (EVar "tmp_0") (EInt 3)) []);
    mk "p_5" ["p_3"; "p_4"] (EVar "<cond>_0") (KAssign "<state>z" None (ENary NProd [EVar "tmp_0"; EInt 5]) []) ].

Example ex_fuse : fuse_stmts true true true true (eff_pred std_is_state true None) w1clash w1a w1b = FOk w1fused.
Proof. vm_compute. reflexivity. Qed.

Example ex_subst :
  subst_of true true (eff_pred std_is_state true None) w1clash w1a w1b = Some [("tmp", "tmp_0"); ("<cond>", "<cond>_0")].
Proof. vm_compute. reflexivity. Qed.

Example ex_ids_unique : NoDup (map fid w1a) /\ NoDup (map fid w1b) /\ NoDup (map fid w1fused).
Proof. repeat split; apply nodupb_ok; reflexivity. Qed.

(* hypotheses of run equivalence hold for the witness; the fused run (program order, and an order that
   alternates the two methods) gives x = 4 from the first method and leaves z alone as the second does *)
Example ex_run_hyps : run_hyps std_is_state None w1a w1b [("tmp", "tmp_0"); ("<cond>", "<cond>_0")] w1store.
Proof. apply w1_hyps. vm_compute. reflexivity. Qed.

Example ex_run :
  exists sF eF, run_list F0 false (map lower w1fused) (RRun w1store []) = RRun sF eF /\
                sF "<state>x" = Some (VInt 4) /\ sF "<state>z" = None /\ sF "tmp" = Some (VInt 2) /\
                sF "tmp_0" = Some (VInt 1).
Proof. eexists. eexists. split; [vm_compute; reflexivity|]. repeat split. Qed.

Example ex_run_interleaved :
  exists sF eF, run_ids F0 false (map lower w1fused) [3; 0; 4; 1; 5; 2]%nat (RRun w1store []) = RRun sF eF /\
                sF "<state>x" = Some (VInt 4) /\ sF "<state>z" = None.
Proof. eexists. eexists. split; [vm_compute; reflexivity|]. repeat split. Qed.

(* the loop witness under the repaired shape *)
Example ex_loop_fuse :
  fuse_stmts true true true true (eff_pred std_is_state true None) w3clash w3a w3b =
  FOk (w3a ++ [ mk "p_1" [] (EBool true)
                   (KAssign "<state>z" None (ENary NSum [EVar "i_0"; EInt 1]) [("i_0", EInt 0, EInt 2)]) ])%list.
Proof. vm_compute. reflexivity. Qed.

(* DAG level: two single-phase methods; the caller's predicate reaches pymbolic only when threaded *)
Definition w1d1 : fdag := {| d_phases := [("primary", {| ph_name := "primary"; ph_next := "primary"; ph_stmts := w1a |})];
                             d_init := "primary" |}.
Definition w1d2 : fdag := {| d_phases := [("primary", {| ph_name := "primary"; ph_next := "primary"; ph_stmts := w1b |})];
                             d_init := "primary" |}.
Example ex_dag :
  fuse_two_dags true true std_is_state true true true true None ["primary"] [("primary", w1clash)] w1d1 w1d2 =
  FOk {| d_phases := [("primary", {| ph_name := "primary"; ph_next := "primary"; ph_stmts := w1fused |})];
         d_init := "primary" |}.
Proof. vm_compute. reflexivity. Qed.
Example ex_dag_keep_all :
  fuse_two_dags true true std_is_state true true true true (Some (fun _ => false)) ["primary"] [("primary", w1clash)]
                w1d1 w1d2 =
  FOk {| d_phases := [("primary", {| ph_name := "primary"; ph_next := "primary";
                                     ph_stmts := w1a ++ [ mk "p_3" [] (fcond (nth 0 w1b (mk "" [] ENone KNop))) (fkd (nth 0 w1b (mk "" [] ENone KNop)));
                                                          mk "p_4" ["p_3"] (fcond (nth 1 w1b (mk "" [] ENone KNop))) (fkd (nth 1 w1b (mk "" [] ENone KNop)));
                                                          mk "p_5" ["p_3"; "p_4"] (fcond (nth 2 w1b (mk "" [] ENone KNop))) (fkd (nth 2 w1b (mk "" [] ENone KNop))) ] |})];
         d_init := "primary" |}.
Proof. vm_compute. reflexivity. Qed.
(* unchanged tree: the same call renames everything, <t> and <state>y included, and keeps the guard *)
Example ex_dag_unchanged :
  exists d, fuse_two_dags true true std_is_state false false false false (Some (fun _ => false)) ["primary"]
                          [("primary", w1clash)] w1d1 w1d2 = FOk d /\
            exists ph, pget "primary" (d_phases d) = Some ph /\
                       nth_error (ph_stmts ph) 3 =
                         Some (mk "p_3" [] (EBool true) (KAssign "tmp_0" None (ENary NProd [EVar "<state>y_0"; EVar "<t>_0"]) [])) /\
                       nth_error (ph_stmts ph) 5 =
                         Some (mk "p_5" ["p_3"; "p_4"] (EVar "<cond>") (KAssign "<state>z" None (ENary NProd [EVar "tmp_0"; EInt 5]) [])).
Proof. eexists. split; [vm_compute; reflexivity|]. eexists. repeat split. Qed.
