(* Merging adjacent conditionals with one guard (ASTSimplifyMapper.map_Block) against the
   interpreter's reading, in which every statement's guard is evaluated when the statement is
   reached.  Abstract and generic in the state: a statement is a guard and an effect; a merged
   conditional is a guard tested once and the list of effects run under it.
   merge_sound   : the two readings agree when, in every merged conditional, each statement that
                   is followed by another one keeps a true guard true (what the proposed repair
                   fixes/C03-merged-guard.patch establishes syntactically: no statement of the
                   first conditional assigns a variable of the condition).
   merge_refuted : without that side condition they differ; the witness is the program of
                   corpus/C03/raw_guard_rewritten.json (C03's open finding
                   merged_guard_reevaluated) and the two values are the ones the real interpreter
                   and the real compiled stepper give, which harness/c03.py compares on every run. *)
From Coq Require Import List Bool ZArith.
Import ListNotations.

Section Merge.
  Variable state : Type.

  Record gstmt := { guard : state -> bool; eff : state -> state }.

  (* the interpreter: guard evaluated when the statement is reached *)
  Definition exec1 (s : state) (g : gstmt) : state := if guard g s then eff g s else s.
  Definition run_each (l : list gstmt) (s : state) : state := fold_left exec1 l s.

  (* the generated code after merging: one test per group *)
  Record group := { gc : state -> bool; body : list (state -> state) }.
  Definition run_body (fs : list (state -> state)) (s : state) : state := fold_left (fun s f => f s) fs s.
  Definition run_group (s : state) (g : group) : state := if gc g s then run_body (body g) s else s.
  Definition run_merged (gs : list group) (s : state) : state := fold_left run_group gs s.

  (* the statements a group was merged from *)
  Definition expand (g : group) : list gstmt := map (fun f => {| guard := gc g; eff := f |}) (body g).

  (* side condition: a statement that is followed by another one of its group keeps a true guard true *)
  Definition stable_body (c : state -> bool) (fs : list (state -> state)) : Prop :=
    forall f, In f (removelast fs) -> forall s, c s = true -> c (f s) = true.
  Definition stable (g : group) : Prop := stable_body (gc g) (body g).

  Lemma skip_all c fs s : c s = false ->
    fold_left exec1 (map (fun f => {| guard := c; eff := f |}) fs) s = s.
  Proof.
    intros Hc. induction fs as [|f fs IH]; cbn [map fold_left]; [reflexivity|].
    unfold exec1 at 2. cbn [guard]. rewrite Hc. exact IH.
  Qed.

  Lemma run_all c fs : stable_body c fs -> forall s, c s = true ->
    fold_left exec1 (map (fun f => {| guard := c; eff := f |}) fs) s = run_body fs s.
  Proof.
    induction fs as [|f fs IH]; intros Hst s Hc; [reflexivity|].
    cbn [map fold_left]. unfold run_body. cbn [fold_left].
    unfold exec1 at 2. cbn [guard eff]. rewrite Hc.
    destruct fs as [|f2 fs2]; [reflexivity|].
    apply IH.
    - intros f' Hin s' Hs'. apply Hst; [|exact Hs']. cbn [removelast]. right. exact Hin.
    - apply Hst; [|exact Hc]. cbn [removelast]. left. reflexivity.
  Qed.

  Lemma group_sound g s : stable g -> run_each (expand g) s = run_group s g.
  Proof.
    intros Hst. unfold run_each, expand, run_group.
    destruct (gc g s) eqn:Hc.
    - apply run_all; assumption.
    - apply skip_all; assumption.
  Qed.

  Theorem merge_sound : forall gs, Forall stable gs ->
    forall s, run_each (flat_map expand gs) s = run_merged gs s.
  Proof.
    induction gs as [|g gs IH]; intros Hall s; [reflexivity|].
    inversion Hall as [|g' gs' Hg Hgs]; subst.
    cbn [flat_map]. unfold run_each, run_merged. rewrite fold_left_app. cbn [fold_left].
    fold (run_each (expand g) s). rewrite group_sound by exact Hg.
    apply IH. exact Hgs.
  Qed.
End Merge.

(* What the repaired test establishes: stores map variables to values, a guard's value depends only on the
   variables it mentions, a statement changes only the variables it assigns.  When no statement of a group assigns a
   variable of the guard, the group is stable, hence (merge_sound) merging it is the interpreter's reading. *)
Section Syntactic.
  Variables var val : Type.
  Definition store := var -> val.
  Definition depends_only_on (g : store -> bool) (vs : list var) : Prop :=
    forall s s', (forall x, In x vs -> s x = s' x) -> g s = g s'.
  Definition writes_only (f : store -> store) (ws : list var) : Prop :=
    forall s x, ~ In x ws -> f s x = s x.

  Lemma disjoint_keeps g vs f ws :
    depends_only_on g vs -> writes_only f ws -> (forall x, In x vs -> ~ In x ws) ->
    forall s, g (f s) = g s.
  Proof. intros Hg Hf Hd s. apply Hg. intros x Hx. apply Hf. apply Hd. exact Hx. Qed.

  Theorem syntactic_stable (g : group store) vs :
    depends_only_on (gc store g) vs ->
    (forall f, In f (body store g) -> exists ws, writes_only f ws /\ forall x, In x vs -> ~ In x ws) ->
    stable store g.
  Proof.
    intros Hg Hb f Hin s Hs.
    assert (Hf : In f (body store g)).
    { clear -Hin. induction (body store g) as [|a l IH]; [destruct Hin|].
      destruct l as [|b l']; [destruct Hin|]. cbn [removelast] in Hin.
      destruct Hin as [<-|Hin]; [left; reflexivity|right; apply IH; exact Hin]. }
    destruct (Hb f Hf) as [ws [Hw Hd]].
    rewrite (disjoint_keeps _ vs f ws Hg Hw Hd). exact Hs.
  Qed.

  Corollary merge_sound_syntactic : forall gs : list (group store),
    Forall (fun g => exists vs, depends_only_on (gc store g) vs /\
                     forall f, In f (body store g) -> exists ws, writes_only f ws /\ forall x, In x vs -> ~ In x ws) gs ->
    forall s, run_each store (flat_map (expand store) gs) s = run_merged store gs s.
  Proof.
    intros gs Hall. apply merge_sound.
    induction Hall as [|g gs' [vs [Hg Hb]] _ IH]; constructor; [|exact IH].
    exact (syntactic_stable g vs Hg Hb).
  Qed.
End Syntactic.

(* the witness: state = (<p>x, <p>y);  `<p>x <- 0 if <p>x > 1`, `<p>y <- <p>y + 1 if <p>x > 1`, then
   `<p>x <- <p>x + 3` unguarded; <p>x = 5, <p>y = 0 *)
Definition wst := (Z * Z)%type.
Definition w_guard : wst -> bool := fun s => (1 <? fst s)%Z.
Definition w_setx : wst -> wst := fun s => (0%Z, snd s).
Definition w_incy : wst -> wst := fun s => (fst s, (snd s + 1)%Z).
Definition w_addx : wst -> wst := fun s => ((fst s + 3)%Z, snd s).
Definition w_groups : list (group wst) :=
  [ {| gc := w_guard; body := [w_setx; w_incy] |}; {| gc := fun _ => true; body := [w_addx] |} ].
Definition w_init : wst := (5%Z, 0%Z).

Example wit_interpreter : run_each wst (flat_map (expand wst) w_groups) w_init = (3%Z, 0%Z).
Proof. vm_compute. reflexivity. Qed.
Example wit_generated : run_merged wst w_groups w_init = (3%Z, 1%Z).
Proof. vm_compute. reflexivity. Qed.

Theorem merge_refuted :
  exists (gs : list (group wst)) (s : wst), run_each wst (flat_map (expand wst) gs) s <> run_merged wst gs s.
Proof. exists w_groups, w_init. rewrite wit_interpreter, wit_generated. discriminate. Qed.

(* non-vacuity of merge_sound: a two-statement group whose first statement leaves the guard alone *)
Example stable_somewhere :
  Forall (stable wst) [ {| gc := w_guard; body := [w_incy; w_incy] |}; {| gc := fun _ => true; body := [w_addx] |} ].
Proof.
  repeat constructor; unfold stable, stable_body; cbn [gc body removelast In]; intros f [<-|[]] s Hs; exact Hs.
Qed.
