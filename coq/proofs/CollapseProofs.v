(* Proofs about coq/model/Collapse.v (property C18). *)
From Coq Require Import List ZArith String Ascii Bool Arith Lia.
Import ListNotations.
From Dagrt Require Import Collapse.
Open Scope string_scope.
Open Scope list_scope.

(* ---- nested induction principle ---- *)
Section expr_ind'.
  Variable P : expr -> Prop.
  Hypothesis HI : forall z, P (EInt z).
  Hypothesis HV : forall x, P (EVar x).
  Hypothesis HS : forall l, Forall P l -> P (ESum l).
  Hypothesis HP : forall l, Forall P l -> P (EProd l).
  Hypothesis HQ : forall a b, P a -> P b -> P (EQuot a b).
  Hypothesis HW : forall a b, P a -> P b -> P (EPow a b).
  Hypothesis HC : forall f l, Forall P l -> P (ECall f l).
  Hypothesis HK : forall f l kw, Forall P l -> Forall (fun kv => P (snd kv)) kw -> P (ECallKw f l kw).
  Hypothesis HN : forall a, P a -> P (ENot a).
  Fixpoint expr_ind' (e : expr) : P e :=
    let go := fix go (l : list expr) : Forall P l :=
                match l with
                | [] => Forall_nil P
                | x :: l' => Forall_cons x (expr_ind' x) (go l')
                end in
    let gok := fix gok (kw : list (string * expr)) : Forall (fun kv => P (snd kv)) kw :=
                 match kw with
                 | [] => Forall_nil _
                 | kv :: kw' =>
                     Forall_cons kv (match kv as kv0 return P (snd kv0) with
                                     | (_, v) => expr_ind' v
                                     end) (gok kw')
                 end in
    match e with
    | EInt z => HI z
    | EVar x => HV x
    | ESum l => HS l (go l)
    | EProd l => HP l (go l)
    | EQuot a b => HQ a b (expr_ind' a) (expr_ind' b)
    | EPow a b => HW a b (expr_ind' a) (expr_ind' b)
    | ECall f l => HC f l (go l)
    | ECallKw f l kw => HK f l kw (go l) (gok kw)
    | ENot a => HN a (expr_ind' a)
    end.
End expr_ind'.

(* small list facts used for the keyword arguments (list of (name, value) pairs) *)
Lemma Forall_snd {A} (P : expr -> Prop) (kw : list (A * expr)) :
  Forall (fun kv => P (snd kv)) kw <-> Forall P (map snd kw).
Proof. now rewrite Forall_map. Qed.

Lemma flat_map_snd {A B} (g : expr -> list B) (kw : list (A * expr)) :
  flat_map (fun kv => g (snd kv)) kw = flat_map g (map snd kw).
Proof. induction kw as [|kv kw IH]; cbn; [reflexivity | now rewrite IH]. Qed.

Lemma forallb_snd {A} (g : expr -> bool) (kw : list (A * expr)) :
  forallb (fun kv => g (snd kv)) kw = forallb g (map snd kw).
Proof. induction kw as [|kv kw IH]; cbn; [reflexivity | now rewrite IH]. Qed.

(* ---- identity of terms (expr_same): the comparison used by the correspondence check ---- *)
Fixpoint list_same (l m : list expr) : bool :=
  match l, m with
  | [], [] => true
  | x :: l', y :: m' => expr_same x y && list_same l' m'
  | _, _ => false
  end.

Fixpoint kw_same (l m : list (string * expr)) : bool :=
  match l, m with
  | [], [] => true
  | (k1, x) :: l', (k2, y) :: m' => String.eqb k1 k2 && expr_same x y && kw_same l' m'
  | _, _ => false
  end.

Lemma expr_same_sum l m : expr_same (ESum l) (ESum m) = list_same l m.
Proof. reflexivity. Qed.
Lemma expr_same_prod l m : expr_same (EProd l) (EProd m) = list_same l m.
Proof. reflexivity. Qed.
Lemma expr_same_call f g l m : expr_same (ECall f l) (ECall g m) = String.eqb f g && list_same l m.
Proof. reflexivity. Qed.
Lemma expr_same_callkw f g l m kw kw2 :
  expr_same (ECallKw f l kw) (ECallKw g m kw2) = String.eqb f g && list_same l m && kw_same kw kw2.
Proof. reflexivity. Qed.

Lemma list_same_eq l : Forall (fun a => forall b, expr_same a b = true <-> a = b) l ->
  forall m, list_same l m = true <-> l = m.
Proof.
  induction 1 as [|x l Hx _ IH]; intros [|y m]; cbn; split; intro H; try discriminate; auto.
  - apply andb_true_iff in H. destruct H as [H1 H2]. apply Hx in H1. apply IH in H2. now subst.
  - injection H as -> ->. apply andb_true_iff. split; [now apply Hx | now apply IH].
Qed.

Lemma kw_same_eq kw : Forall (fun kv => forall b, expr_same (snd kv) b = true <-> snd kv = b) kw ->
  forall kw2, kw_same kw kw2 = true <-> kw = kw2.
Proof.
  induction 1 as [|[k x] kw Hx _ IH]; intros [|[k2 y] kw2]; cbn [kw_same]; split; intro H;
    try discriminate; auto.
  - apply andb_true_iff in H. destruct H as [H H3]. apply andb_true_iff in H. destruct H as [H1 H2].
    apply String.eqb_eq in H1. apply Hx in H2. apply IH in H3. cbn in H2. now subst.
  - injection H as -> -> ->. rewrite String.eqb_refl. cbn [andb]. apply andb_true_iff.
    split; [now apply Hx | now apply IH].
Qed.

Lemma expr_same_eq a : forall b, expr_same a b = true <-> a = b.
Proof.
  induction a as [z|x|l IH|l IH|a1 a2 IH1 IH2|a1 a2 IH1 IH2|f l IH|f l kw IH IHk|a IH] using expr_ind';
    intros b.
  - destruct b; cbn; split; intro H; try discriminate. apply Z.eqb_eq in H. now subst.
    injection H as ->. apply Z.eqb_refl.
  - destruct b; cbn; split; intro H; try discriminate. apply String.eqb_eq in H. now subst.
    injection H as ->. apply String.eqb_refl.
  - destruct b as [| |m| | | | | |]; try (cbn; split; intro H; discriminate).
    rewrite expr_same_sum, (list_same_eq l IH). split; intro H; [now subst | now injection H].
  - destruct b as [| | |m| | | | |]; try (cbn; split; intro H; discriminate).
    rewrite expr_same_prod, (list_same_eq l IH). split; intro H; [now subst | now injection H].
  - destruct b; cbn; split; intro H; try discriminate.
    + apply andb_true_iff in H. destruct H as [H1 H2]. apply IH1 in H1. apply IH2 in H2. now subst.
    + injection H as -> ->. apply andb_true_iff. split; [now apply IH1 | now apply IH2].
  - destruct b; cbn; split; intro H; try discriminate.
    + apply andb_true_iff in H. destruct H as [H1 H2]. apply IH1 in H1. apply IH2 in H2. now subst.
    + injection H as -> ->. apply andb_true_iff. split; [now apply IH1 | now apply IH2].
  - destruct b as [| | | | | |g m| |]; try (cbn; split; intro H; discriminate).
    rewrite expr_same_call, andb_true_iff, String.eqb_eq, (list_same_eq l IH).
    split; intro H; [destruct H; now subst | injection H; auto].
  - destruct b as [| | | | | | |g m kw2|]; try (cbn; split; intro H; discriminate).
    rewrite expr_same_callkw, !andb_true_iff, String.eqb_eq, (list_same_eq l IH), (kw_same_eq kw IHk).
    split; intro H; [destruct H as [[H1 H2] H3]; now subst | injection H; auto].
  - destruct b; cbn; split; intro H; try discriminate.
    + apply IH in H. now subst.
    + injection H as ->. now apply IH.
Qed.

Lemma expr_same_refl a : expr_same a a = true.
Proof. now apply expr_same_eq. Qed.

(* ---- pymbolic equality (expr_eqb, the key equality of the is_constant dictionary):
   reflexive, and equal keys have the same classification.  It is identity of terms except that
   the keyword arguments of a call are compared as a mapping. ---- *)
Fixpoint list_eqb (l m : list expr) : bool :=
  match l, m with
  | [], [] => true
  | x :: l', y :: m' => expr_eqb x y && list_eqb l' m'
  | _, _ => false
  end.

Definition kw_match (kv1 kv2 : string * expr) : bool :=
  String.eqb (fst kv1) (fst kv2) && expr_eqb (snd kv1) (snd kv2).
Definition kw_sub (kw kw2 : list (string * expr)) : bool :=
  forallb (fun kv1 => existsb (fun kv2 => kw_match kv1 kv2) kw2) kw.
Definition kw_sup (kw kw2 : list (string * expr)) : bool :=
  forallb (fun kv2 => existsb (fun kv1 => kw_match kv1 kv2) kw) kw2.

Lemma expr_eqb_sum l m : expr_eqb (ESum l) (ESum m) = list_eqb l m.
Proof. reflexivity. Qed.
Lemma expr_eqb_prod l m : expr_eqb (EProd l) (EProd m) = list_eqb l m.
Proof. reflexivity. Qed.
Lemma expr_eqb_call f g l m : expr_eqb (ECall f l) (ECall g m) = String.eqb f g && list_eqb l m.
Proof. reflexivity. Qed.
Lemma expr_eqb_callkw f g l m kw kw2 :
  expr_eqb (ECallKw f l kw) (ECallKw g m kw2) =
  String.eqb f g && list_eqb l m && Nat.eqb (List.length kw) (List.length kw2) &&
  kw_sub kw kw2 && kw_sup kw kw2.
Proof. reflexivity. Qed.

Lemma list_eqb_refl l : Forall (fun a => expr_eqb a a = true) l -> list_eqb l l = true.
Proof. induction 1 as [|x l Hx _ IH]; cbn; [reflexivity | now rewrite Hx, IH]. Qed.

Lemma expr_eqb_refl a : expr_eqb a a = true.
Proof.
  induction a as [z|x|l IH|l IH|a1 a2 IH1 IH2|a1 a2 IH1 IH2|f l IH|f l kw IH IHk|a IH] using expr_ind'.
  - apply Z.eqb_refl.
  - apply String.eqb_refl.
  - rewrite expr_eqb_sum. now apply list_eqb_refl.
  - rewrite expr_eqb_prod. now apply list_eqb_refl.
  - cbn. now rewrite IH1, IH2.
  - cbn. now rewrite IH1, IH2.
  - rewrite expr_eqb_call, String.eqb_refl. now apply list_eqb_refl.
  - rewrite expr_eqb_callkw, String.eqb_refl, Nat.eqb_refl, (list_eqb_refl l IH). cbn [andb].
    assert (Hself : forall kv, In kv kw -> existsb (fun kv2 => kw_match kv kv2) kw = true /\
                                           existsb (fun kv1 => kw_match kv1 kv) kw = true).
    { intros kv Hin. rewrite Forall_forall in IHk.
      split; apply existsb_exists; exists kv; (split; [exact Hin|]);
        unfold kw_match; now rewrite String.eqb_refl, (IHk kv Hin). }
    apply andb_true_iff. split; apply forallb_forall; intros kv Hin; now apply Hself.
  - exact IH.
Qed.

Section EqbIsConst.
  Variable free : list string.
  Notation isc := (isconst free).

  Lemma list_eqb_isconst l :
    Forall (fun a => forall b, expr_eqb a b = true -> isc a = isc b) l ->
    forall m, list_eqb l m = true -> forallb isc l = forallb isc m.
  Proof.
    induction 1 as [|x l Hx _ IH]; intros [|y m]; cbn; intro H; try discriminate; auto.
    apply andb_true_iff in H. destruct H as [H1 H2]. now rewrite (Hx y H1), (IH m H2).
  Qed.

  Lemma kw_eqb_isconst kw kw2 :
    Forall (fun kv => forall b, expr_eqb (snd kv) b = true -> isc (snd kv) = isc b) kw ->
    kw_sub kw kw2 = true -> kw_sup kw kw2 = true ->
    forallb (fun kv => isc (snd kv)) kw = forallb (fun kv => isc (snd kv)) kw2.
  Proof.
    intros IH Hsub Hsup. rewrite Forall_forall in IH.
    unfold kw_sub in Hsub. unfold kw_sup in Hsup. rewrite forallb_forall in Hsub, Hsup.
    apply eq_true_iff_eq. rewrite !forallb_forall. split; intros H kv Hin.
    - specialize (Hsup kv Hin). apply existsb_exists in Hsup. destruct Hsup as (kv1 & Hin1 & Hm).
      unfold kw_match in Hm. apply andb_true_iff in Hm. destruct Hm as [_ Hm].
      rewrite <- (IH kv1 Hin1 _ Hm). now apply H.
    - specialize (Hsub kv Hin). apply existsb_exists in Hsub. destruct Hsub as (kv2 & Hin2 & Hm).
      unfold kw_match in Hm. apply andb_true_iff in Hm. destruct Hm as [_ Hm].
      rewrite (IH kv Hin _ Hm). now apply H.
  Qed.

  (* keys that pymbolic considers equal are classified alike *)
  Lemma expr_eqb_isconst a : forall b, expr_eqb a b = true -> isc a = isc b.
  Proof.
    induction a as [z|x|l IH|l IH|a1 a2 IH1 IH2|a1 a2 IH1 IH2|f l IH|f l kw IH IHk|a IH] using expr_ind';
      intros b H.
    - destruct b; cbn in H; try discriminate. reflexivity.
    - destruct b; cbn in H; try discriminate. apply String.eqb_eq in H. now subst.
    - destruct b as [| |m| | | | | |]; try (cbn in H; discriminate).
      rewrite expr_eqb_sum in H. cbn [isconst]. now apply list_eqb_isconst.
    - destruct b as [| | |m| | | | |]; try (cbn in H; discriminate).
      rewrite expr_eqb_prod in H. cbn [isconst]. now apply list_eqb_isconst.
    - destruct b; cbn in H; try discriminate. apply andb_true_iff in H. destruct H as [H1 H2].
      cbn [isconst]. now rewrite (IH1 _ H1), (IH2 _ H2).
    - destruct b; cbn in H; try discriminate. apply andb_true_iff in H. destruct H as [H1 H2].
      cbn [isconst]. now rewrite (IH1 _ H1), (IH2 _ H2).
    - destruct b as [| | | | | |g m| |]; try (cbn in H; discriminate).
      rewrite expr_eqb_call in H. apply andb_true_iff in H. destruct H as [H1 H2].
      apply String.eqb_eq in H1. subst g. cbn [isconst]. now rewrite (list_eqb_isconst l IH m H2).
    - destruct b as [| | | | | | |g m kw2|]; try (cbn in H; discriminate).
      rewrite expr_eqb_callkw in H. rewrite !andb_true_iff in H.
      destruct H as [[[[H1 H2] _] H3] H4]. apply String.eqb_eq in H1. subst g. cbn [isconst].
      now rewrite (list_eqb_isconst l IH m H2), (kw_eqb_isconst kw kw2 IHk H3 H4).
    - destruct b; cbn in H; try discriminate. cbn [isconst]. now apply IH.
  Qed.
End EqbIsConst.

(* ================================================================== *)
(* Part 1: _ConstantFindingMapper computes isconst for every subexpression
   (with the pass-through methods overridden: unary_combines = true) and fails
   exactly on expressions containing an empty Sum/Product. *)
Section FinderProofs.
  Variable free : list string.
  Notation isc := (isconst free).

  Definition dict_ok (d : dict) : Prop := Forall (fun kv => snd kv = isc (fst kv)) d.
  Definition covers (d : dict) (l : list expr) : Prop :=
    Forall (fun s => dget d s = Some (isc s)) l.

  Lemma dget_ok d k v : dict_ok d -> dget d k = Some v -> v = isc k.
  Proof.
    induction 1 as [|[k' v'] d Hkv _ IH]; cbn; [discriminate|].
    destruct (expr_eqb k' k) eqn:E.
    - intros [= <-]. cbn in Hkv. rewrite Hkv. now apply expr_eqb_isconst.
    - exact IH.
  Qed.

  Lemma dget_app_ok new d k :
    dict_ok (new ++ d) -> dget d k = Some (isc k) -> dget (new ++ d) k = Some (isc k).
  Proof.
    induction new as [|[k' v'] new IH]; cbn; intros Hok H; [exact H|].
    inversion Hok as [|? ? Hkv Hok']; subst. destruct (expr_eqb k' k) eqn:E.
    - cbn in Hkv. rewrite Hkv. f_equal. now apply expr_eqb_isconst.
    - now apply IH.
  Qed.

  Lemma covers_app_ok new d l : dict_ok (new ++ d) -> covers d l -> covers (new ++ d) l.
  Proof.
    intros Hok H. unfold covers in *. rewrite Forall_forall in *. intros s Hs.
    apply dget_app_ok; auto.
  Qed.

  Lemma dget_head k v d : dget ((k, v) :: d) k = Some v.
  Proof. cbn. now rewrite expr_eqb_refl. Qed.

  Lemma fold_andb l a : fold_left andb l a = a && forallb (fun b => b) l.
  Proof.
    revert a. induction l as [|b l IH]; intros a; cbn; [now rewrite andb_true_r|].
    rewrite IH. now rewrite andb_assoc.
  Qed.

  Lemma forallb_map_id {A} (f : A -> bool) l : forallb (fun b => b) (map f l) = forallb f l.
  Proof. induction l; cbn; congruence. Qed.

  Definition fchar (e : expr) (stk : list expr) (d : dict) (out : res (bool * fstate)) : Prop :=
    match out with
    | Ok (r, (stk', d')) =>
        wfb e = true /\ r = isc e /\ stk' = stk /\ dict_ok d' /\
        (exists new, d' = new ++ d) /\ covers d' (subs e)
    | TypeError => wfb e = false
    | _ => False
    end.

  Definition fchar_and (cs : list expr) (acc : bool) (stk : list expr) (d : dict)
             (out : res (bool * fstate)) : Prop :=
    match out with
    | Ok (r, (stk', d')) =>
        forallb wfb cs = true /\ r = acc && forallb isc cs /\ stk' = stk /\ dict_ok d' /\
        (exists new, d' = new ++ d) /\ covers d' (flat_map subs cs)
    | TypeError => forallb wfb cs = false
    | _ => False
    end.

  Definition fchar_list (cs : list expr) (stk : list expr) (d : dict)
             (out : res (list bool * fstate)) : Prop :=
    match out with
    | Ok (rs, (stk', d')) =>
        forallb wfb cs = true /\ rs = map isc cs /\ stk' = stk /\ dict_ok d' /\
        (exists new, d' = new ++ d) /\ covers d' (flat_map subs cs)
    | TypeError => forallb wfb cs = false
    | _ => False
    end.

  Notation frec1 := (fun c s => fmap true free c (push c s)).
  Definition IHf (c : expr) : Prop :=
    forall stk d, dict_ok d -> fchar c stk d (fmap true free c (c :: stk, d)).

  Lemma fgo_and_char cs : Forall IHf cs ->
    forall acc stk d, dict_ok d -> fchar_and cs acc stk d (fgo_and frec1 cs acc (stk, d)).
  Proof.
    induction 1 as [|c cs Hc _ IH]; intros acc stk d Hd.
    - cbn. repeat split; auto. + now rewrite andb_true_r. + now exists []. + constructor.
    - cbn [fgo_and]. change (push c (stk, d)) with (c :: stk, d). generalize (Hc stk d Hd).
      destruct (fmap true free c (c :: stk, d)) as [[r [stk' d']]| | | |]; cbn [bind fchar];
        intros Hc'; try contradiction.
      + destruct Hc' as (Hw & -> & -> & Hok & (new & ->) & Hcov).
        generalize (IH (acc && isc c) stk (new ++ d) Hok).
        match goal with |- context [fgo_and ?f ?l ?a ?s] =>
          destruct (fgo_and f l a s) as [[r2 [stk2 d2]]| | | |] end;
          cbn [fchar_and]; intros IH'; try contradiction.
        * destruct IH' as (Hw2 & -> & -> & Hok2 & (new2 & ->) & Hcov2).
          cbn [forallb flat_map]. repeat split; auto.
          -- now rewrite Hw, Hw2.
          -- now rewrite andb_assoc.
          -- exists (new2 ++ new). now rewrite app_assoc.
          -- apply Forall_app. split; [|exact Hcov2]. now apply covers_app_ok.
        * cbn [forallb]. now rewrite IH', andb_false_r.
      + cbn [fchar_and fchar_list forallb]. now rewrite Hc'.
  Qed.

  Lemma fgo_list_char cs : Forall IHf cs ->
    forall stk d, dict_ok d -> fchar_list cs stk d (fgo_list frec1 cs (stk, d)).
  Proof.
    induction 1 as [|c cs Hc _ IH]; intros stk d Hd.
    - cbn. repeat split; auto. + now exists []. + constructor.
    - cbn [fgo_list]. change (push c (stk, d)) with (c :: stk, d). generalize (Hc stk d Hd).
      destruct (fmap true free c (c :: stk, d)) as [[r [stk' d']]| | | |]; cbn [bind fchar];
        intros Hc'; try contradiction.
      + destruct Hc' as (Hw & -> & -> & Hok & (new & ->) & Hcov).
        generalize (IH stk (new ++ d) Hok).
        match goal with |- context [fgo_list ?f ?l ?s] =>
          destruct (fgo_list f l s) as [[r2 [stk2 d2]]| | | |] end;
          cbn [fchar_list bind]; intros IH'; try contradiction.
        * destruct IH' as (Hw2 & -> & -> & Hok2 & (new2 & ->) & Hcov2).
          cbn [forallb flat_map map]. repeat split; auto.
          -- now rewrite Hw, Hw2.
          -- exists (new2 ++ new). now rewrite app_assoc.
          -- apply Forall_app. split; [|exact Hcov2]. now apply covers_app_ok.
        * cbn [forallb]. now rewrite IH', andb_false_r.
      + cbn [fchar_and fchar_list forallb]. now rewrite Hc'.
  Qed.

  Lemma dict_ok_cons k v d : v = isc k -> dict_ok d -> dict_ok ((k, v) :: d).
  Proof. intros H Hd. constructor; auto. Qed.

  Lemma covers_cons_self k d l :
    dict_ok ((k, isc k) :: d) -> covers d l -> covers ((k, isc k) :: d) (k :: l).
  Proof.
    intros Hok Hc. constructor; [apply dget_head|].
    now apply (covers_app_ok [(k, isc k)] d l).
  Qed.

  Definition fcommut (l : list expr) (s : fstate) : res (bool * fstate) :=
    '(cur, s1) <- fpop s ;;
    match l with
    | [] => TypeError
    | c :: cs => '(r0, s2) <- fmap true free c (push c s1) ;;
                 '(r, s3) <- fgo_and frec1 cs r0 s2 ;; Ok (r, setd cur r s3)
    end.

  Lemma commut_char e l :
    fmap true free e = fcommut l ->
    wfb e = negb (match l with [] => true | _ => false end) && forallb wfb l ->
    isc e = forallb isc l ->
    subs e = e :: flat_map subs l ->
    Forall IHf l -> IHf e.
  Proof.
    intros Hf Hwf Hisc Hsubs IH stk d Hd. rewrite Hf. unfold fcommut.
    cbn [fpop fst snd bind].
    destruct l as [|c cs]; [cbn [fchar]; now rewrite Hwf|].
    inversion IH as [|? ? Hc Hcs]; subst.
    change (push c (stk, d)) with (c :: stk, d).
    generalize (Hc stk d Hd).
    destruct (fmap true free c (c :: stk, d)) as [[r [stk' d']]| | | |]; cbn [bind fchar];
      intros Hc'; try contradiction.
    - destruct Hc' as (Hw & -> & -> & Hok & (new & ->) & Hcov).
      generalize (fgo_and_char cs Hcs (isc c) stk (new ++ d) Hok).
      match goal with |- context [fgo_and ?f ?l ?a ?s] =>
        destruct (fgo_and f l a s) as [[r2 [stk2 d2]]| | | |] end;
        cbn [fchar_and fchar bind]; intros IH'; try contradiction.
      + destruct IH' as (Hw2 & -> & -> & Hok2 & (new2 & ->) & Hcov2).
        rewrite Hwf, Hsubs.
        cbn [setd fst snd negb andb forallb flat_map].
        assert (Hr : isc c && forallb isc cs = isc e) by (now rewrite Hisc).
        rewrite Hr.
        assert (Hok3 : dict_ok ((e, isc e) :: new2 ++ new ++ d)) by (now apply dict_ok_cons).
        split; [now rewrite Hw, Hw2|].
        split; [reflexivity|].
        split; [reflexivity|].
        split; [exact Hok3|].
        split; [exists ((e, isc e) :: new2 ++ new); cbn [app]; now rewrite <- app_assoc|].
        apply (covers_cons_self e (new2 ++ new ++ d)); [exact Hok3|].
        apply Forall_app; split; [now apply covers_app_ok | exact Hcov2].
      + rewrite Hwf. cbn [negb andb forallb]. now rewrite IH', andb_false_r.
    - rewrite Hwf. cbn [negb andb forallb]. now rewrite Hc'.
  Qed.

  Lemma bin_char e a b :
    fmap true free e = (fun s => '(ra, s1) <- fmap true free a (push a s) ;;
                                 '(rb, s2) <- fmap true free b (push b s1) ;;
                                 combine_post [ra; rb] s2) ->
    wfb e = wfb a && wfb b -> isc e = isc a && isc b -> subs e = e :: subs a ++ subs b ->
    IHf a -> IHf b -> IHf e.
  Proof.
    intros Hf Hwf Hisc Hsubs Ha Hb stk d Hd. rewrite Hf.
    change (push a (e :: stk, d)) with (a :: e :: stk, d).
    generalize (Ha (e :: stk) d Hd).
    destruct (fmap true free a (a :: e :: stk, d)) as [[r [stk' d']]| | | |]; cbn [bind fchar];
      intros Ha'; try contradiction.
    - destruct Ha' as (Hw & -> & -> & Hok & (new & ->) & Hcov).
      unfold push; cbn [fst snd].
      generalize (Hb (e :: stk) (new ++ d) Hok).
      match goal with |- context [fmap true free b ?s] =>
        destruct (fmap true free b s) as [[r2 [stk2 d2]]| | | |] end;
        cbn [fchar bind]; intros Hb'; try contradiction.
      + destruct Hb' as (Hw2 & -> & -> & Hok2 & (new2 & ->) & Hcov2).
        cbn [combine_post fpop fst snd bind fold_left setd fchar].
        rewrite Hwf, Hsubs, <- Hisc.
        assert (Hok3 : dict_ok ((e, isc e) :: new2 ++ new ++ d)) by (now apply dict_ok_cons).
        split; [now rewrite Hw, Hw2|].
        split; [reflexivity|].
        split; [reflexivity|].
        split; [exact Hok3|].
        split; [exists ((e, isc e) :: new2 ++ new); cbn [app]; now rewrite <- app_assoc|].
        apply (covers_cons_self e (new2 ++ new ++ d)); [exact Hok3|].
        apply Forall_app; split; [now apply covers_app_ok | exact Hcov2].
      + rewrite Hwf. now rewrite Hb', andb_false_r.
    - rewrite Hwf. now rewrite Ha'.
  Qed.

  Lemma call_char f l : Forall IHf l -> IHf (ECall f l).
  Proof.
    intros IH stk d Hd. set (e := ECall f l).
    change (fmap true free e (e :: stk, d)) with
      ('(rf, s1) <- fvar free f (push (EVar f) (e :: stk, d)) ;;
       '(rs, s2) <- fgo_list frec1 l s1 ;; combine_post (rf :: rs) s2).
    change (push (EVar f) (e :: stk, d)) with (EVar f :: e :: stk, d).
    unfold fvar, setd; cbn [fpop fst snd bind].
    set (rf := negb (mem f free)).
    assert (Hok0 : dict_ok ((EVar f, rf) :: d)) by (now apply dict_ok_cons).
    generalize (fgo_list_char l IH (e :: stk) ((EVar f, rf) :: d) Hok0). unfold dict.
    match goal with |- context [fgo_list ?g ?l ?s] =>
      destruct (fgo_list g l s) as [[rs [stk2 d2]]| | | |] end;
      cbn [fchar_list fchar bind]; intros IH'; try contradiction.
    - destruct IH' as (Hw2 & -> & -> & Hok2 & (new2 & ->) & Hcov2).
      cbn [combine_post fpop fst snd bind setd fchar].
      rewrite fold_andb, forallb_map_id.
      change (rf && forallb isc l) with (isc e).
      assert (Hok3 : dict_ok ((e, isc e) :: new2 ++ (EVar f, rf) :: d)) by (now apply dict_ok_cons).
      split; [exact Hw2|].
      split; [reflexivity|].
      split; [reflexivity|].
      split; [exact Hok3|].
      split; [exists ((e, isc e) :: new2 ++ [(EVar f, rf)]); cbn [app]; now rewrite <- app_assoc|].
      change (subs e) with (e :: EVar f :: flat_map subs l).
      apply (covers_cons_self e (new2 ++ (EVar f, rf) :: d)); [exact Hok3|].
      constructor; [|exact Hcov2].
      apply dget_app_ok; [exact Hok2|]. apply dget_head.
    - exact IH'.
  Qed.

  Lemma fgo_kw_list (g : expr -> fstate -> res (bool * fstate)) kw :
    forall s, fgo_kw g kw s = fgo_list g (map snd kw) s.
  Proof.
    induction kw as [|kv kw IH]; intros s; [reflexivity|]. cbn [fgo_kw fgo_list map].
    destruct (g (snd kv) s) as [[rc s']| | | |]; cbn [bind]; try reflexivity. now rewrite IH.
  Qed.

  Lemma callkw_char f l kw :
    Forall IHf l -> Forall (fun kv => IHf (snd kv)) kw -> IHf (ECallKw f l kw).
  Proof.
    intros IH IHk stk d Hd. set (e := ECallKw f l kw). apply Forall_snd in IHk.
    change (fmap true free e (e :: stk, d)) with
      ('(rf, s1) <- fvar free f (push (EVar f) (e :: stk, d)) ;;
       '(rs, s2) <- fgo_list frec1 l s1 ;;
       '(rk, s3) <- fgo_kw frec1 kw s2 ;; combine_post (rf :: rs ++ rk) s3).
    change (push (EVar f) (e :: stk, d)) with (EVar f :: e :: stk, d).
    unfold fvar, setd; cbn [fpop fst snd bind].
    set (rf := negb (mem f free)).
    assert (Hwf : wfb e = forallb wfb l && forallb wfb (map snd kw))
      by (unfold e; cbn [wfb]; now rewrite forallb_snd).
    assert (Hisc : isc e = rf && (forallb isc l && forallb isc (map snd kw)))
      by (unfold e, rf; cbn [isconst]; now rewrite forallb_snd, andb_assoc).
    assert (Hsubs : subs e = e :: EVar f :: flat_map subs l ++ flat_map subs (map snd kw))
      by (unfold e; cbn [subs]; now rewrite flat_map_snd).
    assert (Hok0 : dict_ok ((EVar f, rf) :: d)) by (now apply dict_ok_cons).
    generalize (fgo_list_char l IH (e :: stk) ((EVar f, rf) :: d) Hok0). unfold dict.
    match goal with |- context [fgo_list ?g l ?s] =>
      destruct (fgo_list g l s) as [[rs [stk2 d2]]| | | |] end;
      cbn [fchar_list fchar bind]; intros IH'; try contradiction.
    - destruct IH' as (Hw2 & -> & -> & Hok2 & (new2 & ->) & Hcov2).
      rewrite fgo_kw_list.
      generalize (fgo_list_char (map snd kw) IHk (e :: stk) (new2 ++ (EVar f, rf) :: d) Hok2).
      unfold dict.
      match goal with |- context [fgo_list ?g (map snd kw) ?s] =>
        destruct (fgo_list g (map snd kw) s) as [[rk [stk3 d3]]| | | |] end;
        cbn [fchar_list fchar bind]; intros IHk'; try contradiction.
      + destruct IHk' as (Hw3 & -> & -> & Hok3 & (new3 & ->) & Hcov3).
        cbn [combine_post fpop fst snd bind setd fchar].
        rewrite fold_andb, forallb_app, !forallb_map_id, <- Hisc, Hwf, Hsubs.
        assert (Hok4 : dict_ok ((e, isc e) :: new3 ++ new2 ++ (EVar f, rf) :: d))
          by (now apply dict_ok_cons).
        split; [now rewrite Hw2, Hw3|].
        split; [reflexivity|].
        split; [reflexivity|].
        split; [exact Hok4|].
        split; [exists ((e, isc e) :: new3 ++ new2 ++ [(EVar f, rf)]); cbn [app];
                now rewrite <- !app_assoc|].
        apply (covers_cons_self e (new3 ++ new2 ++ (EVar f, rf) :: d)); [exact Hok4|].
        constructor.
        * apply dget_app_ok; [exact Hok3|]. apply dget_app_ok; [exact Hok2|]. apply dget_head.
        * apply Forall_app; split; [now apply covers_app_ok | exact Hcov3].
      + rewrite Hwf. now rewrite IHk', andb_false_r.
    - rewrite Hwf. now rewrite IH'.
  Qed.

  Lemma not_char a : IHf a -> IHf (ENot a).
  Proof.
    intros Ha stk d Hd. set (e := ENot a).
    change (fmap true free e (e :: stk, d)) with
      ('(ra, s1) <- fmap true free a (push a (e :: stk, d)) ;; combine_post [ra] s1).
    change (push a (e :: stk, d)) with (a :: e :: stk, d).
    generalize (Ha (e :: stk) d Hd).
    destruct (fmap true free a (a :: e :: stk, d)) as [[r [stk' d']]| | | |]; cbn [bind fchar];
      intros Ha'; try contradiction.
    - destruct Ha' as (Hw & -> & -> & Hok & (new & ->) & Hcov).
      cbn [combine_post fpop fst snd bind fold_left setd fchar].
      change (isc a) with (isc e).
      assert (Hok3 : dict_ok ((e, isc e) :: new ++ d)) by (now apply dict_ok_cons).
      split; [exact Hw|].
      split; [reflexivity|].
      split; [reflexivity|].
      split; [exact Hok3|].
      split; [now exists ((e, isc e) :: new)|].
      change (subs e) with (e :: subs a).
      now apply (covers_cons_self e (new ++ d)).
    - exact Ha'.
  Qed.

  Lemma fmap_char e : IHf e.
  Proof.
    induction e as [z|x|l IH|l IH|a b IHa IHb|a b IHa IHb|f l IH|f l kw IH IHk|a IH] using expr_ind'.
    - intros stk d Hd. cbn. repeat split; auto.
      + now apply dict_ok_cons.
      + now exists [(EInt z, true)].
      + apply (covers_cons_self (EInt z) d []); [now apply dict_ok_cons | constructor].
    - intros stk d Hd. cbn. repeat split; auto.
      + now apply dict_ok_cons.
      + now exists [(EVar x, negb (mem x free))].
      + apply (covers_cons_self (EVar x) d []); [now apply dict_ok_cons | constructor].
    - now apply (commut_char (ESum l) l).
    - now apply (commut_char (EProd l) l).
    - now apply (bin_char (EQuot a b) a b).
    - now apply (bin_char (EPow a b) a b).
    - now apply call_char.
    - now apply callkw_char.
    - now apply not_char.
  Qed.

  (* seeds: is_constant[variable] = False for the declared free variables *)
  Lemma mem_In x l : mem x l = true <-> In x l.
  Proof.
    unfold mem. rewrite existsb_exists. split.
    - intros (y & Hy & E). apply String.eqb_eq in E. now subst.
    - intros H. exists x. split; auto. apply String.eqb_refl.
  Qed.

  Lemma seed_ok_gen l d : (forall x, In x l -> In x free) -> dict_ok d ->
    dict_ok (fold_left (fun d x => (EVar x, false) :: d) l d).
  Proof.
    revert d. induction l as [|x l IH]; intros d Hl Hd; cbn; [exact Hd|].
    apply IH; [intros y Hy; apply Hl; now right|].
    apply dict_ok_cons; [|exact Hd]. cbn.
    assert (H : mem x free = true) by (apply mem_In, Hl; now left). now rewrite H.
  Qed.

  Lemma seed_ok : dict_ok (seed_dict free).
  Proof. apply seed_ok_gen; [auto | constructor]. Qed.

  (* the finder as a whole *)
  Lemma find_char e :
    match find true free e with
    | Ok d => wfb e = true /\ covers d (subs e)
    | TypeError => wfb e = false
    | _ => False
    end.
  Proof.
    unfold find. change (push e ([], seed_dict free)) with (e :: [], seed_dict free).
    generalize (fmap_char e [] (seed_dict free) seed_ok).
    destruct (fmap true free e ([e], seed_dict free)) as [[r [stk' d']]| | | |]; cbn [bind fchar snd];
      auto.
    intros (Hw & _ & _ & _ & _ & Hcov). auto.
  Qed.
(* END-FINDER *)
End FinderProofs.

(* ================================================================== *)
(* Part 2: the collapsing mapper only consults the dictionary on subexpressions
   of its argument. *)
Lemma In_subs_self e : In e (subs e).
Proof. destruct e; cbn; auto. Qed.

Lemma In_subs_child c l s : In c l -> In s (subs c) -> In s (flat_map subs l).
Proof. intros Hc Hs. apply in_flat_map. eauto. Qed.

Section Ext.
  Variable fresh : nat -> string.
  Variables look1 look2 : expr -> option bool.

  Lemma crec_gen_ext c :
    look1 c = look2 c -> (forall st, cmap fresh look1 c st = cmap fresh look2 c st) ->
    forall st, crec_gen fresh look1 (cmap fresh look1) c st = crec_gen fresh look2 (cmap fresh look2) c st.
  Proof. intros Hl Hc st. unfold crec_gen. rewrite Hl, !Hc. reflexivity. Qed.

  Lemma cloop_ext rec1 rec2 l :
    (forall c, In c l -> look1 c = look2 c /\ forall st, rec1 c st = rec2 c st) ->
    forall st, cloop look1 rec1 l st = cloop look2 rec2 l st.
  Proof.
    induction l as [|c l IH]; intros H st; [reflexivity|].
    cbn [cloop]. destruct (H c (or_introl eq_refl)) as [Hl Hr]. rewrite Hl.
    assert (IH' : forall st, cloop look1 rec1 l st = cloop look2 rec2 l st)
      by (apply IH; intros c' Hc'; apply H; now right).
    destruct (look2 c) as [[|]|]; [now rewrite IH' | | reflexivity].
    rewrite Hr. destruct (rec2 c st) as [[c' s1]| | | |]; cbn [bind]; try reflexivity.
    now rewrite IH'.
  Qed.

  Lemma cgo_ext rec1 rec2 l :
    (forall c, In c l -> forall st, rec1 c st = rec2 c st) ->
    forall st, cgo rec1 l st = cgo rec2 l st.
  Proof.
    induction l as [|c l IH]; intros H st; [reflexivity|].
    cbn [cgo]. rewrite (H c (or_introl eq_refl)).
    destruct (rec2 c st) as [[c' s1]| | | |]; cbn [bind]; try reflexivity.
    rewrite IH; [reflexivity|]. intros c'' Hc''. apply H. now right.
  Qed.

  Lemma cgo_kw_ext rec1 rec2 kw :
    (forall kv, In kv kw -> forall st, rec1 (snd kv) st = rec2 (snd kv) st) ->
    forall st, cgo_kw rec1 kw st = cgo_kw rec2 kw st.
  Proof.
    induction kw as [|kv kw IH]; intros H st; [reflexivity|].
    cbn [cgo_kw]. rewrite (H kv (or_introl eq_refl)).
    destruct (rec2 (snd kv) st) as [[c' s1]| | | |]; cbn [bind]; try reflexivity.
    rewrite IH; [reflexivity|]. intros kv' Hkv'. apply H. now right.
  Qed.

  Lemma cmap_ext e : (forall s, In s (subs e) -> look1 s = look2 s) ->
    forall st, cmap fresh look1 e st = cmap fresh look2 e st.
  Proof.
    induction e as [z|x|l IH|l IH|a b IHa IHb|a b IHa IHb|f l IH|f l kw IH IHk|a IH] using expr_ind';
      intros H st; try reflexivity.
    - cbn [cmap]. rewrite (cloop_ext _ (crec_gen fresh look2 (cmap fresh look2))); [reflexivity|].
      intros c Hc. rewrite Forall_forall in IH.
      assert (Hsub : forall s, In s (subs c) -> look1 s = look2 s).
      { intros s Hs. apply H. right. eapply In_subs_child; eauto. }
      split; [apply Hsub, In_subs_self|].
      apply crec_gen_ext; [apply Hsub, In_subs_self | apply IH; auto].
    - cbn [cmap]. rewrite (cloop_ext _ (crec_gen fresh look2 (cmap fresh look2))); [reflexivity|].
      intros c Hc. rewrite Forall_forall in IH.
      assert (Hsub : forall s, In s (subs c) -> look1 s = look2 s).
      { intros s Hs. apply H. right. eapply In_subs_child; eauto. }
      split; [apply Hsub, In_subs_self|].
      apply crec_gen_ext; [apply Hsub, In_subs_self | apply IH; auto].
    - cbn [cmap].
      assert (Ha : forall s, In s (subs a) -> look1 s = look2 s)
        by (intros s Hs; apply H; right; apply in_or_app; now left).
      assert (Hb : forall s, In s (subs b) -> look1 s = look2 s)
        by (intros s Hs; apply H; right; apply in_or_app; now right).
      rewrite (crec_gen_ext a (Ha _ (In_subs_self a)) (IHa Ha)).
      destruct (crec_gen fresh look2 (cmap fresh look2) a st) as [[a' s1]| | | |]; cbn [bind]; try reflexivity.
      now rewrite (crec_gen_ext b (Hb _ (In_subs_self b)) (IHb Hb)).
    - cbn [cmap].
      assert (Ha : forall s, In s (subs a) -> look1 s = look2 s)
        by (intros s Hs; apply H; right; apply in_or_app; now left).
      assert (Hb : forall s, In s (subs b) -> look1 s = look2 s)
        by (intros s Hs; apply H; right; apply in_or_app; now right).
      rewrite (crec_gen_ext a (Ha _ (In_subs_self a)) (IHa Ha)).
      destruct (crec_gen fresh look2 (cmap fresh look2) a st) as [[a' s1]| | | |]; cbn [bind]; try reflexivity.
      now rewrite (crec_gen_ext b (Hb _ (In_subs_self b)) (IHb Hb)).
    - cbn [cmap]. rewrite (cgo_ext _ (crec_gen fresh look2 (cmap fresh look2))); [reflexivity|].
      intros c Hc. rewrite Forall_forall in IH.
      assert (Hsub : forall s, In s (subs c) -> look1 s = look2 s).
      { intros s Hs. apply H. right. right. eapply In_subs_child; eauto. }
      apply crec_gen_ext; [apply Hsub, In_subs_self | apply IH; auto].
    - cbn [cmap]. rewrite (cgo_ext _ (crec_gen fresh look2 (cmap fresh look2))).
      + destruct (cgo (crec_gen fresh look2 (cmap fresh look2)) l st) as [[l' s1]| | | |]; cbn [bind];
          try reflexivity.
        rewrite (cgo_kw_ext _ (crec_gen fresh look2 (cmap fresh look2))); [reflexivity|].
        intros kv Hkv. rewrite Forall_forall in IHk.
        assert (Hsub : forall s, In s (subs (snd kv)) -> look1 s = look2 s).
        { intros s Hs. apply H. right. right. apply in_or_app. right.
          apply in_flat_map. exists kv. auto. }
        apply crec_gen_ext; [apply Hsub, In_subs_self | apply IHk; auto].
      + intros c Hc. rewrite Forall_forall in IH.
        assert (Hsub : forall s, In s (subs c) -> look1 s = look2 s).
        { intros s Hs. apply H. right. right. apply in_or_app. left. eapply In_subs_child; eauto. }
        apply crec_gen_ext; [apply Hsub, In_subs_self | apply IH; auto].
    - cbn [cmap].
      assert (Ha : forall s, In s (subs a) -> look1 s = look2 s) by (intros s Hs; apply H; now right).
      now rewrite (crec_gen_ext a (Ha _ (In_subs_self a)) (IH Ha)).
  Qed.
End Ext.

(* ================================================================== *)
(* Part 3: evaluation *)
Section Monoid.
  Variable op : Z -> Z -> Z.
  Variable u : Z.
  Hypothesis op_assoc : forall a b c, op a (op b c) = op (op a b) c.
  Hypothesis op_comm : forall a b, op a b = op b a.
  Hypothesis op_unit : forall a, op a u = a.

  Notation big := (fold_right op u).

  Lemma big_app l1 l2 : big (l1 ++ l2) = op (big l1) (big l2).
  Proof.
    induction l1 as [|a l1 IH]; cbn; [now rewrite op_comm, op_unit|].
    now rewrite IH, op_assoc.
  Qed.

  Lemma big_partition {A} (g : A -> Z) (p : A -> bool) l :
    big (map g l) = op (big (map g (filter p l))) (big (map g (filter (fun x => negb (p x)) l))).
  Proof.
    induction l as [|a l IH]; cbn; [now rewrite op_unit|].
    rewrite IH. destruct (p a); cbn.
    - now rewrite op_assoc.
    - rewrite !op_assoc. f_equal. apply op_comm.
  Qed.
End Monoid.

Lemma filter_length_split {A} (p : A -> bool) l :
  List.length l = List.length (filter p l) + List.length (filter (fun x => negb (p x)) l).
Proof. induction l as [|a l IH]; cbn; [reflexivity|]. destruct (p a); cbn; lia. Qed.

Section EvalProofs.
  Variable qop pop : Z -> Z -> Z.
  Variable nop : Z -> Z.
  Variable F : string -> list Z -> Z.
  Variable Fk : string -> list Z -> list (string * Z) -> Z.
  Notation ev := (eval qop pop nop F Fk).

  Definition agree (N : list string) (rho rho' : string -> Z) : Prop :=
    forall x, In x N -> rho' x = rho x.

  Lemma agree_mono N N' rho rho' : incl N N' -> agree N' rho rho' -> agree N rho rho'.
  Proof. intros Hi H x Hx. apply H, Hi, Hx. Qed.

  Lemma map_ev_agree l rho rho' :
    Forall (fun e => agree (names e) rho rho' -> ev rho' e = ev rho e) l ->
    agree (flat_map names l) rho rho' -> map (ev rho') l = map (ev rho) l.
  Proof.
    induction 1 as [|c l Hc _ IH]; intros Ha; [reflexivity|]. cbn [map]. f_equal.
    - apply Hc. intros x Hx. apply Ha. cbn. apply in_or_app. now left.
    - apply IH. intros x Hx. apply Ha. cbn. apply in_or_app. now right.
  Qed.

  Lemma map_ev_agree_kw (kw : list (string * expr)) rho rho' :
    Forall (fun kv => agree (names (snd kv)) rho rho' -> ev rho' (snd kv) = ev rho (snd kv)) kw ->
    agree (flat_map (fun kv => names (snd kv)) kw) rho rho' ->
    map (fun kv => (fst kv, ev rho' (snd kv))) kw = map (fun kv => (fst kv, ev rho (snd kv))) kw.
  Proof.
    induction 1 as [|kv kw Hc _ IH]; intros Ha; [reflexivity|]. cbn [map]. f_equal.
    - f_equal. apply Hc. intros x Hx. apply Ha. cbn. apply in_or_app. now left.
    - apply IH. intros x Hx. apply Ha. cbn. apply in_or_app. now right.
  Qed.

  Lemma eval_agree e : forall rho rho', agree (names e) rho rho' -> ev rho' e = ev rho e.
  Proof.
    induction e as [z|x|l IH|l IH|a b IHa IHb|a b IHa IHb|f l IH|f l kw IH IHk|a IH] using expr_ind';
      intros rho rho' H; cbn [eval].
    - reflexivity.
    - apply H. now left.
    - f_equal. apply map_ev_agree; [|exact H]. eapply Forall_impl; [|exact IH]. auto.
    - f_equal. apply map_ev_agree; [|exact H]. eapply Forall_impl; [|exact IH]. auto.
    - f_equal; [apply IHa | apply IHb]; intros x Hx; apply H; cbn; apply in_or_app; auto.
    - f_equal; [apply IHa | apply IHb]; intros x Hx; apply H; cbn; apply in_or_app; auto.
    - f_equal. apply map_ev_agree; [eapply Forall_impl; [|exact IH]; auto|].
      intros x Hx. apply H. now right.
    - cbn [names] in H. f_equal.
      + apply map_ev_agree; [eapply Forall_impl; [|exact IH]; auto|].
        intros x Hx. apply H. right. apply in_or_app. now left.
      + apply map_ev_agree_kw; [eapply Forall_impl; [|exact IHk]; auto|].
        intros x Hx. apply H. right. apply in_or_app. now right.
    - f_equal. now apply IH.
  Qed.
(* END-EVAL *)
End EvalProofs.

(* ================================================================== *)
(* Part 4: the collapsing mapper, run with the correct classification *)
Section CollapseSpec.
  Variable free : list string.
  Variable fresh : nat -> string.
  Variable qop pop : Z -> Z -> Z.
  Variable nop : Z -> Z.
  Variable F : string -> list Z -> Z.
  Variable Fk : string -> list Z -> list (string * Z) -> Z.
  Notation ev := (eval qop pop nop F Fk).
  Notation isc := (isconst free).
  Notation nisc := (fun c => negb (isconst free c)).
  Notation len := (@List.length (string * expr)).

  Definition look0 : expr -> option bool := fun s => Some (isc s).
  Notation cmap0 := (cmap fresh look0).
  Notation crec0 := (crec_gen fresh look0 (cmap fresh look0)).

  Definition bound (rho rho' : string -> Z) (xc : string * expr) : Prop :=
    rho' (fst xc) = ev rho (snd xc).
  Definition hoisted_ok (N : list string) (xc : string * expr) : Prop :=
    isc (snd xc) = true /\ is_atomic (snd xc) = false /\ incl (names (snd xc)) N.
  Definition fresh_seq (n : nat) (new : list (string * expr)) : Prop :=
    map fst new = map fresh (seq n (len new)).

  Definition Spec (run : cstate -> res (expr * cstate)) (e : expr) : Prop :=
    forall n log, exists e' new,
      run (n, log) = Ok (e', (n + len new, log ++ new)) /\
      fresh_seq n new /\
      Forall (hoisted_ok (names e)) new /\
      (forall rho rho', agree (names e) rho rho' -> Forall (bound rho rho') new ->
                        ev rho' e' = ev rho e).

  Lemma fresh_seq_app n new1 new2 :
    fresh_seq n new1 -> fresh_seq (n + len new1) new2 -> fresh_seq n (new1 ++ new2).
  Proof.
    unfold fresh_seq. intros H1 H2.
    rewrite map_app, app_length, seq_app, map_app, H1, H2. reflexivity.
  Qed.

  Lemma hoisted_mono N N' l : incl N N' -> Forall (hoisted_ok N) l -> Forall (hoisted_ok N') l.
  Proof.
    intros Hi H. eapply Forall_impl; [|exact H]. intros xc (H1 & H2 & H3).
    repeat split; auto. eapply incl_tran; eauto.
  Qed.

  Lemma hoisted_l N1 N2 l : Forall (hoisted_ok N1) l -> Forall (hoisted_ok (N1 ++ N2)) l.
  Proof. apply hoisted_mono, incl_appl, incl_refl. Qed.
  Lemma hoisted_r N1 N2 l : Forall (hoisted_ok N2) l -> Forall (hoisted_ok (N1 ++ N2)) l.
  Proof. apply hoisted_mono, incl_appr, incl_refl. Qed.
  Lemma agree_l N1 N2 rho rho' : agree (N1 ++ N2) rho rho' -> agree N1 rho rho'.
  Proof. apply agree_mono, incl_appl, incl_refl. Qed.
  Lemma agree_r N1 N2 rho rho' : agree (N1 ++ N2) rho rho' -> agree N2 rho rho'.
  Proof. apply agree_mono, incl_appr, incl_refl. Qed.

  Lemma state_app (n : nat) (log new1 new2 : list (string * expr)) :
    (n + len new1 + len new2, (log ++ new1) ++ new2) = (n + len (new1 ++ new2), log ++ new1 ++ new2).
  Proof. rewrite app_length, Nat.add_assoc, <- app_assoc. reflexivity. Qed.

  Lemma state_nil (n : nat) (log : list (string * expr)) : (n, log) = (n + len [], log ++ []).
  Proof. cbn. now rewrite Nat.add_0_r, app_nil_r. Qed.

  Lemma crec_spec e : Spec (cmap0 e) e -> Spec (crec0 e) e.
  Proof.
    intros Hc n log. unfold crec_gen, look0.
    destruct (is_atomic e) eqn:Hat; [apply Hc|].
    destruct (isc e) eqn:Hi; [|apply Hc].
    exists (EVar (fresh n)), [(fresh n, e)]. cbn [hoist fst snd List.length].
    split; [now rewrite Nat.add_1_r|]. split; [reflexivity|]. split.
    - constructor; [|constructor]. split; [exact Hi | split; [exact Hat | apply incl_refl]].
    - intros rho rho' _ Hb. inversion Hb as [|? ? H1 _]; subst. exact H1.
  Qed.

  Lemma bin_spec (mk : expr -> expr -> expr) (bop : Z -> Z -> Z) a b :
    (forall rho x y, ev rho (mk x y) = bop (ev rho x) (ev rho y)) ->
    names (mk a b) = names a ++ names b ->
    Spec (crec0 a) a -> Spec (crec0 b) b ->
    Spec (fun s => '(a', s1) <- crec0 a s ;; '(b', s2) <- crec0 b s1 ;; Ok (mk a' b', s2)) (mk a b).
  Proof.
    intros Hev Hn Ha Hb n log.
    destruct (Ha n log) as (a' & new1 & Ea & Hs1 & Hh1 & Hv1).
    destruct (Hb (n + len new1) (log ++ new1)) as (b' & new2 & Eb & Hs2 & Hh2 & Hv2).
    exists (mk a' b'), (new1 ++ new2). rewrite Ea; cbn [bind]. rewrite Eb; cbn [bind].
    split; [now rewrite state_app|]. split; [now apply fresh_seq_app|]. rewrite Hn. split.
    - apply Forall_app; split; [now apply hoisted_l | now apply hoisted_r].
    - intros rho rho' Hag Hbd. apply Forall_app in Hbd. destruct Hbd as [Hb1 Hb2]. rewrite !Hev.
      f_equal; [apply Hv1 | apply Hv2]; eauto using agree_l, agree_r.
  Qed.

  Lemma un_spec (mk : expr -> expr) (uop : Z -> Z) a :
    (forall rho x, ev rho (mk x) = uop (ev rho x)) ->
    names (mk a) = names a ->
    Spec (crec0 a) a ->
    Spec (fun s => '(a', s1) <- crec0 a s ;; Ok (mk a', s1)) (mk a).
  Proof.
    intros Hev Hn Ha n log.
    destruct (Ha n log) as (a' & new1 & Ea & Hs1 & Hh1 & Hv1).
    exists (mk a'), new1. rewrite Ea; cbn [bind]. rewrite Hn.
    repeat split; auto. intros rho rho' Hag Hbd. rewrite !Hev. f_equal. now apply Hv1.
  Qed.

  Lemma cgo_spec l : Forall (fun c => Spec (crec0 c) c) l ->
    forall n log, exists l' new,
      cgo crec0 l (n, log) = Ok (l', (n + len new, log ++ new)) /\
      fresh_seq n new /\
      Forall (hoisted_ok (flat_map names l)) new /\
      (forall rho rho', agree (flat_map names l) rho rho' -> Forall (bound rho rho') new ->
                        map (ev rho') l' = map (ev rho) l).
  Proof.
    induction 1 as [|c l Hc _ IH]; intros n log.
    - exists [], []. cbn [cgo]. rewrite <- state_nil. repeat split; auto.
    - destruct (Hc n log) as (c' & new1 & Ec & Hs1 & Hh1 & Hv1).
      destruct (IH (n + len new1) (log ++ new1)) as (l' & new2 & El & Hs2 & Hh2 & Hv2).
      exists (c' :: l'), (new1 ++ new2). cbn [cgo]. rewrite Ec; cbn [bind]. rewrite El; cbn [bind].
      split; [now rewrite state_app|]. split; [now apply fresh_seq_app|]. cbn [flat_map]. split.
      + apply Forall_app; split; [now apply hoisted_l | now apply hoisted_r].
      + intros rho rho' Hag Hbd. apply Forall_app in Hbd. destruct Hbd as [Hb1 Hb2]. cbn [map].
        f_equal; [apply Hv1 | apply Hv2]; eauto using agree_l, agree_r.
  Qed.

  Lemma cgo_kw_spec kw : Forall (fun kv => Spec (crec0 (snd kv)) (snd kv)) kw ->
    forall n log, exists kw' new,
      cgo_kw crec0 kw (n, log) = Ok (kw', (n + len new, log ++ new)) /\
      fresh_seq n new /\
      Forall (hoisted_ok (flat_map (fun kv => names (snd kv)) kw)) new /\
      (forall rho rho', agree (flat_map (fun kv => names (snd kv)) kw) rho rho' ->
                        Forall (bound rho rho') new ->
                        map (fun kv => (fst kv, ev rho' (snd kv))) kw' =
                        map (fun kv => (fst kv, ev rho (snd kv))) kw).
  Proof.
    induction 1 as [|kv kw Hc _ IH]; intros n log.
    - exists [], []. cbn [cgo_kw]. rewrite <- state_nil. repeat split; auto.
    - destruct (Hc n log) as (c' & new1 & Ec & Hs1 & Hh1 & Hv1).
      destruct (IH (n + len new1) (log ++ new1)) as (kw' & new2 & El & Hs2 & Hh2 & Hv2).
      exists ((fst kv, c') :: kw'), (new1 ++ new2). cbn [cgo_kw]. rewrite Ec; cbn [bind].
      rewrite El; cbn [bind].
      split; [now rewrite state_app|]. split; [now apply fresh_seq_app|]. cbn [flat_map]. split.
      + apply Forall_app; split; [now apply hoisted_l | now apply hoisted_r].
      + intros rho rho' Hag Hbd. apply Forall_app in Hbd. destruct Hbd as [Hb1 Hb2]. cbn [map fst snd].
        f_equal; [f_equal; apply Hv1 | apply Hv2]; eauto using agree_l, agree_r.
  Qed.

  Lemma cloop_spec l : Forall (fun c => Spec (crec0 c) c) l ->
    forall n log, exists ncs new,
      cloop look0 crec0 l (n, log) = Ok (filter isc l, ncs, (n + len new, log ++ new)) /\
      fresh_seq n new /\
      Forall (hoisted_ok (flat_map names l)) new /\
      List.length ncs = List.length (filter nisc l) /\
      (forall rho rho', agree (flat_map names l) rho rho' -> Forall (bound rho rho') new ->
                        map (ev rho') ncs = map (ev rho) (filter nisc l)).
  Proof.
    induction 1 as [|c l Hc _ IH]; intros n log.
    - exists [], []. cbn [cloop filter]. rewrite <- state_nil. repeat split; auto.
    - cbn [cloop filter flat_map]. unfold look0 at 1. destruct (isc c) eqn:Hi; cbn [negb].
      + destruct (IH n log) as (ncs & new & E & Hs & Hh & Hl & Hv).
        exists ncs, new. rewrite E; cbn [bind]. split; [reflexivity|]. split; [exact Hs|]. split.
        * now apply hoisted_r.
        * split; [exact Hl|]. intros rho rho' Hag Hbd. apply Hv; eauto using agree_r.
      + destruct (Hc n log) as (c' & new1 & Ec & Hs1 & Hh1 & Hv1).
        destruct (IH (n + len new1) (log ++ new1)) as (ncs & new2 & El & Hs2 & Hh2 & Hl & Hv2).
        exists (c' :: ncs), (new1 ++ new2). rewrite Ec; cbn [bind]. rewrite El; cbn [bind].
        split; [now rewrite state_app|]. split; [now apply fresh_seq_app|]. split.
        * apply Forall_app; split; [now apply hoisted_l | now apply hoisted_r].
        * split; [cbn [List.length]; now rewrite Hl|].
          intros rho rho' Hag Hbd. apply Forall_app in Hbd. destruct Hbd as [Hb1 Hb2]. cbn [map].
          f_equal; [apply Hv1 | apply Hv2]; eauto using agree_l, agree_r.
  Qed.

  Lemma filter_all {A} (p : A -> bool) l : forallb p (filter p l) = true.
  Proof. induction l as [|a l IH]; cbn; [reflexivity|]. destruct (p a) eqn:E; cbn; [now rewrite E|exact IH]. Qed.

  Lemma flat_map_filter_incl {A B} (g : A -> list B) (p : A -> bool) l :
    incl (flat_map g (filter p l)) (flat_map g l).
  Proof.
    intros x Hx. apply in_flat_map in Hx. destruct Hx as (a & Ha & Hxa). apply in_flat_map.
    exists a. split; auto. apply filter_In in Ha. tauto.
  Qed.

  Section Commut.
    Variable mk : list expr -> expr.
    Variable op : Z -> Z -> Z.
    Variable u : Z.
    Hypothesis op_assoc : forall a b c, op a (op b c) = op (op a b) c.
    Hypothesis op_comm : forall a b, op a b = op b a.
    Hypothesis op_unit : forall a, op a u = a.
    Hypothesis mk_ev : forall rho l, ev rho (mk l) = fold_right op u (map (ev rho) l).
    Hypothesis mk_names : forall l, names (mk l) = flat_map names l.
    Hypothesis mk_isc : forall l, isc (mk l) = forallb isc l.
    Hypothesis mk_atomic : forall l, is_atomic (mk l) = false.
    Notation big := (fold_right op u).

    Definition fold_part (c0 : expr) (crest : list expr) (s : cstate) : expr * cstate :=
      match crest with
      | [] => if is_atomic c0 then (c0, s) else hoist fresh c0 s
      | _ => hoist fresh (mk (c0 :: crest)) s
      end.

    Lemma fold_part_spec N c0 crest n log :
      forallb isc (c0 :: crest) = true -> incl (flat_map names (c0 :: crest)) N ->
      exists folded new,
        fold_part c0 crest (n, log) = (folded, (n + len new, log ++ new)) /\
        fresh_seq n new /\ Forall (hoisted_ok N) new /\
        (forall rho rho', agree N rho rho' -> Forall (bound rho rho') new ->
                          ev rho' folded = big (map (ev rho) (c0 :: crest))).
    Proof.
      intros Hall Hinc. unfold fold_part.
      assert (Hone : forall c, isc c = true -> is_atomic c = false -> incl (names c) N ->
                exists folded new,
                  hoist fresh c (n, log) = (folded, (n + len new, log ++ new)) /\
                  fresh_seq n new /\ Forall (hoisted_ok N) new /\
                  (forall rho rho', agree N rho rho' -> Forall (bound rho rho') new ->
                                    ev rho' folded = ev rho c)).
      { intros c H1 H2 H3. exists (EVar (fresh n)), [(fresh n, c)]. cbn [hoist fst snd List.length].
        split; [now rewrite Nat.add_1_r|]. split; [reflexivity|]. split.
        - constructor; [|constructor]. split; [exact H1 | split; [exact H2 | exact H3]].
        - intros rho rho' _ Hb. inversion Hb as [|? ? Hb1 _]; subst. exact Hb1. }
      destruct crest as [|c1 crest].
      - cbn [forallb] in Hall. rewrite andb_true_r in Hall.
        assert (Hn0 : incl (names c0) N).
        { intros x Hx. apply Hinc. cbn. rewrite app_nil_r. exact Hx. }
        destruct (is_atomic c0) eqn:Hat.
        + exists c0, []. rewrite <- state_nil. repeat split; auto.
          intros rho rho' Hag _. cbn [map fold_right]. rewrite op_unit.
          apply eval_agree. eapply agree_mono; eauto.
        + destruct (Hone c0 Hall Hat Hn0) as (folded & new & E & Hs & Hh & Hv).
          exists folded, new. repeat split; auto.
          intros rho rho' Hag Hbd. cbn [map fold_right]. rewrite op_unit. now apply Hv.
      - destruct (Hone (mk (c0 :: c1 :: crest))) as (folded & new & E & Hs & Hh & Hv).
        + now rewrite mk_isc.
        + apply mk_atomic.
        + now rewrite mk_names.
        + exists folded, new. repeat split; auto.
          intros rho rho' Hag Hbd. rewrite <- mk_ev. now apply Hv.
    Qed.

    Lemma finish_unfold c0 crest ncs s :
      finish_commut fresh mk (c0 :: crest) ncs s =
      let '(folded, s') := fold_part c0 crest s in
      match ncs with
      | [] => Ok (folded, s')
      | _ => Ok (mk (folded :: ncs), s')
      end.
    Proof. reflexivity. Qed.

    Lemma finish_spec l ncs n log :
      l <> [] -> List.length ncs = List.length (filter nisc l) ->
      exists e' new,
        finish_commut fresh mk (filter isc l) ncs (n, log) = Ok (e', (n + len new, log ++ new)) /\
        fresh_seq n new /\ Forall (hoisted_ok (flat_map names l)) new /\
        (forall rho rho', agree (flat_map names l) rho rho' -> Forall (bound rho rho') new ->
                          map (ev rho') ncs = map (ev rho) (filter nisc l) ->
                          ev rho' e' = big (map (ev rho) l)).
    Proof.
      intros Hne Hlen.
      assert (Hall : forallb isc (filter isc l) = true) by apply filter_all.
      assert (Hinc : incl (flat_map names (filter isc l)) (flat_map names l))
        by apply flat_map_filter_incl.
      assert (Hpart : forall rho, big (map (ev rho) l) =
                op (big (map (ev rho) (filter isc l))) (big (map (ev rho) (filter nisc l))))
        by (intros rho; apply big_partition; auto).
      pose proof (filter_length_split isc l) as Hsplit.
      destruct (filter isc l) as [|c0 crest].
      - destruct ncs as [|x [|y ncs']].
        + exfalso. cbn in Hlen, Hsplit. rewrite <- Hlen in Hsplit. cbn in Hsplit.
          destruct l; [now apply Hne | discriminate].
        + exists x, []. cbn [finish_commut]. rewrite <- state_nil. repeat split; auto.
          intros rho rho' _ _ Hncs. rewrite Hpart, <- Hncs. cbn [map fold_right].
          now rewrite op_unit, op_comm, op_unit.
        + exists (mk (x :: y :: ncs')), []. cbn [finish_commut]. rewrite <- state_nil. repeat split; auto.
          intros rho rho' _ _ Hncs. rewrite Hpart, <- Hncs, mk_ev. cbn [map fold_right].
          now rewrite (op_comm u), op_unit.
      - destruct (fold_part_spec (flat_map names l) c0 crest n log Hall Hinc)
          as (folded & new & E & Hs & Hh & Hv).
        rewrite finish_unfold, E.
        destruct ncs as [|x ncs'].
        + exists folded, new. repeat split; auto.
          intros rho rho' Hag Hbd Hncs. rewrite Hpart, <- Hncs. cbn [map fold_right].
          rewrite op_unit. now apply Hv.
        + exists (mk (folded :: x :: ncs')), new. repeat split; auto.
          intros rho rho' Hag Hbd Hncs. rewrite Hpart, <- Hncs, mk_ev. cbn [map fold_right].
          f_equal. now apply Hv.
    Qed.

    Lemma commut_spec l :
      l <> [] -> Forall (fun c => Spec (crec0 c) c) l ->
      Spec (fun s => '(cs, ncs, s') <- cloop look0 crec0 l s ;; finish_commut fresh mk cs ncs s') (mk l).
    Proof.
      intros Hne HF n log.
      destruct (cloop_spec l HF n log) as (ncs & new1 & E1 & Hs1 & Hh1 & Hl & Hv1).
      destruct (finish_spec l ncs (n + len new1) (log ++ new1) Hne Hl)
        as (e' & new2 & E2 & Hs2 & Hh2 & Hv2).
      exists e', (new1 ++ new2). rewrite E1; cbn [bind]. rewrite E2.
      split; [now rewrite state_app|]. split; [now apply fresh_seq_app|]. rewrite mk_names. split.
      - apply Forall_app; split; assumption.
      - intros rho rho' Hag Hbd. apply Forall_app in Hbd. destruct Hbd as [Hb1 Hb2].
        rewrite mk_ev. apply Hv2; auto.
    Qed.
  End Commut.

  Lemma forallb_Forall {A} (p : A -> bool) l : forallb p l = true -> Forall (fun a => p a = true) l.
  Proof. intros H. apply Forall_forall. now apply forallb_forall. Qed.

  Lemma cmap_spec e : wfb e = true -> Spec (cmap0 e) e.
  Proof.
    induction e as [z|x|l IH|l IH|a b IHa IHb|a b IHa IHb|f l IH|f l kw IH IHk|a IH] using expr_ind'; intros Hwf.
    - intros n log. exists (EInt z), []. cbn [cmap]. rewrite <- state_nil. repeat split; auto.
    - intros n log. exists (EVar x), []. cbn [cmap]. rewrite <- state_nil. repeat split; auto.
      intros rho rho' Hag _. apply Hag. now left.
    - cbn [wfb] in Hwf. apply andb_true_iff in Hwf. destruct Hwf as [Hne Hwf].
      assert (HF : Forall (fun c => Spec (crec0 c) c) l).
      { apply forallb_Forall in Hwf. rewrite Forall_forall in *. intros c Hc. apply crec_spec; auto. }
      assert (Hne' : l <> []) by (destruct l; [discriminate | discriminate]).
      exact (commut_spec ESum Z.add 0%Z Z.add_assoc Z.add_comm Z.add_0_r
               (fun _ _ => eq_refl) (fun _ => eq_refl) (fun _ => eq_refl) (fun _ => eq_refl) l Hne' HF).
    - cbn [wfb] in Hwf. apply andb_true_iff in Hwf. destruct Hwf as [Hne Hwf].
      assert (HF : Forall (fun c => Spec (crec0 c) c) l).
      { apply forallb_Forall in Hwf. rewrite Forall_forall in *. intros c Hc. apply crec_spec; auto. }
      assert (Hne' : l <> []) by (destruct l; [discriminate | discriminate]).
      exact (commut_spec EProd Z.mul 1%Z Z.mul_assoc Z.mul_comm Z.mul_1_r
               (fun _ _ => eq_refl) (fun _ => eq_refl) (fun _ => eq_refl) (fun _ => eq_refl) l Hne' HF).
    - cbn [wfb] in Hwf. apply andb_true_iff in Hwf. destruct Hwf as [Hwa Hwb].
      exact (bin_spec EQuot qop a b (fun _ _ _ => eq_refl) eq_refl
               (crec_spec a (IHa Hwa)) (crec_spec b (IHb Hwb))).
    - cbn [wfb] in Hwf. apply andb_true_iff in Hwf. destruct Hwf as [Hwa Hwb].
      exact (bin_spec EPow pop a b (fun _ _ _ => eq_refl) eq_refl
               (crec_spec a (IHa Hwa)) (crec_spec b (IHb Hwb))).
    - cbn [wfb] in Hwf.
      assert (HF : Forall (fun c => Spec (crec0 c) c) l).
      { apply forallb_Forall in Hwf. rewrite Forall_forall in *. intros c Hc. apply crec_spec; auto. }
      intros n log. destruct (cgo_spec l HF n log) as (l' & new & E & Hs & Hh & Hv).
      exists (ECall f l'), new. cbn [cmap]. rewrite E; cbn [bind]. split; [reflexivity|].
      split; [exact Hs|]. cbn [names]. split.
      + eapply hoisted_mono; eauto. apply incl_tl, incl_refl.
      + intros rho rho' Hag Hbd. cbn [eval]. f_equal. apply Hv; auto.
        intros y Hy. apply Hag. now right.
    - cbn [wfb] in Hwf. apply andb_true_iff in Hwf. destruct Hwf as [Hwl Hwk].
      assert (HF : Forall (fun c => Spec (crec0 c) c) l).
      { apply forallb_Forall in Hwl. rewrite Forall_forall in *. intros c Hc. apply crec_spec; auto. }
      assert (HFk : Forall (fun kv => Spec (crec0 (snd kv)) (snd kv)) kw).
      { apply forallb_Forall in Hwk. rewrite Forall_forall in *. intros kv Hkv. apply crec_spec; auto. }
      intros n log. destruct (cgo_spec l HF n log) as (l' & new1 & E1 & Hs1 & Hh1 & Hv1).
      destruct (cgo_kw_spec kw HFk (n + len new1) (log ++ new1)) as (kw' & new2 & E2 & Hs2 & Hh2 & Hv2).
      exists (ECallKw f l' kw'), (new1 ++ new2). cbn [cmap]. rewrite E1; cbn [bind]. rewrite E2; cbn [bind].
      split; [now rewrite state_app|]. split; [now apply fresh_seq_app|]. cbn [names]. split.
      + apply Forall_app; split; (eapply hoisted_mono; [|eassumption]); apply incl_tl;
          [apply incl_appl | apply incl_appr]; apply incl_refl.
      + intros rho rho' Hag Hbd. apply Forall_app in Hbd. destruct Hbd as [Hb1 Hb2]. cbn [eval].
        assert (Hag' : agree (flat_map names l ++ flat_map (fun kv => names (snd kv)) kw) rho rho')
          by (intros y Hy; apply Hag; now right).
        f_equal; [apply Hv1 | apply Hv2]; eauto using agree_l, agree_r.
    - cbn [wfb] in Hwf.
      exact (un_spec ENot nop a (fun _ _ => eq_refl) eq_refl (crec_spec a (IH Hwf))).
  Qed.
(* END-SPEC *)
End CollapseSpec.

(* ================================================================== *)
(* Part 5: the driver and the property theorems *)
Lemma aset_fresh d k v : ~ In k (map fst d) -> aset d k v = d ++ [(k, v)].
Proof.
  induction d as [|[k' v'] d IH]; cbn; intros H; [reflexivity|].
  destruct (String.eqb k' k) eqn:E.
  - apply String.eqb_eq in E. subst. exfalso. apply H. now left.
  - f_equal. apply IH. intros Hin. apply H. now right.
Qed.

Lemma dict_of_log_gen log : forall acc, NoDup (map fst (acc ++ log)) ->
  fold_left (fun d kv => aset d (fst kv) (snd kv)) log acc = acc ++ log.
Proof.
  induction log as [|[k v] log IH]; intros acc H; cbn [fold_left fst snd]; [now rewrite app_nil_r|].
  rewrite aset_fresh.
  - rewrite IH; rewrite <- app_assoc; [reflexivity | exact H].
  - rewrite map_app in H. cbn in H. apply NoDup_remove_2 in H. intros Hin. apply H.
    apply in_or_app. now left.
Qed.

Lemma dict_of_log_nodup log : NoDup (map fst log) -> dict_of_log log = log.
Proof. intros H. unfold dict_of_log. now rewrite dict_of_log_gen. Qed.

Lemma aset_Forall (Q : expr -> Prop) d k v :
  Forall (fun xc => Q (snd xc)) d -> Q v -> Forall (fun xc => Q (snd xc)) (aset d k v).
Proof.
  induction 1 as [|[k' v'] d Hh Hd IH]; intros Hv; cbn [aset]; [repeat constructor; exact Hv|].
  destruct (String.eqb k' k); constructor; cbn [snd] in *; auto.
Qed.

Lemma dict_of_log_Forall (Q : expr -> Prop) log :
  Forall (fun xc => Q (snd xc)) log -> Forall (fun xc => Q (snd xc)) (dict_of_log log).
Proof.
  unfold dict_of_log. intros H.
  assert (G : forall acc, Forall (fun xc => Q (snd xc)) acc ->
                          Forall (fun xc => Q (snd xc))
                                 (fold_left (fun d kv => aset d (fst kv) (snd kv)) log acc)).
  { induction H as [|[k v] log Hh _ IH]; intros acc Ha; cbn [fold_left]; [exact Ha|].
    apply IH. now apply aset_Forall. }
  apply G. constructor.
Qed.

Lemma isconst_names free e : isconst free e = true -> forall v, In v (names e) -> ~ In v free.
Proof.
  induction e as [z|x|l IH|l IH|a b IHa IHb|a b IHa IHb|f l IH|f l kw IH IHk|a IH] using expr_ind';
    cbn [isconst names]; intros H v Hv.
  - destruct Hv.
  - destruct Hv as [<-|[]]. intros Hin. apply mem_In in Hin. rewrite Hin in H. discriminate.
  - apply in_flat_map in Hv. destruct Hv as (c & Hc & Hvc). rewrite Forall_forall in IH.
    apply (IH c Hc); auto. rewrite forallb_forall in H. auto.
  - apply in_flat_map in Hv. destruct Hv as (c & Hc & Hvc). rewrite Forall_forall in IH.
    apply (IH c Hc); auto. rewrite forallb_forall in H. auto.
  - apply andb_true_iff in H. destruct H. apply in_app_or in Hv. destruct Hv; [apply IHa | apply IHb]; auto.
  - apply andb_true_iff in H. destruct H. apply in_app_or in Hv. destruct Hv; [apply IHa | apply IHb]; auto.
  - apply andb_true_iff in H. destruct H as [Hf Hl]. destruct Hv as [<-|Hv].
    + intros Hin. apply mem_In in Hin. rewrite Hin in Hf. discriminate.
    + apply in_flat_map in Hv. destruct Hv as (c & Hc & Hvc). rewrite Forall_forall in IH.
      apply (IH c Hc); auto. rewrite forallb_forall in Hl. auto.
  - apply andb_true_iff in H. destruct H as [H Hk]. apply andb_true_iff in H. destruct H as [Hf Hl].
    destruct Hv as [<-|Hv].
    + intros Hin. apply mem_In in Hin. rewrite Hin in Hf. discriminate.
    + apply in_app_or in Hv. destruct Hv as [Hv|Hv]; apply in_flat_map in Hv.
      * destruct Hv as (c & Hc & Hvc). rewrite Forall_forall in IH.
        apply (IH c Hc); auto. rewrite forallb_forall in Hl. auto.
      * destruct Hv as (kv & Hkv & Hvc). rewrite Forall_forall in IHk.
        apply (IHk kv Hkv); auto. rewrite forallb_forall in Hk. auto.
  - now apply IH.
Qed.

Section Binding.
  Variable qop pop : Z -> Z -> Z.
  Variable nop : Z -> Z.
  Variable F : string -> list Z -> Z.
  Variable Fk : string -> list Z -> list (string * Z) -> Z.
  Notation ev := (eval qop pop nop F Fk).
  Notation ball := (bind_all qop pop nop F Fk).
  Notation bnd := (bound qop pop nop F Fk).

  Lemma bind_all_cons rho x c r : ball rho ((x, c) :: r) = ball (upd rho x (ev rho c)) r.
  Proof. reflexivity. Qed.

  Lemma bind_all_other asg : forall rho y, ~ In y (map fst asg) -> ball rho asg y = rho y.
  Proof.
    induction asg as [|[x c] r IH]; intros rho y H; [reflexivity|].
    rewrite bind_all_cons, IH; [|intros Hin; apply H; now right].
    unfold upd. destruct (String.eqb y x) eqn:E; [|reflexivity].
    apply String.eqb_eq in E. subst. exfalso. apply H. now left.
  Qed.

  Lemma bind_all_spec N asg :
    NoDup (map fst asg) -> (forall x, In x (map fst asg) -> ~ In x N) ->
    Forall (fun xc => incl (names (snd xc)) N) asg ->
    forall rho, agree N rho (ball rho asg) /\ Forall (bnd rho (ball rho asg)) asg.
  Proof.
    induction asg as [|[x c] r IH]; intros Hnd Hfr Hinc rho.
    - split; [intros y _; reflexivity | constructor].
    - cbn [map fst] in Hnd, Hfr. inversion Hnd as [|? ? Hx Hnd']; subst.
      inversion Hinc as [|? ? Hc Hinc']; subst. cbn [snd] in Hc.
      set (rho1 := upd rho x (ev rho c)).
      assert (Hag1 : agree N rho rho1).
      { intros y Hy. unfold rho1, upd. destruct (String.eqb y x) eqn:E; [|reflexivity].
        apply String.eqb_eq in E. subst. exfalso. apply (Hfr x); auto. now left. }
      destruct (IH Hnd' (fun y Hy => Hfr y (or_intror Hy)) Hinc' rho1) as [Hag Hbd].
      rewrite bind_all_cons. fold rho1. split.
      + intros y Hy. rewrite (Hag y Hy). now apply Hag1.
      + constructor.
        * unfold bound. cbn [fst snd]. rewrite bind_all_other; [|exact Hx].
          unfold rho1, upd. now rewrite String.eqb_refl.
        * rewrite Forall_forall in *. intros [x' c'] Hin. specialize (Hbd _ Hin).
          unfold bound in *. cbn [fst snd] in *. rewrite Hbd. apply eval_agree.
          eapply agree_mono; [|exact Hag1]. exact (Hinc' _ Hin).
  Qed.

  (* substituting the hoisted terms back *)
  Definition ext_env (rho : string -> Z) (asg : list (string * expr)) : string -> Z :=
    fun y => match alookup y asg with Some c => ev rho c | None => rho y end.

  Lemma eval_subst asg rho e : ev rho (subst asg e) = ev (ext_env rho asg) e.
  Proof.
    induction e as [z|x|l IH|l IH|a b IHa IHb|a b IHa IHb|f l IH|f l kw IH IHk|a IH] using expr_ind';
      cbn [subst eval].
    - reflexivity.
    - unfold ext_env. destruct (alookup x asg); reflexivity.
    - f_equal. rewrite map_map. apply map_ext_in. now apply Forall_forall.
    - f_equal. rewrite map_map. apply map_ext_in. now apply Forall_forall.
    - now rewrite IHa, IHb.
    - now rewrite IHa, IHb.
    - f_equal. rewrite map_map. apply map_ext_in. now apply Forall_forall.
    - f_equal.
      + rewrite map_map. apply map_ext_in. now apply Forall_forall.
      + rewrite map_map. apply map_ext_in. intros kv Hkv. cbn [fst snd]. f_equal.
        rewrite Forall_forall in IHk. now apply IHk.
    - now rewrite IH.
  Qed.

  Lemma alookup_none y asg : ~ In y (map fst asg) -> alookup y asg = None.
  Proof.
    induction asg as [|[x c] r IH]; intros H; [reflexivity|]. cbn [alookup].
    destruct (String.eqb y x) eqn:E.
    - apply String.eqb_eq in E. subst. exfalso. apply H. now left.
    - apply IH. intros Hin. apply H. now right.
  Qed.

  Lemma alookup_some x c asg : NoDup (map fst asg) -> In (x, c) asg -> alookup x asg = Some c.
  Proof.
    induction asg as [|[x' c'] r IH]; intros Hnd Hin; [destruct Hin|].
    cbn [map fst] in Hnd. inversion Hnd as [|? ? Hx Hnd']; subst. cbn [alookup].
    destruct Hin as [[= -> ->]|Hin]; [now rewrite String.eqb_refl|].
    destruct (String.eqb x x') eqn:E; [|now apply IH].
    apply String.eqb_eq in E. subst. exfalso. apply Hx. apply in_map_iff. now exists (x', c).
  Qed.

  Lemma ext_env_spec N asg :
    NoDup (map fst asg) -> (forall x, In x (map fst asg) -> ~ In x N) ->
    forall rho, agree N rho (ext_env rho asg) /\ Forall (bnd rho (ext_env rho asg)) asg.
  Proof.
    intros Hnd Hfr rho. split.
    - intros y Hy. unfold ext_env. rewrite alookup_none; [reflexivity|].
      intros Hin. exact (Hfr y Hin Hy).
    - apply Forall_forall. intros [x c] Hin. unfold bound, ext_env. cbn [fst snd].
      now rewrite (alookup_some x c asg Hnd Hin).
  Qed.
End Binding.

Section Final.
  Variable fresh : nat -> string.
  Variable free : list string.

  (* what a run of collapse_constants is, once the finder is known to be right *)
  Lemma collapse_char e :
    match collapse true fresh free e with
    | Ok (e', asg, n) =>
        wfb e = true /\
        exists new, cmap fresh (look0 free) e (0, []) = Ok (e', (n, new)) /\ asg = dict_of_log new
    | TypeError => wfb e = false
    | _ => False
    end.
  Proof.
    unfold collapse. generalize (find_char free e).
    destruct (find true free e) as [d| | | |]; cbn [bind]; auto.
    intros [Hw Hcov].
    rewrite (cmap_ext fresh (dget d) (look0 free) e).
    - destruct (cmap_spec free fresh Z.add Z.add Z.opp (fun _ _ => 0%Z) (fun _ _ _ => 0%Z) e Hw 0 [])
        as (e' & new & E & _).
      rewrite E. cbn [bind app Nat.add]. split; [exact Hw|]. exists new. auto.
    - unfold covers in Hcov. rewrite Forall_forall in Hcov. exact Hcov.
  Qed.

  Lemma collapse_inv e e' asg n :
    collapse true fresh free e = Ok (e', asg, n) ->
    wfb e = true /\
    exists new, asg = dict_of_log new /\ n = List.length new /\
      fresh_seq fresh 0 new /\
      Forall (hoisted_ok free (names e)) new /\
      forall qop pop nop F Fk rho rho',
        agree (names e) rho rho' -> Forall (bound qop pop nop F Fk rho rho') new ->
        eval qop pop nop F Fk rho' e' = eval qop pop nop F Fk rho e.
  Proof.
    intros H. generalize (collapse_char e). rewrite H. intros (Hw & new & E & ->).
    split; [exact Hw|]. exists new. split; [reflexivity|].
    destruct (cmap_spec free fresh Z.add Z.add Z.opp (fun _ _ => 0%Z) (fun _ _ _ => 0%Z) e Hw 0 [])
      as (e1 & new1 & E1 & Hs & Hh & _).
    rewrite E in E1. cbn [app Nat.add] in E1. injection E1 as <- -> <-.
    split; [reflexivity|]. split; [exact Hs|]. split; [exact Hh|].
    intros qop pop nop F Fk rho rho' Hag Hbd.
    destruct (cmap_spec free fresh qop pop nop F Fk e Hw 0 []) as (e2 & new2 & E2 & _ & _ & Hv).
    rewrite E in E2. cbn [app Nat.add] in E2. injection E2 as <- _ <-. now apply Hv.
  Qed.

  Theorem collapse_total e : wfb e = true -> exists e' asg n, collapse true fresh free e = Ok (e', asg, n).
  Proof.
    intros Hw. generalize (collapse_char e).
    destruct (collapse true fresh free e) as [[[e' asg] n]| | | |]; try contradiction; eauto.
    intros Hf. rewrite Hw in Hf. discriminate.
  Qed.

  Theorem collapse_error e : wfb e = false -> collapse true fresh free e = TypeError.
  Proof.
    intros Hw. generalize (collapse_char e).
    destruct (collapse true fresh free e) as [[[e' asg] n]| | | |]; try contradiction; auto.
    intros (Hf & _). rewrite Hw in Hf. discriminate.
  Qed.

  Theorem collapse_constant e e' asg n :
    collapse true fresh free e = Ok (e', asg, n) ->
    Forall (fun xc => (forall v, In v free -> ~ In v (names (snd xc))) /\
                      is_atomic (snd xc) = false /\ incl (names (snd xc)) (names e)) asg.
  Proof.
    intros H. destruct (collapse_inv e e' asg n H) as (_ & new & -> & _ & _ & Hh & _).
    apply (dict_of_log_Forall
             (fun c => (forall v, In v free -> ~ In v (names c)) /\
                       is_atomic c = false /\ incl (names c) (names e))).
    eapply Forall_impl; [|exact Hh]. intros [x c] (H1 & H2 & H3). cbn [snd] in *.
    split; [|auto]. intros v Hv Hin. exact (isconst_names free c H1 v Hin Hv).
  Qed.

  Theorem collapse_once e e' asg n :
    collapse true fresh free e = Ok (e', asg, n) ->
    NoDup (map fresh (seq 0 n)) ->
    NoDup (map fst asg) /\ map fst asg = map fresh (seq 0 n) /\ List.length asg = n.
  Proof.
    intros H Hnd. destruct (collapse_inv e e' asg n H) as (_ & new & -> & -> & Hs & _).
    unfold fresh_seq in Hs. rewrite <- Hs in Hnd. rewrite (dict_of_log_nodup new Hnd).
    repeat split; auto.
  Qed.

  Theorem collapse_value e e' asg n :
    collapse true fresh free e = Ok (e', asg, n) ->
    NoDup (map fresh (seq 0 n)) ->
    (forall i, i < n -> ~ In (fresh i) (names e)) ->
    forall qop pop nop F Fk rho,
      eval qop pop nop F Fk (bind_all qop pop nop F Fk rho asg) e' = eval qop pop nop F Fk rho e /\
      eval qop pop nop F Fk rho (subst asg e') = eval qop pop nop F Fk rho e.
  Proof.
    intros H Hnd Hfr qop pop nop F Fk rho.
    destruct (collapse_inv e e' asg n H) as (_ & new & -> & -> & Hs & Hh & Hv).
    unfold fresh_seq in Hs. rewrite <- Hs in Hnd. rewrite (dict_of_log_nodup new Hnd).
    assert (Hfr' : forall x, In x (map fst new) -> ~ In x (names e)).
    { intros x Hx. rewrite Hs in Hx. apply in_map_iff in Hx. destruct Hx as (i & <- & Hi).
      apply in_seq in Hi. apply Hfr. lia. }
    assert (Hinc : Forall (fun xc => incl (names (snd xc)) (names e)) new).
    { eapply Forall_impl; [|exact Hh]. intros xc (_ & _ & H3). exact H3. }
    split.
    - destruct (bind_all_spec qop pop nop F Fk (names e) new Hnd Hfr' Hinc rho) as [Hag Hbd].
      now apply Hv.
    - rewrite eval_subst.
      destruct (ext_env_spec qop pop nop F Fk (names e) new Hnd Hfr' rho) as [Hag Hbd].
      now apply Hv.
  Qed.
End Final.

(* ---- the code as found (pass-through methods inherited): a well-formed expression on which
   collapse_constants raises KeyError ---- *)
Lemma collapse_unfixed_refuted :
  exists fresh free e, wfb e = true /\ collapse false fresh free e = KeyError.
Proof.
  exists fresh_v, ["x"], (ESum [EVar "x"; ENot (EVar "a")]). split; vm_compute; reflexivity.
Qed.

(* ---- Examples: the hypotheses are satisfiable on a non-trivial input ---- *)
Definition ex_expr : expr :=
  ESum [EVar "x";
        EProd [EVar "b"; EVar "a"; EVar "x"; ESum [EVar "a"; EInt 2]];
        ECall "f" [EProd [EVar "a"; EVar "b"]; EVar "x"; ECall "g" [EPow (EVar "a") (EInt 2)]];
        EQuot (ENot (EVar "a")) (ESum [EVar "b"; EInt 1]);
        EVar "a"; EInt 3].

Definition ex_expr' : expr :=
  ESum [EVar "v3"; EVar "x";
        EProd [EVar "v0"; EVar "x"];
        ECall "f" [EVar "v1"; EVar "x"; EVar "v2"]].

Definition ex_asg : list (string * expr) :=
  [("v0", EProd [EVar "b"; EVar "a"; ESum [EVar "a"; EInt 2]]);
   ("v1", EProd [EVar "a"; EVar "b"]);
   ("v2", ECall "g" [EPow (EVar "a") (EInt 2)]);
   ("v3", ESum [EQuot (ENot (EVar "a")) (ESum [EVar "b"; EInt 1]); EVar "a"; EInt 3])].

Example ex_collapse_exact : collapse true fresh_v ["x"] ex_expr = Ok (ex_expr', ex_asg, 4).
Proof. vm_compute. reflexivity. Qed.

Example ex_collapse_run :
  exists e' asg n, collapse true fresh_v ["x"] ex_expr = Ok (e', asg, n) /\ n = 4 /\ List.length asg = 4.
Proof. vm_compute. repeat eexists. Qed.

Example ex_collapse_hyps :
  wfb ex_expr = true /\
  exists e' asg n, collapse true fresh_v ["x"] ex_expr = Ok (e', asg, n) /\
    NoDup (map fresh_v (seq 0 n)) /\ (forall i, i < n -> ~ In (fresh_v i) (names ex_expr)).
Proof.
  split; [reflexivity|]. vm_compute collapse. do 3 eexists. split; [reflexivity|]. split.
  - vm_compute. repeat constructor; cbn; intuition discriminate.
  - intros i Hi. do 4 (destruct i as [|i]; [vm_compute; intuition discriminate|]). lia.
Qed.

Example ex_collapse_value :
  forall rho, exists e' asg n, collapse true fresh_v ["x"] ex_expr = Ok (e', asg, n) /\
    eval Z.div Z.pow (fun v => if Z.eqb v 0 then 1%Z else 0%Z) (fun _ l => zsum l) (fun _ l kw => (zsum l + zsum (map snd kw))%Z)
         (bind_all Z.div Z.pow (fun v => if Z.eqb v 0 then 1%Z else 0%Z) (fun _ l => zsum l) (fun _ l kw => (zsum l + zsum (map snd kw))%Z) rho asg) e'
    = eval Z.div Z.pow (fun v => if Z.eqb v 0 then 1%Z else 0%Z) (fun _ l => zsum l) (fun _ l kw => (zsum l + zsum (map snd kw))%Z) rho ex_expr.
Proof.
  intros rho. destruct ex_collapse_hyps as (_ & e' & asg & n & E & Hnd & Hfr).
  exists e', asg, n. split; [exact E|].
  now apply (collapse_value fresh_v ["x"] ex_expr e' asg n E Hnd Hfr).
Qed.

(* calls with keyword arguments: positional and keyword values are hoisted in order, the keys
   are kept in place; a constant call with keyword arguments is hoisted as a whole *)
Definition ex_kw_expr : expr :=
  ESum [EVar "x";
        ECallKw "f" [ESum [EVar "a"; EInt 1]; EVar "x"]
                [("m", EProd [EVar "a"; EVar "b"]);
                 ("k", EQuot (EVar "x") (ESum [EVar "b"; EInt 2]))];
        ECallKw "g" [EVar "a"] [("s", ENot (EVar "b"))]].

Definition ex_kw_expr' : expr :=
  ESum [EVar "v3"; EVar "x";
        ECallKw "f" [EVar "v0"; EVar "x"] [("m", EVar "v1"); ("k", EQuot (EVar "x") (EVar "v2"))]].

Definition ex_kw_asg : list (string * expr) :=
  [("v0", ESum [EVar "a"; EInt 1]);
   ("v1", EProd [EVar "a"; EVar "b"]);
   ("v2", ESum [EVar "b"; EInt 2]);
   ("v3", ECallKw "g" [EVar "a"] [("s", ENot (EVar "b"))])].

Example ex_kw_collapse_exact : collapse true fresh_v ["x"] ex_kw_expr = Ok (ex_kw_expr', ex_kw_asg, 4).
Proof. vm_compute. reflexivity. Qed.

Example ex_kw_collapse_hyps :
  wfb ex_kw_expr = true /\
  exists e' asg n, collapse true fresh_v ["x"] ex_kw_expr = Ok (e', asg, n) /\
    NoDup (map fresh_v (seq 0 n)) /\ (forall i, i < n -> ~ In (fresh_v i) (names ex_kw_expr)).
Proof.
  split; [reflexivity|]. vm_compute collapse. do 3 eexists. split; [reflexivity|]. split.
  - vm_compute. repeat constructor; cbn; intuition discriminate.
  - intros i Hi. do 4 (destruct i as [|i]; [vm_compute; intuition discriminate|]). lia.
Qed.

Example ex_kw_collapse_value :
  forall Fk rho, exists e' asg n, collapse true fresh_v ["x"] ex_kw_expr = Ok (e', asg, n) /\
    eval Z.div Z.pow Z.opp (fun _ l => zsum l) Fk
         (bind_all Z.div Z.pow Z.opp (fun _ l => zsum l) Fk rho asg) e'
    = eval Z.div Z.pow Z.opp (fun _ l => zsum l) Fk rho ex_kw_expr.
Proof.
  intros Fk rho. destruct ex_kw_collapse_hyps as (_ & e' & asg & n & E & Hnd & Hfr).
  exists e', asg, n. split; [exact E|].
  now apply (collapse_value fresh_v ["x"] ex_kw_expr e' asg n E Hnd Hfr).
Qed.

(* a free variable that occurs only as a keyword value keeps the call (and every term around it)
   from being hoisted *)
Example ex_kw_free_only_in_keyword :
  collapse true fresh_v ["x"] (ESum [ECallKw "f" [] [("m", EVar "x")]; EVar "a"])
  = Ok (ESum [EVar "a"; ECallKw "f" [] [("m", EVar "x")]], [], 0).
Proof. vm_compute. reflexivity. Qed.

(* pymbolic equality of calls with keyword arguments: the keywords form a mapping (order
   irrelevant), the class matters (CallWithKwargs with no keyword is not a Call) *)
Example ex_kw_equality :
  expr_eqb (ECallKw "f" [] [("m", EVar "x"); ("k", EInt 1)]) (ECallKw "f" [] [("k", EInt 1); ("m", EVar "x")]) = true /\
  expr_same (ECallKw "f" [] [("m", EVar "x"); ("k", EInt 1)]) (ECallKw "f" [] [("k", EInt 1); ("m", EVar "x")]) = false /\
  expr_eqb (ECallKw "f" [] [("m", EVar "x")]) (ECallKw "f" [] [("m", EVar "a")]) = false /\
  expr_eqb (ECallKw "f" [] []) (ECall "f" []) = false.
Proof. vm_compute. auto. Qed.

(* the freshness hypothesis is needed: a supplier returning a name of the expression breaks the value *)
Example ex_fresh_needed :
  exists fresh e e' asg n,
    collapse true fresh [] e = Ok (e', asg, n) /\
    eval Z.div Z.pow Z.opp (fun _ _ => 0%Z) (fun _ _ _ => 0%Z) (bind_all Z.div Z.pow Z.opp (fun _ _ => 0%Z) (fun _ _ _ => 0%Z) (fun _ => 1%Z) asg) e'
    <> eval Z.div Z.pow Z.opp (fun _ _ => 0%Z) (fun _ _ _ => 0%Z) (fun _ => 1%Z) e.
Proof.
  exists (fun _ => "a"), (EQuot (ESum [EVar "a"; EVar "a"]) (ESum [EVar "a"; EVar "a"; EVar "a"])).
  vm_compute. do 3 eexists. split; [reflexivity|]. discriminate.
Qed.
(* ---- statements parameterised by the shape switch (discharged in props/C18.v against
   coq/gen/GenC18.v by eq_refl) ---- *)
Definition full_statement (flag : bool) : Prop :=
  forall (fresh : nat -> string) (free : list string) (e : expr),
    wfb e = true ->
    exists e' asg n,
      collapse flag fresh free e = Ok (e', asg, n) /\
      Forall (fun xc => forall v, In v free -> ~ In v (names (snd xc))) asg /\
      (NoDup (map fresh (seq 0 n)) ->
       (forall i, i < n -> ~ In (fresh i) (names e)) ->
       NoDup (map fst asg) /\ map fst asg = map fresh (seq 0 n) /\
       forall qop pop nop F Fk rho,
         eval qop pop nop F Fk rho (subst asg e') = eval qop pop nop F Fk rho e /\
         eval qop pop nop F Fk (bind_all qop pop nop F Fk rho asg) e' = eval qop pop nop F Fk rho e).

Lemma full_flag flag : flag = true -> full_statement flag.
Proof.
  intros -> fresh free e Hw.
  destruct (collapse_total fresh free e Hw) as (e' & asg & n & E).
  exists e', asg, n. split; [exact E|]. split.
  - eapply Forall_impl; [|exact (collapse_constant fresh free e e' asg n E)]. intros xc H. apply H.
  - intros Hnd Hfr. destruct (collapse_once fresh free e e' asg n E Hnd) as (H1 & H2 & _).
    split; [exact H1|]. split; [exact H2|]. intros qop pop nop F Fk rho.
    destruct (collapse_value fresh free e e' asg n E Hnd Hfr qop pop nop F Fk rho). auto.
Qed.

Lemma full_unfixed_refuted : ~ full_statement false.
Proof.
  intros H.
  destruct (H fresh_v ["x"] (ESum [EVar "x"; ENot (EVar "a")]) eq_refl) as (e' & asg & n & E & _).
  vm_compute in E. discriminate.
Qed.

Lemma collapse_value_flag flag : flag = true ->
  forall fresh free e e' asg n,
    collapse flag fresh free e = Ok (e', asg, n) ->
    NoDup (map fresh (seq 0 n)) ->
    (forall i, i < n -> ~ In (fresh i) (names e)) ->
    forall qop pop nop F Fk rho,
      eval qop pop nop F Fk (bind_all qop pop nop F Fk rho asg) e' = eval qop pop nop F Fk rho e /\
      eval qop pop nop F Fk rho (subst asg e') = eval qop pop nop F Fk rho e.
Proof. intros ->. exact collapse_value. Qed.

Lemma collapse_constant_flag flag : flag = true ->
  forall fresh free e e' asg n,
    collapse flag fresh free e = Ok (e', asg, n) ->
    Forall (fun xc => (forall v, In v free -> ~ In v (names (snd xc))) /\
                      is_atomic (snd xc) = false /\ incl (names (snd xc)) (names e)) asg.
Proof. intros ->. exact collapse_constant. Qed.

Lemma collapse_once_flag flag : flag = true ->
  forall fresh free e e' asg n,
    collapse flag fresh free e = Ok (e', asg, n) ->
    NoDup (map fresh (seq 0 n)) ->
    NoDup (map fst asg) /\ map fst asg = map fresh (seq 0 n) /\ List.length asg = n.
Proof. intros ->. exact collapse_once. Qed.

Lemma collapse_total_flag flag : flag = true ->
  forall fresh free e, wfb e = true -> exists e' asg n, collapse flag fresh free e = Ok (e', asg, n).
Proof. intros ->. exact collapse_total. Qed.

Lemma collapse_error_flag flag : flag = true ->
  forall fresh free e, wfb e = false -> collapse flag fresh free e = TypeError.
Proof. intros ->. exact collapse_error. Qed.
(* END *)
