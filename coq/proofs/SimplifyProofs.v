(* Proofs about model/Simplify.v (C06). *)
From Coq Require Import List Arith Bool Lia.
Import ListNotations.
From Dagrt Require Import Simplify.

Section ast_ind'.
  Variable P : ast -> Prop.
  Hypothesis HL : forall n, P (Leaf n).
  Hypothesis HN : P Null.
  Hypothesis HB : forall l, Forall P l -> P (Block l).
  Hypothesis HI : forall c t, P t -> P (IfT c t).
  Hypothesis HE : forall c t e, P t -> P e -> P (IfTE c t e).
  Hypothesis HF : forall x b, P b -> P (For x b).
  Fixpoint ast_ind' (t : ast) : P t :=
    match t with
    | Leaf n => HL n
    | Null => HN
    | Block l => HB l ((fix go (l : list ast) : Forall P l :=
                          match l with
                          | [] => Forall_nil P
                          | x :: l' => Forall_cons x (ast_ind' x) (go l')
                          end) l)
    | IfT c t => HI c t (ast_ind' t)
    | IfTE c t e => HE c t e (ast_ind' t) (ast_ind' e)
    | For x b => HF x b (ast_ind' b)
    end.
End ast_ind'.

Section Tr.
  Variable v : nat -> bool.
  Variable trips : nat -> nat.
  Notation tr := (trace v trips).
  Notation trl := (flat_map (trace v trips)).

  Lemma cond_eqb_eq a : forall b, cond_eqb a b = true -> a = b.
  Proof.
    induction a as [| |a IH|n]; intros [| |b|m] H; cbn in H; try discriminate; auto.
    - f_equal. auto.
    - apply Nat.eqb_eq in H. now subst.
  Qed.

  Lemma trl_app l1 l2 : trl (l1 ++ l2) = trl l1 ++ trl l2.
  Proof. apply flat_map_app. Qed.

  Lemma trace_flat_block nodes : tr (flat_block nodes) = trl nodes.
  Proof.
    unfold flat_block. cbn [trace].
    induction nodes as [|n ns IH]; [reflexivity|].
    cbn [flat_map]. rewrite trl_app, IH. f_equal.
    destruct n; cbn [trace flat_map]; rewrite ?app_nil_r; reflexivity.
  Qed.

  Lemma strip_not_sem c : forall t e c' t2 e2,
    strip_not c t e = (c', t2, e2) ->
    (if evalc v c' then tr t2 else tr e2) = (if evalc v c then tr t else tr e).
  Proof.
    induction c as [| |c IH|n]; intros t e c' t2 e2 H; cbn [strip_not] in H;
      try (injection H as <- <- <-; reflexivity).
    rewrite (IH _ _ _ _ _ H). cbn [evalc]. destruct (evalc v c); reflexivity.
  Qed.

  Lemma strip_not_nonnot c : forall t e c' t2 e2,
    strip_not c t e = (c', t2, e2) -> forall d, c' <> CNot d.
  Proof.
    induction c as [| |c IH|n]; intros t e c' t2 e2 H d; cbn [strip_not] in H;
      try (injection H as <- <- <-; discriminate).
    eapply IH; eassumption.
  Qed.

  Lemma simp_ite_trace c t e :
    tr (simp_ite c t e) = if evalc v c then tr t else tr e.
  Proof.
    unfold simp_ite. destruct (strip_not c t e) as [[c' t2] e2] eqn:E.
    rewrite <- (strip_not_sem _ _ _ _ _ _ E). cbn [trace].
    destruct (evalc v c') eqn:Ec.
    - destruct t2; try reflexivity.
      destruct (cond_eqb c' c0) eqn:Eq; [|reflexivity].
      apply cond_eqb_eq in Eq. subst c0. cbn [trace]. now rewrite Ec.
    - destruct e2; try reflexivity.
      destruct (cond_eqb c' c0) eqn:Eq; [|reflexivity].
      apply cond_eqb_eq in Eq. subst c0. cbn [trace]. now rewrite Ec.
  Qed.

  (* the queue loop, with in-order expansion of inner blocks *)
  Lemma qloop_trace : forall fuel cur q acc l,
    qloop false fuel cur q acc = Some l ->
    trl l = trl acc ++ tr cur ++ trl q.
  Proof.
    induction fuel as [|f IH]; intros cur q acc l H; [discriminate|].
    cbn [qloop] in H. destruct q as [|nx q'].
    - injection H as <-. rewrite trl_app. cbn. now rewrite !app_nil_r.
    - assert (Hdef : forall l, qloop false f nx q' (acc ++ [cur]) = Some l ->
                     trl l = trl acc ++ tr cur ++ trl (nx :: q')).
      { intros l0 H0. rewrite (IH _ _ _ _ H0), trl_app. cbn [flat_map].
        rewrite app_nil_r, <- !app_assoc. reflexivity. }
      destruct nx as [n| |ch|c2 t2|c2 t2 e2|x b]; try (now apply Hdef).
      + rewrite (IH _ _ _ _ H). reflexivity.
      + rewrite (IH _ _ _ _ H). rewrite trl_app. cbn [flat_map trace]. reflexivity.
      + destruct cur as [n1| |ch1|c1 t1|c1 t1 e1|x1 b1]; try (now apply Hdef).
        destruct (cond_eqb c1 c2) eqn:Eq; [|now apply Hdef].
        apply cond_eqb_eq in Eq. subst c2.
        rewrite (IH _ _ _ _ H). cbn [trace flat_map].
        rewrite !trace_flat_block. cbn [flat_map]. rewrite !app_nil_r.
        destruct (evalc v c1); rewrite <- !app_assoc; reflexivity.
  Qed.

  Lemma pop_nonnull_trace q : forall cur q', pop_nonnull q = Some (cur, q') ->
    trl q = tr cur ++ trl q'.
  Proof.
    induction q as [|x q IH]; intros cur q' H; [discriminate|].
    cbn [pop_nonnull] in H. destruct x; try (injection H as <- <-; reflexivity).
    cbn [flat_map trace]. cbn. auto.
  Qed.

  Lemma pop_nonnull_none q : pop_nonnull q = None -> trl q = [].
  Proof.
    induction q as [|x q IH]; intros H; [reflexivity|].
    cbn [pop_nonnull] in H. destruct x; try discriminate. cbn. auto.
  Qed.

  Lemma simp_block_trace g orig q t' :
    trl q = trl orig ->
    simp_block false g orig q = Ok t' -> tr t' = trl orig.
  Proof.
    intros Hq H. unfold simp_block in H. destruct q as [|x q0].
    - injection H as <-. reflexivity.
    - set (q := x :: q0) in *. clearbody q.
      destruct (pop_nonnull q) as [[cur q']|] eqn:Ep.
      + destruct (qloop false (S (size_list q')) cur q' []) as [l|] eqn:El; [|discriminate].
        pose proof (qloop_trace _ _ _ _ _ El) as Ht. cbn [flat_map app] in Ht.
        rewrite <- Hq, (pop_nonnull_trace _ _ _ Ep), <- Ht.
        destruct l as [|a [|b l]]; injection H as <-; try reflexivity.
        cbn. now rewrite app_nil_r.
      + rewrite <- Hq, (pop_nonnull_none _ Ep).
        destruct g; [injection H as <-; reflexivity|discriminate].
  Qed.

  Lemma rbind_ok {A B} (r : res A) (f : A -> res B) b :
    rbind r f = Ok b -> exists a, r = Ok a /\ f a = Ok b.
  Proof. destruct r; cbn; intros H; try discriminate. eauto. Qed.

  Theorem simp_trace g : forall t t', simp false g t = Ok t' -> tr t' = tr t.
  Proof.
    induction t as [n| |l IH|c t IHt|c t e IHt IHe|x b IHb] using ast_ind'; intros t' H.
    - injection H as <-. reflexivity.
    - injection H as <-. reflexivity.
    - cbn [simp] in H. apply rbind_ok in H. destruct H as (q & Hq & Hb).
      cbn [trace]. eapply simp_block_trace; [|exact Hb].
      clear Hb t'. revert q Hq. induction IH as [|x l Hx _ IHl]; intros q Hq.
      + injection Hq as <-. reflexivity.
      + apply rbind_ok in Hq. destruct Hq as (x' & Ex & Hq).
        apply rbind_ok in Hq. destruct Hq as (r & Er & Hq). injection Hq as <-.
        cbn [flat_map]. rewrite (Hx _ Ex), (IHl _ Er). reflexivity.
    - cbn [simp] in H. apply rbind_ok in H. destruct H as (t1 & E1 & H). injection H as <-.
      cbn [trace]. now rewrite (IHt _ E1).
    - cbn [simp] in H.
      assert (Hgen : rbind (simp false g t) (fun t1 => rbind (simp false g e)
                 (fun e1 => Ok (simp_ite c t1 e1))) = Ok t' -> tr t' = tr (IfTE c t e)).
      { intros H0. apply rbind_ok in H0. destruct H0 as (t1 & E1 & H0).
        apply rbind_ok in H0. destruct H0 as (e1 & E2 & H0). injection H0 as <-.
        rewrite simp_ite_trace. cbn [trace]. now rewrite (IHt _ E1), (IHe _ E2). }
      destruct c; try (now apply Hgen); cbn [trace evalc]; auto.
    - cbn [simp] in H. apply rbind_ok in H. destruct H as (b1 & E1 & H). injection H as <-.
      cbn [trace]. now rewrite (IHb _ E1).
  Qed.

  Lemma pre_trace : forall t, tr (pre t) = tr t.
  Proof.
    induction t as [n| |l IH|c t IHt|c t e IHt IHe|x b IHb] using ast_ind';
      cbn [pre trace]; try congruence.
    - induction IH as [|x l Hx _ IHl]; [reflexivity|]. cbn [map flat_map]. congruence.
    - rewrite IHt. destruct (evalc v c); reflexivity.
    - rewrite IHt, IHe. reflexivity.
  Qed.

  Lemma post_trace : forall t, tr (post t) = tr t.
  Proof.
    induction t as [n| |l IH|c t IHt|c t e IHt IHe|x b IHb] using ast_ind';
      cbn [post trace]; try congruence.
    - assert (H : trl (filter (fun x => negb (is_null x)) (map post l)) = trl l).
      { induction IH as [|x l Hx _ IHl]; [reflexivity|]. cbn [map filter flat_map].
        destruct (post x) eqn:Ex; cbn [is_null negb flat_map]; rewrite IHl, <- Hx; reflexivity. }
      rewrite <- H.
      destruct (filter _ (map post l)) as [|a [|b r]]; try reflexivity.
      cbn. now rewrite app_nil_r.
    - now rewrite IHt.
    - rewrite <- IHt, <- IHe.
      destruct (post t) eqn:Et, (post e) eqn:Ee; cbn [is_null trace evalc];
        destruct (evalc v c); reflexivity.
  Qed.

  Lemma post_top_trace t : tr (post_top t) = tr t.
  Proof.
    unfold post_top. rewrite <- (post_trace t). destruct (post t); reflexivity.
  Qed.

  Theorem simplify_trace g t t' : simplify false g t = Ok t' -> tr t' = tr t.
  Proof.
    unfold simplify. intros H. apply rbind_ok in H. destruct H as (t1 & E & H).
    injection H as <-. rewrite post_top_trace, (simp_trace _ _ _ E). apply pre_trace.
  Qed.
End Tr.

(* ---- totality ---- *)
Lemma size_list_app l1 l2 : size_list (l1 ++ l2) = size_list l1 + size_list l2.
Proof. unfold size_list. induction l1; cbn; lia. Qed.
Lemma size_list_rev l : size_list (rev l) = size_list l.
Proof. induction l; cbn; [reflexivity|]. rewrite size_list_app. cbn. unfold size_list in *. lia. Qed.
Lemma size_pos t : 1 <= size t.
Proof. destruct t; cbn; lia. Qed.

Lemma qloop_fuel r : forall fuel cur q acc, size_list q < fuel -> qloop r fuel cur q acc <> None.
Proof.
  induction fuel as [|f IH]; intros cur q acc H; [lia|].
  cbn [qloop]. destruct q as [|nx q']; [discriminate|].
  change (size_list (nx :: q')) with (size nx + size_list q') in H.
  pose proof (size_pos nx) as Hp.
  assert (Hd : forall c a, qloop r f c q' a <> None) by (intros; apply IH; lia).
  destruct nx as [n| |ch|c2 t2|c2 t2 e2|x b]; try apply Hd.
  - apply IH. rewrite size_list_app. cbn [size] in H. fold (size_list ch) in H.
    destruct r; rewrite ?size_list_rev; lia.
  - destruct cur; try apply Hd. destruct (cond_eqb c c2); apply Hd.
Qed.

Lemma simp_block_total r orig q : exists t', simp_block r true orig q = Ok t'.
Proof.
  unfold simp_block. destruct q as [|x q0]; [eauto|].
  destruct (pop_nonnull (x :: q0)) as [[cur q']|]; [|eauto].
  destruct (qloop r (S (size_list q')) cur q' []) as [l|] eqn:E.
  - destruct l as [|a [|b l]]; eauto.
  - exfalso. revert E. apply qloop_fuel. lia.
Qed.

Theorem simp_total r : forall t, exists t', simp r true t = Ok t'.
Proof.
  induction t as [n| |l IH|c t IHt|c t e IHt IHe|x b IHb] using ast_ind'; cbn [simp]; eauto.
  - assert (H : exists q, (fix go (l : list ast) : res (list ast) :=
                  match l with
                  | [] => Ok []
                  | x :: l' => rbind (simp r true x) (fun x' => rbind (go l') (fun r => Ok (x' :: r)))
                  end) l = Ok q).
    { induction IH as [|x l [x' Hx] _ [q Hq]]; [eauto|]. rewrite Hx, Hq. cbn. eauto. }
    destruct H as [q ->]. cbn [rbind]. apply simp_block_total.
  - destruct IHt as [t' ->]. cbn. eauto.
  - destruct IHt as [t' Ht], IHe as [e' He]. destruct c; eauto; rewrite Ht, He; cbn; eauto.
  - destruct IHb as [b' ->]. cbn. eauto.
Qed.

Theorem simplify_total r t : exists t', simplify r true t = Ok t'.
Proof.
  unfold simplify. destruct (simp_total r (pre t)) as [t' ->]. cbn. eauto.
Qed.

(* ---- refutations for the defective shapes (ready-made witnesses) ---- *)
Definition wit_rev : ast := Block [Leaf 1; Block [Leaf 2; Leaf 3]].
Lemma simplify_rev_refuted g :
  exists t', simplify true g wit_rev = Ok t' /\
             trace (fun _ => true) (fun _ => 1) t' <> trace (fun _ => true) (fun _ => 1) wit_rev.
Proof. eexists. split; [vm_compute; reflexivity|]. vm_compute. discriminate. Qed.

Definition wit_empty : ast := Block [IfTE CTrue Null (Leaf 0); Null].
Lemma simplify_empty_refuted r : simplify r false wit_empty = IndexError.
Proof. destruct r; reflexivity. Qed.

(* non-vacuity: a nested example on which every rewrite rule fires *)
Definition ex_tree : ast :=
  Block [IfT (CAtom 0) (Leaf 1); IfTE (CNot (CAtom 0)) (Leaf 2) (Leaf 3);
         Block [Leaf 4; Block [Null; Leaf 5]]; IfTE (CAtom 1) (IfTE (CAtom 1) (Leaf 6) (Leaf 7)) Null;
         For 0 (Block [Leaf 8; Null])].
Example ex_tree_simplifies :
  simplify false true ex_tree =
  Ok (Block [IfTE (CAtom 0) (Block [Leaf 1; Leaf 3]) (Leaf 2); Leaf 4; Leaf 5;
             IfT (CAtom 1) (Leaf 6); For 0 (Leaf 8)]).
Proof. vm_compute. reflexivity. Qed.
