(* C19 -- variables and value of norm e; blanks; back-tick removal. *)
From Coq Require Import List ZArith NArith String Ascii Bool Arith Lia ZifyBool.
Import ListNotations.
From Dagrt Require Import GenC19 Print Parse ParseRules RoundTrip NormProofs.
Open Scope list_scope.
Open Scope nat_scope.
Notation length := List.length.

Lemma map_ext_F {A B} (f g : A -> B) l : Forall (fun x => f x = g x) l -> map f l = map g l.
Proof. induction 1; cbn; congruence. Qed.

Lemma norm_idx_eq e2 :
  match e2 with ETuple l => ETuple (map norm l) | _ => norm e2 end = norm e2.
Proof. destruct e2; reflexivity. Qed.

(* ------------------------------------------------------------------ variables *)

Lemma vars_nary2 o a b : vars (ENary o [a; b]) = vars a ++ vars b.
Proof. cbn. rewrite app_nil_r. reflexivity. Qed.

Lemma vars_lapp o : forall c acc, vars (lapp o acc c) = vars acc ++ vars c.
Proof.
  induction c using expr_ind'; intros acc; try (cbn [lapp]; apply vars_nary2).
  cbn [lapp]. destruct l as [|x [|y [|]]]; try apply vars_nary2.
  destruct (nop_eqb o0 o); [|apply vars_nary2].
  inversion H as [|? ? IHx _]; subst.
  rewrite !vars_nary2, IHx, app_assoc. reflexivity.
Qed.

Lemma vars_fold_lapp o : forall cs acc,
  vars (fold_left (lapp o) cs acc) = vars acc ++ List.concat (map vars cs).
Proof.
  induction cs as [|c cs IH]; intros acc; cbn [fold_left map List.concat].
  - rewrite app_nil_r. reflexivity.
  - rewrite IH, vars_lapp, app_assoc. reflexivity.
Qed.

Lemma vars_rapp : forall c acc, vars (rapp c acc) = vars c ++ vars acc.
Proof.
  induction c using expr_ind'; intros acc; try (cbn [rapp]; apply vars_nary2).
  cbn [rapp]. destruct o; try apply vars_nary2.
  destruct l as [|x [|y [|]]]; try apply vars_nary2.
  inversion H as [|? ? _ H']; subst. inversion H' as [|? ? IHy _]; subst.
  rewrite !vars_nary2, IHy, app_assoc. reflexivity.
Qed.

Lemma vars_rnest : forall l, l <> [] -> vars (rnest l) = List.concat (map vars l).
Proof.
  induction l as [|c r IH]; intros Hne; [congruence|].
  destruct r as [|c' r]; [cbn; rewrite app_nil_r; reflexivity|].
  change (rnest (c :: c' :: r)) with (rapp c (rnest (c' :: r))).
  rewrite vars_rapp, IH by discriminate. reflexivity.
Qed.

Lemma vars_renest o l : vars (renest o l) = List.concat (map vars l).
Proof.
  destruct l as [|c [|c' r]]; try reflexivity.
  unfold renest. destruct o; try apply vars_fold_lapp. apply vars_rnest. discriminate.
Qed.

Theorem vars_norm : forall e, vars (norm e) = vars e.
Proof.
  induction e using expr_ind2; cbn [norm]; try reflexivity.
  - rewrite vars_renest. cbn [vars]. rewrite map_map. f_equal. apply map_ext_F. exact H.
  - cbn [vars]. congruence.
  - cbn [vars]. congruence.
  - cbn [vars]. congruence.
  - cbn [vars]. rewrite !map_map. f_equal; f_equal; apply map_ext_F; assumption.
  - rewrite norm_idx_eq. cbn [vars]. congruence.
  - cbn [vars]. rewrite map_map. f_equal. apply map_ext_F. exact H.
Qed.

(* ------------------------------------------------------------------ value *)

Section EvalNorm.
  Variable rho : string -> Z.
  Variable Ffun : string -> list Z -> list (string * Z) -> option Z.
  Variable Fsub : Z -> list Z -> option Z.
  Variable Fquot : Z -> Z -> option Z.
  Variable Fnegpow : Z -> Z -> option Z.

  Notation ev := (eval rho Ffun Fsub Fquot Fnegpow).

  Definition bop2 (o : nop) (u v : option Z) : option Z := eval_nary o [u; v].

  Lemma all_opt_01 vs w : all_opt vs = Some w -> w = 0%Z \/ w = 1%Z.
  Proof.
    induction vs as [|[z|] vs IH]; cbn; intros H; try discriminate.
    - injection H as <-. auto.
    - destruct (z =? 0)%Z; [injection H as <-; auto | auto].
  Qed.
  Lemma any_opt_01 vs w : any_opt vs = Some w -> w = 0%Z \/ w = 1%Z.
  Proof.
    induction vs as [|[z|] vs IH]; cbn; intros H; try discriminate.
    - injection H as <-. auto.
    - destruct (z =? 0)%Z; [auto | injection H as <-; auto].
  Qed.

  Lemma nary_cons o u vs : eval_nary o (u :: vs) = bop2 o u (eval_nary o vs).
  Proof.
    unfold bop2. destruct o; cbn [eval_nary].
    - destruct u as [a|]; cbn; [|reflexivity].
      destruct (sequence vs) as [s|]; cbn; [f_equal; lia | reflexivity].
    - destruct u as [a|]; cbn; [|reflexivity].
      destruct (sequence vs) as [s|]; cbn; [f_equal; ring | reflexivity].
    - destruct u as [a|]; cbn; [|reflexivity].
      destruct (a =? 0)%Z; [reflexivity|].
      destruct (all_opt vs) as [w|] eqn:E; [|reflexivity].
      destruct (all_opt_01 _ _ E) as [-> | ->]; reflexivity.
    - destruct u as [a|]; cbn; [|reflexivity].
      destruct (a =? 0)%Z; [|reflexivity].
      destruct (any_opt vs) as [w|] eqn:E; [|reflexivity].
      destruct (any_opt_01 _ _ E) as [-> | ->]; reflexivity.
  Qed.

  Lemma bop2_assoc o u v w : bop2 o (bop2 o u v) w = bop2 o u (bop2 o v w).
  Proof.
    unfold bop2. destruct o; destruct u as [a|], v as [b|], w as [c|]; cbn; try reflexivity;
      try (f_equal; lia); try (f_equal; ring);
      repeat match goal with |- context [(?x =? 0)%Z] => destruct (x =? 0)%Z; cbn end; reflexivity.
  Qed.

  Lemma ev_nary2 o a b : ev (ENary o [a; b]) = bop2 o (ev a) (ev b).
  Proof. reflexivity. Qed.

  Lemma ev_lapp o : forall c acc, ev (lapp o acc c) = bop2 o (ev acc) (ev c).
  Proof.
    induction c using expr_ind'; intros acc; try (cbn [lapp]; apply ev_nary2).
    cbn [lapp]. destruct l as [|x [|y [|]]]; try apply ev_nary2.
    destruct (nop_eqb o0 o) eqn:E; [|apply ev_nary2].
    assert (o0 = o) by (destruct o0, o; try discriminate; reflexivity). subst o0.
    inversion H as [|? ? IHx _]; subst.
    rewrite !ev_nary2, IHx, bop2_assoc. reflexivity.
  Qed.

  Lemma ev_fold_lapp o : forall cs acc,
    ev (fold_left (lapp o) cs acc) = fold_left (bop2 o) (map ev cs) (ev acc).
  Proof.
    induction cs as [|c cs IH]; intros acc; cbn [fold_left map]; [reflexivity|].
    rewrite IH, ev_lapp. reflexivity.
  Qed.

  Lemma fold_left_nary o : forall us u,
    us <> [] -> fold_left (bop2 o) us u = eval_nary o (u :: us).
  Proof.
    induction us as [|v us IH]; intros u Hne; [congruence|].
    destruct us as [|w us]; [reflexivity|].
    cbn [fold_left] in *. rewrite IH by discriminate.
    rewrite (nary_cons o (bop2 o u v)), bop2_assoc, <- nary_cons, <- nary_cons. reflexivity.
  Qed.

  Lemma ev_rapp : forall c acc, ev (rapp c acc) = bop2 NProd (ev c) (ev acc).
  Proof.
    induction c using expr_ind'; intros acc; try (cbn [rapp]; apply ev_nary2).
    cbn [rapp]. destruct o; try apply ev_nary2.
    destruct l as [|x [|y [|]]]; try apply ev_nary2.
    inversion H as [|? ? _ H']; subst. inversion H' as [|? ? IHy _]; subst.
    rewrite !ev_nary2, IHy, bop2_assoc. reflexivity.
  Qed.

  Lemma ev_rnest : forall c l, ev (rnest (c :: l)) = match l with [] => ev c | _ => eval_nary NProd (map ev (c :: l)) end.
  Proof.
    intros c l. revert c. induction l as [|c' r IH]; intros c; [reflexivity|].
    change (rnest (c :: c' :: r)) with (rapp c (rnest (c' :: r))).
    rewrite ev_rapp, IH. destruct r as [|c'' r]; [reflexivity|].
    cbn [map]. rewrite (nary_cons NProd (ev c)). reflexivity.
  Qed.

  Lemma ev_renest o l : ev (renest o l) = eval_nary o (map ev l).
  Proof.
    destruct l as [|c [|c' r]]; try reflexivity.
    unfold renest. destruct o;
      try (rewrite ev_fold_lapp, fold_left_nary by discriminate; reflexivity).
    rewrite ev_rnest. reflexivity.
  Qed.

  Lemma norm_not_var_nary o l : match norm (ENary o l) with EVar _ => False | _ => True end.
  Proof.
    cbn [norm]. destruct l as [|c [|c' r]]; try exact I.
    cbn [map]. destruct (renest_shape o (norm c) (norm c') (map norm r)) as (x & y & ->). exact I.
  Qed.

  Theorem eval_norm : forall e, ev (norm e) = ev e.
  Proof.
    induction e using expr_ind2; cbn [norm]; try reflexivity.
    - rewrite ev_renest. cbn [eval]. rewrite map_map. f_equal. apply map_ext_F. exact H.
    - cbn [eval]. rewrite IHe1, IHe2. reflexivity.
    - cbn [eval]. rewrite IHe. reflexivity.
    - cbn [eval]. rewrite IHe1, IHe2, IHe3. reflexivity.
    - (* ECall *)
      assert (EA : map ev (map norm args) = map ev args).
      { rewrite map_map. apply map_ext_F. exact H. }
      assert (EK : map (fun kv => option_map (pair (fst kv)) (ev (snd kv)))
                       (map (fun kv => (fst kv, norm (snd kv))) kw)
                   = map (fun kv => option_map (pair (fst kv)) (ev (snd kv))) kw).
      { rewrite map_map. apply map_ext_F. eapply Forall_impl; [|exact H0]. intros kv Hkv.
        cbn [fst snd]. rewrite Hkv. reflexivity. }
      destruct e; cbn [norm eval]; try reflexivity.
      + rewrite EA, EK. reflexivity.
      + pose proof (norm_not_var_nary o l) as Hn. cbn [norm] in Hn.
        destruct (renest o (map norm l)); try reflexivity. contradiction.
    - (* ESub *)
      rewrite norm_idx_eq. cbn [eval]. rewrite IHe1.
      destruct (is_tuple e2) eqn:Ht.
      + destruct e2; try discriminate. cbn [norm].
        rewrite map_map. rewrite (map_ext_F _ _ _ (H _ eq_refl)). reflexivity.
      + pose proof (norm_is_tuple e2) as Hnt. rewrite Ht in Hnt.
        assert (E1 : forall i, is_tuple i = false ->
                     match i with ETuple l => sequence (map ev l) | _ => option_map (fun v => [v]) (ev i) end
                     = option_map (fun v => [v]) (ev i)).
        { intros i Hi. destruct i; try reflexivity. discriminate. }
        rewrite (E1 _ Hnt), (E1 _ Ht), IHe2. reflexivity.
  Qed.
End EvalNorm.

(* ------------------------------------------------------------------ blanks *)

Lemma strip_app a b : strip (a ++ b) = strip a ++ strip b.
Proof. apply filter_app. Qed.

Lemma strip_paren_if b ts : strip (paren_if b ts) = paren_if b (strip ts).
Proof. destruct b; cbn [paren_if]; [|reflexivity]. unfold paren. cbn. rewrite strip_app. reflexivity. Qed.

Lemma strip_join sep l : strip (join sep l) = join (strip sep) (map strip l).
Proof.
  induction l as [|x r IH]; [reflexivity|].
  destruct r as [|y r]; [reflexivity|].
  change (join sep (x :: y :: r)) with (x ++ sep ++ join sep (y :: r)).
  change (map strip (x :: y :: r)) with (strip x :: map strip (y :: r)).
  change (map strip (y :: r)) with (strip y :: map strip r) in *.
  change (join (strip sep) (strip x :: strip y :: map strip r))
    with (strip x ++ strip sep ++ join (strip sep) (strip y :: map strip r)).
  rewrite !strip_app, IH. reflexivity.
Qed.

Lemma strip_var_toks x : strip (var_toks x) = var_toks x.
Proof.
  destruct (var_toks_cases x) as [->|(t & u & _ & ->)]; [reflexivity|]. destruct u; reflexivity.
Qed.

Lemma nary_sep_strip o : strip (nary_sep [TSp] o) = nary_sep [] o.
Proof. destruct o; reflexivity. Qed.
Lemma bin_sep_strip o : strip (bin_sep [TSp] o) = bin_sep [] o.
Proof. destruct o; reflexivity. Qed.

Theorem strip_print : forall e q, strip (print [TSp] q e) = print [] q e.
Proof.
  induction e using expr_ind2; intros q; cbn [print].
  - destruct (z <? 0)%Z; [rewrite strip_paren_if|]; reflexivity.
  - destruct b; reflexivity.
  - apply strip_var_toks.
  - rewrite strip_paren_if, strip_join, nary_sep_strip, map_map. f_equal. f_equal.
    apply map_ext_F. eapply Forall_impl; [|exact H]. intros c Hc. cbn beta.
    destruct o; rewrite ?strip_paren_if, Hc; reflexivity.
  - rewrite strip_paren_if. f_equal.
    destruct o; rewrite !strip_app, ?strip_paren_if, ?IHe1, ?IHe2, ?bin_sep_strip; reflexivity.
  - rewrite strip_paren_if. f_equal. cbn [strip filter is_sp negb]. rewrite strip_app, IHe. reflexivity.
  - rewrite strip_paren_if. f_equal. rewrite !strip_app, IHe1, IHe2, IHe3. reflexivity.
  - rewrite !strip_app, IHe, strip_join, map_app, !map_map.
    assert (EA : map (fun x => strip (print [TSp] PR_NONE x)) args = map (print [] PR_NONE) args).
    { apply map_ext_F. eapply Forall_impl; [|exact H]. intros c Hc. apply Hc. }
    assert (EK : map (fun x : string * expr => strip (TId (fst x) :: TAssign :: print [TSp] PR_NONE (snd x))) kw
                 = map (fun kv => TId (fst kv) :: TAssign :: print [] PR_NONE (snd kv)) kw).
    { apply map_ext_F. eapply Forall_impl; [|exact H0]. intros c Hc.
      change (strip (TId (fst c) :: TAssign :: print [TSp] PR_NONE (snd c)))
        with (TId (fst c) :: TAssign :: strip (print [TSp] PR_NONE (snd c))).
      rewrite Hc. reflexivity. }
    rewrite EA, EK. reflexivity.
  - rewrite strip_paren_if. f_equal.
    assert (EI : strip (match e2 with
                        | ETuple l => join [TComma; TSp] (map (print [TSp] PR_NONE) l)
                        | _ => print [TSp] PR_NONE e2 end)
                 = match e2 with
                   | ETuple l => join [TComma] (map (print [] PR_NONE) l)
                   | _ => print [] PR_NONE e2 end).
    { destruct e2; try apply IHe2.
      rewrite strip_join, map_map. change (strip [TComma; TSp]) with [TComma]. f_equal. apply map_ext_F.
      specialize (H _ eq_refl). eapply Forall_impl; [|exact H]. intros c Hc. apply Hc. }
    rewrite !strip_app, IHe1, EI. reflexivity.
  - assert (EJ : strip (join [TComma; TSp] (map (print [TSp] PR_NONE) l))
                 = join [TComma] (map (print [] PR_NONE) l)).
    { rewrite strip_join, map_map. change (strip [TComma; TSp]) with [TComma]. f_equal. apply map_ext_F.
      eapply Forall_impl; [|exact H]. intros c Hc. apply Hc. }
    change (strip (TLPar :: ?x)) with (TLPar :: strip x).
    cbn [strip filter is_sp negb].
    fold (strip (join [TComma; TSp] (map (print [TSp] PR_NONE) l)
                 ++ match l with [_] => [TComma] | _ => [] end ++ [TRPar])).
    rewrite !strip_app, EJ. f_equal. f_equal. destruct l as [|? [|]]; reflexivity.
Qed.

(* ------------------------------------------------------------------ back-tick removal *)

Lemma strip_bt_id x : no_bt x = true -> strip_bt x = x.
Proof.
  unfold no_bt, strip_bt. intros H. apply negb_true_iff in H. rewrite H. reflexivity.
Qed.

Lemma map_id_F {A} (f : A -> A) l : Forall (fun x => f x = x) l -> map f l = l.
Proof. induction 1; cbn; congruence. Qed.

Lemma okc_elim' c : okc nf c = true -> nf c = true /\ is_tuple c = false.
Proof. unfold okc. intros H. apply andb_true_iff in H as [H1 H2]. apply negb_true_iff in H2. auto. Qed.

Theorem unbt_nf d : forall e, nf e = true -> unbt d e = e.
Proof.
  induction e using expr_ind2; intros Hnf; cbn [unbt]; try reflexivity.
  - f_equal. apply strip_bt_id. exact Hnf.
  - (* ENary *) cbn [nf] in Hnf. destruct l as [|a [|b [|]]]; try discriminate.
    apply andb_true_iff in Hnf as [Hnf _]. apply andb_true_iff in Hnf as [Ha Hb].
    apply okc_elim' in Ha. apply okc_elim' in Hb.
    inversion H as [|? ? IHa H']; subst. inversion H' as [|? ? IHb _]; subst.
    cbn [map]. rewrite IHa, IHb by tauto. reflexivity.
  - cbn [nf] in Hnf. apply andb_true_iff in Hnf as [Hnf _]. apply andb_true_iff in Hnf as [Ha Hb].
    apply okc_elim' in Ha. apply okc_elim' in Hb. rewrite IHe1, IHe2 by tauto. reflexivity.
  - cbn [nf] in Hnf. apply okc_elim' in Hnf. rewrite IHe by tauto. reflexivity.
  - cbn [nf] in Hnf. apply andb_true_iff in Hnf as [Hnf H3]. apply andb_true_iff in Hnf as [H1 H2].
    apply okc_elim' in H1. apply okc_elim' in H2. apply okc_elim' in H3.
    rewrite IHe1, IHe2, IHe3 by tauto. reflexivity.
  - (* ECall *)
    cbn [nf] in Hnf. apply andb_true_iff in Hnf as [Hnf _]. apply andb_true_iff in Hnf as [Hnf _].
    apply andb_true_iff in Hnf as [Hnf Hkw]. apply andb_true_iff in Hnf as [Hf Hargs].
    apply okc_elim' in Hf. rewrite IHe by tauto.
    rewrite (map_id_F (unbt d) args).
    + f_equal. rewrite <- (map_id kw) at 2. apply map_ext_F.
      rewrite Forall_forall in *. intros kv Hkv. rewrite forallb_forall in Hkw.
      specialize (Hkw kv Hkv). apply okc_elim' in Hkw. rewrite (H0 kv Hkv) by tauto.
      destruct kv; reflexivity.
    + rewrite Forall_forall in *. intros c Hc. rewrite forallb_forall in Hargs.
      specialize (Hargs c Hc). apply okc_elim' in Hargs. apply H; tauto.
  - (* ESub *)
    destruct d; [|reflexivity].
    cbn [nf] in Hnf. apply andb_true_iff in Hnf as [Ha Hi]. apply okc_elim' in Ha.
    rewrite IHe1 by tauto. f_equal.
    destruct (is_tuple e2) eqn:Ht.
    + destruct e2; try discriminate. cbn [unbt]. f_equal.
      apply andb_true_iff in Hi as [Hi _]. apply andb_true_iff in Hi as [_ Hl].
      apply map_id_F. specialize (H _ eq_refl). rewrite Forall_forall in *. intros c Hc.
      rewrite forallb_forall in Hl. specialize (Hl c Hc). apply okc_elim' in Hl. apply H; tauto.
    + apply IHe2. destruct e2; try exact Hi. discriminate.
  - discriminate.
Qed.
