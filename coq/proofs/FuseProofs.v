(* Proofs about model/Fuse.v, structural part (C16): the unique-name generator returns fresh names
   and never runs out of fuel; the substitution computed by disambiguate_identifiers; renaming of
   statements; id disambiguation and dependency remapping; the theorems ids_unique / deps_intact /
   contains_both / temporaries_disjoint / persistent_policy for the repaired shape and the
   refutations for the shape in the unchanged tree. *)
From Coq Require Import List ZArith NArith String Ascii Bool Arith Lia DecimalString DecimalN FinFun.
Import ListNotations.
From Dagrt Require Import Lang Fuse.

(* ------------------------------------------------------------------ small facts *)
Lemma mem_In x l : mem x l = true <-> In x l.
Proof.
  unfold mem. rewrite existsb_exists. split.
  - intros (y & Hy & E). apply String.eqb_eq in E. now subst.
  - intros H. exists x. split; [exact H|apply String.eqb_refl].
Qed.
Lemma mem_false x l : mem x l = false <-> ~ In x l.
Proof.
  rewrite <- mem_In. destruct (mem x l).
  - split; [discriminate|]. intros H. exfalso. apply H. reflexivity.
  - split; [|reflexivity]. intros _ E. discriminate.
Qed.

(* ------------------------------------------------------------------ pytools.UniqueNameGenerator *)
Lemma search_fresh : forall fuel names base num c nm,
  search fuel names base num = Some (c, nm) -> ~ In nm names.
Proof.
  induction fuel as [|f IH]; intros names base num c nm H; cbn [search] in H; [discriminate|].
  destruct (mem (numbered base num) names) eqn:E.
  - eapply IH; exact H.
  - injection H as _ <-. now apply mem_false.
Qed.

Lemma ung_call_spec g b n g' :
  ung_call g b = Some (n, g') -> ~ In n (u_names g) /\ u_names g' = n :: u_names g.
Proof.
  unfold ung_call.
  set (bc := match ctr_get b (u_ctr g) with Some c => (b, Some c) | None => _ end).
  destruct (snd bc) as [k|].
  - destruct (search _ _ _ k) as [[c nm]|] eqn:E; [|discriminate].
    intros H. injection H as <- <-. split; [eapply search_fresh; exact E|reflexivity].
  - destruct (mem (fst bc) (u_names g)) eqn:M.
    + destruct (search _ _ _ 0%N) as [[c nm]|] eqn:E; [|discriminate].
      intros H. injection H as <- <-. split; [eapply search_fresh; exact E|reflexivity].
    + intros H. injection H as <- <-. split; [now apply mem_false|reflexivity].
Qed.

(* --- fuel adequacy: decimal printing is injective, so |names|+1 candidates cannot all be taken --- *)
Lemma dec_inj a b : dec a = dec b -> a = b.
Proof.
  unfold dec. intros H. apply DecimalN.Unsigned.to_uint_inj.
  pose proof (NilEmpty.usu (N.to_uint a)) as Ha. rewrite H, NilEmpty.usu in Ha. now injection Ha.
Qed.

Lemma append_inj_l (p a b : string) : (p ++ a)%string = (p ++ b)%string -> a = b.
Proof. induction p as [|c p IH]; cbn; intros H; [exact H|]. injection H as H. auto. Qed.

Lemma numbered_inj base a b : numbered base a = numbered base b -> a = b.
Proof.
  unfold numbered. intros H. apply append_inj_l in H. cbn in H. injection H as H. now apply dec_inj.
Qed.

(* the candidates tried by a failing search are all taken *)
Lemma search_none : forall fuel names base num,
  search fuel names base num = None ->
  forall k, (k < fuel)%nat -> In (numbered base (num + N.of_nat k)) names.
Proof.
  induction fuel as [|f IH]; intros names base num H k Hk; [lia|].
  cbn [search] in H. destruct (mem (numbered base num) names) eqn:E; [|discriminate].
  destruct k as [|k].
  - rewrite N.add_0_r. now apply mem_In.
  - replace (num + N.of_nat (S k))%N with (N.succ num + N.of_nat k)%N by lia.
    apply IH; [exact H|lia].
Qed.

Lemma search_total names base num : search (S (List.length names)) names base num <> None.
Proof.
  intros H. pose proof (search_none _ _ _ _ H) as Hall.
  set (cands := map (fun k => numbered base (num + N.of_nat k)) (seq 0 (S (List.length names)))).
  assert (ND : NoDup cands).
  { unfold cands. apply Injective_map_NoDup; [|apply seq_NoDup].
    intros a b E. apply numbered_inj in E. lia. }
  assert (I : incl cands names).
  { intros x Hx. unfold cands in Hx. apply in_map_iff in Hx. destruct Hx as (k & <- & Hk).
    apply in_seq in Hk. apply Hall. lia. }
  pose proof (NoDup_incl_length ND I) as L. unfold cands in L. rewrite map_length, seq_length in L. lia.
Qed.

Theorem ung_call_total g b : ung_call g b <> None.
Proof.
  unfold ung_call.
  set (bc := match ctr_get b (u_ctr g) with Some c => (b, Some c) | None => _ end).
  destruct (snd bc) as [k|].
  - pose proof (search_total (u_names g) (fst bc) k) as T.
    destruct (search _ _ _ k) as [[c nm]|]; [discriminate|contradiction].
  - destruct (mem (fst bc) (u_names g)).
    + pose proof (search_total (u_names g) (fst bc) 0%N) as T.
      destruct (search _ _ _ 0%N) as [[c nm]|]; [discriminate|contradiction].
    + discriminate.
Qed.

(* ------------------------------------------------------------------ the substitution subst_b *)
Lemma slookup_In x m y : slookup x m = Some y -> In (x, y) m.
Proof.
  induction m as [|[k v] m IH]; cbn [slookup]; [discriminate|].
  destruct (String.eqb_spec x k) as [->|N]; intros H.
  - injection H as <-. now left.
  - right. auto.
Qed.
Lemma slookup_None x m : slookup x m = None <-> ~ In x (map fst m).
Proof.
  induction m as [|[k v] m IH]; cbn [slookup map fst]; [tauto|].
  destruct (String.eqb_spec x k) as [->|N].
  - split; [discriminate|]. intros H. exfalso. apply H. now left.
  - rewrite IH. cbn [In]. split; intros H; [intros [E|E]; [now apply N|now apply H]|tauto].
Qed.
Lemma sub_notin m x : ~ In x (map fst m) -> sub m x = x.
Proof. intros H. unfold sub. apply slookup_None in H. now rewrite H. Qed.
Lemma sub_in m x : In x (map fst m) -> In (x, sub m x) m.
Proof.
  intros H. unfold sub. destruct (slookup x m) as [y|] eqn:E.
  - now apply slookup_In.
  - apply slookup_None in E. contradiction.
Qed.
Lemma sub_in_snd m x : In x (map fst m) -> In (sub m x) (map snd m).
Proof. intros H. apply sub_in in H. apply (in_map snd) in H. exact H. Qed.

Lemma disamb_spec pred : forall order g m m',
  disamb pred g order m = Some m' ->
  exists ext, m' = m ++ ext /\ map fst ext = filter pred order /\
              (forall n, In n (map snd ext) -> ~ In n (u_names g)) /\ NoDup (map snd ext).
Proof.
  induction order as [|c r IH]; intros g m m' H; cbn [disamb] in H.
  - injection H as <-. exists []. rewrite app_nil_r. repeat split; [intros n []|constructor].
  - cbn [filter]. destruct (pred c).
    + destruct (ung_call g c) as [[n g']|] eqn:E; [|discriminate].
      destruct (ung_call_spec _ _ _ _ E) as [Hn Hg].
      destruct (IH _ _ _ H) as (ext & -> & F & Fr & ND).
      exists ((c, n) :: ext). rewrite <- app_assoc. cbn [app map fst snd]. rewrite F.
      repeat split.
      * intros x [<-|Hx]; [exact Hn|]. specialize (Fr x Hx). rewrite Hg in Fr.
        intros Hin. apply Fr. now right.
      * constructor; [|exact ND]. intros Hin. specialize (Fr n Hin). rewrite Hg in Fr. apply Fr. now left.
    + exact (IH _ _ _ H).
Qed.

Section Subst.
  Variables lf bf : bool.
  Variable pred : var -> bool.
  Variables (clash : list var) (a b : list fstmt) (m : smap).
  Hypothesis Hm : subst_of lf bf pred clash a b = Some m.
  Hypothesis Hc : clash_enum (idents lf bf a) (idents lf bf b) clash.

  Lemma subst_fst : map fst m = filter pred clash.
  Proof.
    unfold subst_of in Hm. destruct (disamb_spec _ _ _ _ _ Hm) as (ext & E & F & _). cbn in E. now subst.
  Qed.
  Lemma subst_dom x : In x (map fst m) <-> (In x (idents lf bf a) /\ In x (idents lf bf b)) /\ pred x = true.
  Proof. rewrite subst_fst, filter_In. destruct Hc as [_ H]. now rewrite H. Qed.
  Lemma subst_fst_nodup : NoDup (map fst m).
  Proof. rewrite subst_fst. apply NoDup_filter. apply Hc. Qed.
  Lemma subst_snd_nodup : NoDup (map snd m).
  Proof.
    unfold subst_of in Hm. destruct (disamb_spec _ _ _ _ _ Hm) as (ext & E & _ & _ & ND). cbn in E. now subst.
  Qed.
  Lemma subst_fresh n : In n (map snd m) -> ~ In n (idents lf bf a) /\ ~ In n (idents lf bf b).
  Proof.
    unfold subst_of in Hm. destruct (disamb_spec _ _ _ _ _ Hm) as (ext & E & _ & Fr & _). cbn in E. subst ext.
    intros H. specialize (Fr n H). cbn [ung_init u_names] in Fr. rewrite in_app_iff in Fr. tauto.
  Qed.

  (* the policy: a name is renamed iff both methods use it and the predicate asks *)
  Lemma sub_renamed x :
    sub m x <> x <-> (In x (idents lf bf a) /\ In x (idents lf bf b)) /\ pred x = true.
  Proof.
    rewrite <- subst_dom. split.
    - intros H. destruct (in_dec string_dec x (map fst m)) as [I|I]; [exact I|].
      exfalso. apply H. now apply sub_notin.
    - intros H E. pose proof (sub_in_snd _ _ H) as S. rewrite E in S.
      apply subst_fresh in S. apply subst_dom in H. tauto.
  Qed.
  Lemma sub_kept x : pred x = false -> sub m x = x.
  Proof.
    intros H. apply sub_notin. rewrite subst_dom. intros [_ E]. congruence.
  Qed.
  Lemma sub_fresh x : sub m x <> x -> ~ In (sub m x) (idents lf bf a) /\ ~ In (sub m x) (idents lf bf b).
  Proof.
    intros H. apply subst_fresh. apply sub_in_snd. apply sub_renamed in H. now apply subst_dom.
  Qed.

  (* injective on the names the two methods use *)
  Lemma sub_inj x y :
    In x (idents lf bf a ++ idents lf bf b) -> In y (idents lf bf a ++ idents lf bf b) ->
    sub m x = sub m y -> x = y.
  Proof.
    intros Hx Hy E.
    destruct (in_dec string_dec x (map fst m)) as [Ix|Ix], (in_dec string_dec y (map fst m)) as [Iy|Iy].
    - pose proof (sub_in _ _ Ix) as Px. pose proof (sub_in _ _ Iy) as Py. rewrite E in Px.
      (* two pairs with the same second component *)
      pose proof subst_snd_nodup as ND. revert Px Py ND. generalize (sub m y) as w. clear.
      intros w Px Py ND.
      induction m as [|[k v] m' IH]; [destruct Px|].
      cbn [map snd] in ND. inversion ND as [|? ? Hn ND']; subst.
      destruct Px as [Px|Px], Py as [Py|Py].
      + congruence.
      + injection Px as <- <-. exfalso. apply Hn. apply (in_map snd) in Py. exact Py.
      + injection Py as <- <-. exfalso. apply Hn. apply (in_map snd) in Px. exact Px.
      + auto.
    - exfalso. rewrite (sub_notin _ _ Iy) in E. pose proof (sub_in_snd _ _ Ix) as S. rewrite E in S.
      apply subst_fresh in S. rewrite in_app_iff in Hy. tauto.
    - exfalso. rewrite (sub_notin _ _ Ix) in E. pose proof (sub_in_snd _ _ Iy) as S. rewrite <- E in S.
      apply subst_fresh in S. rewrite in_app_iff in Hx. tauto.
    - now rewrite (sub_notin _ _ Ix), (sub_notin _ _ Iy) in E.
  Qed.
End Subst.

(* ------------------------------------------------------------------ names of renamed statements *)
From Dagrt Require Import LangProofs.

Lemma flat_map_map {A B C} (f : B -> list C) (g : A -> B) l :
  flat_map f (map g l) = flat_map (fun x => f (g x)) l.
Proof. induction l as [|x l IH]; cbn; [reflexivity|]. now rewrite IH. Qed.
Lemma map_flat_map {A B C} (f : B -> C) (g : A -> list B) l :
  map f (flat_map g l) = flat_map (fun x => map f (g x)) l.
Proof. induction l as [|x l IH]; cbn; [reflexivity|]. now rewrite map_app, IH. Qed.
Lemma flat_map_ext_in {A B} (f g : A -> list B) l :
  (forall x, In x l -> f x = g x) -> flat_map f l = flat_map g l.
Proof.
  induction l as [|x l IH]; cbn; intros H; [reflexivity|].
  rewrite H by (now left). rewrite IH; [reflexivity|]. intros y Hy. apply H. now right.
Qed.

Lemma vars_ren r e : vars (ren r e) = map r (vars e).
Proof.
  induction e as [z|b| |x|a IH|c t e C T E|o a b A B|o l IH] using expr_ind'; cbn [ren vars map]; try reflexivity.
  - exact IH.
  - now rewrite C, T, E, !map_app.
  - now rewrite A, B, map_app.
  - rewrite flat_map_map, map_flat_map. apply flat_map_ext_in.
    intros x Hx. rewrite Forall_forall in IH. now apply IH.
Qed.

Section Names.
  Variables lf bf : bool.
  Variable r : var -> var.

  Lemma kind_reads_ren lv k : kind_reads lf bf (ren_kind lv r k) = map r (kind_reads lf bf k).
  Proof.
    destruct k as [x sb rhs loops|xs f args kw|comp tid time e| | | | ]; cbn [ren_kind kind_reads map]; try reflexivity.
    - rewrite !map_app, vars_ren. f_equal. f_equal.
      + destruct lf; [|reflexivity]. destruct sb as [ie|]; cbn [option_map map]; [apply vars_ren|reflexivity].
      + destruct bf; [|reflexivity]. rewrite flat_map_map, map_flat_map. apply flat_map_ext_in.
        intros [[i lo] hi] _. cbn [fst snd]. now rewrite !vars_ren, map_app.
    - rewrite map_app, !flat_map_map, !map_flat_map. f_equal; apply flat_map_ext_in.
      + intros a _. apply vars_ren.
      + intros [n e] _. cbn [fst snd]. apply vars_ren.
    - now rewrite map_app, !vars_ren.
  Qed.
  Lemma kind_writes_ren lv k : kind_writes (ren_kind lv r k) = map r (kind_writes k).
  Proof. destruct k; reflexivity. Qed.
  Lemma loopvars_ren k : loopvars (ren_kind true r k) = map r (loopvars k).
  Proof.
    destruct k as [x sb rhs loops|xs f args kw|comp tid time e| | | | ]; cbn [ren_kind loopvars map]; try reflexivity.
    rewrite !map_map. apply map_ext. intros [[i lo] hi]. reflexivity.
  Qed.

  Lemma freads_ren lv st : freads lf bf (rename_stmt true lv r st) = map r (freads lf bf st).
  Proof.
    unfold freads, reads, rename_stmt, lower. cbn [skd scond fkd fcond].
    now rewrite map_app, kind_reads_ren, vars_ren.
  Qed.
  Lemma fwrites_ren g lv st : fwrites (rename_stmt g lv r st) = map r (fwrites st).
  Proof. unfold fwrites, writes, rename_stmt, lower. cbn [skd fkd]. apply kind_writes_ren. Qed.

  Lemma idents_ren lv l : idents lf bf (map (rename_stmt true lv r) l) = map r (idents lf bf l).
  Proof.
    unfold idents. rewrite flat_map_map, map_flat_map. apply flat_map_ext_in.
    intros st _. now rewrite map_app, freads_ren, fwrites_ren.
  Qed.
End Names.

(* ------------------------------------------------------------------ fuse_statement_streams_with_unique_ids *)
Lemma nodup_app {A} (l1 l2 : list A) :
  NoDup l1 -> NoDup l2 -> (forall x, In x l1 -> ~ In x l2) -> NoDup (l1 ++ l2).
Proof.
  induction l1 as [|x l1 IH]; cbn; intros N1 N2 D; [exact N2|].
  inversion N1 as [|? ? Hx N1']; subst. constructor.
  - rewrite in_app_iff. intros [H|H]; [contradiction|]. apply (D x); [now left|exact H].
  - apply IH; [exact N1'|exact N2|]. intros y Hy. apply D. now right.
Qed.

Lemma fresh_ids_spec : forall b g news,
  fresh_ids g b = Some news ->
  map fst news = map fid b /\ NoDup (map snd news) /\ (forall n, In n (map snd news) -> ~ In n (u_names g)).
Proof.
  induction b as [|st b IH]; intros g news H; cbn [fresh_ids] in H.
  - injection H as <-. repeat split; [constructor|intros n []].
  - destruct (ung_call g (fid st)) as [[n g']|] eqn:E; [|discriminate].
    destruct (fresh_ids g' b) as [news'|] eqn:E'; [|discriminate]. injection H as <-.
    destruct (ung_call_spec _ _ _ _ E) as [Hn Hg]. destruct (IH _ _ E') as (F & ND & Fr).
    cbn [map fst snd]. rewrite F. repeat split.
    + constructor; [|exact ND]. intros Hin. specialize (Fr n Hin). rewrite Hg in Fr. apply Fr. now left.
    + intros x [<-|Hx]; [exact Hn|]. specialize (Fr x Hx). rewrite Hg in Fr. intros Hin. apply Fr. now right.
Qed.

Theorem fresh_ids_total : forall b g, fresh_ids g b <> None.
Proof.
  induction b as [|st b IH]; intros g; cbn [fresh_ids]; [discriminate|].
  pose proof (ung_call_total g (fid st)) as T.
  destruct (ung_call g (fid st)) as [[n g']|]; [|contradiction].
  specialize (IH g'). destruct (fresh_ids g' b); [discriminate|contradiction].
Qed.

Lemma id_lookup_In k l v : id_lookup k l = Some v -> In (k, v) l.
Proof.
  induction l as [|[k' v'] l IH]; cbn [id_lookup]; [discriminate|].
  destruct (id_lookup k l) as [w|].
  - intros H. injection H as <-. right. now apply IH.
  - destruct (String.eqb_spec k k') as [->|N]; [|discriminate]. intros H. injection H as <-. now left.
Qed.
Lemma id_lookup_nodup k v l : NoDup (map fst l) -> In (k, v) l -> id_lookup k l = Some v.
Proof.
  induction l as [|[k' v'] l IH]; cbn [id_lookup map fst]; intros ND H; [destruct H|].
  inversion ND as [|? ? Hk ND']; subst. destruct H as [H|H].
  - injection H as -> ->. destruct (id_lookup k l) as [w|] eqn:E.
    + exfalso. apply Hk. apply id_lookup_In in E. apply (in_map fst) in E. exact E.
    + now rewrite String.eqb_refl.
  - now rewrite (IH ND' H).
Qed.

(* the id mapping as a function (identity outside the ids of the second method) *)
Definition idf (idm : list (string * string)) (k : string) : string :=
  match id_lookup k idm with Some v => v | None => k end.

Lemma remap_deps_spec idm : forall deps ds,
  remap_deps idm deps = FOk ds ->
  ds = map (idf idm) deps /\ forall d, In d deps -> exists d', id_lookup d idm = Some d'.
Proof.
  induction deps as [|d r IH]; intros ds H; cbn [remap_deps] in H.
  - injection H as <-. split; [reflexivity|intros d []].
  - destruct (id_lookup d idm) as [d'|] eqn:E; [|discriminate].
    destruct (remap_deps idm r) as [r'| | |] eqn:E'; try discriminate. injection H as <-.
    destruct (IH _ eq_refl) as [-> Hall]. split.
    + cbn [map]. f_equal. unfold idf. now rewrite E.
    + intros x [<-|Hx]; [eauto|auto].
Qed.

(* st' is st with its new id and remapped dependencies *)
Definition relabeled (idm : list (string * string)) (st st' : fstmt) : Prop :=
  In (fid st, fid st') idm /\ fdeps st' = map (idf idm) (fdeps st) /\
  (forall d, In d (fdeps st) -> exists d', id_lookup d idm = Some d') /\
  fcond st' = fcond st /\ fkd st' = fkd st.

Lemma relabel_spec idm : forall b news b',
  relabel idm news b = FOk b' -> map fst news = map fid b -> incl news idm ->
  map fid b' = map snd news /\ Forall2 (relabeled idm) b b'.
Proof.
  induction b as [|st b IH]; intros news b' H F I.
  - destruct news; [|discriminate]. cbn in H. injection H as <-. split; [reflexivity|constructor].
  - destruct news as [|[k n] news]; [discriminate|]. cbn [map fst] in F. injection F as Fk F.
    cbn [relabel] in H.
    destruct (remap_deps idm (fdeps st)) as [ds| | |] eqn:E; try discriminate.
    destruct (relabel idm news b) as [r'| | |] eqn:E'; try discriminate. injection H as <-.
    destruct (IH _ _ E' F) as [M F2]; [intros x Hx; apply I; now right|].
    destruct (remap_deps_spec _ _ _ E) as [-> Hall].
    split; [cbn [map fid snd]; now rewrite M|].
    constructor; [|exact F2]. unfold relabeled. cbn [fid fdeps fcond fkd].
    repeat split; auto. subst k. apply I. now left.
Qed.

Theorem fuse_streams_spec a b l :
  fuse_streams a b = FOk l ->
  exists idm b', l = (a ++ b')%list /\ Forall2 (relabeled idm) b b' /\
                 map fst idm = map fid b /\ map snd idm = map fid b' /\
                 NoDup (map fid b') /\ (forall x, In x (map fid b') -> ~ In x (map fid a)).
Proof.
  unfold fuse_streams. destruct (fresh_ids _ b) as [news|] eqn:E; [|discriminate].
  destruct (relabel news news b) as [b'| | |] eqn:E'; try discriminate. intros H. injection H as <-.
  destruct (fresh_ids_spec _ _ _ E) as (F & ND & Fr).
  destruct (relabel_spec _ _ _ _ E' F (incl_refl _)) as [M F2].
  exists news, b'. rewrite M. repeat split; auto.
Qed.

(* ids: unique after fusion, whatever the ids of the second method were *)
Theorem fuse_streams_ids_unique a b l :
  fuse_streams a b = FOk l -> NoDup (map fid a) -> NoDup (map fid l).
Proof.
  intros H Na. destruct (fuse_streams_spec _ _ _ H) as (idm & b' & -> & _ & _ & _ & Nb & D).
  rewrite map_app. apply nodup_app; auto. intros x Ha Hb. exact (D x Hb Ha).
Qed.

(* dependencies: those of the first method untouched; those of the second method remapped by the
   same injective map that renames its ids, and they stay inside the second method *)
Theorem fuse_streams_deps a b l :
  fuse_streams a b = FOk l -> NoDup (map fid b) ->
  exists (f : string -> string) b',
    l = (a ++ b')%list /\
    Forall2 (fun st st' => fid st' = f (fid st) /\ fdeps st' = map f (fdeps st)) b b' /\
    (forall x y, In x (map fid b) -> In y (map fid b) -> f x = f y -> x = y) /\
    (forall st', In st' b' -> incl (fdeps st') (map fid b')).
Proof.
  intros H Nb. destruct (fuse_streams_spec _ _ _ H) as (idm & b' & -> & F2 & Ff & Fs & Nb' & D).
  assert (NDf : NoDup (map fst idm)) by now rewrite Ff.
  assert (Hlk : forall k v, In (k, v) idm -> idf idm k = v).
  { intros k v Hin. unfold idf. now rewrite (id_lookup_nodup _ _ _ NDf Hin). }
  exists (idf idm), b'. repeat split.
  - clear -F2 Hlk. induction F2 as [|st st' b b' (Hin & Hd & _) _ IH]; constructor; [|exact IH].
    split; [symmetry; now apply Hlk|exact Hd].
  - (* injective on the ids of b *)
    intros x y Hx Hy E. rewrite <- Ff in Hx, Hy.
    apply in_map_iff in Hx. destruct Hx as ([kx vx] & <- & Hx).
    apply in_map_iff in Hy. destruct Hy as ([ky vy] & <- & Hy). cbn [fst] in *.
    rewrite (Hlk _ _ Hx), (Hlk _ _ Hy) in E. subst vy.
    assert (NDs : NoDup (map snd idm)) by now rewrite Fs.
    clear -Hx Hy NDs. induction idm as [|[k v] m IH]; [destruct Hx|].
    cbn [map snd] in NDs. inversion NDs as [|? ? Hn ND']; subst.
    destruct Hx as [Hx|Hx], Hy as [Hy|Hy].
    + congruence.
    + injection Hx as <- <-. exfalso. apply Hn. apply (in_map snd) in Hy. exact Hy.
    + injection Hy as <- <-. exfalso. apply Hn. apply (in_map snd) in Hx. exact Hx.
    + auto.
  - intros st' Hst d Hd. rewrite <- Fs.
    clear -F2 Hst Hd. induction F2 as [|st0 st0' b b' (_ & Hdeps & Hall & _) _ IH]; [destruct Hst|].
    destruct Hst as [<-|Hst]; [|auto].
    rewrite Hdeps in Hd. apply in_map_iff in Hd. destruct Hd as (d0 & <- & Hd0).
    destruct (Hall _ Hd0) as (d' & E). unfold idf. rewrite E.
    apply id_lookup_In in E. apply (in_map snd) in E. exact E.
Qed.

(* ------------------------------------------------------------------ fuse_stmts (one phase present in both DAGs) *)
Lemma Forall2_map_l {A B C} (f : A -> B) (P : B -> C -> Prop) l l' :
  Forall2 P (map f l) l' <-> Forall2 (fun x y => P (f x) y) l l'.
Proof.
  revert l'. induction l as [|x l IH]; intros l'; cbn [map]; split; intros H; inversion H; subst; constructor;
    try assumption; now apply IH.
Qed.

Lemma idents_same lf bf l l' :
  Forall2 (fun st st' => fcond st' = fcond st /\ fkd st' = fkd st) l l' -> idents lf bf l' = idents lf bf l.
Proof.
  induction 1 as [|st st' l l' [Hc Hk] _ IH]; [reflexivity|]. unfold idents in *. cbn [flat_map].
  rewrite IH. unfold freads, fwrites, reads, writes, lower. cbn [skd scond]. now rewrite Hc, Hk.
Qed.

Section FuseStmts.
  Variables lf bf : bool.
  Variables gd lv : bool.           (* sw_guard, sw_loopv *)
  Variable pred : var -> bool.
  Variables (clash : list var) (a b l : list fstmt).
  Hypothesis H : fuse_stmts lf bf gd lv pred clash a b = FOk l.

  Lemma fuse_stmts_spec :
    exists m idm b',
      subst_of lf bf pred clash a b = Some m /\
      l = (a ++ b')%list /\
      Forall2 (fun st st' => relabeled idm (rename_stmt gd lv (sub m) st) st') b b' /\
      map fst idm = map fid b /\ map snd idm = map fid b' /\
      NoDup (map fid b') /\ (forall x, In x (map fid b') -> ~ In x (map fid a)).
  Proof.
    unfold fuse_stmts in H. destruct (subst_of lf bf pred clash a b) as [m|]; [|discriminate].
    destruct (existsb _ b); [discriminate|].
    destruct (fuse_streams_spec _ _ _ H) as (idm & b' & -> & F2 & Ff & Fs & ND & D).
    exists m, idm, b'. rewrite map_map in Ff. cbn [rename_stmt fid] in Ff.
    rewrite Forall2_map_l in F2. repeat split; auto.
  Qed.

  (* ids unique: for every shape of the code *)
  Theorem fuse_stmts_ids_unique : NoDup (map fid a) -> NoDup (map fid l).
  Proof.
    unfold fuse_stmts in H. destruct (subst_of lf bf pred clash a b) as [m|]; [|discriminate].
    destruct (existsb _ b); [discriminate|]. now apply (fuse_streams_ids_unique _ _ _ H).
  Qed.

  (* dependencies intact: for every shape of the code *)
  Theorem fuse_stmts_deps : NoDup (map fid b) ->
    exists (f : string -> string) b',
      l = (a ++ b')%list /\
      Forall2 (fun st st' => fid st' = f (fid st) /\ fdeps st' = map f (fdeps st)) b b' /\
      (forall x y, In x (map fid b) -> In y (map fid b) -> f x = f y -> x = y) /\
      (forall st', In st' b' -> incl (fdeps st') (map fid b')).
  Proof.
    intros Nb. unfold fuse_stmts in H. destruct (subst_of lf bf pred clash a b) as [m|]; [|discriminate].
    destruct (existsb _ b); [discriminate|].
    destruct (fuse_streams_deps _ _ _ H) as (f & b' & -> & F2 & Inj & Cl).
    { rewrite map_map. exact Nb. }
    exists f, b'. rewrite map_map in Inj. cbn [rename_stmt fid] in Inj.
    rewrite Forall2_map_l in F2. repeat split; auto.
  Qed.

  (* contains both: the first method as it is, the second one statement by statement, renamed by
     the substitution (guards / loop variables only in the repaired shape) *)
  Theorem fuse_stmts_contains :
    exists m b',
      subst_of lf bf pred clash a b = Some m /\ l = (a ++ b')%list /\
      Forall2 (fun st st' => fcond st' = (if gd then ren (sub m) (fcond st) else fcond st) /\
                             fkd st' = ren_kind lv (sub m) (fkd st)) b b'.
  Proof.
    destruct fuse_stmts_spec as (m & idm & b' & Hm & -> & F2 & _).
    exists m, b'. repeat split; auto.
    clear -F2. induction F2 as [|st st' b b' (_ & _ & _ & Hc & Hk) _ IH]; constructor; auto.
  Qed.
End FuseStmts.

(* ------------------------------------------------------------------ the two naming theorems, repaired shape *)
Section Naming.
  Variables lf bf : bool.
  Variable lv : bool.
  Variable pred : var -> bool.
  Variables (clash : list var) (a b l : list fstmt).
  Hypothesis H : fuse_stmts lf bf true lv pred clash a b = FOk l.
  Hypothesis Hc : clash_enum (idents lf bf a) (idents lf bf b) clash.

  Lemma fuse_stmts_idents :
    exists m b', subst_of lf bf pred clash a b = Some m /\ l = (a ++ b')%list /\
                 idents lf bf b' = map (sub m) (idents lf bf b).
  Proof.
    destruct (fuse_stmts_spec _ _ _ _ _ _ _ _ _ H) as (m & idm & b' & Hm & -> & F2 & _).
    exists m, b'. repeat split; auto.
    rewrite <- (idents_ren lf bf (sub m) lv b). apply idents_same.
    apply Forall2_map_l. clear -F2.
    induction F2 as [|st st' b b' (_ & _ & _ & Hc & Hk) _ IH]; constructor; auto.
  Qed.

  (* temporaries disjoint: a name used by both parts of the fused phase is one that both methods
     used before and that the predicate said to keep *)
  Theorem temporaries_disjoint :
    exists b', l = (a ++ b')%list /\
      forall y, In y (idents lf bf a) -> In y (idents lf bf b') ->
                In y (idents lf bf b) /\ pred y = false.
  Proof.
    destruct fuse_stmts_idents as (m & b' & Hm & -> & Hi). exists b'. split; [reflexivity|].
    intros y Ha Hb. rewrite Hi in Hb. apply in_map_iff in Hb. destruct Hb as (x & <- & Hx).
    destruct (string_dec (sub m x) x) as [E|N].
    - rewrite E in *. split; [exact Hx|].
      destruct (pred x) eqn:P; [|reflexivity]. exfalso.
      assert (R : sub m x <> x) by (apply (sub_renamed lf bf pred clash a b m Hm Hc); tauto). now apply R.
    - exfalso. destruct (sub_fresh lf bf pred clash a b m Hm Hc x N) as [F _]. now apply F.
  Qed.
End Naming.

(* ------------------------------------------------------------------ fuse_two_phases / fuse_two_dags *)
Lemma pget_pset_same k v l : pget k (pset k v l) = Some v.
Proof.
  induction l as [|[k' v'] l IH]; cbn [pset pget]; [now rewrite String.eqb_refl|].
  destruct (String.eqb_spec k k') as [->|N]; cbn [pget].
  - now rewrite String.eqb_refl.
  - destruct (String.eqb_spec k k'); [contradiction|exact IH].
Qed.
Lemma pget_pset_other k k' v l : k' <> k -> pget k' (pset k v l) = pget k' l.
Proof.
  intros N. induction l as [|[k0 v0] l IH]; cbn [pset pget].
  - destruct (String.eqb_spec k' k); [contradiction|reflexivity].
  - destruct (String.eqb_spec k k0) as [->|N0]; cbn [pget].
    + destruct (String.eqb_spec k' k0); [contradiction|reflexivity].
    + destruct (String.eqb_spec k' k0); [reflexivity|exact IH].
Qed.

Section Dags.
  Variables lf bf : bool.
  Variable is_state : var -> bool.
  Variables th pr gd lv : bool.

  Notation ftp := (fuse_two_phases lf bf is_state pr gd lv).

  (* both phases present: agreement on the default transition is checked, name and transition are
     those of the first method, the statements are fuse_stmts with the effective predicate *)
  Theorem fuse_two_phases_both n p clash pa pb ph :
    ftp n p clash (Some pa) (Some pb) = FOk ph ->
    ph_next pa = ph_next pb /\ ph_name ph = ph_name pa /\ ph_next ph = ph_next pa /\
    fuse_stmts lf bf gd lv (eff_pred is_state pr p) clash (ph_stmts pa) (ph_stmts pb) = FOk (ph_stmts ph).
  Proof.
    cbn [fuse_two_phases]. destruct (String.eqb_spec (ph_next pa) (ph_next pb)) as [E|N]; cbn [negb]; [|discriminate].
    destruct (fuse_stmts _ _ _ _ _ _ _ _) as [l| | |]; try discriminate.
    intros H. injection H as <-. cbn. auto.
  Qed.
  Theorem fuse_two_phases_next_differs n p clash pa pb :
    ph_next pa <> ph_next pb -> ftp n p clash (Some pa) (Some pb) = FValueError (VNextPhase n).
  Proof.
    intros N. cbn [fuse_two_phases]. destruct (String.eqb_spec (ph_next pa) (ph_next pb)); [contradiction|reflexivity].
  Qed.
  Lemma fuse_two_phases_single n p clash pa :
    ftp n p clash (Some pa) None = FOk pa /\ ftp n p clash None (Some pa) = FOk pa.
  Proof. split; reflexivity. Qed.

  Lemma fuse_phases_spec p clashes d1 d2 : forall names acc res,
    fuse_phases lf bf is_state th pr gd lv p clashes d1 d2 names acc = FOk res -> NoDup names ->
    (forall n, In n names ->
       exists ph, ftp n (if th then p else None) (oget n clashes) (pget n (d_phases d1)) (pget n (d_phases d2)) = FOk ph
                  /\ pget n res = Some ph) /\
    (forall n, ~ In n names -> pget n res = pget n acc).
  Proof.
    induction names as [|n r IH]; intros acc res H ND; cbn [fuse_phases] in H.
    - injection H as <-. split; [intros n []|reflexivity].
    - inversion ND as [|? ? Hn ND']; subst.
      destruct (ftp n _ _ _ _) as [ph| | |] eqn:E; try discriminate.
      destruct (IH _ _ H ND') as [A B]. split.
      + intros k [<-|Hk]; [|auto]. exists ph. split; [exact E|].
        rewrite (B n Hn). apply pget_pset_same.
      + intros k Hk. rewrite B by (intros Hin; apply Hk; now right).
        apply pget_pset_other. intros ->. apply Hk. now left.
  Qed.

  (* fuse_two_dags: the initial phases agree and are kept; every phase name of the order carries the
     fusion of the two phases of that name (the caller's predicate reaches it only when threaded) *)
  Theorem fuse_two_dags_spec p order clashes d1 d2 d :
    fuse_two_dags lf bf is_state th pr gd lv p order clashes d1 d2 = FOk d -> NoDup order ->
    d_init d1 = d_init d2 /\ d_init d = d_init d1 /\
    (forall n, In n order ->
       exists ph, ftp n (if th then p else None) (oget n clashes) (pget n (d_phases d1)) (pget n (d_phases d2)) = FOk ph
                  /\ pget n (d_phases d) = Some ph) /\
    (forall n, ~ In n order -> pget n (d_phases d) = None).
  Proof.
    unfold fuse_two_dags. destruct (fuse_phases _ _ _ _ _ _ _ _ _ _ _ _ _) as [phs| | |] eqn:E; try discriminate.
    destruct (String.eqb_spec (d_init d1) (d_init d2)) as [Ei|Ni]; cbn [negb]; [|discriminate].
    intros H ND. injection H as <-. cbn [d_init d_phases].
    destruct (fuse_phases_spec _ _ _ _ _ _ _ E ND) as [A B]. repeat split; auto.
  Qed.
  Theorem fuse_two_dags_init_differs p order clashes d1 d2 d :
    d_init d1 <> d_init d2 -> fuse_two_dags lf bf is_state th pr gd lv p order clashes d1 d2 <> FOk d.
  Proof.
    intros N. unfold fuse_two_dags. destruct (fuse_phases _ _ _ _ _ _ _ _ _ _ _ _ _); try discriminate.
    destruct (String.eqb_spec (d_init d1) (d_init d2)); [contradiction|discriminate].
  Qed.
End Dags.

(* ------------------------------------------------------------------ the fuel is never exhausted *)
Lemma disamb_total pred : forall order g m, disamb pred g order m <> None.
Proof.
  induction order as [|c r IH]; intros g m; cbn [disamb]; [discriminate|].
  destruct (pred c); [|apply IH].
  pose proof (ung_call_total g c) as T. destruct (ung_call g c) as [[n g']|]; [apply IH|contradiction].
Qed.

Lemma remap_deps_no_fuel idm : forall deps, remap_deps idm deps <> FOutOfFuel /\
                                            forall w, remap_deps idm deps <> FValueError w.
Proof.
  induction deps as [|d r [IH1 IH2]]; cbn [remap_deps]; [split; [discriminate|intros w; discriminate]|].
  destruct (id_lookup d idm); [|split; [discriminate|intros w; discriminate]].
  destruct (remap_deps idm r) as [r'|w0|k|] eqn:E.
  - split; [discriminate|intros w; discriminate].
  - exfalso. now apply (IH2 w0).
  - split; [discriminate|intros w; discriminate].
  - exfalso. now apply IH1.
Qed.

Lemma relabel_no_fuel idm : forall b news, relabel idm news b <> FOutOfFuel /\
                                           forall w, relabel idm news b <> FValueError w.
Proof.
  induction b as [|st b IH]; intros news.
  - destruct news as [|[k n] news]; cbn; (split; [discriminate|intros w; discriminate]).
  - destruct news as [|[k n] news]; [cbn; split; [discriminate|intros w; discriminate]|].
    cbn [relabel].
    destruct (remap_deps_no_fuel idm (fdeps st)) as [D1 D2].
    destruct (remap_deps idm (fdeps st)) as [ds|w0|k0|].
    + destruct (IH news) as [I1 I2]. destruct (relabel idm news b) as [r'|w1|k1|].
      * split; [discriminate|intros w; discriminate].
      * exfalso. now apply (I2 w1).
      * split; [discriminate|intros w; discriminate].
      * exfalso. now apply I1.
    + exfalso. now apply (D2 w0).
    + split; [discriminate|intros w; discriminate].
    + exfalso. now apply D1.
Qed.

Lemma fuse_streams_no_fuel a b : fuse_streams a b <> FOutOfFuel.
Proof.
  unfold fuse_streams. pose proof (fresh_ids_total b (ung_init (map fid a))) as T.
  destruct (fresh_ids _ b) as [news|]; [|contradiction].
  destruct (relabel_no_fuel news b news) as [R1 _].
  destruct (relabel news news b); try discriminate. exfalso. now apply R1.
Qed.

Theorem fuse_two_dags_no_fuel lf bf is_state th pr gd lv p order clashes d1 d2 :
  fuse_two_dags lf bf is_state th pr gd lv p order clashes d1 d2 <> FOutOfFuel.
Proof.
  assert (S : forall pred clash a b, fuse_stmts lf bf gd lv pred clash a b <> FOutOfFuel).
  { intros pred clash a b. unfold fuse_stmts, subst_of.
    pose proof (disamb_total pred clash (ung_init (idents lf bf a ++ idents lf bf b)) []) as T.
    destruct (disamb _ _ _ _); [|contradiction].
    destruct (existsb _ b); [discriminate|apply fuse_streams_no_fuel]. }
  assert (P : forall n q clash p1 p2, fuse_two_phases lf bf is_state pr gd lv n q clash p1 p2 <> FOutOfFuel).
  { intros n q clash [pa|] [pb|]; cbn [fuse_two_phases]; try discriminate.
    destruct (negb _); [discriminate|]. specialize (S (eff_pred is_state pr q) clash (ph_stmts pa) (ph_stmts pb)).
    destruct (fuse_stmts _ _ _ _ _ _ _ _); try discriminate. contradiction. }
  assert (L : forall names acc, fuse_phases lf bf is_state th pr gd lv p clashes d1 d2 names acc <> FOutOfFuel).
  { induction names as [|n r IH]; intros acc; cbn [fuse_phases]; [discriminate|].
    specialize (P n (if th then p else None) (oget n clashes) (pget n (d_phases d1)) (pget n (d_phases d2))).
    destruct (fuse_two_phases _ _ _ _ _ _ _ _ _ _ _); try discriminate; [apply IH|contradiction]. }
  unfold fuse_two_dags. specialize (L order []).
  destruct (fuse_phases _ _ _ _ _ _ _ _ _ _ _ _ _); try discriminate; [|contradiction].
  destruct (negb _); discriminate.
Qed.
