(* C12 -- Part B: the component-level invariant `rinv` through the three primitive
   transitions (re-point to a fresh block, nullify, share). *)
From Coq Require Import List Arith Bool Lia ZifyBool.
Import ListNotations.
From Dagrt Require Import Refcount RefcountBase.

Lemma owners_none_intro U vs b : (forall x, In x U -> vs x <> Some b) -> owners U vs b = 0.
Proof.
  induction U as [|y U IH]; intros H; [reflexivity|].
  rewrite owners_cons. rewrite IH by (intros x Hx; apply H; now right).
  unfold points. specialize (H y (or_introl eq_refl)).
  destruct (vs y) as [b'|]; [|reflexivity].
  destruct (Nat.eqb_spec b' b); [subst; congruence | reflexivity].
Qed.

Lemma owners_set U vs x v b : NoDup U -> In x U ->
  owners U (upd vs x v) b =
  owners U (upd vs x None) b + b2n (match v with Some b' => Nat.eqb b' b | None => false end).
Proof.
  intros ND Hin.
  pose proof (owners_upd U (upd vs x None) x v b ND Hin) as H.
  rewrite !points_upd_same in H. cbn [b2n] in H.
  rewrite (owners_ext U (upd (upd vs x None) x v) (upd vs x v)) in H.
  - lia.
  - intros y _. unfold upd. destruct (Nat.eqb y x); reflexivity.
Qed.

Lemma owners_unset U vs x b : NoDup U -> In x U ->
  owners U vs b = owners U (upd vs x None) b + b2n (points vs b x).
Proof.
  intros ND Hin. unfold points. rewrite <- (owners_set U vs x (vs x) b ND Hin).
  apply owners_ext. intros y _. unfold upd. destruct (Nat.eqb_spec y x); congruence.
Qed.

(* the invariant with variable x taken out of the count ("x is about to be re-pointed") *)
Definition hole (U : list var) (x : var) (vs : var -> option block) (c : block -> option nat)
           (nx : block) (fr : list block) : Prop :=
  (forall b n, c b = Some n -> n = owners U (upd vs x None) b /\ 1 <= n) /\
  (forall y b, In y U -> y <> x -> vs y = Some b -> c b <> None) /\
  (forall b, nx <= b -> c b = None) /\
  (forall b, count_occ Nat.eq_dec fr b =
             match c b with Some _ => 0 | None => if Nat.ltb b nx then 1 else 0 end).

Lemma hole_of_null U x vs c nx fr :
  rinv U vs c nx fr -> vs x = None -> hole U x vs c nx fr.
Proof.
  intros (I1 & I2 & I3 & I4) Hx. split; [|split; [|split]]; auto.
  - intros b n H. destruct (I1 b n H) as [E L]. split; [|assumption]. rewrite E. apply owners_ext.
    intros y _. unfold upd. destruct (Nat.eqb_spec y x); congruence.
  - intros y b Hy _ Hv. eauto.
Qed.

Lemma live_below U vs c nx fr b n : rinv U vs c nx fr -> c b = Some n -> b < nx.
Proof.
  intros (_ & _ & I3 & _) H. destruct (le_lt_dec nx b) as [L|L]; [|assumption].
  rewrite (I3 b L) in H. discriminate.
Qed.

Lemma hole_of_shared U x vs c nx fr b n :
  NoDup U -> In x U -> rinv U vs c nx fr -> vs x = Some b -> c b = Some (S (S n)) ->
  hole U x vs (upd c b (Some (S n))) nx fr.
Proof.
  intros ND Hin Hinv Hx Hc. pose proof (live_below _ _ _ _ _ _ _ Hinv Hc) as Hlt.
  destruct Hinv as (I1 & I2 & I3 & I4). split; [|split; [|split]].
  - intros b0 n0 H. destruct (Nat.eq_dec b0 b) as [->|Hne].
    + rewrite upd_same in H. injection H as <-.
      destruct (I1 b _ Hc) as [E _]. rewrite (owners_unset U vs x b ND Hin) in E.
      unfold points in E. rewrite Hx, Nat.eqb_refl in E. cbn in E. lia.
    + rewrite upd_other in H by assumption. destruct (I1 b0 n0 H) as [E L].
      rewrite (owners_unset U vs x b0 ND Hin) in E. unfold points in E. rewrite Hx in E.
      destruct (Nat.eqb_spec b b0); [subst; congruence|]. cbn in E. lia.
  - intros y b1 Hy Hne Hv. destruct (Nat.eq_dec b1 b) as [->|Hb].
    + rewrite upd_same. discriminate.
    + rewrite upd_other by assumption. eauto.
  - intros b1 Hle. rewrite upd_other by lia. auto.
  - intros b1. rewrite I4. destruct (Nat.eq_dec b1 b) as [->|Hb].
    + rewrite upd_same, Hc. reflexivity.
    + rewrite upd_other by assumption. reflexivity.
Qed.

Lemma owners_two U vs x y b : NoDup U -> In x U -> In y U -> x <> y ->
  vs x = Some b -> vs y = Some b -> 2 <= owners U vs b.
Proof.
  intros ND Hx Hy Hne Vx Vy. rewrite (owners_unset U vs x b ND Hx).
  unfold points at 1. rewrite Vx, Nat.eqb_refl. cbn.
  assert (1 <= owners U (upd vs x None) b).
  { apply (owners_pos U _ b y Hy). rewrite upd_other; auto. }
  lia.
Qed.

Lemma hole_of_sole U x vs c nx fr b :
  NoDup U -> In x U -> rinv U vs c nx fr -> vs x = Some b -> c b = Some 1 ->
  hole U x vs (upd c b None) nx (b :: fr).
Proof.
  intros ND Hin Hinv Hx Hc. pose proof (live_below _ _ _ _ _ _ _ Hinv Hc) as Hlt.
  destruct Hinv as (I1 & I2 & I3 & I4). split; [|split; [|split]].
  - intros b0 n H. destruct (Nat.eq_dec b0 b) as [->|Hne]; [rewrite upd_same in H; discriminate|].
    rewrite upd_other in H by assumption. destruct (I1 b0 n H) as [E L].
    rewrite (owners_unset U vs x b0 ND Hin) in E. unfold points in E. rewrite Hx in E.
    destruct (Nat.eqb_spec b b0); [subst; congruence|]. cbn in E. lia.
  - intros y b1 Hy Hne Hv. destruct (Nat.eq_dec b1 b) as [->|Hb].
    + exfalso. destruct (I1 b 1 Hc) as [E _].
      pose proof (owners_two U vs x y b ND Hin Hy (not_eq_sym Hne) Hx Hv). lia.
    + rewrite upd_other by assumption. eauto.
  - intros b1 Hle. rewrite upd_other by lia. auto.
  - intros b1. cbn [count_occ]. destruct (Nat.eq_dec b b1) as [<-|Hb].
    + rewrite upd_same, I4, Hc. apply Nat.ltb_lt in Hlt. now rewrite Hlt.
    + rewrite upd_other by auto. apply I4.
Qed.

Lemma hole_fill_fresh U x vs c nx fr :
  NoDup U -> In x U -> hole U x vs c nx fr ->
  rinv U (upd vs x (Some nx)) (upd c nx (Some 1)) (S nx) fr.
Proof.
  intros ND Hin (I1 & I2 & I3 & I4).
  assert (Hc : c nx = None) by (apply I3; lia).
  assert (Hz : owners U (upd vs x None) nx = 0).
  { apply owners_none_intro. intros y Hy Hv. destruct (Nat.eq_dec y x) as [->|Hne].
    - rewrite upd_same in Hv. discriminate.
    - rewrite upd_other in Hv by assumption. apply (I2 y nx Hy Hne Hv Hc). }
  split; [|split; [|split]].
  - intros b n H. rewrite (owners_set U vs x (Some nx) b ND Hin).
    destruct (Nat.eq_dec b nx) as [->|Hne].
    + rewrite upd_same in H. injection H as <-. rewrite Hz, Nat.eqb_refl. cbn. lia.
    + rewrite upd_other in H by assumption. destruct (I1 b n H) as [E L].
      destruct (Nat.eqb_spec nx b); [subst; congruence|]. cbn. lia.
  - intros y b1 Hy Hv. destruct (Nat.eq_dec y x) as [->|Hne].
    + rewrite upd_same in Hv. injection Hv as <-. rewrite upd_same. discriminate.
    + rewrite upd_other in Hv by assumption. pose proof (I2 y b1 Hy Hne Hv) as Hb.
      destruct (Nat.eq_dec b1 nx) as [->|Hb1]; [congruence|]. now rewrite upd_other.
  - intros b1 Hle. rewrite upd_other by lia. apply I3. lia.
  - intros b1. rewrite I4. destruct (Nat.eq_dec b1 nx) as [->|Hb1].
    + rewrite upd_same, Hc, Nat.ltb_irrefl. reflexivity.
    + rewrite upd_other by assumption. destruct (c b1); [reflexivity|].
      destruct (Nat.ltb_spec b1 nx), (Nat.ltb_spec b1 (S nx)); try reflexivity; lia.
Qed.

Lemma hole_fill_null U x vs c nx fr :
  hole U x vs c nx fr -> rinv U (upd vs x None) c nx fr.
Proof.
  intros (I1 & I2 & I3 & I4). split; [|split; [|split]]; auto.
  intros y b Hy Hv. destruct (Nat.eq_dec y x) as [->|Hne].
  - rewrite upd_same in Hv. discriminate.
  - rewrite upd_other in Hv by assumption. eauto.
Qed.

Lemma hole_fill_share U d s vs c nx fr b n :
  NoDup U -> In d U -> In s U -> s <> d -> hole U d vs c nx fr ->
  vs s = Some b -> c b = Some n ->
  rinv U (upd vs d (Some b)) (upd c b (Some (S n))) nx fr.
Proof.
  intros ND Hd Hs Hne (I1 & I2 & I3 & I4) Vs Cb. split; [|split; [|split]].
  - intros b0 n0 H. rewrite (owners_set U vs d (Some b) b0 ND Hd).
    destruct (Nat.eq_dec b0 b) as [->|Hb].
    + rewrite upd_same in H. injection H as <-. destruct (I1 b n Cb) as [E L].
      rewrite Nat.eqb_refl. cbn. lia.
    + rewrite upd_other in H by assumption. destruct (I1 b0 n0 H) as [E L].
      destruct (Nat.eqb_spec b b0); [subst; congruence|]. cbn. lia.
  - intros y b1 Hy Hv. destruct (Nat.eq_dec b1 b) as [->|Hb]; [rewrite upd_same; discriminate|].
    rewrite upd_other by assumption. destruct (Nat.eq_dec y d) as [->|Hyd].
    + rewrite upd_same in Hv. congruence.
    + rewrite upd_other in Hv by assumption. eauto.
  - intros b1 Hle. destruct (Nat.eq_dec b1 b) as [->|Hb].
    + rewrite (I3 b Hle) in Cb. discriminate.
    + rewrite upd_other by assumption. auto.
  - intros b1. rewrite I4. destruct (Nat.eq_dec b1 b) as [->|Hb].
    + rewrite upd_same, Cb. reflexivity.
    + now rewrite upd_other.
Qed.
