(* C19 -- norm e is in parser-normal form for printable e; variables and value are those of e;
   blanks and back-tick removal do not matter for printed tokens. *)
From Coq Require Import List ZArith NArith String Ascii Bool Arith Lia ZifyBool.
Import ListNotations.
From Dagrt Require Import GenC19 Print Parse ParseRules RoundTrip NormProofs.
Open Scope list_scope.
Open Scope nat_scope.
Notation length := List.length.

(* ------------------------------------------------------------------ nf (norm e) *)

Lemma okc_intro c : nf c = true -> is_tuple c = false -> okc nf c = true.
Proof. intros H1 H2. unfold okc. rewrite H1, H2. reflexivity. Qed.

Lemma okc_split c : okc nf c = true -> nf c = true /\ is_tuple c = false.
Proof. unfold okc. intros H. apply andb_true_iff in H as [H1 H2]. apply negb_true_iff in H2. auto. Qed.

Lemma nop_eqb_eq a b : nop_eqb a b = true -> a = b.
Proof. destruct a, b; try discriminate; reflexivity. Qed.
Lemma nop_eqb_refl a : nop_eqb a a = true.
Proof. destruct a; reflexivity. Qed.

Lemma lapp_okc_arith o acc c : is_tuple (lapp o acc c) = false /\ is_arith (lapp o acc c) = true.
Proof. destruct (lapp_shape o acc c) as (x & y & ->). split; reflexivity. Qed.

Lemma rapp_okc_arith c acc : is_tuple (rapp c acc) = false /\ is_arith (rapp c acc) = true.
Proof. destruct (rapp_shape c acc) as (x & y & ->). split; reflexivity. Qed.

(* nf of a binary left-nested node *)
Lemma nf_left o a b :
  o <> NProd ->
  okc nf a = true -> okc nf b = true -> is_nary o b = false ->
  (o = NSum -> is_arith a = true /\ is_arith b = true) ->
  nf (ENary o [a; b]) = true.
Proof.
  intros Ho Ha Hb Hn Har. cbn [nf]. rewrite Ha, Hb. cbn [andb].
  destruct o; try congruence; cbn [is_nary] in *; rewrite ?Hn; cbn [negb andb]; try reflexivity.
  destruct (Har eq_refl) as [-> ->]. reflexivity.
Qed.

Lemma nf_left_inv o x y :
  o <> NProd -> nf (ENary o [x; y]) = true ->
  okc nf x = true /\ okc nf y = true /\ is_nary o y = false
  /\ (o = NSum -> is_arith x = true /\ is_arith y = true).
Proof.
  intros Ho H. cbn [nf] in H. apply andb_true_iff in H as [H Hs]. apply andb_true_iff in H as [Hx Hy].
  repeat split; auto; destruct o; try congruence;
    repeat (apply andb_true_iff in Hs as [Hs ?]); try apply negb_true_iff in Hs; auto; try discriminate.
Qed.

Lemma nf_lapp o : o <> NProd -> forall c acc,
  okc nf acc = true -> okc nf c = true ->
  (o = NSum -> is_arith acc = true /\ is_arith c = true) ->
  nf (lapp o acc c) = true.
Proof.
  intros Ho. induction c using expr_ind'; intros acc Hacc Hc Har.
  1-3,5-10: (cbn [lapp]; apply nf_left; auto; reflexivity).
  (* ENary *)
  apply okc_split in Hc as [Hc Htc].
  cbn [lapp]. destruct l as [|x [|y [|]]]; try (cbn [nf] in Hc; discriminate).
  destruct (nop_eqb o0 o) eqn:E.
  - apply nop_eqb_eq in E. subst o0.
    destruct (nf_left_inv o x y Ho Hc) as (Hx & Hy & Hny & Harc).
    inversion H as [|? ? IHx _]; subst.
    apply nf_left; auto.
    + apply okc_intro; [|apply lapp_okc_arith].
      apply IHx; auto. intros Es. destruct (Har Es) as [? _]. destruct (Harc Es) as [? _]. auto.
    + intros Es. destruct (Harc Es) as [_ ?]. split; [apply lapp_okc_arith|assumption].
  - apply nf_left; auto.
    all: try (apply okc_intro; assumption).
    all: try (cbn [is_nary]; exact E).
Qed.

Lemma nf_fold_lapp o : o <> NProd -> forall cs acc,
  okc nf acc = true -> (o = NSum -> is_arith acc = true) ->
  Forall (fun c => okc nf c = true /\ (o = NSum -> is_arith c = true)) cs ->
  okc nf (fold_left (lapp o) cs acc) = true /\ (o = NSum -> is_arith (fold_left (lapp o) cs acc) = true).
Proof.
  intros Ho. induction cs as [|c cs IH]; intros acc Hacc Har HF; cbn [fold_left]; [auto|].
  inversion HF as [|? ? [Hc Hca] HF']; subst.
  apply IH; auto.
  - apply okc_intro; [|apply lapp_okc_arith]. apply nf_lapp; auto.
  - intros _. apply lapp_okc_arith.
Qed.

Lemma nf_prod a b :
  okc nf a = true -> okc nf b = true -> is_nary NProd a = false ->
  is_arith a = true -> is_arith b = true -> nf (ENary NProd [a; b]) = true.
Proof.
  intros Ha Hb Hn Haa Hab. cbn [nf]. rewrite Ha, Hb, Hn, Haa, Hab. reflexivity.
Qed.

Lemma nf_rapp : forall c acc,
  okc nf c = true -> okc nf acc = true -> is_arith c = true -> is_arith acc = true ->
  nf (rapp c acc) = true.
Proof.
  induction c using expr_ind'; intros acc Hc Hacc Hca Haa;
    try (cbn [rapp]; apply nf_prod; auto; reflexivity).
  apply okc_split in Hc as [Hc Htc].
  cbn [rapp]. destruct o; try (apply nf_prod; auto; try (apply okc_intro; assumption); reflexivity).
  destruct l as [|x [|y [|]]]; try (cbn [nf] in Hc; discriminate).
  cbn [nf] in Hc. apply andb_true_iff in Hc as [Hc Hs]. apply andb_true_iff in Hc as [Hx Hy].
  apply andb_true_iff in Hs as [Hs Hay]. apply andb_true_iff in Hs as [Hnx Hax].
  apply negb_true_iff in Hnx.
  inversion H as [|? ? _ H']; subst. inversion H' as [|? ? IHy _]; subst.
  apply nf_prod; auto; [|apply rapp_okc_arith].
  apply okc_intro; [|apply rapp_okc_arith]. apply IHy; auto.
Qed.

Lemma nf_rnest : forall l,
  l <> [] -> Forall (fun c => okc nf c = true /\ is_arith c = true) l ->
  okc nf (rnest l) = true /\ is_arith (rnest l) = true.
Proof.
  induction l as [|c r IH]; intros Hne HF; [congruence|].
  inversion HF as [|? ? [Hc Hca] HF']; subst.
  destruct r as [|c' r]; [cbn; auto|].
  change (rnest (c :: c' :: r)) with (rapp c (rnest (c' :: r))).
  destruct (IH ltac:(discriminate) HF') as [Hr Hra].
  split; [|apply rapp_okc_arith].
  apply okc_intro; [|apply rapp_okc_arith]. apply nf_rapp; auto.
Qed.

Lemma abl_map_norm : forall l,
  all_but_last (fun c => negb (is_if c)) (map norm l) = all_but_last (fun c => negb (is_if c)) l.
Proof.
  induction l as [|x r IH]; [reflexivity|].
  destruct r as [|y r]; [reflexivity|].
  change (map norm (x :: y :: r)) with (norm x :: map norm (y :: r)).
  cbn [all_but_last] in *. change (map norm (y :: r)) with (norm y :: map norm r) in *.
  rewrite norm_is_if. f_equal. exact IH.
Qed.

Lemma forallb_okc_norm l :
  Forall (fun e => wf_expr e = true -> no_defect e = true -> nf (norm e) = true) l ->
  forallb (fun c => wf_expr c && negb (is_tuple c)) l = true ->
  forallb no_defect l = true ->
  forallb (okc nf) (map norm l) = true.
Proof.
  intros HF Hw Hd. apply forallb_forall. intros c Hc. apply in_map_iff in Hc as (c0 & <- & Hin).
  rewrite Forall_forall in HF. rewrite forallb_forall in Hw, Hd.
  specialize (Hw c0 Hin). apply andb_true_iff in Hw as [Hw Ht]. apply negb_true_iff in Ht.
  apply okc_intro; [apply HF; auto | rewrite norm_is_tuple; exact Ht].
Qed.

Theorem nf_norm : forall e, wf_expr e = true -> no_defect e = true -> nf (norm e) = true.
Proof.
  induction e using expr_ind2; intros Hw Hd; cbn [norm]; try reflexivity.
  - (* EVar *) exact Hw.
  - (* ENary *)
    cbn [wf_expr] in Hw. apply andb_true_iff in Hw as [Hlen Hw].
    cbn [no_defect] in Hd. apply andb_true_iff in Hd as [Hd Har].
    destruct l as [|c [|c' r]]; try discriminate Hlen.
    assert (HF : Forall (fun c => okc nf c = true) (map norm (c :: c' :: r))).
    { apply Forall_forall. intros x Hx. pose proof (forallb_okc_norm _ H Hw Hd) as Hf.
      rewrite forallb_forall in Hf. auto. }
    assert (HA : forall x, In x (map norm (c :: c' :: r)) -> (o = NSum \/ o = NProd) -> is_arith x = true).
    { intros x Hx Ho. apply in_map_iff in Hx as (x0 & <- & Hin). rewrite norm_is_arith.
      destruct Ho as [-> | ->]; rewrite forallb_forall in Har; auto. }
    change (map norm (c :: c' :: r)) with (norm c :: norm c' :: map norm r) in *.
    inversion HF as [|? ? Hc HF']; subst.
    destruct o.
    + unfold renest.
      destruct (nf_fold_lapp NSum ltac:(discriminate) (norm c' :: map norm r) (norm c)) as [Hr _]; auto.
      * intros _. apply HA; [left; reflexivity | left; reflexivity].
      * apply Forall_forall. intros x Hx. rewrite Forall_forall in HF'. split; [auto|].
        intros _. apply HA; [right; exact Hx | left; reflexivity].
      * apply okc_split in Hr. tauto.
    + unfold renest.
      destruct (nf_rnest (norm c :: norm c' :: map norm r)) as [Hr _]; [discriminate| |].
      * apply Forall_forall. intros x Hx. rewrite Forall_forall in HF. split; [auto|].
        apply HA; [exact Hx | right; reflexivity].
      * apply okc_split in Hr. tauto.
    + unfold renest.
      destruct (nf_fold_lapp NAnd ltac:(discriminate) (norm c' :: map norm r) (norm c)) as [Hr _]; auto.
      * discriminate.
      * apply Forall_forall. intros x Hx. rewrite Forall_forall in HF'. split; [auto|discriminate].
      * apply okc_split in Hr. tauto.
    + unfold renest.
      destruct (nf_fold_lapp NOr ltac:(discriminate) (norm c' :: map norm r) (norm c)) as [Hr _]; auto.
      * discriminate.
      * apply Forall_forall. intros x Hx. rewrite Forall_forall in HF'. split; [auto|discriminate].
      * apply okc_split in Hr. tauto.
  - (* EBin *)
    cbn [wf_expr] in Hw. apply andb_true_iff in Hw as [Hw Htb]. apply andb_true_iff in Hw as [Hw Hta].
    apply andb_true_iff in Hw as [Hwa Hwb]. apply negb_true_iff in Hta, Htb.
    cbn [no_defect] in Hd. apply andb_true_iff in Hd as [Hd Hs]. apply andb_true_iff in Hd as [Hda Hdb].
    cbn [nf]. rewrite !okc_intro; auto; try (rewrite norm_is_tuple; assumption).
    cbn [andb]. rewrite ?norm_is_pow, ?norm_is_cmp, ?norm_is_arith. exact Hs.
  - (* ENot *)
    cbn [wf_expr] in Hw. apply andb_true_iff in Hw as [Hw Ht]. apply negb_true_iff in Ht.
    cbn [no_defect] in Hd. cbn [nf]. apply okc_intro; auto. rewrite norm_is_tuple. exact Ht.
  - (* EIf *)
    cbn [wf_expr] in Hw. repeat (apply andb_true_iff in Hw as [Hw ?]).
    cbn [no_defect] in Hd. repeat (apply andb_true_iff in Hd as [Hd ?]).
    repeat match goal with H : negb _ = true |- _ => apply negb_true_iff in H end.
    cbn [nf]. rewrite !okc_intro; auto; rewrite norm_is_tuple; assumption.
  - (* ECall *)
    cbn [wf_expr] in Hw. apply andb_true_iff in Hw as [Hw Hnd]. apply andb_true_iff in Hw as [Hw Hkw].
    apply andb_true_iff in Hw as [Hw Hargs]. apply andb_true_iff in Hw as [Hwf Htf].
    apply negb_true_iff in Htf.
    cbn [no_defect] in Hd. apply andb_true_iff in Hd as [Hd Habl]. apply andb_true_iff in Hd as [Hd Hdk].
    apply andb_true_iff in Hd as [Hdf Hda].
    cbn [nf]. rewrite okc_intro; auto; [|rewrite norm_is_tuple; exact Htf].
    rewrite (forallb_okc_norm _ H Hargs Hda). cbn [andb].
    assert (E1 : forallb (fun kv => okc nf (snd kv)) (map (fun kv => (fst kv, norm (snd kv))) kw) = true).
    { apply forallb_forall. intros kv Hkv. apply in_map_iff in Hkv as (kv0 & <- & Hin). cbn [snd].
      rewrite Forall_forall in H0. rewrite forallb_forall in Hkw, Hdk.
      specialize (Hkw kv0 Hin). apply andb_true_iff in Hkw as [Hk1 Hk2]. apply negb_true_iff in Hk2.
      apply okc_intro; [apply H0; auto | rewrite norm_is_tuple; exact Hk2]. }
    rewrite E1. cbn [andb].
    assert (E2 : map fst (map (fun kv => (fst kv, norm (snd kv))) kw) = map fst kw)
      by (rewrite map_map; apply map_ext; reflexivity).
    assert (E3 : map snd (map (fun kv => (fst kv, norm (snd kv))) kw) = map norm (map snd kw))
      by (rewrite !map_map; reflexivity).
    rewrite E2, Hnd, E3, <- map_app, abl_map_norm. exact Habl.
  - (* ESub *)
    cbn [wf_expr] in Hw. apply andb_true_iff in Hw as [Hw Hwi]. apply andb_true_iff in Hw as [Hwa Hta].
    apply negb_true_iff in Hta.
    cbn [no_defect] in Hd. apply andb_true_iff in Hd as [Hda Hdi].
    cbn [nf]. rewrite okc_intro; auto; [|rewrite norm_is_tuple; exact Hta]. cbn [andb].
    destruct (is_tuple e2) eqn:Ht.
    + destruct e2; try discriminate.
      apply andb_true_iff in Hwi as [Hlen Hwl]. apply andb_true_iff in Hdi as [Hdl Habl].
      rewrite map_length, Hlen. cbn [andb].
      rewrite (forallb_okc_norm _ (H _ eq_refl) Hwl Hdl). cbn [andb].
      rewrite abl_map_norm. exact Habl.
    + replace (match e2 with ETuple l => ETuple (map norm l) | _ => norm e2 end) with (norm e2)
        by (destruct e2; try reflexivity; discriminate).
      assert (Hn : nf (norm e2) = true).
      { apply IHe2; destruct e2; try assumption; discriminate. }
      pose proof (norm_is_tuple e2) as Hnt. rewrite Ht in Hnt.
      destruct (norm e2); try exact Hn. discriminate.
  - (* ETuple *) discriminate.
Qed.
