(* Proofs about model/FortranTarget.v: for every program of the supported subset, every initial
   state and every number of calls, what the Fortran-target model holds after the n-th call of
   `run` is what the interpreter model holds after its n-th step (C03). *)
From Coq Require Import List ZArith String Bool Arith Lia.
Import ListNotations.
From Dagrt Require Import Lang LangCheck LangProofs Builder Sched BuilderProofs FortranTarget.
Open Scope string_scope.
Open Scope list_scope.
Open Scope Z_scope.

(* ---------- small facts ---------- *)
Lemma memb_In x l : memb x l = true <-> In x l.
Proof.
  unfold memb. rewrite existsb_exists. split.
  - intros (y & Hy & E). apply String.eqb_eq in E. now subst.
  - intros H. exists x. split; [exact H|apply String.eqb_refl].
Qed.
Lemma memb_nIn x l : memb x l = false <-> ~ In x l.
Proof. rewrite <- memb_In. destruct (memb x l); split; intros; congruence. Qed.

Lemma prefix_app p c : String.prefix p (p ++ c) = true.
Proof. induction p as [|a p IH]; cbn; [now destruct c|]. destruct (Ascii.ascii_dec a a); [exact IH|congruence]. Qed.

Lemma is_ret_tid c : is_ret (ret_tid c) = true.
Proof. unfold is_ret, ret_prefixes, ret_tid. cbn [existsb]. now rewrite prefix_app. Qed.
Lemma is_ret_time c : is_ret (ret_time c) = true.
Proof. unfold is_ret, ret_prefixes, ret_time. cbn [existsb]. rewrite prefix_app. now rewrite orb_true_r. Qed.
Lemma is_ret_state c : is_ret (ret_state c) = true.
Proof. unfold is_ret, ret_prefixes, ret_state. cbn [existsb]. rewrite prefix_app. now rewrite !orb_true_r. Qed.

Lemma upd_other (s : store) x v y : y <> x -> upd s x v y = s y.
Proof. intros H. unfold upd. destruct (String.eqb_spec y x); [contradiction|reflexivity]. Qed.
Lemma upd_same (s : store) x v : upd s x v x = Some v.
Proof. unfold upd. now rewrite String.eqb_refl. Qed.

Section PutRet.
  Variable tids : list string.
  Notation put_ret := (put_ret tids).

  (* a yield writes return slots only *)
  Lemma put_ret_other s ev y : is_ret y = false -> put_ret s ev y = s y.
  Proof.
    intros H. destruct ev as [c tid t v]. cbn [FortranTarget.put_ret].
    rewrite !upd_other; [reflexivity| | |]; intros ->.
    - now rewrite is_ret_tid in H.
    - now rewrite is_ret_time in H.
    - now rewrite is_ret_state in H.
  Qed.

  (* the new content of a slot does not depend on the other variables *)
  Lemma put_ret_ext s1 s2 ev y : s1 y = s2 y -> put_ret s1 ev y = put_ret s2 ev y.
  Proof.
    intros H. destruct ev as [c tid t v]. cbn [FortranTarget.put_ret]. unfold upd.
    repeat destruct (String.eqb _ _); auto.
  Qed.

  Lemma fold_put_ret_ext evs : forall s1 s2 y, s1 y = s2 y ->
    fold_left put_ret evs s1 y = fold_left put_ret evs s2 y.
  Proof.
    induction evs as [|ev evs IH]; intros s1 s2 y H; cbn [fold_left]; [exact H|].
    apply IH. apply put_ret_ext. exact H.
  Qed.

  Lemma fold_put_ret_other evs : forall s y, is_ret y = false -> fold_left put_ret evs s y = s y.
  Proof.
    induction evs as [|ev evs IH]; intros s y H; cbn [fold_left]; [reflexivity|].
    rewrite IH by exact H. apply put_ret_other. exact H.
  Qed.

  Lemma fold_put_ret_snoc evs ev s : fold_left put_ret (evs ++ [ev]) s = put_ret (fold_left put_ret evs s) ev.
  Proof. now rewrite fold_left_app. Qed.
End PutRet.

(* ---------- what `stmt_ok` says ---------- *)
Section Ok.
  Variable is_state : var -> bool.
  Variable lv : list var.

  Definition P0 (y : var) : Prop := is_ret y = false /\ ~ In y lv.
  Definition Pd (done : list var) (y : var) : Prop := P0 y \/ In y done.

  Lemma plain_P0 y : plain lv y = true <-> P0 y.
  Proof.
    unfold plain, P0. rewrite andb_true_iff, !negb_true_iff, memb_nIn. tauto.
  Qed.

  Record stmt_facts (st : stmt) : Prop := {
    sf_guard : forall y, In y (vars (scond st)) -> P0 y /\ ~ In y (writes st);
    sf_reads : forall y, In y (kind_reads true true (skd st)) ->
                         is_ret y = false /\ (In y lv -> In y (loopvars (skd st)));
    sf_writes : forall y, In y (writes st) -> P0 y;
    sf_local : forall v, In v (loopvars (skd st)) -> is_state v = false /\ is_ret v = false;
    sf_loops : loops_ok lv [] (loops_of (skd st)) = true }.

  Lemma stmt_ok_facts st : stmt_ok is_state lv st = true -> stmt_facts st.
  Proof.
    unfold stmt_ok. rewrite !andb_true_iff. intros ((((H1 & H2) & H3) & H4) & H5).
    rewrite forallb_forall in H1, H2, H3, H4. split.
    - intros y Hy. specialize (H1 y Hy). rewrite andb_true_iff, negb_true_iff, memb_nIn in H1.
      destruct H1 as [A B]. split; [now apply plain_P0|exact B].
    - intros y Hy. specialize (H2 y Hy). rewrite andb_true_iff, orb_true_iff, !negb_true_iff, memb_nIn, memb_In in H2.
      destruct H2 as [A B]. split; [exact A|]. intros Hl. destruct B as [B|B]; [contradiction|exact B].
    - intros y Hy. apply plain_P0. apply H3, Hy.
    - intros v Hv. specialize (H4 v Hv). rewrite andb_true_iff, !negb_true_iff in H4. exact H4.
    - exact H5.
  Qed.
End Ok.

(* ---------- simulation of one emitted statement ---------- *)
Section Sim.
  Variable F : string -> list val -> list (string * val) -> option (list val).
  Variable g : bool.
  Variable ff : bool.                  (* ite_flag_first: the theorems hold for both shapes *)
  Variable go : bool.                  (* guard_outside: the theorems hold for both shapes *)
  Variable tids : list string.
  Variable is_state : var -> bool.
  Variable lv : list var.

  (* repaired shapes: cond_honoured, ubound_m1, switch_exits = true *)
  Notation fexec_kind' := (fexec_kind F g true ff true tids).
  Notation fexec' := (fexec F g true ff true true tids).
  Notation fexec_body' := (fexec_body F g true ff true true tids).
  Notation tguard' := (tguard F true ff).
  Notation tint' := (tint F true ff).
  Notation put_ret' := (put_ret tids).
  Notation P0 := (P0 lv).
  Notation Pd := (Pd lv).

  Lemma tguard_ok s c b : tguard' s c = Some b -> rbind (snd (eval F s c)) (fun v => lift (truth v)) = Ok b.
  Proof.
    unfold tguard, texpr. destruct (defd _ _ _ _ _); [|discriminate].
    destruct (rbind _ _); [|discriminate]. now intros [= ->].
  Qed.

  Lemma tint_ok s e z : tint' s e = Some z -> rbind (snd (eval F s e)) bound_int = Ok z.
  Proof.
    unfold tint, texpr. destruct (defd _ _ _ _ _); [|discriminate].
    destruct (rbind _ _); [|discriminate]. now intros [= ->].
  Qed.

  Lemma is_true_const_eq e : is_true_const e = true -> e = EBool true.
  Proof. destruct e as [| [|] | | | | | |]; cbn; congruence. Qed.

  Lemma loops_of_loopvars k : loops_of k = [] -> loopvars k = [].
  Proof. destruct k; cbn; try reflexivity. now intros ->. Qed.

  Definition ret_after (s_t s_t' : store) (ev : option event) : Prop :=
    forall y, is_ret y = true -> s_t' y = match ev with Some e => put_ret' s_t e y | None => s_t y end.

  (* a statement without loops: the emitted code does what exec_<Kind> does *)
  Lemma fexec_kind_sim (P : var -> Prop) s_t s_i nx k :
    loops_of k = [] ->
    (forall y, In y (kind_reads true true k ++ kind_writes k) -> P y) ->
    (forall y, P y -> is_ret y = false) ->
    agree P s_t s_i ->
    match snd (exec_kind F g s_i k) with
    | OCrash | OUserExn => True
    | o =>
      match fexec_kind' s_t nx k with
      | FUndef => True
      | FNext s_t' nx' => exists s_i' ev, o = ONext s_i' ev /\ nx' = nx /\ agree P s_t' s_i' /\ ret_after s_t s_t' ev
      | FExit s_t' nx' => s_t' = s_t /\ ((o = OFail /\ nx' = nx) \/ o = OSwitch nx')
      | FStopped s_t' k' => s_t' = s_t /\ o = ORaise k'
      end
    end.
  Proof.
    intros Hl HP Hret H.
    assert (HP' : forall y, In y (kind_reads true true k ++ kind_writes k ++ loopvars k) -> P y).
    { intros y Hy. apply HP. rewrite (loops_of_loopvars k Hl), app_nil_r in Hy. exact Hy. }
    destruct (exec_kind_frame F g P s_t s_i k HP' H) as [_ Ho].
    unfold fexec_kind, tkind. destruct (defd_kind _ _ _ _ _); cbn [negb];
      [|destruct (snd (exec_kind F g s_i k)); exact I].
    destruct (exec_kind F g s_t k) as [a ot] eqn:Et. cbn [snd] in *.
    destruct (snd (exec_kind F g s_i k)) as [s_i' ev'| |p'|k'| |] eqn:Ei;
      destruct ot as [s_t' ev| |p|k0| |]; cbn in Ho; try contradiction; try exact I.
    - destruct Ho as [Ha ->].
      destruct (exec_kind_unch F g s_t k a s_t' ev' Et) as [Hu _].
      assert (Hr : forall y, is_ret y = true -> s_t' y = s_t y).
      { intros y Hy. apply Hu. intros Hin. rewrite (loops_of_loopvars k Hl), app_nil_r in Hin.
        assert (is_ret y = false) by (apply Hret, HP; rewrite in_app_iff; auto). congruence. }
      destruct ev' as [e|].
      + exists s_i', (Some e). repeat split; auto.
        * intros y Hy. rewrite put_ret_other by (apply Hret, Hy). apply Ha, Hy.
        * intros y Hy. apply put_ret_ext, Hr, Hy.
      + exists s_i', None. repeat split; auto.
    - split; [reflexivity|left; auto].
    - subst. split; [reflexivity|right; reflexivity].
    - subst. split; reflexivity.
  Qed.

  (* ---- an assignment inside its do-loops ---- *)
  Section Nest.
    Variable nx : string.
    Variable Inv : store -> Prop.      (* invariant of the interpreter's store while the loops run *)

    (* s_t: where the emitted code started *)
    Definition relT (X : var -> Prop) (s_t : store) (t : fres) (i : rs store) : Prop :=
      match i with
      | Err _ => True
      | Ok s_i' =>
        match t with
        | FUndef => True
        | FNext s_t' nx' =>
            nx' = nx /\ agree X s_t' s_i' /\ Inv s_i' /\ (forall y, is_ret y = true -> s_t' y = s_t y)
        | _ => False
        end
      end.

    Lemma relT_undef X s_t i : relT X s_t FUndef i.
    Proof. destruct i; exact I. Qed.

    (* do v = i, i+n-1  against  for v in range(i, i+n) *)
    Lemma do_loop_sim (X : var -> Prop) v tb ib :
      ~ X v -> is_ret v = false ->
      (forall s z, Inv s -> Inv (upd s v z)) ->
      (forall s_t s_i, agree (fun y => X y \/ y = v) s_t s_i -> Inv s_i ->
                       relT (fun y => X y \/ y = v) s_t (tb s_t nx) (snd (ib s_i))) ->
      forall n i s_t s_i, agree X s_t s_i -> Inv s_i ->
        relT X s_t (do_loop tb v n i s_t nx) (snd (iter_range n i v ib s_i)).
    Proof.
      intros Hv Hrv Hinv Hbody. induction n as [|n IH]; intros i s_t s_i Ha Hi; cbn [do_loop iter_range snd].
      - unfold relT. repeat split; auto.
        + intros y Hy. rewrite upd_other; [apply Ha, Hy|]. intros ->. contradiction.
        + intros y Hy. apply upd_other. intros ->. congruence.
      - assert (Ha' : agree (fun y => X y \/ y = v) (upd s_t v (VInt i)) (upd s_i v (VInt i))).
        { apply agree_upd_add. exact Ha. }
        specialize (Hbody _ _ Ha' (Hinv _ _ Hi)).
        destruct (ib (upd s_i v (VInt i))) as [a1 [s1|u]]; cbn [snd] in *; [|exact I].
        destruct (tb (upd s_t v (VInt i)) nx) as [s' nx'| | |]; cbn [relT] in Hbody.
        + destruct Hbody as (-> & Hb & Hi1 & Hr).
          assert (Hb' : agree X s' s1) by (eapply agree_weaken; [|exact Hb]; cbn; auto).
          specialize (IH (i + 1) s' s1 Hb' Hi1).
          destruct (iter_range n (i + 1) v ib s1) as [a2 r2]. cbn [snd] in *.
          unfold relT in *. destruct r2 as [s2|]; [|exact I].
          destruct (do_loop tb v n (i + 1) s' nx); auto.
          destruct IH as (-> & A & B & C). repeat split; auto.
          intros y Hy. rewrite C, Hr by exact Hy. apply upd_other. intros ->. congruence.
        + destruct (iter_range n (i + 1) v ib s1) as [a2 [s2|]]; cbn; [contradiction|exact I].
        + destruct (iter_range n (i + 1) v ib s1) as [a2 [s2|]]; cbn; [contradiction|exact I].
        + destruct (iter_range n (i + 1) v ib s1) as [a2 [s2|]]; cbn; exact I.
    Qed.
  End Nest.

  Definition loop_node (l : var * expr * expr) (t : ftree) : ftree := FFor (fst (fst l)) (snd (fst l)) (snd l) t.

  Section Assign.
    Variables (c : expr) (x : var) (sub : option expr) (rhs : expr).
    Variable all_idents : list var.
    Variable s0 : store.                 (* the interpreter's store when the statement starts *)
    Variable nx : string.

    Let k' : skind := KAssign x sub rhs [].
    Definition gnode_k (k : skind) : ftree := if is_true_const c then FStmt k else FIf c (FStmt k).
    Definition nest_k (k : skind) (ls : list (var * expr * expr)) : ftree := fold_right loop_node (gnode_k k) ls.
    Notation gnode := (gnode_k k').
    Notation nest := (nest_k k').
    Definition Inv (s : store) : Prop := forall y, In y (vars c) -> s y = s0 y.

    Hypothesis Hc : forall y, In y (vars c) -> P0 y /\ y <> x.
    Hypothesis Hrhs : forall y, In y (vars rhs) -> is_ret y = false /\ (In y lv -> In y all_idents).
    Hypothesis Hsub : forall ie, sub = Some ie ->
                      forall y, In y (vars ie) -> is_ret y = false /\ (In y lv -> In y all_idents).
    Hypothesis Hx : P0 x.

    Lemma Inv_eval s : Inv s -> eval F s c = eval F s0 c.
    Proof. intros H. apply eval_frame. exact H. Qed.

    Lemma Inv_upd s v z : ~ In v (vars c) -> Inv s -> Inv (upd s v z).
    Proof. intros Hv H y Hy. rewrite upd_other; [apply H, Hy|]. intros ->. contradiction. Qed.

    Lemma agree_guard (X : var -> Prop) s_t s_i :
      (forall y, P0 y -> X y) -> agree X s_t s_i -> Inv s_i -> eval F s_t c = eval F s0 c.
    Proof.
      intros HX Ha Hi. rewrite <- (Inv_eval s_i Hi). apply eval_frame.
      intros y Hy. apply Ha, HX, Hc, Hy.
    Qed.

    (* the guard holds: the emitted nest does what implement_loops does *)
    Section GuardTrue.
      Hypothesis Htrue : rbind (snd (eval F s0 c)) (fun v => lift (truth v)) = Ok true.

      Lemma gnode_true done s_t s_i :
        (forall y, In y all_idents -> In y done) ->
        (forall y, In y done -> is_ret y = false) ->
        agree (Pd done) s_t s_i -> Inv s_i ->
        relT nx Inv (Pd done) s_t (fexec' gnode s_t nx) (snd (assign_once F s_i x sub rhs)).
      Proof.
        intros Hall Hdr Ha Hi.
        assert (HX : forall y, P0 y -> Pd done y) by (intros y Hy; left; exact Hy).
        assert (Hk : relT nx Inv (Pd done) s_t (fexec_kind' s_t nx k') (snd (assign_once F s_i x sub rhs))).
        { assert (HP : forall y, In y (kind_reads true true k' ++ kind_writes k') -> Pd done y).
          { intros y Hy. subst k'. cbn [kind_reads kind_writes flat_map] in Hy. rewrite !in_app_iff in Hy.
            assert (G : is_ret y = false /\ (In y lv -> In y all_idents) -> Pd done y).
            { intros [A B]. destruct (in_dec string_dec y lv) as [Hl|Hl]; [right; auto|left; split; auto]. }
            destruct Hy as [[Hy|[Hy|Hy]]|Hy].
            - apply G, Hrhs, Hy.
            - destruct sub as [ie|]; [|destruct Hy]. apply G. apply (Hsub ie eq_refl), Hy.
            - destruct Hy.
            - destruct Hy as [<-|[]]. left. exact Hx. }
          assert (Hret : forall y, Pd done y -> is_ret y = false).
          { intros y [[A _]|A]; [exact A|apply Hdr, A]. }
          pose proof (fexec_kind_sim (Pd done) s_t s_i nx k' eq_refl HP Hret Ha) as Hs.
          subst k'. cbn [exec_kind] in Hs.
          pose proof (assign_once_unch F x sub rhs s_i) as Hun.
          destruct (assign_once F s_i x sub rhs) as [a [s_i'|u]]; cbn [snd of_rs] in *; [|exact I].
          destruct (fexec_kind' s_t nx (KAssign x sub rhs [])) as [s_t' nx'| | |]; cbn [relT]; auto.
          - destruct Hs as (s_i'' & ev & E & -> & Hag & Hr). injection E as <- <-.
            repeat split; auto.
            intros y Hy. rewrite (Hun a s_i' eq_refl y); [apply Hi, Hy|]. apply Hc, Hy.
          - destruct Hs as [_ [[E _]|E]]; discriminate.
          - destruct Hs as [_ E]; discriminate. }
        unfold gnode_k. destruct (is_true_const c) eqn:Ec; cbn [fexec]; [exact Hk|].
        destruct (tguard' s_t c) as [[|]|] eqn:Eg.
        - exact Hk.
        - apply tguard_ok in Eg. rewrite (agree_guard (Pd done) s_t s_i HX Ha Hi), Htrue in Eg. discriminate.
        - apply relT_undef.
      Qed.

      Lemma nest_true : forall ls done s_t s_i,
        (forall y, In y all_idents -> In y done \/ In y (loop_idents ls)) ->
        (forall y, In y done -> is_ret y = false) ->
        (forall v, In v (loop_idents ls) -> In v lv /\ is_ret v = false) ->
        (forall y, In y (loop_bound_vars ls) -> is_ret y = false) ->
        loops_ok lv done ls = true ->
        agree (Pd done) s_t s_i -> Inv s_i ->
        relT nx Inv (Pd done) s_t (fexec' (nest ls) s_t nx)
             (snd (run_loops F ls (fun s => assign_once F s x sub rhs) s_i)).
      Proof.
        induction ls as [|[[v lo] hi] ls IH]; intros done s_t s_i Hall Hdr Hid Hbr Hok Ha Hi.
        - cbn [nest_k fold_right run_loops]. apply gnode_true; auto.
          intros y Hy. destruct (Hall y Hy) as [H|[]]. exact H.
        - cbn [nest_k fold_right loop_node fst snd fexec run_loops].
          cbn [loops_ok] in Hok. rewrite !andb_true_iff, negb_true_iff, memb_nIn, forallb_forall in Hok.
          destruct Hok as [[Hb Hvd] Hok].
          cbn [loop_idents map fst] in Hid, Hall. cbn [loop_bound_vars flat_map fst snd] in Hbr.
          destruct (Hid v (or_introl eq_refl)) as [Hvl Hvr].
          assert (Hbv : forall e, e = lo \/ e = hi -> agree (fun y => In y (vars e)) s_t s_i).
          { intros e He y Hy. apply Ha.
            assert (Hin : In y (vars lo ++ vars hi)) by (rewrite in_app_iff; destruct He; subst; auto).
            specialize (Hb y Hin). rewrite orb_true_iff, negb_true_iff, memb_nIn, memb_In in Hb.
            destruct Hb as [Hb|Hb]; [left; split; [|exact Hb]|right; exact Hb].
            apply Hbr. rewrite !in_app_iff in *. tauto. }
          destruct (tint' s_t lo) as [a|] eqn:Elo.
          2:{ apply relT_undef. }
          destruct (tint' s_t hi) as [z|] eqn:Ehi.
          2:{ apply relT_undef. }
          apply tint_ok in Elo, Ehi.
          rewrite (eval_frame F s_t s_i lo (Hbv lo (or_introl eq_refl))) in Elo.
          rewrite (eval_frame F s_t s_i hi (Hbv hi (or_intror eq_refl))) in Ehi.
          destruct (eval F s_i lo) as [r1 [vl|u]]; cbn [snd rbind] in Elo; [|discriminate].
          destruct (eval F s_i hi) as [r2 [vh|u]]; cbn [snd rbind] in Ehi; [|discriminate].
          rewrite Elo, Ehi.
          assert (Et : trips true a z = Z.to_nat (z - a)) by (unfold trips; f_equal; lia).
          rewrite Et.
          assert (Hnv : ~ Pd done v).
          { intros [[_ H]|H]; contradiction. }
          assert (Hvc : ~ In v (vars c)).
          { intros H. destruct (Hc v H) as [[_ H'] _]. contradiction. }
          pose proof (do_loop_sim nx Inv (Pd done) v (fun s n => fexec' (nest ls) s n)
                        (run_loops F ls (fun s => assign_once F s x sub rhs)) Hnv Hvr
                        (fun s z0 => Inv_upd s v z0 Hvc)) as Hd.
          assert (Hbody : forall s_t0 s_i0, agree (fun y => Pd done y \/ y = v) s_t0 s_i0 -> Inv s_i0 ->
                    relT nx Inv (fun y => Pd done y \/ y = v) s_t0 (fexec' (nest ls) s_t0 nx)
                         (snd (run_loops F ls (fun s => assign_once F s x sub rhs) s_i0))).
          { intros s_t0 s_i0 Ha0 Hi0.
            assert (Heq : forall y, Pd (v :: done) y <-> (Pd done y \/ y = v)).
            { intros y. unfold FortranTargetProofs.Pd. cbn [In]. split; [intros [H|[H|H]]|intros [[H|H]|H]]; auto. }
            assert (IH' := IH (v :: done) s_t0 s_i0).
            assert (R : relT nx Inv (Pd (v :: done)) s_t0 (fexec' (nest ls) s_t0 nx)
                             (snd (run_loops F ls (fun s => assign_once F s x sub rhs) s_i0))).
            { apply IH'.
              - intros y Hy. destruct (Hall y Hy) as [H|[H|H]]; cbn [In]; auto.
              - intros y [<-|Hy]; auto.
              - intros w Hw. apply Hid. now right.
              - intros y Hy. apply Hbr. rewrite !in_app_iff. auto.
              - exact Hok.
              - eapply agree_weaken; [|exact Ha0]. intros y Hy. apply Heq, Hy.
              - exact Hi0. }
            unfold relT in R |- *.
            destruct (snd (run_loops F ls (fun s => assign_once F s x sub rhs) s_i0)); [|exact I].
            destruct (fexec' (nest ls) s_t0 nx); auto.
            destruct R as (A & B & C & D). repeat split; auto.
            eapply agree_weaken; [|exact B]. intros y Hy. apply Heq, Hy. }
          specialize (Hd Hbody (Z.to_nat (z - a)) a s_t s_i Ha Hi).
          destruct (iter_range (Z.to_nat (z - a)) a v _ s_i) as [acc res]. exact Hd.
      Qed.
    End GuardTrue.

    (* the guard does not hold: the emitted loops run without effect *)
    Section GuardFalse.
      Hypothesis Hfalse : rbind (snd (eval F s0 c)) (fun v => lift (truth v)) = Ok false.
      Variable k : skind.

      Definition relU (Q : var -> Prop) (s : store) (t : fres) : Prop :=
        match t with
        | FUndef => True
        | FNext s' nx' => nx' = nx /\ forall y, ~ Q y -> s' y = s y
        | _ => False
        end.

      Lemma gnode_false s : Inv s -> relU (fun _ => False) s (fexec' (gnode_k k) s nx).
      Proof.
        clear Hc Hrhs Hsub Hx. intros Hi. unfold gnode_k. destruct (is_true_const c) eqn:Ec.
        - assert (H := Hfalse). rewrite (is_true_const_eq c Ec) in H. discriminate.
        - cbn [fexec]. destruct (tguard' s c) as [[|]|] eqn:Eg; cbn [relU]; auto.
          apply tguard_ok in Eg. rewrite (Inv_eval s Hi), Hfalse in Eg. discriminate.
      Qed.

      Lemma do_loop_unch (Q : var -> Prop) v tb :
        ~ In v (vars c) -> (forall y, In y (vars c) -> ~ Q y) ->
        (forall s, Inv s -> relU Q s (tb s nx)) ->
        forall n i s, Inv s -> relU (fun y => Q y \/ y = v) s (do_loop tb v n i s nx).
      Proof.
        clear Hc Hrhs Hsub Hx Hfalse. intros Hv HQ Hb. induction n as [|n IH]; intros i s Hi; cbn [do_loop relU].
        - split; [reflexivity|]. intros y Hy. apply upd_other. intros ->. apply Hy. now right.
        - assert (Hi' : Inv (upd s v (VInt i))) by (apply Inv_upd; auto).
          specialize (Hb _ Hi'). destruct (tb (upd s v (VInt i)) nx) as [s' nx'| | |]; cbn [relU] in Hb; auto.
          destruct Hb as [-> Hu].
          assert (Hi2 : Inv s').
          { intros y Hy. rewrite Hu by (apply HQ, Hy). apply Hi', Hy. }
          specialize (IH (i + 1) s' Hi2). unfold relU in IH |- *.
          destruct (do_loop tb v n (i + 1) s' nx); auto.
          destruct IH as [-> IH]. split; [reflexivity|]. intros y Hy.
          rewrite IH by exact Hy. rewrite Hu by tauto. apply upd_other. intros ->. apply Hy. now right.
      Qed.

      Lemma nest_false : forall ls s,
        (forall v, In v (loop_idents ls) -> ~ In v (vars c)) -> Inv s ->
        relU (fun y => In y (loop_idents ls)) s (fexec' (nest_k k ls) s nx).
      Proof.
        clear Hc Hrhs Hsub Hx. induction ls as [|[[v lo] hi] ls IH]; intros s Hid Hi.
        - cbn [nest_k fold_right loop_idents map]. apply gnode_false, Hi.
        - cbn [nest_k fold_right loop_node fst snd fexec].
          destruct (tint' s lo) as [a|]; [|exact I]. destruct (tint' s hi) as [z|]; [|exact I].
          cbn [loop_idents map fst] in Hid |- *.
          pose proof (do_loop_unch (fun y => In y (loop_idents ls)) v (fun s n => fexec' (nest_k k ls) s n)
                        (Hid v (or_introl eq_refl))
                        (fun y Hy H => Hid y (or_intror H) Hy)
                        (fun s1 H1 => IH s1 (fun w Hw => Hid w (or_intror Hw)) H1)
                        (trips true a z) a s Hi) as Hd.
          unfold relU in Hd |- *. destruct (do_loop _ v _ a s nx); auto.
          destruct Hd as [-> Hd]. split; [reflexivity|]. intros y Hy. apply Hd. cbn [In] in Hy.
          intros [H|H]; apply Hy; auto.
      Qed.
    End GuardFalse.
  End Assign.

  (* ---- one statement of the phase: emitted tree against evaluate_condition + exec_* ---- *)
  Definition srel (s_t : store) (nx : string) (t : fres) (o : outcome) : Prop :=
    match o with
    | OCrash | OUserExn => True
    | _ =>
      match t with
      | FUndef => True
      | FNext s_t' nx' => exists s_i' ev, o = ONext s_i' ev /\ nx' = nx /\ agree P0 s_t' s_i' /\ ret_after s_t s_t' ev
      | FExit s_t' nx' => s_t' = s_t /\ ((o = OFail /\ nx' = nx) \/ o = OSwitch nx')
      | FStopped s_t' k' => s_t' = s_t /\ o = ORaise k'
      end
    end.

  Lemma srel_undef s_t nx o : srel s_t nx FUndef o.
  Proof. destruct o; exact I. Qed.

  Lemma exec_assign_loops s x sub rhs loops :
    snd (exec_kind F g s (KAssign x sub rhs loops)) =
    match snd (run_loops F loops (fun s => assign_once F s x sub rhs) s) with
    | Err u => of_rs (Err u)
    | Ok s1 => of_rs (snd (del_loopvars g loops s1))
    end.
  Proof.
    destruct loops as [|l ls].
    - cbn [exec_kind run_loops del_loopvars]. destruct (assign_once F s x sub rhs) as [a [s1|u]]; reflexivity.
    - cbn [exec_kind]. destruct (run_loops F (l :: ls) _ s) as [a [s1|u]]; cbn [snd]; [|reflexivity].
      destruct (del_loopvars g (l :: ls) s1); reflexivity.
  Qed.


  Lemma other_kind k c s_t s_i nx :
    loops_of k = [] -> strip_loops k = k ->
    (forall y, In y (vars c) -> P0 y) ->
    (forall y, In y (kind_reads true true k) -> is_ret y = false /\ (In y lv -> In y (loopvars k))) ->
    (forall y, In y (kind_writes k) -> P0 y) ->
    rbind (snd (eval F s_i c)) (fun v => lift (truth v)) = Ok true ->
    agree P0 s_t s_i ->
    srel s_t nx (fexec' (nest_k c (strip_loops k) (loops_of k)) s_t nx) (snd (exec_kind F g s_i k)).
  Proof.
    intros Hl Hs Hc Hr Hw Htrue Ha. rewrite Hl, Hs. cbn [nest_k fold_right].
    assert (Hk : srel s_t nx (fexec_kind' s_t nx k) (snd (exec_kind F g s_i k))).
    { assert (HP : forall y, In y (kind_reads true true k ++ kind_writes k) -> P0 y).
      { intros y Hy. rewrite in_app_iff in Hy. destruct Hy as [Hy|Hy]; [|apply Hw, Hy].
        destruct (Hr y Hy) as [A B]. split; [exact A|]. intros Hin. specialize (B Hin).
        rewrite (loops_of_loopvars k Hl) in B. destruct B. }
      pose proof (fexec_kind_sim P0 s_t s_i nx k Hl HP (fun y Hy => proj1 Hy) Ha) as Hs'.
      unfold srel. destruct (snd (exec_kind F g s_i k)); auto. }
    unfold gnode_k. destruct (is_true_const c); cbn [fexec]; [exact Hk|].
    destruct (tguard' s_t c) as [[|]|] eqn:Eg.
    - exact Hk.
    - apply tguard_ok in Eg.
      rewrite (eval_frame F s_t s_i c) in Eg by (intros y Hy; apply Ha, Hc, Hy).
      rewrite Htrue in Eg. discriminate.
    - apply srel_undef.
  Qed.

  (* the guard c holds in the interpreter's store: the loop nest around `if (c) stmt` (c may be the
     constant True) does what exec_<Kind> does *)
  Lemma kind_true_sim c k s_t s_i nx :
    (forall y, In y (vars c) -> P0 y /\ ~ In y (kind_writes k)) ->
    (forall y, In y (kind_reads true true k) -> is_ret y = false /\ (In y lv -> In y (loopvars k))) ->
    (forall y, In y (kind_writes k) -> P0 y) ->
    (forall v, In v (loopvars k) -> is_state v = false /\ is_ret v = false) ->
    loops_ok lv [] (loops_of k) = true ->
    (forall v, In v (loopvars k) -> In v lv) ->
    rbind (snd (eval F s_i c)) (fun v => lift (truth v)) = Ok true ->
    agree P0 s_t s_i ->
    srel s_t nx (fexec' (nest_k c (strip_loops k) (loops_of k)) s_t nx) (snd (exec_kind F g s_i k)).
  Proof.
    intros Hg Hr Hw Hloc Hlo Hlv Htrue Ha.
    assert (Hc0 : forall y, In y (vars c) -> P0 y) by (intros y Hy; apply Hg, Hy).
    assert (HP0d : forall y, Pd [] y <-> P0 y).
    { intros y. unfold FortranTargetProofs.Pd. cbn [In]. tauto. }
    destruct k as [x sub rhs loops|xs f args kw|comp tid time e| | | | ].
    - (* assignment, possibly inside loops *)
      cbn [strip_loops loops_of loopvars kind_writes kind_reads] in *.
      assert (Hc' : forall y, In y (vars c) -> P0 y /\ y <> x).
      { intros y Hy. destruct (Hg y Hy) as [A B]. split; [exact A|]. intros ->. apply B. now left. }
      assert (Hrd : forall y, In y (vars rhs ++ match sub with Some ie => vars ie | None => [] end ++ loop_bound_vars loops) ->
                              is_ret y = false /\ (In y lv -> In y (loop_idents loops))).
      { intros y Hy. apply Hr. exact Hy. }
      assert (Hx' : P0 x) by (apply Hw; now left).
      pose proof (nest_true c x sub rhs (loop_idents loops) s_i nx Hc'
                    (fun y Hy => Hrd y ltac:(rewrite !in_app_iff; auto))
                    (fun ie E y Hy => Hrd y ltac:(rewrite E, !in_app_iff; auto))
                    Hx' Htrue loops [] s_t s_i
                    (fun y Hy => or_intror Hy) (fun y (Hy : In y []) => match Hy with end)
                    (fun v Hv => conj (Hlv v Hv) (proj2 (Hloc v Hv)))
                    (fun y Hy => proj1 (Hrd y ltac:(rewrite !in_app_iff; auto)))
                    Hlo
                    (agree_weaken _ _ _ _ (fun y Hy => proj1 (HP0d y) Hy) Ha)
                    (fun y _ => eq_refl)) as Hn.
      rewrite exec_assign_loops.
      destruct (snd (run_loops F loops (fun s => assign_once F s x sub rhs) s_i)) as [s1|u];
        [|destruct u; exact I].
      pose proof (del_loopvars_spec F g loops s1) as Hdel.
      destruct (del_loopvars g loops s1) as [a2 [s2|u2]]; cbn [snd of_rs]; [|destruct u2; exact I].
      destruct (Hdel a2 s2 eq_refl) as [Hd1 _].
      unfold relT in Hn. unfold srel.
      destruct (fexec' (nest_k c (KAssign x sub rhs []) loops) s_t nx) as [s_t' nx'|? ?|? ?|];
        try contradiction; [|exact I].
      destruct Hn as (-> & Hag & _ & Hrt). exists s2, None. repeat split; auto.
      intros y Hy. rewrite Hd1; [apply Hag, HP0d, Hy|]. intros Hin. destruct Hy as [_ Hy]. apply Hy, Hlv, Hin.
    - apply other_kind; auto.
    - apply other_kind; auto.
    - apply other_kind; auto.
    - apply other_kind; auto.
    - apply other_kind; auto.
    - apply other_kind; auto.
  Qed.

  Lemma wrap_inside st : wrap false st = nest_k (scond st) (strip_loops (skd st)) (loops_of (skd st)).
  Proof. reflexivity. Qed.

  Lemma wrap_outside st :
    wrap true st =
    if is_true_const (scond st) then nest_k (EBool true) (strip_loops (skd st)) (loops_of (skd st))
    else FIf (scond st) (nest_k (EBool true) (strip_loops (skd st)) (loops_of (skd st))).
  Proof. unfold wrap. destruct (is_true_const (scond st)); reflexivity. Qed.

  Lemma snd_exec_true r k s :
    snd (let (a, o) := exec_kind F g s k in ((rds r ++ a)%list, o)) = snd (exec_kind F g s k).
  Proof. destruct (exec_kind F g s k); reflexivity. Qed.

  (* guard inside the loops (the lowering before fixes/C01_guard_outside_loops.patch) *)
  Lemma stmt_sim_inside st s_t s_i nx :
    stmt_facts is_state lv st -> (forall v, In v (loopvars (skd st)) -> In v lv) ->
    agree P0 s_t s_i ->
    srel s_t nx (fexec' (wrap false st) s_t nx) (snd (exec_stmt F g s_i st)).
  Proof.
    intros [Hg Hr Hw Hloc Hlo] Hlv Ha.
    rewrite wrap_inside. unfold exec_stmt. unfold writes in Hg, Hw.
    remember (skd st) as k eqn:Esk. remember (scond st) as c eqn:Esc. clear Esk Esc.
    assert (HinvT : Inv c s_i s_t).
    { intros y Hy. apply Ha, Hg, Hy. }
    assert (Hlid : forall v, In v (loop_idents (loops_of k)) -> In v (loopvars k)).
    { intros v Hv. destruct k; cbn in *; try contradiction. exact Hv. }
    assert (Hidc : forall v, In v (loop_idents (loops_of k)) -> ~ In v (vars c)).
    { intros v Hv Hc. destruct (Hg v Hc) as [[_ H] _]. apply H, Hlv, Hlid, Hv. }
    destruct (eval F s_i c) as [r cv] eqn:Ec.
    destruct (rbind cv (fun v => lift (truth v))) as [[|]|u] eqn:Eb.
    3:{ cbn. destruct u; exact I. }
    2:{ (* guard false: the loops still run, without effect *)
      cbn [snd].
      assert (Hfalse : rbind (snd (eval F s_i c)) (fun v => lift (truth v)) = Ok false)
        by (rewrite Ec; exact Eb).
      pose proof (nest_false c EmptyString s_i nx Hfalse (strip_loops k) (loops_of k) s_t Hidc HinvT) as Hn.
      unfold relU in Hn. unfold srel.
      destruct (fexec' (nest_k c (strip_loops k) (loops_of k)) s_t nx) as [s' nx'|? ?|? ?|];
        try contradiction; [|exact I].
      destruct Hn as [-> Hn]. exists s_i, None. repeat split; auto.
      - intros y Hy. rewrite Hn; [apply Ha, Hy|]. intros Hin. destruct Hy as [_ Hy]. apply Hy, Hlv, Hlid, Hin.
      - intros y Hy. apply Hn. intros Hin. destruct (Hloc y (Hlid y Hin)). congruence. }
    rewrite snd_exec_true. apply kind_true_sim; auto. rewrite Ec. exact Eb.
  Qed.

  (* guard outside the loops: exactly the interpreter's order (guard, then bounds, then the loops) *)
  Lemma stmt_sim_outside st s_t s_i nx :
    stmt_facts is_state lv st -> (forall v, In v (loopvars (skd st)) -> In v lv) ->
    agree P0 s_t s_i ->
    srel s_t nx (fexec' (wrap true st) s_t nx) (snd (exec_stmt F g s_i st)).
  Proof.
    intros [Hg Hr Hw Hloc Hlo] Hlv Ha.
    rewrite wrap_outside. unfold exec_stmt. unfold writes in Hg, Hw.
    remember (skd st) as k eqn:Esk. remember (scond st) as c eqn:Esc. clear Esk Esc.
    assert (Hfr : eval F s_t c = eval F s_i c).
    { apply eval_frame. intros y Hy. apply Ha, Hg, Hy. }
    assert (Hbody : rbind (snd (eval F s_i c)) (fun v => lift (truth v)) = Ok true ->
              srel s_t nx (fexec' (nest_k (EBool true) (strip_loops k) (loops_of k)) s_t nx)
                   (snd (exec_kind F g s_i k))).
    { intros _. apply kind_true_sim; auto. intros y []. }
    destruct (eval F s_i c) as [r cv] eqn:Ec. cbn [snd] in Hbody.
    destruct (is_true_const c) eqn:Etc.
    - (* no conditional at all *)
      rewrite (is_true_const_eq c Etc) in Ec. cbn in Ec. injection Ec as <- <-. cbn [rbind lift truth].
      rewrite snd_exec_true. apply Hbody. reflexivity.
    - cbn [fexec]. destruct (tguard' s_t c) as [b|] eqn:Eg; [|apply srel_undef].
      apply tguard_ok in Eg. rewrite Hfr in Eg. cbn [snd] in Eg. rewrite Eg.
      destruct b.
      + rewrite snd_exec_true. apply Hbody, Eg.
      + cbn [snd srel]. exists s_i, None. repeat split; auto.
  Qed.

  Lemma stmt_sim st s_t s_i nx :
    stmt_facts is_state lv st -> (forall v, In v (loopvars (skd st)) -> In v lv) ->
    agree P0 s_t s_i ->
    srel s_t nx (fexec' (wrap go st) s_t nx) (snd (exec_stmt F g s_i st)).
  Proof. destruct go; [apply stmt_sim_outside|apply stmt_sim_inside]. Qed.

  (* ---- the whole body of a phase ---- *)
  Definition Rel (s_t0 s_t s_i : store) (evs : list event) : Prop :=
    agree P0 s_t s_i /\ forall y, is_ret y = true -> s_t y = fold_left put_ret' evs s_t0 y.

  Definition brel (s_t0 : store) (nx0 : string) (t : fres) (R : rstate) : Prop :=
    match t, R with
    | FUndef, _ => True
    | _, RCrash _ _ => True
    | FNext s_t nx, RRun s_i evs => nx = nx0 /\ Rel s_t0 s_t s_i evs
    | FExit s_t nx, RStop s_i evs StFail => nx = nx0 /\ Rel s_t0 s_t s_i evs
    | FExit s_t nx, RStop s_i evs (StSwitch p) => nx = p /\ Rel s_t0 s_t s_i evs
    | FStopped s_t k, RStop s_i evs (StRaise k') => k = k' /\ Rel s_t0 s_t s_i evs
    | _, _ => False
    end.

  Lemma brel_crash s_t0 nx0 t u e : brel s_t0 nx0 t (RCrash u e).
  Proof. destruct t; exact I. Qed.

  Lemma run_list_stop l s evs w : run_list F g l (RStop s evs w) = RStop s evs w.
  Proof. unfold run_list. induction l; cbn; auto. Qed.
  Lemma run_list_crash l u e : run_list F g l (RCrash u e) = RCrash u e.
  Proof. unfold run_list. induction l; cbn; auto. Qed.

  (* a Nop, or a statement guarded by the constant False, is not emitted; the interpreter visits it
     without effect (unless evaluating the guard of a Nop raises) *)
  Lemma skip_step st s evs :
    emitted st = false -> step F g st (RRun s evs) = RRun s evs \/ exists u e, step F g st (RRun s evs) = RCrash u e.
  Proof.
    unfold emitted, step, exec_stmt. rewrite andb_false_iff, !negb_false_iff. intros [H|H].
    - destruct (skd st); try discriminate.
      destruct (eval F s (scond st)) as [r cv]. destruct (rbind cv _) as [[|]|[|]]; cbn; rewrite ?app_nil_r; eauto.
    - destruct (scond st) as [| [|] | | | | | |]; try discriminate. cbn. rewrite app_nil_r. now left.
  Qed.

  Lemma Rel_next s_t0 s_t s_i evs s_t' s_i' ev :
    Rel s_t0 s_t s_i evs -> agree P0 s_t' s_i' -> ret_after s_t s_t' ev ->
    Rel s_t0 s_t' s_i' (evs ++ match ev with Some e => [e] | None => [] end).
  Proof.
    intros [_ Hr] Ha Hra. split; [exact Ha|]. intros y Hy. rewrite (Hra y Hy). destruct ev as [e|].
    - rewrite fold_put_ret_snoc. apply put_ret_ext, Hr, Hy.
    - rewrite app_nil_r. apply Hr, Hy.
  Qed.

  Lemma body_sim s_t0 nx0 : forall stmts s_t s_i evs,
    (forall st, In st stmts -> stmt_facts is_state lv st /\ forall v, In v (loopvars (skd st)) -> In v lv) ->
    Rel s_t0 s_t s_i evs ->
    brel s_t0 nx0 (fexec_body' (lower go stmts) s_t nx0) (run_list F g stmts (RRun s_i evs)).
  Proof.
    induction stmts as [|st stmts IH]; intros s_t s_i evs Hall HR.
    - cbn. split; [reflexivity|exact HR].
    - assert (Hall' : forall st0, In st0 stmts ->
                stmt_facts is_state lv st0 /\ forall v, In v (loopvars (skd st0)) -> In v lv)
        by (intros st0 H0; apply Hall; now right).
      unfold lower. cbn [filter]. change (run_list F g (st :: stmts) (RRun s_i evs))
        with (run_list F g stmts (step F g st (RRun s_i evs))).
      destruct (emitted st) eqn:Ee.
      + cbn [map fexec_body]. fold (lower go stmts).
        destruct (Hall st (or_introl eq_refl)) as [Hf Hlv].
        pose proof (stmt_sim st s_t s_i nx0 Hf Hlv (proj1 HR)) as Hs.
        unfold step. unfold srel in Hs.
        destruct (snd (exec_stmt F g s_i st)) as [s_i' ev| |p|k| |].
        * destruct (fexec' (wrap go st) s_t nx0) as [s_t' nx'|s_t' nx'|s_t' k'|].
          -- destruct Hs as (s_i'' & ev' & E & -> & Ha & Hra). injection E as <- <-.
             apply IH; [exact Hall'|]. eapply Rel_next; eauto.
          -- destruct Hs as [_ [[E _]|E]]; discriminate.
          -- destruct Hs as [_ E]; discriminate.
          -- exact I.
        * rewrite run_list_stop.
          destruct (fexec' (wrap go st) s_t nx0) as [s_t' nx'|s_t' nx'|s_t' k'|]; cbn [brel].
          -- destruct Hs as (? & ? & E & _); discriminate.
          -- destruct Hs as [-> [[_ ->]|E]]; [split; [reflexivity|exact HR]|discriminate].
          -- destruct Hs as [_ E]; discriminate.
          -- exact I.
        * rewrite run_list_stop.
          destruct (fexec' (wrap go st) s_t nx0) as [s_t' nx'|s_t' nx'|s_t' k'|]; cbn [brel].
          -- destruct Hs as (? & ? & E & _); discriminate.
          -- destruct Hs as [-> [[E _]|E]]; [discriminate|]. injection E as ->. split; [reflexivity|exact HR].
          -- destruct Hs as [_ E]; discriminate.
          -- exact I.
        * rewrite run_list_stop.
          destruct (fexec' (wrap go st) s_t nx0) as [s_t' nx'|s_t' nx'|s_t' k'|]; cbn [brel].
          -- destruct Hs as (? & ? & E & _); discriminate.
          -- destruct Hs as [_ [[E _]|E]]; discriminate.
          -- destruct Hs as [-> E]. injection E as ->. split; [reflexivity|exact HR].
          -- exact I.
        * rewrite run_list_crash. apply brel_crash.
        * rewrite run_list_crash. apply brel_crash.
      + fold (lower go stmts). destruct (skip_step st s_i evs Ee) as [E|[u [e0 E]]]; rewrite E.
        * apply IH; assumption.
        * rewrite run_list_crash. apply brel_crash.
  Qed.

  (* ---- one call of run against one step of the interpreter ---- *)
  Variable persistent : var -> bool.
  Hypothesis Hsplit : forall y, is_state y = persistent y || is_ret y.
  Hypothesis Hlocal : forall v, In v lv -> is_state v = false.

  Notation fcall' := (fcall F g true ff true true true go tids is_state).
  Notation fcalls' := (fcalls F g true ff true true true go tids is_state).
  Notation istep' := (istep F g tids persistent).
  Notation isteps' := (isteps F g tids persistent).

  (* between calls: every field of dagrt_state_type holds what the interpreter holds (persistent
     variables) resp. what its yields so far leave in the slots; the interpreter's context has
     nothing but persistent names *)
  Definition CRel (s_t s_i r : store) : Prop :=
    (forall y, is_state y = true -> s_t y = held s_i r y) /\ (forall y, persistent y = false -> s_i y = None).

  Definition orel (t : fout) (i : iout) : Prop :=
    match t, i with
    | FOUndef, _ => True
    | _, IOCrash => True
    | FO s_t nx, IO s_i r nx' => nx = nx' /\ CRel s_t s_i r
    | FOHalt s_t k, IOHalt s_i r k' => k = k' /\ CRel s_t s_i r
    | FOInvalid, IOInvalid => True
    | _, _ => False
    end.

  Lemma enter_Rel s_t s_i r : CRel s_t s_i r -> Rel (enter is_state s_t) (enter is_state s_t) s_i [].
  Proof.
    intros [H1 H2]. split; [|reflexivity].
    intros y [Hr Hl]. unfold enter. destruct (is_state y) eqn:Es.
    - rewrite (H1 y Es). unfold held. now rewrite Hr.
    - symmetry. apply H2. rewrite Hsplit in Es. apply orb_false_iff in Es. apply Es.
  Qed.

  Lemma leave_CRel s_t s_i r s_t' s_i' evs :
    CRel s_t s_i r -> Rel (enter is_state s_t) s_t' s_i' evs ->
    CRel s_t' (keep persistent s_i') (fold_left put_ret' evs r).
  Proof.
    intros [H1 H2] [Ha Hr]. split.
    - intros y Hy. unfold held, keep. destruct (is_ret y) eqn:Er.
      + rewrite (Hr y Er). apply fold_put_ret_ext. unfold enter. rewrite Hy, (H1 y Hy). unfold held. now rewrite Er.
      + assert (Hp : persistent y = true) by (rewrite Hsplit, Er, orb_false_r in Hy; exact Hy).
        rewrite Hp. apply Ha. split; [exact Er|]. intros Hin. rewrite (Hlocal y Hin) in Hy. discriminate.
    - intros y Hy. unfold keep. now rewrite Hy.
  Qed.

  Lemma call_sim P s_t s_i r nx :
    (forall ph st, In ph P -> In st (fp_stmts ph) ->
        stmt_facts is_state lv st /\ forall v, In v (loopvars (skd st)) -> In v lv) ->
    CRel s_t s_i r -> orel (fcall' P s_t nx) (istep' P s_i r nx).
  Proof.
    intros HP HC. unfold fcall, istep.
    destruct (find_phase P nx) as [ph|] eqn:Ef; [|exact I].
    assert (Hin : In ph P).
    { clear -Ef. induction P as [|q P' IH]; cbn in Ef; [discriminate|].
      destruct (String.eqb (fp_name q) nx); [injection Ef as ->; now left|right; auto]. }
    pose proof (body_sim (enter is_state s_t) (fp_next ph) (fp_stmts ph) (enter is_state s_t) s_i []
                  (fun st Hst => HP ph st Hin Hst) (enter_Rel s_t s_i r HC)) as Hb.
    destruct (run_list F g (fp_stmts ph) (RRun s_i [])) as [s' evs|s' evs [|p|k]|u];
      destruct (fexec_body' (lower go (fp_stmts ph)) (enter is_state s_t) (fp_next ph)) as [s_t' nx'|s_t' nx'|s_t' k'|];
      cbn [brel] in Hb; cbn [orel]; try contradiction; try exact I;
      destruct Hb as [-> Hb]; (split; [reflexivity|]); eapply leave_CRel; eauto.
  Qed.

  (* ---- any number of calls ---- *)
  Theorem calls_sim P :
    (forall ph st, In ph P -> In st (fp_stmts ph) ->
        stmt_facts is_state lv st /\ forall v, In v (loopvars (skd st)) -> In v lv) ->
    forall n s_t s_i r nx, CRel s_t s_i r -> orel (fcalls' P n s_t nx) (isteps' P n s_i r nx).
  Proof.
    intros HP. induction n as [|n IH]; intros s_t s_i r nx HC; cbn [fcalls isteps].
    - split; [reflexivity|exact HC].
    - pose proof (call_sim P s_t s_i r nx HP HC) as H1.
      destruct (fcall' P s_t nx) as [s_t' nx'|s_t' k| |]; destruct (istep' P s_i r nx) as [s_i' r' nx''|s_i' r' k'| |];
        cbn [orel] in H1 |- *; try contradiction; try exact I; try assumption.
      + destruct H1 as [-> H1]. apply IH, H1.
      + destruct (fcalls' P n s_t' nx'); exact I.
  Qed.
End Sim.

(* ---------- from the boolean `supported` to the facts used above ---------- *)
Lemma in_prog_loopvars P ph st v :
  In ph P -> In st (fp_stmts ph) -> In v (loopvars (skd st)) -> In v (prog_loopvars P).
Proof.
  intros H1 H2 H3. unfold prog_loopvars. apply in_flat_map. exists ph. split; [exact H1|].
  apply in_flat_map. exists st. auto.
Qed.

Lemma supported_facts is_state P : supported is_state P = true ->
  forall ph st, In ph P -> In st (fp_stmts ph) ->
    stmt_facts is_state (prog_loopvars P) st /\ forall v, In v (loopvars (skd st)) -> In v (prog_loopvars P).
Proof.
  unfold supported, phase_ok. rewrite forallb_forall. intros H ph st Hph Hst.
  specialize (H ph Hph). rewrite forallb_forall in H. split.
  - apply stmt_ok_facts, H, Hst.
  - intros v Hv. eapply in_prog_loopvars; eauto.
Qed.

Lemma supported_local is_state P : supported is_state P = true ->
  forall v, In v (prog_loopvars P) -> is_state v = false.
Proof.
  intros H v Hv. unfold prog_loopvars in Hv. apply in_flat_map in Hv. destruct Hv as (ph & Hph & Hv).
  apply in_flat_map in Hv. destruct Hv as (st & Hst & Hv).
  destruct (supported_facts is_state P H ph st Hph Hst) as [Hf _]. apply (sf_local _ _ _ Hf), Hv.
Qed.

(* the state handed to initialize / set_up: persistent variables only *)
Definition init_ok (persistent : var -> bool) (s : store) : Prop :=
  (forall y, persistent y = false -> s y = None) /\ (forall y, is_ret y = true -> s y = None).

Lemma init_CRel is_state persistent s : init_ok persistent s -> CRel is_state persistent s s empty.
Proof.
  intros [H1 H2]. split; [|exact H1]. intros y _. unfold held. destruct (is_ret y) eqn:E; [|reflexivity].
  rewrite (H2 y E). reflexivity.
Qed.

(* ---------- the theorem ---------- *)
Section Pipeline.
  Variable F : string -> list val -> list (string * val) -> option (list val).
  Variables g ff go : bool.
  Variable tids : list string.
  Variables is_state persistent : var -> bool.
  Hypothesis Hsplit : forall y, is_state y = persistent y || is_ret y.

  Theorem pipeline P : supported is_state P = true ->
    forall n s_t s_i r nx, CRel is_state persistent s_t s_i r ->
      orel is_state persistent (fcalls F g true ff true true true go tids is_state P n s_t nx)
                               (isteps F g tids persistent P n s_i r nx).
  Proof.
    intros HS. apply (calls_sim F g ff go tids is_state (prog_loopvars P) persistent Hsplit
                        (supported_local is_state P HS) P (supported_facts is_state P HS)).
  Qed.

  (* builder programs, from the initial state *)
  Corollary pipeline_builder lsr lbr tok bl P : build_prog lsr lbr is_state tok bl = Some P ->
    supported is_state P = true ->
    forall n s first, init_ok persistent s ->
      orel is_state persistent (fcalls F g true ff true true true go tids is_state P n s first)
                               (isteps F g tids persistent P n s empty first).
  Proof. intros _ HS n s first Hi. apply pipeline; [exact HS|apply init_CRel, Hi]. Qed.
End Pipeline.

(* ---------- the statement, as a function of the shape switches ---------- *)
Definition pipeline_statement (cond_honoured ite_flag_first ubound_m1 switch_exits next_first guard_outside : bool)
  : Prop :=
  forall F g tids (is_state persistent : var -> bool) lsr lbr tok bl P,
    (forall y, is_state y = persistent y || is_ret y) ->
    build_prog lsr lbr is_state tok bl = Some P ->
    supported is_state P = true ->
    forall n s first, init_ok persistent s ->
      orel is_state persistent
           (fcalls F g cond_honoured ite_flag_first ubound_m1 switch_exits next_first guard_outside tids is_state P n s first)
           (isteps F g tids persistent P n s empty first).

Definition compiles_statement (ne_fortran : bool) : Prop := forall P, compiles ne_fortran P = true.

Theorem pipeline_holds ff go : pipeline_statement true ff true true true go.
Proof.
  intros F g tids is_state persistent lsr lbr tok bl P Hs Hb HS n s first Hi.
  eapply pipeline_builder; eauto.
Qed.

Theorem compiles_holds : compiles_statement true.
Proof. intros P. reflexivity. Qed.

(* ---------- a boolean reading of orel, for witnesses ---------- *)
Definition agree_on (univ : list var) (t : fout) (i : iout) : bool :=
  match t, i with
  | FO s_t nx, IO s_i r nx' =>
      String.eqb nx nx' && forallb (fun y => opt_eqb val_eqb (s_t y) (held s_i r y)) univ
  | FOHalt s_t k, IOHalt s_i r k' =>
      String.eqb k k' && forallb (fun y => opt_eqb val_eqb (s_t y) (held s_i r y)) univ
  | FOInvalid, IOInvalid => true
  | _, _ => false
  end.
Definition defined_pair (t : fout) (i : iout) : bool :=
  match t, i with FOUndef, _ => false | _, IOCrash => false | _, _ => true end.

Lemma list_eqb_refl {A} (eqb : A -> A -> bool) : (forall a, eqb a a = true) -> forall l, list_eqb eqb l l = true.
Proof. intros H. induction l; cbn; [reflexivity|]. now rewrite H, IHl. Qed.
Lemma val_eqb_refl v : val_eqb v v = true.
Proof.
  destruct v; cbn; try reflexivity; [apply Z.eqb_refl|now destruct b|apply list_eqb_refl, Z.eqb_refl].
Qed.

Lemma orel_agree_on is_state persistent univ t i :
  orel is_state persistent t i -> defined_pair t i = true ->
  forallb is_state univ = true -> agree_on univ t i = true.
Proof.
  intros H Hd Hu. rewrite forallb_forall in Hu.
  assert (G : forall s_t s_i r, CRel is_state persistent s_t s_i r ->
                forallb (fun y => opt_eqb val_eqb (s_t y) (held s_i r y)) univ = true).
  { intros s_t s_i r [H1 _]. apply forallb_forall. intros y Hy. rewrite (H1 y (Hu y Hy)).
    destruct (held s_i r y); cbn; [apply val_eqb_refl|reflexivity]. }
  destruct t, i; cbn in *; try discriminate; try contradiction; try reflexivity.
  - destruct H as [-> H]. now rewrite String.eqb_refl, (G _ _ _ H).
  - destruct H as [-> H]. now rewrite String.eqb_refl, (G _ _ _ H).
Qed.

(* ---------- concrete instances: GenLang's name classes, the harness's functions ---------- *)
Definition st_of : var -> bool := is_state_of ["<t>"; "<dt>"] ["<state>"; "<p>"; "<ret_time_id>"; "<ret_time>"; "<ret_state>"].
Definition ps_of : var -> bool := is_state_of ["<t>"; "<dt>"] ["<state>"; "<p>"].

Lemma st_split y : st_of y = ps_of y || is_ret y.
Proof.
  unfold st_of, ps_of, is_state_of, is_ret, ret_prefixes, ret_tid_prefix, ret_time_prefix, ret_state_prefix.
  cbn [existsb Builder.mem].
  repeat match goal with |- context [String.prefix ?p y] => destruct (String.prefix p y) end;
    repeat match goal with |- context [String.eqb y ?p] => destruct (String.eqb y p) end; reflexivity.
Qed.

Lemma init_ok_ps (l : list (var * val)) :
  forallb (fun p => ps_of (fst p) && negb (is_ret (fst p))) l = true ->
  init_ok ps_of (fold_left (fun s p => upd s (fst p) (snd p)) l empty).
Proof.
  assert (G : forall l s, (forall p, In p l -> ps_of (fst p) = true /\ is_ret (fst p) = false) ->
              init_ok ps_of s -> init_ok ps_of (fold_left (fun s p => upd s (fst p) (snd p)) l s)).
  { induction l0 as [|p l0 IH]; intros s Hl Hs; cbn [fold_left]; [exact Hs|].
    apply IH; [intros q Hq; apply Hl; now right|].
    destruct (Hl p (or_introl eq_refl)) as [A B]. destruct Hs as [H1 H2]. split; intros y Hy.
    - rewrite upd_other; [apply H1, Hy|]. intros ->. congruence.
    - rewrite upd_other; [apply H2, Hy|]. intros ->. congruence. }
  intros H. apply G.
  - intros p Hp. rewrite forallb_forall in H. specialize (H p Hp).
    rewrite andb_true_iff, negb_true_iff in H. exact H.
  - split; reflexivity.
Qed.

Definition mk_store (l : list (var * val)) : store := fold_left (fun s p => upd s (fst p) (snd p)) l empty.

(* every refutation below has this form *)
Lemma refute ch ff um sw nf go bl P init n first univ :
  build_prog true true st_of "<exec>" bl = Some P ->
  supported st_of P = true ->
  forallb (fun p => ps_of (fst p) && negb (is_ret (fst p))) init = true ->
  forallb st_of univ = true ->
  (let t := fcalls F03 true ch ff um sw nf go [] st_of P n (mk_store init) first in
   let i := isteps F03 true [] ps_of P n (mk_store init) empty first in
   defined_pair t i && negb (agree_on univ t i)) = true ->
  ~ pipeline_statement ch ff um sw nf go.
Proof.
  intros Hb HS Hi Hu Hw Hst. cbv zeta in Hw. apply andb_true_iff in Hw. destruct Hw as [Hd Hn].
  specialize (Hst F03 true [] st_of ps_of true true "<exec>" bl P st_split Hb HS n (mk_store init) first
                  (init_ok_ps init Hi)).
  rewrite (orel_agree_on st_of ps_of univ _ _ Hst Hd Hu) in Hn. discriminate.
Qed.

Definition ph1 (calls : list bcall) : list bphase := [mkB "pa" "pa" calls].
Definition gt (a b : expr) : expr := EBin (BCmp CGt) a b.
Definition plus (a b : expr) : expr := ENary NSum [a; b].

(* lower_inst ignores statement conditions: `1 if <p>x > 2 else 3` is 3 *)
Definition wit_cond : list bphase :=
  ph1 [BStmt (KAssign "<p>z" None (EIf (gt (EVar "<p>x") (EInt 2)) (EInt 1) (EInt 3)) [])].
Lemma cond_refuted ff um sw nf go : ~ pipeline_statement false ff um sw nf go.
Proof.
  destruct ff, um, sw, nf, go;
    (eapply (refute _ _ _ _ _ _ wit_cond _ [("<p>x", VInt 3); ("<p>z", VInt 0)] 1 "pa" ["<p>z"]);
     [vm_compute; reflexivity|vm_compute; reflexivity|reflexivity|reflexivity|vm_compute; reflexivity]).
Qed.

(* do v = lo, hi instead of hi - 1: one trip too many *)
Definition wit_loop : list bphase :=
  ph1 [BStmt (KAssign "<p>z" None (plus (EVar "<p>z") (EVar "i")) [("i", EInt 0, EInt 3)])].
Lemma ubound_refuted ff sw nf go : ~ pipeline_statement true ff false sw nf go.
Proof.
  destruct ff, sw, nf, go;
    (eapply (refute _ _ _ _ _ _ wit_loop _ [("<p>z", VInt 0)] 1 "pa" ["<p>z"]);
     [vm_compute; reflexivity|vm_compute; reflexivity|reflexivity|reflexivity|vm_compute; reflexivity]).
Qed.

(* no goto 999 after SwitchPhase: the statements after it run *)
Definition wit_switch : list bphase :=
  [mkB "pa" "pa" [BStmt (KSwitch "pb"); BStmt (KAssign "<p>z" None (EInt 7) [])];
   mkB "pb" "pb" [BStmt (KAssign "<p>z" None (plus (EVar "<p>z") (EInt 1)) [])]].
Lemma switch_refuted ff nf go : ~ pipeline_statement true ff true false nf go.
Proof.
  destruct ff, nf, go;
    (eapply (refute _ _ _ _ _ _ wit_switch _ [("<p>z", VInt 0)] 1 "pa" ["<p>z"]);
     [vm_compute; reflexivity|vm_compute; reflexivity|reflexivity|reflexivity|vm_compute; reflexivity]).
Qed.

(* default successor assigned after the call: a SwitchPhase is overwritten *)
Lemma next_refuted ff go : ~ pipeline_statement true ff true true false go.
Proof.
  destruct ff, go;
    (eapply (refute _ _ _ _ _ _ wit_switch _ [("<p>z", VInt 0)] 2 "pa" ["<p>z"]);
     [vm_compute; reflexivity|vm_compute; reflexivity|reflexivity|reflexivity|vm_compute; reflexivity]).
Qed.

(* `!=` printed as it is: the module does not compile *)
Definition wit_ne : fprog :=
  [mkPhase "pa" "pa" [Build_stmt 0 [] (EBool true)
                        (KAssign "<p>f" None (EBin (BCmp CNe) (EVar "<p>x") (EInt 2)) [])]].
Lemma ne_refuted : ~ compiles_statement false.
Proof. intros H. specialize (H wit_ne). discriminate. Qed.

(* ---------- non-vacuity: a program with loops, guards, a conditional expression, calls, yields,
   a failure and a switch satisfies the hypotheses, and both models are defined on it ---------- *)
Definition ex_prog : list bphase :=
  [mkB "pa" "pb"
     [BStmt (KAssign "<p>x" None (plus (EVar "<p>x") (EInt 1)) []);
      BStmt (KCall ["a"] "<builtin>array" [EInt 3] []);
      BStmt (KAssign "a" (Some (EVar "i")) (ENary NProd [EVar "i"; EVar "<p>x"]) [("i", EInt 0, EInt 3)]);
      BStmt (KAssign "<p>s" None (plus (EVar "<p>s") (EBin BSub (EVar "a") (EVar "j")))
                     [("i", EInt 0, EInt 2); ("j", EInt 0, plus (EVar "i") (EInt 1))]);
      BStmt (KCall ["yt"] "<func>rhs" [EVar "<t>"; EVar "<state>y"] []);
      BStmt (KAssign "<state>y" None (EVar "yt") []);
      BIf (gt (EVar "<p>x") (EInt 2));
      BStmt (KAssign "<p>z" None (EIf (EBin (BCmp CNe) (EVar "<p>x") (EInt 3)) (EInt 1) (EInt 2)) []);
      BStmt (KSwitch "pa");
      BEndIf; BElse;
      BStmt (KCall ["<p>u"; "<p>v"] "<func>two" [EVar "<p>x"] []);
      BEndElse;
      BStmt (KYield "y" "final" (EVar "<t>") (EVar "<state>y"));
      BStmt (KAssign "<t>" None (plus (EVar "<t>") (EVar "<dt>")) [])];
   mkB "pb" "pa"
     [BIf (gt (EVar "<p>s") (EInt 5)); BStmt KFail; BEndIf;
      BStmt (KYield "y" "mid" (plus (EVar "<t>") (EInt 5)) (EVar "<state>y"))]].
Definition ex_init : list (var * val) :=
  [("<t>", VInt 0); ("<dt>", VInt 1); ("<p>x", VInt 1); ("<p>s", VInt 0); ("<p>z", VInt 0);
   ("<p>u", VInt 0); ("<p>v", VInt 0); ("<state>y", VArr [1; 2; 3])].
Definition ex_P : fprog :=
  match build_prog true true st_of "<exec>" ex_prog with Some P => P | None => [] end.
Definition ex_univ : list var :=
  ["<t>"; "<p>x"; "<p>s"; "<p>z"; "<p>u"; "<p>v"; "<state>y"; "<ret_time_id>y"; "<ret_time>y"; "<ret_state>y"].

Example ex_hypotheses :
  build_prog true true st_of "<exec>" ex_prog = Some ex_P /\ supported st_of ex_P = true /\
  init_ok ps_of (mk_store ex_init) /\ compiles true ex_P = true.
Proof.
  split; [vm_compute; reflexivity|]. split; [vm_compute; reflexivity|].
  split; [apply init_ok_ps; reflexivity|vm_compute; reflexivity].
Qed.

(* after 1..5 calls both models are defined (no FOUndef / IOCrash), agree on every field, and the
   runs go through a switch (call 3) and a failed step *)
Example ex_runs : forall go n, (n <= 5)%nat ->
  let t := fcalls F03 true true true true true true go ["final"; "mid"] st_of ex_P n (mk_store ex_init) "pa" in
  let i := isteps F03 true ["final"; "mid"] ps_of ex_P n (mk_store ex_init) empty "pa" in
  defined_pair t i && agree_on ex_univ t i = true.
Proof.
  intros go n Hn. destruct go; (do 6 (destruct n as [|n]; [vm_compute; reflexivity|])); lia.
Qed.

(* ---------- where the two lowerings of a guarded looped assignment differ ----------
   `n` is assigned only under the guard that also guards the loop whose bound is n.  While the guard
   is false the interpreter does not look at the loop; with the guard lowered INSIDE the loops
   (guard_outside = false) the emitted code evaluates the bound int(n) of a variable without a
   value: the target model is undefined on the first call (the relation then says nothing; the
   compiled program dies with -ffpe-trap=invalid, corpus/C03/guarded_loop_bound.json).  With the
   guard outside (fixes/C01_guard_outside_loops.patch) the model is defined and agrees. *)
Definition wit_guard : list bphase :=
  ph1 [BIf (gt (EVar "<p>x") (EInt 1));
       BStmt (KAssign "n" None (plus (EVar "<p>x") (EInt 1)) []);
       BStmt (KAssign "<p>z" None (plus (EVar "<p>z") (EVar "i")) [("i", EInt 0, EVar "n")]);
       BEndIf;
       BStmt (KAssign "<p>x" None (plus (EVar "<p>x") (EInt 1)) [])].
Definition wit_guard_P : fprog :=
  match build_prog true true st_of "<exec>" wit_guard with Some P => P | None => [] end.
Definition wit_guard_init : list (var * val) := [("<p>x", VInt 0); ("<p>z", VInt 0)].

Example guard_inside_undefined :
  supported st_of wit_guard_P = true /\
  fcalls F03 true true true true true true false [] st_of wit_guard_P 1 (mk_store wit_guard_init) "pa" = FOUndef /\
  forall n, (n <= 4)%nat ->
    let t := fcalls F03 true true true true true true true [] st_of wit_guard_P n (mk_store wit_guard_init) "pa" in
    let i := isteps F03 true [] ps_of wit_guard_P n (mk_store wit_guard_init) empty "pa" in
    defined_pair t i && agree_on ["<p>x"; "<p>z"] t i = true.
Proof.
  split; [vm_compute; reflexivity|]. split; [vm_compute; reflexivity|].
  intros n Hn. do 5 (destruct n as [|n]; [vm_compute; reflexivity|]). lia.
Qed.

(* ---------- the interpreter's schedule: use of C02 ----------
   `isteps` runs the statements of a phase in program order.  The real interpreter runs them in
   the order its controller picks, which respects the recorded dependencies (C04).  For the
   phases of a supported builder program every such order gives the same events, variables and
   stop reason as program order: BuilderProofs.all_schedules (C02), whose side condition
   loopvars_ok follows from `supported` and from the fact that a step starts with persistent
   variables only. *)
Lemma build_prog_phase lsr lbr is_state tok : forall bl P ph,
  build_prog lsr lbr is_state tok bl = Some P -> In ph P ->
  exists calls b, build lsr lbr is_state tok calls = BOk b /\ fp_stmts ph = b_stmts b.
Proof.
  induction bl as [|bp bl IH]; intros P ph Hb Hin; cbn [build_prog] in Hb.
  - injection Hb as <-. destruct Hin.
  - destruct (build lsr lbr is_state tok (bp_calls bp)) as [b| | |] eqn:Eb; try discriminate.
    destruct (build_prog lsr lbr is_state tok bl) as [P'|] eqn:EP; [|discriminate].
    injection Hb as <-. destruct Hin as [<-|Hin].
    + exists (bp_calls bp), b. split; [exact Eb|reflexivity].
    + eapply IH; eauto.
Qed.

Theorem step_any_schedule F g (is_state persistent : var -> bool) tok bl P ph s sched :
  (forall y, is_state y = persistent y || is_ret y) ->
  build_prog true true is_state tok bl = Some P -> supported is_state P = true -> In ph P ->
  (forall y, persistent y = false -> s y = None) ->
  Permutation.Permutation (seq 0 (List.length (fp_stmts ph))) sched ->
  BuilderProofs.respects (fp_stmts ph) sched ->
  req (run_ids F g (fp_stmts ph) sched (RRun s [])) (run_list F g (fp_stmts ph) (RRun s [])).
Proof.
  intros Hsplit Hb HS Hin Hs Hperm Hresp.
  destruct (build_prog_phase true true is_state tok bl P ph Hb Hin) as (calls & b & Hbuild & E).
  rewrite E in *. rewrite <- (BuilderProofs.run_ids_seq F g (b_stmts b) (RRun s [])).
  eapply BuilderProofs.all_schedules; eauto.
  intros a y Ha Hy. rewrite <- E in Ha.
  destruct (supported_facts is_state P HS ph a Hin Ha) as [Hf Hlv]. split.
  - apply Hs. destruct (sf_local _ _ _ Hf y Hy) as [A _]. rewrite Hsplit in A.
    apply orb_false_iff in A. apply A.
  - intros c Hc Hw. rewrite <- E in Hc.
    destruct (supported_facts is_state P HS ph c Hin Hc) as [Hfc _].
    destruct (sf_writes _ _ _ Hfc y Hw) as [_ Hn]. apply Hn, Hlv, Hy.
Qed.

(* ---------- helper subroutines: a call runs the helper instantiated for its own argument kinds ---------- *)
Lemma akind_eqb_refl a : akind_eqb a a = true.
Proof. destruct a; cbn; auto using Nat.eqb_refl. Qed.
Lemma akinds_eqb_refl l : akinds_eqb l l = true.
Proof. induction l as [|a l IH]; cbn; [reflexivity|]. now rewrite akind_eqb_refl, IH. Qed.
Lemma akinds_eqb_eq a : forall b, akinds_eqb a b = true -> a = b.
Proof.
  induction a as [|x a IH]; intros [|y b]; cbn; try discriminate; [reflexivity|].
  rewrite andb_true_iff. intros [H1 H2]. f_equal; [|apply IH, H2].
  destruct x, y; cbn in H1; try discriminate; try reflexivity. apply Nat.eqb_eq in H1. now subst.
Qed.

(* the model's call semantics (F applied to the call's own arguments) IS the helper made for the
   call's own key ... *)
Lemma helper_own_key F f pos kw : helper F (helper_key f pos) pos kw = F f pos kw.
Proof. unfold helper, helper_key. cbn [fst snd]. now rewrite akinds_eqb_refl. Qed.

(* ... and a helper made for other argument kinds (e.g. for a user type of another extent) is not
   defined on these arguments: sharing one subroutine between keys is not a behaviour the model has *)
Lemma helper_foreign_key F f ks pos kw : ks <> map kind_of_val pos -> helper F (f, ks) pos kw = None.
Proof.
  intros H. unfold helper. cbn [fst snd]. destruct (akinds_eqb ks (map kind_of_val pos)) eqn:E; [|reflexivity].
  apply akinds_eqb_eq in E. contradiction.
Qed.

Example ex_helper_keys :
  helper_key "<builtin>len" [VArr [1; 2; 3]] <> helper_key "<builtin>len" [VArr [1; 2; 3; 4; 5]] /\
  helper F03 (helper_key "<builtin>len" [VArr [1; 2; 3]]) [VArr [1; 2; 3; 4; 5]] [] = None /\
  helper F03 (helper_key "<builtin>len" [VArr [1; 2; 3; 4; 5]]) [VArr [1; 2; 3; 4; 5]] [] = Some [VInt 5].
Proof. repeat split; try reflexivity. discriminate. Qed.
