(* C01 / C11: the stepping loop is independent of the admissible order in which a
   backend executes a phase body; state after an exception. *)
From Coq Require Import List ZArith String Bool Arith Lia Permutation.
Import ListNotations.
From Dagrt Require Import Lang LangProofs BuilderCore Builder Sched SchedProofs BuilderProofs Stepper.
Close Scope string_scope.
Close Scope Z_scope.
Local Open Scope nat_scope.
Local Open Scope list_scope.

Definition to_rstate (r : store * list event * body_end) : rstate :=
  match r with
  | (s, e, BDone) => RRun s e
  | (s, e, BFail) => RStop s e StFail
  | (s, e, BSwitch p) => RStop s e (StSwitch p)
  | (s, e, BRaise k) => RStop s e (StRaise k)
  | (s, e, BExn u) => RCrash u e
  end.

(* statements picked from a phase by a schedule of positions *)
Definition pick (l : list stmt) (sched : list nat) : list stmt :=
  flat_map (fun i => match nth_error l i with Some st => [st] | None => [] end) sched.

Section SP.
  Variable F : string -> list val -> list (string * val) -> option (list val).
  Variable g : bool.

  Lemma run_list_stop l s e w : run_list F g l (RStop s e w) = RStop s e w.
  Proof. induction l; cbn; auto. Qed.
  Lemma run_list_crash l u e : run_list F g l (RCrash u e) = RCrash u e.
  Proof. induction l; cbn; auto. Qed.

  Lemma exec_seq_run_list l : forall s evs,
    to_rstate (exec_seq F g l s evs) = run_list F g l (RRun s evs).
  Proof.
    induction l as [|st l IH]; intros s evs; [reflexivity|].
    cbn [exec_seq]. unfold run_list. cbn [fold_left step].
    change (fold_left (fun S st0 => step F g st0 S) l) with (run_list F g l).
    destruct (snd (exec_stmt F g s st)); cbn [to_rstate];
      rewrite ?run_list_stop, ?run_list_crash; auto.
  Qed.

  Lemma run_ids_pick l sched S :
    (forall i, In i sched -> i < List.length l) ->
    run_ids F g l sched S = run_list F g (pick l sched) S.
  Proof.
    revert S. induction sched as [|i r IH]; intros S H; [reflexivity|].
    cbn [run_ids fold_left pick flat_map]. unfold step_id at 2.
    destruct (nth_error l i) as [st|] eqn:E.
    - unfold run_list. rewrite fold_left_app. cbn [fold_left].
      apply IH. intros j Hj. apply H. now right.
    - exfalso. apply nth_error_None in E. specialize (H i (or_introl eq_refl)). lia.
  Qed.

  Lemma run_list_proper l : forall S S', req S S' -> req (run_list F g l S) (run_list F g l S').
  Proof.
    induction l as [|st l IH]; intros S S' H; [exact H|]. cbn [run_list fold_left].
    apply IH. apply (step_proper F g EmptyString). exact H.
  Qed.
End SP.

(* ---- equivalence of phase-body results and of whole runs ---- *)
Definition is_exn (e : run_end) : bool := match e with EndExn _ => true | _ => false end.
Definition end_rel (a b : run_end) : Prop :=
  match a, b with
  | EndExn _, EndExn _ => True      (* which exception escapes may depend on the schedule *)
  | _, _ => a = b
  end.
Definition run_rel (a b : list sev * store * string * run_end) : Prop :=
  let '(ev, s, nx, e) := a in
  let '(ev', s', nx', e') := b in
  ev = ev' /\ nx = nx' /\ end_rel e e' /\ (is_exn e = false -> forall x, s x = s' x).

Lemma find_phase_In d n p : find_phase d n = Some p -> In p d /\ ph_name p = n.
Proof.
  induction d as [|q r IH]; cbn; [discriminate|].
  destruct (String.eqb_spec (ph_name q) n) as [E|E].
  - intros H. injection H as <-. auto.
  - intros H. destruct (IH H). auto.
Qed.

Section Run.
  Variable F : string -> list val -> list (string * val) -> option (list val).
  Variable g : bool.
  Variable keep : var -> bool.
  Variable obs : list var.

  (* no per-step name is set: true at set_up and after every step *)
  Definition Pre (s : store) : Prop := forall x, keep x = false -> s x = None.

  Lemma Pre_cleanup s : Pre (cleanup keep s).
  Proof. intros x Hx. unfold cleanup. now rewrite Hx. Qed.

  Variables ord1 ord2 : string -> nat -> list stmt -> list stmt.
  Variable d : list phase.
  (* the two backends' orders give equivalent results on every phase body of the method *)
  Hypothesis Hord : forall p i s, In p d -> Pre s ->
    req (to_rstate (exec_seq F g (ord1 (ph_name p) i (ph_stmts p)) s []))
        (to_rstate (exec_seq F g (ord2 (ph_name p) i (ph_stmts p)) s [])).

  Lemma time_reached_ext s s' te : (forall x, s x = s' x) -> time_reached s te = time_reached s' te.
  Proof. intros H. unfold time_reached. destruct te; [now rewrite H|reflexivity]. Qed.

  Lemma cleanup_ext s s' : (forall x, s x = s' x) -> forall x, cleanup keep s x = cleanup keep s' x.
  Proof. intros H x. unfold cleanup. now rewrite H. Qed.

  Theorem run_order_independent : forall fuel s s' next te mx n a,
    Pre s -> (forall x, s x = s' x) ->
    run_rel (run F g keep obs ord1 fuel d s next te mx n a)
            (run F g keep obs ord2 fuel d s' next te mx n a).
  Proof.
    induction fuel as [|f IH]; intros s s' next te mx n a Hp Hs; cbn [run].
    - cbn. repeat split; auto.
    - rewrite (time_reached_ext s s' te Hs).
      destruct (time_reached s' te) as [[|]|]; try (cbn; repeat split; auto; discriminate).
      destruct (match mx with Some m => Nat.leb m n | None => false end);
        [cbn; repeat split; auto|].
      destruct (find_phase d next) as [p|] eqn:Ef; [|cbn; repeat split; auto; discriminate].
      destruct (find_phase_In _ _ _ Ef) as [Hin Hn]. subst next.
      (* the two bodies *)
      assert (Hb : req (to_rstate (exec_seq F g (ord1 (ph_name p) a (ph_stmts p)) s []))
                       (to_rstate (exec_seq F g (ord2 (ph_name p) a (ph_stmts p)) s' []))).
      { eapply req_trans; [apply Hord; assumption|].
        rewrite !exec_seq_run_list. apply run_list_proper. cbn. auto. }
      destruct (exec_seq F g (ord1 (ph_name p) a (ph_stmts p)) s []) as [[s1 e1] b1].
      destruct (exec_seq F g (ord2 (ph_name p) a (ph_stmts p)) s' []) as [[s1' e1'] b1'].
      destruct b1, b1'; cbn [to_rstate req] in Hb; try contradiction;
        try (destruct Hb as (Hs1 & -> & Hw); try discriminate Hw; try (injection Hw as ->));
        try (destruct Hb as (Hs1 & ->)).
      + (* completed *)
        pose proof (cleanup_ext _ _ Hs1) as Hc.
        specialize (IH (cleanup keep s1) (cleanup keep s1') (ph_next p) te mx (S n) (S a)
                       (Pre_cleanup s1) Hc).
        destruct (run F g keep obs ord1 f d (cleanup keep s1) (ph_next p) te mx (S n) (S a)) as [[[r sA] nA] eA].
        destruct (run F g keep obs ord2 f d (cleanup keep s1') (ph_next p) te mx (S n) (S a)) as [[[r' sB] nB] eB].
        cbn in IH |- *. destruct IH as (-> & -> & He & Hst). rewrite !Hc.
        rewrite (map_ext _ _ Hc). repeat split; auto.
      + (* failed *)
        pose proof (cleanup_ext _ _ Hs1) as Hc.
        specialize (IH (cleanup keep s1) (cleanup keep s1') (ph_next p) te mx n (S a)
                       (Pre_cleanup s1) Hc).
        destruct (run F g keep obs ord1 f d (cleanup keep s1) (ph_next p) te mx n (S a)) as [[[r sA] nA] eA].
        destruct (run F g keep obs ord2 f d (cleanup keep s1') (ph_next p) te mx n (S a)) as [[[r' sB] nB] eB].
        cbn in IH |- *. destruct IH as (-> & -> & He & Hst). rewrite !Hc.
        rewrite (map_ext _ _ Hc). repeat split; auto.
      + (* switched *)
        pose proof (cleanup_ext _ _ Hs1) as Hc.
        specialize (IH (cleanup keep s1) (cleanup keep s1') p1 te mx (S n) (S a)
                       (Pre_cleanup s1) Hc).
        destruct (run F g keep obs ord1 f d (cleanup keep s1) p1 te mx (S n) (S a)) as [[[r sA] nA] eA].
        destruct (run F g keep obs ord2 f d (cleanup keep s1') p1 te mx (S n) (S a)) as [[[r' sB] nB] eB].
        cbn in IH |- *. destruct IH as (-> & -> & He & Hst). rewrite !Hc.
        rewrite (map_ext _ _ Hc). repeat split; auto.
      + (* raised *)
        cbn. repeat split; auto. intros _. apply cleanup_ext, Hs1.
      + (* exception *)
        cbn. subst. repeat split; auto. discriminate.
  Qed.
End Run.

(* ---- admissible orders of a builder-made phase ---- *)
Section Adm.
  Variable F : string -> list val -> list (string * val) -> option (list val).
  Variable g : bool.
  Variable is_state : var -> bool.
  Variable tok : var.
  Variable keep : var -> bool.

  (* the phase body was produced by the builder model *)
  Definition built (l : list stmt) : Prop :=
    exists p b, build true true is_state tok p = BOk b /\ b_stmts b = l.

  (* an order is admissible: a permutation of the body in which every statement comes after
     all statements it depends on (what C04 proves of the controller's plan and C05 of the
     lowered tree) *)
  Definition admissible (l l' : list stmt) : Prop :=
    exists sched, Permutation (seq 0 (List.length l)) sched /\ respects l sched /\ l' = pick l sched.

  (* A3 for a phase: loop-counter names are per-step names that no statement writes *)
  Definition lv_ok (l : list stmt) : Prop :=
    forall a y, In a l -> In y (loopvars (skd a)) ->
      keep y = false /\ forall b, In b l -> ~ In y (writes b).

  Theorem body_order_independent l l' s :
    built l -> lv_ok l -> admissible l l' -> Pre keep s ->
    req (to_rstate (exec_seq F g l' s [])) (to_rstate (exec_seq F g l s [])).
  Proof.
    intros (p & b & Hb & <-) Hlv (sched & Hperm & Hresp & ->) Hpre.
    rewrite !exec_seq_run_list.
    rewrite <- (run_ids_pick F g (b_stmts b) sched).
    - rewrite <- (run_ids_seq F g (b_stmts b)).
      apply (all_schedules F g is_state tok p b s sched Hb); auto.
      intros a y Ha Hy. destruct (Hlv a y Ha Hy) as [Hk Hw]. split; [apply Hpre, Hk|exact Hw].
    - intros i Hi. eapply Permutation_in in Hi; [|apply Permutation_sym, Hperm].
      apply in_seq in Hi. lia.
  Qed.

  Lemma seq_split_eq : forall l1 a n i l2, seq a n = l1 ++ i :: l2 -> l1 = seq a (i - a) /\ a <= i.
  Proof.
    induction l1 as [|x l1 IH]; intros a n i l2 E.
    - destruct n as [|n]; [discriminate|]. cbn in E. injection E as -> _.
      rewrite Nat.sub_diag. auto.
    - destruct n as [|n]; [discriminate|]. cbn in E. injection E as -> E.
      destruct (IH _ _ _ _ E) as [-> Hle]. split; [|lia].
      replace (i - x) with (S (i - S x)) by lia. reflexivity.
  Qed.

  Lemma pick_seq l : pick l (seq 0 (List.length l)) = l.
  Proof.
    unfold pick. induction l as [|st l IH] using rev_ind; [reflexivity|].
    rewrite app_length. cbn [List.length]. rewrite Nat.add_1_r, seq_S, flat_map_app. cbn [flat_map].
    rewrite nth_error_app2, Nat.sub_diag by lia. cbn [nth_error]. rewrite app_nil_r. f_equal.
    rewrite <- IH at 2.
    assert (G : forall is, (forall i, In i is -> i < List.length l) ->
              flat_map (fun i => match nth_error (l ++ [st]) i with Some s0 => [s0] | None => [] end) is =
              flat_map (fun i => match nth_error l i with Some s0 => [s0] | None => [] end) is).
    { induction is as [|i is IHi]; intros H; [reflexivity|]. cbn [flat_map].
      rewrite nth_error_app1 by (apply H; now left). f_equal. apply IHi. intros j Hj. apply H. now right. }
    apply G. intros i Hi. apply in_seq in Hi. lia.
  Qed.

  Lemma admissible_refl l : built l -> admissible l l.
  Proof.
    intros (p & b & Hb & <-). exists (seq 0 (List.length (b_stmts b))). split; [apply Permutation_refl|]. split.
    - intros l1 i l2 st E Hi dd Hd.
      pose proof (edges_backward is_state tok p b i st dd Hb Hi Hd) as Hlt.
      destruct (seq_split_eq _ _ _ _ _ E) as [-> _]. apply in_seq. lia.
    - symmetry. apply pick_seq.
  Qed.
End Adm.

(* ---- C11: what a failing user function leaves behind ---- *)
Section Exn.
  Variable F : string -> list val -> list (string * val) -> option (list val).
  Variable g : bool.
  Variable keep : var -> bool.

  (* a variable no executed statement writes (or uses as loop counter) keeps its value,
     however the body ends *)
  Lemma exec_seq_unch (l : list stmt) : forall (s : store) evs (s1 : store) evs1 e (x : var),
    exec_seq F g l s evs = (s1, evs1, e) ->
    (forall st, In st l -> ~ WL st x) -> s1 x = s x.
  Proof.
    induction l as [|st l IH]; intros s evs s1 evs1 e x H Hx; cbn [exec_seq] in H.
    - injection H as <- _ _. reflexivity.
    - destruct (exec_stmt F g s st) as [a o] eqn:E. cbn [snd] in H.
      destruct o as [s' ev| | | | |]; try (injection H as <- _ _; reflexivity).
      rewrite (IH _ _ _ _ _ x H) by (intros st0 H0; apply Hx; now right).
      eapply exec_stmt_unch; [exact E|]. apply Hx. now left.
  Qed.

  (* the statements after the one that raised are never executed: only the prefix matters *)
  Lemma exec_seq_exn_prefix l1 st l2 : forall s evs s1 evs1 (u : bool),
    exec_seq F g l1 s evs = (s1, evs1, BDone) ->
    snd (exec_stmt F g s1 st) = (if u then OUserExn else OCrash) ->
    exec_seq F g (l1 ++ st :: l2) s evs = (s1, evs1, BExn u).
  Proof.
    induction l1 as [|a l1 IH]; intros s evs s1 evs1 u H1 H2; cbn [exec_seq app] in *.
    - injection H1 as <- <-. rewrite H2. destruct u; reflexivity.
    - destruct (snd (exec_stmt F g s a)); try discriminate. eapply IH; eassumption.
  Qed.

  (* after a step that ended with an exception: (a) no per-step name is visible, (b) every persistent
     variable holds its old value unless an executed statement (the failing one included: it may have
     completed some iterations of its loop nest) writes it, (c) in particular variables written only by
     statements after the failing one are unchanged *)
  Theorem exn_state l1 st l2 s s1 evs1 (u : bool) :
    exec_seq F g l1 s [] = (s1, evs1, BDone) ->
    snd (exec_stmt F g s1 st) = (if u then OUserExn else OCrash) ->
    let final := cleanup keep (fst (fst (exec_seq F g (l1 ++ st :: l2) s []))) in
    Pre keep final /\
    (forall x, keep x = true -> (forall a, In a (l1 ++ [st]) -> ~ WL a x) -> final x = s x) /\
    snd (exec_seq F g (l1 ++ st :: l2) s []) = BExn u.
  Proof.
    intros H1 H2. rewrite (exec_seq_exn_prefix l1 st l2 s [] s1 evs1 u H1 H2). cbn [fst snd].
    split; [apply Pre_cleanup|]. split; [|reflexivity].
    intros x Hk Hx. unfold cleanup. rewrite Hk. eapply exec_seq_unch; [exact H1|].
    intros a Ha. apply Hx. rewrite in_app_iff. now left.
  Qed.
End Exn.
