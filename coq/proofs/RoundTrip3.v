(* C19 -- argument lists, index lists, and the main induction: the printed tokens of an
   expression in parser-normal form are parsed back to that expression. *)
From Coq Require Import List ZArith NArith String Ascii Bool Arith Lia ZifyBool.
Import ListNotations.
From Dagrt Require Import GenC19 Print Parse ParseRules RoundTrip RoundTrip2.
Open Scope list_scope.
Open Scope nat_scope.
Notation length := List.length.

Definition Good (c : expr) : Prop := Body c /\ nf c = true /\ is_tuple c = false.
Definition notif (c : expr) : bool := negb (is_if c).

Definition arg_tail (l : list expr) : list token := tail_toks (map (print [] PR_NONE) l).
Definition kw_tail (kws : list (string * expr)) : list token := tail_toks (map kw_item kws).

Lemma arg_tail_cons a l : arg_tail (a :: l) = TComma :: print [] PR_NONE a ++ arg_tail l.
Proof. reflexivity. Qed.
Lemma kw_tail_cons kv l :
  kw_tail (kv :: l) = TComma :: TId (fst kv) :: TAssign :: print [] PR_NONE (snd kv) ++ kw_tail l.
Proof. reflexivity. Qed.
Lemma tail_toks_app l1 l2 : tail_toks (l1 ++ l2) = tail_toks l1 ++ tail_toks l2.
Proof. unfold tail_toks. rewrite map_app, concat_app. reflexivity. Qed.

Lemma abl_cons {A} (f : A -> bool) x r :
  all_but_last f (x :: r) = true -> (r = [] \/ f x = true) /\ all_but_last f r = true.
Proof.
  destruct r as [|y r]; cbn [all_but_last]; [auto|].
  intros H. apply andb_true_iff in H as [H1 H2]. auto.
Qed.

Lemma head_of_start ts :
  starts_ok ts = true -> match ts with [] | TRPar :: _ => False | _ => True end.
Proof. destruct ts as [|[] ?]; cbn; intros; try exact I; discriminate. Qed.

(* ------------------------------------------------------------------ index lists a[i, j, k] *)

Lemma item_next_tail a l next0 :
  (l = [] \/ is_if a = false) -> (match next0 with TRPar :: _ | TRBrk :: _ => True | _ => False end) ->
  item_next a (arg_tail l ++ next0).
Proof.
  intros H Hn. destruct l as [|b l].
  - cbn. destruct next0 as [|[] ?]; try contradiction; exact I.
  - rewrite arg_tail_cons. cbn. destruct H; [discriminate|assumption].
Qed.

Lemma tuple_tail_LP rest : forall items acc,
  Forall Good items -> all_but_last notif items = true ->
  LP 0 (ETuple acc) false (arg_tail items ++ TRBrk :: rest) (ETuple (acc ++ items), TRBrk :: rest).
Proof.
  induction items as [|i items IH]; intros acc HG Habl.
  - cbn [arg_tail tail_toks map List.concat app]. rewrite app_nil_r. apply LP_stop. reflexivity.
  - inversion HG as [|? ? [HB [Hnf Ht]] HG']; subst.
    apply abl_cons in Habl as [Hi Habl].
    rewrite arg_tail_cons. cbn [app]. rewrite <- app_assoc.
    eapply LP_step with (l' := ETuple (acc ++ [i])).
    + discriminate.
    + apply (postfix_comma 0 (ETuple acc) false _ i (arg_tail items ++ TRBrk :: rest)).
      * reflexivity.
      * apply head_of_start. apply (start_print i Hnf Ht); try (cs; lia).
        destruct items; cbn; exact I.
      * apply item_PE; auto. apply item_next_tail; [|exact I].
        destruct Hi as [->|Hi]; [left; reflexivity|right]. unfold notif in Hi.
        apply negb_true_iff in Hi. exact Hi.
    + cbn [length]. rewrite !app_length. cbn [length]. lia.
    + replace (acc ++ i :: items) with ((acc ++ [i]) ++ items) by (rewrite <- app_assoc; reflexivity).
      apply IH; auto.
Qed.

(* ------------------------------------------------------------------ argument lists *)

Lemma kw_set_fresh kw k v :
  existsb (String.eqb k) (map fst kw) = false -> kw_set kw k v = kw ++ [(k, v)].
Proof.
  induction kw as [|[k' v'] kw IH]; intros H; [reflexivity|].
  cbn in H. apply orb_false_iff in H as [H1 H2].
  cbn [kw_set]. rewrite String.eqb_sym, H1. cbn [app]. f_equal. auto.
Qed.

Lemma no_dup_mid l1 x l2 : no_dup (l1 ++ x :: l2) = true -> existsb (String.eqb x) l1 = false.
Proof.
  induction l1 as [|y l1 IH]; intros H; [reflexivity|].
  cbn in H. apply andb_true_iff in H as [H1 H2]. apply negb_true_iff in H1.
  rewrite existsb_app in H1. apply orb_false_iff in H1 as [_ H1]. cbn in H1.
  apply orb_false_iff in H1 as [H1 _].
  cbn. rewrite String.eqb_sym, H1. cbn. auto.
Qed.

Definition GoodKw (kv : string * expr) : Prop := Good (snd kv).

Lemma kw_item_next (v : expr) kws rest :
  (kws = [] \/ is_if v = false) -> item_next v (kw_tail kws ++ TRPar :: rest).
Proof.
  intros H. destruct kws as [|kv kws].
  - exact I.
  - rewrite kw_tail_cons. cbn. destruct H; [discriminate|assumption].
Qed.

Lemma AL_kw_tail rest : forall kws args kw0,
  Forall GoodKw kws -> all_but_last notif (map snd kws) = true ->
  no_dup (map fst (kw0 ++ kws)) = true ->
  AL args kw0 true (kw_tail kws ++ TRPar :: rest) (args, kw0 ++ kws, rest).
Proof.
  induction kws as [|[k v] kws IH]; intros args kw0 HG Habl Hnd.
  - rewrite app_nil_r. apply AL_close.
  - inversion HG as [|? ? [HB [Hnf Ht]] HG']; subst. cbn [snd fst] in *.
    cbn [map] in Habl. apply abl_cons in Habl as [Hi Habl].
    rewrite kw_tail_cons. cbn [fst snd app]. rewrite <- app_assoc.
    eapply AL_kw_next with (v := v) (ts' := kw_tail kws ++ TRPar :: rest).
    + apply item_PE; auto. apply kw_item_next.
      destruct Hi as [Hi|Hi]; [left; destruct kws; [reflexivity|discriminate]|right].
      unfold notif in Hi. apply negb_true_iff in Hi. exact Hi.
    + cbn [length]. rewrite !app_length. cbn [length]. lia.
    + rewrite kw_set_fresh.
      * replace (kw0 ++ (k, v) :: kws) with ((kw0 ++ [(k, v)]) ++ kws) by (rewrite <- app_assoc; reflexivity).
        apply IH; auto. rewrite <- app_assoc. exact Hnd.
      * rewrite map_app in Hnd. cbn [map fst] in Hnd. eapply no_dup_mid. exact Hnd.
Qed.

Lemma arg_item_next a l kws rest :
  (l ++ map snd kws = [] \/ is_if a = false) ->
  item_next a (arg_tail l ++ kw_tail kws ++ TRPar :: rest).
Proof.
  intros H. destruct l as [|b l].
  - cbn [arg_tail tail_toks map List.concat app]. apply kw_item_next.
    destruct H as [H|H]; [left|right; exact H]. destruct kws; [reflexivity|discriminate].
  - rewrite arg_tail_cons. cbn. destruct H; [discriminate|assumption].
Qed.

Lemma no_assign_tail l kws rest : no_assign (arg_tail l ++ kw_tail kws ++ TRPar :: rest).
Proof. destruct l; [destruct kws|]; exact I. Qed.

Lemma AL_arg_tail rest kws : forall l args0,
  Forall Good l -> Forall GoodKw kws ->
  all_but_last notif (l ++ map snd kws) = true -> no_dup (map fst kws) = true ->
  AL args0 [] true (arg_tail l ++ kw_tail kws ++ TRPar :: rest) (args0 ++ l, kws, rest).
Proof.
  induction l as [|a l IH]; intros args0 HG HK Habl Hnd.
  - rewrite app_nil_r. cbn [arg_tail tail_toks map List.concat app].
    apply (AL_kw_tail rest kws args0 []); auto.
  - inversion HG as [|? ? [HB [Hnf Ht]] HG']; subst.
    cbn [app] in Habl. apply abl_cons in Habl as [Hi Habl].
    rewrite arg_tail_cons. cbn [app]. rewrite <- app_assoc.
    eapply AL_pos_next with (a := a) (ts' := arg_tail l ++ kw_tail kws ++ TRPar :: rest).
    + apply (start_print a Hnf Ht); [cs; lia | apply no_assign_tail].
    + apply (start_print a Hnf Ht); [cs; lia | apply no_assign_tail].
    + apply item_PE; auto. apply arg_item_next.
      destruct Hi as [Hi|Hi]; [left; exact Hi|right].
      unfold notif in Hi. apply negb_true_iff in Hi. exact Hi.
    + rewrite !app_length. cbn [length].
      assert (0 < length (print [] PR_NONE a)).
      { unfold PR_NONE. pose proof (start_print a Hnf Ht 0 [] (Nat.le_0_l _) I) as [Hs _].
        rewrite app_nil_r in Hs. destruct (print [] 0 a); [discriminate|cbn; lia]. }
      lia.
    + replace (args0 ++ a :: l) with ((args0 ++ [a]) ++ l) by (rewrite <- app_assoc; reflexivity).
      apply IH; auto.
Qed.

Lemma AL_items rest args kws :
  Forall Good args -> Forall GoodKw kws ->
  all_but_last notif (args ++ map snd kws) = true -> no_dup (map fst kws) = true ->
  AL [] [] false (join [TComma] (map (print [] PR_NONE) args ++ map kw_item kws) ++ TRPar :: rest)
     (args, kws, rest).
Proof.
  intros HG HK Habl Hnd.
  destruct args as [|a l].
  - destruct kws as [|[k v] kws].
    + cbn. apply AL_close.
    + cbn [map app]. rewrite join_cons. fold (kw_tail kws).
      unfold kw_item at 1. cbn [fst snd app]. rewrite <- app_assoc.
      inversion HK as [|? ? [HB [Hnf Ht]] HK']; subst. cbn [snd] in *.
      cbn [map app] in Habl. apply abl_cons in Habl as [Hi Habl].
      eapply AL_kw_first with (v := v) (ts' := kw_tail kws ++ TRPar :: rest).
      * apply item_PE; auto. apply kw_item_next.
        destruct Hi as [Hi|Hi]; [left; destruct kws; [reflexivity|discriminate]|right].
        unfold notif in Hi. apply negb_true_iff in Hi. exact Hi.
      * cbn [length]. rewrite !app_length. cbn [length]. lia.
      * cbn [kw_set]. apply (AL_kw_tail rest kws [] [(k, v)]); auto.
  - cbn [map app]. rewrite join_cons, tail_toks_app.
    fold (arg_tail l). fold (kw_tail kws). rewrite <- !app_assoc.
    inversion HG as [|? ? [HB [Hnf Ht]] HG']; subst.
    cbn [app] in Habl. apply abl_cons in Habl as [Hi Habl].
    eapply AL_pos_first with (a := a) (ts' := arg_tail l ++ kw_tail kws ++ TRPar :: rest).
    + apply (start_print a Hnf Ht); [cs; lia | apply no_assign_tail].
    + apply (start_print a Hnf Ht); [cs; lia | apply no_assign_tail].
    + apply item_PE; auto. apply arg_item_next.
      destruct Hi as [Hi|Hi]; [left; exact Hi|right].
      unfold notif in Hi. apply negb_true_iff in Hi. exact Hi.
    + rewrite !app_length. cbn [length].
      assert (0 < length (print [] PR_NONE a)).
      { unfold PR_NONE. pose proof (start_print a Hnf Ht 0 [] (Nat.le_0_l _) I) as [Hs _].
        rewrite app_nil_r in Hs. destruct (print [] 0 a); [discriminate|cbn; lia]. }
      lia.
    + apply (AL_arg_tail rest kws l [a]); auto.
Qed.
