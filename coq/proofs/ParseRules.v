(* C19 -- derived "rules" of the fuel-indexed parser of model/Parse.v: fuel-free specifications
   PE / LP / AL (the call succeeds with this result for EVERY fuel above twice the number of
   tokens) and one lemma per branch of parse_prefix / parse_postfix / parse_arglist that the
   printed form of an expression exercises.  All reasoning about fuel is in this file. *)
From Coq Require Import List ZArith NArith String Ascii Bool Arith Lia ZifyBool.
Import ListNotations.
From Dagrt Require Import GenC19 Print Parse.
Open Scope nat_scope.
Notation length := List.length.

Ltac consts :=
  unfold thr_plus, rhs_plus, thr_minus, rhs_minus, thr_times, rhs_times, thr_floordiv, rhs_floordiv,
         thr_over, rhs_over, thr_modulo, rhs_modulo, thr_power, rhs_power, thr_and, rhs_and,
         thr_or, rhs_or, thr_cmp, rhs_cmp,
         PA_COMMA, PA_IF, PA_LOGICAL_OR, PA_LOGICAL_AND, PA_COMPARISON, PA_PLUS, PA_TIMES, PA_UNARY,
         PA_POWER, PA_CALL,
         PR_CALL, PR_POWER, PR_UNARY, PR_PRODUCT, PR_SUM, PR_COMPARISON, PR_LOGICAL_AND,
         PR_LOGICAL_OR, PR_IF, PR_NONE, NOPAREN in *.

(* ------------------------------------------------------------------ specifications *)

Definition PE (p : nat) (ts : list token) (r : expr * list token) : Prop :=
  length (snd r) <= length ts /\ forall n, 2 * length ts < n -> parse_expr n p ts = Ok r.

Definition LP (p : nat) (l : expr) (fin : bool) (ts : list token) (r : expr * list token) : Prop :=
  length (snd r) <= length ts /\ forall n, 2 * length ts < n -> loop n p l fin ts = Ok r.

Definition AL (args : list expr) (kw : list (string * expr)) (ca : bool) (ts : list token)
           (r : list expr * list (string * expr) * list token) : Prop :=
  length (snd r) <= length ts /\ forall n, 2 * length ts + 1 < n -> arglist n args kw ca ts = Ok r.

(* one unfolding of each function *)
Lemma parse_expr_S f p ts :
  parse_expr (S f) p ts
  = bind (prefix (parse_expr f) ts) (fun x => loop f p (fst (fst x)) (snd (fst x)) (snd x)).
Proof. reflexivity. Qed.

Lemma loop_S f p l fin ts :
  loop (S f) p l fin ts
  = match ts with
    | [] => Ok (l, [])
    | _ => bind (postfix (parse_expr f) (arglist f [] [] false) p l fin ts) (fun o =>
             match o with
             | Some x => loop f p (fst x) false (snd x)
             | None => Ok (l, ts)
             end)
    end.
Proof. reflexivity. Qed.

(* ------------------------------------------------------------------ glue *)

Lemma PE_intro p ts l fin ts' r :
  (forall f, 2 * length ts <= f -> prefix (parse_expr f) ts = Ok (l, fin, ts')) ->
  length ts' < length ts ->
  LP p l fin ts' r ->
  PE p ts r.
Proof.
  intros Hpre Hlen [Hl Hloop]. split; [lia|].
  intros n Hn. destruct n as [|f]; [lia|].
  rewrite parse_expr_S, Hpre by lia. cbn [bind fst snd].
  apply Hloop. lia.
Qed.

(* tokens after which the loop of parse_expression(min_precedence = m) stops *)
Definition accepts (m : nat) (t : token) : bool :=
  match t with
  | TLPar | TLBrk => m <? PA_CALL
  | TIf => m <? PA_IF
  | TPlus => m <? thr_plus
  | TMinus => m <? thr_minus
  | TTimes => m <? thr_times
  | TFloorDiv => m <? thr_floordiv
  | TOver => m <? thr_over
  | TMod => m <? thr_modulo
  | TPow => m <? thr_power
  | TAnd => m <? thr_and
  | TOr => m <? thr_or
  | TCmp _ => m <? thr_cmp
  | TComma => m <? PA_COMMA
  | _ => false
  end.

Definition is_id (t : token) : bool := match t with TId _ => true | _ => false end.

(* what may follow a sub-expression whose right edge was parsed at level m: a token that does not
   continue an expression at level m, and not an identifier (a tag-only name <dt> would absorb it) *)
Definition follow (m : nat) (ts : list token) : bool :=
  match ts with
  | [] => true
  | t :: _ => negb (accepts m t) && negb (is_id t)
  end.

Lemma follow_mono m m' ts : m <= m' -> follow m ts = true -> follow m' ts = true.
Proof.
  intros Hm. destruct ts as [|t r]; [reflexivity|]. unfold follow.
  intros H. apply andb_true_iff in H as [Ha Hi]. rewrite Hi, andb_true_r.
  destruct t; cbn [accepts] in *; try reflexivity; lia.
Qed.

Lemma postfix_none rec argl m l fin ts :
  follow m ts = true -> ts <> [] -> postfix rec argl m l fin ts = Ok None.
Proof.
  destruct ts as [|t r]; [congruence|]. intros H _. unfold follow in H.
  apply andb_true_iff in H as [Ha _]. apply negb_true_iff in Ha.
  destruct t; cbn [accepts] in Ha; cbn [postfix]; try rewrite Ha; reflexivity.
Qed.

Lemma LP_stop p l fin ts : follow p ts = true -> LP p l fin ts (l, ts).
Proof.
  intros H. split; [cbn; lia|]. intros n Hn. destruct n as [|f]; [lia|].
  rewrite loop_S. destruct ts as [|t r]; [reflexivity|].
  rewrite postfix_none by (auto; congruence). reflexivity.
Qed.

Lemma LP_step p l fin ts l' ts' r :
  ts <> [] ->
  (forall f, 2 * length ts <= f ->
             postfix (parse_expr f) (arglist f [] [] false) p l fin ts = Ok (Some (l', ts'))) ->
  length ts' < length ts ->
  LP p l' false ts' r ->
  LP p l fin ts r.
Proof.
  intros Hne Hpost Hlen [Hl Hloop]. split; [lia|].
  intros n Hn. destruct n as [|f]; [lia|].
  rewrite loop_S. destruct ts as [|t r0]; [congruence|].
  rewrite Hpost by lia. cbn [bind fst snd]. apply Hloop. lia.
Qed.

(* ------------------------------------------------------------------ parse_prefix *)

Lemma prefix_int rec n r : prefix rec (TInt n :: r) = Ok (EInt (Z.of_N n), false, r).
Proof. reflexivity. Qed.
Lemma prefix_true rec r : prefix rec (TTrue :: r) = Ok (EBool true, false, r).
Proof. reflexivity. Qed.
Lemma prefix_false rec r : prefix rec (TFalse :: r) = Ok (EBool false, false, r).
Proof. reflexivity. Qed.
Lemma prefix_id rec s r : prefix rec (TId s :: r) = Ok (EVar s, false, r).
Proof. reflexivity. Qed.
Lemma prefix_tag2 rec t u r :
  prefix rec (TCmp CLt :: TId t :: TCmp CGt :: TId u :: r) = Ok (EVar ("<" ++ t ++ ">" ++ u)%string, false, r).
Proof. reflexivity. Qed.
Lemma prefix_tag1 rec t r :
  match r with TId _ :: _ => False | _ => True end ->
  prefix rec (TCmp CLt :: TId t :: TCmp CGt :: r) = Ok (EVar ("<" ++ t ++ ">")%string, false, r).
Proof. destruct r as [|[] r]; cbn; intros H; try reflexivity; contradiction. Qed.

Lemma prefix_not p r a r' :
  p = PA_UNARY -> PE p r (a, r') ->
  forall f, 2 * length (TNot :: r) <= f -> prefix (parse_expr f) (TNot :: r) = Ok (ENot a, false, r').
Proof.
  intros -> [_ H] f Hf. cbn [prefix length] in *. rewrite H by lia. reflexivity.
Qed.

Lemma prefix_minus_int n r :
  follow PA_UNARY r = true ->
  forall f, 2 * length (TMinus :: TInt n :: r) <= f ->
            prefix (parse_expr f) (TMinus :: TInt n :: r) = Ok (EInt (- Z.of_N n), false, r).
Proof.
  intros Hfo f Hf. cbn [prefix length] in *.
  destruct f as [|f]; [lia|]. rewrite parse_expr_S, prefix_int. cbn [bind fst snd].
  destruct (LP_stop PA_UNARY (EInt (Z.of_N n)) false r Hfo) as [_ H].
  rewrite H by lia. reflexivity.
Qed.

Lemma prefix_paren r e r' :
  match r with TRPar :: _ => False | _ => True end ->
  PE 0 r (e, TRPar :: r') ->
  forall f, 2 * length (TLPar :: r) <= f ->
            prefix (parse_expr f) (TLPar :: r) = Ok (e, is_tuple e, r').
Proof.
  intros Hh [_ H] f Hf. cbn [prefix length] in *.
  destruct r as [|t r0]; [rewrite H by (cbn; lia); reflexivity|].
  destruct t; try contradiction; rewrite H by (cbn [length] in *; lia); reflexivity.
Qed.

(* ------------------------------------------------------------------ parse_postfix *)

Section Postfix.
  Variables (p : nat) (l : expr) (fin : bool) (r : list token).

  Lemma postfix_plus b r' :
    p <? thr_plus = true -> PE rhs_plus r (b, r') -> is_arith b = true -> is_arith l = true ->
    forall f, 2 * length (TPlus :: r) <= f ->
      postfix (parse_expr f) (arglist f [] [] false) p l fin (TPlus :: r) = Ok (Some (ENary NSum [l; b], r')).
  Proof.
    intros Hp [_ H] Hb Hl f Hf. cbn [postfix length] in *. rewrite Hp, H by lia.
    cbn [bind fst snd]. rewrite Hb, Hl. reflexivity.
  Qed.

  Lemma postfix_times b r' :
    p <? thr_times = true -> PE rhs_times r (b, r') -> is_arith b = true -> is_arith l = true ->
    forall f, 2 * length (TTimes :: r) <= f ->
      postfix (parse_expr f) (arglist f [] [] false) p l fin (TTimes :: r) = Ok (Some (ENary NProd [l; b], r')).
  Proof.
    intros Hp [_ H] Hb Hl f Hf. cbn [postfix length] in *. rewrite Hp, H by lia.
    cbn [bind fst snd]. rewrite Hb, Hl. reflexivity.
  Qed.

  Lemma postfix_and b r' :
    p <? thr_and = true -> PE rhs_and r (b, r') ->
    forall f, 2 * length (TAnd :: r) <= f ->
      postfix (parse_expr f) (arglist f [] [] false) p l fin (TAnd :: r) = Ok (Some (ENary NAnd [l; b], r')).
  Proof.
    intros Hp [_ H] f Hf. cbn [postfix length] in *. rewrite Hp, H by lia. reflexivity.
  Qed.

  Lemma postfix_or b r' :
    p <? thr_or = true -> PE rhs_or r (b, r') ->
    forall f, 2 * length (TOr :: r) <= f ->
      postfix (parse_expr f) (arglist f [] [] false) p l fin (TOr :: r) = Ok (Some (ENary NOr [l; b], r')).
  Proof.
    intros Hp [_ H] f Hf. cbn [postfix length] in *. rewrite Hp, H by lia. reflexivity.
  Qed.

  Lemma postfix_cmp c b r' :
    p <? thr_cmp = true -> PE rhs_cmp r (b, r') ->
    forall f, 2 * length (TCmp c :: r) <= f ->
      postfix (parse_expr f) (arglist f [] [] false) p l fin (TCmp c :: r) = Ok (Some (EBin (BCmp c) l b, r')).
  Proof.
    intros Hp [_ H] f Hf. cbn [postfix length] in *. rewrite Hp, H by lia. reflexivity.
  Qed.

  Lemma postfix_over b r' :
    p <? thr_over = true -> PE rhs_over r (b, r') -> is_arith b = true -> is_arith l = true ->
    forall f, 2 * length (TOver :: r) <= f ->
      postfix (parse_expr f) (arglist f [] [] false) p l fin (TOver :: r) = Ok (Some (EBin BQuot l b, r')).
  Proof.
    intros Hp [_ H] Hb Hl f Hf. cbn [postfix length] in *. rewrite Hp, Hl, H by lia.
    cbn [bind fst snd]. rewrite Hb. reflexivity.
  Qed.

  Lemma postfix_floordiv b r' :
    p <? thr_floordiv = true -> PE rhs_floordiv r (b, r') -> is_arith b = true -> is_arith l = true ->
    forall f, 2 * length (TFloorDiv :: r) <= f ->
      postfix (parse_expr f) (arglist f [] [] false) p l fin (TFloorDiv :: r) = Ok (Some (EBin BFloorDiv l b, r')).
  Proof.
    intros Hp [_ H] Hb Hl f Hf. cbn [postfix length] in *. rewrite Hp, Hl, H by lia.
    cbn [bind fst snd]. rewrite Hb. reflexivity.
  Qed.

  Lemma postfix_mod b r' :
    p <? thr_modulo = true -> PE rhs_modulo r (b, r') -> is_arith b = true -> is_arith l = true ->
    forall f, 2 * length (TMod :: r) <= f ->
      postfix (parse_expr f) (arglist f [] [] false) p l fin (TMod :: r) = Ok (Some (EBin BRem l b, r')).
  Proof.
    intros Hp [_ H] Hb Hl f Hf. cbn [postfix length] in *. rewrite Hp, Hl, H by lia.
    cbn [bind fst snd]. rewrite Hb. reflexivity.
  Qed.

  Lemma postfix_pow b r' :
    p <? thr_power = true -> PE rhs_power r (b, r') -> is_arith b = true -> is_arith l = true ->
    forall f, 2 * length (TPow :: r) <= f ->
      postfix (parse_expr f) (arglist f [] [] false) p l fin (TPow :: r) = Ok (Some (EBin BPow l b, r')).
  Proof.
    intros Hp [_ H] Hb Hl f Hf. cbn [postfix length] in *. rewrite Hp, Hl, H by lia.
    cbn [bind fst snd]. rewrite Hb. reflexivity.
  Qed.

  Lemma postfix_if c r2 e r3 :
    p <? PA_IF = true -> r <> [] -> PE PA_IF r (c, TElse :: r2) -> PE 0 r2 (e, r3) ->
    forall f, 2 * length (TIf :: r) <= f ->
      postfix (parse_expr f) (arglist f [] [] false) p l fin (TIf :: r) = Ok (Some (EIf c l e, r3)).
  Proof.
    intros Hp Hne [Hl1 H1] [_ H2] f Hf. cbn [postfix length snd] in *. rewrite Hp.
    destruct r as [|t r0]; [congruence|]. rewrite H1 by lia. cbn [bind fst snd].
    rewrite H2 by (cbn [length] in *; lia). reflexivity.
  Qed.

  Lemma postfix_call args kw r' :
    p <? PA_CALL = true -> AL [] [] false r (args, kw, r') ->
    forall f, 2 * length (TLPar :: r) <= f ->
      postfix (parse_expr f) (arglist f [] [] false) p l fin (TLPar :: r) = Ok (Some (ECall l args kw, r')).
  Proof.
    intros Hp [_ H] f Hf. cbn [postfix length] in *. rewrite Hp, H by lia. reflexivity.
  Qed.

  Lemma postfix_sub i r2 :
    p <? PA_CALL = true -> r <> [] -> PE 0 r (i, TRBrk :: r2) ->
    forall f, 2 * length (TLBrk :: r) <= f ->
      postfix (parse_expr f) (arglist f [] [] false) p l fin (TLBrk :: r) = Ok (Some (ESub l i, r2)).
  Proof.
    intros Hp Hne [_ H] f Hf. cbn [postfix length] in *. rewrite Hp.
    destruct r as [|t r0]; [congruence|]. rewrite H by lia. reflexivity.
  Qed.

  Lemma postfix_comma el r' :
    p <? PA_COMMA = true ->
    match r with [] | TRPar :: _ => False | _ => True end ->
    PE PA_COMMA r (el, r') ->
    forall f, 2 * length (TComma :: r) <= f ->
      postfix (parse_expr f) (arglist f [] [] false) p l fin (TComma :: r)
      = Ok (Some (match l with
                  | ETuple es => if fin then ETuple [l; el] else ETuple (es ++ [el])
                  | _ => ETuple [l; el]
                  end, r')).
  Proof.
    intros Hp Hh [_ H] f Hf. cbn [postfix length] in *. rewrite Hp.
    destruct r as [|t r0]; [contradiction|].
    destruct t; try contradiction; rewrite H by lia; reflexivity.
  Qed.
End Postfix.

(* ------------------------------------------------------------------ parse_arglist *)

Lemma arglist_S f args kw ca ts :
  arglist (S f) args kw ca ts = arglist_body (parse_expr f) (arglist f) args kw ca ts.
Proof. reflexivity. Qed.

Definition starts_kw (ts : list token) : bool :=
  match ts with TId _ :: TAssign :: _ => true | _ => false end.
(* a token an expression can start with (in particular not `)` `,` `=`) *)
Definition is_start (t : token) : bool :=
  match t with
  | TInt _ | TId _ | TCmp CLt | TMinus | TNot | TLPar | TTrue | TFalse => true
  | _ => false
  end.
Definition starts_ok (ts : list token) : bool :=
  match ts with t :: _ => is_start t | [] => false end.

Lemma AL_close args kw ca r : AL args kw ca (TRPar :: r) (args, kw, r).
Proof.
  split; [cbn; lia|]. intros n Hn. destruct n as [|f]; [lia|].
  rewrite arglist_S; unfold arglist_body. cbn. destruct ca; reflexivity.
Qed.

Lemma AL_close_comma args kw r : AL args kw true (TComma :: TRPar :: r) (args, kw, r).
Proof.
  split; [cbn; lia|]. intros n Hn. destruct n as [|f]; [lia|].
  rewrite arglist_S; unfold arglist_body. reflexivity.
Qed.

(* first item, positional *)
Lemma AL_pos_first args ts a ts' R :
  starts_ok ts = true -> starts_kw ts = false ->
  PE PA_COMMA ts (a, ts') -> length ts' < length ts ->
  AL (args ++ [a]) [] true ts' R ->
  AL args [] false ts R.
Proof.
  intros Hs Hk [_ H] Hlen [Hl HA]. split; [lia|].
  intros n Hn. destruct n as [|f]; [lia|]. rewrite arglist_S; unfold arglist_body.
  destruct ts as [|t r]; [discriminate|].
  destruct t; try discriminate Hs; cbn [andb negb];
    try (rewrite H by lia; cbn [bind fst snd]; apply HA; lia).
  - (* TId *) destruct r as [|t2 r2].
    + rewrite H by lia. cbn [bind fst snd]. apply HA; lia.
    + destruct t2; try discriminate Hk; rewrite H by lia; cbn [bind fst snd]; apply HA; lia.
Qed.

(* later item, positional *)
Lemma AL_pos_next args ts a ts' R :
  starts_ok ts = true -> starts_kw ts = false ->
  PE PA_COMMA ts (a, ts') -> length ts' < length ts ->
  AL (args ++ [a]) [] true ts' R ->
  AL args [] true (TComma :: ts) R.
Proof.
  intros Hs Hk [_ H] Hlen [Hl HA]. split; [cbn [length]; lia|].
  intros n Hn. destruct n as [|f]; [lia|]. rewrite arglist_S; unfold arglist_body. cbn [andb negb length] in *.
  destruct ts as [|t r]; [discriminate|].
  destruct t; try discriminate Hs;
    try (rewrite H by (cbn [length] in *; lia); cbn [bind fst snd]; apply HA; cbn [length] in *; lia).
  - destruct r as [|t2 r2].
    + rewrite H by (cbn [length] in *; lia). cbn [bind fst snd]. apply HA; cbn [length] in *; lia.
    + destruct t2; try discriminate Hk; rewrite H by (cbn [length] in *; lia); cbn [bind fst snd];
        apply HA; cbn [length] in *; lia.
Qed.

(* keyword items *)
Lemma AL_kw_first args kw k ts v ts' R :
  PE PA_COMMA ts (v, ts') -> length ts' <= length ts ->
  AL args (kw_set kw k v) true ts' R ->
  AL args kw false (TId k :: TAssign :: ts) R.
Proof.
  intros [_ H] Hlen [Hl HA]. split; [cbn [length]; lia|].
  intros n Hn. destruct n as [|f]; [lia|]. rewrite arglist_S; unfold arglist_body. cbn [andb negb length] in *.
  rewrite H by lia. cbn [bind fst snd]. apply HA; lia.
Qed.

Lemma AL_kw_next args kw k ts v ts' R :
  PE PA_COMMA ts (v, ts') -> length ts' <= length ts ->
  AL args (kw_set kw k v) true ts' R ->
  AL args kw true (TComma :: TId k :: TAssign :: ts) R.
Proof.
  intros [_ H] Hlen [Hl HA]. split; [cbn [length]; lia|].
  intros n Hn. destruct n as [|f]; [lia|]. rewrite arglist_S; unfold arglist_body. cbn [andb negb length] in *.
  rewrite H by lia. cbn [bind fst snd]. apply HA; lia.
Qed.

(* ------------------------------------------------------------------ the whole input *)

Lemma parse_toks_intro ts e :
  PE 0 ts (e, []) -> parse_toks ts = Ok e.
Proof.
  intros [_ H]. unfold parse_toks. rewrite H by lia. reflexivity.
Qed.
