(* C09: soundness of the inferred kinds w.r.t. the class semantics (coq/model/Kinds.v). *)
From Coq Require Import List String Bool Arith Lia.
Import ListNotations.
Open Scope string_scope.
Open Scope list_scope.
From Dagrt Require Import Kinds KindsClassProofs.

(* ------------------------------------------------------------------ lists *)

Lemma in_lift2 : forall f xs ys c,
  In c (lift2 f xs ys) <-> exists a b, In a xs /\ In b ys /\ In c (f a b).
Proof.
  intros f xs ys c. unfold lift2. rewrite in_flat_map. split.
  - intros [a [Ha H]]. apply in_flat_map in H. destruct H as [b [Hb H]]. exists a, b. auto.
  - intros [a [b [Ha [Hb H]]]]. exists a. split; [assumption|]. apply in_flat_map. exists b. auto.
Qed.

Lemma cartesian_in : forall {A} (css : list (list A)) vals,
  In vals (cartesian css) -> Forall2 (fun v cs => In v cs) vals css.
Proof.
  induction css as [|cs css IH]; intros vals H; simpl in H.
  - destruct H as [H|[]]. subst. constructor.
  - apply in_flat_map in H. destruct H as [x [Hx H]]. apply in_map_iff in H.
    destruct H as [r [Hr H]]. subst. constructor; auto.
Qed.

Lemma Forall2_firstn : forall {A B} (R : A -> B -> Prop) n l l',
  Forall2 R l l' -> Forall2 R (firstn n l) (firstn n l').
Proof.
  induction n; intros l l' H; simpl; [constructor|].
  destruct H; constructor; auto.
Qed.

Lemma Forall2_skipn : forall {A B} (R : A -> B -> Prop) n l l',
  Forall2 R l l' -> Forall2 R (skipn n l) (skipn n l').
Proof.
  induction n; intros l l' H; simpl; [assumption|].
  destruct H; [constructor | auto].
Qed.

Lemma Forall2_len : forall {A B} (R : A -> B -> Prop) l l', Forall2 R l l' -> List.length l = List.length l'.
Proof. induction 1; simpl; congruence. Qed.

Definition kw_rel {A B} (R : A -> B -> Prop) (p : string * A) (q : string * B) : Prop :=
  fst p = fst q /\ R (snd p) (snd q).

Lemma Forall2_combine : forall {A B} (R : A -> B -> Prop) (names : list string) l l',
  Forall2 R l l' -> Forall2 (kw_rel R) (combine names l) (combine names l').
Proof.
  induction names as [|n names IH]; intros l l' H; simpl; [constructor|].
  destruct H; constructor; [split; auto | auto].
Qed.

Lemma alookup_rel : forall {A B} (R : A -> B -> Prop) kw kw' n,
  Forall2 (kw_rel R) kw kw' ->
  match alookup kw n, alookup kw' n with
  | Some v, Some v' => R v v'
  | None, None => True
  | _, _ => False
  end.
Proof.
  intros A B R kw kw' n H. induction H as [|[a v] [b w] kw kw' [Hab Hvw] H IH]; simpl; [exact I|].
  simpl in Hab, Hvw. subst b. destruct (String.eqb a n); assumption.
Qed.

Lemma aremove_rel : forall {A B} (R : A -> B -> Prop) kw kw' n,
  Forall2 (kw_rel R) kw kw' -> Forall2 (kw_rel R) (aremove kw n) (aremove kw' n).
Proof.
  intros A B R kw kw' n H. induction H as [|[a v] [b w] kw kw' [Hab Hvw] H IH]; simpl; [constructor|].
  simpl in Hab, Hvw. subst b. destruct (String.eqb a n); [assumption|].
  constructor; [split; auto | assumption].
Qed.

Lemma resolve_rel : forall {A B} (R : A -> B -> Prop) names pos pos' kw kw',
  Forall2 R pos pos' -> Forall2 (kw_rel R) kw kw' ->
  match resolve names pos kw, resolve names pos' kw' with
  | Some a, Some a' => Forall2 R a a'
  | None, None => True
  | _, _ => False
  end.
Proof.
  intros A B R names. induction names as [|n names IH]; intros pos pos' kw kw' Hp Hk; simpl.
  - destruct Hp; [|exact I]. destruct Hk; [constructor | exact I].
  - destruct Hp as [|p p' pos pos' Hpp Hp].
    + pose proof (alookup_rel R kw kw' n Hk) as Hl.
      destruct (alookup kw n) as [v|], (alookup kw' n) as [v'|]; try contradiction; try exact I.
      specialize (IH [] [] (aremove kw n) (aremove kw' n) (Forall2_nil R) (aremove_rel R kw kw' n Hk)).
      destruct (resolve names [] (aremove kw n)), (resolve names [] (aremove kw' n)); try contradiction; try exact I.
      constructor; assumption.
    + pose proof (alookup_rel R kw kw' n Hk) as Hl.
      destruct (alookup kw n) as [v|], (alookup kw' n) as [v'|]; try contradiction; try exact I.
      specialize (IH pos pos' kw kw' Hp Hk).
      destruct (resolve names pos kw), (resolve names pos' kw'); try contradiction; try exact I.
      constructor; assumption.
Qed.

Lemma split_args_rel : forall {A B} (R : A -> B -> Prop) vals vals' kwn,
  Forall2 R vals vals' ->
  Forall2 R (fst (split_args vals kwn)) (fst (split_args vals' kwn)) /\
  Forall2 (kw_rel R) (snd (split_args vals kwn)) (snd (split_args vals' kwn)).
Proof.
  intros A B R vals vals' kwn H. unfold split_args. simpl.
  rewrite <- (Forall2_len R vals vals' H). split.
  - apply Forall2_firstn. assumption.
  - apply Forall2_combine. apply Forall2_skipn. assumption.
Qed.

(* ------------------------------------------------------------------ calls *)

Lemma rhs_kinds : forall o i n a ks, result_kinds true (FRhs o i n) a = Some ks -> ks = [KUser o].
Proof.
  intros o i n a ks H. destruct a as [|t rest]; simpl in H; try discriminate.
  repeat match type of H with (if ?b then _ else _) = _ => destruct b; try discriminate end.
  inversion H. reflexivity.
Qed.

Definition hks (r : list vclass) (ks : list kind) : Prop := Forall2 (fun c k => has_kind c k = true) r ks.

Lemma call_sound : forall C s vals aks kwn ks r,
  Forall2 arg_rel vals aks ->
  call_kinds_gen (result_kinds_strict C) s aks kwn = Some ks ->
  In r (ccall C s vals kwn) -> hks r ks.
Proof.
  intros C s vals aks kwn ks r HF Hk Hin.
  assert (Hgen : forall s0, s0 = s ->
            (match s0 with FRhs _ _ _ | FFixed _ _ => False | _ => True end) ->
            match resolve (sig_args s0) (fst (split_args aks kwn)) (snd (split_args aks kwn)) with
            | None => None
            | Some a => result_kinds_strict C s0 a
            end = Some ks ->
            In r (match resolve (sig_args s0) (fst (split_args vals kwn)) (snd (split_args vals kwn)) with
                  | None => []
                  | Some a => cresult C s0 a
                  end) -> hks r ks).
  { intros s0 _ _ H1 H2.
    destruct (split_args_rel arg_rel vals aks kwn HF) as [Hp Hkw].
    pose proof (resolve_rel arg_rel (sig_args s0) _ _ _ _ Hp Hkw) as Hres.
    destruct (resolve (sig_args s0) (fst (split_args aks kwn)) (snd (split_args aks kwn))) as [a|];
      [|discriminate].
    destruct (resolve (sig_args s0) (fst (split_args vals kwn)) (snd (split_args vals kwn))) as [cs|];
      [|contradiction].
    unfold result_kinds_strict in H1. destruct (sig_ok C s0 a) eqn:Hs; [|discriminate].
    eapply cresult_sound; eauto. }
  unfold call_kinds_gen in Hk. unfold ccall in Hin.
  destruct s;
    try (destruct (split_args aks kwn) as [pos kw] eqn:E1; destruct (split_args vals kwn) as [pos' kw'] eqn:E2;
         simpl in Hgen; eapply Hgen; [reflexivity | exact I | exact Hk | exact Hin]).
  - (* FRhs *)
    destruct (split_args aks kwn) as [pos kw].
    destruct (resolve (sig_args (FRhs out ins names)) pos kw) as [a|]; [|discriminate].
    change (result_kinds_strict C (FRhs out ins names) a) with (result_kinds true (FRhs out ins names) a) in Hk.
    apply rhs_kinds in Hk. subst.
    simpl in Hin. destruct Hin as [Hin|[]]. subst. repeat constructor. simpl. apply String.eqb_refl.
  - (* FFixed *)
    inversion Hk; subst. simpl in Hin. apply cartesian_classes_sound. assumption.
Qed.

(* the function's own check=True test is stricter than check=False and gives the same kinds *)
Lemma result_kinds_check : forall s a ks, result_kinds true s a = Some ks -> result_kinds false s a = Some ks.
Proof.
  intros s a ks H.
  destruct s; simpl in H;
    repeat match type of H with
           | context [match ?l with [] => _ | _ :: _ => _ end] => is_var l; destruct l; simpl in H; try discriminate
           end;
    simpl;
    repeat match type of H with
           | (if ?b then _ else _) = _ => destruct b eqn:?; simpl in *; try discriminate
           end;
    assumption.
Qed.

(* arguments that pass the check=True test of a matrix built-in are Arrays: the extra test of 47d5901 is
   not observable there *)
Lemma result_kinds_check_arrays : forall s a ks, result_kinds true s a = Some ks -> matrix_arrays s a = true.
Proof.
  intros s a ks H.
  destruct s; try reflexivity; simpl in H;
    repeat match type of H with
           | context [match ?l with [] => _ | _ :: _ => _ end] => is_var l; destruct l; simpl in H; try discriminate
           end;
    try reflexivity; simpl;
    repeat match type of H with
           | (if ?b then _ else _) = _ => destruct b eqn:?; simpl in *; try discriminate
           end;
    repeat match goal with
           | E : negb _ = false |- _ => apply negb_false_iff in E
           | E : _ && _ = true |- _ => apply andb_prop in E; destruct E
           end;
    repeat (apply andb_true_intro; split); assumption.
Qed.

Lemma result_kinds_check_infer : forall na s a ks,
  result_kinds true s a = Some ks -> result_kinds_infer na s a = Some ks.
Proof.
  intros na s a ks H. unfold result_kinds_infer.
  rewrite (result_kinds_check_arrays s a ks H). simpl. rewrite andb_false_r.
  apply result_kinds_check. exact H.
Qed.

Lemma call_kinds_check : forall C na s aks kwn ks,
  call_kinds_gen (result_kinds_strict C) s aks kwn = Some ks -> call_kinds_infer na s aks kwn = Some ks.
Proof.
  intros C na s aks kwn ks H. unfold call_kinds_infer, call_kinds_gen in *.
  destruct s; try assumption;
    destruct (split_args aks kwn) as [pos kw];
    match goal with |- context [resolve ?n ?p ?k] => destruct (resolve n p k) as [a|]; [|discriminate] end;
    unfold result_kinds_strict in H;
    match type of H with (if ?b then _ else _) = _ => destruct b; [|discriminate] end;
    apply result_kinds_check_infer; assumption.
Qed.

(* ------------------------------------------------------------------ sums and products *)

Definition acc_inv (acs : list vclass) (acc : okind) : Prop :=
  match acc with
  | None => forall c, In c acs -> c = CInt
  | Some k => k <> KBool /\ forall c, In c acs -> has_kind c k = true
  end.

Definition child_rel (k : kind) (cs : list vclass) : Prop :=
  k <> KBool /\ forall c, In c cs -> has_kind c k = true.

Lemma acc_step : forall acs acc k cs ko,
  acc_inv acs acc -> child_rel k cs -> unify acc (Some k) = Ok ko ->
  acc_inv (lift2 (cjoin 1) acs cs) ko.
Proof.
  intros acs acc k cs ko Hinv [Hk Hcs] Hu.
  destruct acc as [k1|]; simpl in Hinv.
  - destruct Hinv as [Hk1 Hacs].
    destruct (unify_nonbool _ _ _ Hu) as [k' [-> Hk']]. simpl. split; [assumption|].
    intros c Hc. apply in_lift2 in Hc. destruct Hc as [a [b [Ha [Hb Hc]]]].
    destruct (unify_join_sound 1 k1 k (Some k') a b c (or_introl eq_refl) Hu (Hacs a Ha) (Hcs b Hb) Hc)
      as [k'' [E Hh]].
    inversion E; subst. assumption.
  - simpl in Hu. inversion Hu; subst. simpl. split; [assumption|].
    intros c Hc. apply in_lift2 in Hc. destruct Hc as [a [b [Ha [Hb Hc]]]].
    rewrite (Hinv a Ha) in Hc. eapply join_int_sound; eauto.
Qed.

Lemma sum_kinds_sound : forall ks css acc last ko acs,
  Forall2 child_rel ks css -> acc_inv acs acc ->
  sum_kinds (map (fun k => Ok (Some k)) ks) acc last = Ok ko ->
  exists k, ko = Some k /\ forall c, In c (fold_left (lift2 (cjoin 1)) css acs) -> has_kind c k = true.
Proof.
  intros ks css acc last ko acs HF. revert acc last ko acs.
  induction HF as [|k cs ks css Hc HF IH]; intros acc last ko acs Hinv H; simpl in *.
  - destruct acc as [k|]; [|destruct last; discriminate].
    inversion H; subst. exists k. split; [reflexivity|]. apply Hinv.
  - destruct (unify acc (Some k)) as [k'|e] eqn:Hu; [|discriminate].
    eapply IH; [|exact H]. eapply acc_step; eauto.
Qed.

Lemma prod_kinds_sound : forall ks css acc ko acs,
  Forall2 child_rel ks css -> acc_inv acs acc -> (acc <> None \/ ks <> []) ->
  prod_kinds (map (fun k => Ok (Some k)) ks) acc = Ok ko ->
  exists k, ko = Some k /\ forall c, In c (fold_left (lift2 (cjoin 1)) css acs) -> has_kind c k = true.
Proof.
  intros ks css acc ko acs HF. revert acc ko acs.
  induction HF as [|k cs ks css Hc HF IH]; intros acc ko acs Hinv Hne H; simpl in *.
  - inversion H; subst. destruct ko as [k|]; [|destruct Hne; congruence].
    exists k. split; [reflexivity|]. apply Hinv.
  - destruct (unify acc (Some k)) as [k'|e] eqn:Hu; [|discriminate].
    eapply IH; [| |exact H].
    + eapply acc_step; eauto.
    + left. destruct acc as [k1|]; simpl in Hu.
      * destruct (unify_nonbool _ _ _ Hu) as [k'' [-> _]]. discriminate.
      * inversion Hu. discriminate.
Qed.

Lemma logic_kinds_ok : forall rs ko, logic_kinds rs = Ok ko -> ko = Some KBool.
Proof.
  induction rs as [|r rs IH]; intros ko H; simpl in H.
  - inversion H. reflexivity.
  - destruct r; [auto|discriminate].
Qed.

(* ------------------------------------------------------------------ the mapper is sound under the discipline *)

Definition store_sound (G L : tbl) (st : cstore) : Prop :=
  forall x c, alookup st x = Some c ->
    exists k, (match alookup G x with Some k => Some k | None => alookup L x end) = Some (Some k)
              /\ has_kind c k = true.

Lemma forallb_flat_map : forall {A B} (p : B -> bool) (f : A -> list B) l,
  forallb p (flat_map f l) = forallb (fun x => forallb p (f x)) l.
Proof.
  induction l as [|x l IH]; simpl; [reflexivity|]. rewrite forallb_app, IH. reflexivity.
Qed.

Lemma kind_of_some : forall r k, kind_of r = Some k -> r = Ok (Some k).
Proof. intros [[k'|]|e] k H; simpl in H; try discriminate. inversion H. reflexivity. Qed.

Lemma nonbool_kind_inv : forall r, nonbool_kind (kind_of r) = true -> exists k, r = Ok (Some k) /\ k <> KBool.
Proof.
  intros r H. destruct (kind_of r) as [k|] eqn:E; simpl in H; [|discriminate].
  apply kind_of_some in E. exists k. split; [assumption|]. destruct k; try discriminate.
Qed.

Lemma scalar_kind_inv : forall r, scalar_kind (kind_of r) = true -> exists k, r = Ok (Some k) /\ scalar_kind (Some k) = true.
Proof.
  intros r H. destruct (kind_of r) as [k|] eqn:E; simpl in H; [|discriminate].
  apply kind_of_some in E. exists k. auto.
Qed.

Lemma prod2 : forall a b, prod_kinds [Ok (Some a); Ok (Some b)] None = unify (Some a) (Some b).
Proof.
  intros a b.
  change (prod_kinds [Ok (Some a); Ok (Some b)] None)
    with (match unify (Some a) (Some b) with Err e => Err e | Ok k' => Ok k' end).
  destruct (unify (Some a) (Some b)); reflexivity.
Qed.

Section MapperSound.
  Variable C : cfg.
  Variable reg : registry.
  Variable G L : tbl.
  Variable st : cstore.
  Hypothesis Hst : store_sound G L st.

  Definition esound (e : expr) : Prop :=
    forall ko, side_ok C reg G L e = true -> forallb (in_store st) (evars e) = true ->
               kmap C reg G L e = Ok ko ->
               exists k, ko = Some k /\ forall c, In c (ceval C reg st e) -> has_kind c k = true.

  Lemma children_rel : forall l,
    Forall esound l -> forallb (side_ok C reg G L) l = true ->
    forallb (fun ch => nonbool_kind (kind_of (kmap C reg G L ch))) l = true ->
    forallb (in_store st) (flat_map evars l) = true ->
    exists ks, map (kmap C reg G L) l = map (fun k => Ok (Some k)) ks /\
               Forall2 child_rel ks (map (ceval C reg st) l).
  Proof.
    induction l as [|ch l IH]; intros HF Hs Hn Hd; simpl in *.
    - exists []. split; constructor.
    - inversion HF as [|? ? Hch HF']; subst.
      apply andb_prop in Hs. destruct Hs as [Hs1 Hs2].
      apply andb_prop in Hn. destruct Hn as [Hn1 Hn2].
      rewrite forallb_app in Hd. apply andb_prop in Hd. destruct Hd as [Hd1 Hd2].
      destruct (IH HF' Hs2 Hn2 Hd2) as [ks [Hm HR]].
      destruct (nonbool_kind_inv _ Hn1) as [k [Hk Hnb]].
      destruct (Hch (Some k) Hs1 Hd1 Hk) as [k' [E Hc]]. inversion E; subst k'.
      exists (k :: ks). simpl. split; [rewrite Hk, Hm; reflexivity|].
      constructor; [split; assumption | assumption].
  Qed.

  Lemma args_rel : forall args aks,
    Forall esound args -> forallb (side_ok C reg G L) args = true ->
    forallb (in_store st) (flat_map evars args) = true ->
    arg_kinds (map (kmap C reg G L) args) = Ok aks ->
    forallb (fun k => negb (is_none_k k)) aks = true ->
    forall vals, In vals (cartesian (map (ceval C reg st) args)) -> Forall2 arg_rel vals aks.
  Proof.
    induction args as [|a args IH]; intros aks HF Hs Hd Ha Hn vals Hin; simpl in *.
    - inversion Ha; subst. destruct Hin as [Hin|[]]. subst. constructor.
    - inversion HF as [|? ? Hch HF']; subst.
      apply andb_prop in Hs. destruct Hs as [Hs1 Hs2].
      rewrite forallb_app in Hd. apply andb_prop in Hd. destruct Hd as [Hd1 Hd2].
      apply in_flat_map in Hin. destruct Hin as [v [Hv Hin]]. apply in_map_iff in Hin.
      destruct Hin as [vals' [E Hin]]. subst vals.
      destruct (kmap C reg G L a) as [ka|e] eqn:Hk.
      + destruct (arg_kinds (map (kmap C reg G L) args)) as [aks'|e] eqn:Ha'; [|discriminate].
        inversion Ha; subst aks. simpl in Hn. apply andb_prop in Hn. destruct Hn as [Hn1 Hn2].
        destruct (Hch ka Hs1 Hd1 Hk) as [k [E Hc]]. subst ka.
        constructor; [exists k; split; [reflexivity | apply Hc; assumption] | eapply IH; eauto].
      + destruct e; try discriminate.
        destruct (arg_kinds (map (kmap C reg G L) args)) as [aks'|e] eqn:Ha'; [|discriminate].
        inversion Ha; subst aks. simpl in Hn. discriminate.
  Qed.

  Lemma minmax_sound : forall l,
    Forall esound l -> forallb (side_ok C reg G L) l = true ->
    forallb (fun ch => real_scalar_kind (kind_of (kmap C reg G L ch))) l = true ->
    forallb (in_store st) (flat_map evars l) = true ->
    forall c, In c (List.concat (map (ceval C reg st) l)) -> has_kind c (KScalar true) = true.
  Proof.
    induction l as [|ch l IH]; intros HF Hs Hn Hd c Hin; simpl in *; [contradiction|].
    inversion HF as [|? ? Hch HF']; subst.
    apply andb_prop in Hs. destruct Hs as [Hs1 Hs2].
    apply andb_prop in Hn. destruct Hn as [Hn1 Hn2].
    rewrite forallb_app in Hd. apply andb_prop in Hd. destruct Hd as [Hd1 Hd2].
    apply in_app_or in Hin. destruct Hin as [Hin|Hin]; [|eapply IH; eauto].
    destruct (kind_of (kmap C reg G L ch)) as [k|] eqn:E; simpl in Hn1; [|discriminate].
    apply kind_of_some in E. destruct (Hch (Some k) Hs1 Hd1 E) as [k' [E' Hc]]. inversion E'; subst k'.
    specialize (Hc c Hin).
    destruct k as [| |[]|?|?]; simpl in Hn1; try discriminate;
      destruct c; simpl in Hc; try discriminate; reflexivity.
  Qed.

  Theorem kmap_sound : forall e, esound e.
  Proof.
    induction e using expr_ind'; unfold esound; intros ko Hs Hd Hk; simpl in Hs, Hd, Hk.
    - (* EConst *)
      inversion Hk; subst. eexists; split; [reflexivity|]. intros c' [Hc|[]]. subst c'.
      destruct c; simpl in *; try discriminate; reflexivity.
    - (* EVar *)
      rewrite andb_true_r in Hd. unfold in_store in Hd.
      destruct (alookup st x) as [c|] eqn:Hx; [|discriminate].
      destruct (Hst x c Hx) as [k [Hl Hh]].
      assert (ko = Some k) as ->.
      { destruct (alookup G x) as [k0|]; [inversion Hl; subst; inversion Hk; reflexivity|].
        rewrite Hl in Hk. inversion Hk. reflexivity. }
      exists k. split; [reflexivity|]. simpl. rewrite Hx. intros c' [Hc|[]]. subst. assumption.
    - (* ESum *)
      apply andb_prop in Hs. destruct Hs as [Hs1 Hs2].
      destruct (children_rel l H Hs1 Hs2 Hd) as [ks [Hm HR]].
      rewrite Hm in Hk. simpl.
      eapply sum_kinds_sound; [exact HR | | exact Hk].
      simpl. intros c [Hc|[]]. auto.
    - (* EProd *)
      apply andb_prop in Hs. destruct Hs as [Hs0 Hs2]. apply andb_prop in Hs0. destruct Hs0 as [Hne Hs1].
      destruct (children_rel l H Hs1 Hs2 Hd) as [ks [Hm HR]].
      rewrite Hm in Hk. simpl.
      eapply prod_kinds_sound; [exact HR | | | exact Hk].
      + simpl. intros c [Hc|[]]. auto.
      + right. destruct l; [discriminate|]. destruct ks; [discriminate|]. discriminate.
    - (* EQuot *)
      apply andb_prop in Hs. destruct Hs as [Hs0 Hne]. apply andb_prop in Hs0. destruct Hs0 as [Hs1 Hs2].
      rewrite forallb_app in Hd. apply andb_prop in Hd. destruct Hd as [Hd1 Hd2].
      destruct (kmap C reg G L e1) as [k1|] eqn:E1; [|discriminate].
      destruct (IHe1 k1 Hs1 Hd1 E1) as [k1' [-> Hc1]].
      destruct (kmap C reg G L e2) as [k2|] eqn:E2; [|discriminate].
      destruct (IHe2 k2 Hs2 Hd2 E2) as [k2' [-> Hc2]].
      destruct (unify (Some k1') (Some k2')) as [k'|] eqn:Hu; [|discriminate].
      inversion Hk; subst k'.
      assert (Hni : ~ (k1' = KInt /\ k2' = KInt)).
      { intros [-> ->]. simpl in Hne. discriminate. }
      assert (exists k, ko = Some k) as [k ->].
      { destruct (unify_nonbool _ _ _ Hu) as [k [-> _]]. eauto. }
      exists k. split; [reflexivity|]. simpl. intros c Hc. apply in_lift2 in Hc.
      destruct Hc as [a [b [Ha [Hb Hc]]]].
      destruct (unify_join_sound 2 k1' k2' (Some k) a b c (or_intror (conj eq_refl Hni)) Hu
                                 (Hc1 a Ha) (Hc2 b Hb) Hc) as [k'' [E Hh]].
      inversion E; subst. assumption.
    - (* EPow *)
      apply andb_prop in Hs. destruct Hs as [Hs0 Hb]. apply andb_prop in Hs0. destruct Hs0 as [Hpf Hs1].
      rewrite Hpf in Hk.
      destruct e2; try discriminate. destruct c; try discriminate.
      rewrite forallb_app in Hd. apply andb_prop in Hd. destruct Hd as [Hd1 _].
      destruct (kmap C reg G L e1) as [k1|] eqn:E1; [|discriminate].
      destruct (IHe1 k1 Hs1 Hd1 E1) as [k1' [-> Hc1]].
      simpl (kmap C reg G L (EConst CInt)) in Hk. cbv beta iota in Hk.
      destruct (unify (Some k1') (Some (KScalar true))) as [k'|] eqn:Hu; [|discriminate].
      inversion Hk; subst k'.
      assert (exists k, ko = Some k) as [k ->].
      { destruct (unify_nonbool _ _ _ Hu) as [k [-> _]]. eauto. }
      exists k. split; [reflexivity|]. simpl. intros c Hc. apply in_lift2 in Hc.
      destruct Hc as [a [b [Ha [Hb' Hc]]]]. destruct Hb' as [Hb'|[]]. subst b.
      destruct (unify_pow_sound k1' (Some k) a c Hu (Hc1 a Ha) Hc) as [k'' [E Hh]].
      inversion E; subst. assumption.
    - (* ECmp *)
      inversion Hk; subst. exists KBool. split; [reflexivity|].
      apply andb_prop in Hs. destruct Hs as [Hs0 Hk2]. apply andb_prop in Hs0. destruct Hs0 as [Hs0 Hk1].
      apply andb_prop in Hs0. destruct Hs0 as [Hs1 Hs2].
      rewrite forallb_app in Hd. apply andb_prop in Hd. destruct Hd as [Hd1 Hd2].
      destruct (scalar_kind_inv _ Hk1) as [k1 [E1 S1]]. destruct (scalar_kind_inv _ Hk2) as [k2 [E2 S2]].
      destruct (IHe1 _ Hs1 Hd1 E1) as [k1' [E1' Hc1]]. inversion E1'; subst k1'.
      destruct (IHe2 _ Hs2 Hd2 E2) as [k2' [E2' Hc2]]. inversion E2'; subst k2'.
      simpl. intros c Hc. apply in_lift2 in Hc. destruct Hc as [a [b [Ha [Hb Hc]]]].
      rewrite (ccmp_scalar o k1 k2 a b c S1 S2 (Hc1 a Ha) (Hc2 b Hb) Hc). reflexivity.
    - (* EAnd *)
      apply logic_kinds_ok in Hk. subst. exists KBool. split; [reflexivity|].
      simpl. intros c [Hc|[]]. subst. reflexivity.
    - (* EOr *)
      apply logic_kinds_ok in Hk. subst. exists KBool. split; [reflexivity|].
      simpl. intros c [Hc|[]]. subst. reflexivity.
    - (* ENot *)
      destruct (kmap C reg G L e); [|discriminate]. inversion Hk; subst. exists KBool. split; [reflexivity|].
      simpl. intros c [Hc|[]]. subst. reflexivity.
    - (* EMin *)
      inversion Hk; subst. exists (KScalar true). split; [reflexivity|].
      apply andb_prop in Hs. destruct Hs as [Hs1 Hs2]. simpl.
      apply minmax_sound; assumption.
    - (* EMax *)
      inversion Hk; subst. exists (KScalar true). split; [reflexivity|].
      apply andb_prop in Hs. destruct Hs as [Hs1 Hs2]. simpl.
      apply minmax_sound; assumption.
    - (* ESub *)
      apply andb_prop in Hs. destruct Hs as [Hs0 Hki]. apply andb_prop in Hs0. destruct Hs0 as [Hs1 Hs2].
      rewrite forallb_app in Hd. apply andb_prop in Hd. destruct Hd as [Hd1 Hd2].
      destruct (kmap C reg G L e1) as [k1|] eqn:E1; [|discriminate].
      destruct (IHe1 k1 Hs1 Hd1 E1) as [k1' [-> Hc1]].
      destruct (realness (Some k1')) as [r|] eqn:Hr; [|discriminate].
      inversion Hk; subst. exists (KScalar r). split; [reflexivity|].
      destruct (scalar_kind_inv _ Hki) as [ki [Ei Si]].
      destruct (IHe2 _ Hs2 Hd2 Ei) as [ki' [Ei' Hci]]. inversion Ei'; subst ki'.
      simpl. intros c Hc. apply in_lift2 in Hc. destruct Hc as [a [b [Ha [Hb Hc]]]].
      eapply csub_sound; eauto.
    - (* ECall *)
      apply andb_prop in Hs. destruct Hs as [Hs1 Hco].
      unfold call_ok in Hco. unfold kcall in Hk.
      destruct (rlookup reg f) as [s|] eqn:Hf; [|discriminate].
      destruct (arg_kinds (map (kmap C reg G L) args)) as [aks|] eqn:Ha; [|discriminate].
      apply andb_prop in Hco. destruct Hco as [Hnn Hck].
      destruct (call_kinds_gen (result_kinds_strict C) s aks kwn) as [ks|] eqn:Hcs; [|discriminate].
      rewrite (call_kinds_check _ (need_arrays C) _ _ _ _ Hcs) in Hk.
      destruct ks as [|k [|k2 ks]]; try discriminate. inversion Hk; subst.
      exists k. split; [reflexivity|]. simpl. rewrite Hf.
      intros c Hc. apply in_flat_map in Hc. destruct Hc as [vals [Hv Hc]].
      apply in_flat_map in Hc. destruct Hc as [r [Hr Hc]].
      pose proof (args_rel args aks H Hs1 Hd Ha Hnn vals Hv) as HF.
      pose proof (call_sound C s vals aks kwn [k] r HF Hcs Hr) as Hh.
      inversion Hh as [|c0 k0 r0 ks0 Hck0 Hrest]; subst. inversion Hrest; subst.
      simpl in Hc. destruct Hc as [Hc|[]]. subst. assumption.
  Qed.
End MapperSound.

(* ------------------------------------------------------------------ statements preserve "every stored class has its kind" *)

Lemma alookup_aremove : forall {A} (st : list (string * A)) x y,
  alookup (aremove st x) y = if String.eqb x y then None else alookup st y.
Proof.
  induction st as [|[n v] st IH]; intros x y; simpl.
  - destruct (String.eqb x y); reflexivity.
  - destruct (String.eqb n x) eqn:E.
    + apply String.eqb_eq in E. subst n. rewrite IH. destruct (String.eqb x y); reflexivity.
    + simpl. rewrite IH. destruct (String.eqb n y) eqn:E2; [|reflexivity].
      apply String.eqb_eq in E2. subst n. rewrite String.eqb_sym in E. rewrite E. reflexivity.
Qed.

Lemma alookup_cset : forall st x c y,
  alookup (cset st x c) y = if String.eqb x y then Some c else alookup st y.
Proof.
  intros st x c y. unfold cset. simpl. rewrite alookup_aremove. destruct (String.eqb x y); reflexivity.
Qed.

Lemma alookup_cremove : forall xs st y c, alookup (cremove st xs) y = Some c -> alookup st y = Some c.
Proof.
  unfold cremove. induction xs as [|x xs IH]; intros st y c H; simpl in H; [assumption|].
  apply IH in H. rewrite alookup_aremove in H. destruct (String.eqb x y); [discriminate|assumption].
Qed.

Lemma store_ok_cset : forall T ph st x c k,
  store_ok T ph st -> lookup T ph x = Some (Some k) -> has_kind c k = true -> store_ok T ph (cset st x c).
Proof.
  intros T ph st x c k Hst Hl Hh y c' Hy. rewrite alookup_cset in Hy.
  destruct (String.eqb x y) eqn:E.
  - apply String.eqb_eq in E. subst y. inversion Hy; subst. eauto.
  - apply Hst. assumption.
Qed.

Lemma store_ok_cremove : forall T ph st xs, store_ok T ph st -> store_ok T ph (cremove st xs).
Proof. intros T ph st xs Hst y c Hy. apply Hst. eapply alookup_cremove. eassumption. Qed.

Lemma entry_le_inv : forall T ph x k, entry_le T ph x k = true ->
  exists kx, lookup T ph x = Some (Some kx) /\ kind_le k kx = true.
Proof.
  intros T ph x k H. unfold entry_le in H. destruct (lookup T ph x) as [[kx|]|]; try discriminate. eauto.
Qed.

Lemma store_ok_loops : forall T ph loops st,
  forallb (fun i => entry_le T ph i KInt) loops = true -> store_ok T ph st ->
  store_ok T ph (fold_left (fun s i => cset s i CInt) loops st).
Proof.
  induction loops as [|i loops IH]; intros st Hl Hst; simpl in *; [assumption|].
  apply andb_prop in Hl. destruct Hl as [Hi Hl]. apply IH; [assumption|].
  destruct (entry_le_inv _ _ _ _ Hi) as [kx [Hx Hle]].
  apply store_ok_cset with (k := kx); [assumption | assumption |].
  apply kind_le_sound with (a := KInt); [assumption | reflexivity].
Qed.

Lemma cset_many_ok : forall T ph xs ks r st,
  entries_le T ph xs ks = true -> hks r ks -> store_ok T ph st -> store_ok T ph (cset_many st xs r).
Proof.
  induction xs as [|x xs IH]; intros ks r st He Hr Hst; simpl in *.
  - assumption.
  - destruct ks as [|k ks]; [discriminate|]. inversion Hr as [|c k' r' ks' Hck Hr']; subst.
    apply andb_prop in He. destruct He as [Hx He].
    eapply IH; eauto.
    destruct (entry_le_inv _ _ _ _ Hx) as [kx [Hlx Hle]].
    apply store_ok_cset with (k := kx); [assumption | assumption |].
    apply kind_le_sound with (a := k); assumption.
Qed.

Lemma store_ok_sound : forall T ph st, store_ok T ph st -> store_sound (sg T) (local_of T ph) st.
Proof. intros T ph st H. exact H. Qed.

Lemma cexec_sound : forall C reg T ph s st st',
  strict_stmt C reg T ph s = true -> store_ok T ph st -> defined st s = true ->
  In st' (cexec C reg st s) -> store_ok T ph st'.
Proof.
  intros C reg T ph s st st' Hs Hst Hd Hin. unfold cexec in Hin.
  destruct Hin as [Hin|Hin]; [subst; assumption|].
  destruct s as [x has_sub rhs loops | xs f args kwn |]; simpl in Hs, Hd.
  - destruct has_sub.
    + destruct Hin as [Hin|[]]. subst. apply store_ok_cremove. assumption.
    + simpl in Hs. apply andb_prop in Hs. destruct Hs as [Hs Hside].
      apply andb_prop in Hs. destruct Hs as [Hloops Hk].
      apply in_map_iff in Hin. destruct Hin as [c [E Hc]]. subst st'.
      set (st1 := fold_left (fun s i => cset s i CInt) loops st) in *.
      assert (Hst1 : store_ok T ph st1) by (apply store_ok_loops; assumption).
      destruct (kind_of (kmap C reg (sg T) (local_of T ph) rhs)) as [k|] eqn:Ek; [|discriminate].
      apply kind_of_some in Ek.
      destruct (kmap_sound C reg (sg T) (local_of T ph) st1 (store_ok_sound _ _ _ Hst1) rhs (Some k) Hside Hd Ek)
        as [k' [E Hsound]].
      inversion E; subst k'.
      destruct (entry_le_inv _ _ _ _ Hk) as [kx [Hlx Hle]].
      apply store_ok_cremove. apply store_ok_cset with (k := kx); [assumption | assumption |].
      apply kind_le_sound with (a := k); [assumption | apply Hsound; assumption].
  - apply andb_prop in Hs. destruct Hs as [Hs Hco]. apply andb_prop in Hs. destruct Hs as [Hk Hside].
    destruct (kcall C reg f (map (kmap C reg (sg T) (local_of T ph)) args) kwn) as [ks|] eqn:Ek; [|discriminate].
    unfold call_ok in Hco. unfold kcall in Ek.
    destruct (rlookup reg f) as [s0|] eqn:Hf; [|discriminate].
    destruct (arg_kinds (map (kmap C reg (sg T) (local_of T ph)) args)) as [aks|] eqn:Ha; [|discriminate].
    apply andb_prop in Hco. destruct Hco as [Hnn Hck].
    destruct (call_kinds_gen (result_kinds_strict C) s0 aks kwn) as [ks'|] eqn:Hcs; [|discriminate].
    rewrite (call_kinds_check _ (need_arrays C) _ _ _ _ Hcs) in Ek. inversion Ek; subst ks'.
    apply in_flat_map in Hin. destruct Hin as [vals [Hv Hin]].
    apply in_flat_map in Hin. destruct Hin as [r [Hr Hin]].
    destruct (Nat.eqb (List.length r) (List.length xs)); [|contradiction].
    destruct Hin as [Hin|[]]. subst st'.
    assert (HF : Forall (esound C reg (sg T) (local_of T ph) st) args).
    { apply Forall_forall. intros e _. apply kmap_sound. apply store_ok_sound. assumption. }
    pose proof (args_rel C reg (sg T) (local_of T ph) st args aks HF Hside Hd Ha Hnn vals Hv) as HR.
    pose proof (call_sound C s0 vals aks kwn ks r HR Hcs Hr) as Hh.
    eapply cset_many_ok; eauto.
  - contradiction.
Qed.

Lemma alookup_filter : forall (keep : string -> bool) (st : cstore) x,
  alookup (keep_persistent keep st) x = if keep x then alookup st x else None.
Proof.
  intros keep st x. unfold keep_persistent. induction st as [|[n v] st IH]; simpl.
  - destruct (keep x); reflexivity.
  - destruct (keep n) eqn:Kn; simpl.
    + destruct (String.eqb n x) eqn:E.
      * apply String.eqb_eq in E. subst. rewrite Kn. reflexivity.
      * exact IH.
    + rewrite IH. destruct (String.eqb n x) eqn:E; [|reflexivity].
      apply String.eqb_eq in E. subst. rewrite Kn. reflexivity.
Qed.

(* a name the interpreter keeps across steps has the same entry in every phase (it lives in
   the global table) *)
Definition phase_indep (T : skt) (keep : string -> bool) : Prop :=
  forall x, keep x = true -> forall p q, lookup T p x = lookup T q x.

Theorem reach_sound : forall C reg D keep T ph0 st0 ph st,
  strict C reg D T = true -> phase_indep T keep -> store_ok T ph0 st0 ->
  creach C reg D keep ph0 st0 ph st -> store_ok T ph st.
Proof.
  intros C reg D keep T ph0 st0 ph st Hs Hpi H0 Hr.
  induction Hr as [ph st | ph0 st0 ph st stmts s st' Hr IH HD Hin Hdef Hex | ph0 st0 ph st ph' Hr IH].
  - assumption.
  - specialize (IH H0). unfold strict in Hs. rewrite forallb_forall in Hs.
    specialize (Hs (ph, stmts) HD). simpl in Hs. rewrite forallb_forall in Hs.
    eapply cexec_sound; eauto.
  - specialize (IH H0). intros x c Hx. rewrite alookup_filter in Hx.
    destruct (keep x) eqn:Kx; [|discriminate].
    destruct (IH x c Hx) as [k [Hl Hh]]. exists k. split; [|assumption].
    rewrite (Hpi x Kx ph' ph). assumption.
Qed.
