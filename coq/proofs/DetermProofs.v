(* C15 -- lemmas about coq/model/Determ.v.
   Part A  String.leb is a total order; sorted() returns the same list for every permutation
           of its input (keys injective on the input).
   Part B  S1 (self-dependency temporaries): sorted shape = permutation invariant; the unsorted
           shape is refuted by a two-variable statement.
   Part C  S2 (last-use table): equal as a finite map for every iteration order.
   Part D  S3 / S3' (release calls).
   Part E  S5 (default index variables).
   Part F  S4 and the composed pipelines (uses C05's lower_perm). *)
From Coq Require Import List String Ascii Bool Arith NArith Lia Permutation Sorted.
Import ListNotations.
From Dagrt Require Import Simplify DagAst DagAstProofs Unify KindInfer Determ.
Open Scope string_scope.
Open Scope list_scope.

(* ====================================================================== Part A *)

Lemma acmp_eq a b : Ascii.compare a b = Eq <-> a = b.
Proof.
  unfold Ascii.compare. rewrite N.compare_eq_iff. split; [|intros ->; reflexivity].
  intros H. rewrite <- (ascii_N_embedding a), <- (ascii_N_embedding b), H. reflexivity.
Qed.

Lemma acmp_lt a b : Ascii.compare a b = Lt <-> (N_of_ascii a < N_of_ascii b)%N.
Proof. unfold Ascii.compare. apply N.compare_lt_iff. Qed.

Lemma acmp_gt a b : Ascii.compare a b = Gt <-> (N_of_ascii b < N_of_ascii a)%N.
Proof. unfold Ascii.compare. apply N.compare_gt_iff. Qed.

Lemma acmp_refl a : Ascii.compare a a = Eq.
Proof. apply acmp_eq. reflexivity. Qed.

Lemma scompare_trans : forall a b c,
  String.compare a b <> Gt -> String.compare b c <> Gt -> String.compare a c <> Gt.
Proof.
  induction a as [|x a IH]; intros [|y b] [|z c]; cbn; try congruence.
  destruct (Ascii.compare x y) eqn:Exy; destruct (Ascii.compare y z) eqn:Eyz; try congruence.
  - apply acmp_eq in Exy. apply acmp_eq in Eyz. subst. rewrite acmp_refl. apply IH.
  - apply acmp_eq in Exy. subst. rewrite Eyz. congruence.
  - apply acmp_eq in Eyz. subst. rewrite Exy. congruence.
  - apply acmp_lt in Exy. apply acmp_lt in Eyz.
    assert (H : Ascii.compare x z = Lt) by (apply acmp_lt; eapply N.lt_trans; eassumption).
    rewrite H. congruence.
Qed.

Lemma leb_trans a b c : String.leb a b = true -> String.leb b c = true -> String.leb a c = true.
Proof.
  unfold String.leb. intros H1 H2.
  pose proof (scompare_trans a b c) as T.
  destruct (String.compare a b); destruct (String.compare b c); destruct (String.compare a c);
    try reflexivity; try discriminate; exfalso; apply T; congruence.
Qed.

Lemma leb_refl a : String.leb a a = true.
Proof. destruct (String.leb_total a a); assumption. Qed.

Section SortBy.
  Context {A : Type}.
  Variable key : A -> string.

  Definition kle (a b : A) : Prop := String.leb (key a) (key b) = true.

  Lemma insert_by_perm x l : Permutation (insert_by key x l) (x :: l).
  Proof.
    induction l as [|y l IH]; cbn; [reflexivity|].
    destruct (String.leb (key x) (key y)); [reflexivity|].
    rewrite IH. apply perm_swap.
  Qed.

  Lemma sort_by_perm l : Permutation (sort_by key l) l.
  Proof.
    induction l as [|x l IH]; cbn; [reflexivity|].
    fold (sort_by key l). rewrite insert_by_perm, IH. reflexivity.
  Qed.

  Lemma insert_by_sorted x l : StronglySorted kle l -> StronglySorted kle (insert_by key x l).
  Proof.
    induction l as [|y l IH]; intros S; cbn.
    - constructor; constructor.
    - destruct (String.leb (key x) (key y)) eqn:E.
      + constructor; [assumption|]. constructor; [exact E|].
        apply StronglySorted_inv in S. destruct S as [_ F].
        rewrite Forall_forall in *. intros z Hz. unfold kle. eapply leb_trans; [exact E|apply F, Hz].
      + apply StronglySorted_inv in S. destruct S as [S F].
        constructor; [apply IH, S|].
        rewrite Forall_forall in *. intros z Hz.
        apply (Permutation_in _ (insert_by_perm x l)) in Hz. destruct Hz as [<-|Hz].
        * unfold kle. destruct (String.leb_total (key x) (key y)); congruence.
        * apply F, Hz.
  Qed.

  Lemma sort_by_sorted l : StronglySorted kle (sort_by key l).
  Proof.
    induction l as [|x l IH]; cbn; [constructor|]. apply insert_by_sorted. exact IH.
  Qed.

  (* a sorted list is determined by its elements when equal keys mean equal elements *)
  Lemma sorted_unique : forall l1 l2,
    StronglySorted kle l1 -> StronglySorted kle l2 -> Permutation l1 l2 ->
    (forall x y, In x l1 -> In y l1 -> key x = key y -> x = y) -> l1 = l2.
  Proof.
    induction l1 as [|x l1 IH]; intros l2 S1 S2 P Inj.
    - apply Permutation_nil in P. subst. reflexivity.
    - destruct l2 as [|y l2]; [apply Permutation_sym, Permutation_nil in P; discriminate|].
      apply StronglySorted_inv in S1. destruct S1 as [S1 F1].
      apply StronglySorted_inv in S2. destruct S2 as [S2 F2].
      rewrite Forall_forall in F1, F2.
      assert (Exy : x = y).
      { assert (Hy : In y (x :: l1)) by (eapply Permutation_in; [apply Permutation_sym, P|left; reflexivity]).
        assert (Hx : In x (y :: l2)) by (eapply Permutation_in; [apply P|left; reflexivity]).
        destruct Hy as [Hy|Hy]; [assumption|]. destruct Hx as [Hx|Hx]; [congruence|].
        apply Inj; [left; reflexivity|right; assumption|].
        apply String.leb_antisym; [apply F1, Hy|apply F2, Hx]. }
      subst y. f_equal. apply IH; try assumption.
      + eapply Permutation_cons_inv. exact P.
      + intros a b Ha Hb. apply Inj; right; assumption.
  Qed.

  Theorem sort_by_perm_eq l l' :
    Permutation l l' -> (forall x y, In x l -> In y l -> key x = key y -> x = y) ->
    sort_by key l = sort_by key l'.
  Proof.
    intros P Inj. apply sorted_unique; try apply sort_by_sorted.
    - rewrite !sort_by_perm. exact P.
    - intros x y Hx Hy. apply Inj; eapply Permutation_in; try apply sort_by_perm; assumption.
  Qed.

  (* sorting two lists that are related element by element, with equal keys *)
  Section Rel.
    Context {B : Type}.
    Variable keyB : B -> string.
    Variable R : A -> B -> Prop.
    Hypothesis Rkey : forall a b, R a b -> key a = keyB b.

    Lemma insert_by_Forall2 a b l l' :
      R a b -> Forall2 R l l' -> Forall2 R (insert_by key a l) (insert_by keyB b l').
    Proof.
      intros Hab F. induction F as [|x y l l' Hxy F IH]; cbn.
      - constructor; [assumption|constructor].
      - rewrite <- (Rkey a b Hab), <- (Rkey x y Hxy).
        destruct (String.leb (key a) (key x)).
        + constructor; [assumption|]. constructor; assumption.
        + constructor; assumption.
    Qed.

    Lemma sort_by_Forall2 l l' : Forall2 R l l' -> Forall2 R (sort_by key l) (sort_by keyB l').
    Proof.
      intros F. induction F as [|x y l l' Hxy F IH]; cbn; [constructor|].
      apply insert_by_Forall2; assumption.
    Qed.
  End Rel.
End SortBy.

Theorem ssort_perm_eq l l' : Permutation l l' -> ssort l = ssort l'.
Proof. intros P. apply sort_by_perm_eq; [exact P|]. intros x y _ _ E. exact E. Qed.

Lemma ssort_perm l : Permutation (ssort l) l.
Proof. apply sort_by_perm. Qed.

Example ssort_example : ssort ["b"; "<state>y"; "a"; "temp_a"] = ["<state>y"; "a"; "b"; "temp_a"].
Proof. reflexivity. Qed.

(* ====================================================================== Part B: S1 *)

Section SelfDepProofs.
  Variable G : Type.
  Variable gen : G -> string -> string * G.

  (* sorted shape: the result is a function of the SET read_and_written *)
  Theorem selfdep_stmt_sorted_perm it it' st gv gi :
    Permutation it it' ->
    selfdep_stmt G gen true it st gv gi = selfdep_stmt G gen true it' st gv gi.
  Proof.
    intros P. unfold selfdep_stmt.
    destruct it as [|a it]; destruct it' as [|b it'].
    - reflexivity.
    - apply Permutation_nil in P. discriminate.
    - apply Permutation_sym, Permutation_nil in P. discriminate.
    - rewrite (ssort_perm_eq _ _ P). reflexivity.
  Qed.

  Theorem selfdep_leaves_sorted ord ord' :
    (forall i l, Permutation (ord i l) (ord' i l)) ->
    forall ls gv gi,
      selfdep_leaves G gen true ord ls gv gi = selfdep_leaves G gen true ord' ls gv gi.
  Proof.
    intros H. induction ls as [|st ls IH]; intros gv gi; cbn [selfdep_leaves]; [reflexivity|].
    rewrite (selfdep_stmt_sorted_perm _ _ st gv gi (H (s_id st) (sinter (s_reads st) (s_writes st)))).
    destruct (selfdep_stmt G gen true (ord' (s_id st) (sinter (s_reads st) (s_writes st))) st gv gi)
      as [[o gv1] gi1].
    rewrite IH. reflexivity.
  Qed.

  Variable ginit : list string -> G.
  Theorem selfdep_pass_sorted ord ord' ls :
    (forall i l, Permutation (ord i l) (ord' i l)) ->
    selfdep_pass G gen ginit true ord ls = selfdep_pass G gen ginit true ord' ls.
  Proof. intros H. unfold selfdep_pass. rewrite (selfdep_leaves_sorted ord ord' H). reflexivity. Qed.
End SelfDepProofs.

(* `(a, b) <- <func>g(a, b)`: both assignees are read and written *)
Definition wit_pair : sstmt := mkS "s" ["a"; "b"] ["a"; "b"] ["d"].
Definition wit_gv : pgen := pg_init ["a"; "b"].
Definition wit_gi : pgen := pg_init ["s"; "d"].

(* non-vacuity: what the sorted shape produces for the witness *)
Example selfdep_sorted_example :
  fst (fst (selfdep_stmt pgen pg_gen true ["b"; "a"] wit_pair wit_gv wit_gi)) =
  [mkS "temp" ["a"] ["temp_a"] ["d"]; mkS "temp_0" ["b"] ["temp_b"] ["d"];
   mkS "s" ["temp_a"; "temp_b"] ["a"; "b"] ["d"; "temp"; "temp_0"]].
Proof. vm_compute. reflexivity. Qed.

(* unsorted shape: two iteration orders of the same frozenset, two different statement lists
   (the temporaries swap places and the ids `temp`, `temp_0` swap owners) *)
Theorem selfdep_unsorted_refuted :
  exists it it' st gv gi,
    Permutation it it' /\
    fst (fst (selfdep_stmt pgen pg_gen false it st gv gi)) <>
    fst (fst (selfdep_stmt pgen pg_gen false it' st gv gi)).
Proof.
  exists ["a"; "b"], ["b"; "a"], wit_pair, wit_gv, wit_gi. split; [apply perm_swap|].
  vm_compute. discriminate.
Qed.

(* ====================================================================== Part C: S2 *)

Lemma lkey_eqb_eq a b : lkey_eqb a b = true <-> a = b.
Proof.
  destruct a as [a1 a2], b as [b1 b2]. unfold lkey_eqb. cbn.
  rewrite andb_true_iff, !String.eqb_eq. split; [intros [-> ->]; reflexivity|].
  intros E. injection E as -> ->. split; reflexivity.
Qed.

Lemma lkey_eqb_refl a : lkey_eqb a a = true.
Proof. apply lkey_eqb_eq. reflexivity. Qed.

Lemma lget_lset k v d k' :
  lget (lset k v d) k' = if lkey_eqb k' k then Some v else lget d k'.
Proof.
  induction d as [|[k0 v0] d IH]; cbn.
  - reflexivity.
  - destruct (lkey_eqb k k0) eqn:E; cbn.
    + apply lkey_eqb_eq in E. subst k0. destruct (lkey_eqb k' k); reflexivity.
    + rewrite IH. destruct (lkey_eqb k' k0) eqn:E0; [|reflexivity].
      apply lkey_eqb_eq in E0. subst k0.
      destruct (lkey_eqb k' k) eqn:E1; [|reflexivity].
      apply lkey_eqb_eq in E1. subst k'. rewrite lkey_eqb_refl in E. discriminate.
Qed.

(* two dicts with the same items (their insertion orders may differ) *)
Definition lequiv (d d' : ltable) : Prop := forall k, lget d k = lget d' k.

Lemma lget_last_use_stmt p it sid : forall d k,
  lget (last_use_stmt p it sid d) k =
  if existsb (fun v => lkey_eqb k (v, p)) it then Some sid else lget d k.
Proof.
  unfold last_use_stmt. induction it as [|v it IH]; intros d k; cbn; [reflexivity|].
  rewrite IH, lget_lset.
  destruct (lkey_eqb k (v, p)); cbn; [|reflexivity].
  destruct (existsb (fun v0 => lkey_eqb k (v0, p)) it); reflexivity.
Qed.

Lemma existsb_perm {A} (f : A -> bool) l l' : Permutation l l' -> existsb f l = existsb f l'.
Proof.
  intros P. induction P; cbn.
  - reflexivity.
  - rewrite IHP. reflexivity.
  - destruct (f x), (f y); reflexivity.
  - congruence.
Qed.

(* the table as a finite map does not depend on the order in which one statement's
   variables are visited *)
Theorem last_use_stmt_perm p it it' sid d d' :
  Permutation it it' -> lequiv d d' ->
  lequiv (last_use_stmt p it sid d) (last_use_stmt p it' sid d').
Proof.
  intros P E k. rewrite !lget_last_use_stmt, (existsb_perm _ _ _ P), (E k). reflexivity.
Qed.

Theorem last_use_phase_perm ord ord' p :
  (forall i l, Permutation (ord i l) (ord' i l)) ->
  forall ls d d', lequiv d d' -> lequiv (last_use_phase ord p ls d) (last_use_phase ord' p ls d').
Proof.
  intros H. induction ls as [|st ls IH]; intros d d' E; cbn [last_use_phase]; [exact E|].
  apply IH. apply last_use_stmt_perm; [apply H|exact E].
Qed.

Theorem last_use_all_perm ord ord' :
  (forall p i l, Permutation (ord p i l) (ord' p i l)) ->
  forall fs d d', lequiv d d' -> lequiv (last_use_all ord fs d) (last_use_all ord' fs d').
Proof.
  intros H. induction fs as [|[p ls] fs IH]; intros d d' E; cbn [last_use_all]; [exact E|].
  apply IH. apply last_use_phase_perm; [apply H|exact E].
Qed.

(* non-vacuity, and what is NOT invariant: the dict's insertion order (never observed: the
   generator consults the table by key only; harness/tr/c15.py checks that syntactically) *)
Example last_use_example :
  let st := mkS "s" ["a"] ["b"] [] in
  last_use_phase (fun _ l => l) "main" [st] [] = [(("a", "main"), "s"); (("b", "main"), "s")] /\
  last_use_phase (fun _ l => rev l) "main" [st] [] = [(("b", "main"), "s"); (("a", "main"), "s")] /\
  lequiv (last_use_phase (fun _ l => l) "main" [st] []) (last_use_phase (fun _ l => rev l) "main" [st] []).
Proof.
  cbv zeta. split; [reflexivity|]. split; [reflexivity|].
  apply last_use_phase_perm; [|intro k; reflexivity].
  intros i l. apply Permutation_rev.
Qed.

(* ====================================================================== Part D: S3, S3' *)

Section DeinitProofs.
  Variable is_state : string -> bool.

  Lemma deinit_loop_ext T T' p tbl tbl' sid :
    table_equiv T T' -> lequiv tbl tbl' ->
    forall it, deinit_loop is_state T p tbl sid it = deinit_loop is_state T' p tbl' sid it.
  Proof.
    intros ET EL. induction it as [|v it IH]; cbn [deinit_loop]; [reflexivity|].
    rewrite (ET (kkey is_state p v)), (EL (v, p)), IH. reflexivity.
  Qed.

  (* sorted shape: the release calls after a statement are a function of the SET of its
     variables, of the kind table as a map and of the last-use table as a map *)
  Theorem deinit_calls_sorted_perm T T' p tbl tbl' sid it it' :
    table_equiv T T' -> lequiv tbl tbl' -> Permutation it it' ->
    deinit_calls is_state true T p tbl sid it = deinit_calls is_state true T' p tbl' sid it'.
  Proof.
    intros ET EL P. unfold deinit_calls. rewrite (ssort_perm_eq _ _ P).
    apply deinit_loop_ext; assumption.
  Qed.

  (* ---- the kind table: a dict has no two entries with one key ---- *)

  Lemma key_eqb_eq (a b : key) : key_eqb a b = true <-> a = b.
  Proof.
    destruct a as [[p|] x], b as [[q|] y]; unfold key_eqb; cbn;
      rewrite ?andb_true_iff, ?String.eqb_eq.
    - split; [intros [-> ->]; reflexivity|]. intros E. injection E as -> ->. split; reflexivity.
    - split; discriminate.
    - split; discriminate.
    - split; [intros ->; reflexivity|]. intros E. injection E as ->. reflexivity.
  Qed.

  Lemma tfind_In : forall (T : table) k v,
    NoDup (map fst T) -> (In (k, v) T <-> tfind T k = Some v).
  Proof.
    induction T as [|[k0 v0] T IH]; intros k v ND; cbn.
    - split; [tauto|discriminate].
    - cbn in ND. apply NoDup_cons_iff in ND. destruct ND as [Nin ND].
      destruct (key_eqb k k0) eqn:E.
      + apply key_eqb_eq in E. subst k0. split.
        * intros [H|H]; [congruence|]. exfalso. apply Nin. apply in_map_iff. exists (k, v). auto.
        * intros H. left. congruence.
      + split.
        * intros [H|H]; [|apply IH; assumption].
          injection H as -> ->. assert (key_eqb k k = true) by (apply key_eqb_eq; reflexivity). congruence.
        * intros H. right. apply IH; assumption.
  Qed.

  Lemma table_equiv_perm (T T' : table) :
    NoDup (map fst T) -> NoDup (map fst T') -> table_equiv T T' -> Permutation T T'.
  Proof.
    intros ND ND' E. apply NoDup_Permutation.
    - eapply NoDup_map_inv. exact ND.
    - eapply NoDup_map_inv. exact ND'.
    - intros [k v]. rewrite (tfind_In T k v ND), (tfind_In T' k v ND'), (E k). tauto.
  Qed.

  Lemma phase_syms_In (T : table) p x k :
    In (x, k) (phase_syms T p) <-> In ((Some p, x), k) T.
  Proof.
    unfold phase_syms. rewrite in_flat_map. split.
    - intros [[[[q|] y] k0] [Hin H]]; cbn in H; [|contradiction].
      destruct (String.eqb p q) eqn:E; [|contradiction].
      apply String.eqb_eq in E. subst q. destruct H as [H|[]]. injection H as -> ->. exact Hin.
    - intros Hin. exists ((Some p, x), k). split; [exact Hin|]. cbn.
      rewrite String.eqb_refl. left. reflexivity.
  Qed.

  Lemma final_deinit_ext ea T T' p tbl tbl' :
    NoDup (map fst T) -> NoDup (map fst T') -> table_equiv T T' -> lequiv tbl tbl' ->
    final_deinit ea T p tbl = final_deinit ea T' p tbl'.
  Proof.
    intros ND ND' ET EL. unfold final_deinit.
    assert (ES : sort_by fst (phase_syms T p) = sort_by fst (phase_syms T' p)).
    { apply sort_by_perm_eq.
      - unfold phase_syms. apply Permutation_flat_map. apply table_equiv_perm; assumption.
      - intros [x k1] [y k2] H1 H2 E. cbn in E. subst y.
        apply phase_syms_In in H1. apply phase_syms_In in H2.
        apply (tfind_In T _ _ ND) in H1. apply (tfind_In T _ _ ND) in H2. congruence. }
    rewrite ES. destruct ea; [reflexivity|].
    apply filter_ext. intros [x k]. cbn. rewrite (EL (x, p)). reflexivity.
  Qed.
End DeinitProofs.

(* three user-type temporaries whose last use is the statement "s" *)
Definition wit_T : table :=
  [((Some "main", "a"), Some (KUser "y")); ((Some "main", "b"), Some (KUser "y"));
   ((Some "main", "n"), Some (KScalar true))].
Definition wit_tbl : ltable :=
  [(("a", "main"), "s"); (("b", "main"), "s"); (("n", "main"), "s")].
Definition no_state (_ : string) : bool := false.

Example deinit_sorted_example :
  deinit_calls no_state true wit_T "main" wit_tbl "s" ["n"; "b"; "a"] =
  DOk [("a", Some (KUser "y")); ("b", Some (KUser "y")); ("n", Some (KScalar true))].
Proof. vm_compute. reflexivity. Qed.

Theorem deinit_unsorted_refuted :
  exists it it' T p tbl sid,
    Permutation it it' /\
    deinit_calls no_state false T p tbl sid it <> deinit_calls no_state false T p tbl sid it'.
Proof.
  exists ["a"; "b"], ["b"; "a"], wit_T, "main", wit_tbl, "s". split; [apply perm_swap|].
  vm_compute. discriminate.
Qed.

Example final_deinit_example :
  final_deinit false wit_T "main" [(("a", "main"), "s")] = [("b", Some (KUser "y")); ("n", Some (KScalar true))] /\
  final_deinit false (rev wit_T) "main" [(("a", "main"), "s")] = [("b", Some (KUser "y")); ("n", Some (KScalar true))].
Proof. split; vm_compute; reflexivity. Qed.

(* ====================================================================== Part E: S5 *)

(* repaired shape: the default index variables of an ArrayType depend on the type only *)
Theorem index_vars_history_independent h h' n e :
  fst (index_vars false h n e) = fst (index_vars false h' n e).
Proof. reflexivity. Qed.

Example index_vars_example :
  index_vars false 7 2 (FStruct [FArray 1 FBuiltin; FPointer (FArray 2 (FArray 1 FBuiltin))]) =
  (["i4"; "i5"], 7).
Proof. vm_compute. reflexivity. Qed.

(* class-level counter: an ArrayType built earlier in the process changes the names *)
Theorem index_vars_counter_refuted :
  exists h h' n e, fst (index_vars true h n e) <> fst (index_vars true h' n e).
Proof. exists 0, 1, 1, FBuiltin. vm_compute. discriminate. Qed.

(* ====================================================================== Part F: pipelines *)

(* ---- C05's lowering does not see the iteration order of the depends_on sets ---- *)

Lemma lookup_dep_equiv s1 s2 : Forall2 dep_equiv s1 s2 -> forall i,
  match DagAst.lookup s1 i, DagAst.lookup s2 i with
  | Some a, Some b => dep_equiv a b
  | None, None => True
  | _, _ => False
  end.
Proof.
  intros F i. induction F as [|a b s1 s2 Hab F IH]; cbn [DagAst.lookup]; [exact I|].
  destruct (DagAst.lookup s1 i) as [a'|], (DagAst.lookup s2 i) as [b'|]; try contradiction; [exact IH|].
  destruct Hab as [Es R]. rewrite <- Es.
  destruct (Nat.eqb (sid a) i); [split; assumption|exact I].
Qed.

Lemma mem_perm x l l' : Permutation l l' -> mem x l = mem x l'.
Proof. apply existsb_perm. Qed.

Lemma dep_equiv_sorted_deps a b : dep_equiv a b -> sorted_set (sdeps a) = sorted_set (sdeps b).
Proof.
  intros [_ [_ [_ [_ P]]]]. apply sorted_set_ext. intros x.
  split; apply Permutation_in; [exact P|apply Permutation_sym, P].
Qed.

Lemma topo_dep_equiv s1 s2 : Forall2 dep_equiv s1 s2 ->
  forall fuel stack visiting visited order,
  topo s1 fuel stack visiting visited order = topo s2 fuel stack visiting visited order.
Proof.
  intros F. induction fuel as [|f IH]; intros stack visiting visited order; cbn [topo]; [reflexivity|].
  destruct stack as [|s rest]; [reflexivity|].
  destruct (mem s visited); [destruct (mem s visiting); apply IH|].
  pose proof (lookup_dep_equiv s1 s2 F s) as L.
  destruct (DagAst.lookup s1 s) as [a|], (DagAst.lookup s2 s) as [b|]; try contradiction; [|reflexivity].
  rewrite (dep_equiv_sorted_deps a b L). apply IH.
Qed.

Lemma all_deps_dep_equiv s1 s2 : Forall2 dep_equiv s1 s2 -> Permutation (all_deps s1) (all_deps s2).
Proof.
  intros F. unfold all_deps. induction F as [|a b s1 s2 Hab F IH]; cbn [flat_map]; [reflexivity|].
  apply Permutation_app; [apply Hab|exact IH].
Qed.

Lemma map_sid_dep_equiv s1 s2 : Forall2 dep_equiv s1 s2 -> map sid s1 = map sid s2.
Proof.
  intros F. induction F as [|a b s1 s2 Hab F IH]; cbn [map]; [reflexivity|].
  destruct Hab as [-> _]. rewrite IH. reflexivity.
Qed.

Lemma roots_dep_equiv s1 s2 : Forall2 dep_equiv s1 s2 -> roots s1 = roots s2.
Proof.
  intros F. unfold roots. rewrite (map_sid_dep_equiv s1 s2 F). f_equal.
  apply filter_ext. intros i. rewrite (mem_perm i _ _ (all_deps_dep_equiv s1 s2 F)). reflexivity.
Qed.

Lemma deps_sum_dep_equiv s1 s2 : Forall2 dep_equiv s1 s2 ->
  fold_right (fun st n => S (List.length (sdeps st)) + n) 0 s1 =
  fold_right (fun st n => S (List.length (sdeps st)) + n) 0 s2.
Proof.
  intros F. induction F as [|a b s1 s2 Hab F IH]; cbn [fold_right]; [reflexivity|].
  destruct Hab as [_ [_ [_ [_ P]]]]. rewrite (Permutation_length P), IH. reflexivity.
Qed.

Lemma main_block_dep_equiv skip s1 s2 : Forall2 dep_equiv s1 s2 ->
  forall order, main_block skip s1 order = main_block skip s2 order.
Proof.
  intros F. induction order as [|i r IH]; cbn [main_block]; [reflexivity|].
  pose proof (lookup_dep_equiv s1 s2 F i) as L.
  destruct (DagAst.lookup s1 i) as [a|], (DagAst.lookup s2 i) as [b|]; try contradiction; [|reflexivity].
  rewrite IH. destruct L as [Es [Eg [El [En _]]]].
  unfold wrap, wrap_g, guard_node. rewrite Es, Eg, El, En. reflexivity.
Qed.

Theorem lower_dep_equiv r g skip s1 s2 : Forall2 dep_equiv s1 s2 ->
  lower r g skip s1 = lower r g skip s2.
Proof.
  intros F. unfold lower, topo_order, topo_fuel.
  rewrite (roots_dep_equiv s1 s2 F), (deps_sum_dep_equiv s1 s2 F), (topo_dep_equiv s1 s2 F).
  destruct (topo s2 _ _ _ _ _) as [order| | |]; cbn [lbind]; try reflexivity.
  rewrite (main_block_dep_equiv skip s1 s2 F). reflexivity.
Qed.

Lemma lower_same_phase r g skip a b :
  same_phase a b -> NoDup (map sid (ph_stmts a)) ->
  lower r g skip (ph_stmts a) = lower r g skip (ph_stmts b).
Proof.
  intros [_ [_ [s [P F]]]] ND.
  destruct (lower_perm r g skip _ _ P ND) as [_ E]. rewrite E.
  apply lower_dep_equiv. exact F.
Qed.

(* ---- generic list facts ---- *)

Lemma Forall2_map_eq {A B C} (R : A -> B -> Prop) (f : A -> C) (g : B -> C) l l' :
  Forall2 R l l' -> (forall a b, R a b -> f a = g b) -> map f l = map g l'.
Proof.
  intros F H. induction F as [|a b l l' Hab F IH]; cbn; [reflexivity|].
  rewrite (H a b Hab), IH. reflexivity.
Qed.

Lemma Forall2_Forall_l {A B} (R : A -> B -> Prop) (P : A -> Prop) (Q : A -> B -> Prop) l l' :
  Forall2 R l l' -> Forall P l -> (forall a b, R a b -> P a -> Q a b) -> Forall2 Q l l'.
Proof.
  intros F FP H. induction F as [|a b l l' Hab F IH]; [constructor|].
  apply Forall_cons_iff in FP. destruct FP as [Pa FP].
  constructor; [apply H; assumption|apply IH; assumption].
Qed.

(* the sorted phase lists of two stored forms of one description correspond position by position *)
Lemma sorted_phases_correspond D D' :
  wf_description D -> same_description D D' ->
  Forall2 (fun a b => same_phase a b /\ NoDup (map sid (ph_stmts a)))
          (sort_by ph_name D) (sort_by ph_name D').
Proof.
  intros [NDn WF] [D'' [P F]].
  assert (E : sort_by ph_name D = sort_by ph_name D'').
  { apply sort_by_perm_eq; [exact P|].
    intros x y Hx Hy Exy. clear - NDn Hx Hy Exy.
    induction D as [|z D IH]; [contradiction|].
    cbn in NDn. apply NoDup_cons_iff in NDn. destruct NDn as [Nin ND].
    destruct Hx as [Hx|Hx], Hy as [Hy|Hy].
    - congruence.
    - subst z. exfalso. apply Nin. rewrite Exy. apply in_map. exact Hy.
    - subst z. exfalso. apply Nin. rewrite <- Exy. apply in_map. exact Hx.
    - apply IH; assumption. }
  rewrite E.
  assert (WF'' : Forall (fun ph => NoDup (map sid (ph_stmts ph))) (sort_by ph_name D'')).
  { rewrite Forall_forall in *. intros ph Hph. apply WF.
    eapply Permutation_in; [apply Permutation_sym, P|].
    eapply Permutation_in; [apply sort_by_perm|exact Hph]. }
  eapply Forall2_Forall_l; [|exact WF''|].
  - apply (sort_by_Forall2 ph_name ph_name same_phase); [|exact F].
    intros a b [Hn _]. exact Hn.
  - intros a b Hab Ha. split; assumption.
Qed.

Section PipelineProofs.
  Variables rev_expand guard_empty skip_false : bool.
  Variable G : Type.
  Variable gen : G -> string -> string * G.
  Variable ginit : list string -> G.
  Variable mid : list sstmt -> list sstmt.
  Variable info : string -> nat -> sstmt.
  Variable is_state : string -> bool.

  Lemma reorders_agree ord ord' : reorders ord -> reorders ord' ->
    forall p i l, Permutation (ord p i l) (ord' p i l).
  Proof. intros H H' p i l. rewrite (H p i l), (H' p i l). reflexivity. Qed.

  Lemma f_front_same ord1 ord1' a b :
    (forall i l, Permutation (ord1 i l) (ord1' i l)) ->
    same_phase a b -> NoDup (map sid (ph_stmts a)) ->
    f_front rev_expand guard_empty skip_false true G gen ginit mid info ord1 a =
    f_front rev_expand guard_empty skip_false true G gen ginit mid info ord1' b.
  Proof.
    intros H SP ND. unfold f_front.
    rewrite <- (lower_same_phase rev_expand guard_empty skip_false a b SP ND).
    destruct SP as [En _]. rewrite <- En.
    destruct (lower rev_expand guard_empty skip_false (ph_stmts a)) as [t|k| |]; try reflexivity.
    destruct (leaves t) as [ids|]; [|reflexivity].
    rewrite (selfdep_pass_sorted G gen ginit ord1 ord1' _ H). reflexivity.
  Qed.

  (* Fortran path, every C15 site in its sorted shape: everything computed before text is
     written is the same for two stored forms of one description, for all iteration orders of
     all sets involved, and for kind tables that agree as maps *)
  Theorem pipeline_f_deterministic ea D D' ord1 ord1' ord2 ord2' ord3 ord3' T T' :
    wf_description D -> same_description D D' ->
    reorders ord1 -> reorders ord1' -> reorders ord2 -> reorders ord2' ->
    reorders ord3 -> reorders ord3' ->
    NoDup (map fst T) -> NoDup (map fst T') -> table_equiv T T' ->
    pipeline_f rev_expand guard_empty skip_false true true ea G gen ginit mid info is_state
               ord1 ord2 ord3 T D =
    pipeline_f rev_expand guard_empty skip_false true true ea G gen ginit mid info is_state
               ord1' ord2' ord3' T' D'.
  Proof.
    intros WF SD R1 R1' R2 R2' R3 R3' ND ND' ET.
    pose proof (sorted_phases_correspond D D' WF SD) as F.
    unfold pipeline_f.
    set (fr := map (fun ph => (ph_name ph,
                  f_front rev_expand guard_empty skip_false true G gen ginit mid info
                          (ord1 (ph_name ph)) ph)) (sort_by ph_name D)).
    set (fr' := map (fun ph => (ph_name ph,
                  f_front rev_expand guard_empty skip_false true G gen ginit mid info
                          (ord1' (ph_name ph)) ph)) (sort_by ph_name D')).
    assert (Efr : fr = fr').
    { subst fr fr'. eapply Forall2_map_eq; [exact F|].
      intros a b [Hab NDa]. cbn beta.
      pose proof Hab as [En _]. rewrite <- En. f_equal.
      apply f_front_same; try assumption.
      intros i l. apply reorders_agree; assumption. }
    rewrite <- Efr.
    set (tbl := last_use_all ord2 (map (fun x => (fst x, front_leaves (snd x))) fr) []).
    set (tbl' := last_use_all ord2' (map (fun x => (fst x, front_leaves (snd x))) fr) []).
    assert (EL : lequiv tbl tbl').
    { subst tbl tbl'. apply last_use_all_perm; [apply reorders_agree; assumption|].
      intro k. reflexivity. }
    apply map_ext. intros [p r]. cbn [fst snd]. f_equal. unfold f_back. f_equal.
    - apply map_ext. intros st. f_equal.
      apply deinit_calls_sorted_perm; try assumption. apply reorders_agree; assumption.
    - apply final_deinit_ext; assumption.
  Qed.

  (* Python path, both iterations over dag.phases sorted *)
  Theorem pipeline_py_deterministic D D' :
    wf_description D -> same_description D D' ->
    pipeline_py rev_expand guard_empty skip_false true true D =
    pipeline_py rev_expand guard_empty skip_false true true D'.
  Proof.
    intros WF SD. pose proof (sorted_phases_correspond D D' WF SD) as F.
    unfold pipeline_py, py_order. f_equal.
    - eapply Forall2_map_eq; [exact F|]. intros a b [SP NDa]. cbn beta.
      rewrite (lower_same_phase rev_expand guard_empty skip_false a b SP NDa).
      destruct SP as [-> _]. reflexivity.
    - eapply Forall2_map_eq; [exact F|]. intros a b [[En [Ex _]] _]. cbn beta. congruence.
  Qed.
End PipelineProofs.

(* ====================================================================== Part G: the statement *)

(* all five sites in their repaired shape *)
Theorem full_statement_of_flags sd de pp pt gc :
  sd = true -> de = true -> pp = true -> pt = true -> gc = false ->
  full_statement sd de pp pt gc.
Proof.
  intros -> -> -> -> ->. split; [|split].
  - intros. apply pipeline_f_deterministic; assumption.
  - intros. apply pipeline_py_deterministic; assumption.
  - intros. apply index_vars_history_independent.
Qed.

(* ---- a description with two phases, stored in two ways ---- *)

Definition wit_s (i : nat) (deps : list nat) : DagAst.stmt := DagAst.mkStmt i deps CTrue [] false.
Definition wit_D : list pphase :=
  [mkPh "main" "aux" [wit_s 0 []; wit_s 1 [0]; wit_s 2 [0; 1]]; mkPh "aux" "main" [wit_s 0 []]].
Definition wit_D' : list pphase :=
  [mkPh "aux" "main" [wit_s 0 []]; mkPh "main" "aux" [wit_s 2 [1; 0]; wit_s 0 []; wit_s 1 [0]]].

Lemma dep_equiv_refl a : dep_equiv a a.
Proof. repeat split; reflexivity. Qed.

Lemma same_phase_refl a : same_phase a a.
Proof.
  split; [reflexivity|]. split; [reflexivity|]. exists (ph_stmts a). split; [reflexivity|].
  induction (ph_stmts a); constructor; [apply dep_equiv_refl|assumption].
Qed.

Lemma same_description_refl D : same_description D D.
Proof.
  exists D. split; [reflexivity|]. induction D; constructor; [apply same_phase_refl|assumption].
Qed.

Lemma same_description_swap a b : same_description [a; b] [b; a].
Proof.
  exists [b; a]. split; [apply perm_swap|].
  constructor; [apply same_phase_refl|]. constructor; [apply same_phase_refl|constructor].
Qed.

Example wit_D_wf : wf_description wit_D.
Proof.
  split.
  - cbn. repeat constructor; cbn; intuition discriminate.
  - repeat constructor; cbn; intuition discriminate.
Qed.

(* phases swapped, statements rotated, one dependency set listed the other way round *)
Example wit_D_same : same_description wit_D wit_D'.
Proof.
  exists [mkPh "aux" "main" [wit_s 0 []]; mkPh "main" "aux" [wit_s 0 []; wit_s 1 [0]; wit_s 2 [0; 1]]].
  split; [apply perm_swap|].
  constructor; [apply same_phase_refl|]. constructor; [|constructor].
  split; [reflexivity|]. split; [reflexivity|]. cbn [ph_stmts].
  exists [wit_s 2 [0; 1]; wit_s 0 []; wit_s 1 [0]]. split.
  - apply Permutation_sym. change (Permutation ([wit_s 2 [0; 1]] ++ [wit_s 0 []; wit_s 1 [0]])
                                               ([wit_s 0 []; wit_s 1 [0]] ++ [wit_s 2 [0; 1]])).
    apply Permutation_app_comm.
  - constructor; [|constructor; [apply dep_equiv_refl|constructor; [apply dep_equiv_refl|constructor]]].
    repeat split; try reflexivity. cbn. apply perm_swap.
Qed.

Lemma reorders_id : reorders (fun _ _ l => l).
Proof. intros p i l. reflexivity. Qed.
Lemma reorders_rev : reorders (fun _ _ l => rev l).
Proof. intros p i l. apply Permutation_sym, Permutation_rev. Qed.

Lemma table_equiv_refl T : table_equiv T T.
Proof. intro k. reflexivity. Qed.

(* the sites' view of the statements of wit_D: statement 2 of "main" is `(a, b) <- g(a, b)`
   and holds the last use of the user-type variables a, b and c *)
Definition wit_info (p : string) (n : nat) : sstmt :=
  match n with
  | 0 => mkS "s0" ["<state>y"] ["a"] []
  | 1 => mkS "s1" ["a"] ["b"; "c"] ["s0"]
  | _ => mkS "s2" ["a"; "b"; "c"] ["a"; "b"] ["s0"; "s1"]
  end.
Definition wit_kinds : table :=
  [((Some "main", "a"), Some (KUser "y")); ((Some "main", "b"), Some (KUser "y"));
   ((Some "main", "c"), Some (KUser "y")); ((Some "main", "temp_a"), Some (KUser "y"));
   ((Some "main", "temp_b"), Some (KUser "y")); ((Some "aux", "a"), Some (KUser "y"))].
Definition wit_is_state (x : string) : bool := String.prefix "<state>" x.

Definition wit_run (sd de : bool) (ord : string -> string -> list string -> list string) D :=
  pipeline_f true true true sd de false pgen pg_gen pg_init (fun l => l) wit_info wit_is_state
             ord ord ord wit_kinds D.

(* non-vacuity: with the repaired shapes the two stored forms, under opposite iteration orders,
   give this one result *)
Example pipeline_f_example :
  wit_run true true (fun _ _ l => l) wit_D = wit_run true true (fun _ _ l => rev l) wit_D' /\
  exists ast_main fin_main r_aux,
    wit_run true true (fun _ _ l => l) wit_D =
    [r_aux;
     ("main",
      SOk (ast_main,
           [mkS "s0" ["<state>y"] ["a"] []; mkS "s1" ["a"] ["b"; "c"] ["s0"];
            mkS "temp" ["a"] ["temp_a"] ["s0"; "s1"]; mkS "temp_0" ["b"] ["temp_b"] ["s0"; "s1"];
            mkS "s2" ["temp_a"; "temp_b"; "c"] ["a"; "b"] ["s0"; "s1"; "temp"; "temp_0"]]),
      ([("s0", DOk []); ("s1", DOk []); ("temp", DOk []); ("temp_0", DOk []);
        ("s2", DOk [("a", Some (KUser "y")); ("b", Some (KUser "y")); ("c", Some (KUser "y"));
                    ("temp_a", Some (KUser "y")); ("temp_b", Some (KUser "y"))])],
       fin_main))].
Proof.
  split; [vm_compute; reflexivity|]. eexists _, _, _. vm_compute. reflexivity.
Qed.

(* ---- refutations, one per defective shape ---- *)

Definition one_phase : list pphase := [mkPh "main" "main" [wit_s 0 []; wit_s 1 [0]; wit_s 2 [0; 1]]].

Lemma one_phase_wf : wf_description one_phase.
Proof.
  split.
  - cbn. repeat constructor; cbn; intuition discriminate.
  - repeat constructor; cbn; intuition discriminate.
Qed.

Lemma wit_kinds_nodup : NoDup (map fst wit_kinds).
Proof. cbn. repeat constructor; cbn; intuition discriminate. Qed.

(* `for var_name in read_and_written` (transform.py) not sorted *)
Theorem full_statement_refuted_selfdep de pp pt gc : ~ full_statement false de pp pt gc.
Proof.
  intros [H _].
  specialize (H true true true false pgen pg_gen pg_init (fun l => l) wit_info wit_is_state
                one_phase one_phase
                (fun _ _ l => l) (fun _ _ l => rev l) (fun _ _ l => l) (fun _ _ l => l)
                (fun _ _ l => l) (fun _ _ l => l) wit_kinds wit_kinds
                one_phase_wf (same_description_refl _)
                reorders_id reorders_rev reorders_id reorders_id reorders_id reorders_id
                wit_kinds_nodup wit_kinds_nodup (table_equiv_refl _)).
  destruct de; vm_compute in H; discriminate.
Qed.

(* `for variable in read_and_written` (fortran.py emit_deinit_for_last_usage_of_vars) not sorted *)
Theorem full_statement_refuted_deinit sd pp pt gc : ~ full_statement sd false pp pt gc.
Proof.
  intros [H _].
  specialize (H true true true false pgen pg_gen pg_init (fun l => l) wit_info wit_is_state
                one_phase one_phase
                (fun _ _ l => l) (fun _ _ l => l) (fun _ _ l => l) (fun _ _ l => l)
                (fun _ _ l => l) (fun _ _ l => rev l) wit_kinds wit_kinds
                one_phase_wf (same_description_refl _)
                reorders_id reorders_id reorders_id reorders_id reorders_id reorders_rev
                wit_kinds_nodup wit_kinds_nodup (table_equiv_refl _)).
  destruct sd; vm_compute in H; discriminate.
Qed.

(* `for phase_name in dag.phases.keys()` (python.py __call__) not sorted *)
Theorem full_statement_refuted_py_phases sd de pt gc : ~ full_statement sd de false pt gc.
Proof.
  intros [_ [H _]].
  specialize (H true true true wit_D [mkPh "aux" "main" [wit_s 0 []];
                                      mkPh "main" "aux" [wit_s 0 []; wit_s 1 [0]; wit_s 2 [0; 1]]]
                wit_D_wf (same_description_swap _ _)).
  destruct pt; vm_compute in H; discriminate.
Qed.

(* `for phase_name, phase in dag.phases.items()` (python.py _emit_constructor) not sorted *)
Theorem full_statement_refuted_py_table sd de pp gc : ~ full_statement sd de pp false gc.
Proof.
  intros [_ [H _]].
  specialize (H true true true wit_D [mkPh "aux" "main" [wit_s 0 []];
                                      mkPh "main" "aux" [wit_s 0 []; wit_s 1 [0]; wit_s 2 [0; 1]]]
                wit_D_wf (same_description_swap _ _)).
  destruct pp; vm_compute in H; discriminate.
Qed.

(* ArrayType.INDEX_VAR_COUNTER *)
Theorem full_statement_refuted_counter sd de pp pt : ~ full_statement sd de pp pt true.
Proof.
  intros [_ [_ H]]. specialize (H 0 1 1 FBuiltin). vm_compute in H. discriminate.
Qed.

(* ====================================================================== Part H: per-site statements
   with the shape switch as a premise (props/C15.v discharges it by eq_refl against GenC15.v) *)

Theorem selfdep_site_of_flag sd : sd = true ->
  forall (G : Type) (gen : G -> string -> string * G) it it' st gv gi,
    Permutation it it' ->
    selfdep_stmt G gen sd it st gv gi = selfdep_stmt G gen sd it' st gv gi.
Proof. intros -> G gen it it' st gv gi P. apply selfdep_stmt_sorted_perm. exact P. Qed.

Theorem deinit_site_of_flag de : de = true ->
  forall is_state T T' p tbl tbl' sid it it',
    table_equiv T T' -> lequiv tbl tbl' -> Permutation it it' ->
    deinit_calls is_state de T p tbl sid it = deinit_calls is_state de T' p tbl' sid it'.
Proof. intros -> is_state T T' p tbl tbl' sid it it'. apply deinit_calls_sorted_perm. Qed.

Theorem py_site_of_flags pp pt : pp = true -> pt = true ->
  forall r g skip D D', wf_description D -> same_description D D' ->
    pipeline_py r g skip pp pt D = pipeline_py r g skip pp pt D'.
Proof. intros -> -> r g skip D D'. apply pipeline_py_deterministic. Qed.

Theorem index_site_of_flag gc : gc = false ->
  forall h h' n e, fst (index_vars gc h n e) = fst (index_vars gc h' n e).
Proof. intros -> h h' n e. reflexivity. Qed.

(* no shape switch: the last-use table is the same finite map for all iteration orders *)
Theorem last_use_table_order_independent ord ord' fs :
  reorders ord -> reorders ord' ->
  forall k, lget (last_use_all ord fs []) k = lget (last_use_all ord' fs []) k.
Proof.
  intros R R'. apply last_use_all_perm; [|intro k; reflexivity].
  intros p i l. rewrite (R p i l), (R' p i l). reflexivity.
Qed.

(* ====================================================================== Part I: the orders the
   correspondence check dictates are iteration orders in the sense of the theorems *)

Lemma rot_perm {A} k (l : list A) : Permutation (rot k l) l.
Proof.
  unfold rot. destruct l as [|a l]; [reflexivity|].
  set (r := k mod List.length (a :: l)).
  rewrite Permutation_app_comm, firstn_skipn. reflexivity.
Qed.

Theorem policy_reorders rev k : reorders (fun _ sid s => policy rev k sid s).
Proof.
  intros p i l. unfold policy. rewrite rot_perm.
  destruct rev; [rewrite <- Permutation_rev|]; apply ssort_perm.
Qed.

Example policy_example :
  policy false 1 "s" ["c"; "a"; "b"] = ["c"; "a"; "b"] /\ policy true 0 "s" ["c"; "a"; "b"] = ["b"; "a"; "c"].
Proof. split; reflexivity. Qed.
