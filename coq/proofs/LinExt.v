(* LinExt.v -- reusable proof library (DESIGN.md appendix); closed under the global context *)
From Coq Require Import List Permutation Arith Lia.
Import ListNotations.

Section LinExt.
  Variables (A S : Type).
  Variable step : A -> S -> S.
  Variable indep : A -> A -> Prop.
  Hypothesis indep_sym : forall a b, indep a b -> indep b a.
  Hypothesis indep_comm : forall a b s, indep a b -> step a (step b s) = step b (step a s).

  Definition run (l : list A) (s : S) : S := fold_left (fun s a => step a s) l s.

  Lemma run_app l1 l2 s : run (l1 ++ l2) s = run l2 (run l1 s).
  Proof. unfold run. apply fold_left_app. Qed.

  Lemma bubble : forall l1 a s, (forall b, In b l1 -> indep b a) ->
    run (l1 ++ [a]) s = run (a :: l1) s.
  Proof.
    induction l1 as [|b l1 IH]; intros a s H; [reflexivity|].
    cbn [app]. change (run (b :: l1 ++ [a]) s) with (run (l1 ++ [a]) (step b s)).
    rewrite IH by (intros; apply H; now right).
    cbn [run fold_left]. fold (run l1 (step a (step b s))). fold (run l1 (step b (step a s))).
    rewrite indep_comm; [reflexivity|]. apply indep_sym, H. now left.
  Qed.

  Inductive sched : list A -> list A -> Prop :=
  | sched_nil : sched [] []
  | sched_pick l1 a l2 l' :
      (forall b, In b l1 -> indep b a) -> sched (l1 ++ l2) l' ->
      sched (l1 ++ a :: l2) (a :: l').

  Theorem sched_run : forall l l', sched l l' -> forall s, run l' s = run l s.
  Proof.
    induction 1 as [|l1 a l2 l' Hind _ IH]; intros s; [reflexivity|].
    change (run (a :: l') s) with (run l' (step a s)). rewrite IH.
    replace (l1 ++ a :: l2) with ((l1 ++ [a]) ++ l2) by (rewrite <- app_assoc; reflexivity).
    rewrite (run_app l1 l2), (run_app (l1 ++ [a]) l2).
    rewrite bubble by assumption. reflexivity.
  Qed.

  Variable dep : A -> A -> Prop.
  Definition cov (b a : A) : Prop := ~ indep b a -> dep b a.
  Inductive linext : list A -> Prop :=
  | le_nil : linext []
  | le_cons a l' : (forall b, In b l' -> ~ dep b a) -> linext l' -> linext (a :: l').
  Hypothesis indep_dec : forall a b, {indep a b} + {~ indep a b}.

  Lemma FOP_app_l (R : A -> A -> Prop) l1 l2 : ForallOrdPairs R (l1 ++ l2) -> ForallOrdPairs R l1.
  Proof. induction l1 as [|x l1 IH]; intros H; [constructor|].
    inversion H as [|? ? Hx Hr]; subst. constructor; [|auto].
    rewrite Forall_forall in *. intros y Hy. apply Hx. rewrite in_app_iff; now left. Qed.
  Lemma FOP_remove (R : A -> A -> Prop) l1 a l2 :
    ForallOrdPairs R (l1 ++ a :: l2) -> ForallOrdPairs R (l1 ++ l2).
  Proof. induction l1 as [|x l1 IH]; cbn; intros H.
    - inversion H; assumption.
    - inversion H as [|? ? Hx Hr]; subst. constructor; [|auto].
      rewrite Forall_forall in *. intros y Hy. apply Hx.
      rewrite in_app_iff in *. destruct Hy; [now left|right; now right]. Qed.
  Lemma FOP_mid (R : A -> A -> Prop) l1 a l2 b :
    ForallOrdPairs R (l1 ++ a :: l2) -> In b l1 -> R b a.
  Proof. induction l1 as [|x l1 IH]; cbn; intros H Hb; [destruct Hb|].
    inversion H as [|? ? Hx Hr]; subst. destruct Hb as [->|Hb]; [|auto].
    rewrite Forall_forall in Hx. apply Hx. rewrite in_app_iff. right; now left. Qed.

  Theorem linext_sched : forall l' l, NoDup l -> Permutation l l' ->
    ForallOrdPairs cov l -> linext l' -> sched l l'.
  Proof.
    induction l' as [|a l' IH]; intros l ND P C LE.
    - apply Permutation_sym, Permutation_nil in P. subst. constructor.
    - inversion LE as [|? ? Hdep LE']; subst.
      assert (Ha : In a l) by (eapply Permutation_in; [symmetry; exact P|now left]).
      apply in_split in Ha. destruct Ha as (l1 & l2 & ->).
      assert (P' : Permutation (l1 ++ l2) l').
      { symmetry. eapply Permutation_cons_app_inv. symmetry. exact P. }
      constructor.
      + intros b Hb. destruct (indep_dec b a) as [|Hn]; [assumption|exfalso].
        apply (Hdep b).
        * eapply Permutation_in; [exact P'|]. rewrite in_app_iff; now left.
        * exact (FOP_mid _ _ _ _ _ C Hb Hn).
      + apply IH; auto.
        * eapply NoDup_remove_1; exact ND.
        * eapply FOP_remove; exact C.
  Qed.

  Corollary linext_run l l' s : NoDup l -> Permutation l l' ->
    ForallOrdPairs cov l -> linext l' -> run l' s = run l s.
  Proof. intros. apply sched_run, linext_sched; assumption. Qed.
End LinExt.
Print Assumptions linext_run.

(* The same development up to an equivalence on states and under an invariant
   (used by C02: stores are compared extensionally, and commutation of two
   independent statements needs stores in which no loop counter is live). *)
Section LinExtEq.
  Variables (A S : Type).
  Variable step : A -> S -> S.
  Variable eqS : S -> S -> Prop.
  Variable Inv : S -> Prop.
  Variable indep : A -> A -> Prop.
  Hypothesis eqS_refl : forall s, eqS s s.
  Hypothesis eqS_trans : forall a b c, eqS a b -> eqS b c -> eqS a c.
  Hypothesis step_proper : forall a s s', eqS s s' -> eqS (step a s) (step a s').
  Hypothesis step_inv : forall a s, Inv s -> Inv (step a s).
  Hypothesis indep_sym : forall a b, indep a b -> indep b a.
  Hypothesis indep_comm : forall a b s, indep a b -> Inv s ->
                                        eqS (step a (step b s)) (step b (step a s)).

  Notation run := (run A S step).

  Lemma run_proper l : forall s s', eqS s s' -> eqS (run l s) (run l s').
  Proof. induction l as [|a l IH]; intros s s' H; [exact H|]. cbn. apply IH, step_proper, H. Qed.

  Lemma run_inv l : forall s, Inv s -> Inv (run l s).
  Proof. induction l as [|a l IH]; intros s H; [exact H|]. cbn. apply IH, step_inv, H. Qed.

  Lemma bubble_eq : forall l1 a s, Inv s -> (forall b, In b l1 -> indep b a) ->
    eqS (run (l1 ++ [a]) s) (run (a :: l1) s).
  Proof.
    induction l1 as [|b l1 IH]; intros a s Hs H; [apply eqS_refl|].
    change (run ((b :: l1) ++ [a]) s) with (run (l1 ++ [a]) (step b s)).
    eapply eqS_trans; [apply IH; [apply step_inv, Hs|intros; apply H; now right]|].
    change (run (a :: l1) (step b s)) with (run l1 (step a (step b s))).
    change (run (a :: b :: l1) s) with (run l1 (step b (step a s))).
    apply run_proper. apply indep_comm; [|exact Hs]. apply indep_sym, H. now left.
  Qed.

  Theorem sched_run_eq : forall l l', sched A indep l l' -> forall s, Inv s -> eqS (run l' s) (run l s).
  Proof.
    induction 1 as [|l1 a l2 l' Hind _ IH]; intros s Hs; [apply eqS_refl|].
    change (run (a :: l') s) with (run l' (step a s)).
    eapply eqS_trans; [apply IH, step_inv, Hs|].
    replace (l1 ++ a :: l2) with ((l1 ++ [a]) ++ l2) by (rewrite <- app_assoc; reflexivity).
    rewrite (run_app A S step l1 l2), (run_app A S step (l1 ++ [a]) l2).
    apply run_proper.
    change (run l1 (step a s)) with (run (a :: l1) s).
    (* symmetric use of bubble_eq *)
    assert (Hb := bubble_eq l1 a s Hs Hind).
    (* we need eqS (run (a::l1) s) (run (l1++[a]) s): prove symmetric variant directly *)
    clear IH. revert s Hs Hb. clear -eqS_refl eqS_trans step_proper step_inv indep_sym indep_comm Hind.
    induction l1 as [|b l1 IH]; intros s Hs _; [apply eqS_refl|].
    change (run ((b :: l1) ++ [a]) s) with (run (l1 ++ [a]) (step b s)).
    change (run (a :: b :: l1) s) with (run l1 (step b (step a s))).
    eapply eqS_trans; [|apply IH; [intros; apply Hind; now right|apply step_inv, Hs|]].
    - change (run (a :: l1) (step b s)) with (run l1 (step a (step b s))).
      apply run_proper. apply indep_comm; [|exact Hs]. apply Hind. now left.
    - apply bubble_eq; [apply step_inv, Hs|intros; apply Hind; now right].
  Qed.

  Variable dep : A -> A -> Prop.
  Hypothesis indep_dec : forall a b, {indep a b} + {~ indep a b}.

  Corollary linext_run_eq l l' s : Inv s -> NoDup l -> Permutation l l' ->
    ForallOrdPairs (cov A indep dep) l -> linext A dep l' -> eqS (run l' s) (run l s).
  Proof. intros Hs ND P C LE. apply sched_run_eq; [|exact Hs]. eapply linext_sched; eassumption. Qed.
End LinExtEq.
Print Assumptions linext_run_eq.
