(* The partial order induced by the (repaired) unify, and the join lemmas used by the
   order-independence proof (proofs/KindInferProofs.v).  All statements are about
   `unify true true`, i.e. the shape in which both asserts accept Integer. *)
From Coq Require Import List String Bool.
Import ListNotations.
From Dagrt Require Import Unify UnifyProofs.
Open Scope string_scope.

Definition UU := unify true true.

(* a <= b : joining a into b leaves b unchanged.  None is only below None (a kind that is
   None carries no information and is treated separately, see wle). *)
Definition kle (a b : okind) : Prop := a = b \/ (a <> None /\ UU a b = Ok b).

(* accumulators of map_sum / map_product_like start at None *)
Definition wle (a b : okind) : Prop := a = None \/ kle a b.

Ltac dk' k := destruct k as [[| |[]|[]|?]|].

Ltac kle_crush :=
  unfold wle, kle, UU in *;
  repeat match goal with
  | H : _ \/ _ |- _ => destruct H
  | H : _ /\ _ |- _ => destruct H
  | H : Some _ = Some _ |- _ => injection H as H; try subst
  | H : Ok _ = Ok _ |- _ => injection H as H; try subst
  | H : None = Some _ |- _ => discriminate H
  | H : Some _ = None |- _ => discriminate H
  | H : Ok _ = Err _ |- _ => discriminate H
  | H : Err _ = Ok _ |- _ => discriminate H
  end.

Ltac fin :=
  cbn in *; str_cases; cbn in *; str_cases; cbn in *;
  try discriminate; try congruence;
  try solve [ exfalso; auto
            | left; reflexivity
            | left; congruence
            | right; split; [discriminate | reflexivity]
            | right; split; [discriminate | cbn; str_cases; cbn; congruence]
            | right; left; reflexivity
            | right; right; split; [discriminate | reflexivity]
            | right; right; split; [discriminate | cbn; str_cases; cbn; congruence] ].

Lemma kle_refl : forall a, kle a a.
Proof. left; reflexivity. Qed.

Lemma kle_none_r : forall a, kle a None -> a = None.
Proof. intros a H; dk' a; kle_crush; fin. Qed.

Lemma kle_none_l : forall b, kle None b -> b = None.
Proof. intros b [H|[H _]]; congruence. Qed.

Lemma kle_some : forall a b, kle a b -> a <> None -> b <> None.
Proof. intros a b H Ha Hb; subst. apply kle_none_r in H. contradiction. Qed.

Lemma kle_antisym : forall a b, kle a b -> kle b a -> a = b.
Proof.
  intros a b H1 H2; dk' a; dk' b; kle_crush; fin.
Qed.

Lemma kle_trans : forall a b c, kle a b -> kle b c -> kle a c.
Proof.
  intros a b c H1 H2.
  destruct H1 as [->|[Ha H1]]; [assumption|].
  destruct H2 as [<-|[Hb H2]]; [right; split; assumption|].
  right; split; [assumption|].
  unfold UU in *.
  dk' a; dk' b; dk' c; cbn in *; try congruence; str_cases; cbn in *; try congruence;
    str_cases; cbn in *; congruence.
Qed.

(* result of a join with a proper kind is a proper kind *)
Lemma UU_some_l : forall a b r, UU a b = Ok r -> a <> None -> r <> None.
Proof. intros a b r H Ha; unfold UU in *; dk' a; dk' b; fin. Qed.

Lemma UU_some_r : forall a b r, UU a b = Ok r -> b <> None -> r <> None.
Proof. intros a b r H Ha; unfold UU in *; dk' a; dk' b; fin. Qed.

(* the join is an upper bound of its (proper) arguments *)
Lemma UU_upper_r : forall a b r, UU a b = Ok r -> b <> None -> kle b r.
Proof.
  intros a b r H Hb; unfold kle, UU in *; dk' a; dk' b; cbn in *; try congruence;
    str_cases; cbn in *; try congruence; injection H as <-; fin.
Qed.

Lemma UU_upper_l : forall a b r, UU a b = Ok r -> a <> None -> kle a r.
Proof.
  intros a b r H Hb; unfold kle, UU in *; dk' a; dk' b; cbn in *; try congruence;
    str_cases; cbn in *; try congruence; injection H as <-; fin.
Qed.

(* least upper bound: two different kinds below c have a join, and it is below c *)
Lemma UU_lub : forall a b c, kle a c -> kle b c -> a <> b ->
  exists j, UU a b = Ok j /\ kle j c.
Proof.
  intros a b c H1 H2 Hne.
  destruct H1 as [->|[Ha H1]].
  - destruct H2 as [->|[Hb H2]]; [contradiction|].
    exists c. split; [|apply kle_refl].
    unfold UU in *. dk' b; dk' c; fin.
  - destruct H2 as [->|[Hb H2]].
    + exists c. split; [assumption|apply kle_refl].
    + unfold kle, UU in *.
      dk' a; dk' b; dk' c; cbn in *; try congruence; str_cases; cbn in *; try congruence;
        str_cases; cbn in *; try congruence;
        (eexists; split; [reflexivity|]); fin.
Qed.

(* monotonicity of the join, strong order on both arguments *)
Lemma UU_mono : forall a a' b b' c', kle a a' -> kle b b' -> UU a' b' = Ok c' ->
  exists c, UU a b = Ok c /\ kle c c'.
Proof.
  intros a a' b b' c' H1 H2 H.
  destruct H1 as [->|[Ha H1]]; destruct H2 as [->|[Hb H2]].
  - exists c'. split; [assumption|apply kle_refl].
  - unfold kle, UU in *.
    dk' a'; dk' b; dk' b'; cbn in *; try congruence; str_cases; cbn in *; try congruence;
      str_cases; cbn in *; try congruence;
      (eexists; split; [reflexivity|]); injection H as <-; fin.
  - unfold kle, UU in *.
    dk' a; dk' a'; dk' b'; cbn in *; try congruence; str_cases; cbn in *; try congruence;
      str_cases; cbn in *; try congruence;
      (eexists; split; [reflexivity|]); injection H as <-; fin.
  - unfold kle, UU in *.
    dk' a; dk' a'; dk' b; dk' b'; cbn in *; try congruence; str_cases; cbn in *; try congruence;
      str_cases; cbn in *; try congruence;
      (eexists; split; [reflexivity|]); injection H as <-; fin.
Qed.

(* the same with a lagging accumulator on the left *)
Lemma UU_mono_w : forall a a' b b' c', wle a a' -> kle b b' -> UU a' b' = Ok c' ->
  exists c, UU a b = Ok c /\ wle c c'.
Proof.
  intros a a' b b' c' [->|H1] H2 H.
  - exists b. split; [reflexivity|].
    destruct b as [kb|]; [right|left; reflexivity].
    assert (Hb' : b' <> None) by (apply (kle_some (Some kb)); [assumption|discriminate]).
    eapply kle_trans; [exact H2|]. eapply UU_upper_r; eassumption.
  - destruct (UU_mono _ _ _ _ _ H1 H2 H) as [c [Hc Hle]].
    exists c. split; [assumption|right; assumption].
Qed.

(* skipping a child on the small side keeps the accumulators related *)
Lemma UU_skip_w : forall a a' b' c', wle a a' -> UU a' b' = Ok c' -> wle a c'.
Proof.
  intros a a' b' c' [->|H1] H; [left; reflexivity|].
  destruct a as [ka|]; [right|left; reflexivity].
  assert (Ha' : a' <> None) by (apply (kle_some (Some ka)); [assumption|discriminate]).
  eapply kle_trans; [exact H1|]. eapply UU_upper_l; eassumption.
Qed.

Lemma wle_none_r : forall a, wle a None -> a = None.
Proof. intros a [H|H]; [assumption|apply kle_none_r; assumption]. Qed.

Lemma wle_kle : forall a b, wle a b -> a <> None -> kle a b.
Proof. intros a b [H|H] Ha; [contradiction|assumption]. Qed.

(* what `set` observes when nothing changes *)
Lemma nochange_kle : forall k old, k <> None -> (old = k \/ UU k old = Ok old) -> kle k old.
Proof. intros k old Hk [->|H]; [left; reflexivity|right; split; assumption]. Qed.

Lemma kle_int_int : kle (Some KInt) (Some KInt).
Proof. apply kle_refl. Qed.
