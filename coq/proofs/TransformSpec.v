(* C07 proofs, part 3: what one call of an expression mapper guarantees (wspec), and how the
   guarantees of the pieces combine along bindw / seqw -- for arbitrary closures, so that the
   three mappers (argument isolator, call isolator, conditional-expression expander) share it. *)
From Coq Require Import List ZArith NArith String Ascii Bool Arith Lia Permutation.
Import ListNotations.
From Dagrt Require Import Lang LangProofs Sched Transform TransformSem TransformSide TransformBasics TransformHoist.

Definition swr (n : tstmt) : list var := kind_writes (tkd n).

Section Spec.
  Variable F : string -> list val -> list (string * val) -> option (list val).
  Variable dg : bool.

  (* statements emitted by a mapper: guard extends the base guard, the written variable and the id
     are among the generated ones *)
  Definition emitted (cond : expr) (N : list string) (n : tstmt) : Prop :=
    gext cond (tcond n) /\ incl (swr n) N.

  (* the ids of the emitted statements are exactly the generated ids (as multisets) *)
  Definition idcount (ns : list tstmt) (I : list string) : Prop :=
    forall x, count_occ string_dec (map tid ns) x = count_occ string_dec I x.

  Definition wspec (cond a : expr) (st : gst) (a' : expr) (ns : list tstmt) (xs : list string) (st' : gst)
    : Prop :=
    exists N I,
      ext st st' N I /\
      incl (vars a') (vars a ++ N) /\
      Forall (emitted cond N) ns /\
      idcount ns I /\
      incl xs I /\
      (incl (vars a) (ex (gvars st)) -> incl (vars cond) (ex (gvars st)) -> hoisted F dg cond a a' ns N).

  Definition wspec_list (cond : expr) (l : list expr) (st : gst) (l' : list expr) (ns : list tstmt)
             (xs : list string) (st' : gst) : Prop :=
    exists N I,
      ext st st' N I /\
      incl (flat_map vars l') (flat_map vars l ++ N) /\
      Forall (emitted cond N) ns /\
      idcount ns I /\
      incl xs I /\
      List.length l' = List.length l /\
      (incl (flat_map vars l) (ex (gvars st)) -> incl (vars cond) (ex (gvars st)) ->
       hoisted_list F dg cond l l' ns N).

  (* a closure satisfies the spec for expression a *)
  Definition cspec (cond a : expr) (m : MW expr) : Prop :=
    forall st a' ns xs st', m st = TOk (a', ns, xs, st') -> wspec cond a st a' ns xs st'.

  (* a closure that does nothing *)
  Definition cid (a : expr) (m : MW expr) : Prop := forall st, m st = TOk (a, [], [], st).

  Lemma emitted_weaken cond N N' n : incl N N' -> emitted cond N n -> emitted cond N' n.
  Proof. intros HN (A & B). split; [exact A|]. intros x Hx. apply HN, B, Hx. Qed.

  Lemma idcount_nil : idcount [] [].
  Proof. intros x. reflexivity. Qed.

  Lemma idcount_app ns1 ns2 I1 I2 : idcount ns1 I1 -> idcount ns2 I2 -> idcount (ns1 ++ ns2) (I2 ++ I1).
  Proof. intros H1 H2 x. rewrite map_app, !count_occ_app, H1, H2. lia. Qed.

  Lemma idcount_nodup ns I : idcount ns I -> NoDup I -> NoDup (map tid ns).
  Proof.
    intros H HI. apply (NoDup_count_occ string_dec). intros x. rewrite H.
    now apply (NoDup_count_occ string_dec).
  Qed.

  Lemma wspec_id cond a st : wspec cond a st a [] [] st.
  Proof.
    exists [], []. split; [apply ext_refl|split; [|split; [|split; [|split]]]].
    - rewrite app_nil_r. apply incl_refl.
    - constructor.
    - apply idcount_nil.
    - intros x [].
    - intros _ _. apply hoisted_id.
  Qed.

  Lemma cid_cspec cond a m : cid a m -> cspec cond a m.
  Proof.
    intros H st a' ns xs st' E. rewrite H in E. inversion E; subst. apply wspec_id.
  Qed.

  Lemma retw_cid a : cid a (retw a).
  Proof. intros st. reflexivity. Qed.

  (* ---- inversion of the monadic combinators ---- *)
  Lemma bindw_inv {A B} (m : MW A) (f : A -> MW B) st b ns xs st' :
    bindw m f st = TOk (b, ns, xs, st') ->
    exists a ns1 xs1 st1 ns2 xs2,
      m st = TOk (a, ns1, xs1, st1) /\ f a st1 = TOk (b, ns2, xs2, st') /\
      ns = ns1 ++ ns2 /\ xs = xs1 ++ xs2.
  Proof.
    unfold bindw. destruct (m st) as [[[[a ns1] xs1] st1]|e] eqn:E1; [|discriminate].
    destruct (f a st1) as [[[[b' ns2] xs2] st2]|e] eqn:E2; [|discriminate].
    intros H. inversion H; subst. exists a, ns1, xs1, st1, ns2, xs2. repeat split; assumption || reflexivity.
  Qed.

  Lemma retw_inv {A} (a b : A) st ns xs st' :
    retw a st = TOk (b, ns, xs, st') -> b = a /\ ns = [] /\ xs = [] /\ st' = st.
  Proof. unfold retw. intros H. inversion H; subst. repeat split; reflexivity. Qed.

  Lemma bind_ret_inv {A B} (m : MW A) (f : A -> B) st b ns xs st' :
    bindw m (fun a => retw (f a)) st = TOk (b, ns, xs, st') ->
    exists a, m st = TOk (a, ns, xs, st') /\ b = f a.
  Proof.
    intros H. apply bindw_inv in H. destruct H as (a & ns1 & xs1 & st1 & ns2 & xs2 & H1 & H2 & -> & ->).
    apply retw_inv in H2. destruct H2 as (-> & -> & -> & ->). rewrite !app_nil_r. eauto.
  Qed.

  Lemma seqw_cons_inv {A} (m : MW A) r st l ns xs st' :
    seqw (m :: r) st = TOk (l, ns, xs, st') ->
    exists a ns1 xs1 st1 r' ns2 xs2,
      m st = TOk (a, ns1, xs1, st1) /\ seqw r st1 = TOk (r', ns2, xs2, st') /\
      l = a :: r' /\ ns = ns1 ++ ns2 /\ xs = xs1 ++ xs2.
  Proof.
    cbn [seqw]. intros H. apply bindw_inv in H.
    destruct H as (a & ns1 & xs1 & st1 & ns2 & xs2 & H1 & H2 & -> & ->).
    apply bind_ret_inv in H2. destruct H2 as (r' & H2 & ->).
    exists a, ns1, xs1, st1, r', ns2, xs2. repeat split; assumption || reflexivity.
  Qed.

  (* ---- sequencing closures over the children of a node ---- *)
  Lemma in_fresh_not_old old new x : fresh_for old new -> In x new -> ~ In x old.
  Proof. intros [_ H]. apply H. Qed.

  Lemma ext_vars_incl st st' N I l : ext st st' N I -> incl l (ex (gvars st)) -> incl l (ex (gvars st')).
  Proof. intros (E & _) H x Hx. rewrite E. apply in_app_iff. right. apply H, Hx. Qed.

  Lemma seqw_spec cond l ms :
    Forall2 (cspec cond) l ms ->
    forall st l' ns xs st', seqw ms st = TOk (l', ns, xs, st') -> wspec_list cond l st l' ns xs st'.
  Proof.
    induction 1 as [|a m l ms Ha _ IH]; intros st l' ns xs st' E.
    - apply retw_inv in E. destruct E as (-> & -> & -> & ->).
      exists [], []. split; [apply ext_refl|].
      split; [apply incl_refl|split; [constructor|split; [apply idcount_nil|split; [intros x []|split; [reflexivity|]]]]].
      intros _ _. apply hoisted_list_nil.
    - apply seqw_cons_inv in E.
      destruct E as (a' & ns1 & xs1 & st1 & r' & ns2 & xs2 & E1 & E2 & -> & -> & ->).
      destruct (Ha _ _ _ _ _ E1) as (N1 & I1 & X1 & V1 & M1 & D1 & S1 & H1).
      destruct (IH _ _ _ _ _ E2) as (N2 & I2 & X2 & V2 & M2 & D2 & S2 & Len & H2).
      pose proof (ext_trans _ _ _ _ _ _ _ X1 X2) as X.
      exists (N2 ++ N1), (I2 ++ I1). split; [exact X|].
      split; [|split; [|split; [|split; [|split]]]].
      + cbn [flat_map]. intros x Hx. rewrite !in_app_iff in *. destruct Hx as [Hx|Hx].
        * apply V1 in Hx. rewrite in_app_iff in Hx. tauto.
        * apply V2 in Hx. rewrite in_app_iff in Hx. tauto.
      + apply Forall_app. split.
        * eapply Forall_impl; [|exact M1]. intros n. apply emitted_weaken. intros x Hx. apply in_app_iff. auto.
        * eapply Forall_impl; [|exact M2]. intros n. apply emitted_weaken. intros x Hx. apply in_app_iff. auto.
      + apply idcount_app; assumption.
      + intros x Hx. rewrite !in_app_iff in *. destruct Hx as [Hx|Hx]; [right; apply S1, Hx|left; apply S2, Hx].
      + cbn. now rewrite Len.
      + intros Hv Hc. cbn [flat_map] in Hv.
        assert (Hva : incl (vars a) (ex (gvars st))) by (intros x Hx; apply Hv, in_app_iff; now left).
        assert (Hvl : incl (flat_map vars l) (ex (gvars st))) by (intros x Hx; apply Hv, in_app_iff; now right).
        specialize (H1 Hva Hc).
        specialize (H2 (ext_vars_incl _ _ _ _ _ X1 Hvl) (ext_vars_incl _ _ _ _ _ X1 Hc)).
        destruct X1 as (E1' & _ & F1 & _). destruct X2 as (E2' & _ & F2 & _).
        intros s L vs Hcs He.
        assert (HH : hoisted_list F dg cond (a :: l) (a' :: r') (ns1 ++ ns2) (N1 ++ N2)).
        { apply hoisted_cons; auto.
          - intros x Hx. split; intros Hin; apply (in_fresh_not_old _ _ _ F1 Hx); [apply Hvl|apply Hc]; exact Hin.
          - intros x Hx Hin. apply (in_fresh_not_old _ _ _ F2 Hx). rewrite E1'.
            apply V1 in Hin. rewrite in_app_iff in *. destruct Hin as [Hin|Hin]; [right; apply Hva, Hin|now left]. }
        destruct (HH s L vs Hcs He) as (L1 & s' & L2 & A & B & C & D).
        exists L1, s', L2. split; [exact A|split; [|split; assumption]].
        eapply same_off_incl; [|exact B]. intros x Hx. rewrite in_app_iff in *. tauto.
  Qed.

  (* ---- node lemmas ---- *)
  Lemma wspec_not cond a m :
    cspec cond a m -> cspec cond (ENot a) (bindw m (fun a' => retw (ENot a'))).
  Proof.
    intros H st r ns xs st' E. apply bind_ret_inv in E. destruct E as (a' & E & ->).
    destruct (H _ _ _ _ _ E) as (N & I & X & V & M & D & S & Hh).
    exists N, I. split; [exact X|split; [exact V|split; [exact M|split; [exact D|split; [exact S|]]]]].
    intros Hv Hc. apply hoisted_not. now apply Hh.
  Qed.

  Lemma list2_spec cond a b l' st ns xs st' :
    wspec_list cond [a; b] st l' ns xs st' ->
    exists a' b', l' = [a'; b'] /\
      exists N I, ext st st' N I /\ incl (vars a' ++ vars b') ((vars a ++ vars b) ++ N) /\
        Forall (emitted cond N) ns /\ idcount ns I /\ incl xs I /\
        (incl (vars a ++ vars b) (ex (gvars st)) -> incl (vars cond) (ex (gvars st)) ->
         hoisted_list F dg cond [a; b] [a'; b'] ns N).
  Proof.
    intros (N & I & X & V & M & D & S & Len & H).
    destruct l' as [|a' [|b' [|? ?]]]; try discriminate.
    exists a', b'. split; [reflexivity|]. exists N, I. cbn [flat_map] in *. rewrite !app_nil_r in *.
    repeat (split; [assumption|]). exact H.
  Qed.

  Lemma wspec_bin cond o a b m1 m2 :
    cspec cond a m1 -> cspec cond b m2 ->
    cspec cond (EBin o a b) (bindw m1 (fun a' => bindw m2 (fun b' => retw (EBin o a' b')))).
  Proof.
    intros H1 H2 st r ns xs st' E.
    assert (Es : exists a' b', seqw [m1; m2] st = TOk ([a'; b'], ns, xs, st') /\ r = EBin o a' b').
    { apply bindw_inv in E. destruct E as (a' & ns1 & xs1 & st1 & ns2 & xs2 & E1 & E2 & -> & ->).
      apply bind_ret_inv in E2. destruct E2 as (b' & E2 & ->). exists a', b'. split; [|reflexivity].
      cbn [seqw]. unfold bindw at 1. rewrite E1. unfold bindw at 1. unfold bindw at 1. rewrite E2.
      cbn. rewrite !app_nil_r. reflexivity. }
    destruct Es as (a' & b' & Es & ->).
    pose proof (seqw_spec cond [a; b] [m1; m2]
                  (Forall2_cons _ _ H1 (Forall2_cons _ _ H2 (Forall2_nil _))) _ _ _ _ _ Es) as W.
    apply list2_spec in W. destruct W as (a2 & b2 & Heq & N & I & X & V & M & D & S & Hh).
    inversion Heq; subst a2 b2.
    exists N, I. split; [exact X|split; [exact V|split; [exact M|split; [exact D|split; [exact S|]]]]].
    intros Hv Hc. apply hoisted_bin. now apply Hh.
  Qed.

  Lemma wspec_strict cond o l ms :
    is_lazy o = false -> Forall2 (cspec cond) l ms ->
    cspec cond (ENary o l) (bindw (seqw ms) (fun l' => retw (ENary o l'))).
  Proof.
    intros Ho H st r ns xs st' E. apply bind_ret_inv in E. destruct E as (l' & E & ->).
    destruct (seqw_spec cond l ms H _ _ _ _ _ E) as (N & I & X & V & M & D & S & Len & Hh).
    exists N, I. split; [exact X|split; [exact V|split; [exact M|split; [exact D|split; [exact S|]]]]].
    intros Hv Hc. apply hoisted_strict; [exact Ho|]. now apply Hh.
  Qed.

  (* closures that do nothing, in sequence *)
  Lemma seqw_cid l ms : Forall2 cid l ms -> forall st, seqw ms st = TOk (l, [], [], st).
  Proof.
    induction 1 as [|a m l ms Ha _ IH]; intros st; [reflexivity|].
    cbn [seqw]. unfold bindw at 1. rewrite Ha. unfold bindw at 1. rewrite IH. reflexivity.
  Qed.

  (* and / or: only the first operand is always evaluated; the others must be left alone *)
  Lemma wspec_lazy_head cond o a l m ms :
    is_lazy o = true -> cspec cond a m -> Forall2 cid l ms ->
    cspec cond (ENary o (a :: l)) (bindw (seqw (m :: ms)) (fun l' => retw (ENary o l'))).
  Proof.
    intros Ho H Hid st r ns xs st' E. apply bind_ret_inv in E. destruct E as (l' & E & ->).
    apply seqw_cons_inv in E.
    destruct E as (a' & ns1 & xs1 & st1 & r' & ns2 & xs2 & E1 & E2 & -> & -> & ->).
    rewrite (seqw_cid l ms Hid) in E2. inversion E2; subst. rewrite !app_nil_r.
    destruct (H _ _ _ _ _ E1) as (N & I & X & V & M & D & S & Hh).
    exists N, I. split; [exact X|split; [|split; [exact M|split; [exact D|split; [exact S|]]]]].
    - cbn [vars flat_map]. intros x Hx. rewrite !in_app_iff in *. destruct Hx as [Hx|Hx]; [|tauto].
      apply V in Hx. rewrite in_app_iff in Hx. tauto.
    - intros Hv Hc. cbn [vars flat_map] in Hv.
      assert (Hva : incl (vars a) (ex (gvars st))) by (intros x Hx; apply Hv, in_app_iff; now left).
      assert (Hvl : incl (flat_map vars r') (ex (gvars st))) by (intros x Hx; apply Hv, in_app_iff; now right).
      destruct X as (_ & _ & Fr & _).
      assert (Dj : forall x, In x N -> ~ In x (flat_map vars r')).
      { intros x Hx Hin. apply (in_fresh_not_old _ _ _ Fr Hx). apply Hvl, Hin. }
      destruct o; try discriminate.
      + apply hoisted_and_head; auto.
      + apply hoisted_or_head; auto.
  Qed.

  Lemma wspec_lazy_nil cond o : cspec cond (ENary o []) (bindw (seqw []) (fun l' => retw (ENary o l'))).
  Proof. apply cid_cspec. intros st. reflexivity. Qed.

  (* a conditional expression whose branches are left alone *)
  Lemma wspec_if_head cond c t e mc mt me :
    cspec cond c mc -> cid t mt -> cid e me ->
    cspec cond (EIf c t e)
          (bindw mc (fun c' => bindw mt (fun t' => bindw me (fun e' => retw (EIf c' t' e'))))).
  Proof.
    intros H Ht He st r ns xs st' E.
    apply bindw_inv in E. destruct E as (c' & ns1 & xs1 & st1 & ns2 & xs2 & E1 & E2 & -> & ->).
    unfold bindw in E2. rewrite Ht, He in E2. cbn in E2. inversion E2; subst. rewrite !app_nil_r.
    destruct (H _ _ _ _ _ E1) as (N & I & X & V & M & D & S & Hh).
    exists N, I. split; [exact X|split; [|split; [exact M|split; [exact D|split; [exact S|]]]]].
    - cbn [vars]. intros x Hx. rewrite !in_app_iff in *. destruct Hx as [Hx|Hx]; [|tauto].
      apply V in Hx. rewrite in_app_iff in Hx. tauto.
    - intros Hv Hc. cbn [vars] in Hv.
      assert (Hva : incl (vars c) (ex (gvars st))) by (intros x Hx; apply Hv, in_app_iff; now left).
      destruct X as (_ & _ & Fr & _).
      apply hoisted_if_head; auto.
      intros x Hx Hin. apply (in_fresh_not_old _ _ _ Fr Hx). apply Hv. apply in_app_iff. now right.
  Qed.
End Spec.
