(* Two statements without a conflict on their (extended) read/write sets commute
   (up to extensional equality of stores), on stores in which no loop counter is
   live.  Used by C02. *)
From Coq Require Import List ZArith String Bool Arith Lia.
Import ListNotations.
From Dagrt Require Import Lang LangProofs Builder Sched.

Definition disj (a b : list var) : Prop := forall x, In x a -> ~ In x b.

Section Indep.
  Variable tok : var.      (* the execution-state token *)

  Definition barrier (st : stmt) : bool := is_barrier (skd st).
  Definition xr (st : stmt) : list var := reads true true st ++ [tok].
  Definition xw (st : stmt) : list var := writes st ++ (if barrier st then [tok] else []).
  Definition indep (a b : stmt) : Prop :=
    disj (xw a) (xr b ++ xw b) /\ disj (xw b) (xr a ++ xw a).

  Lemma indep_sym a b : indep a b -> indep b a.
  Proof. intros [H1 H2]. split; assumption. Qed.

  Lemma indep_not_barrier a b : indep a b -> barrier a = false /\ barrier b = false.
  Proof.
    intros [H1 H2]. split.
    - destruct (barrier a) eqn:E; [|reflexivity]. exfalso. apply (H1 tok).
      + unfold xw. rewrite E, in_app_iff. right. now left.
      + unfold xr. rewrite !in_app_iff. left. right. now left.
    - destruct (barrier b) eqn:E; [|reflexivity]. exfalso. apply (H2 tok).
      + unfold xw. rewrite E, in_app_iff. right. now left.
      + unfold xr. rewrite !in_app_iff. left. right. now left.
  Qed.

  Lemma disj_dec a b : {disj a b} + {exists x, In x a /\ In x b}.
  Proof.
    induction a as [|x a IH].
    - left. intros x [].
    - destruct (in_dec string_dec x b) as [Hx|Hx].
      + right. exists x. split; [now left|exact Hx].
      + destruct IH as [IH|IH].
        * left. intros y [<-|Hy]; auto.
        * right. destruct IH as (y & Hy1 & Hy2). exists y. split; [now right|exact Hy2].
  Qed.

  Lemma indep_dec a b : {indep a b} + {~ indep a b}.
  Proof.
    unfold indep. destruct (disj_dec (xw a) (xr b ++ xw b)) as [H1|H1].
    - destruct (disj_dec (xw b) (xr a ++ xw a)) as [H2|H2]; [left; auto|].
      right. intros [_ H]. destruct H2 as (x & Hx1 & Hx2). exact (H x Hx1 Hx2).
    - right. intros [H _]. destruct H1 as (x & Hx1 & Hx2). exact (H x Hx1 Hx2).
  Qed.

  (* what "not independent" means in terms of the sets *)
  Lemma not_indep a b : ~ indep a b ->
    (exists x, In x (xw a) /\ In x (xr b ++ xw b)) \/ (exists x, In x (xw b) /\ In x (xr a ++ xw a)).
  Proof.
    intros H. destruct (disj_dec (xw a) (xr b ++ xw b)) as [H1|H1]; [|left; exact H1].
    destruct (disj_dec (xw b) (xr a ++ xw a)) as [H2|H2]; [|right; exact H2].
    exfalso. apply H. split; assumption.
  Qed.
End Indep.

Lemma req_refl S : req S S.
Proof. destruct S; cbn; auto. Qed.
Lemma req_trans a b c : req a b -> req b c -> req a c.
Proof.
  destruct a, b, c; cbn; try tauto.
  - intros [H1 ->] [H2 ->]. split; [intros; now rewrite H1|reflexivity].
  - intros [H1 [-> ->]] [H2 [-> ->]]. split; [intros; now rewrite H1|auto].
  - congruence.
Qed.


Lemma req_sym a b : req a b -> req b a.
Proof.
  destruct a, b; cbn; try tauto.
  - intros [H ->]. split; [intros; now rewrite H|reflexivity].
  - intros [H [-> ->]]. split; [intros; now rewrite H|auto].
  - congruence.
Qed.

Section Comm.
  Variable F : string -> list val -> list (string * val) -> option (list val).
  Variable g : bool.
  Variable tok : var.
  Variable LV : var -> Prop.           (* names used as loop counters anywhere in the phase *)
  Variable U : stmt -> Prop.           (* the statements of the phase *)
  Hypothesis HL : forall st, U st -> forall y, In y (loopvars (skd st)) -> LV y.
  Hypothesis HW : forall st, U st -> forall y, LV y -> ~ In y (writes st).

  Definition clean (S : rstate) : Prop :=
    match S with
    | RRun s _ | RStop s _ _ => forall y, LV y -> s y = None
    | RCrash _ _ => True
    end.

  Lemma step_clean st S : U st -> clean S -> clean (step F g st S).
  Proof.
    intros Hu. destruct S as [s evs| |]; cbn [step]; auto. intros Hc.
    destruct (exec_stmt F g s st) as [a o] eqn:E. cbn [snd].
    destruct o; cbn [clean]; auto.
    eapply exec_stmt_clean; [exact E|exact Hc|]. intros y Hy. apply HW; assumption.
  Qed.

  (* frame turned into a statement about `step` *)
  Lemma step_proper st S S' : req S S' -> req (step F g st S) (step F g st S').
  Proof.
    destruct S as [s evs|s evs w|u], S' as [s' evs'|s' evs' w'|u']; cbn [req step]; try tauto.
    intros [Hs ->].
    destruct (exec_stmt_frame F g (fun _ => True) s s' st (fun _ _ => I) (fun x _ => Hs x)) as [_ H].
    destruct (snd (exec_stmt F g s st)), (snd (exec_stmt F g s' st)); cbn in H; try contradiction; cbn; auto.
    - destruct H as [H ->]. split; [intros x; apply H; exact I|reflexivity].
    - subst. auto.
    - subst. auto.
  Qed.

  Lemma nonbarrier_outcome s st :
    barrier st = false ->
    (exists s', snd (exec_stmt F g s st) = ONext s' None) \/
    snd (exec_stmt F g s st) = OUserExn \/ snd (exec_stmt F g s st) = OCrash.
  Proof.
    unfold barrier, exec_stmt. intros Hb.
    destruct (eval F s (scond st)) as [r v].
    destruct (rbind v _) as [[|]|[|]]; cbn [snd of_rs]; eauto.
    assert (Hrs : forall r0 : rs store, (exists s', of_rs r0 = ONext s' None) \/ of_rs r0 = OUserExn \/ of_rs r0 = OCrash).
    { intros [s0|[|]]; cbn; eauto. }
    destruct (skd st) as [x sub rhs loops|xs f args kw|comp tid time e| | | | ]; try discriminate; cbn [exec_kind].
    - destruct loops as [|l0 ls].
      + destruct (assign_once F s x sub rhs) as [a r0]. cbn [snd]. apply Hrs.
      + destruct (run_loops F (l0 :: ls) _ s) as [a [s1|u]]; cbn [snd]; [|apply Hrs].
        destruct (del_loopvars g (l0 :: ls) s1) as [a2 r2]. cbn [snd]. apply Hrs.
    - destruct (eval_list F s args) as [r1 [pos|u]]; cbn [snd]; [|apply Hrs].
      destruct (eval_list F s (map snd kw)) as [r2 [kws|u]]; cbn [snd]; [|apply Hrs].
      destruct (F f pos _) as [res|]; cbn [snd]; [|auto].
      destruct xs as [|x0 xs0]; cbn [snd]; [eauto|].
      destruct (Nat.eqb _ _); cbn [snd]; [|auto].
      destruct (assign_all s (x0 :: xs0) res). cbn [snd]. eauto.
  Qed.

  (* running b first does not disturb what a looks at *)
  Lemma undisturbed a b s ab sb :
    U a -> U b -> indep tok a b -> (forall y, LV y -> s y = None) ->
    exec_stmt F g s b = (ab, ONext sb None) ->
    agree (FP a) s sb.
  Proof.
    intros Ua Ub [H1 H2] Hc E x Hx.
    destruct (in_dec string_dec x (writes b ++ loopvars (skd b))) as [Hin|Hout].
    - rewrite in_app_iff in Hin. destruct Hin as [Hwb|Hlb].
      + exfalso. unfold FP in Hx. rewrite !in_app_iff in Hx.
        assert (Hxw : In x (xw tok b)) by (unfold xw; rewrite in_app_iff; now left).
        destruct Hx as [Hr|[Hw|Hl]].
        * apply (H2 x Hxw). unfold xr. rewrite !in_app_iff. auto.
        * apply (H2 x Hxw). unfold xw. rewrite !in_app_iff. auto.
        * exact (HW b Ub x (HL a Ua x Hl) Hwb).
      + assert (Lx : LV x) by (eapply HL; eassumption).
        rewrite (Hc x Lx). symmetry.
        eapply (exec_stmt_clean F g s b ab sb None LV E Hc); [|exact Lx].
        intros y Hy. apply HW; assumption.
    - symmetry. eapply exec_stmt_unch; [exact E|exact Hout].
  Qed.

  Lemma frame_same a s s' :
    agree (FP a) s s' ->
    out_agree (FP a) (snd (exec_stmt F g s a)) (snd (exec_stmt F g s' a)).
  Proof. intros H. apply (exec_stmt_frame F g (FP a) s s' a (fun _ Hy => Hy) H). Qed.

  Theorem indep_comm a b S :
    U a -> U b -> indep tok a b -> clean S ->
    req (step F g a (step F g b S)) (step F g b (step F g a S)).
  Proof.
    intros Ua Ub Hi Hc. destruct S as [s evs|s evs w|u]; cbn [step]; [|apply req_refl|apply req_refl].
    cbn [clean] in Hc.
    destruct (indep_not_barrier tok a b Hi) as [Ba Bb].
    destruct (exec_stmt F g s a) as [aa oa] eqn:Ea, (exec_stmt F g s b) as [ab ob] eqn:Eb. cbn [snd].
    pose proof (nonbarrier_outcome s a Ba) as Na. pose proof (nonbarrier_outcome s b Bb) as Nb.
    rewrite Ea in Na. rewrite Eb in Nb. cbn [snd] in Na, Nb.
    destruct Nb as [[sb ->]|[->| ->]].
    - (* b succeeds on s *)
      pose proof (undisturbed a b s ab sb Ua Ub Hi Hc Eb) as Hab.
      pose proof (frame_same a s sb Hab) as Fa. rewrite Ea in Fa. cbn [snd] in Fa.
      destruct Na as [[sa ->]|[->| ->]].
      + (* a succeeds on s *)
        pose proof (undisturbed b a s aa sa Ub Ua (indep_sym tok a b Hi) Hc Ea) as Hba.
        pose proof (frame_same b s sa Hba) as Fb. rewrite Eb in Fb. cbn [snd] in Fb.
        cbn [step app].
        destruct (exec_stmt F g sb a) as [aa' oa'] eqn:Ea'. cbn [snd] in *.
        destruct (exec_stmt F g sa b) as [ab' ob'] eqn:Eb'. cbn [snd] in *.
        destruct oa' as [sab ev1| | | | |]; cbn in Fa; try contradiction.
        destruct ob' as [sba ev2| | | | |]; cbn in Fb; try contradiction.
        destruct Fa as [Fa <-], Fb as [Fb <-]. cbn [req]. split; [|reflexivity].
        intros x.
        assert (Csb : forall y, LV y -> sb y = None).
        { eapply (exec_stmt_clean F g s b ab sb None LV Eb Hc). intros y Hy. apply HW; assumption. }
        assert (Csa : forall y, LV y -> sa y = None).
        { eapply (exec_stmt_clean F g s a aa sa None LV Ea Hc). intros y Hy. apply HW; assumption. }
        assert (Csab : forall y, LV y -> sab y = None).
        { eapply (exec_stmt_clean F g sb a aa' sab None LV Ea' Csb). intros y Hy. apply HW; assumption. }
        assert (Csba : forall y, LV y -> sba y = None).
        { eapply (exec_stmt_clean F g sa b ab' sba None LV Eb' Csa). intros y Hy. apply HW; assumption. }
        destruct Hi as [H1 H2].
        destruct (in_dec string_dec x (writes a ++ loopvars (skd a))) as [Hxa|Hxa].
        * rewrite in_app_iff in Hxa. destruct Hxa as [Hwa|Hla].
          -- (* written by a: b neither writes nor loops over it *)
             assert (Hnb : ~ In x (writes b ++ loopvars (skd b))).
             { rewrite in_app_iff. intros [Hwb|Hlb].
               - apply (H1 x); unfold xw; rewrite !in_app_iff; auto.
               - exact (HW a Ua x (HL b Ub x Hlb) Hwa). }
             rewrite <- (Fa x) by (unfold FP; rewrite !in_app_iff; auto).
             symmetry. eapply exec_stmt_unch; [exact Eb'|exact Hnb].
          -- rewrite (Csab x (HL a Ua x Hla)), (Csba x (HL a Ua x Hla)). reflexivity.
        * destruct (in_dec string_dec x (writes b ++ loopvars (skd b))) as [Hxb|Hxb].
          -- rewrite in_app_iff in Hxb. destruct Hxb as [Hwb|Hlb].
             ++ rewrite <- (Fb x) by (unfold FP; rewrite !in_app_iff; auto).
                eapply exec_stmt_unch; [exact Ea'|exact Hxa].
             ++ rewrite (Csab x (HL b Ub x Hlb)), (Csba x (HL b Ub x Hlb)). reflexivity.
          -- rewrite (exec_stmt_unch F g sb a aa' sab None Ea' x Hxa).
             rewrite (exec_stmt_unch F g sa b ab' sba None Eb' x Hxb).
             rewrite (exec_stmt_unch F g s b ab sb None Eb x Hxb).
             rewrite (exec_stmt_unch F g s a aa sa None Ea x Hxa). reflexivity.
      + (* a raises a user exception on s, hence on sb *)
        cbn [step]. destruct (exec_stmt F g sb a) as [aa' oa']. cbn [snd] in *.
        destruct oa'; cbn in Fa; try contradiction; cbn; rewrite ?app_nil_r; reflexivity.
      + cbn [step]. destruct (exec_stmt F g sb a) as [aa' oa']. cbn [snd] in *.
        destruct oa'; cbn in Fa; try contradiction; cbn; rewrite ?app_nil_r; reflexivity.
    - (* b raises on s: it also raises after a *)
      cbn [step].
      destruct Na as [[sa ->]|[->| ->]]; cbn [step]; try (cbn; rewrite ?app_nil_r; reflexivity).
      pose proof (undisturbed b a s aa sa Ub Ua (indep_sym tok a b Hi) Hc Ea) as Hba.
      pose proof (frame_same b s sa Hba) as Fb. rewrite Eb in Fb. cbn [snd] in Fb.
      destruct (exec_stmt F g sa b) as [ab' ob']. cbn [snd] in *.
      destruct ob'; cbn in Fb; try contradiction; cbn; rewrite ?app_nil_r; reflexivity.
    - cbn [step].
      destruct Na as [[sa ->]|[->| ->]]; cbn [step]; try (cbn; rewrite ?app_nil_r; reflexivity).
      pose proof (undisturbed b a s aa sa Ub Ua (indep_sym tok a b Hi) Hc Ea) as Hba.
      pose proof (frame_same b s sa Hba) as Fb. rewrite Eb in Fb. cbn [snd] in Fb.
      destruct (exec_stmt F g sa b) as [ab' ob']. cbn [snd] in *.
      destruct ob'; cbn in Fb; try contradiction; cbn; rewrite ?app_nil_r; reflexivity.
  Qed.
End Comm.
