(* C19 -- the main induction: for e in parser-normal form, parsing (at any admissible level)
   the un-parenthesised tokens of e followed by `rest` behaves like continuing the operator loop
   with e as left operand on `rest`. *)
From Coq Require Import List ZArith NArith String Ascii Bool Arith Lia ZifyBool.
Import ListNotations.
From Dagrt Require Import GenC19 Print Parse ParseRules RoundTrip RoundTrip2 RoundTrip3.
Open Scope list_scope.
Open Scope nat_scope.
Notation length := List.length.

(* lia / unfolding of the precedence constants on a context reduced to its arithmetic facts
   (the boolean and parser hypotheses make zify very slow) *)
Ltac keep_arith :=
  repeat match goal with
         | H : ?T |- _ =>
           lazymatch T with
           | (_ < _) => fail
           | (_ <= _) => fail
           | (@eq nat _ _) => fail
           | _ => match type of T with Prop => clear H end
           end
         end.
Ltac cs' := keep_arith; cs.
Ltac alia := keep_arith; lia.
Ltac len := keep_arith; cbn [length]; rewrite ?app_length; cbn [length]; rewrite ?app_length; cbn [length]; lia.

Ltac split_and H :=
  repeat match type of H with
         | (_ && _ = true) => let H2 := fresh H in apply andb_true_iff in H as [H H2]
         end.

Lemma follow_ge m t r k :
  follow k (t :: r) = true -> k <= m -> follow m (t :: r) = true.
Proof. intros H Hk. eapply follow_mono; eauto. Qed.

Lemma nonempty_app (a : list token) t b : a ++ t :: b <> [].
Proof. destruct a; discriminate. Qed.

Definition P0 (e : expr) : Prop := nf e = true -> is_tuple e = false -> Body e.
(* the elements of a tuple index are reached through the second component *)
Definition Q (e : expr) : Prop := P0 e /\ forall l, e = ETuple l -> Forall P0 l.

Theorem body_all_Q : forall e, Q e.
Proof.
  induction e using expr_ind';
    (split; [intros Hnf Htup p rest r Hp Hfo HL | intros l' El; try discriminate El]).
  - (* EInt *)
    unfold B. cbn [print]. cbn [redge0] in Hfo. destruct (z <? 0)%Z eqn:Hz.
    + rewrite ltb_0. cbn [paren_if app].
      eapply PE_intro; [intros f Hf; rewrite (prefix_minus_int _ _ Hfo f Hf), Z2N.id by lia;
                        rewrite Z.opp_involutive; reflexivity | len | exact HL].
    + cbn [app]. eapply PE_intro; [intros f Hf; rewrite prefix_int, Z2N.id by lia; reflexivity | len | exact HL].
  - (* EBool *)
    unfold B. cbn [print app].
    destruct b; (eapply PE_intro; [intros; first [apply prefix_true | apply prefix_false] | len | exact HL]).
  - (* EVar *)
    unfold B. cbn [print]. destruct (var_toks_cases x) as [->|(t & u & Hx & ->)].
    + cbn [app]. eapply PE_intro; [intros; apply prefix_id | len | exact HL].
    + subst x. destruct u as [|c u]; cbn [app].
      * eapply PE_intro; [intros; apply prefix_tag1 | len | exact HL].
        cbn [redge0] in Hfo. destruct rest as [|[] ?]; try exact I. discriminate.
      * eapply PE_intro; [intros; apply prefix_tag2 | len | exact HL].
  - (* ENary *)
    cbn [nf] in Hnf. destruct l as [|a [|b [|]]]; try discriminate.
    inversion H as [|? ? [IHa _] H']; subst. inversion H' as [|? ? [IHb _] _]; subst. clear H H'.
    apply andb_true_iff in Hnf as [Hnf Hop]. apply andb_true_iff in Hnf as [Hoa Hob].
    apply okc_elim in Hoa as [Ha Hta]. apply okc_elim in Hob as [Hb Htb].
    specialize (IHa Ha Hta). specialize (IHb Hb Htb).
    rewrite B_nary2. cbn [top_lvl] in Hp. cbn [redge0] in Hfo.
    destruct o; cbn [chn nary_prec nary_tok].
    + (* Sum *)
      split_and Hop. apply negb_true_iff in Hop.
      apply (child_PE a IHa Ha Hta); [cs'; lia | intros E; pose proof (top_ge_sum a E); alia | |].
      * pose proof (redge_sum a). apply follow_tok; [reflexivity|]. cbn [accepts]. apply Nat.ltb_ge. cs'. lia.
      * eapply LP_step; [discriminate | apply postfix_plus with (b := b) (r' := rest) | len | exact HL].
        -- apply Nat.ltb_lt. exact Hp.
        -- apply (child_PE b IHb Hb Htb); [cs'; lia | intros E; pose proof (top_gt_sum b E Hop); alia | |].
           ++ eapply follow_mono; [|exact Hfo]. pose proof (redge_sum b). cs'. lia.
           ++ apply LP_stop. exact Hfo.
        -- assumption.
        -- assumption.
    + (* Product *)
      split_and Hop. apply negb_true_iff in Hop.
      assert (Hma : is_qfr a = false -> is_mult a = false).
      { intros Hq. destruct a; try reflexivity; [destruct o; try reflexivity; discriminate Hop | exact Hq]. }
      assert (HPa : forall rest' r', LP p a false rest' r' ->
                      follow PA_TIMES rest' = true -> PE p (chn NProd a ++ rest') r').
      { intros rest' r' HL' Hfo'. cbn [chn]. destruct (is_qfr a) eqn:Hq; cbn [paren_if].
        - assert (E : print [] PR_PRODUCT a = B a).
          { destruct a; try discriminate. destruct o; try discriminate; unfold B; cbn [print]; rewrite ltb_0;
              reflexivity. }
          rewrite E. apply forced_paren_PE; auto.
        - apply (child_PE a IHa Ha Hta); [cs'; lia | intros E; pose proof (top_ge_prod a E); cs'; lia | | exact HL'].
          eapply follow_mono; [|exact Hfo']. apply redge_nonmult. auto. }
      apply HPa; [|apply follow_tok; [reflexivity|]; cbn [accepts]; apply Nat.ltb_ge; cs'; lia].
      eapply LP_step; [discriminate | apply postfix_times with (b := b) (r' := rest) | len | exact HL].
      * apply Nat.ltb_lt. exact Hp.
      * cbn [chn]. destruct (is_qfr b) eqn:Hq; cbn [paren_if].
        -- assert (E : print [] PR_PRODUCT b = B b).
           { destruct b; try discriminate. destruct o; try discriminate; unfold B; cbn [print]; rewrite ltb_0;
               reflexivity. }
           rewrite E. apply forced_paren_PE; auto. apply LP_stop. exact Hfo.
        -- apply (child_PE b IHb Hb Htb); [cs'; lia | intros E; pose proof (top_ge_prod b E); cs'; lia | |].
           ++ eapply follow_mono; [|exact Hfo]. pose proof (redge_prod b). cs'. lia.
           ++ apply LP_stop. exact Hfo.
      * assumption.
      * assumption.
    + (* And *)
      apply negb_true_iff in Hop.
      apply (child_PE a IHa Ha Hta); [cs'; lia | intros E; pose proof (top_ge_and a E); alia | |].
      * pose proof (redge_and a). apply follow_tok; [reflexivity|]. cbn [accepts]. apply Nat.ltb_ge. cs'. lia.
      * eapply LP_step; [discriminate | apply postfix_and with (b := b) (r' := rest) | len | exact HL].
        -- apply Nat.ltb_lt. exact Hp.
        -- apply (child_PE b IHb Hb Htb); [cs'; lia | intros E; pose proof (top_gt_and b E Hop); alia | |].
           ++ eapply follow_mono; [|exact Hfo]. pose proof (redge_and b). cs'. lia.
           ++ apply LP_stop. exact Hfo.
    + (* Or *)
      apply negb_true_iff in Hop.
      apply (child_PE a IHa Ha Hta); [cs'; lia | intros E; pose proof (top_ge_or a E); alia | |].
      * pose proof (redge_or a). apply follow_tok; [reflexivity|]. cbn [accepts]. apply Nat.ltb_ge. cs'. lia.
      * eapply LP_step; [discriminate | apply postfix_or with (b := b) (r' := rest) | len | exact HL].
        -- apply Nat.ltb_lt. exact Hp.
        -- apply (child_PE b IHb Hb Htb); [cs'; lia | intros E; pose proof (top_gt_or b E Hop); alia | |].
           ++ eapply follow_mono; [|exact Hfo]. pose proof (redge_or b). cs'. lia.
           ++ apply LP_stop. exact Hfo.
  - (* EBin *)
    cbn [nf] in Hnf.
    apply andb_true_iff in Hnf as [Hnf Hop]. apply andb_true_iff in Hnf as [Hoa Hob].
    apply okc_elim in Hoa as [Ha Hta]. apply okc_elim in Hob as [Hb Htb].
    destruct IHe1 as [IHe1 _]. destruct IHe2 as [IHe2 _].
    specialize (IHe1 Ha Hta). specialize (IHe2 Hb Htb).
    rewrite B_bin. cbn [top_lvl] in Hp. cbn [redge0] in Hfo.
    assert (HM : forall c, Body c -> nf c = true -> is_tuple c = false ->
                 forall p' rest' r', p' <= PA_TIMES ->
                   LP p' c false rest' r' -> follow PA_TIMES rest' = true ->
                   PE p' (paren_if (is_mult c) (print [] PR_PRODUCT c) ++ rest') r').
    { intros c HB Hc Htc p' rest' r' Hp' HL' Hfo'. destruct (is_mult c) eqn:Hm; cbn [paren_if].
      - assert (E : print [] PR_PRODUCT c = B c).
        { destruct c; try discriminate; [|destruct o0; try discriminate]; unfold B; cbn [print]; rewrite ?ltb_0;
            try reflexivity. destruct o0; try discriminate; reflexivity. }
        rewrite E. apply forced_paren_PE; auto.
      - apply (child_PE c HB Hc Htc); [cs'; lia | | | exact HL'].
        + intros E. pose proof (top_gt_nonmult c E Hm). alia.
        + eapply follow_mono; [|exact Hfo']. apply redge_nonmult. exact Hm. }
    destruct o; cbn [chb bin_prec bin_tok].
    + (* Quotient *)
      split_and Hop.
      apply (HM e1 IHe1 Ha Hta); [cs'; lia | | apply follow_tok; [reflexivity|]; cbn [accepts]; apply Nat.ltb_ge; cs'; lia].
      eapply LP_step; [discriminate | apply postfix_over with (b := e2) (r' := rest) | len | exact HL];
        [apply Nat.ltb_lt; exact Hp | | assumption | assumption].
      apply (HM e2 IHe2 Hb Htb); [cs'; lia | apply LP_stop; exact Hfo | eapply follow_mono; [|exact Hfo]; cs'; lia].
    + (* FloorDiv *)
      split_and Hop.
      apply (HM e1 IHe1 Ha Hta); [cs'; lia | | apply follow_tok; [reflexivity|]; cbn [accepts]; apply Nat.ltb_ge; cs'; lia].
      eapply LP_step; [discriminate | apply postfix_floordiv with (b := e2) (r' := rest) | len | exact HL];
        [apply Nat.ltb_lt; exact Hp | | assumption | assumption].
      apply (HM e2 IHe2 Hb Htb); [cs'; lia | apply LP_stop; exact Hfo | eapply follow_mono; [|exact Hfo]; cs'; lia].
    + (* Remainder *)
      split_and Hop.
      apply (HM e1 IHe1 Ha Hta); [cs'; lia | | apply follow_tok; [reflexivity|]; cbn [accepts]; apply Nat.ltb_ge; cs'; lia].
      eapply LP_step; [discriminate | apply postfix_mod with (b := e2) (r' := rest) | len | exact HL];
        [apply Nat.ltb_lt; exact Hp | | assumption | assumption].
      apply (HM e2 IHe2 Hb Htb); [cs'; lia | apply LP_stop; exact Hfo | eapply follow_mono; [|exact Hfo]; cs'; lia].
    + (* Power *)
      split_and Hop. apply negb_true_iff in Hop.
      apply (child_PE e1 IHe1 Ha Hta); [cs'; lia | intros E; pose proof (top_ge_pow e1 E); cs'; lia | |].
      * pose proof (redge_nonpow e1 Hop). apply follow_tok; [reflexivity|]. cbn [accepts].
        apply Nat.ltb_ge. cs'. lia.
      * eapply LP_step; [discriminate | apply postfix_pow with (b := e2) (r' := rest) | len | exact HL];
          [apply Nat.ltb_lt; exact Hp | | assumption | assumption].
        apply (child_PE e2 IHe2 Hb Htb); [cs'; lia | intros E; pose proof (top_ge_pow e2 E); cs'; lia | |].
        -- eapply follow_mono; [|exact Hfo]. pose proof (redge_pow e2). cs'. lia.
        -- apply LP_stop. exact Hfo.
    + (* Comparison *)
      apply negb_true_iff in Hop.
      apply (child_PE e1 IHe1 Ha Hta); [cs'; lia | intros E; pose proof (top_ge_cmp e1 E); alia | |].
      * pose proof (redge_cmp e1). apply follow_tok; [reflexivity|]. cbn [accepts]. apply Nat.ltb_ge. cs'. lia.
      * eapply LP_step; [discriminate | apply postfix_cmp with (b := e2) (r' := rest) | len | exact HL];
          [apply Nat.ltb_lt; exact Hp | ].
        apply (child_PE e2 IHe2 Hb Htb); [cs'; lia | intros E; pose proof (top_gt_cmp e2 E Hop); alia | |].
        -- eapply follow_mono; [|exact Hfo]. pose proof (redge_cmp e2). cs'. lia.
        -- apply LP_stop. exact Hfo.
  - (* ENot *)
    cbn [nf] in Hnf. apply okc_elim in Hnf as [Ha Hta]. destruct IHe as [IHe _]. specialize (IHe Ha Hta).
    rewrite B_not. cbn [redge0] in Hfo.
    eapply PE_intro; [apply prefix_not with (p := PA_UNARY) (a := e) (r' := rest); [reflexivity|] | len | exact HL].
    apply (child_PE e IHe Ha Hta); [cs'; lia | intros E; apply (top_gt_unary e E) | |].
    + eapply follow_mono; [|exact Hfo]. pose proof (redge_unary e). cs'. lia.
    + apply LP_stop. eapply follow_mono; [|exact Hfo]. cs'. lia.
  - (* EIf *)
    cbn [nf] in Hnf. apply andb_true_iff in Hnf as [Hnf Ho3]. apply andb_true_iff in Hnf as [Ho1 Ho2].
    apply okc_elim in Ho1 as [H1 Ht1]. apply okc_elim in Ho2 as [H2 Ht2]. apply okc_elim in Ho3 as [H3 Ht3].
    destruct IHe1 as [IHe1 _]. destruct IHe2 as [IHe2 _]. destruct IHe3 as [IHe3 _].
    specialize (IHe1 H1 Ht1). specialize (IHe2 H2 Ht2). specialize (IHe3 H3 Ht3).
    rewrite B_if. cbn [top_lvl] in Hp. cbn [redge0] in Hfo.
    apply (child_PE e2 IHe2 H2 Ht2); [cs'; lia | intros E; pose proof (top_ge_or e2 E); cs'; lia | |].
    + pose proof (redge_or e2). apply follow_tok; [reflexivity|]. cbn [accepts]. apply Nat.ltb_ge. cs'. lia.
    + eapply LP_step; [discriminate
                      | apply postfix_if with (c := e1) (e := e3) (r3 := rest)
                                               (r2 := print [] PR_LOGICAL_OR e3 ++ rest)
                      | len | exact HL].
      * apply Nat.ltb_lt. exact Hp.
      * apply nonempty_app.
      * apply (child_PE e1 IHe1 H1 Ht1); [cs'; lia | intros E; pose proof (top_ge_or e1 E); cs'; lia
                                         | apply follow_else | apply LP_stop; apply follow_else].
      * apply (child_PE e3 IHe3 H3 Ht3); [cs'; lia | intros E; pose proof (top_ge_or e3 E); cs'; lia | |].
        -- eapply follow_mono; [|exact Hfo]. alia.
        -- apply LP_stop. exact Hfo.
  - (* ECall *)
    cbn [nf] in Hnf.
    apply andb_true_iff in Hnf as [Hnf Habl]. apply andb_true_iff in Hnf as [Hnf Hnd].
    apply andb_true_iff in Hnf as [Hnf Hkw]. apply andb_true_iff in Hnf as [Hnf Hargs].
    apply okc_elim in Hnf as [Hf Htf]. destruct IHe as [IHe _]. specialize (IHe Hf Htf).
    rewrite B_call. cbn [top_lvl] in Hp.
    apply (child_PE e IHe Hf Htf); [cs'; lia | intros E; pose proof (top_ge_call e E); alia | |].
    + pose proof (redge_call e). apply follow_tok; [reflexivity|]. cbn [accepts]. apply Nat.ltb_ge. cs'. lia.
    + eapply LP_step; [discriminate | apply postfix_call with (args := args) (kw := kw) (r' := rest) | len | exact HL].
      * apply Nat.ltb_lt. exact Hp.
      * apply AL_items; auto.
        -- rewrite Forall_forall in H. apply Forall_forall. intros c Hc.
           rewrite forallb_forall in Hargs. specialize (Hargs c Hc). apply okc_elim in Hargs as [? ?].
           split; [apply (proj1 (H c Hc)); assumption | split; assumption].
        -- rewrite Forall_forall in H0. apply Forall_forall. intros kv Hkv.
           rewrite forallb_forall in Hkw. specialize (Hkw kv Hkv). apply okc_elim in Hkw as [? ?].
           split; [apply (proj1 (H0 kv Hkv)); assumption | split; assumption].
  - (* ESub *)
    cbn [nf] in Hnf. apply andb_true_iff in Hnf as [Hoa Hi].
    apply okc_elim in Hoa as [Ha Hta]. destruct IHe1 as [IHe1 _]. destruct IHe2 as [IHe2 IHe2t].
    specialize (IHe1 Ha Hta).
    rewrite B_sub. cbn [top_lvl] in Hp.
    apply (child_PE e1 IHe1 Ha Hta); [cs'; lia | intros E; pose proof (top_ge_call e1 E); alia | |].
    + pose proof (redge_call e1). apply follow_tok; [reflexivity|]. cbn [accepts]. apply Nat.ltb_ge. cs'. lia.
    + eapply LP_step; [discriminate | apply postfix_sub with (i := e2) (r2 := rest) | len | exact HL].
      * apply Nat.ltb_lt. exact Hp.
      * apply nonempty_app.
      * destruct (is_tuple e2) eqn:Hte.
        -- (* tuple index *)
           destruct e2 as [| | | | | | | | |l]; try discriminate. cbn [idx_toks].
           apply andb_true_iff in Hi as [Hi Hi1]. apply andb_true_iff in Hi as [Hi Hi0].
           destruct l as [|i1 [|i2 l]]; try discriminate.
           cbn [forallb] in Hi0. apply andb_true_iff in Hi0 as [Ho1 Hi0]. apply andb_true_iff in Hi0 as [Ho2 Hi3].
           apply okc_elim in Ho1 as [Hn1 Hti1]. apply okc_elim in Ho2 as [Hn2 Hti2].
           specialize (IHe2t _ eq_refl).
           inversion IHe2t as [|? ? IH1 IHt']; subst. inversion IHt' as [|? ? IH2 IHl]; subst.
           cbn [all_but_last] in Hi1. apply andb_true_iff in Hi1 as [Hnif1 Habl].
           apply negb_true_iff in Hnif1.
           change (map (print [] PR_NONE) (i1 :: i2 :: l))
             with (print [] PR_NONE i1 :: map (print [] PR_NONE) (i2 :: l)).
           rewrite join_cons. fold (arg_tail (i2 :: l)). rewrite arg_tail_cons, <- app_assoc.
           cbn [app]. rewrite <- app_assoc.
           apply (child_PE i1 (IH1 Hn1 Hti1) Hn1 Hti1);
             [cs'; lia | intros _; pose proof (top_lvl_min i1); cs'; lia | |].
           ++ pose proof (redge_nonif i1 Hnif1). apply follow_tok; [reflexivity|]. cbn [accepts].
              apply Nat.ltb_ge. cs'. lia.
           ++ eapply LP_step with (l' := ETuple [i1; i2]) (ts' := arg_tail l ++ TRBrk :: rest).
              ** discriminate.
              ** intros f Hf.
                 rewrite (postfix_comma 0 i1 false _ i2 (arg_tail l ++ TRBrk :: rest)); auto.
                 --- destruct i1; try reflexivity. discriminate.
                 --- apply head_of_start. apply (start_print i2 Hn2 Hti2); try (cs'; lia).
                     destruct l; cbn; exact I.
                 --- apply item_PE; auto. apply item_next_tail; [|exact I].
                     destruct l as [|i3 l]; [left; reflexivity|right].
                     cbn [all_but_last] in Habl. apply andb_true_iff in Habl as [Hn _].
                     apply negb_true_iff in Hn. exact Hn.
              ** len.
              ** apply (tuple_tail_LP rest l [i1; i2]).
                 --- apply Forall_forall. intros c Hc. rewrite Forall_forall in IHl.
                     rewrite forallb_forall in Hi3. specialize (Hi3 c Hc). apply okc_elim in Hi3 as [? ?].
                     split; [apply IHl; assumption | split; assumption].
                 --- destruct l as [|i3 l]; [reflexivity|].
                     cbn [all_but_last] in Habl. apply andb_true_iff in Habl as [_ Habl]. exact Habl.
        -- assert (Hn2 : nf e2 = true) by (destruct e2; try discriminate; exact Hi).
           replace (idx_toks e2) with (print [] PR_NONE e2) by (destruct e2; try reflexivity; discriminate).
           apply (child_PE e2 (IHe2 Hn2 Hte) Hn2 Hte);
             [cs'; lia | intros _; pose proof (top_lvl_min e2); cs'; lia | apply follow_rbrk
              | apply LP_stop; apply follow_rbrk].
  - (* ETuple *) discriminate.
  - injection El as <-. eapply Forall_impl; [|exact H]. intros c [Hc _]. exact Hc.
Qed.

Theorem body_all : forall e, nf e = true -> is_tuple e = false -> Body e.
Proof. intros e. apply (proj1 (body_all_Q e)). Qed.
