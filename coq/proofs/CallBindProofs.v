(* C01, call argument binding: dagrt.utils.resolve_args (what generated code does when it is
   generated) computes Python's call binding (what the interpreter does when it runs). *)
From Coq Require Import String List Bool Arith Lia Permutation.
Import ListNotations.
From Dagrt Require Import CallBind.
Open Scope string_scope.
Open Scope list_scope.

Lemma forget_some : forall (E A : Type) (r : res E A) a, forget r = Some a <-> r = Ok a.
Proof. intros E A [x|e] a; simpl; split; intro H; inversion H; reflexivity. Qed.

Lemma forget_none : forall (E A : Type) (r : res E A), forget r = None <-> exists e, r = Err e.
Proof.
  intros E A [x|e]; simpl; split; intro H.
  - discriminate.
  - destruct H as [e H]; discriminate.
  - exists e; reflexivity.
  - reflexivity.
Qed.

Section Proofs.
Context {V : Type}.
Variable defs : list (string * V).

(* name-keyed pop, the image of d_pop (KName _) on the keyword part of the dict *)
Fixpoint pop (n : string) (l : list (string * V)) : option (V * list (string * V)) :=
  match l with
  | [] => None
  | (k, v) :: r =>
      if String.eqb n k then Some (v, r)
      else match pop n r with
           | Some (w, r') => Some (w, (k, v) :: r')
           | None => None
           end
  end.

Definition has (n : string) (l : list (string * V)) : bool :=
  existsb (fun p => String.eqb n (fst p)) l.

Definition okb (o : option perr) : bool := match o with None => true | Some _ => false end.

Definition fin (sl : list (string * option V)) : res perr (list V) :=
  match missing sl with [] => Ok (values sl) | m => Err (PMissing m) end.

(* ------------------------------------------------------------------ lists with names *)

Lemma has_false_notin : forall n l, has n l = false <-> ~ In n (map fst l).
Proof.
  intros n l; induction l as [|[k v] r IH]; simpl.
  - split; [intros _ H; exact H | reflexivity].
  - rewrite orb_false_iff, IH. split.
    + intros [E Hr] [H|H]; [subst k; rewrite String.eqb_refl in E; discriminate | exact (Hr H)].
    + intro H; split.
      * destruct (String.eqb n k) eqn:E; [|reflexivity]. apply String.eqb_eq in E. exfalso; apply H; left; symmetry; exact E.
      * intro Hin; apply H; right; exact Hin.
Qed.

Lemma lookup_some_in : forall n (l : list (string * V)) v, lookup n l = Some v -> In n (map fst l).
Proof.
  intros n l v; induction l as [|[k w] r IH]; simpl; [discriminate|].
  destruct (String.eqb n k) eqn:E.
  - intros _; left; symmetry; apply String.eqb_eq; exact E.
  - intro H; right; exact (IH H).
Qed.

Lemma lookup_none_notin : forall n (l : list (string * V)), lookup n l = None -> ~ In n (map fst l).
Proof.
  intros n l; induction l as [|[k w] r IH]; simpl; [intros _ H; exact H|].
  destruct (String.eqb n k) eqn:E; [discriminate|].
  intros H [Hk|Hr]; [subst k; rewrite String.eqb_refl in E; discriminate | exact (IH H Hr)].
Qed.

Lemma in_lookup : forall n v (l : list (string * V)),
  NoDup (map fst l) -> In (n, v) l -> lookup n l = Some v.
Proof.
  intros n v l; induction l as [|[k w] r IH]; simpl; intros Hnd Hin; [contradiction|].
  inversion Hnd as [|x xs Hk Hr]; subst.
  destruct Hin as [Heq|Hin].
  - inversion Heq; subst. rewrite String.eqb_refl; reflexivity.
  - destruct (String.eqb n k) eqn:E.
    + apply String.eqb_eq in E; subst k. exfalso; apply Hk.
      change n with (fst (n, v)); apply in_map; exact Hin.
    + exact (IH Hr Hin).
Qed.

Lemma pop_none : forall n l, pop n l = None -> has n l = false /\ lookup n l = None.
Proof.
  intros n l; induction l as [|[k v] r IH]; simpl; [intros _; split; reflexivity|].
  destruct (String.eqb n k) eqn:E; [discriminate|].
  destruct (pop n r) as [[w r']|]; [discriminate|].
  intros _; destruct (IH eq_refl) as [H1 H2]; split; assumption.
Qed.

Lemma pop_some_lookup : forall n l v l', pop n l = Some (v, l') -> lookup n l = Some v.
Proof.
  intros n l; induction l as [|[k w] r IH]; simpl; intros v l' H; [discriminate|].
  destruct (String.eqb n k) eqn:E.
  - inversion H; reflexivity.
  - destruct (pop n r) as [[w' r']|] eqn:Hp; [|discriminate].
    inversion H; subst. exact (IH _ _ eq_refl).
Qed.

Lemma pop_lookup_other : forall n l v l' m,
  pop n l = Some (v, l') -> m <> n -> lookup m l' = lookup m l.
Proof.
  intros n l; induction l as [|[k w] r IH]; simpl; intros v l' m H Hm; [discriminate|].
  destruct (String.eqb n k) eqn:E.
  - inversion H; subst. apply String.eqb_eq in E; subst k.
    destruct (String.eqb m n) eqn:E2; [apply String.eqb_eq in E2; contradiction | reflexivity].
  - destruct (pop n r) as [[w' r']|] eqn:Hp; [|discriminate].
    inversion H; subst. simpl. rewrite (IH _ _ m eq_refl Hm). reflexivity.
Qed.

Lemma pop_nodup : forall n l v l',
  pop n l = Some (v, l') -> NoDup (map fst l) -> NoDup (map fst l') /\ incl (map fst l') (map fst l).
Proof.
  intros n l; induction l as [|[k w] r IH]; simpl; intros v l' H Hnd; [discriminate|].
  inversion Hnd as [|x xs Hk Hr]; subst.
  destruct (String.eqb n k) eqn:E.
  - inversion H; subst. split; [exact Hr | intros x Hx; right; exact Hx].
  - destruct (pop n r) as [[w' r']|] eqn:Hp; [|discriminate].
    inversion H; subst. destruct (IH _ _ eq_refl Hr) as [Hn Hi]. simpl. split.
    + constructor; [intro Hin; apply Hk; apply Hi; exact Hin | exact Hn].
    + intros x [Hx|Hx]; [left; exact Hx | right; apply Hi; exact Hx].
Qed.

Lemma In_skipn : forall (A : Type) (x : A) k l, In x (skipn k l) -> In x l.
Proof.
  intros A x k; induction k as [|k IH]; intros l H; [exact H|].
  destruct l as [|y r]; [exact H|]. right; apply IH; exact H.
Qed.

Lemma NoDup_skipn : forall (A : Type) k (l : list A), NoDup l -> NoDup (skipn k l).
Proof.
  intros A k; induction k as [|k IH]; intros l H; [exact H|].
  destruct l as [|y r]; [exact H|]. inversion H; subst. apply IH; assumption.
Qed.

Lemma map_fst_combine : forall (A B : Type) (a : list A) (b : list B),
  List.length a = List.length b -> map fst (combine a b) = a.
Proof.
  intros A B a; induction a as [|x a IH]; intros [|y b] H; simpl in *; try discriminate; [reflexivity|].
  f_equal; apply IH; lia.
Qed.

(* ------------------------------------------------------------------ the dict *)

Lemma d_pop_kpos_kw : forall i (kws : list (string * V)), d_pop (KPos i) (kw_entries kws) = None.
Proof. intros i kws; induction kws as [|[k v] r IH]; simpl; [reflexivity|]. rewrite IH; reflexivity. Qed.

Lemma d_pop_kname_kw : forall n (kws : list (string * V)),
  d_pop (KName n) (kw_entries kws) =
  match pop n kws with Some (v, l) => Some (v, kw_entries l) | None => None end.
Proof.
  intros n kws; induction kws as [|[k v] r IH]; simpl; [reflexivity|].
  destruct (String.eqb n k); [reflexivity|].
  rewrite IH. destruct (pop n r) as [[w r']|]; reflexivity.
Qed.

Lemma d_mem_kname : forall n j (p : list V) (kws : list (string * V)),
  d_mem (KName n) (pos_entries j p ++ kw_entries kws) = has n kws.
Proof.
  intros n j p; revert j; induction p as [|v p IH]; intros j kws; simpl.
  - unfold d_mem, has, kw_entries. induction kws as [|[k w] r IHk]; [reflexivity|].
    cbn [map existsb fst snd]. rewrite IHk. reflexivity.
  - unfold d_mem in *. cbn [pos_entries app existsb fst key_eqb orb]. apply IH.
Qed.

(* ------------------------------------------------------------------ Python's rule, one parameter at a time *)

Lemma forget_py_bind : forall names pos kws,
  forget (py_bind names defs pos kws) =
  if okb (kw_check names (List.length pos) kws) && negb (Nat.ltb (List.length names) (List.length pos))
  then forget (fin (slots names pos kws defs)) else None.
Proof.
  intros names pos kws; unfold py_bind, fin.
  destruct (kw_check names (List.length pos) kws); simpl; [reflexivity|].
  destruct (Nat.ltb (List.length names) (List.length pos)); reflexivity.
Qed.

Lemma forget_fin_some : forall n v sl,
  forget (fin ((n, Some v) :: sl)) = option_map (cons v) (forget (fin sl)).
Proof. intros n v sl; unfold fin; simpl. destruct (missing sl); reflexivity. Qed.

Lemma forget_fin_none : forall n sl, forget (fin ((n, None) :: sl)) = None.
Proof. intros n sl; reflexivity. Qed.

Lemma kw_check_peel : forall name rest np np' (l : list (string * V)),
  has name l = false -> (forall j, Nat.ltb (S j) np' = Nat.ltb j np) ->
  kw_check (name :: rest) np' l = kw_check rest np l.
Proof.
  intros name rest np np' l; induction l as [|[k w] r IH]; simpl; intros Hh Hlt; [reflexivity|].
  apply orb_false_iff in Hh; destruct Hh as [E Hr].
  rewrite String.eqb_sym, E.
  destruct (index_of k rest) as [j|]; simpl; [|reflexivity].
  rewrite Hlt. destruct (Nat.ltb j np); [reflexivity | exact (IH Hr Hlt)].
Qed.

Lemma kw_check_has : forall name rest np (l : list (string * V)),
  has name l = true -> okb (kw_check (name :: rest) (S np) l) = false.
Proof.
  intros name rest np l; induction l as [|[k w] r IH]; simpl; intro Hh; [discriminate|].
  destruct (String.eqb name k) eqn:E.
  - rewrite String.eqb_sym, E. reflexivity.
  - simpl in Hh. rewrite String.eqb_sym, E.
    destruct (index_of k rest) as [j|]; simpl; [|reflexivity].
    destruct (Nat.ltb (S j) (S np)); [reflexivity | exact (IH Hh)].
Qed.

Lemma kw_check_pop : forall name rest (l : list (string * V)) v l',
  pop name l = Some (v, l') -> NoDup (map fst l) ->
  okb (kw_check (name :: rest) 0 l) = okb (kw_check rest 0 l').
Proof.
  intros name rest l; induction l as [|[k w] r IH]; simpl; intros v l' Hp Hnd; [discriminate|].
  inversion Hnd as [|x xs Hk Hr]; subst.
  destruct (String.eqb name k) eqn:E.
  - inversion Hp; subst. rewrite String.eqb_sym, E. simpl.
    apply String.eqb_eq in E; subst k.
    rewrite (kw_check_peel name rest 0 0 l'); [reflexivity | apply has_false_notin; exact Hk | reflexivity].
  - destruct (pop name r) as [[w' r']|] eqn:Hpr; [|discriminate].
    inversion Hp; subst. rewrite String.eqb_sym, E. simpl.
    destruct (index_of k rest) as [j|]; simpl; [|reflexivity].
    exact (IH _ _ eq_refl Hr).
Qed.

Lemma slots_ext : forall names (k1 k2 : list (string * V)),
  (forall n, In n names -> lookup n k1 = lookup n k2) ->
  slots names [] k1 defs = slots names [] k2 defs.
Proof.
  intros names k1 k2; induction names as [|n r IH]; intro H; simpl; [reflexivity|].
  rewrite (H n (or_introl eq_refl)). f_equal. apply IH. intros m Hm; apply H; right; exact Hm.
Qed.

Lemma py_bind_pos : forall name rest v pos' kws,
  has name kws = false ->
  forget (py_bind (name :: rest) defs (v :: pos') kws) =
  option_map (cons v) (forget (py_bind rest defs pos' kws)).
Proof.
  intros name rest v pos' kws Hh. rewrite !forget_py_bind. simpl List.length.
  rewrite (kw_check_peel name rest (List.length pos') (S (List.length pos')) kws Hh (fun j => eq_refl)).
  change (Nat.ltb (S (List.length rest)) (S (List.length pos')))
    with (Nat.ltb (List.length rest) (List.length pos')).
  simpl slots.
  destruct (okb (kw_check rest (List.length pos') kws) && negb (Nat.ltb (List.length rest) (List.length pos')));
    [apply forget_fin_some | reflexivity].
Qed.

Lemma py_bind_dup : forall name rest v pos' kws,
  has name kws = true -> forget (py_bind (name :: rest) defs (v :: pos') kws) = None.
Proof.
  intros name rest v pos' kws Hh. rewrite forget_py_bind. simpl List.length.
  rewrite (kw_check_has name rest (List.length pos') kws Hh). reflexivity.
Qed.

Lemma py_bind_pop : forall name rest kws v kws',
  pop name kws = Some (v, kws') -> NoDup (name :: rest) -> NoDup (map fst kws) ->
  forget (py_bind (name :: rest) defs [] kws) = option_map (cons v) (forget (py_bind rest defs [] kws')).
Proof.
  intros name rest kws v kws' Hp Hn Hk. rewrite !forget_py_bind. simpl List.length.
  rewrite (kw_check_pop name rest kws v kws' Hp Hk).
  change (Nat.ltb (S (List.length rest)) 0) with false.
  change (Nat.ltb (List.length rest) 0) with false.
  simpl slots. rewrite (pop_some_lookup _ _ _ _ Hp).
  rewrite (slots_ext rest kws kws').
  - destruct (okb (kw_check rest 0 kws') && negb false); [apply forget_fin_some | reflexivity].
  - intros n Hin. symmetry. apply (pop_lookup_other name kws v kws' n Hp).
    intro Heq; subst n. inversion Hn; contradiction.
Qed.

Lemma py_bind_default : forall name rest kws v,
  pop name kws = None -> lookup name defs = Some v ->
  forget (py_bind (name :: rest) defs [] kws) = option_map (cons v) (forget (py_bind rest defs [] kws)).
Proof.
  intros name rest kws v Hp Hd. destruct (pop_none _ _ Hp) as [Hh Hl].
  rewrite !forget_py_bind. simpl List.length.
  rewrite (kw_check_peel name rest 0 0 kws Hh (fun j => eq_refl)).
  change (Nat.ltb (S (List.length rest)) 0) with false.
  change (Nat.ltb (List.length rest) 0) with false.
  simpl slots. rewrite Hl, Hd.
  destruct (okb (kw_check rest 0 kws) && negb false); [apply forget_fin_some | reflexivity].
Qed.

Lemma py_bind_missing : forall name rest kws,
  pop name kws = None -> lookup name defs = None ->
  forget (py_bind (name :: rest) defs [] kws) = None.
Proof.
  intros name rest kws Hp Hd. destruct (pop_none _ _ Hp) as [Hh Hl].
  rewrite forget_py_bind. simpl slots. rewrite Hl, Hd.
  destruct (okb _ && negb _); reflexivity.
Qed.

(* ------------------------------------------------------------------ the loop of resolve_args *)

Lemma resolve_loop_py_bind : forall names i pos kws args,
  NoDup names -> NoDup (map fst kws) ->
  forget (resolve_finish (resolve_loop i names defs (pos_entries i pos ++ kw_entries kws) args)) =
  option_map (app args) (forget (py_bind names defs pos kws)).
Proof.
  induction names as [|name rest IH]; intros i pos kws args Hn Hk.
  - destruct pos as [|v pos']; [destruct kws as [|[k w] kws']|].
    + simpl. rewrite app_nil_r. reflexivity.
    + reflexivity.
    + unfold py_bind. simpl.
      destruct kws as [|[k w] kws']; reflexivity.
  - inversion Hn as [|x xs Hname Hrest]; subst.
    destruct pos as [|v pos'].
    + change (pos_entries i [] ++ kw_entries kws) with (kw_entries kws).
      cbn [resolve_loop]. rewrite d_pop_kpos_kw, d_pop_kname_kw.
      destruct (pop name kws) as [[v kws']|] eqn:Hp.
      * destruct (pop_nodup _ _ _ _ Hp Hk) as [Hk' _].
        specialize (IH (S i) [] kws' (args ++ [v]) Hrest Hk').
        change (pos_entries (S i) [] ++ kw_entries kws') with (kw_entries kws') in IH.
        rewrite IH, (py_bind_pop name rest kws v kws' Hp Hn Hk).
        destruct (forget (py_bind rest defs [] kws')); simpl; [rewrite <- app_assoc|]; reflexivity.
      * destruct (lookup name defs) as [v|] eqn:Hd.
        -- specialize (IH (S i) [] kws (args ++ [v]) Hrest Hk).
           change (pos_entries (S i) [] ++ kw_entries kws) with (kw_entries kws) in IH.
           rewrite IH, (py_bind_default name rest kws v Hp Hd).
           destruct (forget (py_bind rest defs [] kws)); simpl; [rewrite <- app_assoc|]; reflexivity.
        -- rewrite (py_bind_missing name rest kws Hp Hd). reflexivity.
    + cbn [pos_entries app resolve_loop d_pop key_eqb]. rewrite Nat.eqb_refl.
      rewrite d_mem_kname.
      destruct (has name kws) eqn:Hh.
      * rewrite (py_bind_dup name rest v pos' kws Hh). reflexivity.
      * rewrite (IH (S i) pos' kws (args ++ [v]) Hrest Hk), (py_bind_pos name rest v pos' kws Hh).
        destruct (forget (py_bind rest defs pos' kws)); simpl; [rewrite <- app_assoc|]; reflexivity.
Qed.

(* (a) resolve_args computes Python's binding *)
Theorem resolve_args_forget : forall names pos kws,
  NoDup names -> NoDup (map fst kws) ->
  forget (resolve_args names defs pos kws) = forget (py_bind names defs pos kws).
Proof.
  intros names pos kws Hn Hk. unfold resolve_args, resolve_args_dict, mk_arg_dict.
  rewrite (resolve_loop_py_bind names 0 pos kws [] Hn Hk).
  destruct (forget (py_bind names defs pos kws)); reflexivity.
Qed.

Theorem resolve_args_is_py_bind : forall names pos kws,
  NoDup names -> NoDup (map fst kws) ->
  forall l, resolve_args names defs pos kws = Ok l <-> py_bind names defs pos kws = Ok l.
Proof.
  intros names pos kws Hn Hk l. rewrite <- !forget_some, (resolve_args_forget names pos kws Hn Hk).
  reflexivity.
Qed.

(* ------------------------------------------------------------------ when a call is well formed *)

Lemma key_ok_iff : forall k names np,
  NoDup names ->
  (match index_of k names with None => False | Some j => Nat.ltb j np = false end) <->
  In k (skipn np names).
Proof.
  intros k names; induction names as [|n r IH]; intros np Hn.
  - destruct np; simpl; reflexivity.
  - inversion Hn as [|x xs Hnr Hr]; subst. simpl index_of.
    destruct (String.eqb k n) eqn:E.
    + apply String.eqb_eq in E; subst n. destruct np as [|m]; simpl.
      * split; [intros _; left; reflexivity | reflexivity].
      * split; [discriminate | intro H; exfalso; apply Hnr; exact (In_skipn _ _ _ _ H)].
    + destruct np as [|m].
      * specialize (IH 0 Hr). simpl skipn in *.
        destruct (index_of k r) as [j|]; simpl in *.
        -- split; [intros _; right; apply IH; reflexivity | reflexivity].
        -- split; [contradiction|]. intros [H|H]; [subst n; rewrite String.eqb_refl in E; discriminate | apply IH; exact H].
      * specialize (IH m Hr). simpl skipn.
        destruct (index_of k r) as [j|]; simpl in *; exact IH.
Qed.

Lemma kw_check_none_iff : forall names np (kws : list (string * V)),
  NoDup names ->
  (kw_check names np kws = None <-> forall k, In k (map fst kws) -> In k (skipn np names)).
Proof.
  intros names np kws Hn; induction kws as [|[k w] r IH]; simpl.
  - split; [intros _ k H; contradiction | reflexivity].
  - pose proof (key_ok_iff k names np Hn) as Hk.
    destruct (index_of k names) as [j|].
    + destruct (Nat.ltb j np) eqn:Hlt.
      * split; [discriminate|]. intro H. exfalso.
        assert (Hf : true = false) by (apply Hk; apply H; left; reflexivity). discriminate.
      * rewrite IH. split.
        -- intros H k' [Hk'|Hk']; [subst k'; apply Hk; reflexivity | apply H; exact Hk'].
        -- intros H k' Hk'; apply H; right; exact Hk'.
    + split; [discriminate|]. intro H. exfalso. apply Hk. apply H. left; reflexivity.
Qed.

Lemma missing_nil_iff : forall names pos (kws : list (string * V)),
  missing (slots names pos kws defs) = [] <->
  forall n, In n (skipn (List.length pos) names) -> In n (map fst kws) \/ In n (map fst defs).
Proof.
  induction names as [|n r IH]; intros pos kws.
  - simpl. split; [intros _ m H; destruct (List.length pos); contradiction | reflexivity].
  - destruct pos as [|v pos']; simpl slots.
    + simpl List.length. simpl skipn. specialize (IH [] kws). simpl List.length in IH. simpl skipn in IH.
      destruct (lookup n kws) as [v|] eqn:Hl; [|destruct (lookup n defs) as [v|] eqn:Hd]; simpl missing.
      * rewrite IH. split.
        -- intros H m [Hm|Hm]; [subst m; left; exact (lookup_some_in _ _ _ Hl) | apply H; exact Hm].
        -- intros H m Hm; apply H; right; exact Hm.
      * rewrite IH. split.
        -- intros H m [Hm|Hm]; [subst m; right; exact (lookup_some_in _ _ _ Hd) | apply H; exact Hm].
        -- intros H m Hm; apply H; right; exact Hm.
      * split; [discriminate|]. intro H. exfalso.
        destruct (H n (or_introl eq_refl)) as [Hi|Hi];
          [exact (lookup_none_notin _ _ Hl Hi) | exact (lookup_none_notin _ _ Hd Hi)].
    + simpl missing. simpl List.length. simpl skipn. apply IH.
Qed.

Lemma py_bind_ok_parts : forall names pos kws,
  (exists l, py_bind names defs pos kws = Ok l) <->
  kw_check names (List.length pos) kws = None /\
  Nat.ltb (List.length names) (List.length pos) = false /\
  missing (slots names pos kws defs) = [].
Proof.
  intros names pos kws; unfold py_bind.
  destruct (kw_check names (List.length pos) kws) as [e|].
  - split; [intros [l H]; discriminate | intros [H _]; discriminate].
  - destruct (Nat.ltb (List.length names) (List.length pos)).
    + split; [intros [l H]; discriminate | intros [_ [H _]]; discriminate].
    + cbv zeta. destruct (missing (slots names pos kws defs)) as [|m ms].
      * split; [intros _; repeat split; reflexivity | intros _; eexists; reflexivity].
      * split; [intros [l H]; discriminate | intros [_ [_ H]]; discriminate].
Qed.

Theorem py_bind_ok_iff : forall names pos kws,
  NoDup names ->
  ((exists l, py_bind names defs pos kws = Ok l) <-> call_ok names defs pos kws).
Proof.
  intros names pos kws Hn. rewrite py_bind_ok_parts. unfold call_ok.
  rewrite (kw_check_none_iff names (List.length pos) kws Hn), Nat.ltb_ge, missing_nil_iff.
  split; intros [H1 [H2 H3]]; repeat split; assumption.
Qed.

Theorem resolve_args_ok_iff : forall names pos kws,
  NoDup names -> NoDup (map fst kws) ->
  ((exists l, resolve_args names defs pos kws = Ok l) <-> call_ok names defs pos kws).
Proof.
  intros names pos kws Hn Hk. rewrite <- (py_bind_ok_iff names pos kws Hn).
  split; intros [l H]; exists l; apply (resolve_args_is_py_bind names pos kws Hn Hk l); exact H.
Qed.

(* (b) both raise TypeError in exactly the same situations: when the call is not well formed *)
Theorem bind_fail_iff : forall names pos kws,
  NoDup names -> NoDup (map fst kws) ->
  ((exists e, resolve_args names defs pos kws = Err e) <-> ~ call_ok names defs pos kws) /\
  ((exists e, py_bind names defs pos kws = Err e) <-> ~ call_ok names defs pos kws).
Proof.
  intros names pos kws Hn Hk.
  pose proof (resolve_args_ok_iff names pos kws Hn Hk) as Hr.
  pose proof (py_bind_ok_iff names pos kws Hn) as Hp.
  split.
  - destruct (resolve_args names defs pos kws) as [l|e].
    + split; [intros [e H]; discriminate | intro H; exfalso; apply H; apply Hr; exists l; reflexivity].
    + split; [intros _ H; apply Hr in H; destruct H as [l H]; discriminate | intros _; exists e; reflexivity].
  - destruct (py_bind names defs pos kws) as [l|e].
    + split; [intros [e H]; discriminate | intro H; exfalso; apply H; apply Hp; exists l; reflexivity].
    + split; [intros _ H; apply Hp in H; destruct H as [l H]; discriminate | intros _; exists e; reflexivity].
Qed.

(* ------------------------------------------------------------------ (c) the legal call forms *)

Lemma slots_full : forall names pos rest_vs (kws : list (string * V)),
  List.length pos + List.length rest_vs = List.length names ->
  (forall n v, In (n, v) (combine (skipn (List.length pos) names) rest_vs) -> lookup n kws = Some v) ->
  missing (slots names pos kws defs) = [] /\ values (slots names pos kws defs) = pos ++ rest_vs.
Proof.
  induction names as [|n r IH]; intros pos rest_vs kws Hlen H.
  - destruct pos; destruct rest_vs; simpl in Hlen; try discriminate. split; reflexivity.
  - destruct pos as [|v pos'].
    + destruct rest_vs as [|w ws]; simpl in Hlen; [discriminate|].
      simpl in H. simpl slots. rewrite (H n w (or_introl eq_refl)).
      destruct (IH [] ws kws) as [Hm Hv]; [simpl; lia | intros m x Hin; apply H; right; exact Hin |].
      simpl. rewrite Hm, Hv. split; reflexivity.
    + simpl in Hlen. simpl slots.
      destruct (IH pos' rest_vs kws) as [Hm Hv]; [lia | exact H |].
      simpl. rewrite Hm, Hv. split; reflexivity.
Qed.

(* a call giving every parameter exactly once -- the first k positionally, the others by keyword in
   any order -- binds the values in parameter order, whatever the defaults *)
Theorem py_bind_legal_split : forall names vs k kws,
  NoDup names -> List.length vs = List.length names -> k <= List.length names ->
  Permutation kws (combine (skipn k names) (skipn k vs)) ->
  py_bind names defs (firstn k vs) kws = Ok vs.
Proof.
  intros names vs k kws Hn Hlen Hk Hperm.
  assert (Hfl : List.length (firstn k vs) = k) by (apply firstn_length_le; lia).
  assert (Hkeys : Permutation (map fst kws) (skipn k names)).
  { rewrite <- (map_fst_combine _ _ (skipn k names) (skipn k vs)) by (rewrite !skipn_length; lia).
    apply Permutation_map; exact Hperm. }
  assert (Hnd : NoDup (map fst kws)).
  { apply (Permutation_NoDup (Permutation_sym Hkeys)). apply NoDup_skipn; exact Hn. }
  assert (Hkw : kw_check names (List.length (firstn k vs)) kws = None).
  { apply (kw_check_none_iff names _ kws Hn). rewrite Hfl. intros x Hx.
    exact (Permutation_in x Hkeys Hx). }
  assert (Hlt : Nat.ltb (List.length names) (List.length (firstn k vs)) = false)
    by (rewrite Hfl; apply Nat.ltb_ge; exact Hk).
  destruct (slots_full names (firstn k vs) (skipn k vs) kws) as [Hm Hv].
  - rewrite <- app_length, firstn_skipn. exact Hlen.
  - rewrite Hfl. intros n v Hin. apply (in_lookup n v kws Hnd).
    exact (Permutation_in (n, v) (Permutation_sym Hperm) Hin).
  - unfold py_bind. rewrite Hkw, Hlt. cbv zeta. rewrite Hm, Hv, firstn_skipn. reflexivity.
Qed.

Theorem resolve_args_legal_split : forall names vs k kws,
  NoDup names -> List.length vs = List.length names -> k <= List.length names ->
  Permutation kws (combine (skipn k names) (skipn k vs)) ->
  resolve_args names defs (firstn k vs) kws = Ok vs /\ py_bind names defs (firstn k vs) kws = Ok vs.
Proof.
  intros names vs k kws Hn Hlen Hk Hperm.
  pose proof (py_bind_legal_split names vs k kws Hn Hlen Hk Hperm) as Hp.
  split; [|exact Hp].
  apply (resolve_args_is_py_bind names (firstn k vs) kws Hn); [|exact Hp].
  assert (Hkeys : Permutation (map fst kws) (skipn k names)).
  { rewrite <- (map_fst_combine _ _ (skipn k names) (skipn k vs)) by (rewrite !skipn_length; lia).
    apply Permutation_map; exact Hperm. }
  apply (Permutation_NoDup (Permutation_sym Hkeys)). apply NoDup_skipn; exact Hn.
Qed.

(* ------------------------------------------------------------------ what the two backends hand to the callee *)

Lemma slots_length : forall names pos (kws : list (string * V)),
  List.length (slots names pos kws defs) = List.length names.
Proof.
  induction names as [|n r IH]; intros pos kws; [reflexivity|].
  destruct pos; simpl; rewrite IH; reflexivity.
Qed.

Lemma values_length : forall (sl : list (string * option V)),
  missing sl = [] -> List.length (values sl) = List.length sl.
Proof.
  induction sl as [|[n [v|]] r IH]; simpl; intro H; [reflexivity | rewrite (IH H); reflexivity | discriminate].
Qed.

Lemma py_bind_length : forall names pos kws l,
  py_bind names defs pos kws = Ok l -> List.length l = List.length names.
Proof.
  intros names pos kws l H.
  assert (He : exists l0, py_bind names defs pos kws = Ok l0) by (exists l; exact H).
  apply py_bind_ok_parts in He. destruct He as [Hkw [Hlt Hm]].
  unfold py_bind in H. rewrite Hkw, Hlt in H. cbv zeta in H. rewrite Hm in H.
  inversion H; subst. rewrite (values_length _ Hm). apply slots_length.
Qed.

Lemma py_bind_all_positional : forall names l,
  List.length l = List.length names -> py_bind names defs l [] = Ok l.
Proof.
  intros names l Hlen.
  destruct (slots_full names l [] []) as [Hm Hv].
  - simpl; lia.
  - intros n v Hin. rewrite combine_nil in Hin. contradiction.
  - unfold py_bind. simpl kw_check. rewrite Hlen, Nat.ltb_irrefl. cbv zeta.
    rewrite Hm, Hv, app_nil_r. reflexivity.
Qed.

(* the generated call  callee( *resolve_args(...) )  and the interpreter's call  callee( *pos, **kws )
   bind the callee's parameters to the same values, and one raises TypeError iff the other does *)
Theorem backends_bind_alike : forall names pos kws,
  NoDup names -> NoDup (map fst kws) ->
  match resolve_args names defs pos kws with
  | Ok l => py_bind names defs pos kws = Ok l /\ py_bind names defs l [] = Ok l
  | Err _ => exists e, py_bind names defs pos kws = Err e
  end.
Proof.
  intros names pos kws Hn Hk.
  pose proof (resolve_args_forget names pos kws Hn Hk) as H.
  destruct (resolve_args names defs pos kws) as [l|e]; simpl in H.
  - symmetry in H. apply forget_some in H. split; [exact H|].
    apply py_bind_all_positional. exact (py_bind_length _ _ _ _ H).
  - symmetry in H. apply forget_none in H. exact H.
Qed.

End Proofs.

(* ------------------------------------------------------------------ examples (the hypotheses are satisfiable
   by non-trivial inputs, and the error cases really occur) *)

Local Definition ex_names := ["a"; "b"; "a_cols"; "b_cols"].

Example ex_nodup_names : NoDup ex_names.
Proof. repeat constructor; simpl; intuition discriminate. Qed.

Example ex_resolve_mixed :
  resolve_args ex_names [("b_cols", 9)] [1; 2] [("a_cols", 3)] = Ok [1; 2; 3; 9] /\
  py_bind ex_names [("b_cols", 9)] [1; 2] [("a_cols", 3)] = Ok [1; 2; 3; 9].
Proof. split; vm_compute; reflexivity. Qed.

Example ex_call_ok : call_ok ex_names [("b_cols", 9)] [1; 2] [("a_cols", 3)].
Proof.
  unfold call_ok; simpl. repeat split.
  - lia.
  - intros k [H|[]]; left; exact H.
  - intros n [H|[H|[]]]; [left; left; exact H | right; left; exact H].
Qed.

Example ex_both_fail_too_many :
  resolve_args ["x"] [] [1; 2] [] = Err (RLeftover [KPos 1]) /\
  py_bind ["x"] [] [1; 2] [] = Err (PTooManyPositional 2).
Proof. split; vm_compute; reflexivity. Qed.

Example ex_both_fail_twice :
  resolve_args ["x"; "y"] [] [1] [("x", 2)] = Err (RBothPosKw "x") /\
  py_bind ["x"; "y"] [] [1] [("x", 2)] = Err (PMultipleValues "x").
Proof. split; vm_compute; reflexivity. Qed.

(* the error CLASSES are all TypeError, but the two algorithms do not name the same cause *)
Example ex_different_message :
  resolve_args ["x"; "y"] [] [] [("z", 2)] = Err (RNotSpecified "x") /\
  py_bind ["x"; "y"] [] [] [("z", 2)] = Err (PUnexpectedKeyword "z").
Proof. split; vm_compute; reflexivity. Qed.

Example ex_legal_split :
  Permutation [("b_cols", 4); ("a_cols", 3)] (combine (skipn 2 ex_names) (skipn 2 [1; 2; 3; 4])) /\
  resolve_args ex_names [] (firstn 2 [1; 2; 3; 4]) [("b_cols", 4); ("a_cols", 3)] = Ok [1; 2; 3; 4].
Proof. split; [apply perm_swap | vm_compute; reflexivity]. Qed.

(* without the hypothesis on arg_names the two differ (no Python function has such a signature) *)
Example ex_dup_names_needed :
  resolve_args ["x"; "x"] [("x", 0)] [] [("x", 5)] = Ok [5; 0] /\
  py_bind ["x"; "x"] [("x", 0)] [] [("x", 5)] = Ok [5; 5].
Proof. split; vm_compute; reflexivity. Qed.

(* ------------------------------------------------------------------ the built-ins of the working tree *)

From Dagrt Require Import GenBind.

Lemma str_list_eqb_eq : forall a b, str_list_eqb a b = true -> a = b.
Proof.
  induction a as [|x a IH]; intros [|y b] H; simpl in H; try discriminate; [reflexivity|].
  apply andb_true_iff in H; destruct H as [H1 H2]. apply String.eqb_eq in H1. subst y.
  f_equal; exact (IH _ H2).
Qed.

Lemma str_pairs_eqb_eq : forall a b, str_pairs_eqb a b = true -> a = b.
Proof.
  induction a as [|[x u] a IH]; intros [|[y w] b] H; simpl in H; try discriminate; [reflexivity|].
  apply andb_true_iff in H; destruct H as [H12 H3]. apply andb_true_iff in H12; destruct H12 as [H1 H2].
  apply String.eqb_eq in H1. apply String.eqb_eq in H2. subst y w.
  f_equal; exact (IH _ H3).
Qed.

Lemma str_mem_in : forall x l, str_mem x l = false -> ~ In x l.
Proof.
  induction l as [|y r IH]; simpl; intros H Hin; [exact Hin|].
  apply orb_false_iff in H; destruct H as [H1 H2].
  destruct Hin as [Hy|Hr]; [subst y; rewrite String.eqb_refl in H1; discriminate | exact (IH H2 Hr)].
Qed.

Lemma str_nodup_NoDup : forall l, str_nodup l = true -> NoDup l.
Proof.
  induction l as [|x r IH]; simpl; intro H; [constructor|].
  apply andb_true_iff in H; destruct H as [H1 H2]. apply negb_true_iff in H1.
  constructor; [exact (str_mem_in _ _ H1) | exact (IH H2)].
Qed.

Lemma builtin_table_ok : forallb row_ok builtin_table = true.
Proof. vm_compute. reflexivity. Qed.

Lemma builtin_table_covers :
  forallb (fun id => existsb (fun r => String.eqb id (b_id r)) builtin_table) documented_builtins = true.
Proof. vm_compute. reflexivity. Qed.

(* every built-in the translator found in dagrt/function_registry.py (a finite table, regenerated from the
   working tree on every run; it contains at least the 13 documented built-ins): the declared arg_names are
   duplicate-free and are the parameter names of the callee the interpreter uses, in the same order, with the
   same defaults; and a "self._builtin_X({args})" pattern calls that same callee *)
Theorem builtin_names_agree :
  (forall id, In id documented_builtins -> exists r, In r builtin_table /\ b_id r = id) /\
  forall r, In r builtin_table ->
    NoDup (b_arg_names r) /\
    b_arg_names r = b_impl_params r /\
    b_defaults r = b_impl_defaults r /\
    (forall impl, b_pattern r = PSelfBuiltin impl -> impl = b_interp_impl r).
Proof.
  split.
  - intros id Hid.
    pose proof (proj1 (forallb_forall _ _) builtin_table_covers id Hid) as H.
    apply existsb_exists in H. destruct H as [r [Hr He]]. apply String.eqb_eq in He.
    exists r; split; [exact Hr | symmetry; exact He].
  - intros r Hr.
    pose proof (proj1 (forallb_forall _ _) builtin_table_ok r Hr) as H.
    unfold row_ok in H.
    apply andb_true_iff in H; destruct H as [H H4].
    apply andb_true_iff in H; destruct H as [H H3].
    apply andb_true_iff in H; destruct H as [H1 H2].
    repeat split.
    + exact (str_nodup_NoDup _ H1).
    + exact (str_list_eqb_eq _ _ H2).
    + exact (str_pairs_eqb_eq _ _ H3).
    + intros impl Hp. rewrite Hp in H4. apply String.eqb_eq in H4. exact H4.
Qed.

(* for every built-in of the table, every call (any positional values, any duplicate-free keywords; `ev`
   = whatever the default texts evaluate to): resolving against the registry entry, as generated code does,
   and binding by Python's rule against the interpreter's callee give the same argument list, or both
   raise TypeError *)
Theorem builtins_bind_alike : forall (V : Type) (ev : string -> V) r,
  In r builtin_table ->
  forall pos kws, NoDup (map fst kws) ->
    forget (resolve_args (b_arg_names r) (eval_defaults ev (b_defaults r)) pos kws) =
    forget (py_bind (b_impl_params r) (eval_defaults ev (b_impl_defaults r)) pos kws).
Proof.
  intros V ev r Hr pos kws Hk.
  destruct (proj2 builtin_names_agree r Hr) as [Hn [Ha [Hd _]]].
  rewrite <- Ha, <- Hd. apply resolve_args_forget; assumption.
Qed.

Example ex_builtin_row : exists r, In r builtin_table /\ b_id r = "<builtin>dot_product".
Proof. apply (proj1 builtin_names_agree). vm_compute. tauto. Qed.
