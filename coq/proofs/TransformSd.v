(* C07 proofs, part 7: eliminate_self_dependencies -- the statement-level function ms_sd
   satisfies the leaf specification sspec. *)
From Coq Require Import List ZArith NArith String Ascii Bool Arith Lia Permutation.
Import ListNotations.
From Dagrt Require Import Lang LangProofs Sched Transform TransformSem TransformSide TransformBasics TransformHoist
     TransformSpec TransformMappers TransformLeaf TransformStmt.

(* what map_expressions(substitute, include_lhs=False) returns *)
Definition ksubst (sb : list (string * string)) (k : skind) : skind :=
  match k with
  | KAssign x sub rhs loops =>
      KAssign x sub (subst sb rhs)
              (map (fun l => (fst (fst l), subst sb (snd (fst l)), subst sb (snd l))) loops)
  | KCall xs fn args kw =>
      KCall xs (subst_name sb fn) (map (subst sb) args) (combine (map fst kw) (map (subst sb) (map snd kw)))
  | KYield comp tid time e => KYield comp tid (subst sb time) (subst sb e)
  | k => k
  end.

Lemma assoc_in {A} k (l : list (string * A)) v : assoc k l = Some v -> In (k, v) l.
Proof.
  induction l as [|[k' v'] l IH]; cbn; [discriminate|]. destruct (String.eqb k k') eqn:E.
  - apply String.eqb_eq in E. subst. intros H. inversion H; subst. now left.
  - intros H. right. auto.
Qed.

Lemma assoc_none {A} k (l : list (string * A)) : assoc k l = None -> ~ In k (map fst l).
Proof.
  induction l as [|[k' v'] l IH]; cbn; [tauto|]. destruct (String.eqb k k') eqn:E; [discriminate|].
  intros H [Hk|Hk]; [|now apply IH]. subst. rewrite String.eqb_refl in E. discriminate.
Qed.

Section Sd.
  Variable F : string -> list val -> list (string * val) -> option (list val).
  Variable dg : bool.
  Notation evalt := (evalt F).
  Notation evalt_list := (evalt_list F).

  (* ---- substitution ---- *)
  Definition sb_ok (sb : list (string * string)) (N : list var) (a b : store) : Prop :=
    same_off N a b /\ (forall v n, In (v, n) sb -> getv b n = getv a v).

  Lemma subst_name_other sb x : ~ In x (map fst sb) -> subst_name sb x = x.
  Proof.
    intros H. unfold subst_name. destruct (assoc x sb) as [y|] eqn:E; [|reflexivity].
    exfalso. apply H. apply assoc_in in E. apply in_map_iff. exists (x, y). auto.
  Qed.

  Lemma evalt_subst sb N a b e :
    sb_ok sb N a b ->
    (forall x, In x (vars e) -> ~ In x N) ->
    (forall f, In f (fnames e) -> ~ In f (map fst sb)) ->
    evalt b (subst sb e) = evalt a e.
  Proof.
    intros [Hoff Hsb].
    induction e as [z|bb| |x|e1 IH1|c t e IHc IHt IHe|o e1 e2 IH1 IH2|o l IH] using expr_ind';
      intros Hv Hf; try reflexivity.
    - cbn [subst]. rewrite !evalt_var. f_equal. f_equal. unfold subst_name.
      destruct (assoc x sb) as [n|] eqn:E.
      + apply Hsb. now apply assoc_in.
      + unfold getv. rewrite Hoff; [reflexivity|]. apply Hv. now left.
    - cbn [subst TransformSem.evalt]. rewrite IH1; auto.
    - cbn [subst TransformSem.evalt]. cbn [vars fnames] in *.
      rewrite IHc, IHt, IHe; try reflexivity;
        try (intros x Hx; apply Hv; rewrite !in_app_iff; tauto);
        try (intros x Hx; apply Hf; rewrite !in_app_iff; tauto).
    - cbn [subst TransformSem.evalt]. cbn [vars fnames] in *.
      rewrite IH1, IH2; try reflexivity;
        try (intros x Hx; apply Hv; rewrite !in_app_iff; tauto);
        try (intros x Hx; apply Hf; rewrite !in_app_iff; tauto).
    - cbn [vars fnames] in *.
      assert (Hall : Forall (fun e => evalt b (subst sb e) = evalt a e) l).
      { induction IH as [|e1 l H1 _ IHl]; constructor.
        - apply H1; intros x Hx; first [apply Hv|apply Hf]; cbn [flat_map app] in *; rewrite ?in_app_iff in *; tauto.
        - apply IHl; intros x Hx; first [apply Hv|apply Hf]; cbn [flat_map app] in *; rewrite ?in_app_iff in *; tauto. }
      destruct (is_lazy o) eqn:Ho.
      + destruct o; try discriminate; cbn [subst].
        * clear Hall. induction IH as [|e1 l H1 _ IHl]; [reflexivity|]. cbn [map].
          rewrite !evalt_and_cons. rewrite H1, IHl; try reflexivity;
            intros x Hx; first [apply Hv|apply Hf]; cbn [flat_map app] in *; rewrite ?in_app_iff in *; tauto.
        * clear Hall. induction IH as [|e1 l H1 _ IHl]; [reflexivity|]. cbn [map].
          rewrite !evalt_or_cons. rewrite H1, IHl; try reflexivity;
            intros x Hx; first [apply Hv|apply Hf]; cbn [flat_map app] in *; rewrite ?in_app_iff in *; tauto.
      + assert (Es : subst sb (ENary o l) =
                     ENary (match o with NCall f kw => NCall (subst_name sb f) kw | o => o end) (map (subst sb) l))
          by (destruct o; reflexivity).
        rewrite Es. destruct o as [| | | | | |f kw]; try discriminate;
          try (rewrite !evalt_nary by reflexivity; now rewrite (nfold_map F _ (subst sb) l a b _ Hall)).
        rewrite subst_name_other by (apply Hf; now left).
        rewrite !evalt_nary by reflexivity. now rewrite (nfold_map F _ (subst sb) l a b _ Hall).
  Qed.

  Lemma evalt_list_subst sb N a b l :
    sb_ok sb N a b ->
    (forall x, In x (flat_map vars l) -> ~ In x N) ->
    (forall f, In f (flat_map fnames l) -> ~ In f (map fst sb)) ->
    evalt_list b (map (subst sb) l) = evalt_list a l.
  Proof.
    intros Hok. induction l as [|e l IH]; intros Hv Hf; [reflexivity|]. cbn [map TransformSem.evalt_list].
    rewrite (evalt_subst sb N a b e Hok), IH; try reflexivity;
      intros x Hx; first [apply Hv|apply Hf]; cbn [flat_map]; rewrite in_app_iff; tauto.
  Qed.

  (* ---- map_expressions(substitute, include_lhs=False) ---- *)
  Lemma mk_subst sb k st :
    loopfree k = true ->
    map_kind_w false (fun e => retw (subst sb e)) k st = TOk (ksubst sb k, [], [], st).
  Proof.
    intros Hl. destruct k as [x sub rhs loops|xs fn args kw|comp tid time e| | | |]; try reflexivity.
    - destruct loops; [|discriminate]. destruct sub; reflexivity.
    - cbn [map_kind_w ksubst]. unfold bindw, retw, call_expr. cbn [subst].
      rewrite map_app.
      replace (List.length (map (subst sb) args ++ map (subst sb) (map snd kw)) - List.length (map fst kw))%nat
        with (List.length (map (subst sb) args)) by (rewrite app_length, !map_length; lia).
      rewrite split_at_app_len. reflexivity.
  Qed.

  Lemma ksubst_props sb k : kind_writes (ksubst sb k) = kind_writes k /\ (loopfree k = true -> loopfree (ksubst sb k) = true).
  Proof.
    destruct k as [x sub rhs loops|xs fn args kw|comp tid time e| | | |]; cbn; auto.
    split; [reflexivity|]. destruct loops; [reflexivity|discriminate].
  Qed.

  (* ---- executing the substituted statement in a store that holds the copies ---- *)
  Lemma exec_kind_subst sb N a b k :
    sb_ok sb N a b -> loopfree k = true ->
    (forall x, In x (kvars k) -> ~ In x N) ->
    (forall f, In f (kfnames k) -> ~ In f (map fst sb)) ->
    fst (exec_kind_t F dg b (ksubst sb k)) = fst (exec_kind_t F dg a k) /\
    orel N (snd (exec_kind_t F dg a k)) (snd (exec_kind_t F dg b (ksubst sb k))).
  Proof.
    intros Hok Hl Hv Hf. pose proof Hok as [Hoff _].
    assert (Hx : forall x, In x (kvars k) -> a x = b x).
    { intros x Hx. apply (same_off_sym_eq N); auto. }
    destruct k as [x sub rhs loops|xs fn args kw|comp tid time e| | | |]; cbn [ksubst exec_kind_t];
      try (split; [reflexivity|cbn; auto]).
    - destruct loops; [|discriminate]. cbn [map exec_kind_t]. cbn [kvars kfnames] in *. unfold assign_once_t.
      rewrite (evalt_subst sb N a b rhs Hok).
      2: { intros y Hy. apply Hv. right. rewrite !in_app_iff. tauto. }
      2: { intros y Hy. apply Hf. rewrite !in_app_iff. tauto. }
      destruct (evalt a rhs) as [l [v|u]]; [|split; [reflexivity|destruct u; cbn; auto]].
      destruct sub as [ie|].
      + rewrite <- (Hx x (or_introl eq_refl)). destruct (a x) as [agg|]; [|split; [reflexivity|cbn; auto]].
        assert (Ei : evalt b ie = evalt a ie).
        { apply evalt_frame. intros y Hy. symmetry. apply Hx. right. rewrite !in_app_iff. tauto. }
        rewrite Ei. destruct (evalt a ie) as [l2 [iv|u]]; [|split; [reflexivity|destruct u; cbn; auto]].
        destruct agg as [| | |arr]; try (split; [reflexivity|cbn; auto]).
        destruct iv as [i| | |]; try (split; [reflexivity|cbn; auto]).
        destruct (as_int v) as [z|]; [|split; [reflexivity|cbn; auto]].
        destruct (norm_index _ i) as [n|]; [|split; [reflexivity|cbn; auto]].
        split; [reflexivity|]. cbn. split; [|reflexivity]. now apply same_off_upd.
      + split; [reflexivity|]. cbn. split; [|reflexivity]. now apply same_off_upd.
    - cbn [kvars kfnames] in *.
      assert (Hk1 : map snd (combine (map fst kw) (map (subst sb) (map snd kw))) = map (subst sb) (map snd kw))
        by (apply combine_snd; now rewrite !map_length).
      assert (Hk2 : map fst (combine (map fst kw) (map (subst sb) (map snd kw))) = map fst kw)
        by (apply combine_fst; now rewrite !map_length).
      rewrite Hk1, Hk2.
      rewrite (evalt_list_subst sb N a b args Hok).
      2: { intros y Hy. apply Hv. rewrite !in_app_iff. tauto. }
      2: { intros y Hy. apply Hf. right. rewrite !in_app_iff. tauto. }
      rewrite (evalt_list_subst sb N a b (map snd kw) Hok).
      2: { intros y Hy. apply Hv. rewrite !in_app_iff. tauto. }
      2: { intros y Hy. apply Hf. right. rewrite !in_app_iff. tauto. }
      rewrite subst_name_other by (apply Hf; now left).
      destruct (evalt_list a args) as [r1 [pos|u]]; [|split; [reflexivity|destruct u; cbn; auto]].
      destruct (evalt_list a (map snd kw)) as [r2 [kws|u]]; [|split; [reflexivity|destruct u; cbn; auto]].
      destruct (F fn pos (combine (map fst kw) kws)) as [res|]; [|split; [reflexivity|cbn; auto]].
      destruct xs as [|x0 xs]; [split; [reflexivity|cbn; auto]|].
      destruct (Nat.eqb _ _); [|split; [reflexivity|cbn; auto]].
      split; [reflexivity|]. cbn [snd orel]. split; [|reflexivity]. now apply same_off_assign_all.
    - cbn [kvars kfnames] in *.
      rewrite (evalt_subst sb N a b time Hok).
      2: { intros y Hy. apply Hv. rewrite !in_app_iff. tauto. }
      2: { intros y Hy. apply Hf. rewrite !in_app_iff. tauto. }
      destruct (evalt a time) as [r1 [t|u]]; [|split; [reflexivity|destruct u; cbn; auto]].
      rewrite (evalt_subst sb N a b e Hok).
      2: { intros y Hy. apply Hv. rewrite !in_app_iff. tauto. }
      2: { intros y Hy. apply Hf. rewrite !in_app_iff. tauto. }
      destruct (evalt a e) as [r2 [v|u]]; [|split; [reflexivity|destruct u; cbn; auto]].
      split; [reflexivity|]. cbn. auto.
  Qed.

  (* ---- the loop creating the copies ---- *)
  Lemma sd_loop_spec s vs : forall st sb ids ns st',
    sd_loop s vs st = TOk ((sb, ids, ns), st') ->
    exists N I,
      ext st st' N I /\ map fst sb = vs /\ (forall x, In x N <-> In x (map snd sb)) /\
      incl ids I /\ idcount ns I /\
      Forall (fun n => tcond n = tcond s /\ incl (swr n) N) ns /\
      (incl vs (ex (gvars st)) -> incl (vars (tcond s)) (ex (gvars st)) ->
       forall a, cond_t F a (tcond s) = ([], Ok true) ->
         exists b, exec_list F dg ns a = Some ([], b) /\ sb_ok sb N a b).
  Proof.
    induction vs as [|v vs IH]; intros st sb ids ns st' E.
    - cbn [sd_loop] in E. unfold ret in E. inversion E; subst.
      exists [], []. split; [apply ext_refl|split; [reflexivity|split; [tauto|split; [apply incl_refl|]]]].
      split; [apply idcount_nil|split; [constructor|]].
      intros _ _ a _. exists a. split; [reflexivity|]. split; [apply same_off_refl|intros v n []].
    - cbn [sd_loop] in E. unfold bind in E.
      destruct (genv _ st) as [[name st1]|e] eqn:G1; [|discriminate].
      destruct (geni "temp" st1) as [[id st2]|e] eqn:G2; [|discriminate].
      destruct (sd_loop s vs st2) as [[[[sb0 ids0] ns0] st3]|e] eqn:E3; [|discriminate].
      unfold ret in E. inversion E; subst sb ids ns st'. clear E.
      destruct (IH _ _ _ _ _ E3) as (N & I & X & Hfst & HN & Hids & Hcnt & Hns & Hsem).
      pose proof (ext_trans _ _ _ _ _ _ _ (ext_genv _ _ _ _ G1) (ext_geni _ _ _ _ G2)) as X12. cbn [app] in X12.
      pose proof (ext_trans _ _ _ _ _ _ _ X12 X) as X13.
      exists (N ++ [name]), (I ++ [id]). split; [exact X13|].
      destruct X12 as (Ev2 & Ei2 & Fv2 & Fi2). pose proof X as (Ev3 & Ei3 & Fv3 & Fi3).
      split; [cbn; now rewrite Hfst|split; [|split; [|split; [|split]]]].
      + intros x. cbn [map snd]. rewrite in_app_iff. cbn. rewrite HN. tauto.
      + intros x [<-|Hx]; apply in_app_iff; [right; now left|left; now apply Hids].
      + intros x. cbn [map tid count_occ]. rewrite count_occ_app, Hcnt. cbn [count_occ].
        destruct (string_dec id x); lia.
      + constructor.
        * split; [reflexivity|]. cbn. intros x [<-|[]]. apply in_app_iff. right. now left.
        * eapply Forall_impl; [|exact Hns]. intros n [A B]. split; [exact A|].
          intros x Hx. apply in_app_iff. left. now apply B.
      + intros Hvs Hvc a Hc.
        assert (Hname_old : ~ In name (ex (gvars st))) by (destruct Fv2 as [_ Fr]; apply Fr; now left).
        set (a1 := upd a name (getv a v)).
        assert (E1 : exec_t F dg a (mkT id (tdeps s) (tcond s) (KAssign name None (EVar v) [])) = ([], ONext a1 None)).
        { apply exec_assign; [exact Hc|apply evalt_var]. }
        assert (Hc1 : cond_t F a1 (tcond s) = ([], Ok true)).
        { rewrite <- Hc. apply cond_t_frame. intros x Hx. unfold a1. apply upd_other. intros ->.
          apply Hname_old, Hvc, Hx. }
        assert (Hvs2 : incl vs (ex (gvars st2))).
        { intros x Hx. rewrite Ev2. right. apply Hvs. now right. }
        assert (Hvc2 : incl (vars (tcond s)) (ex (gvars st2))).
        { intros x Hx. rewrite Ev2. right. apply Hvc, Hx. }
        destruct (Hsem Hvs2 Hvc2 a1 Hc1) as (b & Hb & Hoff & Hsb).
        exists b. split.
        * cbn [exec_list]. rewrite E1, Hb. reflexivity.
        * assert (HnN : ~ In name N).
          { intros Hin. destruct Fv3 as [_ Fr]. apply (Fr name Hin). rewrite Ev2. now left. }
          split.
          -- intros x Hx. rewrite in_app_iff in Hx. rewrite Hoff by tauto. unfold a1. apply upd_other.
             intros ->. apply Hx. right. now left.
          -- intros v' n [Heq|Hin].
             ++ inversion Heq; subst v' n. unfold getv at 1. rewrite Hoff by exact HnN.
                unfold a1. now rewrite upd_same.
             ++ rewrite (Hsb v' n Hin). unfold getv, a1. rewrite upd_other; [reflexivity|].
                intros ->. apply Hname_old, Hvs. right. rewrite <- Hfst. apply in_map_iff. exists (name, n). auto.
  Qed.

  Lemma vars_subst sb e : forall x, In x (vars (subst sb e)) -> In x (vars e) \/ In x (map snd sb).
  Proof.
    induction e as [z|bb| |y|e1 IH1|c t e IHc IHt IHe|o e1 e2 IH1 IH2|o l IH] using expr_ind';
      intros x Hx; cbn [subst vars] in *; try contradiction.
    - destruct Hx as [<-|[]]. unfold subst_name. destruct (assoc y sb) as [n|] eqn:E; [|left; now left].
      right. apply assoc_in in E. apply in_map_iff. exists (y, n). auto.
    - auto.
    - rewrite !in_app_iff in *. destruct Hx as [Hx|[Hx|Hx]]; [apply IHc in Hx|apply IHt in Hx|apply IHe in Hx]; tauto.
    - rewrite !in_app_iff in *. destruct Hx as [Hx|Hx]; [apply IH1 in Hx|apply IH2 in Hx]; tauto.
    - assert (Hl : In x (flat_map vars (map (subst sb) l)) -> In x (flat_map vars l) \/ In x (map snd sb)).
      { clear Hx. induction IH as [|e1 l H1 _ IHl]; cbn [map flat_map]; [tauto|].
        rewrite !in_app_iff. intros [Hx|Hx]; [apply H1 in Hx|apply IHl in Hx]; tauto. }
      destruct o; cbn [vars] in Hx; auto.
  Qed.

  Lemma kvars_subst sb k :
    forall x, In x (kvars (ksubst sb k)) -> In x (kvars k) \/ In x (map snd sb).
  Proof.
    intros x Hx. destruct k as [y sub rhs loops|xs fn args kw|comp tid time e| | | |]; cbn [ksubst kvars] in *;
      try contradiction.
    - destruct Hx as [<-|Hx]; [left; now left|]. rewrite !in_app_iff in Hx. destruct Hx as [Hx|[Hx|Hx]].
      + left. right. rewrite !in_app_iff. tauto.
      + apply vars_subst in Hx. destruct Hx; [left; right; rewrite !in_app_iff; tauto|tauto].
      + induction loops as [|[[i lo] hi] loops IHl]; cbn [map flat_map fst snd] in Hx; [contradiction|].
        destruct Hx as [<-|Hx]; [left; right; rewrite !in_app_iff; right; right; cbn; now left|].
        rewrite !in_app_iff in Hx. destruct Hx as [[Hx|Hx]|Hx].
        * apply vars_subst in Hx. destruct Hx; [|tauto]. left. right. rewrite !in_app_iff. right. right.
          cbn. right. rewrite !in_app_iff. tauto.
        * apply vars_subst in Hx. destruct Hx; [|tauto]. left. right. rewrite !in_app_iff. right. right.
          cbn. right. rewrite !in_app_iff. tauto.
        * destruct (IHl Hx) as [[H|H]|H]; [left; now left| |tauto].
          left. right. rewrite !in_app_iff in *. cbn [flat_map fst snd]. destruct H as [H|[H|H]]; try tauto.
          right. right. right. rewrite !in_app_iff. tauto.
    - rewrite combine_snd in Hx by now rewrite !map_length.
      rewrite !in_app_iff in Hx. destruct Hx as [Hx|[Hx|Hx]]; [left; rewrite !in_app_iff; tauto| |].
      + assert (H : In x (flat_map vars args) \/ In x (map snd sb)).
        { revert Hx. induction args as [|e l IHl]; intros Hx; cbn [map flat_map] in *; [contradiction|].
          rewrite in_app_iff in *. destruct Hx as [Hx|Hx]; [apply vars_subst in Hx|apply IHl in Hx]; tauto. }
        destruct H; [left; rewrite !in_app_iff; tauto|tauto].
      + assert (H : In x (flat_map vars (map snd kw)) \/ In x (map snd sb)).
        { revert Hx. induction (map snd kw) as [|e l IHl]; intros Hx; cbn [map flat_map] in *; [contradiction|].
          rewrite in_app_iff in *. destruct Hx as [Hx|Hx]; [apply vars_subst in Hx|apply IHl in Hx]; tauto. }
        destruct H; [left; rewrite !in_app_iff; tauto|tauto].
    - rewrite !in_app_iff in *. destruct Hx as [Hx|Hx]; apply vars_subst in Hx; tauto.
  Qed.

  (* ---- the statement-level function ---- *)
  Lemma dedup_incl l : incl (dedup l) l.
  Proof.
    induction l as [|x l IH]; cbn [dedup]; [apply incl_refl|].
    destruct (smem x l); intros y Hy.
    - right. now apply IH.
    - destruct Hy as [<-|Hy]; [now left|right; now apply IH].
  Qed.

  Lemma subset_incl a b : subset a b = true -> incl a b.
  Proof. unfold subset. rewrite forallb_forall. intros H x Hx. apply smem_In. now apply H. Qed.

  Lemma sinsert_in x l y : In y (sinsert x l) -> y = x \/ In y l.
  Proof.
    induction l as [|z l IH]; cbn [sinsert]; [intros [<-|[]]; now left|].
    destruct (String.leb x z); cbn [In]; [intros [<-|H]; auto|].
    intros [<-|H]; [right; now left|]. apply IH in H. destruct H; auto.
  Qed.

  Lemma ssort_incl l : incl (ssort l) l.
  Proof.
    induction l as [|x l IH]; [apply incl_refl|]. unfold ssort. cbn [fold_right]. fold (ssort l).
    intros y Hy. apply sinsert_in in Hy. destruct Hy as [->|Hy]; [now left|right; now apply IH].
  Qed.

  Lemma rw_order_incl lsr lbr sds ords s vs :
    rw_order lsr lbr sds ords s = Some vs -> incl vs (kind_writes (tkd s)).
  Proof.
    unfold rw_order.
    assert (Hc : incl (read_and_written lsr lbr s) (kind_writes (tkd s))).
    { unfold read_and_written. intros x Hx. apply dedup_incl in Hx. apply filter_In in Hx.
      destruct Hx as [_ Hx]. apply smem_In in Hx. exact Hx. }
    destruct sds.
    { intros H. inversion H; subst. intros x Hx. apply Hc. now apply ssort_incl. }
    destruct (assoc (tid s) ords) as [o|].
    - destruct (subset o _ && subset _ o && nodupb o) eqn:E; [|discriminate].
      intros H. inversion H; subst. apply andb_true_iff in E. destruct E as [E _].
      apply andb_true_iff in E. destruct E as [E _]. intros x Hx. apply Hc. eapply subset_incl; eauto.
    - intros H. inversion H; subst. exact Hc.
  Qed.

  Lemma kind_writes_kvars k : incl (kind_writes k) (kvars k).
  Proof.
    destruct k as [x sub rhs loops|xs fn args kw|? ? ? ?| | | |]; cbn; intros y Hy; try contradiction.
    - destruct Hy as [<-|[]]. now left.
    - apply in_app_iff. now left.
  Qed.

  Theorem ms_sd_spec lsr lbr sds ords s :
    has_call (tcond s) = false -> loopfree (tkd s) = true ->
    (forall f, In f (kfnames (tkd s)) -> ~ In f (kind_writes (tkd s))) ->
    forall st l st', ms_sd lsr lbr sds ords s st = TOk (l, st') -> sspec F dg s st l st'.
  Proof.
    intros Hnc Hlf Hfn st l st' E. unfold ms_sd in E.
    destruct (rw_order lsr lbr sds ords s) as [vs|] eqn:Er; [|discriminate].
    pose proof (rw_order_incl _ _ _ _ _ _ Er) as Hvs.
    destruct vs as [|v vs].
    { unfold ret in E. inversion E; subst. now apply sspec_id. }
    remember (v :: vs) as vs0 eqn:Hvs0. clear Hvs0.
    unfold bind in E.
    destruct (sd_loop s vs0 st) as [[[[sb ids] ns] st1]|e] eqn:El; [|discriminate].
    rewrite (mk_subst sb (tkd s) st1 Hlf) in E. inversion E; subst l st'. clear E.
    destruct (sd_loop_spec _ _ _ _ _ _ _ El) as (N & I & X & Hfst & HN & Hids & Hcnt & Hns & Hsem).
    exists N, I, ns, (mkT (tid s) (tdeps s ++ ids) (tcond s) (ksubst sb (tkd s))).
    split; [reflexivity|split; [exact X|split; [reflexivity|split; [reflexivity|]]]].
    destruct (ksubst_props sb (tkd s)) as [Hw Hl2].
    split; [exact Hw|split; [|split; [exact Hcnt|split; [|split; [now apply Hl2|]]]]].
    - eapply Forall_impl; [|exact Hns]. intros n [A B]. split; [rewrite A; apply gext_refl|exact B].
    - unfold svars. cbn [tcond tkd]. intros y Hy. rewrite !in_app_iff in *. destruct Hy as [Hy|Hy]; [tauto|].
      apply kvars_subst in Hy. destruct Hy as [Hy|Hy]; [tauto|]. right. now apply HN.
    - intros Hv a evs log. destruct s as [id deps cond k]. cbn [tid tdeps tcond tkd] in *.
      assert (Hvc : incl (vars cond) (ex (gvars st))).
      { intros y Hy. apply Hv. unfold svars. cbn. apply in_app_iff. now left. }
      assert (Hvk : incl (kvars k) (ex (gvars st))).
      { intros y Hy. apply Hv. unfold svars. cbn. apply in_app_iff. now right. }
      pose proof X as (_ & _ & Fr & _).
      apply leaf_block; [exact Hnc| | |].
      + intros b L o Hc He Hno.
        assert (Hvs1 : incl vs0 (ex (gvars st))).
        { intros y Hy. apply Hvk. apply kind_writes_kvars. now apply Hvs. }
        destruct (Hsem Hvs1 Hvc b Hc) as (b1 & Hb1 & Hok).
        pose proof (exec_kind_subst sb N b b1 k Hok Hlf) as Hex.
        destruct Hex as [E1 E2].
        { intros y Hy Hin. apply (in_fresh_not_old _ _ _ Fr Hin). now apply Hvk. }
        { intros f Hf. rewrite Hfst. intros Hin. apply (Hfn f Hf). now apply Hvs. }
        rewrite He in E1, E2. cbn [fst snd] in E1, E2.
        destruct (exec_kind_t F dg b1 (ksubst sb k)) as [L2 o'] eqn:Ek. cbn [fst snd] in E1, E2. subst L2.
        exists [], b1, L, o'. destruct Hok as [Hoff _].
        split; [exact Hb1|split; [exact Hoff|split; [exact Ek|split; [exact E2|apply Permutation_refl]]]].
      + eapply Forall_impl; [|exact Hns]. intros n [A _]. cbn [tcond] in A. rewrite A. apply gext_refl.
      + intros y Hy Hin. apply (in_fresh_not_old _ _ _ Fr Hy). apply Hvc, Hin.
  Qed.
End Sd.
