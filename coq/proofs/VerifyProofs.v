(* Proofs about model/Verify.v (C10). *)
From Coq Require Import List Arith Bool Lia Relation_Operators Operators_Properties.
Import ListNotations.
From Dagrt Require Import Verify.
From Dagrt Require Dfs.

(* ------------------------------------------------------------------ basics *)

Lemma memb_In x l : memb x l = true <-> In x l.
Proof.
  unfold memb. rewrite existsb_exists. split.
  - intros [y [Hy He]]. apply Nat.eqb_eq in He. now subst.
  - intros H. exists x. split; auto. apply Nat.eqb_refl.
Qed.

Lemma memb_nIn x l : memb x l = false <-> ~ In x l.
Proof. rewrite <- memb_In. destruct (memb x l); split; congruence. Qed.

Lemma dedup_In x l : In x (dedup l) <-> In x l.
Proof.
  induction l as [|a l IH]; cbn [dedup]; [tauto|].
  destruct (memb a l) eqn:E.
  - rewrite IH. cbn. split; auto. intros [->|H]; auto. now apply memb_In.
  - cbn. rewrite IH. tauto.
Qed.

Lemma sum_cons a l : sum (a :: l) = a + sum l.
Proof. reflexivity. Qed.

Lemma sum_zero l : sum l = 0 <-> forall x, In x l -> x = 0.
Proof.
  induction l as [|a l IH].
  - cbn. split; auto. intros _ x [].
  - rewrite sum_cons. split.
    + intros H x [Hx|Hx]; [lia|]. apply IH; [lia|auto].
    + intros H. rewrite (H a (or_introl eq_refl)). apply IH. intros x Hx. apply H. now right.
Qed.

Lemma sum_map_zero {A} (f : A -> nat) l : sum (map f l) = 0 <-> forall x, In x l -> f x = 0.
Proof.
  rewrite sum_zero. split.
  - intros H x Hx. apply H. now apply in_map.
  - intros H y Hy. apply in_map_iff in Hy. destruct Hy as [x [<- Hx]]. auto.
Qed.

Lemma sum_map_pos {A} (f : A -> nat) l x : In x l -> 1 <= f x -> 1 <= sum (map f l).
Proof.
  intros Hx Hf. destruct (sum (map f l)) eqn:E; [|lia].
  rewrite sum_map_zero in E. specialize (E x Hx). lia.
Qed.

Lemma length_zero_iff_nil {A} (l : list A) : length l = 0 <-> l = [].
Proof. destruct l; cbn; split; congruence. Qed.

Lemma filter_nil_iff {A} (f : A -> bool) l : filter f l = [] <-> forall x, In x l -> f x = false.
Proof.
  induction l as [|a l IH]; cbn.
  - split; auto. intros _ x [].
  - destruct (f a) eqn:E.
    + split; [discriminate|]. intros H. specialize (H a (or_introl eq_refl)). congruence.
    + rewrite IH. split.
      * intros H x [<-|Hx]; auto.
      * intros H x Hx. auto.
Qed.

(* ------------------------------------------------------------------ one phase *)

Section Phase.
  Variable stmts : list stmt.
  Notation ids := (map sid stmts).
  Notation dp := (dep stmts).

  Lemma lookup_gen l i s : lookup l i = Some s -> In s l /\ sid s = i.
  Proof.
    induction l as [|a l IH]; cbn; [discriminate|].
    destruct (lookup l i) eqn:E.
    - intros [= <-]. destruct (IH eq_refl). auto.
    - destruct (Nat.eqb (sid a) i) eqn:E2; [|discriminate].
      intros [= <-]. apply Nat.eqb_eq in E2. auto.
  Qed.

  Lemma lookup_none_gen l i : lookup l i = None <-> ~ In i (map sid l).
  Proof.
    induction l as [|a l IH]; cbn; [tauto|].
    destruct (lookup l i) eqn:E.
    - split; [discriminate|]. intros H. exfalso. apply H. right.
      apply lookup_gen in E. destruct E as [E1 <-]. now apply in_map.
    - destruct (Nat.eqb (sid a) i) eqn:E2.
      + apply Nat.eqb_eq in E2. split; [discriminate|]. intros H; exfalso; auto.
      + apply Nat.eqb_neq in E2. split; auto. intros _ [H|H]; [auto|]. now apply IH.
  Qed.

  Lemma uniq_stmt l : NoDup (map sid l) -> forall a b, In a l -> In b l -> sid a = sid b -> a = b.
  Proof.
    induction l as [|x l IH]; cbn; [intros _ a b []|].
    intros H a b Ha Hb E. inversion H as [|? ? Hn Hd]; subst.
    destruct Ha as [<-|Ha], Hb as [<-|Hb]; auto.
    - exfalso. apply Hn. rewrite E. now apply in_map.
    - exfalso. apply Hn. rewrite <- E. now apply in_map.
  Qed.

  (* ---- the neighbour loop ---- *)
  Lemma scan_ok visiting deps : forall stack st',
    scan stmts visiting deps stack = ScanOk st' ->
    exists cs, st' = cs ++ stack /\ length cs = length deps /\
      Forall (fun c => In c stmts /\ In (sid c) deps /\ ~ In (sid c) visiting) cs /\
      (forall d, In d deps -> exists c, In c cs /\ sid c = d).
  Proof.
    induction deps as [|d r IH]; cbn [scan]; intros stack st'.
    - intros [= <-]. exists []. cbn. repeat split; auto. intros d [].
    - destruct (memb d visiting) eqn:Ev; [discriminate|].
      destruct (lookup stmts d) as [s|] eqn:El; [|discriminate].
      intros H. apply IH in H. destruct H as [cs [-> [Hl [Hf Hall]]]].
      apply lookup_gen in El. destruct El as [Hin Hsid].
      exists (cs ++ [s]). rewrite <- app_assoc. cbn. repeat split.
      + rewrite app_length. cbn. lia.
      + apply Forall_app. split.
        * eapply Forall_impl; [|exact Hf]. cbn. intros c [H1 [H2 H3]]. auto.
        * constructor; [|constructor]. rewrite Hsid. repeat split; auto.
          now apply memb_nIn.
      + intros d' [<-|Hd'].
        * exists s. split; auto. apply in_or_app. right. now left.
        * destruct (Hall d' Hd') as [c [Hc1 Hc2]]. exists c. split; auto. apply in_or_app. now left.
  Qed.

  Lemma scan_cycle visiting deps : forall stack,
    scan stmts visiting deps stack = ScanCycle -> exists d, In d deps /\ In d visiting.
  Proof.
    induction deps as [|d r IH]; cbn [scan]; intros stack; [discriminate|].
    destruct (memb d visiting) eqn:Ev.
    - intros _. exists d. split; [now left|now apply memb_In].
    - destruct (lookup stmts d); [|discriminate]. intros H. apply IH in H.
      destruct H as [d' [H1 H2]]. exists d'. split; auto. now right.
  Qed.

  Lemma scan_keyerror visiting deps : forall stack,
    scan stmts visiting deps stack = ScanKeyError -> exists d, In d deps /\ ~ In d ids.
  Proof.
    induction deps as [|d r IH]; cbn [scan]; intros stack; [discriminate|].
    destruct (memb d visiting); [discriminate|].
    destruct (lookup stmts d) eqn:El.
    - intros H. apply IH in H. destruct H as [d' [H1 H2]]. exists d'. split; auto. now right.
    - intros _. exists d. split; [now left|]. now apply lookup_none_gen.
  Qed.

  (* ---- fuel adequacy ---- *)
  Definition unvis (visited : list nat) (l : list stmt) : list stmt :=
    filter (fun s => negb (memb (sid s) visited)) l.

  Definition wsum (l : list stmt) : nat := sum (map weight l).

  Lemma wsum_cons a l : wsum (a :: l) = weight a + wsum l.
  Proof. reflexivity. Qed.

  Lemma unvis_cons v a l :
    unvis v (a :: l) = if negb (memb (sid a) v) then a :: unvis v l else unvis v l.
  Proof. reflexivity. Qed.

  Lemma memb_cons x y l : memb x (y :: l) = Nat.eqb x y || memb x l.
  Proof. reflexivity. Qed.

  Lemma unvis_nil l : unvis [] l = l.
  Proof. induction l as [|a l IH]; auto. rewrite unvis_cons, IH. reflexivity. Qed.

  Lemma wsum_unvis_le x visited l : wsum (unvis (x :: visited) l) <= wsum (unvis visited l).
  Proof.
    induction l as [|a l IH]; [apply Nat.le_refl|].
    rewrite !unvis_cons, memb_cons.
    destruct (Nat.eqb (sid a) x); destruct (memb (sid a) visited); cbn [orb negb];
      rewrite ?wsum_cons; lia.
  Qed.

  Lemma wsum_unvis_lt top visited l :
    In top l -> ~ In (sid top) visited ->
    wsum (unvis (sid top :: visited) l) + weight top <= wsum (unvis visited l).
  Proof.
    induction l as [|a l IH]; [intros []|].
    intros Hin Hn. rewrite !unvis_cons, memb_cons.
    destruct Hin as [->|Hin].
    - rewrite Nat.eqb_refl. apply memb_nIn in Hn. rewrite Hn. cbn [orb negb].
      rewrite wsum_cons. pose proof (wsum_unvis_le (sid top) visited l). lia.
    - specialize (IH Hin Hn).
      destruct (Nat.eqb (sid a) (sid top)); destruct (memb (sid a) visited); cbn [orb negb];
        rewrite ?wsum_cons; lia.
  Qed.

  Lemma cyc_fuel_ok : forall fuel stack visiting visited,
    Forall (fun s => In s stmts) stack ->
    length stack + wsum (unvis visited stmts) < fuel ->
    cyc stmts fuel stack visiting visited <> CFuel.
  Proof.
    induction fuel as [|f IH]; intros stack visiting visited Hst Hm; [lia|].
    cbn [cyc]. destruct stack as [|top rest]; [discriminate|].
    inversion Hst as [|? ? Htop Hrest]; subst.
    destruct (memb (sid top) visited) eqn:Ev.
    - apply IH; auto. cbn in Hm. lia.
    - destruct (scan stmts (sid top :: visiting) (sdeps top) (top :: rest)) as [| |st'] eqn:Es;
        try discriminate.
      apply scan_ok in Es. destruct Es as [cs [-> [Hl [Hf _]]]].
      apply IH.
      + apply Forall_app. split; auto. eapply Forall_impl; [|exact Hf]. cbn. tauto.
      + apply memb_nIn in Ev.
        pose proof (wsum_unvis_lt top visited stmts Htop Ev) as H.
        rewrite app_length, Hl. unfold weight in H. cbn [length] in *. lia.
  Qed.

  Lemma cycle_check_fuel : cycle_check stmts <> CFuel.
  Proof.
    unfold cycle_check. apply cyc_fuel_ok.
    - apply Forall_forall. intros s Hs. now apply in_rev.
    - rewrite rev_length. unfold cyc_fuel.
      rewrite unvis_nil. unfold wsum. lia.
  Qed.

  (* ---- the loop invariant ---- *)
  (* `done`: ids that have left `visiting` (ghost), most recent first *)
  Inductive sok (done : list nat) : list stmt -> list nat -> Prop :=
  | sok_base : forall st, sok done st []
  | sok_frame : forall cs g below vis,
      sok done (g :: below) vis ->
      In g stmts ->
      ~ In (sid g) vis ->
      Forall (fun c => In (sid c) (sdeps g) /\ ~ In (sid c) (sid g :: vis)) cs ->
      (forall d, In d (sdeps g) -> In d done \/ exists c, In c cs /\ sid c = d) ->
      sok done (cs ++ g :: below) (sid g :: vis).

  Lemma sok_mono done x st vis : sok done st vis -> sok (x :: done) st vis.
  Proof.
    induction 1 as [st|cs g below vis H IH Hg Hn Hf Hd]; [constructor|].
    constructor; auto. intros d Hdd. destruct (Hd d Hdd) as [H1|H1]; [left; now right|now right].
  Qed.

  Lemma sok_top_child done t rest h vis :
    sok done (t :: rest) (h :: vis) -> ~ In (sid t) (h :: vis) -> dp h (sid t).
  Proof.
    intros H Hn. inversion H as [|cs g below vis' Hs Hg Hnv Hf Hd Heq]; subst.
    destruct cs as [|c cs]; cbn in Heq; [injection Heq as -> -> | injection Heq as -> <-].
    - exfalso. apply Hn. now left.
    - inversion Hf as [|? ? [Hc _] _]; subst. exists g. auto.
  Qed.

  Lemma sok_chain done st vis : sok done st vis ->
    forall h vis', vis = h :: vis' -> forall x, In x vis -> clos_refl_trans nat dp x h.
  Proof.
    induction 1 as [st|cs g below vis H IH Hg Hn Hf Hd]; [discriminate|].
    intros h vis' [= <- <-] x [<-|Hx]; [apply rt_refl|].
    destruct vis as [|h0 vis0]; [destruct Hx|].
    apply rt_trans with h0.
    - eapply IH; eauto.
    - apply rt_step. eapply sok_top_child; eauto.
  Qed.

  Lemma sok_pop_nongrey done t rest vis :
    sok done (t :: rest) vis -> ~ In (sid t) vis -> In (sid t) done -> sok done rest vis.
  Proof.
    intros H Hn Hdone. inversion H as [|cs g below vis' Hs Hg Hnv Hf Hd Heq]; subst; [constructor|].
    destruct cs as [|c cs]; cbn in Heq; [injection Heq as -> -> | injection Heq as -> <-].
    - exfalso. apply Hn. now left.
    - inversion Hf as [|? ? Hc Hf']; subst. constructor; auto.
      intros d Hdd. destruct (Hd d Hdd) as [K1|[c' [[<-|K1] K2]]]; auto.
      + left. now rewrite <- K2.
      + right. eauto.
  Qed.

  Lemma sok_pop_grey done t rest vis :
    sok done (t :: rest) vis -> In (sid t) vis ->
    exists vis', vis = sid t :: vis' /\ ~ In (sid t) vis' /\ In t stmts /\
                 sok done (t :: rest) vis' /\ (forall d, In d (sdeps t) -> In d done).
  Proof.
    intros H Hin. inversion H as [|cs g below vis' Hs Hg Hnv Hf Hd Heq]; subst; [destruct Hin|].
    destruct cs as [|c cs]; cbn in Heq; [injection Heq as -> -> | injection Heq as -> <-].
    - exists vis'. repeat split; auto. intros d Hdd. destruct (Hd d Hdd) as [H1|[c [[] _]]]; auto.
    - exfalso. inversion Hf as [|? ? [_ Hc] _]; subst. auto.
  Qed.

  Lemma remove_id_head x l : ~ In x l -> remove_id x (x :: l) = l.
  Proof.
    intros Hn. unfold remove_id. cbn. rewrite Nat.eqb_refl. cbn.
    induction l as [|a l IH]; cbn; auto.
    destruct (Nat.eqb x a) eqn:E.
    - apply Nat.eqb_eq in E. subst. exfalso. apply Hn. now left.
    - cbn. f_equal. apply IH. intros H. apply Hn. now right.
  Qed.

  (* finished ids are topologically sorted: everything a finished id depends on finished earlier *)
  Fixpoint topo (done : list nat) : Prop :=
    match done with
    | [] => True
    | b :: rest => (forall d, dp b d -> In d rest) /\ topo rest
    end.

  Lemma topo_closed done : topo done -> forall x y, In x done -> clos_trans nat dp x y -> In y done.
  Proof.
    intros Ht x y Hx Hp. revert Hx. induction Hp as [x y H|x y z _ IH1 _ IH2]; [|auto].
    induction done as [|b rest IH]; cbn in *; [tauto|].
    destruct Ht as [Hb Ht]. intros [<-|Hx]; [right; auto|]. right. auto.
  Qed.

  Lemma topo_acyclic done : topo done -> forall x, In x done -> ~ clos_trans nat dp x x.
  Proof.
    induction done as [|b rest IH]; cbn; [tauto|].
    intros [Hb Ht] x Hx Hc.
    assert (In x rest) as Hr.
    { destruct Hx as [<-|Hx]; auto.
      apply clos_trans_t1n in Hc. inversion Hc as [? H1|? z H1 H2]; subst.
      - auto.
      - apply Hb in H1. apply clos_t1n_trans in H2. eapply topo_closed; eauto. }
    exact (IH Ht x Hr Hc).
  Qed.

  Record Inv (stack : list stmt) (visiting visited done : list nat) : Prop := {
    inv_sok : sok done stack visiting;
    inv_vis : forall x, In x visited <-> In x visiting \/ In x done;
    inv_topo : topo done;
    inv_stack : Forall (fun s => In s stmts) stack;
    inv_all : forall s, In s stmts -> In s stack \/ In (sid s) visited;
    inv_res : forall x d, In x visited -> dp x d -> In d ids
  }.

  Hypothesis Huniq : NoDup ids.

  Lemma dp_uniq g d : In g stmts -> dp (sid g) d -> In d (sdeps g).
  Proof.
    intros Hg [s [Hs [He Hd]]]. now rewrite <- (uniq_stmt stmts Huniq s g Hs Hg He).
  Qed.

  (* no cycle reported, no exception: everything is resolved and acyclic *)
  Lemma cyc_none : forall fuel stack visiting visited done,
    Inv stack visiting visited done ->
    cyc stmts fuel stack visiting visited = CNone ->
    (forall s d, In s stmts -> In d (sdeps s) -> In d ids) /\
    (forall x, ~ clos_trans nat dp x x).
  Proof.
    induction fuel as [|f IH]; intros stack visiting visited done HI; cbn [cyc]; [discriminate|].
    destruct stack as [|top rest].
    - intros _. destruct HI as [Hs Hv Ht _ Ha Hr].
      assert (visiting = []) as ->.
      { inversion Hs as [|cs g below vis' ? ? ? ? ? Heq]; auto. destruct cs; discriminate. }
      assert (forall s, In s stmts -> In (sid s) done) as Hall.
      { intros s Hin. destruct (Ha s Hin) as [[]|H]. apply Hv in H. destruct H as [[]|H]. auto. }
      split.
      + intros s d Hin Hd. apply (Hr (sid s) d).
        * apply Hv. right. auto.
        * exists s. auto.
      + intros x Hc. apply (topo_acyclic done Ht x); auto.
        apply clos_trans_t1n in Hc. inversion Hc as [? [s [H1 [H2 _]]]|? ? [s [H1 [H2 _]]] _]; subst; auto.
    - destruct HI as [Hs Hv Ht Hst Ha Hr].
      inversion Hst as [|? ? Htop Hrest]; subst.
      destruct (memb (sid top) visited) eqn:Ev.
      + apply memb_In in Ev. destruct (memb (sid top) visiting) eqn:Eg.
        * (* the frame of top is finished: top turns black *)
          apply memb_In in Eg.
          destruct (sok_pop_grey _ _ _ _ Hs Eg) as [vis' [-> [Hn [_ [Hs' Hd]]]]].
          rewrite (remove_id_head _ _ Hn).
          apply (IH rest vis' visited (sid top :: done)).
          constructor; auto.
          -- apply sok_pop_nongrey with top; [now apply sok_mono|auto|now left].
          -- intros x. rewrite Hv. cbn. tauto.
          -- cbn. split; auto. intros d Hdd. apply Hd. now apply dp_uniq.
          -- intros s Hin. destruct (Ha s Hin) as [[<-|H]|H]; auto.
        * apply memb_nIn in Eg.
          assert (In (sid top) done) as Hdone by (apply Hv in Ev; tauto).
          apply (IH rest visiting visited done).
          constructor; auto.
          -- eapply sok_pop_nongrey; eauto.
          -- intros s Hin. destruct (Ha s Hin) as [[<-|H]|H]; auto.
      + apply memb_nIn in Ev.
        destruct (scan stmts (sid top :: visiting) (sdeps top) (top :: rest)) as [| |st'] eqn:Es;
          try discriminate.
        apply scan_ok in Es. destruct Es as [cs [-> [Hl [Hf Hall]]]].
        assert (~ In (sid top) visiting) as Hng by (intros H; apply Ev, Hv; auto).
        apply (IH (cs ++ top :: rest) (sid top :: visiting) (sid top :: visited) done).
        constructor; auto.
        * constructor; auto.
          -- eapply Forall_impl; [|exact Hf]. cbn. tauto.
        * intros x. cbn. rewrite Hv. tauto.
        * apply Forall_app. split; auto. eapply Forall_impl; [|exact Hf]. cbn. tauto.
        * intros s Hin. destruct (Ha s Hin) as [H|H].
          -- left. apply in_or_app. now right.
          -- right. now right.
        * intros x d [<-|Hx] Hdp; [|eauto].
          apply dp_uniq in Hdp; auto. destruct (Hall d Hdp) as [c [Hc <-]].
          rewrite Forall_forall in Hf. destruct (Hf c Hc) as [Hin _]. now apply in_map.
  Qed.

  (* a reported cycle is a cycle *)
  Lemma cyc_cycle : forall fuel stack visiting visited done,
    Inv stack visiting visited done ->
    cyc stmts fuel stack visiting visited = CCycle ->
    exists x, clos_trans nat dp x x.
  Proof.
    induction fuel as [|f IH]; intros stack visiting visited done HI; cbn [cyc]; [discriminate|].
    destruct stack as [|top rest]; [discriminate|].
    destruct HI as [Hs Hv Ht Hst Ha Hr].
    inversion Hst as [|? ? Htop Hrest]; subst.
    destruct (memb (sid top) visited) eqn:Ev.
    - apply memb_In in Ev. destruct (memb (sid top) visiting) eqn:Eg.
      + apply memb_In in Eg.
        destruct (sok_pop_grey _ _ _ _ Hs Eg) as [vis' [-> [Hn [_ [Hs' Hd]]]]].
        rewrite (remove_id_head _ _ Hn).
        apply (IH rest vis' visited (sid top :: done)).
        constructor; auto.
        * apply sok_pop_nongrey with top; [now apply sok_mono|auto|now left].
        * intros x. rewrite Hv. cbn. tauto.
        * cbn. split; auto. intros d Hdd. apply Hd. now apply dp_uniq.
        * intros s Hin. destruct (Ha s Hin) as [[<-|H]|H]; auto.
      + apply memb_nIn in Eg.
        assert (In (sid top) done) as Hdone by (apply Hv in Ev; tauto).
        apply (IH rest visiting visited done).
        constructor; auto.
        * eapply sok_pop_nongrey; eauto.
        * intros s Hin. destruct (Ha s Hin) as [[<-|H]|H]; auto.
    - apply memb_nIn in Ev.
      assert (~ In (sid top) visiting) as Hng by (intros H; apply Ev, Hv; auto).
      destruct (scan stmts (sid top :: visiting) (sdeps top) (top :: rest)) as [| |st'] eqn:Es;
        try discriminate.
      + intros _. apply scan_cycle in Es. destruct Es as [d [Hd Hin]].
        assert (dp (sid top) d) as Hedge by (exists top; auto).
        destruct Hin as [<-|Hin].
        * exists (sid top). now apply t_step.
        * destruct visiting as [|h vis0]; [destruct Hin|].
          exists d. apply clos_rt_t with h.
          -- eapply sok_chain; eauto.
          -- apply t_trans with (sid top); apply t_step; auto.
             eapply sok_top_child; eauto.
      + apply scan_ok in Es. destruct Es as [cs [-> [Hl [Hf Hall]]]].
        apply (IH (cs ++ top :: rest) (sid top :: visiting) (sid top :: visited) done).
        constructor; auto.
        * constructor; auto.
          -- eapply Forall_impl; [|exact Hf]. cbn. tauto.
        * intros x. cbn. rewrite Hv. tauto.
        * apply Forall_app. split; auto. eapply Forall_impl; [|exact Hf]. cbn. tauto.
        * intros s Hin. destruct (Ha s Hin) as [H|H].
          -- left. apply in_or_app. now right.
          -- right. now right.
        * intros x d [<-|Hx] Hdp; [|eauto].
          apply dp_uniq in Hdp; auto. destruct (Hall d Hdp) as [c [Hc <-]].
          rewrite Forall_forall in Hf. destruct (Hf c Hc) as [Hin _]. now apply in_map.
  Qed.

  (* a KeyError names a dependency that is not a statement of the phase *)
  Lemma cyc_keyerror : forall fuel stack visiting visited,
    Forall (fun s => In s stmts) stack ->
    cyc stmts fuel stack visiting visited = CKeyError ->
    exists s d, In s stmts /\ In d (sdeps s) /\ ~ In d ids.
  Proof.
    induction fuel as [|f IH]; intros stack visiting visited Hst; cbn [cyc]; [discriminate|].
    destruct stack as [|top rest]; [discriminate|].
    inversion Hst as [|? ? Htop Hrest]; subst.
    destruct (memb (sid top) visited).
    - apply IH; auto.
    - destruct (scan stmts (sid top :: visiting) (sdeps top) (top :: rest)) as [| |st'] eqn:Es;
        try discriminate.
      + intros _. apply scan_keyerror in Es. destruct Es as [d [H1 H2]]. eauto.
      + apply scan_ok in Es. destruct Es as [cs [-> [_ [Hf _]]]].
        apply IH. apply Forall_app. split; auto. eapply Forall_impl; [|exact Hf]. cbn. tauto.
  Qed.

  Lemma inv_init : Inv (rev stmts) [] [] [].
  Proof.
    constructor; cbn; auto.
    - constructor.
    - tauto.
    - apply Forall_forall. intros s Hs. now apply in_rev.
    - intros s Hs. left. now apply in_rev in Hs.
    - intros x d [].
  Qed.

  Definition closed_acyclic : Prop :=
    (forall s d, In s stmts -> In d (sdeps s) -> In d ids) /\ (forall x, ~ clos_trans nat dp x x).

  Theorem cycle_check_none : cycle_check stmts = CNone <-> closed_acyclic.
  Proof.
    split.
    - apply cyc_none with (done := []). apply inv_init.
    - intros [Hc Ha]. destruct (cycle_check stmts) eqn:E; auto; exfalso.
      + unfold cycle_check in E. apply cyc_cycle with (done := []) in E; [|apply inv_init].
        destruct E as [x Hx]. exact (Ha x Hx).
      + unfold cycle_check in E. apply cyc_keyerror in E.
        * destruct E as [s [d [H1 [H2 H3]]]]. eauto.
        * apply Forall_forall. intros s Hs. now apply in_rev.
      + now apply cycle_check_fuel in E.
  Qed.

  Theorem cycle_check_keyerror :
    cycle_check stmts = CKeyError -> exists s d, In s stmts /\ In d (sdeps s) /\ ~ In d ids.
  Proof.
    unfold cycle_check. apply cyc_keyerror. apply Forall_forall. intros s Hs. now apply in_rev.
  Qed.
End Phase.

(* ------------------------------------------------------------------ the whole method *)

Lemma pass2_mono ps : forall n m, pass2 ps n = P2Done m -> n <= m.
Proof.
  induction ps as [|p ps IH]; cbn [pass2]; intros n m.
  - intros [= <-]. lia.
  - destruct (cycle_check (pstmts p)); try discriminate; intros H; apply IH in H; lia.
Qed.

Lemma pass2_done_same ps : forall n, pass2 ps n = P2Done n ->
  forall p, In p ps -> cycle_check (pstmts p) = CNone.
Proof.
  induction ps as [|p ps IH]; cbn [pass2]; intros n H q Hq; [destruct Hq|].
  destruct (cycle_check (pstmts p)) eqn:E; try discriminate.
  - destruct Hq as [<-|Hq]; eauto.
  - apply pass2_mono in H. lia.
Qed.

Lemma pass2_all_none ps : (forall p, In p ps -> cycle_check (pstmts p) = CNone) ->
  forall n, pass2 ps n = P2Done n.
Proof.
  induction ps as [|p ps IH]; cbn [pass2]; intros H n; auto.
  rewrite (H p (or_introl eq_refl)). apply IH. intros q Hq. apply H. now right.
Qed.

Lemma pass2_no_fuel ps : forall n, pass2 ps n <> P2Fuel.
Proof.
  induction ps as [|p ps IH]; cbn [pass2]; intros n; [discriminate|].
  destruct (cycle_check (pstmts p)) eqn:E; auto; try discriminate.
  now apply cycle_check_fuel in E.
Qed.

Lemma pass2_raise ps : forall n e m, pass2 ps n = P2Raise e m ->
  e = KeyError /\ exists p, In p ps /\ cycle_check (pstmts p) = CKeyError.
Proof.
  induction ps as [|p ps IH]; cbn [pass2]; intros n e m; [discriminate|].
  destruct (cycle_check (pstmts p)) eqn:E; try discriminate.
  - intros H. apply IH in H. destruct H as [He [q [Hq Hc]]]. split; auto. exists q. split; auto. now right.
  - intros H. apply IH in H. destruct H as [He [q [Hq Hc]]]. split; auto. exists q. split; auto. now right.
  - intros [= <- <-]. split; auto. exists p. split; auto. now left.
Qed.

(* ---- pass 1 ---- *)
Lemma ids_for_incl b D p d : In p D -> In d (phase_ids p) -> In d (ids_for b D p).
Proof.
  intros Hp Hd. unfold ids_for. destruct b; auto.
  unfold all_ids. apply in_flat_map. eauto.
Qed.

Lemma missing_zero ids s : missing ids s = 0 <-> forall d, In d (sdeps s) -> In d ids.
Proof.
  unfold missing. rewrite length_zero_iff_nil. split.
  - intros H d Hd. destruct (memb d ids) eqn:E; [now apply memb_In|].
    exfalso. assert (In d (dedup (filter (fun d => negb (memb d ids)) (sdeps s)))) as Hin.
    { apply dedup_In. apply filter_In. split; auto. now rewrite E. }
    rewrite H in Hin. destruct Hin.
  - intros H. assert (filter (fun d => negb (memb d ids)) (sdeps s) = []) as ->; [|reflexivity].
    apply filter_nil_iff. intros d Hd. apply H in Hd. apply memb_In in Hd. now rewrite Hd.
Qed.

Lemma phase_roots_err_zero b D p : In p D -> phase_roots_err (ids_for b D p) p = 0.
Proof.
  intros Hp. unfold phase_roots_err.
  assert (forallb (fun d => memb d (ids_for b D p)) (phase_roots p) = true) as ->; auto.
  apply forallb_forall. intros d Hd. apply memb_In. apply ids_for_incl; auto.
  unfold phase_roots in Hd. apply filter_In in Hd. destruct Hd as [Hd _]. exact (proj1 (dedup_In _ _) Hd).
Qed.

Lemma pass1_zero b D :
  pass1 b D = 0 <->
  forall p s d, In p D -> In s (pstmts p) -> In d (sdeps s) -> In d (ids_for b D p).
Proof.
  unfold pass1.
  assert (sum (map (fun p => phase_roots_err (ids_for b D p) p) D) = 0) as ->.
  { apply sum_map_zero. intros p Hp. now apply phase_roots_err_zero. }
  rewrite Nat.add_0_r, sum_map_zero. split.
  - intros H p s d Hp Hs Hd. specialize (H p Hp). rewrite sum_map_zero in H.
    specialize (H s Hs). rewrite missing_zero in H. auto.
  - intros H p Hp. apply sum_map_zero. intros s Hs. apply missing_zero. eauto.
Qed.

(* ---- pass 3 ---- *)
Lemma pass3_zero D : pass3 D = 0 <-> forall p, In p D -> switches_ok D p.
Proof.
  unfold pass3, switches_ok. rewrite sum_map_zero. split.
  - intros H p Hp s t Hs Hk. specialize (H p Hp). rewrite sum_map_zero in H. specialize (H s Hs).
    unfold switch_err in H. rewrite Hk in H.
    destruct (memb t (map pname D)) eqn:E; [now apply memb_In|discriminate].
  - intros H p Hp. apply sum_map_zero. intros s Hs. unfold switch_err.
    destruct (skind s) eqn:Ek; auto.
    assert (memb target (map pname D) = true) as ->; auto. apply memb_In. eauto.
Qed.

(* ---- pass 4 ---- *)
Lemma cond_errs_zero stmts : cond_errs 1 stmts = 0 <-> forall v, length (writers v stmts) <= 1.
Proof.
  unfold cond_errs. rewrite length_zero_iff_nil, filter_nil_iff. split.
  - intros H v. destruct (memb v (flat_map cond_writes stmts)) eqn:E.
    + apply memb_In in E. apply dedup_In in E. apply H in E. now apply Nat.ltb_ge in E.
    + assert (writers v stmts = []) as ->; [|cbn; lia].
      unfold writers. apply filter_nil_iff. intros s Hs.
      destruct (memb v (cond_writes s)) eqn:E2; auto.
      apply memb_In in E2. apply memb_nIn in E. exfalso. apply E. apply in_flat_map. eauto.
  - intros H v _. apply Nat.ltb_ge. apply H.
Qed.

Lemma pass4_zero D : pass4 1 D = 0 <-> forall p, In p D -> flags_single p.
Proof.
  unfold pass4, flags_single. rewrite sum_map_zero. split.
  - intros H p Hp. apply cond_errs_zero. auto.
  - intros H p Hp. apply cond_errs_zero. auto.
Qed.

(* ---- verify_code ---- *)
Lemma verify_accept b l D :
  verify b l D = Accept <->
  pass1 b D = 0 /\ pass2 D 0 = P2Done 0 /\ pass3 D = 0 /\ pass4 l D = 0.
Proof.
  unfold verify. split.
  - destruct (pass2 D 0) as [n2|e n2|] eqn:E2; try discriminate.
    + destruct (Nat.eqb _ 0) eqn:E; [|discriminate]. apply Nat.eqb_eq in E. intros _.
      assert (n2 = 0) as -> by lia. repeat split; auto; lia.
    + destruct (Nat.eqb _ 0); discriminate.
  - intros [H1 [H2 [H3 H4]]]. rewrite H1, H2, H3, H4. reflexivity.
Qed.

Lemma closed_acyclic_phase p : closed_acyclic (pstmts p) <-> deps_local p /\ acyclic p.
Proof. unfold closed_acyclic, deps_local, acyclic, phase_ids. tauto. Qed.

Theorem verify_iff b D : uniq_ids D -> (verify b 1 D = Accept <-> dag_wf D).
Proof.
  intros Hu. rewrite verify_accept. split.
  - intros [_ [H2 [H3 H4]]] p Hp.
    pose proof (pass2_done_same D 0 H2 p Hp) as Hc.
    apply cycle_check_none in Hc; [|now apply Hu]. apply closed_acyclic_phase in Hc.
    destruct Hc as [Hl Ha]. repeat split; auto.
    + now apply (proj1 (pass3_zero D) H3).
    + now apply (proj1 (pass4_zero D) H4).
  - intros Hwf. repeat split.
    + apply pass1_zero. intros p s d Hp Hs Hd. apply ids_for_incl; auto.
      destruct (Hwf p Hp) as [Hl _]. eapply Hl; eauto.
    + apply pass2_all_none. intros p Hp. apply cycle_check_none; [now apply Hu|].
      apply closed_acyclic_phase. destruct (Hwf p Hp) as [Hl [Ha _]]. auto.
    + apply pass3_zero. intros p Hp. now destruct (Hwf p Hp) as [_ [_ [Hs _]]].
    + apply pass4_zero. intros p Hp. now destruct (Hwf p Hp) as [_ [_ [_ Hf]]].
Qed.

Theorem verify_terminates b l D : verify b l D <> OutOfFuel.
Proof.
  unfold verify. destruct (pass2 D 0) as [n2|e n2|] eqn:E2.
  - destruct (Nat.eqb _ 0); discriminate.
  - destruct (Nat.eqb _ 0); discriminate.
  - now apply pass2_no_fuel in E2.
Qed.

Lemma verify_cge_pos b l D n : verify b l D = CodeGenError n -> n >= 1.
Proof.
  unfold verify. destruct (pass2 D 0) as [n2|e n2|]; try discriminate.
  - destruct (Nat.eqb _ 0) eqn:E; [discriminate|]. apply Nat.eqb_neq in E. intros [= <-]. lia.
  - destruct (Nat.eqb _ 0) eqn:E; [discriminate|]. apply Nat.eqb_neq in E. intros [= <-]. lia.
Qed.

(* an exception other than CodeGenerationError leaves verify_code only as KeyError, only with
   the all-phases id set, and only for a dependency on a statement of another phase *)
Theorem verify_crash b l D e : verify b l D = Crash e ->
  e = KeyError /\ b = false /\
  exists p s d, In p D /\ In s (pstmts p) /\ In d (sdeps s) /\
                ~ In d (phase_ids p) /\ In d (all_ids D).
Proof.
  unfold verify. destruct (pass2 D 0) as [n2|e' n2|] eqn:E2; try discriminate.
  - destruct (Nat.eqb _ 0); discriminate.
  - destruct (Nat.eqb _ 0) eqn:E; [|discriminate]. apply Nat.eqb_eq in E. intros [= <-].
    apply pass2_raise in E2. destruct E2 as [-> [p [Hp Hc]]].
    apply cycle_check_keyerror in Hc. destruct Hc as [s [d [Hs [Hd Hn]]]].
    assert (pass1 b D = 0) as H1 by lia.
    pose proof (proj1 (pass1_zero b D) H1 p s d Hp Hs Hd) as Hin.
    destruct b; cbn in Hin; [contradiction|].
    repeat split; auto. exists p, s, d. auto.
Qed.

Theorem verify_no_crash_fixed l D e : verify true l D <> Crash e.
Proof. intros E. apply verify_crash in E. destruct E as [_ [E _]]. discriminate. Qed.

(* the code with `ids` rebuilt per phase *)
Theorem verify_error_kind_fixed D : uniq_ids D -> ~ dag_wf D ->
  exists n, n >= 1 /\ verify true 1 D = CodeGenError n.
Proof.
  intros Hu Hn. destruct (verify true 1 D) as [|n|e|] eqn:E.
  - exfalso. apply Hn. now apply (verify_iff true D Hu).
  - exists n. split; auto. eapply verify_cge_pos; eauto.
  - apply verify_crash in E. destruct E as [_ [E _]]. discriminate.
  - now apply verify_terminates in E.
Qed.

(* the code as found: same, except for the escaping KeyError *)
Theorem verify_error_kind_partial b D : uniq_ids D -> ~ dag_wf D ->
  (exists n, n >= 1 /\ verify b 1 D = CodeGenError n) \/
  (verify b 1 D = Crash KeyError /\ b = false /\
   exists p s d, In p D /\ In s (pstmts p) /\ In d (sdeps s) /\
                 ~ In d (phase_ids p) /\ In d (all_ids D)).
Proof.
  intros Hu Hn. destruct (verify b 1 D) as [|n|e|] eqn:E.
  - exfalso. apply Hn. now apply (verify_iff b D Hu).
  - left. exists n. split; auto. eapply verify_cge_pos; eauto.
  - right. apply verify_crash in E. destruct E as [-> [-> H]]. auto.
  - now apply verify_terminates in E.
Qed.

(* ---- refutation of the error-kind clause for the code as found ---- *)
Definition wit_cross : dag :=
  [mkPhase 0 0 [mkStmt 1 [2] Plain]; mkPhase 1 1 [mkStmt 2 [] Plain]].

Lemma wit_cross_uniq : uniq_ids wit_cross.
Proof.
  intros p [<-|[<-|[]]]; cbn; repeat constructor; cbn; tauto.
Qed.

Lemma wit_cross_not_wf : ~ dag_wf wit_cross.
Proof.
  intros H. destruct (H (mkPhase 0 0 [mkStmt 1 [2] Plain]) (or_introl eq_refl)) as [Hl _].
  specialize (Hl (mkStmt 1 [2] Plain) 2 (or_introl eq_refl) (or_introl eq_refl)).
  cbn in Hl. destruct Hl as [Hl|[]]. discriminate.
Qed.

Theorem verify_error_kind_refuted :
  uniq_ids wit_cross /\ ~ dag_wf wit_cross /\ verify false 1 wit_cross = Crash KeyError /\
  ~ (exists n, n >= 1 /\ verify false 1 wit_cross = CodeGenError n).
Proof.
  split; [exact wit_cross_uniq|]. split; [exact wit_cross_not_wf|].
  assert (verify false 1 wit_cross = Crash KeyError) as E by (vm_compute; reflexivity).
  split; auto. intros [n [_ H]]. rewrite E in H. discriminate.
Qed.

(* ---- non-vacuity ---- *)
Definition ex_good : dag :=
  [mkPhase 0 1 [mkStmt 0 [] (Assigns [(true, 0)]); mkStmt 1 [0] Plain; mkStmt 2 [0; 1] (Switch 1);
                mkStmt 3 [1] (Assigns [(false, 0); (true, 1)])];
   mkPhase 1 0 [mkStmt 0 [] (Assigns [(true, 0)]); mkStmt 5 [0] (Switch 0)]].

Example ex_good_uniq : uniq_ids ex_good.
Proof.
  intros p [<-|[<-|[]]]; cbn; repeat constructor; cbn; intuition discriminate.
Qed.

Example ex_good_accepted : verify false 1 ex_good = Accept /\ verify true 1 ex_good = Accept.
Proof. split; vm_compute; reflexivity. Qed.

Example ex_good_wf : dag_wf ex_good.
Proof. apply (verify_iff true ex_good ex_good_uniq). now vm_compute. Qed.

(* ill-formed inputs of each kind are rejected with a message by the repaired code *)
Definition ex_cycle : dag := [mkPhase 0 0 [mkStmt 0 [2] Plain; mkStmt 1 [0] Plain; mkStmt 2 [1] Plain]].
Definition ex_two_writers : dag :=
  [mkPhase 0 0 [mkStmt 0 [] (Assigns [(true, 0)]); mkStmt 1 [0] (Assigns [(true, 0)])]].

Example ex_bad_rejected :
  verify true 1 ex_cycle = CodeGenError 1 /\ verify true 1 ex_two_writers = CodeGenError 1 /\
  verify true 1 wit_cross = CodeGenError 1 /\
  verify true 1 [mkPhase 0 0 [mkStmt 0 [] (Switch 7)]] = CodeGenError 1.
Proof. repeat split; vm_compute; reflexivity. Qed.

Example ex_cycle_not_wf : uniq_ids ex_cycle /\ ~ dag_wf ex_cycle.
Proof.
  assert (uniq_ids ex_cycle) as Hu.
  { intros p [<-|[]]; cbn; repeat constructor; cbn; intuition discriminate. }
  split; auto. intros H. apply (verify_iff true ex_cycle Hu) in H. vm_compute in H. discriminate.
Qed.

(* ------------------------------------------------------------------ a consumer: update_plan *)

Section Plan.
  Variable stmts : list stmt.
  Notation ids := (map sid stmts).

  Definition succ_of (x : nat) : list nat :=
    match lookup stmts x with Some s => sdeps s | None => [] end.

  Definition lift (r : option (list nat)) : plan_res :=
    match r with Some a => PlanOk a | None => PlanRecursion end.

  Hypothesis Hclosed : forall s d, In s stmts -> In d (sdeps s) -> In d ids.
  Hypothesis Hacyc : forall x, ~ clos_trans nat (dep stmts) x x.

  Lemma lookup_some i : In i ids -> exists s, lookup stmts i = Some s /\ In s stmts /\ sid s = i.
  Proof.
    intros Hi. destruct (lookup stmts i) as [s|] eqn:E.
    - exists s. split; auto. now apply lookup_gen.
    - apply lookup_none_gen in E. contradiction.
  Qed.

  Lemma edge_dep a b : Dfs.edge succ_of a b -> dep stmts a b.
  Proof.
    unfold Dfs.edge, succ_of. destruct (lookup stmts a) as [s|] eqn:E; [|intros []].
    apply lookup_gen in E. destruct E as [Hs Hi]. intros Hb. exists s. auto.
  Qed.

  Lemma edge_path_dep a b : clos_trans nat (Dfs.edge succ_of) a b -> clos_trans nat (dep stmts) a b.
  Proof.
    induction 1 as [a b H|a b c _ IH1 _ IH2].
    - apply t_step. now apply edge_dep.
    - eapply t_trans; eauto.
  Qed.

  Lemma edge_acyclic x : ~ clos_trans nat (Dfs.edge succ_of) x x.
  Proof. intros H. apply (Hacyc x). now apply edge_path_dep. Qed.

  Lemma ids_closed a b : In a ids -> Dfs.edge succ_of a b -> In b ids.
  Proof.
    intros _ H. apply edge_dep in H. destruct H as [s [Hs [_ Hb]]]. eauto.
  Qed.

  (* add_with_deps is the library's post-order DFS, with None read as RecursionError *)
  Lemma awd_visit : forall f s acc, In s stmts -> lookup stmts (sid s) = Some s ->
    add_with_deps stmts f s acc = lift (Dfs.visit succ_of f (sid s) acc).
  Proof.
    induction f as [|f IH]; intros s acc Hs Hl; [reflexivity|].
    cbn [add_with_deps Dfs.visit]. unfold Dfs.memb. fold (memb (sid s) acc).
    destruct (memb (sid s) acc); [reflexivity|].
    assert (succ_of (sid s) = sdeps s) as Hsucc by (unfold succ_of; now rewrite Hl).
    rewrite Hsucc.
    assert (forall ds r, incl ds (sdeps s) ->
      fold_left (fun r d => match r with
                            | PlanOk a => match lookup stmts d with
                                          | None => PlanKeyError
                                          | Some s' => add_with_deps stmts f s' a
                                          end
                            | e => e end) ds (lift r) =
      lift (fold_left (fun r y => match r with Some a => Dfs.visit succ_of f y a | None => None end) ds r)) as HF.
    { induction ds as [|d ds IHd]; intros r Hin; [reflexivity|].
      cbn [fold_left]. destruct r as [a|]; cbn [lift].
      - assert (In d ids) as Hd by (eapply Hclosed; [exact Hs|apply Hin; now left]).
        destruct (lookup_some d Hd) as [s' [El [Hs' Hi]]]. rewrite El.
        rewrite IH; auto; [|now rewrite Hi].
        rewrite Hi. apply IHd. intros z Hz. apply Hin. now right.
      - change PlanRecursion with (lift None). apply IHd. intros z Hz. apply Hin. now right. }
    specialize (HF (sdeps s) (Some acc) (incl_refl _)). cbn [lift] in HF. rewrite HF.
    destruct (fold_left _ (sdeps s) (Some acc)); reflexivity.
  Qed.

  Lemma awd_total f s acc : In s stmts -> lookup stmts (sid s) = Some s -> length stmts <= f ->
    exists a, add_with_deps stmts f s acc = PlanOk a.
  Proof.
    intros Hs Hl Hf. rewrite awd_visit; auto.
    destruct (Dfs.visit succ_of f (sid s) acc) as [a|] eqn:E; [now exists a|]. exfalso.
    revert E. apply (Dfs.adequacy succ_of edge_acyclic ids ids_closed f (sid s) acc []).
    - constructor.
    - intros z [<-|[]]. now apply in_map.
    - rewrite map_length. cbn. lia.
  Qed.

  Theorem update_plan_total depth roots : incl roots ids -> length stmts <= depth ->
    exists plan, update_plan stmts depth roots = PlanOk plan.
  Proof.
    intros Hr Hd. unfold update_plan. generalize (@nil nat) as acc.
    induction roots as [|r roots IH]; intros acc; cbn [fold_left]; [now exists acc|].
    destruct (lookup_some r (Hr r (or_introl eq_refl))) as [s [El [Hs Hi]]]. rewrite El.
    destruct (awd_total depth s acc Hs) as [a Ha]; auto.
    - now rewrite Hi.
    - rewrite Ha. apply IH. intros z Hz. apply Hr. now right.
  Qed.

  Lemma lookups_resolve s d : In s stmts -> In d (sdeps s) -> lookup stmts d <> None.
  Proof.
    intros Hs Hd E. apply lookup_none_gen in E. apply E. eauto.
  Qed.
End Plan.

(* accepted methods: every id_to_stmt[...] lookup of the consumers resolves, and planning a
   step succeeds as soon as Python allows as many nested calls as the phase has statements *)
Theorem verify_consumers_total b D : uniq_ids D -> verify b 1 D = Accept ->
  forall p, In p D ->
    (forall s d, In s (pstmts p) -> In d (sdeps s) -> lookup (pstmts p) d <> None) /\
    (forall depth roots, incl roots (phase_ids p) -> length (pstmts p) <= depth ->
       exists plan, update_plan (pstmts p) depth roots = PlanOk plan).
Proof.
  intros Hu Ha p Hp. apply (verify_iff b D Hu) in Ha. destruct (Ha p Hp) as [Hl [Hc _]]. split.
  - intros s d. now apply lookups_resolve.
  - intros depth roots. now apply update_plan_total.
Qed.

Example ex_good_plan :
  update_plan (pstmts (mkPhase 0 1 [mkStmt 0 [] Plain; mkStmt 1 [0] Plain; mkStmt 2 [0; 1] Plain;
                                    mkStmt 3 [1] Plain])) 4 [2; 3] = PlanOk [0; 1; 2; 3].
Proof. vm_compute. reflexivity. Qed.

(* a chain longer than the allowed depth: the resource limit behind known finding
   interpreter_recursion_limit *)
Example ex_chain_recursion :
  update_plan [mkStmt 0 [] Plain; mkStmt 1 [0] Plain; mkStmt 2 [1] Plain] 2 [2] = PlanRecursion.
Proof. vm_compute. reflexivity. Qed.
