(* C09: facts about SymbolKindTable.set and the SymbolKindFinder loops (coq/model/Kinds.v). *)
From Coq Require Import List String Bool Arith Lia.
Import ListNotations.
Open Scope string_scope.
Open Scope list_scope.
From Dagrt Require Import Kinds KindsClassProofs.

(* ------------------------------------------------------------------ association lists *)

Lemma kind_eqb_eq : forall a b, kind_eqb a b = true <-> a = b.
Proof.
  intros a b. split.
  - destruct a, b; simpl; intros H; try discriminate; try reflexivity.
    + apply Bool.eqb_prop in H. subst. reflexivity.
    + apply Bool.eqb_prop in H. subst. reflexivity.
    + apply String.eqb_eq in H. subst. reflexivity.
  - intros ->. destruct b; simpl; try reflexivity; try apply Bool.eqb_reflx. apply String.eqb_refl.
Qed.

Lemma okind_eqb_eq : forall a b, okind_eqb a b = true <-> a = b.
Proof.
  intros [a|] [b|]; simpl; split; intros H; try discriminate; try reflexivity.
  - apply kind_eqb_eq in H. subst. reflexivity.
  - inversion H; subst. apply kind_eqb_eq. reflexivity.
Qed.

Lemma alookup_app_last : forall {A} (t : list (string * A)) x k y,
  alookup (t ++ [(x, k)]) y =
  match alookup t y with Some v => Some v | None => if String.eqb x y then Some k else None end.
Proof.
  induction t as [|[n v] t IH]; intros x k y; simpl; [reflexivity|].
  destruct (String.eqb n y); [reflexivity | apply IH].
Qed.

Lemma alookup_tupdate : forall t x k y,
  alookup (tupdate t x k) y =
  if String.eqb x y then match alookup t y with Some _ => Some k | None => None end else alookup t y.
Proof.
  induction t as [|[n v] t IH]; intros x k y; simpl.
  - destruct (String.eqb x y); reflexivity.
  - destruct (String.eqb n x) eqn:E; simpl.
    + apply String.eqb_eq in E. subst n. destruct (String.eqb x y); reflexivity.
    + rewrite IH. destruct (String.eqb n y) eqn:E2; [|reflexivity].
      apply String.eqb_eq in E2. subst n. rewrite String.eqb_sym in E. rewrite E. reflexivity.
Qed.

Lemma alookup_pupdate : forall p ph t q,
  alookup (pupdate p ph t) q = if String.eqb ph q then Some t else alookup p q.
Proof.
  induction p as [|[n v] p IH]; intros ph t q; simpl.
  - destruct (String.eqb ph q); reflexivity.
  - destruct (String.eqb n ph) eqn:E; simpl.
    + apply String.eqb_eq in E. subst n. destruct (String.eqb ph q); reflexivity.
    + rewrite IH. destruct (String.eqb n q) eqn:E2; [|reflexivity].
      apply String.eqb_eq in E2. subst n. rewrite String.eqb_sym in E. rewrite E. reflexivity.
Qed.

Lemma pupdate_same : forall p ph t, alookup p ph = Some t -> pupdate p ph t = p.
Proof.
  induction p as [|[n v] p IH]; intros ph t H; simpl in *; [discriminate|].
  destruct (String.eqb n ph) eqn:E.
  - inversion H; subst. reflexivity.
  - rewrite IH; auto.
Qed.

(* ------------------------------------------------------------------ SymbolKindTable.set on one dict *)

Lemma tbl_set_cases : forall nm t x k,
  (alookup t x = None /\ tbl_set nm t x k = (t ++ [(x, k)], nm, None)) \/
  (exists old, alookup t x = Some old /\
     ((tbl_set nm t x k = (t, false, None) /\ (old = k \/ unify k old = Ok old)) \/
      (exists e, tbl_set nm t x k = (t, false, Some e) /\ unify k old = Err e) \/
      (exists k', tbl_set nm t x k = (tupdate t x k', true, None) /\ unify k old = Ok k' /\ k' <> old))).
Proof.
  intros nm t x k. unfold tbl_set. destruct (alookup t x) as [old|] eqn:E; [right|left; auto].
  exists old. split; [reflexivity|].
  destruct (okind_eqb old k) eqn:E1.
  - apply okind_eqb_eq in E1. left. auto.
  - destruct (unify k old) as [k'|e] eqn:Hu.
    + destruct (okind_eqb old k') eqn:E2.
      * apply okind_eqb_eq in E2. subst k'. left. auto.
      * right. right. exists k'. repeat split; auto. intros ->.
        assert (okind_eqb old old = true) by (apply okind_eqb_eq; reflexivity). congruence.
    + right. left. exists e. split; reflexivity.
Qed.

Definition tbl_all_some (t : tbl) : Prop := forall y ko, alookup t y = Some ko -> ko <> None.

Lemma unify_some : forall a b ko, a <> None -> b <> None -> unify a b = Ok ko -> ko <> None.
Proof.
  intros [a|] [b|] ko Ha Hb H; try congruence.
  destruct (unify_nonbool _ _ _ H) as [k [-> _]]. discriminate.
Qed.

Lemma tbl_set_props : forall nm t x k t' ch cf,
  tbl_set nm t x k = (t', ch, cf) ->
  (forall y, alookup t y <> None -> alookup t' y <> None) /\
  alookup t' x <> None /\
  (forall y, alookup t' y <> None -> y = x \/ alookup t y <> None) /\
  (tbl_all_some t -> k <> None -> tbl_all_some t') /\
  (nm = true -> ch = false -> t' = t) /\
  (nm = true -> ch = false -> cf = None ->
     exists old, alookup t x = Some old /\ (old = k \/ unify k old = Ok old)).
Proof.
  intros nm t x k t' ch cf H.
  destruct (tbl_set_cases nm t x k) as [[Hn E] | [old [Ho [[E Hm] | [[e [E He]] | [k' [E [Hu Hne]]]]]]]];
    rewrite E in H; inversion H; subst; clear H.
  - repeat split.
    + intros y Hy. rewrite alookup_app_last. destruct (alookup t y); [discriminate | contradiction].
    + rewrite alookup_app_last, Hn, String.eqb_refl. discriminate.
    + intros y Hy. rewrite alookup_app_last in Hy. destruct (alookup t y) eqn:Ey.
      * right. discriminate.
      * destruct (String.eqb x y) eqn:Exy; [|contradiction]. apply String.eqb_eq in Exy. auto.
    + intros Hall Hk y ko Hy. rewrite alookup_app_last in Hy. destruct (alookup t y) eqn:Ey.
      * inversion Hy; subst. eapply Hall; eauto.
      * destruct (String.eqb x y); inversion Hy; subst. assumption.
    + intros Hnm Hch. subst. discriminate.
    + intros Hnm Hch. subst. discriminate.
  - repeat split; auto.
    + rewrite Ho. discriminate.
    + intros. eauto.
  - repeat split; auto.
    + rewrite Ho. discriminate.
    + intros _ _ Hcf. discriminate.
  - repeat split.
    + intros y Hy. rewrite alookup_tupdate. destruct (String.eqb x y); [|assumption].
      destruct (alookup t y); [discriminate | contradiction].
    + rewrite alookup_tupdate, String.eqb_refl, Ho. discriminate.
    + intros y Hy. rewrite alookup_tupdate in Hy. destruct (String.eqb x y) eqn:Exy.
      * apply String.eqb_eq in Exy. auto.
      * auto.
    + intros Hall Hk y ko Hy. rewrite alookup_tupdate in Hy. destruct (String.eqb x y) eqn:Exy.
      * apply String.eqb_eq in Exy. subst y. rewrite Ho in Hy. inversion Hy; subst.
        eapply unify_some; [exact Hk | | exact Hu]. eapply Hall; eauto.
      * eapply Hall; eauto.
    + intros _ Hch. discriminate.
    + intros _ Hch. discriminate.
Qed.

(* ------------------------------------------------------------------ tset on the whole table *)

Definition tbl_of (C : cfg) (T : skt) (ph x : string) : tbl :=
  if is_state C x then sg T else local_of T ph.

(* global names live in the global table, all others in the per-phase dicts *)
Definition twf (C : cfg) (T : skt) : Prop :=
  (forall y, alookup (sg T) y <> None -> is_state C y = true) /\
  (forall p y, alookup (local_of T p) y <> None -> is_state C y = false).

Definition all_some (T : skt) : Prop :=
  tbl_all_some (sg T) /\ forall p, tbl_all_some (local_of T p).

Definition same_content (T T' : skt) : Prop := sg T = sg T' /\ sp T = sp T'.

Lemma local_of_pupdate : forall T ph t p g ch cf ex,
  local_of (mkSkt g (pupdate (sp T) ph t) ch cf ex) p = if String.eqb ph p then t else local_of T p.
Proof.
  intros. unfold local_of. simpl. rewrite alookup_pupdate. destruct (String.eqb ph p); reflexivity.
Qed.

Lemma lookup_none_iff : forall T p y,
  lookup T p y <> None <-> (alookup (sg T) y <> None \/ alookup (local_of T p) y <> None).
Proof.
  intros T p y. unfold lookup. destruct (alookup (sg T) y); split; intros H.
  - left. discriminate.
  - discriminate.
  - right. assumption.
  - destruct H; [contradiction | assumption].
Qed.

Section TSet.
  Variable C : cfg.

  Lemma tset_mono : forall T ph x k p y, lookup T p y <> None -> lookup (tset C T ph x k) p y <> None.
  Proof.
    intros T ph x k p y H. apply lookup_none_iff in H. apply lookup_none_iff. unfold tset.
    destruct (is_state C x).
    - destruct (tbl_set (new_marks C) (sg T) x k) as [[t' ch] cf] eqn:E.
      destruct (tbl_set_props _ _ _ _ _ _ _ E) as [Hm _]. simpl.
      destruct H as [H|H]; [left; auto | right; exact H].
    - destruct (tbl_set (new_marks C) (local_of T ph) x k) as [[t' ch] cf] eqn:E.
      destruct (tbl_set_props _ _ _ _ _ _ _ E) as [Hm _].
      destruct H as [H|H]; [left; exact H|]. right. rewrite local_of_pupdate.
      destruct (String.eqb ph p) eqn:Ep; [|assumption]. apply String.eqb_eq in Ep. subst p. auto.
  Qed.

  Lemma tset_key : forall T ph x k, lookup (tset C T ph x k) ph x <> None.
  Proof.
    intros T ph x k. apply lookup_none_iff. unfold tset. destruct (is_state C x).
    - destruct (tbl_set (new_marks C) (sg T) x k) as [[t' ch] cf] eqn:E.
      destruct (tbl_set_props _ _ _ _ _ _ _ E) as [_ [Hk _]]. left. exact Hk.
    - destruct (tbl_set (new_marks C) (local_of T ph) x k) as [[t' ch] cf] eqn:E.
      destruct (tbl_set_props _ _ _ _ _ _ _ E) as [_ [Hk _]]. right.
      rewrite local_of_pupdate, String.eqb_refl. exact Hk.
  Qed.

  Lemma tset_twf : forall T ph x k, twf C T -> twf C (tset C T ph x k).
  Proof.
    intros T ph x k [Hg Hl]. unfold tset. destruct (is_state C x) eqn:Ex.
    - destruct (tbl_set (new_marks C) (sg T) x k) as [[t' ch] cf] eqn:E.
      destruct (tbl_set_props _ _ _ _ _ _ _ E) as [_ [_ [Hs _]]]. split; simpl.
      + intros y Hy. destruct (Hs y Hy) as [->|H]; auto.
      + exact Hl.
    - destruct (tbl_set (new_marks C) (local_of T ph) x k) as [[t' ch] cf] eqn:E.
      destruct (tbl_set_props _ _ _ _ _ _ _ E) as [_ [_ [Hs _]]]. split.
      + exact Hg.
      + intros p y Hy. rewrite local_of_pupdate in Hy. destruct (String.eqb ph p) eqn:Ep.
        * destruct (Hs y Hy) as [->|H]; auto. apply String.eqb_eq in Ep. subst p. eauto.
        * eauto.
  Qed.

  Lemma tset_all_some : forall T ph x k, all_some T -> k <> None -> all_some (tset C T ph x k).
  Proof.
    intros T ph x k [Hg Hl] Hk. unfold tset. destruct (is_state C x).
    - destruct (tbl_set (new_marks C) (sg T) x k) as [[t' ch] cf] eqn:E.
      destruct (tbl_set_props _ _ _ _ _ _ _ E) as [_ [_ [_ [Ha _]]]]. split; simpl; auto.
    - destruct (tbl_set (new_marks C) (local_of T ph) x k) as [[t' ch] cf] eqn:E.
      destruct (tbl_set_props _ _ _ _ _ _ _ E) as [_ [_ [_ [Ha _]]]]. split; [exact Hg|].
      intros p. rewrite local_of_pupdate. destruct (String.eqb ph p); auto.
  Qed.

  Lemma tset_changed_mono : forall T ph x k, schanged T = true -> schanged (tset C T ph x k) = true.
  Proof.
    intros T ph x k H. unfold tset. destruct (is_state C x).
    - destruct (tbl_set (new_marks C) (sg T) x k) as [[t' ch] cf]. simpl. rewrite H. reflexivity.
    - destruct (tbl_set (new_marks C) (local_of T ph) x k) as [[t' ch] cf]. simpl. rewrite H. reflexivity.
  Qed.

  Lemma tset_conf_mono : forall T ph x k, sconf T <= sconf (tset C T ph x k).
  Proof.
    intros T ph x k. unfold tset. destruct (is_state C x).
    - destruct (tbl_set (new_marks C) (sg T) x k) as [[t' ch] cf]. simpl. lia.
    - destruct (tbl_set (new_marks C) (local_of T ph) x k) as [[t' ch] cf]. simpl. lia.
  Qed.

  (* the recorded exception and the message counter go together *)
  Lemma tset_exn_conf : forall T ph x k,
    (sexn T = None <-> sconf T = 0) ->
    (sexn (tset C T ph x k) = None <-> sconf (tset C T ph x k) = 0).
  Proof.
    intros T ph x k H. unfold tset. destruct (is_state C x).
    - destruct (tbl_set (new_marks C) (sg T) x k) as [[t' ch] cf]. simpl.
      destruct (sexn T), cf; simpl in *; split; intros H1; try discriminate; try lia;
        try (destruct H as [H H']; try (specialize (H eq_refl)); try (assert (sconf T = 0) by lia); auto; lia).
    - destruct (tbl_set (new_marks C) (local_of T ph) x k) as [[t' ch] cf]. simpl.
      destruct (sexn T), cf; simpl in *; split; intros H1; try discriminate; try lia;
        try (destruct H as [H H']; try (specialize (H eq_refl)); try (assert (sconf T = 0) by lia); auto; lia).
  Qed.

  (* with the repaired `set`: if the change flag is still down afterwards, nothing was modified *)
  Lemma tset_unchanged : forall T ph x k,
    new_marks C = true -> schanged (tset C T ph x k) = false ->
    same_content T (tset C T ph x k) /\ schanged T = false /\
    (sconf (tset C T ph x k) = sconf T ->
       exists old, alookup (tbl_of C T ph x) x = Some old /\ (old = k \/ unify k old = Ok old)).
  Proof.
    intros T ph x k Hnm Hch. unfold tset, tbl_of in *. destruct (is_state C x).
    - destruct (tbl_set (new_marks C) (sg T) x k) as [[t' ch] cf] eqn:E. simpl in *.
      apply orb_false_elim in Hch. destruct Hch as [Hc1 Hc2]. subst ch.
      destruct (tbl_set_props _ _ _ _ _ _ _ E) as [_ [_ [_ [_ [Hsame Hold]]]]].
      rewrite (Hsame Hnm eq_refl). repeat split; auto.
      intros Hcf. apply Hold; auto. destruct cf; [simpl in Hcf; lia | reflexivity].
    - destruct (tbl_set (new_marks C) (local_of T ph) x k) as [[t' ch] cf] eqn:E. simpl in *.
      apply orb_false_elim in Hch. destruct Hch as [Hc1 Hc2]. subst ch.
      destruct (tbl_set_props _ _ _ _ _ _ _ E) as [_ [_ [_ [_ [Hsame Hold]]]]].
      pose proof (Hsame Hnm eq_refl) as Ht. subst t'.
      assert (Hex : exists old, alookup (local_of T ph) x = Some old).
      { destruct (tbl_set_cases (new_marks C) (local_of T ph) x k) as [[Hn E'] | [old [Ho _]]]; [|eauto].
        rewrite E' in E. inversion E. congruence. }
      destruct Hex as [old Hold'].
      assert (Hp : alookup (sp T) ph = Some (local_of T ph)).
      { unfold local_of in *. destruct (alookup (sp T) ph); [reflexivity | discriminate]. }
      split; [|split; [assumption|]].
      + split; simpl; [reflexivity|]. symmetry. apply pupdate_same. assumption.
      + intros Hcf. apply Hold; auto. destruct cf; [simpl in Hcf; lia | reflexivity].
  Qed.
End TSet.
