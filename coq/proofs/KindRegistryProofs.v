(* The result kinds of registered functions (coq/model/KindInfer.v: resolve, result_kinds,
   call_kinds) are monotone in the argument kinds, for the shape in which the matrix built-ins
   are unable unless their matrix arguments are arrays (c_arr_only):

     arguments a <= a' (an unknown argument, None, is below everything)
       - get_result_kinds fails on a'        =>  it fails on a              (definedness is upward closed)
       - it returns ks' on a'                =>  it fails on a, or returns ks <= ks' pointwise.

   This is the property of the registry the order-independence proof needs (KindInferProofs.
   infer_mono).  For the other shape it is false: matmul_not_mono_refuted. *)
From Coq Require Import List String Bool Arith Lia.
Import ListNotations.
From Dagrt Require Import Unify UnifyProofs KindOrder KindInfer.
Open Scope string_scope.

(* ------------------------------------------------------------------ resolve_args is parametric *)

Section Rel.
  Context {A : Type} (R : A -> A -> Prop).

  Definition kwrel (kw kw' : list (string * A)) : Prop :=
    Forall2 (fun a b => fst a = fst b /\ R (snd a) (snd b)) kw kw'.

  Definition orel {B} (Q : B -> B -> Prop) (x y : option B) : Prop :=
    match x, y with
    | Some a, Some b => Q a b
    | None, None => True
    | _, _ => False
    end.

  Lemma alookup_rel : forall kw kw' n, kwrel kw kw' -> orel R (alookup kw n) (alookup kw' n).
  Proof.
    intros kw kw' n H. induction H as [|[a v] [b w] l l' [Hab Hvw] Hl IH]; cbn; [exact I|].
    cbn in Hab, Hvw. subst b. destruct (String.eqb a n); [exact Hvw|exact IH].
  Qed.

  Lemma aremove_rel : forall kw kw' n, kwrel kw kw' -> kwrel (aremove kw n) (aremove kw' n).
  Proof.
    intros kw kw' n H. induction H as [|[a v] [b w] l l' [Hab Hvw] Hl IH]; cbn; [constructor|].
    cbn in Hab, Hvw. subst b. destruct (String.eqb a n); [exact IH|].
    constructor; [split; [reflexivity|exact Hvw]|exact IH].
  Qed.

  Lemma resolve_rel : forall names pos pos' kw kw',
    Forall2 R pos pos' -> kwrel kw kw' ->
    orel (Forall2 R) (resolve names pos kw) (resolve names pos' kw').
  Proof.
    induction names as [|n names IH]; intros pos pos' kw kw' Hp Hk; cbn.
    - destruct Hp; [|exact I]. destruct Hk; [constructor|exact I].
    - destruct Hp as [|p p' pos pos' Hpp Hp].
      + pose proof (alookup_rel kw kw' n Hk) as Ha.
        destruct (alookup kw n) as [v|], (alookup kw' n) as [v'|]; cbn in Ha; try contradiction; [|exact I].
        pose proof (IH [] [] (aremove kw n) (aremove kw' n) (Forall2_nil R) (aremove_rel _ _ n Hk)) as Hr.
        destruct (resolve names [] (aremove kw n)), (resolve names [] (aremove kw' n)); cbn in Hr |- *;
          try contradiction; [|exact I].
        constructor; assumption.
      + pose proof (alookup_rel kw kw' n Hk) as Ha.
        destruct (alookup kw n) as [v|], (alookup kw' n) as [v'|]; cbn in Ha; try contradiction; [exact I|].
        pose proof (IH pos pos' kw kw' Hp Hk) as Hr.
        destruct (resolve names pos kw), (resolve names pos' kw'); cbn in Hr |- *;
          try contradiction; [|exact I].
        constructor; assumption.
  Qed.

  Lemma Forall2_firstn : forall n (l l' : list A), Forall2 R l l' -> Forall2 R (firstn n l) (firstn n l').
  Proof.
    induction n as [|n IH]; intros l l' H; cbn; [constructor|].
    destruct H; [constructor|]. constructor; [assumption|apply IH; assumption].
  Qed.

  Lemma Forall2_skipn : forall n (l l' : list A), Forall2 R l l' -> Forall2 R (skipn n l) (skipn n l').
  Proof.
    induction n as [|n IH]; intros l l' H; cbn; [assumption|].
    destruct H; [constructor|]. apply IH; assumption.
  Qed.

  Lemma combine_rel : forall (ns : list string) (l l' : list A), Forall2 R l l' ->
    kwrel (combine ns l) (combine ns l').
  Proof.
    induction ns as [|n ns IH]; intros l l' H; cbn; [constructor|].
    destruct H; [constructor|]. constructor; [split; [reflexivity|assumption]|apply IH; assumption].
  Qed.

  Lemma Forall2_len : forall (l l' : list A), Forall2 R l l' -> List.length l = List.length l'.
  Proof. induction 1; cbn; congruence. Qed.

  Lemma split_args_rel : forall (vals vals' : list A) kwn, Forall2 R vals vals' ->
    Forall2 R (fst (split_args vals kwn)) (fst (split_args vals' kwn)) /\
    kwrel (snd (split_args vals kwn)) (snd (split_args vals' kwn)).
  Proof.
    intros vals vals' kwn H. unfold split_args. cbn.
    rewrite <- (Forall2_len _ _ H). split.
    - apply Forall2_firstn; assumption.
    - apply combine_rel. apply Forall2_skipn; assumption.
  Qed.
End Rel.

(* ------------------------------------------------------------------ the result kinds *)

(* small-side result against big-side result *)
Definition krel (r r' : option (list kind)) : Prop :=
  match r' with
  | None => r = None
  | Some ks' => r = None \/ exists ks, r = Some ks /\ Forall2 kle (map (@Some kind) ks) (map (@Some kind) ks')
  end.

Lemma krel_same : forall r, krel r r.
Proof.
  intros [ks|]; cbn; [|reflexivity]. right. exists ks. split; [reflexivity|].
  induction ks; cbn; constructor; [apply kle_refl|assumption].
Qed.

Lemma krel_none : forall r', krel None r'.
Proof. intros [ks|]; cbn; auto. Qed.

Ltac dk k := destruct k as [[| |[]|[]|?]|].

(* kinds below an array / above an array *)
Lemma kle_array_r : forall a r', kle a (Some (KArray r')) ->
  a = Some KInt \/ (exists r, a = Some (KScalar r) /\ (r' = true -> r = true))
  \/ (exists r, a = Some (KArray r) /\ (r' = true -> r = true)).
Proof.
  intros a r' H. dk a; destruct r'; unfold kle, UU in H; cbn in H;
    destruct H as [H|[Hn H]]; try discriminate; try congruence; eauto 6.
Qed.

Lemma kle_array_l : forall r b, kle (Some (KArray r)) b ->
  exists r', b = Some (KArray r') /\ (r' = true -> r = true).
Proof.
  intros r b H. dk b; destruct r; unfold kle, UU in H; cbn in H;
    destruct H as [H|[Hn H]]; try discriminate; try congruence; eauto.
Qed.

Lemma wle_cases : forall a a', wle a a' -> a = None \/ (a <> None /\ kle a a').
Proof.
  intros a a' [H|H]; [left; assumption|]. destruct a; [right; split; [discriminate|assumption]|left; reflexivity].
Qed.

Lemma kle_arr_arr : forall r r', (r' = true -> r = true) -> kle (Some (KArray r)) (Some (KArray r')).
Proof.
  intros [] [] H; unfold kle, UU; cbn; auto; try (right; split; [discriminate|reflexivity]).
  specialize (H eq_refl). discriminate.
Qed.

Lemma mat1_mono : forall x x', wle x x' ->
  match mat1 true x' with
  | None => mat1 true x = None
  | Some r' => mat1 true x = None \/ exists r, mat1 true x = Some r /\ (r' = true -> r = true)
  end.
Proof.
  intros x x' H. destruct (wle_cases _ _ H) as [->|[Hn Hk]].
  { cbn. destruct (match x' with Some (KArray r) => Some r | _ => None end); auto. }
  dk x'; cbn; try (apply kle_none_r in Hk; contradiction);
    try (dk x; unfold kle, UU in Hk; cbn in Hk; destruct Hk as [Hk|[_ Hk]];
         try discriminate; try congruence; cbn; auto; fail).
  - destruct (kle_array_r _ _ Hk) as [->|[[r [-> Hr]]|[r [-> Hr]]]]; cbn; eauto.
  - destruct (kle_array_r _ _ Hk) as [->|[[r [-> Hr]]|[r [-> Hr]]]]; cbn; eauto.
Qed.

Lemma mat2_mono : forall x x' y y', wle x x' -> wle y y' ->
  match mat2 true x' y' with
  | None => mat2 true x y = None
  | Some r' => mat2 true x y = None \/ exists r, mat2 true x y = Some r /\ (r' = true -> r = true)
  end.
Proof.
  intros x x' y y' Hx Hy.
  assert (Hnone : forall u v, mat2 true u v = None \/ exists ru rv, u = Some (KArray ru) /\ v = Some (KArray rv)).
  { intros u v. dk u; dk v; cbn; eauto. }
  destruct (Hnone x y) as [E|[rx [ry [-> ->]]]].
  { rewrite E. destruct (mat2 true x' y'); auto. }
  destruct Hx as [Hx|Hx]; [discriminate|]. destruct Hy as [Hy|Hy]; [discriminate|].
  destruct (kle_array_l _ _ Hx) as [rx' [-> Hrx]]. destruct (kle_array_l _ _ Hy) as [ry' [-> Hry]].
  cbn. right. eexists; split; [reflexivity|].
  intro E. apply andb_true_iff in E. destruct E as [E1 E2]. rewrite (Hrx E1), (Hry E2). reflexivity.
Qed.

Lemma abs_mono : forall x x', wle x x' ->
  krel (result_kinds true RAbs [x]) (result_kinds true RAbs [x']).
Proof.
  intros x x' H. destruct (wle_cases _ _ H) as [->|[Hn Hk]]; [apply krel_none|].
  destruct Hk as [->|[_ Hk]]; [apply krel_same|].
  unfold UU in Hk.
  dk x; dk x'; cbn in Hk; try discriminate; try contradiction; str_cases; try discriminate;
    cbn; auto;
    right; eexists; (split; [reflexivity|]); (constructor; [|constructor]);
    first [ apply kle_refl
          | right; split; [discriminate|reflexivity] ].
Qed.

Lemma krel_arr1 : forall o o' : option bool,
  match o' with None => o = None | Some r' => o = None \/ exists r, o = Some r /\ (r' = true -> r = true) end ->
  krel (match o with Some r => Some [KArray r] | None => None end)
       (match o' with Some r => Some [KArray r] | None => None end).
Proof.
  intros o o' H. destruct o' as [r'|]; cbn.
  - destruct H as [->|[r [-> Hr]]]; [left; reflexivity|]. right. eexists; split; [reflexivity|].
    constructor; [apply kle_arr_arr; assumption|constructor].
  - subst o. reflexivity.
Qed.

Lemma krel_arr3 : forall o o' : option bool,
  match o' with None => o = None | Some r' => o = None \/ exists r, o = Some r /\ (r' = true -> r = true) end ->
  krel (match o with Some r => Some [KArray r; KArray r; KArray r] | None => None end)
       (match o' with Some r => Some [KArray r; KArray r; KArray r] | None => None end).
Proof.
  intros o o' H. destruct o' as [r'|]; cbn.
  - destruct H as [->|[r [-> Hr]]]; [left; reflexivity|]. right. eexists; split; [reflexivity|].
    repeat (constructor; [apply kle_arr_arr; assumption|]). constructor.
  - subst o. reflexivity.
Qed.

Lemma result_kinds_mono : forall rk a a', Forall2 wle a a' ->
  krel (result_kinds true rk a) (result_kinds true rk a').
Proof.
  intros rk a a' H.
  destruct rk; try (cbn; apply krel_same);
    (destruct H as [|x1 x1' ? ? H1 H]; [apply krel_same|]);
    (destruct H as [|x2 x2' ? ? H2 H]; [try apply krel_same|]);
    try (destruct H as [|x3 x3' ? ? H3 H]; [try apply krel_same|]);
    try (destruct H as [|x4 x4' ? ? H4 H]; [try apply krel_same|]);
    try (destruct H as [|x5 x5' ? ? H5 H]; [try apply krel_same|]);
    try apply krel_same.
  - (* RAbs *) apply abs_mono; assumption.
  - (* RMatMul *) cbn [result_kinds]. apply krel_arr1. apply mat2_mono; assumption.
  - (* RTranspose *) cbn [result_kinds]. apply krel_arr1. apply mat1_mono; assumption.
  - (* RLinSolve *) cbn [result_kinds]. apply krel_arr1. apply mat2_mono; assumption.
  - (* RSvd *) cbn [result_kinds]. apply krel_arr3. apply mat1_mono; assumption.
Qed.

(* the monotonicity lemma used for order independence *)
Theorem call_kinds_mono : forall sg vals vals' kwn, Forall2 wle vals vals' ->
  krel (call_kinds true sg vals kwn) (call_kinds true sg vals' kwn).
Proof.
  intros sg vals vals' kwn H. unfold call_kinds.
  destruct (split_args_rel wle vals vals' kwn H) as [Hp Hk].
  destruct (split_args vals kwn) as [pos kw], (split_args vals' kwn) as [pos' kw']. cbn in Hp, Hk.
  pose proof (resolve_rel wle (f_args sg) pos pos' kw kw' Hp Hk) as Hr.
  destruct (f_rk sg) eqn:Erk; try apply krel_same;
    (destruct (resolve (f_args sg) pos kw) as [a|], (resolve (f_args sg) pos' kw') as [a'|];
     cbn in Hr; try contradiction; [apply result_kinds_mono; assumption|reflexivity]).
Qed.

(* ------------------------------------------------------------------ the other shape *)

(* matmul accepts a Scalar where it refuses the UserType above it: defined below, undefined above *)
Lemma matmul_not_mono_refuted :
  let sg := {| f_args := ["a"; "b"; "a_cols"; "b_cols"]; f_nres := 1; f_rk := RMatMul |} in
  let lo := [Some (KScalar true); Some (KScalar true); Some (KScalar true); Some (KScalar true)] in
  let hi := [Some (KUser "u"); Some (KUser "u"); Some (KScalar true); Some (KScalar true)] in
  Forall2 wle lo hi /\ ~ krel (call_kinds false sg lo []) (call_kinds false sg hi []).
Proof.
  cbv zeta. split.
  - constructor; [right; right; split; [discriminate|reflexivity]|].
    constructor; [right; right; split; [discriminate|reflexivity]|].
    constructor; [right; apply kle_refl|]. constructor; [right; apply kle_refl|constructor].
  - vm_compute. discriminate.
Qed.

(* non-vacuity: a defined, strictly increasing instance of call_kinds_mono *)
Example call_kinds_mono_ex :
  let sg := {| f_args := ["a"; "b"; "a_cols"; "b_cols"]; f_nres := 1; f_rk := RMatMul |} in
  call_kinds true sg [Some (KArray true); Some (KArray true); None; None] [] = Some [KArray true] /\
  call_kinds true sg [Some (KArray false); Some (KArray true); None; Some (KScalar true)] [] = Some [KArray false] /\
  call_kinds true sg [Some (KScalar true); Some (KArray true); None; None] [] = None /\
  call_kinds true sg [Some (KArray true)] ["b"] = None /\
  call_kinds true sg [Some (KArray true); None; None; Some (KArray false)] ["b_cols"; "a_cols"; "b"]
    = Some [KArray false].
Proof. repeat split; reflexivity. Qed.
