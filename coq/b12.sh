#!/bin/bash
# build helper for the C12 files (development convenience)
cd "$(dirname "$0")"
for f in "$@"; do
  timeout 600 coqc -Q . Dagrt "$f" 2>&1 | grep -v conda | head -40
  if [ "${PIPESTATUS[0]}" != 0 ]; then echo "FAILED $f"; exit 1; fi
done
echo built
