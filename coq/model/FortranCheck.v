(* Boolean comparison functions for the C03 correspondence check: the Fortran-target model
   against the states printed by the compiled program, the interpreter model against the real
   NumpyInterpreter, one `run` call / step at a time.  Definitions only. *)
From Coq Require Import List ZArith String Bool Arith.
Import ListNotations.
From Dagrt Require Import Lang LangCheck Builder Sched FortranTarget.

(* what was observed after one call: the value of every field of dagrt_state_type (None: NaN /
   not allocated / not associated) and the next phase *)
Record xstep := mkX { x_vals : list (option val); x_next : string }.
Inductive xend := XDone | XHalt (k : string) | XInvalid
                | XAbort.    (* the program died in the next call with a floating-point trap (-ffpe-trap=invalid) *)

Record case3 := mkCase {
  q_prog : list bphase;
  q_init : store;                 (* persistent variables given to initialize / set_up *)
  q_first : string;               (* dag.initial_phase *)
  q_univ : list var;              (* the fields that are compared *)
  q_time_ids : list string;
  q_compiles : bool;              (* generator ran and gfortran exited with status 0 *)
  q_fsteps : list xstep; q_fend : xend;       (* the compiled program *)
  q_isteps : list xstep; q_iend : xend }.     (* the real interpreter *)

Definition vals_match (univ : list var) (s : store) (x : xstep) : bool :=
  list_eqb (opt_eqb val_eqb) (map s univ) (x_vals x).

Section Chk.
  Variables del_guarded lhs_sub_reads loop_bound_reads : bool.
  Variables cond_honoured ite_flag_first ubound_m1 switch_exits next_first guard_outside ne_fortran : bool.
  Variables is_state persistent : var -> bool.
  Variable tok : var.

  Notation fcall' tids := (fcall F03 del_guarded cond_honoured ite_flag_first ubound_m1 switch_exits next_first guard_outside tids is_state).
  Notation istep' tids := (istep F03 del_guarded tids persistent).

  Fixpoint walk_f (tids : list string) (univ : list var) (P : fprog) (exp : list xstep) (fin : xend)
           (s : store) (nx : string) : bool :=
    match exp with
    | [] =>
        match fin, fcall' tids P s nx with
        | XDone, _ => true
        | XHalt k, FOHalt _ k' => String.eqb k k'
        | XInvalid, FOInvalid => true
        | XAbort, FOUndef => true        (* the model calls that call undefined *)
        | _, _ => false
        end
    | e :: r =>
        match fcall' tids P s nx with
        | FO s' nx' => vals_match univ s' e && String.eqb nx' (x_next e) && walk_f tids univ P r fin s' nx'
        | _ => false
        end
    end.

  Fixpoint walk_i (tids : list string) (univ : list var) (P : fprog) (exp : list xstep) (fin : xend)
           (s r : store) (nx : string) : bool :=
    match exp with
    | [] =>
        match fin, istep' tids P s r nx with
        | XDone, _ => true
        | XHalt k, IOHalt _ _ k' => String.eqb k k'
        | XInvalid, IOInvalid => true
        | _, _ => false
        end
    | e :: r' =>
        match istep' tids P s r nx with
        | IO s' r2 nx' =>
            vals_match univ (held s' r2) e && String.eqb nx' (x_next e) && walk_i tids univ P r' fin s' r2 nx'
        | _ => false
        end
    end.

  Definition chk3 (c : case3) : bool :=
    match build_prog lhs_sub_reads loop_bound_reads is_state tok (q_prog c) with
    | None => false
    | Some P =>
        supported is_state P
        && Bool.eqb (compiles ne_fortran P) (q_compiles c)
        && (if q_compiles c
            then walk_f (q_time_ids c) (q_univ c) P (q_fsteps c) (q_fend c) (q_init c) (q_first c)
            else true)
        && walk_i (q_time_ids c) (q_univ c) P (q_isteps c) (q_iend c) (q_init c) empty (q_first c)
    end.
End Chk.
