(* The stepping loop shared by the NumPy interpreter (dagrt/exec_numpy.py run /
   run_single_step) and the class emitted by the Python code generator
   (dagrt/codegen/python.py _emit_run / _emit_run_single_step): advance next_phase
   to the default successor, execute the phase body in some dependency-respecting
   order, translate FailStep / phase switches, drop per-step variables.
   Definitions only.  Used by C01 and C11. *)
From Coq Require Import List ZArith String Bool Arith.
Import ListNotations.
From Dagrt Require Import Lang Sched.

Record phase := { ph_name : string; ph_next : string; ph_stmts : list stmt }.

(* executing the statements of one phase body in a given order, keeping the store
   at the moment an exception escapes (the `finally` clause / the frame exit sees it) *)
Inductive body_end :=
| BDone | BFail | BSwitch (p : string) | BRaise (k : string) | BExn (user : bool).

Section Stepper.
  Variable F : string -> list val -> list (string * val) -> option (list val).
  Variable g : bool.                       (* del_guarded, see Lang.v *)
  Variable keep : var -> bool.             (* names that outlive a step *)

  Fixpoint exec_seq (l : list stmt) (s : store) (evs : list event) : store * list event * body_end :=
    match l with
    | [] => (s, evs, BDone)
    | st :: l' =>
        match snd (exec_stmt F g s st) with
        | ONext s' ev => exec_seq l' s' (evs ++ match ev with Some e => [e] | None => [] end)
        | OFail => (s, evs, BFail)
        | OSwitch p => (s, evs, BSwitch p)
        | ORaise k => (s, evs, BRaise k)
        | OUserExn => (s, evs, BExn true)
        | OCrash => (s, evs, BExn false)
        end
    end.

  (* `finally`: discard non-permanent per-step state / locals vanish with the frame *)
  Definition cleanup (s : store) : store := fun x => if keep x then s x else None.

  Fixpoint find_phase (d : list phase) (n : string) : option phase :=
    match d with
    | [] => None
    | p :: r => if String.eqb (ph_name p) n then Some p else find_phase r n
    end.

  (* events of a run: yields of the program, one entry per step with the persistent state
     observed on `obs` after the step *)
  Inductive sev :=
  | SYield (e : event)
  | SCompleted (dt t : option val) (cur next : string) (snap : list (option val))
  | SFailed (t : option val) (snap : list (option val)).

  Inductive run_end :=
  | EndSteps              (* max_steps reached *)
  | EndTime               (* <t> >= t_end *)
  | EndRaised (k : string)
  | EndExn (user : bool)  (* a Python exception escaped run() *)
  | EndFuel.              (* the model's own bound on step attempts *)

  Variable obs : list var.
  Variable order : string -> nat -> list stmt -> list stmt.
      (* the order in which a backend executes the body of phase p at step attempt i *)

  Definition time_reached (s : store) (t_end : option Z) : option bool :=
    match t_end with
    | None => Some false
    | Some te => match s "<t>"%string with
                 | Some v => option_map (fun t => (te <=? t)%Z) (as_int v)
                 | None => None        (* KeyError / comparison with None: escapes run() *)
                 end
    end.

  (* one attempt = one call of run_single_step; `fuel` bounds the attempts *)
  Fixpoint run (fuel : nat) (d : list phase) (s : store) (next : string)
           (t_end : option Z) (max_steps : option nat) (n_steps attempt : nat)
    : list sev * store * string * run_end :=
    match fuel with
    | O => ([], s, next, EndFuel)
    | S f =>
      match time_reached s t_end with
      | None => ([], s, next, EndExn false)
      | Some true => ([], s, next, EndTime)
      | Some false =>
        if match max_steps with Some m => Nat.leb m n_steps | None => false end
        then ([], s, next, EndSteps)
        else
          match find_phase d next with
          | None => ([], cleanup s, next, EndExn false)       (* KeyError in run_single_step *)
          | Some p =>
            let cur := next in
            let next1 := ph_next p in
            let '(s1, evs, e) := exec_seq (order cur attempt (ph_stmts p)) s [] in
            let s2 := cleanup s1 in
            let ys := map SYield evs in
            match e with
            | BDone =>
                let '(r, s', n', e') := run f d s2 next1 t_end max_steps (S n_steps) (S attempt) in
                (ys ++ SCompleted (s2 "<dt>"%string) (s2 "<t>"%string) cur next1 (map s2 obs) :: r, s', n', e')
            | BSwitch q =>
                let '(r, s', n', e') := run f d s2 q t_end max_steps (S n_steps) (S attempt) in
                (ys ++ SCompleted (s2 "<dt>"%string) (s2 "<t>"%string) cur q (map s2 obs) :: r, s', n', e')
            | BFail =>
                let '(r, s', n', e') := run f d s2 next1 t_end max_steps n_steps (S attempt) in
                (ys ++ SFailed (s2 "<t>"%string) (map s2 obs) :: r, s', n', e')
            | BRaise k => (ys, s2, next1, EndRaised k)
            | BExn u => (ys, s2, next1, EndExn u)
            end
          end
      end
    end.
End Stepper.


(* which names outlive a step, from the prefix lists found in the source *)
Definition keep_of (exact prefixes : list string) (x : var) : bool :=
  existsb (String.eqb x) exact || existsb (fun p => String.prefix p x) prefixes.
