(* Traced semantics for C07: Lang.eval / exec_kind / exec_stmt with the log of the calls of
   user functions in place of the access log (proofs/TransformProofs.v: the values are
   Lang's), and running a structured tree (model/Transform.v) top to bottom.
   Definitions only (no proofs). *)
From Coq Require Import List ZArith String Bool Arith.
Import ListNotations.
From Dagrt Require Import Lang Sched Transform.

(* one call of a user function: name, positional values, keyword values *)
Definition call := (string * list val * list (string * val))%type.

Section TSem.
  Variable F : string -> list val -> list (string * val) -> option (list val).

  Definition call1t (f : string) (kw : list string) (vs : list val) : list call * rs val :=
    let (pos, kws) := split_at (List.length vs - List.length kw) vs in
    ([(f, pos, combine kw kws)],
     match F f pos (combine kw kws) with
     | Some [v] => Ok v
     | Some _ => Err false
     | None => Err true
     end).

  (* nfinish with the log of the call it makes *)
  Definition nfinish_t (o : nop) (a : nacc) : list call * rs val :=
    match o, a with
    | NCall f kw, NL l => call1t f kw (rev l)
    | _, _ => ([], nfinish F o a)
    end.

  Fixpoint evalt (s : store) (e : expr) {struct e} : list call * rs val :=
    match e with
    | EInt z => ([], Ok (VInt z))
    | EBool b => ([], Ok (VBool b))
    | ENone => ([], Ok VNone)
    | EVar x => ([], Ok (match s x with Some v => v | None => VNone end))
    | ENot a =>
        let (l, v) := evalt s a in
        (l, rbind v (fun v => lift (option_map (fun b => VBool (negb b)) (truth v))))
    | EIf c t e =>
        let (l, v) := evalt s c in
        match rbind v (fun v => lift (truth v)) with
        | Err u => (l, Err u)
        | Ok true => let (l2, v2) := evalt s t in (l ++ l2, v2)
        | Ok false => let (l2, v2) := evalt s e in (l ++ l2, v2)
        end
    | EBin o a b =>
        let (l1, v1) := evalt s a in
        match v1 with
        | Err u => (l1, Err u)
        | Ok x => let (l2, v2) := evalt s b in (l1 ++ l2, rbind v2 (fun y => lift (binop o x y)))
        end
    | ENary NAnd l =>
        (fix go (l : list expr) : list call * rs val :=
           match l with
           | [] => ([], Ok (VBool true))
           | a :: l' =>
               let (r, v) := evalt s a in
               match rbind v (fun v => lift (truth v)) with
               | Err u => (r, Err u)
               | Ok false => (r, Ok (VBool false))
               | Ok true => let (r2, v2) := go l' in (r ++ r2, v2)
               end
           end) l
    | ENary NOr l =>
        (fix go (l : list expr) : list call * rs val :=
           match l with
           | [] => ([], Ok (VBool false))
           | a :: l' =>
               let (r, v) := evalt s a in
               match rbind v (fun v => lift (truth v)) with
               | Err u => (r, Err u)
               | Ok true => (r, Ok (VBool true))
               | Ok false => let (r2, v2) := go l' in (r ++ r2, v2)
               end
           end) l
    | ENary o l =>
        (* the strict nodes are folded lazily, exactly as Lang.eval does (ninit / nstep / nfinish) *)
        let (r, a) :=
          (fix go (acc : nacc) (l : list expr) : list call * rs nacc :=
             match l with
             | [] => ([], Ok acc)
             | e :: l' =>
                 let (r, v) := evalt s e in
                 match v with
                 | Err u => (r, Err u)
                 | Ok x =>
                     match nstep o acc x with
                     | None => (r, Err false)
                     | Some acc' => let (r2, res) := go acc' l' in (r ++ r2, res)
                     end
                 end
             end) (ninit o) l in
        match a with
        | Err u => (r, Err u)
        | Ok acc => let (r2, v) := nfinish_t o acc in (r ++ r2, v)
        end
    end.

  Fixpoint evalt_list (s : store) (l : list expr) : list call * rs (list val) :=
    match l with
    | [] => ([], Ok [])
    | a :: l' =>
        let (r, v) := evalt s a in
        match v with
        | Err u => (r, Err u)
        | Ok x => let (r2, vs) := evalt_list s l' in (r ++ r2, rmap (cons x) vs)
        end
    end.

  Definition cond_t (s : store) (c : expr) : list call * rs bool :=
    let (l, v) := evalt s c in (l, rbind v (fun v => lift (truth v))).

  (* range(eval(lo), eval(hi)): both bounds are evaluated, then range() checks the types *)
  Definition bounds_t (s : store) (lo hi : expr) : list call * rs (Z * Z) :=
    let (l1, vlo) := evalt s lo in
    match vlo with
    | Err u => (l1, Err u)
    | Ok vl =>
      let (l2, vhi) := evalt s hi in
      match vhi with
      | Err u => (l1 ++ l2, Err u)
      | Ok vh =>
        match bound_int vl, bound_int vh with
        | Ok a, Ok b => (l1 ++ l2, Ok (a, b))
        | _, _ => (l1 ++ l2, Err false)
        end
      end
    end.

  Definition assign_once_t (s : store) (x : var) (sub : option expr) (rhs : expr) : list call * rs store :=
    let (l, v) := evalt s rhs in
    match v with
    | Err u => (l, Err u)
    | Ok v =>
      match sub with
      | None => (l, Ok (upd s x v))
      | Some ie =>
        match s x with
        | None => (l, Err false)
        | Some agg =>
          let (l2, iv) := evalt s ie in
          match iv with
          | Err u => (l ++ l2, Err u)
          | Ok iv =>
            match agg, iv, as_int v with
            | VArr a, VInt i, Some z =>
                match norm_index (Z.of_nat (List.length a)) i with
                | Some n => (l ++ l2, Ok (upd s x (VArr (set_nth a n z))))
                | None => (l ++ l2, Err false)
                end
            | _, _, _ => (l ++ l2, Err false)
            end
          end
        end
      end
    end.

  Fixpoint iter_range_t (n : nat) (i : Z) (ident : var)
           (inner : store -> list call * rs store) (s : store) : list call * rs store :=
    match n with
    | O => ([], Ok s)
    | S k =>
        let (a1, r1) := inner (upd s ident (VInt i)) in
        match r1 with
        | Err u => (a1, Err u)
        | Ok s1 => let (a2, r2) := iter_range_t k (i + 1) ident inner s1 in (a1 ++ a2, r2)
        end
    end.

  Fixpoint run_loops_t (loops : list (var * expr * expr))
           (body : store -> list call * rs store) (s : store) : list call * rs store :=
    match loops with
    | [] => body s
    | (ident, lo, hi) :: ls =>
        let (r, ab) := bounds_t s lo hi in
        match ab with
        | Err u => (r, Err u)
        | Ok (a, b) =>
            let (acc, res) := iter_range_t (Z.to_nat (b - a)) a ident (run_loops_t ls body) s in
            (r ++ acc, res)
        end
    end.

  Variable del_guarded : bool.

  Definition exec_kind_t (s : store) (k : skind) : list call * outcome :=
    match k with
    | KAssign x sub rhs [] =>
        let (a, r) := assign_once_t s x sub rhs in (a, of_rs r)
    | KAssign x sub rhs loops =>
        let (a, r) := run_loops_t loops (fun s => assign_once_t s x sub rhs) s in
        match r with
        | Err u => (a, of_rs (Err u))
        | Ok s1 => (a, of_rs (snd (del_loopvars del_guarded loops s1)))
        end
    | KCall xs f args kw =>
        let (r1, pos) := evalt_list s args in
        match pos with
        | Err u => (r1, of_rs (Err u))
        | Ok pos =>
          let (r2, kws) := evalt_list s (map snd kw) in
          match kws with
          | Err u => (r1 ++ r2, of_rs (Err u))
          | Ok kws =>
            let lg := r1 ++ r2 ++ [(f, pos, combine (map fst kw) kws)] in
            match F f pos (combine (map fst kw) kws) with
            | None => (lg, OUserExn)
            | Some res =>
              match xs with
              | [] => (lg, ONext s None)
              | _ => if Nat.eqb (List.length xs) (List.length res)
                     then (lg, ONext (snd (assign_all s xs res)) None)
                     else (lg, OCrash)
              end
            end
          end
        end
    | KYield comp tid time e =>
        let (r1, t) := evalt s time in
        match t with
        | Err u => (r1, of_rs (Err u))
        | Ok t =>
          let (r2, v) := evalt s e in
          match v with
          | Err u => (r1 ++ r2, of_rs (Err u))
          | Ok v => (r1 ++ r2, ONext s (Some (EvYield comp tid t v)))
          end
        end
    | KFail => ([], OFail)
    | KRaise k => ([], ORaise k)
    | KSwitch p => ([], OSwitch p)
    | KNop => ([], ONext s None)
    end.

  Definition exec_t (s : store) (st : tstmt) : list call * outcome :=
    let (r, c) := cond_t s (tcond st) in
    match c with
    | Err u => (r, of_rs (Err u))
    | Ok false => (r, ONext s None)
    | Ok true => let (a, o) := exec_kind_t s (tkd st) in (r ++ a, o)
    end.

  (* ---- running a tree top to bottom ---- *)
  Inductive trun :=
  | TRun (s : store) (evs : list event) (log : list call)
  | TStop (s : store) (evs : list event) (log : list call) (w : stop)
  | TCrash (user : bool).

  Definition ev_list (ev : option event) : list event := match ev with Some e => [e] | None => [] end.

  Definition step_t (st : tstmt) (S : trun) : trun :=
    match S with
    | TRun s evs log =>
        let (l, o) := exec_t s st in
        match o with
        | ONext s' ev => TRun s' (evs ++ ev_list ev) (log ++ l)
        | OFail => TStop s evs (log ++ l) StFail
        | OSwitch p => TStop s evs (log ++ l) (StSwitch p)
        | ORaise k => TStop s evs (log ++ l) (StRaise k)
        | OUserExn => TCrash true
        | OCrash => TCrash false
        end
    | _ => S
    end.

  (* for x in range(lo, hi): body   (the counter keeps its last value) *)
  Fixpoint iter_t (n : nat) (i : Z) (x : var) (body : trun -> trun) (S : trun) : trun :=
    match n with
    | O => S
    | S k =>
        match S with
        | TRun s evs log => iter_t k (i + 1) x body (body (TRun (upd s x (VInt i)) evs log))
        | _ => S
        end
    end.

  Fixpoint run_tree (t : tree) (S : trun) {struct t} : trun :=
    match S with
    | TRun s evs log =>
        match t with
        | TLeaf st => step_t st S
        | TNull => S
        | TBlock l => fold_left (fun S x => run_tree x S) l S
        | TIf c t1 =>
            match cond_t s c with
            | (l, Err u) => TCrash u
            | (l, Ok true) => run_tree t1 (TRun s evs (log ++ l))
            | (l, Ok false) => TRun s evs (log ++ l)
            end
        | TIfElse c t1 t2 =>
            match cond_t s c with
            | (l, Err u) => TCrash u
            | (l, Ok true) => run_tree t1 (TRun s evs (log ++ l))
            | (l, Ok false) => run_tree t2 (TRun s evs (log ++ l))
            end
        | TFor x lo hi b =>
            match bounds_t s lo hi with
            | (l, Err u) => TCrash u
            | (l, Ok (a, z)) => iter_t (Z.to_nat (z - a)) a x (run_tree b) (TRun s evs (log ++ l))
            end
        end
    | _ => S
    end.

  Definition run (t : tree) (s : store) : trun := run_tree t (TRun s [] []).
End TSem.
