(* C13 -- executable model of dagrt's name mapping (definitions only, no proofs).

   Mirrors, statement by statement:
     dagrt/codegen/utils.py   make_identifier_from_name, _KeyTranslatingUniqueNameGeneratorWrapper,
                              KeyToUniqueNameMap
     pytools/__init__.py      UniqueNameGenerator (existing_names, prefix_to_counter, __call__, add_name),
                              generate_numbered_unique_names, UNIQUE_NAME_GEN_COUNTER_RE
     dagrt/codegen/python.py  PythonNameManager
     dagrt/codegen/fortran.py FortranNameManager (ONE generator shared by the three maps)
     dagrt/utils.py           is_state_variable
   Constants come from coq/gen/GenC13.v (regenerated from the source on every run).

   Strings are Coq [string]s (lists of 8-bit characters).  Python's names are sequences of code points;
   the model is exact for code points < 256 and every other code point behaves like any non-identifier
   character (it is replaced by "_" before anything looks at it).

   [cf] ("case fold") is the shape switch GenC13.fortran_casefold: whether the Fortran manager's generator
   treats names that differ only in letter case as conflicting. *)
From Coq Require Import List String Ascii Bool Arith NArith DecimalString.
From Dagrt Require Import GenC13.
Import ListNotations.
Open Scope string_scope.

(* ------------------------------------------------------------------ characters and strings *)

Definition ascii_between (lo hi c : ascii) : bool :=
  (N_of_ascii lo <=? N_of_ascii c)%N && (N_of_ascii c <=? N_of_ascii hi)%N.
Definition is_digit (c : ascii) : bool := ascii_between "0" "9" c.
Definition is_upper (c : ascii) : bool := ascii_between "A" "Z" c.
Definition is_lower (c : ascii) : bool := ascii_between "a" "z" c.
Definition is_letter (c : ascii) : bool := is_upper c || is_lower c.
Definition is_us (c : ascii) : bool := Ascii.eqb c "_".
(* \w restricted to the characters that can reach the regular expression *)
Definition is_word (c : ascii) : bool := is_letter c || is_digit c || is_us c.
(* str.lower() on ASCII *)
Definition to_lower (c : ascii) : ascii :=
  if is_upper c then ascii_of_N (N_of_ascii c + 32) else c.

Fixpoint smap (f : ascii -> ascii) (s : string) : string :=
  match s with EmptyString => EmptyString | String c r => String (f c) (smap f r) end.
Fixpoint sall (p : ascii -> bool) (s : string) : bool :=
  match s with EmptyString => true | String c r => p c && sall p r end.
Fixpoint smem (c : ascii) (s : string) : bool :=
  match s with EmptyString => false | String d r => Ascii.eqb c d || smem c r end.
Definition is_empty (s : string) : bool := match s with EmptyString => true | _ => false end.
Definition first_is (p : ascii -> bool) (s : string) : bool :=
  match s with EmptyString => false | String c _ => p c end.
Definition lower (s : string) : string := smap to_lower s.

(* ------------------------------------------------------------------ make_identifier_from_name *)

(* c if c in _ident_chars else "_" *)
Definition sanitise_char (c : ascii) : ascii := if smem c ident_chars then c else "_"%char.
(* str.lstrip("_") *)
Fixpoint lstrip_us (s : string) : string :=
  match s with
  | String c r => if is_us c then lstrip_us r else s
  | EmptyString => EmptyString
  end.
Definition make_identifier (name : string) : string :=
  let r := lstrip_us (smap sanitise_char name) in
  if is_empty r then default_identifier else r.

(* ------------------------------------------------------------------ decimal counters *)

(* f"{num}" for a non-negative int *)
Definition dec (n : N) : string := NilEmpty.string_of_uint (N.to_uint n).
(* int(s) for a string of ASCII digits *)
Fixpoint parse_dec_acc (acc : N) (s : string) : N :=
  match s with
  | EmptyString => acc
  | String c r => parse_dec_acc (acc * 10 + (N_of_ascii c - 48))%N r
  end.
Definition parse_dec (s : string) : N := parse_dec_acc 0%N s.

(* ------------------------------------------------------------------ UNIQUE_NAME_GEN_COUNTER_RE *)

(* split at the LAST underscore *)
Fixpoint rsplit (s : string) : option (string * string) :=
  match s with
  | EmptyString => None
  | String c r =>
      match rsplit r with
      | Some (a, b) => Some (String c a, b)
      | None => if is_us c then Some (EmptyString, r) else None
      end
  end.

(* ^(?P<based_on>\w+)_(?P<counter>\d+)$ : \d cannot match "_", so the separating underscore is the last
   one; \w+ and \d+ are non-empty.  ("$" would also match before a trailing newline; the strings that
   reach it end in an identifier character.) *)
Definition split_counter (s : string) : option (string * N) :=
  match rsplit s with
  | Some (a, b) =>
      if negb (is_empty a) && sall is_word a && negb (is_empty b) && sall is_digit b
      then Some (a, parse_dec b) else None
  | None => None
  end.

(* ------------------------------------------------------------------ results *)

Inductive res (A : Type) : Type :=
| Ok (a : A)
| OutOfFuel        (* the candidate search ran out of fuel (Python: loops for ever) *)
| ValueError.      (* raised by add_name *)
Arguments Ok {A} a.
Arguments OutOfFuel {A}.
Arguments ValueError {A}.

(* ------------------------------------------------------------------ pytools.UniqueNameGenerator *)

Record gen : Type := mkGen {
  g_fp : string;                       (* forced_prefix *)
  g_existing : list string;            (* existing_names (a set; newest first here) *)
  g_counters : list (string * N)       (* prefix_to_counter (first binding wins = dict update) *)
}.

Definition new_gen (fp : string) : gen := mkGen fp [] [].

Fixpoint assoc {B : Type} (k : string) (l : list (string * B)) : option B :=
  match l with
  | [] => None
  | (k', v) :: r => if String.eqb k k' then Some v else assoc k r
  end.

Definition nrm (cf : bool) (s : string) : string := if cf then lower s else s.

(* is_name_conflicting: `name in self.existing_names`, or (cf) the case-insensitive override *)
Definition conflicting (cf : bool) (ex : list string) (name : string) : bool :=
  existsb (fun e => String.eqb (nrm cf e) (nrm cf name)) ex.

Definition numbered (base : string) (n : N) : string := base ++ "_" ++ dec n.

(* the `while True` part of generate_numbered_unique_names consumed by the for loop of __call__:
   candidates base_n, base_(n+1), ...; yields (counter after the increment, name) *)
Fixpoint search (cf : bool) (ex : list string) (base : string) (fuel : nat) (n : N) : option (N * string) :=
  match fuel with
  | O => None
  | S f => let name := numbered base n in
           if conflicting cf ex name then search cf ex base f (N.succ n) else Some (N.succ n, name)
  end.

(* which base and starting counter __call__ uses for forced_prefix + based_on *)
Definition base_and_counter (g : gen) (b0 : string) : string * option N :=
  match assoc b0 (g_counters g) with
  | Some c => (b0, Some c)
  | None => match split_counter b0 with
            | Some (a, n) => (a, Some n)
            | None => (b0, None)
            end
  end.

(* UniqueNameGenerator.__call__(based_on); forced_suffix is always "".  Fuel: |existing|+1 candidates. *)
Definition gen_call (cf : bool) (g : gen) (based_on : string) : res (string * gen) :=
  let b0 := g_fp g ++ based_on in
  let bc := base_and_counter g b0 in
  let base := fst bc in
  let ex := g_existing g in
  let found :=
    match snd bc with
    | None => if conflicting cf ex base then search cf ex base (List.length ex) 0%N else Some (0%N, base)
    | Some n => search cf ex base (S (List.length ex)) n
    end in
  match found with
  | None => OutOfFuel
  | Some (c, name) => Ok (name, mkGen (g_fp g) (name :: ex) ((base, c) :: g_counters g))
  end.

(* UniqueNameGenerator.add_name(name) *)
Definition add_name (cf : bool) (g : gen) (name : string) : res gen :=
  if conflicting cf (g_existing g) name then ValueError
  else if negb (prefix (g_fp g) name) then ValueError
  else Ok (mkGen (g_fp g) (name :: g_existing g) (g_counters g)).

(* ------------------------------------------------------------------ KeyToUniqueNameMap *)

Definition dict : Type := list (string * string).

(* __init__: for existing_name in start.values(): if it starts with the forced prefix: add_name *)
Fixpoint add_start (cf : bool) (g : gen) (vals : list string) : res gen :=
  match vals with
  | [] => Ok g
  | v :: r => if prefix (g_fp g) v
              then match add_name cf g v with
                   | Ok g' => add_start cf g' r
                   | OutOfFuel => OutOfFuel
                   | ValueError => ValueError
                   end
              else add_start cf g r
  end.

(* the wrapper: generator(make_identifier_from_name(key)) *)
Definition gen_call_key (cf : bool) (g : gen) (seed : string) : res (string * gen) :=
  gen_call cf g (make_identifier seed).

(* get_or_make_name_for_key(key, prefix) *)
Definition get_or_make (cf : bool) (d : dict) (g : gen) (key : string) (pfx : option string)
  : res (string * dict * gen) :=
  match assoc key d with
  | Some v => Ok (v, d, g)
  | None =>
      let seed := match pfx with Some p => p ++ key | None => key end in
      match gen_call_key cf g seed with
      | Ok (v, g') => Ok (v, (key, v) :: d, g')
      | OutOfFuel => OutOfFuel
      | ValueError => ValueError
      end
  end.

(* ------------------------------------------------------------------ is_state_variable *)

Definition is_state_variable (k : string) : bool :=
  existsb (String.eqb k) state_exact || existsb (fun p => prefix p k) state_prefixes.

(* ------------------------------------------------------------------ PythonNameManager *)

Record py_state : Type := mkPy {
  py_local : dict;  py_lgen : gen;
  py_global : dict; py_ggen : gen;
  py_func : dict;   py_fgen : gen
}.

Inductive py_op : Type :=
| PGlobal (k : string)      (* name_global *)
| PLocal (k : string)       (* name_local *)
| PFunction (k : string)    (* name_function *)
| PGetItem (k : string)     (* __getitem__ *)
| PClear.                   (* clear_locals *)

Definition py_init : res py_state :=
  match add_start false (new_gen py_global_prefix) (map snd py_global_start) with
  | Ok gg => Ok (mkPy [] (new_gen py_local_prefix) py_global_start gg [] (new_gen py_function_prefix))
  | OutOfFuel => OutOfFuel
  | ValueError => ValueError
  end.

Definition py_name_global (s : py_state) (k : string) : res (option string * py_state) :=
  match get_or_make false (py_global s) (py_ggen s) k None with
  | Ok (v, d, g) => Ok (Some v, mkPy (py_local s) (py_lgen s) d g (py_func s) (py_fgen s))
  | OutOfFuel => OutOfFuel | ValueError => ValueError
  end.
Definition py_name_local (s : py_state) (k : string) : res (option string * py_state) :=
  match get_or_make false (py_local s) (py_lgen s) k None with
  | Ok (v, d, g) => Ok (Some v, mkPy d g (py_global s) (py_ggen s) (py_func s) (py_fgen s))
  | OutOfFuel => OutOfFuel | ValueError => ValueError
  end.
Definition py_name_function (s : py_state) (k : string) : res (option string * py_state) :=
  match get_or_make false (py_func s) (py_fgen s) k None with
  | Ok (v, d, g) => Ok (Some v, mkPy (py_local s) (py_lgen s) (py_global s) (py_ggen s) d g)
  | OutOfFuel => OutOfFuel | ValueError => ValueError
  end.

Definition py_step (s : py_state) (op : py_op) : res (option string * py_state) :=
  match op with
  | PGlobal k => py_name_global s k
  | PLocal k => py_name_local s k
  | PFunction k => py_name_function s k
  | PGetItem k => if is_state_variable k then py_name_global s k else py_name_local s k
  | PClear => Ok (None, mkPy [] (new_gen py_local_prefix) (py_global s) (py_ggen s) (py_func s) (py_fgen s))
  end.

Fixpoint py_run (s : py_state) (ops : list py_op) : res (list (option string) * py_state) :=
  match ops with
  | [] => Ok ([], s)
  | op :: r =>
      match py_step s op with
      | Ok (o, s1) => match py_run s1 r with
                      | Ok (os, s2) => Ok (o :: os, s2)
                      | OutOfFuel => OutOfFuel | ValueError => ValueError
                      end
      | OutOfFuel => OutOfFuel | ValueError => ValueError
      end
  end.

(* the name spaces of the Python target *)
Inductive space : Type := Local | Global | Function.
Definition space_eqb (a b : space) : bool :=
  match a, b with Local, Local | Global, Global | Function, Function => true | _, _ => false end.

Definition py_lookup (s : py_state) (sp : space) (k : string) : option string :=
  match sp with
  | Local => assoc k (py_local s)
  | Global => assoc k (py_global s)
  | Function => assoc k (py_func s)
  end.

(* ------------------------------------------------------------------ FortranNameManager *)

Record f_state : Type := mkF {
  f_local : dict; f_global : dict; f_func : dict;
  f_gen : gen                                   (* self.name_generator, shared *)
}.

Inductive f_op : Type :=
| FGlobal (k : string)                          (* name_global *)
| FLocal (k : string) (p : option string)       (* name_local(var, prefix) *)
| FFunction (k : string)                        (* name_function *)
| FUnique (p : string)                          (* make_unique_fortran_name *)
| FGetItem (k : string)                         (* __getitem__ *)
| FRefcount (k : string) (q : bool).            (* name_refcount(name, qualified_with_state) *)

Definition f_init (cf : bool) : res f_state :=
  match add_start cf (new_gen "") (map snd f_global_start) with
  | Ok g => Ok (mkF [] f_global_start [] g)
  | OutOfFuel => OutOfFuel
  | ValueError => ValueError
  end.

Definition f_name_global (cf : bool) (s : f_state) (k : string) : res (string * f_state) :=
  match get_or_make cf (f_global s) (f_gen s) k None with
  | Ok (v, d, g) => Ok (v, mkF (f_local s) d (f_func s) g)
  | OutOfFuel => OutOfFuel | ValueError => ValueError
  end.
Definition f_local_prefix_for (k : string) (p : option string) : option string :=
  match p with
  | Some _ => p
  | None => if negb (prefix f_internal_prefix k) then Some f_local_prefix else None
  end.
Definition f_name_local (cf : bool) (s : f_state) (k : string) (p : option string) : res (string * f_state) :=
  match get_or_make cf (f_local s) (f_gen s) k (f_local_prefix_for k p) with
  | Ok (v, d, g) => Ok (v, mkF d (f_global s) (f_func s) g)
  | OutOfFuel => OutOfFuel | ValueError => ValueError
  end.
Definition f_name_function (cf : bool) (s : f_state) (k : string) : res (string * f_state) :=
  match get_or_make cf (f_func s) (f_gen s) k None with
  | Ok (v, d, g) => Ok (v, mkF (f_local s) (f_global s) d g)
  | OutOfFuel => OutOfFuel | ValueError => ValueError
  end.
Definition f_unique (cf : bool) (s : f_state) (p : string) : res (string * f_state) :=
  match gen_call_key cf (f_gen s) (f_unique_prefix ++ p) with
  | Ok (v, g) => Ok (v, mkF (f_local s) (f_global s) (f_func s) g)
  | OutOfFuel => OutOfFuel | ValueError => ValueError
  end.
Definition with_prefix (p : string) (r : res (string * f_state)) : res (string * f_state) :=
  match r with
  | Ok (v, s) => Ok (p ++ v, s)
  | OutOfFuel => OutOfFuel | ValueError => ValueError
  end.

Definition f_step (cf : bool) (s : f_state) (op : f_op) : res (string * f_state) :=
  match op with
  | FGlobal k => f_name_global cf s k
  | FLocal k p => f_name_local cf s k p
  | FFunction k => f_name_function cf s k
  | FUnique p => f_unique cf s p
  | FGetItem k => if is_state_variable k then with_prefix f_state_qualifier (f_name_global cf s k)
                  else f_name_local cf s k None
  | FRefcount k q =>
      if is_state_variable k
      then with_prefix (if q then f_state_qualifier ++ f_refcnt_prefix else f_refcnt_prefix) (f_name_global cf s k)
      else f_name_local cf s (f_refcnt_prefix ++ k) None
  end.

Fixpoint f_run (cf : bool) (s : f_state) (ops : list f_op) : res (list string * f_state) :=
  match ops with
  | [] => Ok ([], s)
  | op :: r =>
      match f_step cf s op with
      | Ok (o, s1) => match f_run cf s1 r with
                      | Ok (os, s2) => Ok (o :: os, s2)
                      | OutOfFuel => OutOfFuel | ValueError => ValueError
                      end
      | OutOfFuel => OutOfFuel | ValueError => ValueError
      end
  end.

Definition f_lookup (s : f_state) (sp : space) (k : string) : option string :=
  match sp with
  | Local => assoc k (f_local s)
  | Global => assoc k (f_global s)
  | Function => assoc k (f_func s)
  end.

(* ------------------------------------------------------------------ target grammars *)

(* Python identifier (ASCII): [A-Za-z_][A-Za-z0-9_]*, not a keyword *)
Definition py_identifier (s : string) : bool :=
  first_is (fun c => is_letter c || is_us c) s && sall is_word s
  && negb (existsb (String.eqb s) py_keywords).
(* Fortran 2003 name: letter first, letters/digits/underscore, at most 63 characters *)
Definition f_name_chars (s : string) : bool := first_is is_letter s && sall is_word s.
Definition f_identifier (s : string) : bool := f_name_chars s && Nat.leb (String.length s) 63.

(* ------------------------------------------------------------------ for the correspondence check *)

Fixpoint list_eqb {A : Type} (eq : A -> A -> bool) (a b : list A) : bool :=
  match a, b with
  | [], [] => true
  | x :: r, y :: t => eq x y && list_eqb eq r t
  | _, _ => false
  end.
Definition ostring_eqb (a b : option string) : bool :=
  match a, b with
  | Some x, Some y => String.eqb x y
  | None, None => true
  | _, _ => false
  end.

Definition py_outputs (ops : list py_op) : option (list (option string)) :=
  match py_init with
  | Ok s => match py_run s ops with Ok (os, _) => Some os | _ => None end
  | _ => None
  end.
Definition f_outputs (cf : bool) (ops : list f_op) : option (list string) :=
  match f_init cf with
  | Ok s => match f_run cf s ops with Ok (os, _) => Some os | _ => None end
  | _ => None
  end.
Definition chk_py (c : list py_op * list (option string)) : bool :=
  match py_outputs (fst c) with Some os => list_eqb ostring_eqb os (snd c) | None => false end.
Definition chk_f (c : list f_op * list string) : bool :=
  match f_outputs fortran_casefold (fst c) with Some os => list_eqb String.eqb os (snd c) | None => false end.
