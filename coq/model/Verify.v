(* Model of dagrt/codegen/analysis.py: verify_code and its four passes (C10).
   Definitions only (no proofs).  Mirrors the Python statement by statement,
   defects included; see design/C10.md.

   Abstraction of the data:
   * statement ids, phase names and variable names are numbers (only equality
     of names is ever used by the code);
   * a variable is (is_cond, n): is_cond says whether the name starts with
     "<cond>" (analysis.py:123);
   * `sdeps` lists `inst.depends_on` (a frozenset) in the order Python iterates
     over it -- the order is observable (cycle report vs KeyError in the
     neighbour loop), so it is explicit data and the theorems hold for every
     order;
   * `pstmts` lists `phase.statements` in iteration order, a DAG lists
     `code.phases` in dict order. *)
From Coq Require Import List Arith Bool Relation_Operators.
Import ListNotations.

Definition var := (bool * nat)%type.

Inductive kind :=
| Plain                                (* any statement that is no SwitchPhase and writes nothing *)
| Switch (target : nat)                (* SwitchPhase(next_phase=target) *)
| Assigns (vars : list var).           (* get_written_variables() = vars *)

Record stmt := mkStmt { sid : nat; sdeps : list nat; skind : kind }.
Record phase := mkPhase { pname : nat; pnext : nat; pstmts : list stmt }.
Definition dag := list phase.

(* Exceptions other than CodeGenerationError that can leave verify_code. *)
Inductive exn := KeyError.

Inductive outcome :=
| Accept                               (* returns None *)
| CodeGenError (n : nat)               (* raise CodeGenerationError(errors), n = len(errors) *)
| Crash (e : exn)                      (* `raise e` in the except clause *)
| OutOfFuel.                           (* model artefact; C10_terminates shows it never happens *)

Definition memb (x : nat) (l : list nat) : bool := existsb (Nat.eqb x) l.

(* a Python set built from a list: duplicates collapse *)
Fixpoint dedup (l : list nat) : list nat :=
  match l with
  | [] => []
  | x :: r => if memb x r then dedup r else x :: dedup r
  end.

Definition sum (l : list nat) : nat := fold_right Nat.add 0 l.

Definition phase_ids (p : phase) : list nat := map sid (pstmts p).

(* ---- pass 1: verify_all_dependencies_exist (analysis.py:56-83) ----
   per_phase = false: `ids` is one set over ALL phases (the code as found);
   per_phase = true : `ids` is rebuilt from the statements of the phase at hand
                      (fixes/C10_ids_per_phase.patch). *)
Definition all_ids (D : dag) : list nat := flat_map phase_ids D.

Definition ids_for (per_phase : bool) (D : dag) (p : phase) : list nat :=
  if per_phase then phase_ids p else all_ids D.

(* len([... for dep_name in deps - ids]) *)
Definition missing (ids : list nat) (s : stmt) : nat :=
  length (dedup (filter (fun d => negb (memb d ids)) (sdeps s))).

(* ExecutionPhase.depends_on (language.py:795-803): ids nothing else depends on *)
Definition phase_roots (p : phase) : list nat :=
  filter (fun i => negb (existsb (fun s => memb i (sdeps s)) (pstmts p)))
         (dedup (phase_ids p)).

Definition phase_roots_err (ids : list nat) (p : phase) : nat :=
  if forallb (fun d => memb d ids) (phase_roots p) then 0 else 1.

Definition pass1 (per_phase : bool) (D : dag) : nat :=
  sum (map (fun p => sum (map (missing (ids_for per_phase D p)) (pstmts p))) D)
  + sum (map (fun p => phase_roots_err (ids_for per_phase D p) p) D).

(* ---- pass 2: verify_no_circular_dependencies (analysis.py:86-110) ---- *)

(* id_to_statement = {inst.id: inst for inst in statements}: the last one wins *)
Fixpoint lookup (stmts : list stmt) (i : nat) : option stmt :=
  match stmts with
  | [] => None
  | s :: r => match lookup r i with
              | Some s' => Some s'
              | None => if Nat.eqb (sid s) i then Some s else None
              end
  end.

Inductive scan_res := ScanCycle | ScanKeyError | ScanOk (stack : list stmt).

(* for neighbor in top.depends_on: ... ; the stack is kept with its top at the head *)
Fixpoint scan (stmts : list stmt) (visiting : list nat) (deps : list nat)
         (stack : list stmt) : scan_res :=
  match deps with
  | [] => ScanOk stack
  | d :: r =>
      if memb d visiting then ScanCycle
      else match lookup stmts d with
           | None => ScanKeyError                      (* id_to_statement[neighbor] *)
           | Some s => scan stmts visiting r (s :: stack)
           end
  end.

Definition remove_id (x : nat) (l : list nat) : list nat :=
  filter (fun y => negb (Nat.eqb x y)) l.

Inductive cyc_res := CNone | CCycle | CKeyError | CFuel.

(* while stack: ... *)
Fixpoint cyc (stmts : list stmt) (fuel : nat) (stack : list stmt)
         (visiting visited : list nat) : cyc_res :=
  match fuel with
  | 0 => CFuel
  | S f =>
      match stack with
      | [] => CNone
      | top :: rest =>
          if memb (sid top) visited then
            (* if top.id in visiting: visiting.remove(top.id) ; stack.pop() *)
            cyc stmts f rest
                (if memb (sid top) visiting then remove_id (sid top) visiting else visiting)
                visited
          else
            match scan stmts (sid top :: visiting) (sdeps top) stack with
            | ScanCycle => CCycle                      (* errors.append(...); return *)
            | ScanKeyError => CKeyError
            | ScanOk stack' => cyc stmts f stack' (sid top :: visiting) (sid top :: visited)
            end
      end
  end.

Definition weight (s : stmt) : nat := S (length (sdeps s)).

Definition cyc_fuel (stmts : list stmt) : nat :=
  S (length stmts + sum (map weight stmts)).

(* stack = list(statements): the top (stack[-1]) is the last statement *)
Definition cycle_check (stmts : list stmt) : cyc_res :=
  cyc stmts (cyc_fuel stmts) (rev stmts) [] [].

Inductive p2_res :=
| P2Done (n : nat)                     (* n = circular-dependency messages appended *)
| P2Raise (e : exn) (n : nat)          (* exception after n messages *)
| P2Fuel.

Fixpoint pass2 (ps : list phase) (n : nat) : p2_res :=
  match ps with
  | [] => P2Done n
  | p :: r =>
      match cycle_check (pstmts p) with
      | CNone => pass2 r n
      | CCycle => pass2 r (S n)
      | CKeyError => P2Raise KeyError n
      | CFuel => P2Fuel
      end
  end.

(* ---- pass 3: verify_switch_phases (analysis.py:37-53) ---- *)
Definition switch_err (names : list nat) (s : stmt) : nat :=
  match skind s with
  | Switch t => if memb t names then 0 else 1
  | _ => 0
  end.

Definition pass3 (D : dag) : nat :=
  sum (map (fun p => sum (map (switch_err (map pname D)) (pstmts p))) D).

(* ---- pass 4: verify_single_definition_cond_rule (analysis.py:113-135) ---- *)
Definition cond_writes (s : stmt) : list nat :=
  match skind s with
  | Assigns vs => map snd (filter fst vs)
  | _ => []
  end.

Definition writers (v : nat) (stmts : list stmt) : list stmt :=
  filter (fun s => memb v (cond_writes s)) stmts.

(* limit: the literal in `len(insts) > 1` *)
Definition cond_errs (limit : nat) (stmts : list stmt) : nat :=
  length (filter (fun v => Nat.ltb limit (length (writers v stmts)))
                 (dedup (flat_map cond_writes stmts))).

Definition pass4 (limit : nat) (D : dag) : nat :=
  sum (map (fun p => cond_errs limit (pstmts p)) D).

(* ---- verify_code (analysis.py:147-169) ---- *)
Definition verify (per_phase : bool) (limit : nat) (D : dag) : outcome :=
  let e1 := pass1 per_phase D in
  match pass2 D 0 with
  | P2Fuel => OutOfFuel
  | P2Raise e n2 =>
      (* except Exception as e: if len(errors) == 0: raise e *)
      if Nat.eqb (e1 + n2) 0 then Crash e else CodeGenError (e1 + n2)
  | P2Done n2 =>
      let n := e1 + n2 + pass3 D + pass4 limit D in
      if Nat.eqb n 0 then Accept else CodeGenError n
  end.

(* ---- a consumer that assumes well-formedness:
   ExecutionController.update_plan / add_with_deps (language.py:901-935), called right after
   reset() (executed_ids and plan_id_set empty).  `depth` is the number of nested calls
   Python allows (its recursion limit): running out is RecursionError. ---- *)
Inductive plan_res :=
| PlanOk (early : list nat)
| PlanKeyError                         (* id_to_stmt[dep_id] *)
| PlanRecursion.                       (* RecursionError *)

Fixpoint add_with_deps (stmts : list stmt) (depth : nat) (s : stmt) (early : list nat) : plan_res :=
  match depth with
  | 0 => PlanRecursion
  | S f =>
      if memb (sid s) early then PlanOk early
      else match fold_left (fun r d => match r with
                                       | PlanOk a => match lookup stmts d with
                                                     | None => PlanKeyError
                                                     | Some s' => add_with_deps stmts f s' a
                                                     end
                                       | e => e
                                       end) (sdeps s) (PlanOk early) with
           | PlanOk a => PlanOk (a ++ [sid s])         (* early_plan.append(stmt_id) *)
           | e => e
           end
  end.

(* for stmt_id in execute_ids: add_with_deps(id_to_stmt[stmt_id]) *)
Definition update_plan (stmts : list stmt) (depth : nat) (roots : list nat) : plan_res :=
  fold_left (fun r d => match r with
                        | PlanOk a => match lookup stmts d with
                                      | None => PlanKeyError
                                      | Some s => add_with_deps stmts depth s a
                                      end
                        | e => e
                        end) roots (PlanOk []).

Fixpoint list_eqb (a b : list nat) : bool :=
  match a, b with
  | [], [] => true
  | x :: a', y :: b' => Nat.eqb x y && list_eqb a' b'
  | _, _ => false
  end.

Definition plan_eqb (r : plan_res) (expected : list nat) : bool :=
  match r with
  | PlanOk a => list_eqb a expected
  | _ => false
  end.

(* ---- the property's notion of a well-formed method ---- *)


(* a depends on b inside one phase *)
Definition dep (stmts : list stmt) (a b : nat) : Prop :=
  exists s, In s stmts /\ sid s = a /\ In b (sdeps s).

Definition deps_local (p : phase) : Prop :=
  forall s d, In s (pstmts p) -> In d (sdeps s) -> In d (phase_ids p).

Definition acyclic (p : phase) : Prop :=
  forall x, ~ clos_trans nat (dep (pstmts p)) x x.

Definition switches_ok (D : dag) (p : phase) : Prop :=
  forall s t, In s (pstmts p) -> skind s = Switch t -> In t (map pname D).

Definition flags_single (p : phase) : Prop :=
  forall v, length (writers v (pstmts p)) <= 1.

Definition dag_wf (D : dag) : Prop :=
  forall p, In p D ->
    deps_local p /\ acyclic p /\ switches_ok D p /\ flags_single p.

(* documented invariant of the IR (language.py:188 "a unique identifier") *)
Definition uniq_ids (D : dag) : Prop :=
  forall p, In p D -> NoDup (phase_ids p).

(* equality test on outcomes for the correspondence check *)
Definition outcome_eqb (a b : outcome) : bool :=
  match a, b with
  | Accept, Accept => true
  | CodeGenError n, CodeGenError m => Nat.eqb n m
  | Crash KeyError, Crash KeyError => true
  | OutOfFuel, OutOfFuel => true
  | _, _ => false
  end.
