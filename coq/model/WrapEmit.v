(* C20, emission sites: the per-line use of wrap_line by the two code generators,
   on top of model/Wrap.v.  Definitions only (no proofs).

   Fortran  dagrt/codegen/fortran.py CodeGenerator.get_code:
              for line in self.module_emitter.code:
                  line_leading_spaces = len(line) - len(line.lstrip(" "))
                  level = line_leading_spaces // indent_spaces
                  line_ind = level*indentation              (indentation = indent_spaces*" ")
                  if line[line_leading_spaces:].startswith("!"):   wrapped_lines.append(line)
                  else:
                      for wrapped_line in wrap_line(line[line_leading_spaces:], level,
                                                    indentation=indentation):
                          wrapped_lines.append(line_ind+wrapped_line)
              return "\n".join(wrapped_lines)

   Python   dagrt/codegen/python.py CodeGenerator._emit, emit_def_end, PythonClassEmitter.incorporate
            and the emitter they append to (pytools.codegen.CodeGenerator.__call__):
              level = self._class_emitter.level + self._emitter.level
              for wrapped_line in wrap_line(line, level):  self._emitter(wrapped_line)
              ... self._class_emitter.incorporate(self._emitter)   (self(line) for every line)
            emitter(s):  if not s.strip(): code.append("")
                         else: [if "\n" in s: ...]  code.append(" "*(indent_amount*level) + line)

   The text returned by the generators is "\n".join of the physical lines; the model
   returns the list of physical lines.  The comment character, indent_spaces, the
   default width and the emitter's indent_amount come from gen/GenC20.v. *)
From Coq Require Import List String Ascii ZArith Bool Arith.
Import ListNotations.
From Dagrt Require Import Wrap.
Open Scope Z_scope.

(* line.lstrip(" ") : blanks only *)
Fixpoint lstrip_sp (s : str) : str :=
  match s with
  | [] => []
  | c :: r => if Ascii.eqb c sp then lstrip_sp r else s
  end.

(* len(line) - len(line.lstrip(" ")) *)
Definition leading_sp (s : str) : nat := (List.length s - List.length (lstrip_sp s))%nat.

(* s.startswith(c) for a one-character string c *)
Definition starts_with (c : ascii) (s : str) : bool :=
  match s with x :: _ => Ascii.eqb x c | [] => false end.

Inductive emitres :=
| EmitOk (lines : list str)      (* physical lines appended to the output *)
| EmitValueError                 (* the tokenizer's ValueError, passed on by wrap_line *)
| EmitZeroDivisionError          (* line_leading_spaces // 0 *)
| EmitNewline.                   (* a wrapped line holds a newline character: pytools' emitter splits
                                    it into several physical lines -- not modelled, explicit outcome *)

(* ------------------------------------------------------------------ *)
(* Fortran: one iteration of the loop of get_code                       *)
Definition fortran_emit_line (k : lexkind) (m cmt : ascii) (indent_spaces : nat) (width : Z)
           (line : str) : emitres :=
  match indent_spaces with
  | O => EmitZeroDivisionError
  | S _ =>
      let lead := leading_sp line in
      let level := Nat.div lead indent_spaces in
      let indentation := repeat sp indent_spaces in
      let line_ind := times level indentation in
      let rest := skipn lead line in
      if starts_with cmt rest then EmitOk [line]
      else match wrap_line_base (lex_of k) (pad_with m) rest level width indentation with
           | WrapOk ls => EmitOk (map (fun w => line_ind ++ w) ls)
           | WrapValueError => EmitValueError
           end
  end.

(* a loop that appends the lines of every step; the first exception ends it *)
Fixpoint emit_all (f : str -> emitres) (code : list str) : emitres :=
  match code with
  | [] => EmitOk []
  | l :: r =>
      match f l with
      | EmitOk a => match emit_all f r with EmitOk b => EmitOk (a ++ b) | e => e end
      | e => e
      end
  end.

(* get_code: the physical lines of the returned text *)
Definition fortran_get_code (k : lexkind) (m cmt : ascii) (indent_spaces : nat) (width : Z)
           (code : list str) : emitres :=
  emit_all (fortran_emit_line k m cmt indent_spaces width) code.

(* a comment line of the module text: first non-blank character is the comment character *)
Definition comment_line (cmt : ascii) (line : str) : bool := starts_with cmt (lstrip_sp line).

(* Used only to STATE what goes wrong for a statement with a trailing comment: a comment
   character outside the character literals of a physical line (a quote character toggles;
   a doubled quote toggles twice) turns the rest of the line, a continuation marker at its
   end included, into comment text. *)
Fixpoint has_comment (cmt : ascii) (q : option ascii) (s : str) : bool :=
  match s with
  | [] => false
  | c :: r =>
      match q with
      | None => if Ascii.eqb c cmt then true
                else if is_quote c then has_comment cmt (Some c) r else has_comment cmt None r
      | Some q0 => if Ascii.eqb c q0 then has_comment cmt None r else has_comment cmt (Some q0) r
      end
  end.

(* some physical line that has to be continued holds a comment: its marker is not read *)
Definition continuation_lost (cmt : ascii) (lines : list str) : bool :=
  existsb (has_comment cmt None) (removelast lines).

(* ------------------------------------------------------------------ *)
(* Python.  str.strip() removes the characters for which str.isspace() holds; among the
   8-bit characters: 9-13, 28-32, 133 (NEL), 160 (NBSP).                *)
Definition is_pyspace (c : ascii) : bool :=
  let n := nat_of_ascii c in
  ((9 <=? n) && (n <=? 13) || (28 <=? n) && (n <=? 32) || (n =? 133) || (n =? 160))%nat.

Definition is_nl (c : ascii) : bool := Ascii.eqb c "010".

(* pytools.codegen.CodeGenerator.__call__(s) for s without a newline character:
   the one line appended to self.code *)
Definition emitter_call (amount level : nat) (s : str) : str :=
  if forallb is_pyspace s then [] else repeat sp (amount * level) ++ s.

(* CodeGenerator._emit(line) with the function emitter at level elevel inside the class
   emitter at level clevel, followed by PythonClassEmitter.incorporate: the physical lines
   of the class text that come from this call *)
Definition python_emit (k : lexkind) (m : ascii) (amount : nat) (ind : str) (width : Z)
           (clevel elevel : nat) (line : str) : emitres :=
  match wrap_line_base (lex_of k) (pad_with m) line (clevel + elevel) width ind with
  | WrapValueError => EmitValueError
  | WrapOk ls =>
      if existsb (existsb is_nl) ls then EmitNewline
      else EmitOk (map (fun w => emitter_call amount clevel (emitter_call amount elevel w)) ls)
  end.
