(* C01, call argument binding: the comparison evaluated on the generated case files (harness/c01_bind.py).
   A case records what the REAL dagrt.utils.resolve_args did on an input and, when the input is a call of a
   real Python function  def f(p1, ..., pn=dn)  (defaults on a suffix of the parameters), what that call did. *)
From Coq Require Import List String Bool Arith ZArith.
Import ListNotations.
From Dagrt Require Import CallBind.
Open Scope string_scope.
Open Scope list_scope.

Fixpoint zlist_eqb (a b : list Z) : bool :=
  match a, b with
  | [], [] => true
  | x :: a', y :: b' => Z.eqb x y && zlist_eqb a' b'
  | _, _ => false
  end.

Fixpoint keys_eqb (a b : list key) : bool :=
  match a, b with
  | [], [] => true
  | x :: a', y :: b' => key_eqb x y && keys_eqb a' b'
  | _, _ => false
  end.

(* what the harness saw of the real resolve_args: the tuple, or the TypeError classified by its message.
   XFormat: "%d format: a real number is required, not str" -- the TypeError the broken format of the
   "both positionally and by keyword" message raises (it does not name the argument); XBoth: that message,
   should the format be repaired *)
Inductive real_outcome : Type :=
| XOk (l : list Z)
| XFormat
| XBoth (name : string)
| XNotSpecified (name : string)
| XLeftover (keys : list key)
| XOther (text : string).

Definition resolve_matches (m : res rerr (list Z)) (x : real_outcome) : bool :=
  match m, x with
  | Ok l, XOk l' => zlist_eqb l l'
  | Err (RBothPosKw _), XFormat => true
  | Err (RBothPosKw n), XBoth n' => String.eqb n n'
  | Err (RNotSpecified n), XNotSpecified n' => String.eqb n n'
  | Err (RLeftover ks), XLeftover ks' => keys_eqb ks ks'
  | _, _ => false
  end.

(* what the real Python call did: the bound values, or the TypeError classified by its message *)
Inductive py_outcome : Type :=
| YOk (l : list Z)
| YUnexpectedKeyword (name : string)
| YMultipleValues (name : string)
| YTooManyPositional (given : nat)
| YMissing (names : list string)
| YOther (text : string).

Definition py_matches (m : res perr (list Z)) (y : py_outcome) : bool :=
  match m, y with
  | Ok l, YOk l' => zlist_eqb l l'
  | Err (PUnexpectedKeyword n), YUnexpectedKeyword n' => String.eqb n n'
  | Err (PMultipleValues n), YMultipleValues n' => String.eqb n n'
  | Err (PTooManyPositional g), YTooManyPositional g' => Nat.eqb g g'
  | Err (PMissing ns), YMissing ns' => str_list_eqb ns ns'
  | _, _ => false
  end.

Record bind_case : Type := {
  bc_names : list string;
  bc_defaults : list (string * Z);
  bc_positional : list Z;
  bc_keywords : list (string * Z);
  bc_real : real_outcome;
  bc_python : option py_outcome
}.

Definition chk_bind (c : bind_case) : bool :=
  resolve_matches (resolve_args (bc_names c) (bc_defaults c) (bc_positional c) (bc_keywords c)) (bc_real c) &&
  match bc_python c with
  | None => true
  | Some y => py_matches (py_bind (bc_names c) (bc_defaults c) (bc_positional c) (bc_keywords c)) y
  end.

(* the row of the generated table for an identifier, to compare with the live registry objects *)
Record live_row : Type := {
  lr_id : string;
  lr_arg_names : list string;        (* list(iter(registry[id].arg_names)) *)
  lr_default_names : list string;    (* list(registry[id].default_dict) *)
  lr_impl : string;                  (* builtins_python.builtins[id].__name__ *)
  lr_impl_params : list string       (* inspect.signature of it *)
}.

Definition chk_row (table : list builtin_row) (c : live_row) : bool :=
  match filter (fun r => String.eqb (b_id r) (lr_id c)) table with
  | [r] =>
      str_list_eqb (b_arg_names r) (lr_arg_names c) &&
      str_list_eqb (map fst (b_defaults r)) (lr_default_names c) &&
      String.eqb (b_interp_impl r) (lr_impl c) &&
      str_list_eqb (b_impl_params r) (lr_impl_params c)
  | _ => false
  end.
