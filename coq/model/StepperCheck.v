(* Boolean comparison functions for the C01 / C11 correspondence checks. *)
From Coq Require Import List ZArith String Bool Arith.
Import ListNotations.
From Dagrt Require Import Lang TestOracle LangCheck BuilderCore Builder Sched SchedCheck Stepper.

Definition sev_eqb (a b : sev) : bool :=
  match a, b with
  | SYield e, SYield e' => event_eqb e e'
  | SCompleted dt t c n s, SCompleted dt' t' c' n' s' =>
      opt_eqb val_eqb dt dt' && opt_eqb val_eqb t t' && String.eqb c c' && String.eqb n n'
      && list_eqb (opt_eqb val_eqb) s s'
  | SFailed t s, SFailed t' s' => opt_eqb val_eqb t t' && list_eqb (opt_eqb val_eqb) s s'
  | _, _ => false
  end.

(* how the run ended, as recorded from an implementation *)
Inductive xend := XSteps | XTime | XRaisedK (k : string) | XUserExn | XCrashExn | XCut.
   (* XCut: the harness stopped consuming events (the model's EndFuel) *)

Definition end_matches (e : run_end) (x : xend) : bool :=
  match e, x with
  | EndSteps, XSteps | EndTime, XTime | EndFuel, XCut => true
  | EndRaised k, XRaisedK j => String.eqb k j
  | EndExn true, XUserExn => true
  | EndExn false, XCrashExn => true
  | _, _ => false
  end.

Record xrun := { x_evs : list sev; x_end : xend; x_next : string; x_final : list (option val) }.

Record case1 := {
  d_phases : list (string * string * list bcall);   (* name, default successor, builder program *)
  d_init : store; d_first : string;
  d_tend : option Z; d_max : option nat; d_fuel : nat; d_obs : list var;
  d_interp : option xrun;     (* observed from the NumPy interpreter *)
  d_gen : option xrun;        (* observed from the generated Python class *)
  d_ord_interp : list (string * list nat); (* per step attempt: the phase and the statement positions in the
                                              order the interpreter really executed them (a prefix if cut) *)
  d_ord_gen : list (string * list nat)     (* leaf order of the tree the generator walked, per phase *)
}.

Section Chk.
  Variables del_guarded lhs_sub_reads loop_bound_reads : bool.
  Variable is_state : var -> bool.
  Variable tok : var.
  Variables keep_interp keep_gen : var -> bool.

  Fixpoint build_phases (l : list (string * string * list bcall)) : option (list phase) :=
    match l with
    | [] => Some []
    | (n, nx, prog) :: r =>
        match build lhs_sub_reads loop_bound_reads is_state tok prog, build_phases r with
        | BOk b, Some ps => Some ({| ph_name := n; ph_next := nx; ph_stmts := b_stmts b |} :: ps)
        | _, _ => None
        end
    end.

  Definition pick_ids (l : list stmt) (ids : list nat) : list stmt :=
    flat_map (fun i => match nth_error l i with Some st => [st] | None => [] end) ids.

  (* every statement of a recorded order comes after the statements it depends on *)
  Fixpoint ord_ok (l : list stmt) (done rest : list nat) : bool :=
    match rest with
    | [] => true
    | i :: r =>
        match nth_error l i with
        | Some st => forallb (fun d => existsb (Nat.eqb d) done) (sdeps st) && negb (existsb (Nat.eqb i) done)
        | None => false
        end && ord_ok l (done ++ [i]) r
    end.

  Fixpoint assoc_ord (n : string) (l : list (string * list nat)) : option (list nat) :=
    match l with
    | [] => None
    | (k, v) :: r => if String.eqb k n then Some v else assoc_ord n r
    end.

  Definition run_matches (keep : var -> bool) (g : bool) (c : case1) (ps : list phase)
             (order : string -> nat -> list stmt -> list stmt) (x : xrun) : bool :=
    let '(evs, s, nx, e) :=
      run test_F g keep (d_obs c) order (d_fuel c) ps (d_init c) (d_first c)
          (d_tend c) (d_max c) 0 0 in
    list_eqb sev_eqb evs (x_evs x) && end_matches e (x_end x) && String.eqb nx (x_next x)
    && match x_end x with
       | XUserExn | XCrashExn => true   (* a statement that raises inside its loop nest leaves the effects of
                                           the iterations already done; the model keeps the store from before
                                           the failing statement, so the state right after an exception is not
                                           compared (C11's oracle checks it on the implementation) *)
       | _ => list_eqb (opt_eqb val_eqb) (map s (d_obs c)) (x_final x)
       end.

  (* generated code lowers loops to Python `for` statements and never deletes the counter
     explicitly (locals vanish with the frame): modelled by the non-raising removal *)
  Definition chk1 (c : case1) : bool :=
    match build_phases (d_phases c) with
    | None => false
    | Some ps =>
        (* the model is run in the order each backend really used; the orders must be admissible *)
        match d_interp c with
        | Some x => run_matches keep_interp del_guarded c ps
                      (fun _ a l => match nth_error (d_ord_interp c) a with
                                    | Some (_, ids) => pick_ids l ids | None => l end) x
        | None => true end
        && match d_gen c with
           | Some x => run_matches keep_gen true c ps
                         (fun n _ l => match assoc_ord n (d_ord_gen c) with
                                       | Some ids => pick_ids l ids | None => l end) x
           | None => true end
        && forallb (fun p => match assoc_ord (ph_name p) (d_ord_gen c) with
                             | Some ids => ord_ok (ph_stmts p) [] ids
                             | None => true end) ps
        && forallb (fun o => match find_phase ps (fst o) with
                             | Some p => ord_ok (ph_stmts p) [] (snd o)
                             | None => false end) (d_ord_interp c)
    end.
End Chk.
