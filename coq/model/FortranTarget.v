(* What the Fortran TARGET executes, at the level of the structured program that
   dagrt/codegen/fortran.py hands to its emitter, and what the interpreter does with
   the same phases, step by step.  Definitions only (no proofs).  See design/C03.md.

   Modelled (anchors in /repo):
   * fortran.py:1807-1850  emit_run_step: `run` dispatches on dagrt_next_phase, assigns the default
     successor, then calls the phase subroutine (order = shape switch next_first);
   * codegen_base.py:36-70 lower_ast / lower_node: the phase body is executed top to bottom,
     IfThen -> if, ForLoop -> do, end of body -> goto 999;
   * fortran.py:2079-2090  emit_for_begin: `do v = int(lbound), int(ubound-1)` (shape switch
     ubound_m1), bounds evaluated once, the do-variable keeps its value after the loop;
   * fortran.py:2129-2314  statement emission: assignments, calls, YieldState -> the three
     <ret_*> slots (state variables), FailStep -> goto 999, SwitchPhase -> next phase + goto 999
     (shape switch switch_exits), Raise -> write to stderr + stop;
   * dag_ast.py:280-350    statement_to_ast / conditional_to_ast / loop_to_ast_node: a statement
     becomes  for-loops( if guard ( statement without loops and guard ) )  -- or, with the shape
     switch guard_outside (fixes/C01_guard_outside_loops.patch),
     if guard ( for-loops( statement without loops and guard ) ), which is what the interpreter does:
     the guard is evaluated once, before the loop bounds;  Nops and statements
     guarded by the constant False are dropped.  Statements are taken in PROGRAM ORDER and the tree
     is NOT simplified: the topological order (C05), simplify_ast (C06) and the four rewriting
     passes (C07) are modelled elsewhere; by C02 every dependency-respecting order of a builder
     program behaves like program order.
   * the EFFECT of expand_IfThenElse + lower_inst on a conditional expression is modelled at the
     expression level (shape switch cond_honoured): when lower_inst ignores the `condition` of the
     statements created by the pass, both branch assignments run and the else branch wins; when it
     honours them but the pass still appends the outer flag after the statements of a nested
     conditional expression (shape switch ite_flag_first), such an expression is undefined.
   * expressions.py:38-128: `!=` is printed as pymbolic prints it (shape switch ne_fortran); a
     program using it does not compile.
   * exec_numpy.py:170-190 run / run_single_step on the interpreter side: next phase := default
     successor, statements in program order (Sched.run_list), FailStep keeps the successor,
     SwitchPhase replaces it, Raise escapes, the finally clause drops non-persistent names.

   Target values are the interpreter model's values (integers standing for integer-valued
   doubles, booleans, integer arrays).  Operations whose Fortran behaviour is not defined
   (use of a variable without a value, subscript outside 0..n-1, failing user function, ill-typed
   operand; operands of .and./.or. count in Python's short-circuit order) make the target result
   FUndef. *)
From Coq Require Import List ZArith String Bool Arith.
Import ListNotations.
From Dagrt Require Import Lang Builder Sched.
Open Scope Z_scope.

(* ---- names of the three return slots (fortran.py emit_inst_YieldState) ---- *)
Definition ret_tid_prefix : string := "<ret_time_id>".
Definition ret_time_prefix : string := "<ret_time>".
Definition ret_state_prefix : string := "<ret_state>".
Definition ret_prefixes : list string := [ret_tid_prefix; ret_time_prefix; ret_state_prefix].
Definition is_ret (x : var) : bool := existsb (fun p => String.prefix p x) ret_prefixes.
Definition ret_tid (c : string) : var := (ret_tid_prefix ++ c)%string.
Definition ret_time (c : string) : var := (ret_time_prefix ++ c)%string.
Definition ret_state (c : string) : var := (ret_state_prefix ++ c)%string.

(* dagrt_time_<id> = position of the id in sorted(collect_time_ids_from_dag(dag)) *)
Fixpoint index_of (x : string) (l : list string) (i : Z) : Z :=
  match l with
  | [] => i
  | y :: r => if String.eqb x y then i else index_of x r (i + 1)
  end.

Record fphase := mkPhase { fp_name : string; fp_next : string; fp_stmts : list stmt }.
Definition fprog := list fphase.

(* dag.phases[name]; phase names are unique (DAGCode.from_phases_list) *)
Fixpoint find_phase (P : fprog) (name : string) : option fphase :=
  match P with
  | [] => None
  | ph :: r => if String.eqb (fp_name ph) name then Some ph else find_phase r name
  end.

(* the structured tree of one statement after lowering *)
Inductive ftree :=
| FStmt (k : skind)
| FIf (c : expr) (t : ftree)
| FFor (v : var) (lo hi : expr) (b : ftree).

Definition is_true_const (c : expr) : bool := match c with EBool true => true | _ => false end.
Definition is_false_const (c : expr) : bool := match c with EBool false => true | _ => false end.
Definition is_nop (k : skind) : bool := match k with KNop => true | _ => false end.
Definition strip_loops (k : skind) : skind :=
  match k with KAssign x sub rhs _ => KAssign x sub rhs [] | k => k end.
Definition loops_of (k : skind) : list (var * expr * expr) :=
  match k with KAssign _ _ _ loops => loops | _ => [] end.

(* conditional_to_ast, then loop_to_ast_node (loops[0] outermost) *)
Definition guard_node (st : stmt) : ftree :=
  if is_true_const (scond st) then FStmt (strip_loops (skd st))
  else FIf (scond st) (FStmt (strip_loops (skd st))).
Definition nest_of (t : ftree) (loops : list (var * expr * expr)) : ftree :=
  fold_right (fun l t => FFor (fst (fst l)) (snd (fst l)) (snd l) t) t loops.
(* guard_outside = false: loop_to_ast_node wraps the loops around conditional_to_ast(statement);
   guard_outside = true : the conditional is wrapped around loops_to_ast(statement) *)
Definition wrap (guard_outside : bool) (st : stmt) : ftree :=
  if guard_outside then
    let body := nest_of (FStmt (strip_loops (skd st))) (loops_of (skd st)) in
    if is_true_const (scond st) then body else FIf (scond st) body
  else nest_of (guard_node st) (loops_of (skd st)).
Definition emitted (st : stmt) : bool := negb (is_nop (skd st)) && negb (is_false_const (scond st)).
Definition lower (guard_outside : bool) (stmts : list stmt) : list ftree :=
  map (wrap guard_outside) (filter emitted stmts).

(* expand_IfThenElse + an emitter that ignores statement conditions: the else value wins *)
Fixpoint always_else (e : expr) : expr :=
  match e with
  | EIf c t e' => always_else e'
  | ENot a => ENot (always_else a)
  | EBin o a b => EBin o (always_else a) (always_else b)
  | ENary o l => ENary o (map always_else l)
  | e => e
  end.

Fixpoint has_if (e : expr) : bool :=
  match e with
  | EIf _ _ _ => true
  | ENot a => has_if a
  | EBin _ a b => has_if a || has_if b
  | ENary _ l => existsb has_if l
  | _ => false
  end.

Fixpoint uses_ne (e : expr) : bool :=
  match e with
  | EBin (BCmp CNe) _ _ => true
  | EBin _ a b => uses_ne a || uses_ne b
  | ENot a => uses_ne a
  | EIf c t e' => uses_ne c || uses_ne t || uses_ne e'
  | ENary _ l => existsb uses_ne l
  | _ => false
  end.
Definition kind_exprs (k : skind) : list expr :=
  match k with
  | KAssign _ sub rhs loops =>
      rhs :: (match sub with Some ie => [ie] | None => [] end)
          ++ flat_map (fun l => [snd (fst l); snd l]) loops
  | KCall _ _ args kw => args ++ map snd kw
  | KYield _ _ time e => [time; e]
  | _ => []
  end.
Definition stmt_uses_ne (st : stmt) : bool := uses_ne (scond st) || existsb uses_ne (kind_exprs (skd st)).
Definition prog_uses_ne (P : fprog) : bool := existsb (fun ph => existsb stmt_uses_ne (fp_stmts ph)) P.

(* the one modelled cause of a compile failure *)
Definition compiles (ne_fortran : bool) (P : fprog) : bool := ne_fortran || negb (prog_uses_ne P).

Inductive fres :=
| FNext (s : store) (nx : string)          (* fell through; nx = dagrt_next_phase *)
| FExit (s : store) (nx : string)          (* goto 999 *)
| FStopped (s : store) (k : string)        (* Raise: write (stderr) 'k'; stop *)
| FUndef.

Section Target.
  Variable F : string -> list val -> list (string * val) -> option (list val).
  Variable g : bool.                 (* Lang's del_guarded (interpreter only) *)
  (* shape switches, coq/gen/GenC03.v *)
  Variable cond_honoured : bool.     (* lower_inst wraps a statement in `if (condition)` *)
  Variable ite_flag_first : bool.    (* expand_IfThenElse: flag assignment precedes the guarded statements *)
  Variable ubound_m1 : bool.         (* do-loop upper bound is ubound-1 *)
  Variable switch_exits : bool.      (* goto 999 after the assignment of a SwitchPhase *)
  Variable next_first : bool.        (* run assigns the default successor before the call *)
  Variable guard_outside : bool.     (* the guard of a looped assignment is lowered outside its loops *)
  Variable time_ids : list string.

  Definition is_ok {A} (r : rs A) : bool := match r with Ok _ => true | Err _ => false end.

  (* a(int(i)) on an array allocated 0:n-1 *)
  Definition in_range (agg idx : rs val) : bool :=
    match agg, idx with
    | Ok (VArr l), Ok (VInt i) => (0 <=? i) && (i <? Z.of_nat (List.length l))
    | _, _ => false
    end.

  (* is the Fortran evaluation of e defined in s *)
  Fixpoint defd (s : store) (e : expr) {struct e} : bool :=
    match e with
    | EInt _ | EBool _ => true
    | ENone => false
    | EVar x => match s x with Some _ => true | None => false end
    | ENot a => defd s a
    | EIf c t e' =>
        defd s c &&
        (if cond_honoured then
           (* unrepaired expand_IfThenElse: the statements of a nested conditional expression are
              guarded by the outer flag but placed before its assignment (use of an unset logical) *)
           (ite_flag_first || negb (has_if t || has_if e')) &&
           match rbind (snd (eval F s c)) (fun v => lift (truth v)) with
           | Ok true => defd s t
           | Ok false => defd s e'
           | Err _ => false
           end
         else defd s t && is_ok (snd (eval F s t)) && defd s e')
    | EBin o a b =>
        defd s a && defd s b &&
        match o with
        | BSub => in_range (snd (eval F s (if cond_honoured then a else always_else a)))
                           (snd (eval F s (if cond_honoured then b else always_else b)))
        | _ => true
        end
    (* .and. / .or.: an operand after the deciding one need not have a value.  A processor may still
       read it; `false .and. x` is false whatever x holds.  dagrt's own nested guards rely on this:
       `<cond> .and. <cond>_0` where <cond>_0 is assigned only when <cond> holds. *)
    | ENary NAnd l =>
        (fix all (l : list expr) : bool :=
           match l with
           | [] => true
           | a :: r => defd s a &&
                       match rbind (snd (eval F s (if cond_honoured then a else always_else a)))
                                   (fun v => lift (truth v)) with
                       | Ok true => all r | Ok false => true | Err _ => false
                       end
           end) l
    | ENary NOr l =>
        (fix all (l : list expr) : bool :=
           match l with
           | [] => true
           | a :: r => defd s a &&
                       match rbind (snd (eval F s (if cond_honoured then a else always_else a)))
                                   (fun v => lift (truth v)) with
                       | Ok false => all r | Ok true => true | Err _ => false
                       end
           end) l
    | ENary _ l =>
        (fix all (l : list expr) : bool :=
           match l with [] => true | a :: r => defd s a && all r end) l
    end.

  Definition texpr (e : expr) : expr := if cond_honoured then e else always_else e.
  Definition tkind (k : skind) : skind := if cond_honoured then k else map_kind always_else k.

  Definition defd_kind (s : store) (k : skind) : bool :=
    match k with
    | KAssign x sub rhs loops =>
        defd s rhs &&
        match sub with
        | None => true
        | Some ie => defd s ie &&
                     in_range (match s x with Some v => Ok v | None => Err false end)
                              (snd (eval F s (texpr ie)))
        end &&
        match loops with [] => true | _ => false end          (* assert not inst.loops *)
    | KCall _ _ args kw => forallb (defd s) args && forallb (fun p => defd s (snd p)) kw
    | KYield _ _ time e => defd s time && defd s e
    | _ => true
    end.

  Definition put_ret (s : store) (ev : event) : store :=
    match ev with
    | EvYield c tid t v =>
        upd (upd (upd s (ret_tid c) (VInt (index_of tid time_ids 0))) (ret_time c) t) (ret_state c) v
    end.

  (* one emitted statement *)
  Definition fexec_kind (s : store) (nx : string) (k : skind) : fres :=
    if negb (defd_kind s k) then FUndef else
    match snd (exec_kind F g s (tkind k)) with
    | ONext s' None => FNext s' nx
    | ONext s' (Some ev) => FNext (put_ret s' ev) nx
    | OFail => FExit s nx
    | OSwitch p => if switch_exits then FExit s p else FNext s p
    | ORaise k' => FStopped s k'
    | OUserExn | OCrash => FUndef
    end.

  (* if (c) then *)
  Definition tguard (s : store) (c : expr) : option bool :=
    if defd s c then
      match rbind (snd (eval F s (texpr c))) (fun v => lift (truth v)) with
      | Ok b => Some b
      | Err _ => None
      end
    else None.

  (* int(e) of a loop bound *)
  Definition tint (s : store) (e : expr) : option Z :=
    if defd s e then
      match rbind (snd (eval F s (texpr e))) bound_int with
      | Ok z => Some z
      | Err _ => None
      end
    else None.

  (* do v = a, last : trip count max(0, last - a + 1), v = a + trips afterwards *)
  Definition trips (a hi : Z) : nat :=
    if ubound_m1 then Z.to_nat ((hi - 1) - a + 1) else Z.to_nat (hi - a + 1).

  Fixpoint do_loop (body : store -> string -> fres) (v : var) (n : nat) (i : Z) (s : store) (nx : string)
    : fres :=
    match n with
    | O => FNext (upd s v (VInt i)) nx
    | S n' =>
        match body (upd s v (VInt i)) nx with
        | FNext s' nx' => do_loop body v n' (i + 1) s' nx'
        | r => r
        end
    end.

  Fixpoint fexec (t : ftree) (s : store) (nx : string) : fres :=
    match t with
    | FStmt k => fexec_kind s nx k
    | FIf c t' =>
        match tguard s c with
        | None => FUndef
        | Some true => fexec t' s nx
        | Some false => FNext s nx
        end
    | FFor v lo hi b =>
        match tint s lo, tint s hi with
        | Some a, Some z => do_loop (fexec b) v (trips a z) a s nx
        | _, _ => FUndef
        end
    end.

  (* the children of the phase block, top to bottom; lower_ast ends with emit_return (goto 999) *)
  Fixpoint fexec_body (l : list ftree) (s : store) (nx : string) : fres :=
    match l with
    | [] => FNext s nx
    | t :: r =>
        match fexec t s nx with
        | FNext s' nx' => fexec_body r s' nx'
        | o => o
        end
    end.

  (* ---- one call of `run` ---- *)
  Variable is_state : var -> bool.        (* dagrt.utils.is_state_variable: a field of dagrt_state_type *)

  Inductive fout :=
  | FO (s : store) (nx : string)          (* returned normally *)
  | FOHalt (s : store) (k : string)       (* the program stopped in a Raise *)
  | FOInvalid                             (* 'encountered invalid phase in run'; stop *)
  | FOUndef.

  (* variables of the phase subroutine have no value on entry *)
  Definition enter (s : store) : store := fun x => if is_state x then s x else None.

  Definition fcall (P : fprog) (s : store) (nx : string) : fout :=
    match find_phase P nx with
    | None => FOInvalid
    | Some ph =>
        match fexec_body (lower guard_outside (fp_stmts ph)) (enter s) (if next_first then fp_next ph else nx) with
        | FNext s' nx' | FExit s' nx' => FO s' (if next_first then nx' else fp_next ph)
        | FStopped s' k => FOHalt s' k
        | FUndef => FOUndef
        end
    end.

  Fixpoint fcalls (P : fprog) (n : nat) (s : store) (nx : string) : fout :=
    match n with
    | O => FO s nx
    | S m => match fcall P s nx with
             | FO s' nx' => fcalls P m s' nx'
             | o => o
             end
    end.

  (* ---- the interpreter, one step at a time ---- *)
  Variable persistent : var -> bool.      (* kept by the finally clause of run_single_step *)

  Inductive iout :=
  | IO (s : store) (r : store) (nx : string)   (* r: the slots as the yields of all steps so far leave them *)
  | IOHalt (s : store) (r : store) (k : string)
  | IOInvalid                                  (* KeyError: self.code.phases[self.next_phase] *)
  | IOCrash.

  Definition keep (s : store) : store := fun x => if persistent x then s x else None.

  Definition istep (P : fprog) (s r : store) (nx : string) : iout :=
    match find_phase P nx with
    | None => IOInvalid
    | Some ph =>
        match run_list F g (fp_stmts ph) (RRun s []) with
        | RRun s' evs => IO (keep s') (fold_left put_ret evs r) (fp_next ph)
        | RStop s' evs StFail => IO (keep s') (fold_left put_ret evs r) (fp_next ph)
        | RStop s' evs (StSwitch p) => IO (keep s') (fold_left put_ret evs r) p
        | RStop s' evs (StRaise k) => IOHalt (keep s') (fold_left put_ret evs r) k
        | RCrash _ _ => IOCrash
        end
    end.

  Fixpoint isteps (P : fprog) (n : nat) (s r : store) (nx : string) : iout :=
    match n with
    | O => IO s r nx
    | S m => match istep P s r nx with
             | IO s' r' nx' => isteps P m s' r' nx'
             | o => o
             end
    end.

  (* what the property compares after a call: every field of dagrt_state_type *)
  Definition held (s r : store) : store := fun x => if is_ret x then r x else s x.
End Target.

(* ---- the language subset: static conditions on a statement (checked by the harness on every
   generated program, hypotheses of the theorems).  lv = all loop-counter names of the program ---- *)
Definition memb (x : string) (l : list string) : bool := existsb (String.eqb x) l.

Fixpoint loops_ok (lv done : list var) (loops : list (var * expr * expr)) : bool :=
  match loops with
  | [] => true
  | (v, lo, hi) :: r =>
      forallb (fun y => negb (memb y lv) || memb y done) (vars lo ++ vars hi)
      && negb (memb v done) && loops_ok lv (v :: done) r
  end.

Section Supported.
  Variable is_state : var -> bool.
  Variable lv : list var.

  Definition plain (y : var) : bool := negb (is_ret y) && negb (memb y lv).

  Definition stmt_ok (st : stmt) : bool :=
    (* the guard mentions neither loop counters nor return slots nor anything the statement writes *)
    forallb (fun y => plain y && negb (memb y (writes st))) (vars (scond st))
    (* what the statement reads: no return slots; loop counters only its own *)
    && forallb (fun y => negb (is_ret y) && (negb (memb y lv) || memb y (loopvars (skd st))))
               (kind_reads true true (skd st))
    && forallb plain (writes st)
    (* loop counters are local names; bounds mention outer counters only *)
    && forallb (fun v => negb (is_state v) && negb (is_ret v)) (loopvars (skd st))
    && loops_ok lv [] (loops_of (skd st)).

  Definition phase_ok (ph : fphase) : bool := forallb stmt_ok (fp_stmts ph).
End Supported.

Definition prog_loopvars (P : fprog) : list var :=
  flat_map (fun ph => flat_map (fun st => loopvars (skd st)) (fp_stmts ph)) P.
Definition supported (is_state : var -> bool) (P : fprog) : bool :=
  forallb (phase_ok is_state (prog_loopvars P)) P.

(* ---- builder programs: one CodeBuilder per phase ---- *)
Record bphase := mkB { bp_name : string; bp_next : string; bp_calls : list bcall }.

Section Build.
  Variable lhs_sub_reads loop_bound_reads : bool.
  Variable is_state : var -> bool.
  Variable tok : var.
  Fixpoint build_prog (l : list bphase) : option fprog :=
    match l with
    | [] => Some []
    | b :: r =>
        match build lhs_sub_reads loop_bound_reads is_state tok (bp_calls b), build_prog r with
        | BOk bs, Some P => Some (mkPhase (bp_name b) (bp_next b) (b_stmts bs) :: P)
        | _, _ => None
        end
    end.
End Build.

(* ---- user functions and built-ins available to generated programs (harness/fortran_rt.py
   USER_FUNCS, dagrt/builtins_python.py) ---- *)
Definition F03 (f : string) (pos : list val) (kw : list (string * val)) : option (list val) :=
  if String.eqb f "<func>sq" then
    match pos, kw with
    | [VInt x], [] => Some [VInt (x * x + 1)]
    | [VInt x; VInt y], [] => Some [VInt (x * x + y)]
    | [VInt x], [(_, VInt y)] => Some [VInt (x * x + y)]
    | _, _ => None
    end
  else if String.eqb f "<func>two" then
    match pos, kw with
    | [VInt x], [] => Some [VInt (x + 1); VInt (2 * x)]
    | _, _ => None
    end
  else if String.eqb f "<func>rhs" then
    match pos, kw with
    | [VInt t; VArr y], [] => Some [VArr (map (fun z => 2 * z + t) y)]
    | _, _ => None
    end
  else if String.eqb f "<func>rhsz" then
    match pos, kw with
    | [VInt t; VArr z], [] => Some [VArr (map (fun x => 3 * x - t) z)]
    | _, _ => None
    end
  else if String.eqb f "<func>rhsw" then
    match pos, kw with
    | [VInt t; VArr w], [] => Some [VArr (map (fun x => t - x) w)]
    | _, _ => None
    end
  else if String.eqb f "<builtin>elementwise_abs" then
    match pos, kw with
    | [VArr l], [] => Some [VArr (map Z.abs l)]
    | [VInt x], [] => Some [VInt (Z.abs x)]
    | _, _ => None
    end
  else if String.eqb f "<builtin>isnan" then
    match pos, kw with
    | [VArr _], [] | [VInt _], [] => Some [VBool false]       (* integer-valued data has no NaN *)
    | _, _ => None
    end
  else if String.eqb f "<builtin>len" then
    match pos, kw with
    | [VArr l], [] => Some [VInt (Z.of_nat (List.length l))]
    | _, _ => None
    end
  else if String.eqb f "<builtin>array" then
    match pos, kw with
    | [VInt n], [] => Some [VArr (repeat 0 (Z.to_nat n))]
    | _, _ => None
    end
  else None.

(* ---- helper subroutines of called functions (fortran.py emit_inst_AssignFunctionCall /
   finish_emit / emit_dagrt_function) ----
   The generator emits ONE subroutine per key (function identifier, kinds of the arguments) -- the
   key is pinned fail-closed by harness/tr/c03.py (c03_helper_key) -- and the body of a built-in
   that walks the Fortran type of a user-type argument (len, norm_2, isnan, elementwise_abs) has
   the extents of THAT user type written into it.  In the model a call is evaluated by F on its own
   argument values, i.e. by the helper instantiated for its own argument kinds; `helper` makes the
   instantiation explicit: a helper made for the kinds ks is the function restricted to arguments of
   those kinds, it has no defined behaviour on others (in particular on a vector of another extent:
   the value-level shadow of "another user type"). *)
Inductive akind := AInt | ABool | ANone | AVec (extent : nat).
Definition kind_of_val (v : val) : akind :=
  match v with
  | VInt _ => AInt | VBool _ => ABool | VNone => ANone
  | VArr l => AVec (List.length l)
  end.
Definition akind_eqb (a b : akind) : bool :=
  match a, b with
  | AInt, AInt | ABool, ABool | ANone, ANone => true
  | AVec n, AVec m => Nat.eqb n m
  | _, _ => false
  end.
Fixpoint akinds_eqb (a b : list akind) : bool :=
  match a, b with
  | [], [] => true
  | x :: a', y :: b' => akind_eqb x y && akinds_eqb a' b'
  | _, _ => false
  end.
Definition helper_key (f : string) (pos : list val) : string * list akind := (f, map kind_of_val pos).
Definition helper (F : string -> list val -> list (string * val) -> option (list val))
           (key : string * list akind) (pos : list val) (kw : list (string * val)) : option (list val) :=
  if akinds_eqb (snd key) (map kind_of_val pos) then F (fst key) pos kw else None.
